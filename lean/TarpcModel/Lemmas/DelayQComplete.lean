import TarpcModel.Lemmas.DelayQSlots
/-!
Two-sided invariant of the timer-wheel emulation `Prim/DelayQ.lean` (the "not late" direction; the
"never early" direction is `Sound` in `Lemmas/DelayQFacts.lean`).

* `Pos E e` (`PosN` in `Lemmas/DelayQSlots.lean`): entry `e` (deadline `w`, level `L`) is filed at a
  two-sided position relative to the wheel clock `E = wheelElapsed`: `L ≤ 5`,
  `E ≤ slotStart w L` and `slotStart w L < winEnd E L` — the slot lies in the level-`L` block
  containing `E` (`L < 5`), resp. within one rotation of the start of the top-level slot containing
  `E` (`L = 5`).  It makes the deadline `levelNextExpiration` computes for `e`'s slot equal to the
  start of that slot (`posN_exDeadline`).
* `WStrict q`: all wheel entries satisfy `Pos`, and at levels ≥ 1 the slot is strictly in the future
  of the wheel clock.  `WLoop q t`: the weaker loop invariant inside `wheelPoll` (right after a cascade
  the lowest occupied level may have entries in the slot starting exactly at the wheel clock).
* `IsNext q ex` / `nextExpiration_isNext`: `nextExpiration` returns the globally earliest slot.
* `pot`: potential `Σ level`; each cascade round lowers it, which bounds the rounds of `wheelPoll`
  and `pollIdx` by the fuel the model gives them (`wheelPoll_complete`, `pollIdx_complete`,
  `wheelPoll_fuel_irrel`, `pollIdx_fuel_irrel`).
* `DelayOk q`: the registered `Sleep` (`delay`) exists when the wheel is non-empty and is not after
  any wheel entry.
* `Complete q` = `WStrict` + `DelayOk` + "the `expired` stack holds elapsed entries"; preserved by
  `insert` (within `whenOf < slotStart wheelElapsed 5 + 2^36`), `remove`, `pollExpired`.
-/
namespace TarpcModel.DelayQ

/-! ### `levelNextExpiration`, `nextExpiration` -/

theorem foldl_min_spec (f : DqEntry → Nat) (l : List DqEntry) (init : Nat) :
    l.foldl (fun acc e => if f e < acc then f e else acc) init ≤ init ∧
    (∀ e ∈ l, l.foldl (fun acc e => if f e < acc then f e else acc) init ≤ f e) ∧
    (l.foldl (fun acc e => if f e < acc then f e else acc) init = init ∨
      ∃ e ∈ l, l.foldl (fun acc e => if f e < acc then f e else acc) init = f e) := by
  induction l generalizing init with
  | nil => simp
  | cons x xs ih =>
    simp only [List.foldl_cons, List.mem_cons, forall_eq_or_imp]
    obtain ⟨h1, h2, h3⟩ := ih (if f x < init then f x else init)
    by_cases hc : f x < init
    · simp only [hc, if_true] at h1 h2 h3 ⊢
      refine ⟨by omega, ⟨h1, h2⟩, ?_⟩
      rcases h3 with h3 | ⟨e, he, h3⟩
      · exact .inr ⟨x, .inl rfl, h3⟩
      · exact .inr ⟨e, .inr he, h3⟩
    · simp only [hc, if_false] at h1 h2 h3 ⊢
      refine ⟨h1, ⟨by omega, h2⟩, ?_⟩
      rcases h3 with h3 | ⟨e, he, h3⟩
      · exact .inl h3
      · exact .inr ⟨e, .inr he, h3⟩

theorem levelNextExpiration_none_iff (q : DelayQ) (L : Nat) :
    levelNextExpiration q L = none ↔ ∀ e ∈ q.entries, e.level ≠ L := by
  unfold levelNextExpiration
  simp only
  split
  · next h =>
    simp only [List.isEmpty_iff, List.filter_eq_nil_iff, beq_iff_eq] at h
    simp only [true_iff]
    exact h
  · next h =>
    simp only [List.isEmpty_iff, List.filter_eq_nil_iff, beq_iff_eq] at h
    simp only [reduceCtorEq, false_iff]
    exact h

/-- the slot `levelNextExpiration` selects is the slot of an entry of that level with minimal rotation
distance from the slot of the wheel clock -/
theorem levelNextExpiration_some_min {q : DelayQ} {L : Nat} {ex : Expiration}
    (h : levelNextExpiration q L = some ex) :
    ∃ m ∈ q.entries, m.level = L ∧ ex.slot = slotFor m.whenMs L ∧
      ∀ e ∈ q.entries, e.level = L → dist q.wheelElapsed m.whenMs L ≤ dist q.wheelElapsed e.whenMs L := by
  unfold levelNextExpiration at h
  simp only at h
  split at h
  · cases h
  · next hne =>
    cases h
    simp only
    obtain ⟨h1, h2, h3⟩ := foldl_min_spec (fun e => dist q.wheelElapsed e.whenMs L)
      (q.entries.filter (·.level == L)) 64
    simp only [List.isEmpty_iff] at hne
    obtain ⟨x, hx⟩ := List.exists_mem_of_ne_nil _ hne
    have hx64 : dist q.wheelElapsed x.whenMs L < 64 := Nat.mod_lt _ (by decide)
    have hbx := h2 x hx
    rcases h3 with h3 | ⟨m, hm, h3⟩
    · exfalso; omega
    · have hm' := List.mem_filter.1 hm
      refine ⟨m, hm'.1, by simpa using hm'.2, ?_, ?_⟩
      · show (List.foldl (fun acc e => if dist q.wheelElapsed e.whenMs L < acc then dist q.wheelElapsed e.whenMs L else acc)
          64 (q.entries.filter (·.level == L)) + slotFor q.wheelElapsed L) % 64 = slotFor m.whenMs L
        rw [h3]
        unfold dist slotFor
        omega
      · intro e he hl
        rw [← h3]
        exact h2 e (List.mem_filter.2 ⟨he, by simpa using hl⟩)

theorem nextExpiration_none_iff (q : DelayQ) :
    nextExpiration q = none ↔ ∀ e ∈ q.entries, 6 ≤ e.level := by
  unfold nextExpiration
  simp only [List.findSome?_eq_none_iff, List.mem_range, levelNextExpiration_none_iff]
  constructor
  · intro h e he
    apply Classical.byContradiction
    intro hlt
    exact h e.level (by omega) e he rfl
  · intro h L hL e he heq
    have := h e he; omega

theorem nextExpiration_some_lowest {q : DelayQ} {ex : Expiration} (h : nextExpiration q = some ex) :
    ∃ L, L ≤ 5 ∧ levelNextExpiration q L = some ex ∧ ∀ e ∈ q.entries, e.level < L → False := by
  unfold nextExpiration at h
  rw [List.findSome?_eq_some_iff] at h
  obtain ⟨l1, L, l2, hl, hex, hnone⟩ := h
  have hLm : L ∈ List.range 6 := by rw [hl]; simp
  refine ⟨L, by have := List.mem_range.1 hLm; omega, hex, ?_⟩
  intro e he hlt
  -- every level below `L` precedes it in `range 6`
  have hmem : e.level ∈ l1 := by
    have hnd : (List.range 6).Nodup := List.nodup_range
    have hin : e.level ∈ List.range 6 := List.mem_range.2 (by have := List.mem_range.1 hLm; omega)
    rw [hl] at hin
    rcases List.mem_append.1 hin with h1 | h1
    · exact h1
    · exfalso
      rcases List.mem_cons.1 h1 with h1 | h1
      · omega
      · -- `e.level` after `L` in a sorted list: contradiction
        have hs : (List.range 6).Pairwise (· < ·) := List.pairwise_lt_range
        rw [hl] at hs
        have := (List.pairwise_append.1 hs).2.1
        have := (List.pairwise_cons.1 this).1 _ h1
        omega
  have := hnone _ hmem
  rw [levelNextExpiration_none_iff] at this
  exact this e he rfl

/-! ### the two-sided wheel invariant -/

/-- entry `e` is filed where the wheel clock `E` expects it -/
def Pos (E : Nat) (e : DqEntry) : Prop := PosN E e.whenMs e.level

/-- start (ms) of the slot in which `e` is filed -/
def sst (e : DqEntry) : Nat := slotStart e.whenMs e.level

/-- the entry is filed in slot `s` of level `L` -/
def atSlot (L s : Nat) (e : DqEntry) : Bool := e.level == L && slotFor e.whenMs L == s

theorem atSlot_iff {L s : Nat} {e : DqEntry} : atSlot L s e = true ↔ e.level = L ∧ slotFor e.whenMs L = s := by
  simp [atSlot]

/-- Wheel invariant at the API boundary: every entry is at a two-sided position, and entries of the
levels ≥ 1 are filed in a slot strictly in the future of the wheel clock. -/
structure WStrict (q : DelayQ) : Prop where
  pos : ∀ e ∈ q.entries, Pos q.wheelElapsed e
  str : ∀ e ∈ q.entries, 1 ≤ e.level → q.wheelElapsed < sst e

/-- Loop invariant of `wheelPoll` at poll time `t` (ms): right after a cascade the entries of the
lowest occupied level may sit in the slot that starts exactly at the wheel clock. -/
structure WLoop (q : DelayQ) (t : Nat) : Prop where
  pos : ∀ e ∈ q.entries, Pos q.wheelElapsed e
  wstr : ∀ e ∈ q.entries, 1 ≤ e.level →
    q.wheelElapsed < sst e ∨ ((∀ y ∈ q.entries, e.level ≤ y.level) ∧ q.wheelElapsed ≤ t)

theorem WStrict.loop {q : DelayQ} (h : WStrict q) (t : Nat) : WLoop q t :=
  ⟨h.pos, fun e he hl => .inl (h.str e he hl)⟩

theorem sst_le (e : DqEntry) : sst e ≤ e.whenMs := slotStart_le _ _

/-- What `nextExpiration` returns on a well-formed wheel: the lowest occupied level, the occupied slot
of that level with the earliest start, and that start as deadline — which is strictly before the
slot of every entry filed elsewhere. -/
structure IsNext (q : DelayQ) (ex : Expiration) : Prop where
  lvl : ex.level ≤ 5
  lowest : ∀ y ∈ q.entries, ex.level ≤ y.level
  occ : ∃ m ∈ q.entries, atSlot ex.level ex.slot m = true
  inSlot : ∀ y ∈ q.entries, atSlot ex.level ex.slot y = true → sst y = ex.deadline
  other : ∀ y ∈ q.entries, atSlot ex.level ex.slot y = false → ex.deadline < sst y
  ge : q.wheelElapsed ≤ ex.deadline

theorem nextExpiration_isNext {q : DelayQ} {t : Nat} {ex : Expiration} (h : WLoop q t)
    (hex : nextExpiration q = some ex) : IsNext q ex := by
  obtain ⟨L, hL5, hlev, hlow⟩ := nextExpiration_some_lowest hex
  obtain ⟨hl, hs64, hdl⟩ := levelNextExpiration_some_f hlev
  obtain ⟨m, hm, hmL, hslot, hmin⟩ := levelNextExpiration_some_min hlev
  subst hl
  have hpm : PosN q.wheelElapsed m.whenMs ex.level := hmL ▸ h.pos m hm
  have hD : ex.deadline = slotStart m.whenMs ex.level := by
    rw [hdl, hslot]; exact posN_exDeadline hpm
  have hlowest : ∀ y ∈ q.entries, ex.level ≤ y.level := by
    intro y hy
    apply Classical.byContradiction
    intro hlt
    exact hlow y hy (by omega)
  refine ⟨hL5, hlowest, ⟨m, hm, atSlot_iff.2 ⟨hmL, hslot.symm⟩⟩, ?_, ?_, ?_⟩
  · intro y hy hat
    obtain ⟨hyL, hys⟩ := atSlot_iff.1 hat
    have hpy : PosN q.wheelElapsed y.whenMs ex.level := hyL ▸ h.pos y hy
    rw [hD, sst, hyL]
    exact posN_same_slot hpy hpm (by rw [hys, hslot])
  · intro y hy hat
    have hpy : PosN q.wheelElapsed y.whenMs y.level := h.pos y hy
    by_cases hyL : y.level = ex.level
    · -- same level, other slot
      have hpy' : PosN q.wheelElapsed y.whenMs ex.level := hyL ▸ hpy
      have hle : slotStart m.whenMs ex.level ≤ slotStart y.whenMs ex.level :=
        posN_dist_le hpm hpy' (hmin y hy hyL)
      have hne : slotStart m.whenMs ex.level ≠ slotStart y.whenMs ex.level := by
        intro heq
        have := slotFor_eq_of_slotStart_eq heq
        have : atSlot ex.level ex.slot y = true := atSlot_iff.2 ⟨hyL, by rw [← this, hslot]⟩
        rw [hat] at this; cases this
      rw [hD, sst, hyL]; omega
    · -- a higher level: strictly in the future, hence after the whole block of the lower level
      have hlt : ex.level < y.level := by have := hlowest y hy; omega
      have hstr : q.wheelElapsed < sst y := by
        rcases h.wstr y hy (by omega) with h1 | ⟨h1, _⟩
        · exact h1
        · have := h1 m hm; omega
      have := posN_cross hpm hpy hlt hstr
      have hpos : 0 < 64 ^ ex.level := Nat.pow_pos (by decide)
      rw [hD, sst]; omega
  · rw [hD]; exact hpm.2.1

/-! ### `slotTop`, potential, `cascade` -/

theorem slotTop_fold_isSome (l : List DqEntry) (acc : Option DqEntry) (h : l ≠ [] ∨ acc.isSome) :
    (l.foldl (fun acc e => match acc with
      | none => some e
      | some a => if e.seq > a.seq then some e else some a) acc).isSome := by
  induction l generalizing acc with
  | nil => simpa using h
  | cons x xs ih =>
    simp only [List.foldl_cons]
    apply ih
    right
    cases acc with
    | none => rfl
    | some a => simp only; split <;> rfl

theorem slotTop_eq_filter (q : DelayQ) (L s : Nat) :
    slotTop q L s = (q.entries.filter (atSlot L s)).foldl
      (fun acc e => match acc with
        | none => some e
        | some a => if e.seq > a.seq then some e else some a) none := rfl

theorem slotTop_isSome {q : DelayQ} {L s : Nat} {m : DqEntry} (hm : m ∈ q.entries) (hat : atSlot L s m = true) :
    ∃ e, slotTop q L s = some e := by
  have : (slotTop q L s).isSome := by
    rw [slotTop_eq_filter]
    apply slotTop_fold_isSome
    left
    exact List.ne_nil_of_mem (List.mem_filter.2 ⟨hm, hat⟩)
  exact Option.isSome_iff_exists.1 this

theorem slotTop_at {q : DelayQ} {L s : Nat} {e : DqEntry} (h : slotTop q L s = some e) :
    e ∈ q.entries ∧ atSlot L s e = true := by
  obtain ⟨h1, h2, h3⟩ := slotTop_some_f h
  exact ⟨h1, atSlot_iff.2 ⟨h2, h3⟩⟩

/-- potential: the number of cascade steps the entries can still undergo -/
def potL (l : List DqEntry) : Nat := (l.map (·.level)).sum

def pot (q : DelayQ) : Nat := potL q.entries

theorem potL_le {l : List DqEntry} (h : ∀ e ∈ l, e.level ≤ 5) : potL l ≤ 5 * l.length := by
  induction l with
  | nil => simp [potL]
  | cons x xs ih =>
    have := ih (fun e he => h e (List.mem_cons_of_mem _ he))
    have := h x List.mem_cons_self
    simp only [potL, List.map_cons, List.sum_cons, List.length_cons] at *
    omega

theorem potL_filter_le (p : DqEntry → Bool) (l : List DqEntry) : potL (l.filter p) ≤ potL l := by
  induction l with
  | nil => simp [potL]
  | cons x xs ih =>
    simp only [List.filter_cons]
    split <;> simp only [potL, List.map_cons, List.sum_cons] at * <;> omega

theorem potL_filter_key {l : List DqEntry} {e : DqEntry} (he : e ∈ l) :
    potL (l.filter (·.key != e.key)) + e.level ≤ potL l := by
  induction l with
  | nil => cases he
  | cons x xs ih =>
    rcases List.mem_cons.1 he with rfl | he
    · have := potL_filter_le (·.key != e.key) xs
      simp only [List.filter_cons, bne_self_eq_false, Bool.false_eq_true, if_false]
      simp only [potL, List.map_cons, List.sum_cons] at *
      omega
    · have := ih he
      simp only [List.filter_cons]
      split <;> simp only [potL, List.map_cons, List.sum_cons] at * <;> omega

theorem pot_bump {q : DelayQ} {e : DqEntry} (he : e ∈ q.entries) (hl : 1 ≤ e.level) :
    pot (bump q e (e.level - 1)) + 1 ≤ pot q := by
  have := potL_filter_key he
  simp only [pot, bump, potL, List.map_append, List.sum_append, List.map_cons, List.map_nil, List.sum_cons,
    List.sum_nil] at *
  omega

theorem pot_pop (q : DelayQ) (e : DqEntry) : pot (pop q e) ≤ pot q := potL_filter_le _ _

/-- number of entries filed in slot `(L, s)` -/
def cnt (q : DelayQ) (L s : Nat) : Nat := (q.entries.filter (atSlot L s)).length

theorem cnt_le_len (q : DelayQ) (L s : Nat) : cnt q L s ≤ q.entries.length := List.length_filter_le _ _

theorem cnt_eq_zero {q : DelayQ} {L s : Nat} (h : cnt q L s = 0) : ∀ x ∈ q.entries, atSlot L s x = false := by
  intro x hx
  have := List.eq_nil_of_length_eq_zero h
  rw [List.filter_eq_nil_iff] at this
  simpa using this x hx

theorem cnt_bump {q : DelayQ} {L s : Nat} {e : DqEntry} (he : e ∈ q.entries) (hat : atSlot L s e = true)
    (hl : 1 ≤ L) : cnt (bump q e (L - 1)) L s + 1 ≤ cnt q L s := by
  have hnew : atSlot L s { e with level := L - 1, seq := q.seqCtr } = false := by
    have : (L - 1 == L) = false := by simp; omega
    simp [atSlot, this]
  have hlt : ((q.entries.filter (atSlot L s)).filter (·.key != e.key)).length <
      (q.entries.filter (atSlot L s)).length :=
    length_filter_lt (List.mem_filter.2 ⟨he, hat⟩) rfl
  simp only [cnt, bump, List.filter_append, List.length_append, List.filter_cons, hnew, List.filter_nil,
    Bool.false_eq_true, if_false, List.length_nil, Nat.add_zero]
  rw [List.filter_filter] at hlt ⊢
  have : (q.entries.filter (fun a => atSlot L s a && (a.key != e.key))).length =
      (q.entries.filter (fun a => (a.key != e.key) && atSlot L s a)).length := by
    congr 1; apply List.filter_congr; intro x _; exact Bool.and_comm _ _
  omega

/-- a cascade with enough fuel empties the slot -/
theorem cascade_clears (L s : Nat) (hl : 1 ≤ L) : ∀ (fuel : Nat) (q : DelayQ), cnt q L s ≤ fuel →
    cnt (cascade fuel q L s) L s = 0
  | 0, q, h => by simpa [cascade] using h
  | fuel + 1, q, h => by
    rw [cascade_succ]
    split
    · next hnone =>
      apply Classical.byContradiction
      intro hne
      have : (q.entries.filter (atSlot L s)) ≠ [] := by
        intro h0; apply hne; simp [cnt, h0]
      obtain ⟨m, hm⟩ := List.exists_mem_of_ne_nil _ this
      obtain ⟨hm1, hm2⟩ := List.mem_filter.1 hm
      obtain ⟨e, he⟩ := slotTop_isSome hm1 hm2
      rw [he] at hnone; cases hnone
    · next e he =>
      obtain ⟨he1, he2⟩ := slotTop_at he
      have := cnt_bump he1 he2 hl
      exact cascade_clears L s hl fuel _ (by omega)

theorem cascade_pot_le (L s : Nat) (hl : 1 ≤ L) : ∀ (fuel : Nat) (q : DelayQ), pot (cascade fuel q L s) ≤ pot q
  | 0, q => Nat.le_refl _
  | fuel + 1, q => by
    rw [cascade_succ]
    split
    · exact Nat.le_refl _
    · next e he =>
      obtain ⟨he1, he2⟩ := slotTop_at he
      have hlv : e.level = L := (atSlot_iff.1 he2).1
      have := pot_bump he1 (by omega)
      rw [hlv] at this
      have := cascade_pot_le L s hl fuel (bump q e (L - 1))
      omega

theorem cascade_pot_lt {L s : Nat} (hl : 1 ≤ L) {fuel : Nat} {q : DelayQ} {m : DqEntry} (hm : m ∈ q.entries)
    (hat : atSlot L s m = true) : pot (cascade (fuel + 1) q L s) + 1 ≤ pot q := by
  rw [cascade_succ]
  obtain ⟨e, he⟩ := slotTop_isSome hm hat
  rw [he]
  simp only
  obtain ⟨he1, he2⟩ := slotTop_at he
  have hlv : e.level = L := (atSlot_iff.1 he2).1
  have := pot_bump he1 (by omega)
  rw [hlv] at this
  have := cascade_pot_le L s hl fuel (bump q e (L - 1))
  omega

/-! ### `wheelPoll` -/

/-- `set_elapsed` -/
def advanceTo (q : DelayQ) (d : Nat) : DelayQ := { q with wheelElapsed := max q.wheelElapsed d }

@[simp] theorem advanceTo_entries (q : DelayQ) (d : Nat) : (advanceTo q d).entries = q.entries := rfl
@[simp] theorem advanceTo_expired (q : DelayQ) (d : Nat) : (advanceTo q d).expired = q.expired := rfl
@[simp] theorem advanceTo_elapsed (q : DelayQ) (d : Nat) :
    (advanceTo q d).wheelElapsed = max q.wheelElapsed d := rfl
@[simp] theorem advanceTo_pot (q : DelayQ) (d : Nat) : pot (advanceTo q d) = pot q := rfl

theorem wheelPoll_succ' (fuel : Nat) (q : DelayQ) (now : Nat) :
    wheelPoll (fuel + 1) q now =
      match nextExpiration q with
      | none => (advanceTo q now, none)
      | some ex =>
          if ex.deadline > now then (advanceTo q now, none)
          else if ex.level == 0 then
            match slotTop q 0 ex.slot with
            | some e => (pop q e, some e)
            | none => (q, none)
          else
            wheelPoll fuel (advanceTo (cascade (q.entries.length + 1) q ex.level ex.slot) ex.deadline) now :=
  rfl

/-- one cascade round keeps the loop invariant and uses up potential -/
theorem cascade_WLoop {q qc : DelayQ} {t : Nat} {ex : Expiration} (h : WLoop q t) (hn : IsNext q ex)
    (hl0 : ex.level ≠ 0) (hd : ex.deadline ≤ t)
    (hqc : qc = cascade (q.entries.length + 1) q ex.level ex.slot) :
    WLoop (advanceTo qc ex.deadline) t ∧ pot qc + 1 ≤ pot q := by
  have hl1 : 1 ≤ ex.level := by omega
  obtain ⟨f1, -, -⟩ := cascade_fields ex.level ex.slot (q.entries.length + 1) q
  have hent := cascade_entries ex.level ex.slot (q.entries.length + 1) q
  have hclr := cnt_eq_zero (cascade_clears ex.level ex.slot hl1 (q.entries.length + 1) q
    (Nat.le_trans (cnt_le_len _ _ _) (Nat.le_succ _)))
  rw [← hqc] at f1 hent hclr
  have hmax : max qc.wheelElapsed ex.deadline = ex.deadline := by
    rw [f1]; exact Nat.max_eq_right hn.ge
  -- the two kinds of entries after the cascade
  have hcase : ∀ x ∈ qc.entries,
      (x ∈ q.entries ∧ ex.deadline < sst x) ∨
      (x.level = ex.level - 1 ∧ Pos ex.deadline x) := by
    intro x hx
    rcases hent x hx with hold | ⟨hlv, e, he, hel, hes, hw⟩
    · exact .inl ⟨hold, hn.other x hold (hclr x hx)⟩
    · right
      refine ⟨hlv, ?_⟩
      have hsst : sst e = ex.deadline := hn.inSlot e he (atSlot_iff.2 ⟨hel, hes⟩)
      have hp : PosN q.wheelElapsed e.whenMs ex.level := hel ▸ h.pos e he
      have := posN_cascade hp hl1
      unfold Pos
      rw [hlv, hw, ← hsst, sst, hel]
      exact this
  constructor
  · constructor
    · intro x hx
      show Pos (max qc.wheelElapsed ex.deadline) x
      rw [hmax]
      rcases hcase x hx with ⟨hold, hlt⟩ | ⟨_, hp⟩
      · exact posN_mono (h.pos x hold) hn.ge (Nat.le_of_lt hlt)
      · exact hp
    · intro x hx hl
      show max qc.wheelElapsed ex.deadline < sst x ∨
        ((∀ y ∈ qc.entries, x.level ≤ y.level) ∧ max qc.wheelElapsed ex.deadline ≤ t)
      rw [hmax]
      rcases hcase x hx with ⟨_, hlt⟩ | ⟨hlv, _⟩
      · exact .inl hlt
      · right
        refine ⟨?_, hd⟩
        intro y hy
        rcases hcase y hy with ⟨hold, _⟩ | ⟨hlv', _⟩
        · have := hn.lowest y hold; omega
        · omega
  · obtain ⟨m, hm, hat⟩ := hn.occ
    rw [hqc]
    exact cascade_pot_lt hl1 hm hat

/-- What `Wheel::poll` at time `t` (ms) achieves on a well-formed wheel. -/
structure WPOut (q : DelayQ) (t : Nat) (q' : DelayQ) (r : Option DqEntry) : Prop where
  strict : WStrict q'
  potle : DelayQ.pot q' ≤ DelayQ.pot q
  mono : q.wheelElapsed ≤ q'.wheelElapsed
  none_lt : r = none → ∀ y ∈ q'.entries, t < sst y
  progress : r = none → ∀ ex, nextExpiration q = some ex → ex.deadline ≤ t → DelayQ.pot q' + 1 ≤ DelayQ.pot q

theorem wheelPoll_complete (t : Nat) : ∀ (fuel : Nat) (q : DelayQ), WLoop q t → pot q + 1 ≤ fuel →
    WPOut q t (wheelPoll fuel q t).1 (wheelPoll fuel q t).2 := by
  intro fuel
  induction fuel with
  | zero => intro q _ hf; omega
  | succ fuel ih =>
    intro q h hf
    rw [wheelPoll_succ']
    split
    · next hnone =>
      -- the wheel is empty
      have hemp : ∀ e ∈ q.entries, False := by
        intro e he
        have h1 := (nextExpiration_none_iff q).1 hnone e he
        have h2 := (h.pos e he).1
        omega
      exact ⟨⟨fun e he => (hemp e he).elim, fun e he => (hemp e he).elim⟩, Nat.le_refl _,
        Nat.le_max_left _ _, fun _ y hy => (hemp y hy).elim, fun _ ex hex => by rw [hnone] at hex; cases hex⟩
    · next ex hex =>
      have hn := nextExpiration_isNext h hex
      have hge : ∀ y ∈ q.entries, ex.deadline ≤ sst y := by
        intro y hy
        cases hat : atSlot ex.level ex.slot y with
        | true => exact Nat.le_of_eq (hn.inSlot y hy hat).symm
        | false => exact Nat.le_of_lt (hn.other y hy hat)
      split
      · next hgt =>
        -- nothing is due: all entries are strictly in the future
        have hstr : ∀ e ∈ q.entries, 1 ≤ e.level → q.wheelElapsed < sst e := by
          intro e he hl
          rcases h.wstr e he hl with h1 | ⟨_, h1⟩
          · exact h1
          · have := hge e he
            have := (h.pos e he).2.1
            show q.wheelElapsed < sst e
            unfold sst at *
            omega
        refine ⟨⟨?_, ?_⟩, Nat.le_refl _, Nat.le_max_left _ _, ?_, ?_⟩
        · intro e he
          have := hge e he
          exact posN_mono (h.pos e he) (Nat.le_max_left _ _)
            (Nat.max_le.2 ⟨(h.pos e he).2.1, by unfold sst at this; omega⟩)
        · intro e he hl
          have := hge e he
          have := hstr e he hl
          show max q.wheelElapsed t < sst e
          exact Nat.max_lt.2 ⟨this, by omega⟩
        · intro _ y hy
          have := hge y hy
          omega
        · intro _ ex' hex' hle
          rw [hex] at hex'; cases hex'
          omega
      · next hle =>
        have hle : ex.deadline ≤ t := Nat.le_of_not_gt hle
        split
        · next hl0 =>
          have hl0 : ex.level = 0 := by simpa using hl0
          obtain ⟨m, hm, hat⟩ := hn.occ
          split
          · next e he =>
            refine ⟨⟨?_, ?_⟩, pot_pop q e, Nat.le_refl _, fun hr => by simp at hr, fun hr => by simp at hr⟩
            · intro x hx
              exact h.pos x (List.mem_filter.1 hx).1
            · intro x hx hl
              have hx' := (List.mem_filter.1 hx).1
              rcases h.wstr x hx' hl with h1 | ⟨h1, _⟩
              · exact h1
              · have := h1 m hm
                have := (atSlot_iff.1 hat).1
                omega
          · next hnone =>
            obtain ⟨e, he⟩ := slotTop_isSome hm hat
            rw [hl0] at he
            rw [he] at hnone; cases hnone
        · next hl0 =>
          have hl0 : ex.level ≠ 0 := by simpa using hl0
          obtain ⟨hloop, hpot⟩ := cascade_WLoop h hn hl0 hle rfl
          have := ih _ hloop (by rw [advanceTo_pot]; omega)
          obtain ⟨f1, -, -⟩ := cascade_fields ex.level ex.slot (q.entries.length + 1) q
          have h1 := this.potle
          rw [advanceTo_pot] at h1
          refine ⟨this.strict, by omega, ?_, this.none_lt, fun _ _ _ _ => by omega⟩
          refine Nat.le_trans ?_ this.mono
          rw [advanceTo_elapsed, f1]; exact Nat.le_max_left _ _

/-! ### `pollIdx` -/

theorem WStrict.of_eq {q q' : DelayQ} (h : WStrict q) (he : q'.entries = q.entries)
    (hE : q'.wheelElapsed = q.wheelElapsed) : WStrict q' :=
  ⟨by rw [he, hE]; exact h.pos, by rw [he, hE]; exact h.str⟩

theorem nextExpiration_congr {q q' : DelayQ} (he : q'.entries = q.entries)
    (hE : q'.wheelElapsed = q.wheelElapsed) : nextExpiration q' = nextExpiration q := by
  have : levelNextExpiration q' = levelNextExpiration q := by
    funext L
    simp only [levelNextExpiration, he, hE]
  simp only [nextExpiration, this]

theorem nextDeadline_congr {q q' : DelayQ} (he : q'.entries = q.entries)
    (hE : q'.wheelElapsed = q.wheelElapsed) : nextDeadline q' = nextDeadline q := by
  simp only [nextDeadline, nextExpiration_congr he hE]

/-- on a well-formed wheel the next deadline is not after any entry … -/
theorem nextDeadline_le {q : DelayQ} (h : WStrict q) {d : Nat} (hd : nextDeadline q = some d) :
    ∀ e ∈ q.entries, d ≤ e.whenMs := by
  unfold nextDeadline at hd
  cases hex : nextExpiration q with
  | none => rw [hex] at hd; cases hd
  | some ex =>
    rw [hex] at hd
    simp only [Option.map_some, Option.some.injEq] at hd
    have hn := nextExpiration_isNext (h.loop 0) hex
    intro e he
    have := sst_le e
    cases hat : atSlot ex.level ex.slot e with
    | true => have := hn.inSlot e he hat; omega
    | false => have := hn.other e he hat; omega

/-- … and exists unless the wheel is empty -/
theorem nextDeadline_none {q : DelayQ} (h : WStrict q) (hd : nextDeadline q = none) : q.entries = [] := by
  unfold nextDeadline at hd
  simp only [Option.map_eq_none_iff] at hd
  apply List.eq_nil_iff_forall_not_mem.2
  intro e he
  have h1 := (nextExpiration_none_iff q).1 hd e he
  have h2 := (h.pos e he).1
  omega

/-- bookkeeping of the registered `Sleep`: it exists when the wheel is non-empty and is not after any
wheel entry -/
structure DelayOk (q : DelayQ) : Prop where
  dsome : q.delay = none → q.entries = []
  dle : ∀ dl, q.delay = some dl → ∀ e ∈ q.entries, dl ≤ e.whenMs

theorem DelayOk.fresh {q : DelayQ} (h : WStrict q) (w : Bool) :
    DelayOk { q with delay := nextDeadline q, waker := w } :=
  ⟨fun hd => (nextDeadline_none h (show nextDeadline q = none from hd) : q.entries = []),
   fun _ hd => (nextDeadline_le h (show nextDeadline q = some _ from hd) : ∀ e ∈ q.entries, _ ≤ e.whenMs)⟩

/-- What the loop of `poll_idx` achieves. -/
structure PIOut (now : Nat) (q q' : DelayQ) (r : PollRes) : Prop where
  strict : WStrict q'
  dok : DelayOk q'
  mono : q.wheelElapsed ≤ q'.wheelElapsed
  pend : r = .pending → q'.waker = true ∧ ∃ dl, q'.delay = some dl ∧ now < dl * nsPerMs
  emp : r = .none → q'.entries = [] ∧ q'.waker = true ∧ q'.delay = Option.none

/-- fuel condition of the `poll_idx` loop: one round more than the potential, and one more if the
`Sleep` is not known to be the wheel's next deadline -/
def IdxFuel (q : DelayQ) (fuel : Nat) : Prop :=
  (∃ dl, q.delay = some dl ∧ nextDeadline q = some dl ∧ pot q + 1 ≤ fuel) ∨ pot q + 2 ≤ fuel

theorem idxTail_complete {now fuel t : Nat} {rec : DelayQ → DelayQ × PollRes} {p : DelayQ × Option DqEntry}
    {q0 q : DelayQ}
    (hrec : ∀ q2, WStrict q2 → DelayOk q2 → IdxFuel q2 fuel → PIOut now q2 (rec q2).1 (rec q2).2)
    (hp : WPOut q t p.1 p.2) (h0 : q0.wheelElapsed ≤ q.wheelElapsed)
    (hfuel : p.2 = none → pot p.1 + 1 ≤ fuel) :
    PIOut now q0 (idxTail rec p).1 (idxTail rec p).2 := by
  obtain ⟨p1, p2⟩ := p
  have hs : ∀ w, WStrict { p1 with delay := nextDeadline p1, waker := w } := fun w => hp.strict.of_eq rfl rfl
  have hmono : q0.wheelElapsed ≤ p1.wheelElapsed := Nat.le_trans h0 hp.mono
  unfold idxTail
  cases p2 with
  | some e =>
    exact ⟨hp.strict.of_eq rfl rfl, DelayOk.fresh hp.strict p1.waker, hmono,
      (fun h => by cases h), (fun h => by cases h)⟩
  | none =>
    simp only
    split
    · next hnone =>
      refine ⟨hs true, DelayOk.fresh hp.strict true, hmono, (fun h => by cases h), fun _ => ?_⟩
      have hnone : nextDeadline p1 = none := by simpa using hnone
      exact ⟨(nextDeadline_none hp.strict hnone : p1.entries = []), rfl, hnone⟩
    · next hsome =>
      have hsome' : ∃ dl, nextDeadline p1 = some dl := by
        cases hnd : nextDeadline p1 with
        | none => simp [hnd] at hsome
        | some dl => exact ⟨dl, rfl⟩
      obtain ⟨dl, hdl⟩ := hsome'
      have := hrec { p1 with delay := nextDeadline p1 } (hp.strict.of_eq rfl rfl)
        (DelayOk.fresh hp.strict p1.waker)
        (.inl ⟨dl, hdl, (nextDeadline_congr rfl rfl).trans hdl, hfuel rfl⟩)
      exact ⟨this.strict, this.dok, Nat.le_trans hmono this.mono, this.pend, this.emp⟩

theorem wheelFuel_ok {q : DelayQ} (h : WStrict q) : pot q + 1 ≤ wheelFuel q := by
  have := potL_le (l := q.entries) (fun e he => (h.pos e he).1)
  unfold wheelFuel pot
  omega

theorem pollIdx_complete (now : Nat) : ∀ (fuel : Nat) (q : DelayQ), WStrict q → DelayOk q → IdxFuel q fuel →
    PIOut now q (pollIdx fuel q now).1 (pollIdx fuel q now).2 := by
  intro fuel
  induction fuel with
  | zero =>
    intro q _ _ hf
    rcases hf with ⟨_, _, _, h⟩ | h <;> omega
  | succ fuel ih =>
    intro q hs hd hf
    rw [pollIdx_succ_f]
    split
    · next dl hdl =>
      split
      · next hlt =>
        exact ⟨hs.of_eq rfl rfl, ⟨hd.dsome, hd.dle⟩, Nat.le_refl _, fun _ => ⟨rfl, dl, hdl, hlt⟩,
          (fun h => by cases h)⟩
      · have hs1 : WStrict { q with wheelNow := dl } := hs.of_eq rfl rfl
        have hp := wheelPoll_complete dl (wheelFuel { q with wheelNow := dl }) { q with wheelNow := dl }
          (hs1.loop dl) (wheelFuel_ok hs1)
        refine idxTail_complete ih hp (Nat.le_refl _) ?_
        intro hnone
        have h1 := hp.potle
        have hpq : pot { q with wheelNow := dl } = pot q := rfl
        rcases hf with ⟨dl', h2, h3, h4⟩ | h4
        · rw [hdl] at h2; cases h2
          unfold nextDeadline at h3
          cases hex : nextExpiration q with
          | none => rw [hex] at h3; cases h3
          | some ex =>
            rw [hex] at h3
            simp only [Option.map_some, Option.some.injEq] at h3
            have := hp.progress hnone ex ((nextExpiration_congr rfl rfl).trans hex) (Nat.le_of_eq h3)
            omega
        · omega
    · next hdl =>
      have hp := wheelPoll_complete q.wheelNow (wheelFuel q) q (hs.loop _) (wheelFuel_ok hs)
      refine idxTail_complete ih hp (Nat.le_refl _) ?_
      intro hnone
      have h1 := hp.potle
      rcases hf with ⟨dl', h2, _⟩ | h4
      · rw [hdl] at h2; cases h2
      · omega

/-! ### fuel adequacy: more fuel changes nothing -/

/-- `wheelPoll` never reaches its fuel-exhausted branch on a well-formed wheel: its result does not depend on
additional fuel.  (The number of rounds is at most the potential `pot q ≤ 5 · entries.length`, plus one.) -/
theorem wheelPoll_fuel_irrel (t : Nat) : ∀ (f : Nat) (q : DelayQ), WLoop q t → pot q + 1 ≤ f → ∀ k,
    wheelPoll (f + k) q t = wheelPoll f q t := by
  intro f
  induction f with
  | zero => intro q _ hf; omega
  | succ f ih =>
    intro q h hf k
    have hfk : f + 1 + k = (f + k) + 1 := by omega
    rw [hfk, wheelPoll_succ', wheelPoll_succ']
    cases hex : nextExpiration q with
    | none => rfl
    | some ex =>
      simp only
      split
      · rfl
      · next hle =>
        split
        · rfl
        · next hl0 =>
          have hl0 : ex.level ≠ 0 := by simpa using hl0
          obtain ⟨hloop, hpot⟩ := cascade_WLoop h (nextExpiration_isNext h hex) hl0 (Nat.le_of_not_gt hle) rfl
          exact ih _ hloop (by rw [advanceTo_pot]; omega) k

/-- the fuel left for the next round of `poll_idx` after a round in which the `Sleep` had elapsed -/
theorem idx_fuel_some {q : DelayQ} {f dl : Nat} (hs : WStrict q) (hf : IdxFuel q (f + 1)) (hdl : q.delay = some dl) :
    WPOut { q with wheelNow := dl } dl
      (wheelPoll (wheelFuel { q with wheelNow := dl }) { q with wheelNow := dl } dl).1
      (wheelPoll (wheelFuel { q with wheelNow := dl }) { q with wheelNow := dl } dl).2 ∧
    ((wheelPoll (wheelFuel { q with wheelNow := dl }) { q with wheelNow := dl } dl).2 = none →
      pot (wheelPoll (wheelFuel { q with wheelNow := dl }) { q with wheelNow := dl } dl).1 + 1 ≤ f) := by
  have hs1 : WStrict { q with wheelNow := dl } := hs.of_eq rfl rfl
  have hp := wheelPoll_complete dl (wheelFuel { q with wheelNow := dl }) { q with wheelNow := dl }
    (hs1.loop dl) (wheelFuel_ok hs1)
  refine ⟨hp, ?_⟩
  intro hnone
  have h1 := hp.potle
  have hpq : pot { q with wheelNow := dl } = pot q := rfl
  rcases hf with ⟨dl', h2, h3, h4⟩ | h4
  · rw [hdl] at h2; cases h2
    unfold nextDeadline at h3
    cases hex : nextExpiration q with
    | none => rw [hex] at h3; cases h3
    | some ex =>
      rw [hex] at h3
      simp only [Option.map_some, Option.some.injEq] at h3
      have := hp.progress hnone ex ((nextExpiration_congr rfl rfl).trans hex) (Nat.le_of_eq h3)
      omega
  · omega

theorem idx_fuel_none {q : DelayQ} {f : Nat} (hs : WStrict q) (hf : IdxFuel q (f + 1)) (hdl : q.delay = none) :
    WPOut q q.wheelNow (wheelPoll (wheelFuel q) q q.wheelNow).1 (wheelPoll (wheelFuel q) q q.wheelNow).2 ∧
    ((wheelPoll (wheelFuel q) q q.wheelNow).2 = none → pot (wheelPoll (wheelFuel q) q q.wheelNow).1 + 1 ≤ f) := by
  have hp := wheelPoll_complete q.wheelNow (wheelFuel q) q (hs.loop _) (wheelFuel_ok hs)
  refine ⟨hp, ?_⟩
  intro hnone
  have h1 := hp.potle
  rcases hf with ⟨dl', h2, _⟩ | h4
  · rw [hdl] at h2; cases h2
  · omega

theorem idxTail_congr {rec1 rec2 : DelayQ → DelayQ × PollRes} {p : DelayQ × Option DqEntry}
    (h : p.2 = none → (nextDeadline p.1).isNone = false →
      rec1 { p.1 with delay := nextDeadline p.1 } = rec2 { p.1 with delay := nextDeadline p.1 }) :
    idxTail rec1 p = idxTail rec2 p := by
  obtain ⟨p1, p2⟩ := p
  unfold idxTail
  cases p2 with
  | some e => rfl
  | none =>
    simp only
    split
    · rfl
    · next hs => exact h rfl (Bool.eq_false_iff.2 hs)

/-- the loop of `poll_idx` never reaches its fuel-exhausted branch on a well-formed queue -/
theorem pollIdx_fuel_irrel (now : Nat) : ∀ (f : Nat) (q : DelayQ), WStrict q → DelayOk q → IdxFuel q f → ∀ k,
    pollIdx (f + k) q now = pollIdx f q now := by
  intro f
  induction f with
  | zero =>
    intro q _ _ hf
    rcases hf with ⟨_, _, _, h⟩ | h <;> omega
  | succ f ih =>
    intro q hs hd hf k
    have hfk : f + 1 + k = (f + k) + 1 := by omega
    rw [hfk, pollIdx_succ_f, pollIdx_succ_f]
    have hnext : ∀ (t : Nat) (q1 : DelayQ) (p : DelayQ × Option DqEntry), WPOut q1 t p.1 p.2 →
        (p.2 = none → pot p.1 + 1 ≤ f) →
        idxTail (fun q => pollIdx (f + k) q now) p = idxTail (fun q => pollIdx f q now) p := by
      intro t q1 p hp hfuel
      apply idxTail_congr
      intro hnone hsome
      obtain ⟨dl, hdl⟩ : ∃ dl, nextDeadline p.1 = some dl := by
        cases hnd : nextDeadline p.1 with
        | none => simp [hnd] at hsome
        | some dl => exact ⟨dl, rfl⟩
      exact ih { p.1 with delay := nextDeadline p.1 } (hp.strict.of_eq rfl rfl)
        (DelayOk.fresh hp.strict p.1.waker)
        (.inl ⟨dl, hdl, (nextDeadline_congr rfl rfl).trans hdl, hfuel hnone⟩) k
    split
    · next dl hdl =>
      split
      · rfl
      · obtain ⟨hp, hfuel⟩ := idx_fuel_some hs hf hdl
        exact hnext _ _ _ hp hfuel
    · next hdl =>
      obtain ⟨hp, hfuel⟩ := idx_fuel_none hs hf hdl
      exact hnext _ _ _ hp hfuel

/-! ### the invariant at the API boundary and its preservation -/

/-- **The two-sided wheel invariant.**  Every wheel entry is filed in the slot its deadline hashes to
within the window of its level (`WStrict`), the registered `Sleep` exists whenever the wheel is
non-empty and is not after any wheel entry (`DelayOk`), and the `expired` stack only holds entries
that the wheel clock has reached. -/
structure Complete (q : DelayQ) : Prop where
  strict : WStrict q
  dok : DelayOk q
  exp : ∀ e ∈ q.expired, e.whenMs ≤ q.wheelElapsed

theorem Complete_empty : Complete {} :=
  ⟨⟨by simp, by simp⟩, ⟨fun _ => rfl, by simp⟩, by simp⟩

theorem PollFrame.expired_eq {q q' : DelayQ} {r : Option DqEntry} (h : PollFrame q q' r) :
    q'.expired = q.expired := by
  cases r with
  | none => exact Frame.expired h
  | some e =>
    obtain ⟨qm, h1, _, h3⟩ := h
    exact h3.expired.trans h1.expired

theorem pollFuel_ok {q : DelayQ} (h : WStrict q) : IdxFuel q (wheelFuel q + 8) :=
  .inr (by have := wheelFuel_ok h; omega)

theorem pollExpired_nil_c {q : DelayQ} (now : Nat) (hex : q.expired = []) :
    q.pollExpired now = pollIdx (wheelFuel { q with waker := true } + 8) { q with waker := true } now := by
  unfold pollExpired; simp only [hex]

theorem pollExpired_cons_c {q : DelayQ} (now : Nat) {e : DqEntry} {rest : List DqEntry} (hex : q.expired = e :: rest) :
    q.pollExpired now = ({ q with waker := true, expired := rest }, .expired e) := by
  unfold pollExpired; simp only [hex]

/-- `pollExpired` keeps the invariant; if it reports nothing, nothing is due and the `Sleep` is registered
for an instant that is in the future and not after any remaining deadline. -/
theorem pollExpired_complete {q : DelayQ} (now : Nat) (h : Complete q) :
    Complete (q.pollExpired now).1 ∧
    (q.wheelElapsed ≤ (q.pollExpired now).1.wheelElapsed) ∧
    ((q.pollExpired now).2 = .pending ∨ (q.pollExpired now).2 = .none →
      (q.pollExpired now).1.waker = true ∧ (q.pollExpired now).1.expired = [] ∧
      (((q.pollExpired now).1.entries = [] ∧ (q.pollExpired now).1.delay = none) ∨
       ∃ dl, (q.pollExpired now).1.delay = some dl ∧ now < dl * nsPerMs ∧
         ∀ e ∈ (q.pollExpired now).1.entries, dl ≤ e.whenMs)) := by
  cases hx : q.expired with
  | cons e rest =>
    rw [pollExpired_cons_c now hx]
    refine ⟨⟨h.strict.of_eq rfl rfl, ⟨h.dok.dsome, h.dok.dle⟩, ?_⟩, Nat.le_refl _, ?_⟩
    · intro x hx'
      exact h.exp x (by rw [hx]; exact List.mem_cons_of_mem _ hx')
    · intro hr; rcases hr with hr | hr <;> cases hr
  | nil =>
    rw [pollExpired_nil_c now hx]
    have hs0 : WStrict { q with waker := true } := h.strict.of_eq rfl rfl
    have hd0 : DelayOk { q with waker := true } := ⟨h.dok.dsome, h.dok.dle⟩
    have hout := pollIdx_complete now (wheelFuel { q with waker := true } + 8) { q with waker := true } hs0 hd0
      (pollFuel_ok hs0)
    have hfr := (pollIdx_frame (wheelFuel { q with waker := true } + 8) { q with waker := true } now).expired_eq
    replace hfr := hfr.trans (show ({ q with waker := true } : DelayQ).expired = [] from hx)
    refine ⟨⟨hout.strict, hout.dok, by rw [hfr]; simp⟩, hout.mono, ?_⟩
    intro hr
    rcases hr with hr | hr
    · obtain ⟨hw, dl, hdl, hlt⟩ := hout.pend hr
      exact ⟨hw, hfr, .inr ⟨dl, hdl, hlt, hout.dok.dle dl hdl⟩⟩
    · obtain ⟨he, hw, hd⟩ := hout.emp hr
      exact ⟨hw, hfr, .inl ⟨he, hd⟩⟩

/-- the deadline (ms) `insert` computes -/
def whenOf (q : DelayQ) (now timeout : Nat) : Nat := max (ceilMs (now + timeout)) q.wheelElapsed

/-- what `insert` does to the registered `Sleep` -/
theorem insert_delay {q q' : DelayQ} {now to v k : Nat} {w : Bool}
    (h : q.insert now to v = (q', .ok k, w)) :
    (q'.delay = some (whenOf q now to) ∧
      (q.delay = none ∨ ∃ dl, q.delay = some dl ∧ max dl q.wheelElapsed > whenOf q now to)) ∨
    (q'.delay = q.delay ∧ ∃ dl, q.delay = some dl ∧ max dl q.wheelElapsed ≤ whenOf q now to) := by
  unfold insert at h
  simp only at h
  split at h
  · simp at h
  · cases hd : q.delay with
    | none =>
      simp only [hd, if_true] at h
      simp only [Prod.mk.injEq] at h
      obtain ⟨rfl, -, -⟩ := h
      exact .inl ⟨rfl, .inl rfl⟩
    | some dl =>
      simp only [hd] at h
      split at h
      · next hc =>
        simp only [Prod.mk.injEq] at h
        obtain ⟨rfl, -, -⟩ := h
        exact .inl ⟨rfl, .inr ⟨dl, rfl, by simpa [whenOf] using hc⟩⟩
      · next hc =>
        simp only [Prod.mk.injEq] at h
        obtain ⟨rfl, -, -⟩ := h
        refine .inr ⟨?_, dl, rfl, by simpa [whenOf] using hc⟩
        split <;> rfl

/-- `insert` keeps the invariant if the new deadline is less than one rotation after the start of the
top-level slot of the wheel clock. -/
theorem insert_complete {q q' : DelayQ} {now to v : Nat} {r : InsertRes} {w : Bool}
    (h : q.insert now to v = (q', r, w)) (hq : Complete q)
    (hr : whenOf q now to < slotStart q.wheelElapsed 5 + 64 ^ 6) : Complete q' := by
  rcases insert_cases h with ⟨_, h'⟩ | ⟨hk, _, hE, _, hc⟩
  · exact h' ▸ hq
  · subst hk
    have hdel := insert_delay h
    have hWE : q.wheelElapsed ≤ whenOf q now to := Nat.le_max_right _ _
    -- the `Sleep` after the insert, given that the new entry (if filed in the wheel) has deadline `whenOf`
    have hdok : (∀ e ∈ q'.entries, e ∈ q.entries ∨ e.whenMs = whenOf q now to) → DelayOk q' := by
      intro hent
      rcases hdel with ⟨hd', hwhy⟩ | ⟨hd', dl, hdl, hle⟩
      · refine ⟨(fun hn => by rw [hd'] at hn; cases hn), ?_⟩
        intro dl' hdl' e he
        rw [hd'] at hdl'; cases hdl'
        rcases hent e he with hold | hnew
        · rcases hwhy with hnone | ⟨dl, hdl, hgt⟩
          · rw [hq.dok.dsome hnone] at hold; cases hold
          · have := hq.dok.dle dl hdl e hold
            have : whenOf q now to < dl := by
              rcases Nat.le_total dl q.wheelElapsed with h1 | h1
              · rw [Nat.max_eq_right h1] at hgt; omega
              · rw [Nat.max_eq_left h1] at hgt; exact hgt
            omega
        · omega
      · refine ⟨(fun hn => by rw [hd', hdl] at hn; cases hn), ?_⟩
        intro dl' hdl' e he
        rw [hd', hdl] at hdl'; cases hdl'
        rcases hent e he with hold | hnew
        · exact hq.dok.dle dl hdl e hold
        · have := Nat.le_max_left dl q.wheelElapsed
          omega
    rcases hc with ⟨e1, e2, hW⟩ | ⟨e1, e2, hW, _⟩
    · refine ⟨hq.strict.of_eq e1 hE, hdok (fun e he => .inl (e1 ▸ he)), ?_⟩
      rw [e2, hE]
      intro e he
      rcases List.mem_cons.1 he with rfl | he
      · exact hW
      · exact hq.exp e he
    · have hnew := levelFor_posN hW hr
      refine ⟨⟨?_, ?_⟩, hdok ?_, by rw [e2, hE]; exact hq.exp⟩
      · rw [e1, hE]
        intro e he
        rcases List.mem_append.1 he with he | he
        · exact hq.strict.pos e he
        · cases List.mem_singleton.1 he; exact hnew.1
      · rw [e1, hE]
        intro e he
        rcases List.mem_append.1 he with he | he
        · exact hq.strict.str e he
        · cases List.mem_singleton.1 he; exact hnew.2
      · rw [e1]
        intro e he
        rcases List.mem_append.1 he with he | he
        · exact .inl he
        · cases List.mem_singleton.1 he; exact .inr rfl

/-- what `remove` does to the registered `Sleep` -/
theorem remove_delay {q q' : DelayQ} {k : Nat} {w : Bool} (h : q.remove k = some (q', w)) :
    q'.delay = q.delay ∨ q'.delay = nextDeadline q' := by
  unfold remove at h
  split at h
  · simp only [Option.some.injEq, Prod.mk.injEq] at h
    obtain ⟨rfl, -⟩ := h
    split
    · right; exact (nextDeadline_congr rfl rfl).symm
    · left; rfl
  · cases h

theorem remove_complete {q q' : DelayQ} {k : Nat} {w : Bool} (h : q.remove k = some (q', w))
    (hq : Complete q) : Complete q' := by
  obtain ⟨_, e1, e2, _, e4, _⟩ := remove_cases h
  have hs : WStrict q' := by
    constructor
    · rw [e1, e4]; intro e he; exact hq.strict.pos e (List.mem_filter.1 he).1
    · rw [e1, e4]; intro e he; exact hq.strict.str e (List.mem_filter.1 he).1
  refine ⟨hs, ?_, ?_⟩
  · rcases remove_delay h with hd | hd
    · constructor
      · intro hn
        rw [hd] at hn
        rw [e1, hq.dok.dsome hn]; rfl
      · intro dl hdl e he
        rw [hd] at hdl
        rw [e1] at he
        exact hq.dok.dle dl hdl e (List.mem_filter.1 he).1
    · exact ⟨fun hn => nextDeadline_none hs (hd ▸ hn), fun dl hdl => nextDeadline_le hs (hd ▸ hdl)⟩
  · rw [e2, e4]; intro e he; exact hq.exp e (List.mem_filter.1 he).1

end TarpcModel.DelayQ

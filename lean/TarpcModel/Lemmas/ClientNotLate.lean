import TarpcModel.Lemmas.ClientDelayQBridge
import TarpcModel.Lemmas.DelayQIdle
/-!
The client dispatch going idle leaves no due timer behind: `in_flight_requests.poll_expired` loops until the
`DelayQueue` reports nothing (its fuel never runs out: every `continue` re-arms a timer and takes at least 1 ns off what
is still to be armed), `pump_write` only ends `Pending` / `None` after such a `poll_expired`, and `run` only ends
`Pending` after such a `pump_write`; on a queue satisfying the two-sided wheel invariant "reports nothing" means
"nothing is due" (`DelayQ.Idle.of_poll`).
-/
namespace TarpcModel.Client
open TarpcModel

/-- An iteration of `poll_expired` that ends the loop without yielding and without a panic: the queue reported
nothing. -/
theorem expireWith_done_false {s s' : St} {now : Nat} {r : DelayQ × DelayQ.PollRes}
    (h : expireWith s now r = .done s' false) (hp : s'.poisoned = false) :
    (r.2 = .pending ∨ r.2 = .none) ∧ s'.timers = r.1 := by
  unfold Client.expireWith at h
  split at h
  · rename_i q e
    split at h
    · rename_i en hf
      split at h
      · unfold Client.rearm at h
        rcases rearmWith_cases s e.val (now - en.dueAt + clampTimeout (en.remainder - (now - en.dueAt)))
            (now + clampTimeout (en.remainder - (now - en.dueAt)))
            (q.insert now (clampTimeout (en.remainder - (now - en.dueAt))) e.val) with
          ⟨q', w, _, hrw⟩ | ⟨q', key, w, _, hrw⟩
        · rw [hrw] at h
          simp only [ExpStep.done.injEq, and_true] at h
          subst h
          simp [emit] at hp
        · rw [hrw] at h; cases h
      · simp at h
    · simp at h
  · rename_i q res hres
    simp only [ExpStep.done.injEq, and_true] at h
    subst h
    refine ⟨?_, rfl⟩
    cases res with
    | expired e => exact absurd rfl (hres e)
    | pending => exact .inl rfl
    | none => exact .inr rfl

variable {now : Nat}

/-- **`poll_expired` going idle.**  On a queue satisfying the wheel invariant, with enough fuel: if the loop of
`in_flight_requests.poll_expired` ends without yielding (`Pending` / `None`) and without a panic, no timer of the queue
it leaves behind is due. -/
theorem pollExpiredLoop_idle (hc : QClosed now DelayQ.Complete) : ∀ (fuel : Nat) (s : St), remSum s < fuel →
    DelayQ.Complete s.timers → (pollExpiredLoop fuel s now).2 = false →
    (pollExpiredLoop fuel s now).1.poisoned = false → DelayQ.Idle now (pollExpiredLoop fuel s now).1.timers := by
  intro fuel
  induction fuel with
  | zero => intro s hb; omega
  | succ n ih =>
    intro s hb hq
    cases hstep : expireStep s now with
    | again s1 =>
      have hlt := expireWith_again (r := s.timers.pollExpired now) hstep
      have hq1 : DelayQ.Complete s1.timers := by
        have := hc.expireStep hq
        rw [hstep] at this; exact this
      simp only [pollExpiredLoop, hstep]
      exact ih s1 (by omega) hq1
    | done s1 b =>
      simp only [pollExpiredLoop, hstep]
      intro hb' hp
      subst hb'
      obtain ⟨hr, ht⟩ := expireWith_done_false (r := s.timers.pollExpired now) hstep hp
      rw [ht]
      exact DelayQ.Idle.of_poll hq (DelayQ.pair_eta _) hr

theorem pollExpired_idle (hc : QClosed now DelayQ.Complete) {s : St} (hq : DelayQ.Complete s.timers)
    (hr : (pollExpired s now).2 = false) (hp : (pollExpired s now).1.poisoned = false) :
    DelayQ.Idle now (pollExpired s now).1.timers :=
  pollExpiredLoop_idle hc _ s (by rw [expiredFuel_eq]; omega) hq hr hp

/-- **`pump_write` going idle.**  If the write pump ends `Pending` or `None` (nothing written, nothing expired) and
the dispatch is not poisoned, no timer is due in the state it leaves behind: the pump always calls `poll_expired`
before it gives up, whatever the transport's readiness. -/
theorem pumpWrite_idle (hc : QClosed now DelayQ.Complete) {s : St} (hq : DelayQ.Complete s.timers)
    (hr : (pumpWrite s now).2 = .pending ∨ (pumpWrite s now).2 = .none)
    (hp : (pumpWrite s now).1.poisoned = false) : DelayQ.Idle now (pumpWrite s now).1.timers := by
  unfold Client.pumpWrite at hr hp ⊢
  have h1 := hc.pollWriteRequest hq
  generalize Client.pollWriteRequest s now = p at h1 hr hp ⊢
  obtain ⟨s1, r1⟩ := p
  cases r1 <;> simp only at hr hp ⊢
  case err a => rcases hr with hr | hr <;> cases hr
  case spin => rcases hr with hr | hr <;> cases hr
  case some u => rcases hr with hr | hr <;> cases hr
  all_goals
    have h2 := hc.pollWriteCancel h1
    generalize Client.pollWriteCancel s1 = p at h2 hr hp ⊢
    obtain ⟨s2, r2⟩ := p
    cases r2 <;> simp only at hr hp ⊢
    case err a => rcases hr with hr | hr <;> cases hr
    case spin => rcases hr with hr | hr <;> cases hr
    case some u => rcases hr with hr | hr <;> cases hr
    all_goals
      have h3 := pollExpired_idle hc h2
      generalize Client.pollExpired s2 now = p at h3 hr hp ⊢
      obtain ⟨s3, ex⟩ := p
      simp only at h3 hr hp ⊢
      cases ex with
      | true => simp at hr
      | false =>
        simp only [Bool.false_eq_true, if_false] at hr hp ⊢
        cases hpo : s3.poisoned with
        | true => simp [hpo] at hr
        | false =>
          have hi := h3 rfl hpo
          simp only [hpo, Bool.false_eq_true, if_false] at hr hp ⊢
          split
          · have hq4 := tClose_tm s3
            generalize tClose s3 = p at hq4 ⊢
            obtain ⟨s4, r4⟩ := p
            cases r4 <;> (simp only at hq4 ⊢; rw [hq4]; exact hi)
          · have hq4 := tFlush_tm s3
            generalize tFlush s3 = p at hq4 ⊢
            obtain ⟨s4, r4⟩ := p
            cases r4 <;> (simp only at hq4 ⊢; rw [hq4]; exact hi)

/-- **`run` going idle.**  If the dispatch's `run` loop ends `Pending` and the dispatch is not poisoned, no timer is
due in the state it leaves behind: the loop goes round again as long as either pump makes progress (an expiry is
progress), so its last iteration's `pump_write` ended `Pending` / `None`. -/
theorem run_idle (hc : QClosed now DelayQ.Complete) : ∀ (fuel : Nat) (s : St), DelayQ.Complete s.timers →
    (run fuel s now).2 = .pending → (run fuel s now).1.poisoned = false → DelayQ.Idle now (run fuel s now).1.timers := by
  intro fuel
  induction fuel with
  | zero => intro s _ hr; cases hr
  | succ fuel ih =>
    intro s hq
    unfold Client.run
    have h1 := hc.pumpRead hq
    generalize Client.pumpRead s = p at h1 ⊢
    obtain ⟨s1, rd⟩ := p
    have h2 := hc.pumpWrite h1
    have h2i := pumpWrite_idle hc h1
    cases rd <;> simp only
    all_goals try (intro hr; cases hr; done)
    all_goals
      generalize Client.pumpWrite s1 now = p at h2 h2i ⊢
      obtain ⟨s2, wr⟩ := p
      cases wr <;> simp only
      all_goals first
        | (intro hr; cases hr; done)
        | exact ih s2 h2
        | (intro _ hp; exact h2i (.inl rfl) hp)
        | (split <;> first
            | (intro hr; cases hr; done)
            | exact ih s2 h2
            | (intro _ hp; exact h2i (.inr rfl) hp))

theorem items_clear (q : DelayQ) : q.clear.items = [] := by simp [DelayQ.clear, DelayQ.items]

theorem failAll_timers (s : St) (a : Activity) : (failAll s a).timers = s.timers.clear := by
  unfold Client.failAll
  simp only
  rw [foldl_tm (fun s (e : Entry) => osSend s e.cid (.channel a)) (fun s e => osSend_timers s e.cid _)]

theorem shutDown_timers (s : St) (a : Activity) : (shutDown s a).1.timers = s.timers.clear := by
  unfold Client.shutDown
  simp only [drainLoop_tm, failAll_timers, pqClose_tm]

/-- **`RequestDispatch::poll` going idle.**  If the poll returns `Pending` without the dispatch being poisoned (by a
panic or a spin), no timer is due in the state it leaves behind (after a terminal error the queue has been cleared). -/
theorem pollDispatchCore_idle (hc : QClosed now DelayQ.Complete) {s : St} (hq : DelayQ.Complete s.timers)
    (hr : (pollDispatchCore s now).2 = .pending) (hp : (pollDispatchCore s now).1.poisoned = false) :
    DelayQ.Idle now (pollDispatchCore s now).1.timers := by
  unfold Client.pollDispatchCore at hr hp ⊢
  split at hr
  · rename_i a hte
    simp only [hte] at hp ⊢
    have h1 := shutDown_timers s a
    generalize Client.shutDown s a = p at h1 ⊢
    obtain ⟨s1, fin⟩ := p
    simp only at h1 ⊢
    exact DelayQ.Idle.of_items_nil (by rw [h1]; exact items_clear _)
  · rename_i hte
    simp only [hte] at hp ⊢
    have h1 := run_idle hc (runFuel s) s hq
    generalize Client.run (runFuel s) s now = p at h1 hr hp ⊢
    obtain ⟨s1, r⟩ := p
    cases r with
    | pending => exact h1 rfl hp
    | ok => cases hr
    | spin => simp at hp
    | err a =>
      simp only at hr hp ⊢
      have h3 := shutDown_timers { s1 with termErr := some a } a
      generalize Client.shutDown { s1 with termErr := some a } a = p at h3 ⊢
      obtain ⟨s2, fin⟩ := p
      simp only at h3 ⊢
      exact DelayQ.Idle.of_items_nil (by rw [h3]; exact items_clear _)

/-- **A dispatch poll going back to waiting.**  When a poll of a live dispatch leaves it not done (it returned
`Pending`) and not poisoned, no timer is due in the state it leaves behind, the dispatch's waker is stored in the queue
and the queue's `Sleep` is armed no later than the earliest remaining tick. -/
theorem pollDispatchKeep_idle (hc : QClosed now DelayQ.Complete) {s : St} (hq : DelayQ.Complete s.timers)
    (hrun : (s.dDropped || s.done.isSome || s.poisoned) = false)
    (hd : (pollDispatchKeep s now).done = none) (hp : (pollDispatchKeep s now).poisoned = false) :
    DelayQ.Idle now (pollDispatchKeep s now).timers := by
  have hcore := pollDispatchCore_idle hc (s := { s with dWoken := false }) hq
  rw [Flow.pollDispatchKeep_eq, if_neg (by simp [hrun])] at hd hp ⊢
  rcases hcc : pollDispatchCore { s with dWoken := false } now with ⟨s1, r⟩
  rw [hcc] at hd hp hcore
  simp only at hd hp hcore ⊢
  have hr : r = .pending := by
    cases r <;> simp [Flow.keepDone] at hd ⊢
  subst hr
  simp only [Flow.keepDone] at hd hp ⊢
  unfold Flow.keepFinish at hp ⊢
  split at hp
  · cases hp
  · rename_i hs
    rw [if_neg hs]
    split at hp
    · rename_i hpo; rw [hpo] at hp; cases hp
    · rename_i hpo
      rw [if_neg hpo]
      exact hcore rfl (by simpa using hpo)

theorem pollDispatch_idle (hc : QClosed now DelayQ.Complete) {s : St} (hq : DelayQ.Complete s.timers)
    (hrun : (s.dDropped || s.done.isSome || s.poisoned) = false)
    (hd : (pollDispatchKeep s now).done = none) (hp : (pollDispatchKeep s now).poisoned = false) :
    pollDispatch s now = pollDispatchKeep s now ∧ DelayQ.Idle now (pollDispatch s now).timers := by
  have e : pollDispatch s now = pollDispatchKeep s now := by
    rw [Flow.pollDispatch_eq, hd]; rfl
  exact ⟨e, by rw [e]; exact pollDispatchKeep_idle hc hq hrun hd hp⟩

end TarpcModel.Client

import TarpcModel.Wire.Varint
/-! Helper lemmas for the bincode varint model (C15). -/
namespace TarpcModel.Bincode

theorem leBytes_length (n v : Nat) : (leBytes n v).length = n := by
  induction n generalizing v with
  | zero => rfl
  | succ n ih => simp [leBytes, ih]

theorem leVal_leBytes (n v : Nat) (h : v < 256 ^ n) : leVal (leBytes n v) = v := by
  induction n generalizing v with
  | zero => simp [leBytes, leVal]; omega
  | succ n ih =>
    have h' : v / 256 < 256 ^ n := by
      rw [Nat.pow_succ] at h
      exact Nat.div_lt_of_lt_mul (by omega)
    simp only [leBytes, leVal, ih _ h']
    have : (UInt8.ofNat (v % 256)).toNat = v % 256 := by
      simp [UInt8.toNat_ofNat']
    omega

theorem leVal_lt (bs : Bytes) : leVal bs < 256 ^ bs.length := by
  induction bs with
  | nil => simp [leVal]
  | cons b t ih =>
    have hb := b.toNat_lt
    simp only [leVal, List.length_cons, Nat.pow_succ]
    omega

theorem decLE_leBytes (n v : Nat) (rest : Bytes) (h : v < 256 ^ n) :
    decLE n (leBytes n v ++ rest) = some (v, rest) := by
  have hl := leBytes_length n v
  simp [decLE, hl, leVal_leBytes n v h]


theorem ofNat_toNat_small (v : Nat) (h : v < 256) : (UInt8.ofNat v).toNat = v := by
  simp [UInt8.toNat_ofNat']
  omega

theorem decVarint_encVarint (v : Nat) (rest : Bytes) (h : v < 2 ^ 64) :
    decVarint (encVarint v ++ rest) = some (v, rest) := by
  unfold encVarint
  split
  · simp [decVarint, ofNat_toNat_small v (by omega)]
    omega
  · split
    · simp [decVarint, decLE_leBytes 2 v rest (by omega)]
    · split
      · simp [decVarint, decLE_leBytes 4 v rest (by omega)]
      · simp [decVarint, decLE_leBytes 8 v rest (by omega)]

theorem decVarint128_encVarint128 (v : Nat) (rest : Bytes) (h : v < 2 ^ 128) :
    decVarint128 (encVarint128 v ++ rest) = some (v, rest) := by
  unfold encVarint128
  split
  · next h64 =>
    unfold encVarint
    split
    · simp [decVarint128, ofNat_toNat_small v (by omega)]
      omega
    · split
      · simp [decVarint128, decLE_leBytes 2 v rest (by omega)]
      · split
        · simp [decVarint128, decLE_leBytes 4 v rest (by omega)]
        · simp [decVarint128, decLE_leBytes 8 v rest (by omega)]
  · simp [decVarint128, decLE_leBytes 16 v rest (by omega)]

theorem decVarintBounded_encVarint (b v : Nat) (rest : Bytes) (hb : b ≤ 2 ^ 64) (h : v < b) :
    decVarintBounded b (encVarint v ++ rest) = some (v, rest) := by
  simp [decVarintBounded, decVarint_encVarint v rest (by omega), h]

/-- The value read by `decVarint` always fits 64 bits. -/
theorem decVarint_lt {bs : Bytes} {v : Nat} {r : Bytes} (h : decVarint bs = some (v, r)) :
    v < 2 ^ 64 := by
  cases bs with
  | nil => simp [decVarint] at h
  | cons b t =>
    have hl := fun n => leVal_lt (List.take n t)
    simp only [decVarint, decLE] at h
    split at h
    · simp at h; omega
    · split at h
      · split at h
        · simp at h
          have := hl 2
          rw [List.length_take] at this
          have : (256 : Nat) ^ min 2 t.length ≤ 256 ^ 2 := Nat.pow_le_pow_right (by omega) (by omega)
          omega
        · simp at h
      · split at h
        · split at h
          · simp at h
            have := hl 4
            rw [List.length_take] at this
            have : (256 : Nat) ^ min 4 t.length ≤ 256 ^ 4 := Nat.pow_le_pow_right (by omega) (by omega)
            omega
          · simp at h
        · split at h
          · split at h
            · simp at h
              have := hl 8
              rw [List.length_take] at this
              have : (256 : Nat) ^ min 8 t.length ≤ 256 ^ 8 := Nat.pow_le_pow_right (by omega) (by omega)
              omega
            · simp at h
          · simp at h

theorem unzigzag_zigzag (i : Int) : unzigzag (zigzag i) = i := by
  unfold unzigzag zigzag
  split <;> split <;> omega

theorem zigzag_unzigzag (n : Nat) : zigzag (unzigzag n) = n := by
  unfold unzigzag zigzag
  split <;> split <;> omega

theorem zigzag_lt (bits : Nat) (hb : 1 ≤ bits) (i : Int)
    (h : -(2 ^ (bits - 1) : Int) ≤ i ∧ i < (2 ^ (bits - 1) : Int)) : zigzag i < 2 ^ bits := by
  obtain ⟨k, rfl⟩ : ∃ k, bits = k + 1 := ⟨bits - 1, by omega⟩
  simp only [Nat.add_sub_cancel] at h
  have : (2 : Int) ^ k = ((2 ^ k : Nat) : Int) := by simp
  rw [this] at h
  rw [Nat.pow_succ]
  unfold zigzag
  split <;> omega

theorem decSigned_encSigned (bits : Nat) (hb : 1 ≤ bits) (hb' : bits ≤ 64) (i : Int) (rest : Bytes)
    (h : -(2 ^ (bits - 1) : Int) ≤ i ∧ i < (2 ^ (bits - 1) : Int)) :
    decSigned bits (encSigned i ++ rest) = some (i, rest) := by
  have hz := zigzag_lt bits hb i h
  have : zigzag i < 2 ^ 64 := Nat.lt_of_lt_of_le hz (Nat.pow_le_pow_right (by omega) hb')
  simp [decSigned, encSigned, decVarint_encVarint _ rest this, unzigzag_zigzag, h]

end TarpcModel.Bincode

import TarpcModel.Lemmas.ServerMon06
import TarpcModel.Lemmas.ServerMon11
import TarpcModel.Lemmas.ServerDelayQBridge
/-!
The server monitors' table clauses (`checkC06Rest`, `checkC11Rest`): views, observation classes and the second
coupling `X` between the monitor's book and the model, on top of `Mon06.K`.

* `mv` / `bw`: the views of the model's state / of the book the coupling reads (supersets of `sview` / `bview`).
* `isOut`, `ExtW`, `QM`: what a part of a poll that reads nothing and writes no response may emit; frame steps.
* `X`: ids pairwise distinct (executions, unread requests, requests still to be injected); the ids waiting in the
  guard-cancellation queue and in the response queue belong to finished executions; an execution that is live and not
  aborted is tracked; a book execution whose expiry the monitor has seen is tracked no more; the armed timer of a
  tracked request is not due after the tick the monitor computes.
-/
namespace TarpcModel.Server.Tab
open TarpcModel TarpcModel.Server TarpcModel.Server.Flow TarpcModel.Server.ObsMon TarpcModel.Server.Mon06
set_option linter.unusedSimpArgs false
set_option linter.unusedVariables false

/-! ## views -/

structure YE where
  rid : Nat
  id : Nat
  deadline : Nat
  vis : Option Nat
  live : Bool
  aborted : Bool
  armed : Bool

def ye (e : Exec) : YE := ⟨e.rid, e.id, e.deadline, e.vis, execLive e, e.aborted, e.guardArmed⟩

structure ZE where
  id : Nat
  rid : Nat
  due : Nat
  rem : Nat

def ze (en : SEntry) : ZE := ⟨en.id, en.rid, en.dueAt, en.remainder⟩

/-- the ids of the request messages among the unread inbound items -/
def inbIds : List Inb → List Nat
  | [] => []
  | .msg (.request id _ _ _) :: l => id :: inbIds l
  | .msg (.cancel _ _) :: l => inbIds l
  | .msg (.response _ _) :: l => inbIds l
  | .err :: l => inbIds l

structure MV where
  execs : List YE
  ents : List ZE
  cq : List Nat
  rq : List Nat
  inb : List Inb
  dropped : Bool
  nextVis : Nat

def mv (s : St) : MV :=
  ⟨s.execs.map ye, s.inflight.map ze, s.cancelQ, s.respQ.map (·.1), s.t.inbound, s.dropped, s.nextVis⟩

structure WB where
  rid : Nat
  id : Nat
  deadline : Nat
  yieldedAt : Nat
  abandoned : Bool
  expiredSeen : Bool
  gone : Bool

def wb (e : BExec) : WB := ⟨e.rid, e.id, e.deadline, e.yieldedAt, e.abandoned, e.expiredSeen, e.gone⟩

def WB.tick (x : WB) : Nat := Client.ceilMsNs (max x.deadline x.yieldedAt)

theorem wb_tick (e : BExec) : (wb e).tick = e.tick := rfl

structure BW where
  now : Nat
  execs : List WB
  table : List (Nat × Nat)
  failed : Bool

def bw (b : Book) : BW := ⟨b.now, b.execs.map wb, b.table, b.failed⟩

/-- the same view, except that a transport failure may have been recorded -/
structure BW.le (B B' : BW) : Prop where
  now : B'.now = B.now
  execs : B'.execs = B.execs
  table : ∀ p ∈ B'.table, p ∈ B.table
  failed : B.failed = true → B'.failed = true

theorem BW.le.refl (B : BW) : BW.le B B := ⟨rfl, rfl, fun _ h => h, id⟩
theorem BW.le.trans {A B C : BW} (h1 : BW.le A B) (h2 : BW.le B C) : BW.le A C :=
  ⟨h2.now.trans h1.now, h2.execs.trans h1.execs, fun p h => h1.table p (h2.table p h), fun h => h2.failed (h1.failed h)⟩

theorem mv_congr {s s' : St} (h1 : s'.execs.map ye = s.execs.map ye) (h2 : s'.inflight.map ze = s.inflight.map ze)
    (h3 : s'.cancelQ = s.cancelQ) (h4 : s'.respQ = s.respQ) (h5 : s'.t.inbound = s.t.inbound) (h6 : s'.dropped = s.dropped)
    (h7 : s'.nextVis = s.nextVis) : mv s' = mv s := by
  unfold mv; rw [h1, h2, h3, h4, h5, h6, h7]

theorem mv_setT (s : St) (t' : SimT) (h : t'.inbound = s.t.inbound) : mv { s with t := t' } = mv s :=
  mv_congr rfl rfl rfl rfl h rfl rfl

/-! ## what a part of a poll that reads nothing and answers nothing may emit -/

/-- the observations one poll of the request stream does not emit while it pumps -/
def isOut : Obs → Bool
  | .tReady _ _ => false
  | .tSend _ _ _ => false
  | .tFlush _ _ => false
  | .tNext _ _ => false
  | .tViolation _ _ => false
  | .wake _ => false
  | .spin _ => false
  | .panic _ _ => false
  | .noop => false
  | .took _ _ => false
  | _ => true

theorem isOut_wakeQuiet : WakeQuiet isOut := ⟨fun _ => rfl, rfl, fun _ _ => rfl⟩

theorem isOut_pollQuiet : PollQuiet isOut :=
  ⟨fun _ _ => rfl, fun _ _ _ => rfl, fun _ _ => rfl, fun _ _ => rfl, fun _ _ => rfl, fun _ => rfl, fun _ => rfl, fun _ _ => rfl⟩

/-- `s'` extends the observations of `s` by transport calls other than reads and responses, wake-ups, spin / panic -/
def ExtW (s s' : St) : Prop := ∃ l, s'.obs = l ++ s.obs ∧ ∀ o ∈ l, isCore o = false ∧ isOut o = false

theorem ExtW.refl (s : St) : ExtW s s := ⟨[], rfl, fun _ h => by cases h⟩
theorem ExtW.trans {a b c : St} (h1 : ExtW a b) (h2 : ExtW b c) : ExtW a c := by
  obtain ⟨l1, e1, p1⟩ := h1
  obtain ⟨l2, e2, p2⟩ := h2
  exact ⟨l2 ++ l1, by rw [e2, e1, List.append_assoc], fun o ho => (List.mem_append.mp ho).elim (p2 o) (p1 o)⟩
theorem ExtW.of_eq {s s' : St} (h : s'.obs = s.obs) : ExtW s s' := ⟨[], by simp [h], fun _ h => by cases h⟩
theorem ExtW.pre {s s0 s' : St} (h : ExtW s0 s') (h1 : s0.obs = s.obs) : ExtW s s' := (ExtW.of_eq h1).trans h
theorem ExtW.emit (s : St) (o : Obs) (h1 : isCore o = false) (h2 : isOut o = false) : ExtW s (emit s o) :=
  ⟨[o], rfl, fun o' ho' => by simp only [List.mem_singleton] at ho'; rw [ho']; exact ⟨h1, h2⟩⟩
theorem ExtW.ext {s s' : St} (h : ExtW s s') : Ext s s' := by
  obtain ⟨l, e, p⟩ := h
  exact ⟨l, e, fun o ho => (p o ho).1⟩

/-- from the two facts the earlier files provide -/
theorem extW_of {s s' : St} (hx : Ext s s') (hf : Flt isOut s s') : ExtW s s' := by
  obtain ⟨l, e, p⟩ := hx
  refine ⟨l, e, fun o ho => ⟨p o ho, ?_⟩⟩
  unfold Flt at hf
  rw [e, List.filter_append] at hf
  have hnil : l.filter isOut = [] := by
    have := congrArg List.length hf
    simp only [List.length_append] at this
    exact List.eq_nil_of_length_eq_zero (by omega)
  cases hc : isOut o with
  | false => rfl
  | true =>
    have : o ∈ l.filter isOut := List.mem_filter.mpr ⟨ho, hc⟩
    rw [hnil] at this; cases this

theorem updExec_wb (b : Book) (r : Nat) (f : BExec → BExec) (hf : ∀ e, wb (f e) = wb e) :
    bw (b.updExec r f) = bw b := by
  unfold bw Book.updExec
  simp only [List.map_map]
  congr 1
  apply List.map_congr_left
  intro e _
  simp only [Function.comp]
  split
  · exact hf e
  · rfl

/-- such an observation leaves the wide view alone, except that it may record a transport failure -/
theorem stepW (b : Book) (o : Obs) (h1 : isCore o = false) (h2 : isOut o = false) :
    BW.le (bw b) (bw (b.step (.obs o))) := by
  cases o with
  | tNext ep r => simp [isCore] at h1
  | tSend ep m ok =>
    cases m with
    | response id res => simp [isCore] at h1
    | _ => exact ⟨rfl, rfl, fun _ h => h, id⟩
  | tReady ep r =>
    simp only [Book.step]
    (repeat' split) <;> first | exact ⟨rfl, rfl, fun _ h => h, id⟩ | exact ⟨rfl, rfl, fun _ h => h, fun _ => rfl⟩
  | tFlush ep r =>
    simp only [Book.step]
    (repeat' split) <;> first | exact ⟨rfl, rfl, fun _ h => h, id⟩ | exact ⟨rfl, rfl, fun _ h => h, fun _ => rfl⟩
  | wake t => exact ⟨rfl, rfl, fun _ h => h, id⟩
  | tViolation ep w => exact ⟨rfl, rfl, fun _ h => h, id⟩
  | spin t => exact ⟨rfl, rfl, fun _ h => h, id⟩
  | panic t w => exact ⟨rfl, rfl, fun _ h => h, id⟩
  | noop => exact ⟨rfl, rfl, fun _ h => h, id⟩
  | took ep m => exact ⟨rfl, rfl, fun _ h => h, id⟩
  | _ => simp [isOut] at h2

/-- the book folded over such an extension -/
theorem bo_extW (b0 : Book) {s s' : St} (h : ExtW s s') :
    (bo b0 s'.obs).spun = true ∨
      (bview (bo b0 s'.obs) = bview (bo b0 s.obs) ∧ (bo b0 s'.obs).spun = (bo b0 s.obs).spun ∧
        BW.le (bw (bo b0 s.obs)) (bw (bo b0 s'.obs))) := by
  obtain ⟨l, e, p⟩ := h
  rw [e]
  clear e
  induction l with
  | nil => exact Or.inr ⟨rfl, rfl, BW.le.refl _⟩
  | cons o l ih =>
    have ih' := ih (fun o' ho' => p o' (List.mem_cons_of_mem _ ho'))
    show ((bo b0 (l ++ s.obs)).step (.obs o)).spun = true ∨ _
    rcases ih' with hs | ⟨hv, hs, hw⟩
    · exact Or.inl (step_spun_mono _ _ hs)
    · obtain ⟨hc, ho⟩ := p o (List.mem_cons_self ..)
      rcases step_not_core (bo b0 (l ++ s.obs)) o hc with h1 | ⟨h1, h2⟩
      · exact Or.inl h1
      · exact Or.inr ⟨h1.trans hv, h2.trans hs, hw.trans (stepW _ o hc ho)⟩

/-! ## frame steps: quiet, and the same wide view of the model -/

def QM (s s' : St) : Prop := ExtW s s' ∧ mv s' = mv s

theorem QM.refl (s : St) : QM s s := ⟨ExtW.refl s, rfl⟩
theorem QM.trans {a b c : St} (h1 : QM a b) (h2 : QM b c) : QM a c := ⟨h1.1.trans h2.1, h2.2.trans h1.2⟩
theorem QM.of_eq {s s' : St} (h : s'.obs = s.obs) (hv : mv s' = mv s) : QM s s' := ⟨ExtW.of_eq h, hv⟩
theorem QM.pre {s s0 s' : St} (h : QM s0 s') (h1 : s0.obs = s.obs) (hv : mv s0 = mv s) : QM s s' :=
  (QM.of_eq h1 hv).trans h
theorem QM.emit (s : St) (o : Obs) (h1 : isCore o = false) (h2 : isOut o = false) : QM s (emit s o) :=
  ⟨ExtW.emit s o h1 h2, rfl⟩

theorem sview_of_mv {s s' : St} (h : mv s' = mv s) : sview s' = sview s := by
  have hn : (mv s').nextVis = (mv s).nextVis := by rw [h]
  have h1 : (mv s').execs = (mv s).execs := by rw [h]
  have h2 : (mv s').ents = (mv s).ents := by rw [h]
  have h6 : (mv s').dropped = (mv s).dropped := by rw [h]
  refine sview_congr ?_ ?_ hn h6
  · have := congrArg (List.map (fun y : YE => (⟨y.rid, y.id, y.deadline, y.vis, y.live, y.aborted⟩ : XE))) h1
    simp only [mv, List.map_map] at this
    exact this
  · have := congrArg (List.map (fun z : ZE => (z.id, z.rid))) h2
    simp only [mv, List.map_map] at this
    exact this

theorem qm_emitViolations (s : St) (n : Nat) : QM s (emitViolations s n) := by
  unfold emitViolations
  generalize ((s.t.violations.take (s.t.violations.length - n)).reverse) = l
  induction l generalizing s with
  | nil => exact QM.refl s
  | cons a l ih => simp only [List.foldl_cons]; exact (QM.emit s _ rfl rfl).trans (ih _)

theorem qm_wakeServer (s : St) : QM s (wakeServer s) := by
  unfold wakeServer; split
  · exact QM.refl s
  · exact (QM.emit _ _ rfl rfl).pre rfl rfl

theorem updExec_ye (s : St) (r : Nat) (f : Exec → Exec) (hf : ∀ e, ye (f e) = ye e) :
    (updExec s r f).execs.map ye = s.execs.map ye := by
  unfold updExec
  simp only [List.map_map]
  apply List.map_congr_left
  intro e _
  simp only [Function.comp]
  split
  · exact hf e
  · rfl

theorem qm_updExec (s : St) (r : Nat) (f : Exec → Exec) (hf : ∀ e, ye (f e) = ye e) : QM s (updExec s r f) :=
  QM.of_eq rfl (mv_congr (updExec_ye s r f hf) rfl rfl rfl rfl rfl rfl)

theorem qm_wakeExec (s : St) (r : Nat) : QM s (wakeExec s r) := by
  unfold wakeExec; repeat' split
  all_goals first
    | exact QM.refl s
    | exact QM.trans (qm_updExec s r (fun e => { e with woken := true }) (fun e => rfl)) (QM.emit _ _ rfl rfl)

theorem qm_rqRelease (s : St) : QM s (rqRelease s) := by
  unfold rqRelease; split
  · exact (qm_wakeExec _ _).pre rfl rfl
  · exact QM.of_eq rfl rfl

theorem qm_tReady (s : St) : QM s (tReady s).1 := by
  unfold tReady
  simp only
  have h0 : QM s (emitViolations { s with t := s.t.pollReady.1 } s.t.violations.length) :=
    (qm_emitViolations _ _).pre rfl (mv_setT s _ (by simp))
  have h : QM s (Server.emit (emitViolations { s with t := s.t.pollReady.1 } s.t.violations.length)
      (.tReady (tid s) s.t.pollReady.2.1)) := h0.trans (QM.emit _ _ rfl rfl)
  split
  · exact h.trans (qm_wakeServer _)
  · exact h

theorem qm_tFlush (s : St) : QM s (tFlush s).1 := by
  unfold tFlush
  simp only
  have h0 : QM s (emitViolations { s with t := s.t.pollFlush.1 } s.t.violations.length) :=
    (qm_emitViolations _ _).pre rfl (mv_setT s _ (by simp))
  have h : QM s (Server.emit (emitViolations { s with t := s.t.pollFlush.1 } s.t.violations.length)
      (.tFlush (tid s) s.t.pollFlush.2.1)) := h0.trans (QM.emit _ _ rfl rfl)
  split
  · exact h.trans (qm_wakeServer _)
  · exact h

theorem qm_ensureOnce (s : St) : QM s (ensureOnce s).1 := by
  unfold ensureOnce
  have h1 := qm_tReady s
  split
  · next s1 heq => rw [heq] at h1; exact h1
  · next s1 heq => rw [heq] at h1; exact h1
  · next s1 heq =>
    rw [heq] at h1
    have h2 := h1.trans (qm_tFlush s1)
    split
    · next s2 heq2 => rw [heq2] at h2; exact h2
    · next s2 heq2 => rw [heq2] at h2; exact h2
    · next s2 heq2 =>
      rw [heq2] at h2
      have h3 := h2.trans (qm_tReady s2)
      split <;> (rename_i heq3; rw [heq3] at h3; exact h3)

theorem qm_ensureLoop : ∀ (fuel : Nat) (s : St), QM s (ensureLoop fuel s).1 := by
  intro fuel
  induction fuel with
  | zero => intro s; exact QM.emit _ _ rfl rfl
  | succ n ih =>
    intro s
    unfold ensureLoop
    have h1 := qm_tReady s
    split
    · next s1 heq => rw [heq] at h1; exact h1
    · next s1 heq => rw [heq] at h1; exact h1
    · next s1 heq =>
      rw [heq] at h1
      have h2 := h1.trans (qm_tFlush s1)
      split
      · next s2 heq2 => rw [heq2] at h2; exact h2
      · next s2 heq2 => rw [heq2] at h2; exact h2
      · next s2 heq2 => rw [heq2] at h2; exact h2.trans (ih s2)

theorem qm_ensureWriteable (s : St) : QM s (ensureWriteable s).1 := by
  unfold ensureWriteable
  split
  · exact qm_ensureLoop _ s
  · exact qm_ensureOnce s

theorem qm_flushArm (s : St) (rc : Bool) : QM s (flushArm s rc).1 := by
  unfold flushArm
  have h1 := qm_tFlush s
  split
  · next s1 heq => rw [heq] at h1; exact h1
  · next s1 heq => rw [heq] at h1; exact h1
  · next s1 heq => rw [heq] at h1; split <;> exact h1

theorem qm_removeTimer (s : St) (k : Nat) : QM s (removeTimer s k) := by
  unfold removeTimer; split
  · simp only; split
    · exact (qm_wakeServer _).pre rfl rfl
    · exact QM.of_eq rfl rfl
  · exact (QM.emit _ _ rfl rfl).pre rfl rfl


/-! ## the second coupling -/

theorem inbIds_append (l : List Inb) (m : Inb) :
    inbIds (l ++ [m]) = inbIds l ++ inbIds [m] := by
  induction l with
  | nil => rfl
  | cons a l ih =>
    cases a with
    | err => simpa [inbIds] using ih
    | msg x => cases x <;> simp [inbIds, ih]

theorem ceilMs_mono {a b : Nat} (h : a ≤ b) : ceilMs a ≤ ceilMs b := by
  unfold ceilMs nsPerMs
  exact Nat.div_le_div_right (by omega)

/-- (`rest`: the ids of the requests the script has still to inject) -/
structure X (rest : List Nat) (B : BW) (S : MV) : Prop where
  nd : (S.execs.map (·.id) ++ (inbIds S.inb ++ rest)).Nodup
  cq : ∀ i ∈ S.cq, ∃ x ∈ S.execs, x.id = i ∧ x.live = false
  rq : ∀ i ∈ S.rq, ∃ x ∈ S.execs, x.id = i ∧ x.live = false
  unt : ∀ x ∈ S.execs, (∃ en ∈ S.ents, en.rid = x.rid) ∨ x.aborted = true ∨ x.live = false
  esrc : ∀ en ∈ S.ents, ∃ x ∈ S.execs, x.rid = en.rid
  bsrc : ∀ eb ∈ B.execs, ∃ x ∈ S.execs, x.vis = some eb.rid
  bid : ∀ eb ∈ B.execs, ∀ x ∈ S.execs, x.vis = some eb.rid → x.id = eb.id
  expd : ∀ eb ∈ B.execs, eb.expiredSeen = true → ∀ en ∈ S.ents, en.id ≠ eb.id
  hi : ∀ en ∈ S.ents, ∀ x ∈ S.execs, x.rid = en.rid → ∀ eb ∈ B.execs, x.vis = some eb.rid →
    en.due + en.rem ≤ max eb.deadline eb.yieldedAt

theorem X.idnd {rest : List Nat} {B : BW} {S : MV} (h : X rest B S) : (S.execs.map (·.id)).Nodup :=
  (List.nodup_append.mp h.nd).1

theorem X.id_inj {rest : List Nat} {B : BW} {S : MV} (h : X rest B S) {x y : YE} (hx : x ∈ S.execs) (hy : y ∈ S.execs)
    (he : x.id = y.id) : x = y :=
  eq_of_map_nodup (·.id) h.idnd hx hy he

theorem X.le {rest : List Nat} {B B' : BW} {S : MV} (h : X rest B S) (hl : BW.le B B') : X rest B' S := by
  obtain ⟨_, he, _, _⟩ := hl
  exact ⟨h.nd, h.cq, h.rq, h.unt, h.esrc, by rw [he]; exact h.bsrc, by rw [he]; exact h.bid, by rw [he]; exact h.expd,
    by rw [he]; exact h.hi⟩

/-- an execution the monitor has seen expire is aborted or finished -/
theorem X.expa {rest : List Nat} {B : BW} {S : MV} (h : X rest B S)
    (heid : ∀ en ∈ S.ents, ∀ x ∈ S.execs, x.rid = en.rid → x.id = en.id)
    {eb : WB} (heb : eb ∈ B.execs) (hs : eb.expiredSeen = true) {x : YE} (hx : x ∈ S.execs) (hv : x.vis = some eb.rid) :
    x.aborted = true ∨ x.live = false := by
  rcases h.unt x hx with ⟨en, hen, hr⟩ | h1
  · exfalso
    have h1 := heid en hen x hx hr.symm
    have h2 := h.bid eb heb x hx hv
    exact h.expd eb heb hs en hen (h1.symm.trans h2)
  · exact h1

/-- a tracked request whose tick (as the monitor computes it) has passed has a due timer -/
theorem X.due_untracked {rest : List Nat} {B : BW} {S : MV} (h : X rest B S)
    (heid : ∀ en ∈ S.ents, ∀ x ∈ S.execs, x.rid = en.rid → x.id = en.id) (now : Nat)
    (hidle : ∀ en ∈ S.ents, now < ceilMs en.due * nsPerMs) {eb : WB} (heb : eb ∈ B.execs) (ht : eb.tick ≤ now) :
    ∀ en ∈ S.ents, en.id ≠ eb.id := by
  intro en hen hid
  obtain ⟨x, hx, hr⟩ := h.esrc en hen
  obtain ⟨x0, hx0, hv0⟩ := h.bsrc eb heb
  have h1 := heid en hen x hx hr
  have h2 := h.bid eb heb x0 hx0 hv0
  have hxx : x = x0 := h.id_inj hx hx0 (by rw [h1, hid, h2])
  subst hxx
  have h3 := h.hi en hen x hx hr eb heb hv0
  have h4 := hidle en hen
  have h5 : ceilMs en.due ≤ ceilMs (max eb.deadline eb.yieldedAt) := ceilMs_mono (by omega)
  have h6 : eb.tick = ceilMs (max eb.deadline eb.yieldedAt) * nsPerMs := rfl
  rw [h6] at ht
  have := Nat.mul_le_mul_right nsPerMs h5
  omega

/-- a step of the model that keeps the executions' identities, may finish or abort some, shrinks (or re-arms) the
table and the queues (`l`, `p`, `q`: the executions before and after, position by position) -/
theorem X.model {rest : List Nat} {B : BW} {S S' : MV} (h : X rest B S) {α : Type} (l : List α) (p q : α → YE)
    (hS : S.execs = l.map p) (hS' : S'.execs = l.map q)
    (hg : ∀ a ∈ l, (q a).rid = (p a).rid ∧ (q a).id = (p a).id ∧ (q a).vis = (p a).vis ∧
      ((q a).live = true → (p a).live = true) ∧ ((p a).aborted = true → (q a).aborted = true))
    (hents : ∀ en' ∈ S'.ents, ∃ en ∈ S.ents, en.id = en'.id ∧ en.rid = en'.rid ∧ en'.due + en'.rem ≤ en.due + en.rem)
    (hcq : ∀ i ∈ S'.cq, i ∈ S.cq ∨ ∃ a ∈ l, (p a).id = i ∧ (q a).live = false)
    (hrq : ∀ i ∈ S'.rq, i ∈ S.rq ∨ ∃ a ∈ l, (p a).id = i ∧ (q a).live = false)
    (hinb : S'.inb = S.inb)
    (hunt : ∀ a ∈ l, (∃ en ∈ S.ents, en.rid = (p a).rid) →
      (∃ en' ∈ S'.ents, en'.rid = (p a).rid) ∨ (q a).aborted = true ∨ (q a).live = false) :
    X rest B S' := by
  have hmem : ∀ x' ∈ S'.execs, ∃ a ∈ l, x' = q a := by
    intro x' hx'; rw [hS'] at hx'; obtain ⟨a, ha, rfl⟩ := List.mem_map.mp hx'; exact ⟨a, ha, rfl⟩
  have hmem0 : ∀ x ∈ S.execs, ∃ a ∈ l, x = p a := by
    intro x hx; rw [hS] at hx; obtain ⟨a, ha, rfl⟩ := List.mem_map.mp hx; exact ⟨a, ha, rfl⟩
  have hin : ∀ a ∈ l, q a ∈ S'.execs := fun a ha => by rw [hS']; exact List.mem_map_of_mem ha
  have hin0 : ∀ a ∈ l, p a ∈ S.execs := fun a ha => by rw [hS]; exact List.mem_map_of_mem ha
  have hdead : ∀ a ∈ l, (p a).live = false → (q a).live = false := by
    intro a ha hl
    cases hgl : (q a).live with
    | false => rfl
    | true => rw [(hg a ha).2.2.2.1 hgl] at hl; cases hl
  have hids : S'.execs.map (·.id) = S.execs.map (·.id) := by
    rw [hS, hS', List.map_map, List.map_map]
    exact List.map_congr_left (fun a ha => (hg a ha).2.1)
  refine ⟨?_, ?_, ?_, ?_, ?_, ?_, ?_, ?_, ?_⟩
  · rw [hids, hinb]; exact h.nd
  · intro i hi
    rcases hcq i hi with h1 | ⟨a, ha, hxi, hl⟩
    · obtain ⟨x, hx, hxi, hl⟩ := h.cq i h1
      obtain ⟨a, ha, rfl⟩ := hmem0 x hx
      exact ⟨q a, hin a ha, (hg a ha).2.1.trans hxi, hdead a ha hl⟩
    · exact ⟨q a, hin a ha, (hg a ha).2.1.trans hxi, hl⟩
  · intro i hi
    rcases hrq i hi with h1 | ⟨a, ha, hxi, hl⟩
    · obtain ⟨x, hx, hxi, hl⟩ := h.rq i h1
      obtain ⟨a, ha, rfl⟩ := hmem0 x hx
      exact ⟨q a, hin a ha, (hg a ha).2.1.trans hxi, hdead a ha hl⟩
    · exact ⟨q a, hin a ha, (hg a ha).2.1.trans hxi, hl⟩
  · intro x' hx'
    obtain ⟨a, ha, rfl⟩ := hmem x' hx'
    rw [(hg a ha).1]
    rcases h.unt (p a) (hin0 a ha) with ht | hab | hl
    · exact hunt a ha ht
    · exact Or.inr (Or.inl ((hg a ha).2.2.2.2 hab))
    · exact Or.inr (Or.inr (hdead a ha hl))
  · intro en' hen'
    obtain ⟨en, hen, _, hr, _⟩ := hents en' hen'
    obtain ⟨x, hx, hxr⟩ := h.esrc en hen
    obtain ⟨a, ha, rfl⟩ := hmem0 x hx
    exact ⟨q a, hin a ha, by rw [(hg a ha).1, hxr, hr]⟩
  · intro eb heb
    obtain ⟨x, hx, hv⟩ := h.bsrc eb heb
    obtain ⟨a, ha, rfl⟩ := hmem0 x hx
    exact ⟨q a, hin a ha, by rw [(hg a ha).2.2.1, hv]⟩
  · intro eb heb x' hx' hv
    obtain ⟨a, ha, rfl⟩ := hmem x' hx'
    rw [(hg a ha).2.2.1] at hv
    rw [(hg a ha).2.1]
    exact h.bid eb heb (p a) (hin0 a ha) hv
  · intro eb heb hs en' hen'
    obtain ⟨en, hen, hi, _, _⟩ := hents en' hen'
    rw [← hi]
    exact h.expd eb heb hs en hen
  · intro en' hen' x' hx' hr eb heb hv
    obtain ⟨a, ha, rfl⟩ := hmem x' hx'
    obtain ⟨en, hen, _, hr', hle⟩ := hents en' hen'
    rw [(hg a ha).2.2.1] at hv
    rw [(hg a ha).1] at hr
    have := h.hi en hen (p a) (hin0 a ha) (hr.trans hr'.symm) eb heb hv
    omega

/-- a request is read off the transport -/
theorem X.read {rest : List Nat} {B : BW} {S : MV} (h : X rest B S) (m : Inb) (l : List Inb) (hinb : S.inb = m :: l) :
    X rest B { S with inb := l } ∧
    ∀ i d tr b, m = .msg (.request i d tr b) → (S.execs.map (·.id) ++ i :: (inbIds l ++ rest)).Nodup := by
  have hsub : List.Sublist (inbIds l) (inbIds S.inb) := by
    rw [hinb]
    cases m with
    | err => exact List.Sublist.refl _
    | msg x => cases x <;> first | exact List.Sublist.refl _ | exact List.sublist_cons_self _ _
  refine ⟨⟨?_, h.cq, h.rq, h.unt, h.esrc, h.bsrc, h.bid, h.expd, h.hi⟩, ?_⟩
  · exact h.nd.sublist ((List.Sublist.refl _).append (hsub.append (List.Sublist.refl _)))
  · intro i d tr b hm
    have := h.nd
    rw [hinb, hm] at this
    exact this

/-- the script injects an item (`rest`: the ids still to come, before and after) -/
theorem X.inject {rest rest' : List Nat} {B : BW} {S : MV} (h : X rest B S) (m : Inb)
    (hr : rest = inbIds [m] ++ rest') : X rest' B { S with inb := S.inb ++ [m] } := by
  refine ⟨?_, h.cq, h.rq, h.unt, h.esrc, h.bsrc, h.bid, h.expd, h.hi⟩
  show (S.execs.map (·.id) ++ (inbIds (S.inb ++ [m]) ++ rest')).Nodup
  rw [inbIds_append, List.append_assoc (inbIds S.inb), ← hr]
  exact h.nd

/-- a request that was read is started -/
theorem X.start {rest : List Nat} {B : BW} {S S' : MV} (h : X rest B S) (n i : Nat) (y : YE) (z : ZE)
    (hy : y.rid = n ∧ y.id = i ∧ y.vis = none) (hz : z.id = i ∧ z.rid = n)
    (hex : S'.execs = S.execs ++ [y]) (hzs : S'.ents = S.ents ++ [z])
    (hcq : S'.cq = S.cq) (hrq : S'.rq = S.rq) (hinb : S'.inb = S.inb)
    (hnd : (S.execs.map (·.id) ++ i :: (inbIds S.inb ++ rest)).Nodup)
    (hfx : ∀ x ∈ S.execs, x.rid ≠ n) (hfe : ∀ en ∈ S.ents, en.rid ≠ n) : X rest B S' := by
  have hinew : ∀ x ∈ S.execs, x.id ≠ i := by
    intro x hx hxi
    have h1 := (List.nodup_append.mp hnd).2.2
    exact h1 x.id (List.mem_map_of_mem hx) i (List.mem_cons_self ..) hxi
  refine ⟨?_, ?_, ?_, ?_, ?_, ?_, ?_, ?_, ?_⟩
  · rw [hex, hinb, List.map_append, List.append_assoc]
    simpa [hy.2.1] using hnd
  · intro j hj
    rw [hcq] at hj
    obtain ⟨x, hx, hxi, hl⟩ := h.cq j hj
    exact ⟨x, by rw [hex]; exact List.mem_append_left _ hx, hxi, hl⟩
  · intro j hj
    rw [hrq] at hj
    obtain ⟨x, hx, hxi, hl⟩ := h.rq j hj
    exact ⟨x, by rw [hex]; exact List.mem_append_left _ hx, hxi, hl⟩
  · intro x hx
    rw [hex] at hx
    rcases List.mem_append.mp hx with hx | hx
    · rcases h.unt x hx with ⟨en, hen0, hr⟩ | h1
      · exact Or.inl ⟨en, by rw [hzs]; exact List.mem_append_left _ hen0, hr⟩
      · exact Or.inr h1
    · simp only [List.mem_singleton] at hx
      subst hx
      exact Or.inl ⟨z, by rw [hzs]; exact List.mem_append_right _ (List.mem_singleton.mpr rfl), by rw [hz.2, hy.1]⟩
  · intro en hen'
    rw [hzs] at hen'
    rcases List.mem_append.mp hen' with he | he
    · obtain ⟨x, hx, hr⟩ := h.esrc en he
      exact ⟨x, by rw [hex]; exact List.mem_append_left _ hx, hr⟩
    · simp only [List.mem_singleton] at he
      subst he
      exact ⟨y, by rw [hex]; exact List.mem_append_right _ (List.mem_singleton.mpr rfl), by rw [hz.2, hy.1]⟩
  · intro eb heb
    obtain ⟨x, hx, hv⟩ := h.bsrc eb heb
    exact ⟨x, by rw [hex]; exact List.mem_append_left _ hx, hv⟩
  · intro eb heb x hx hv
    rw [hex] at hx
    rcases List.mem_append.mp hx with hx | hx
    · exact h.bid eb heb x hx hv
    · simp only [List.mem_singleton] at hx
      subst hx
      rw [hy.2.2] at hv; cases hv
  · intro eb heb hs en hen'
    rw [hzs] at hen'
    rcases List.mem_append.mp hen' with he | he
    · exact h.expd eb heb hs en he
    · simp only [List.mem_singleton] at he
      subst he
      rw [hz.1]
      obtain ⟨x, hx, hv⟩ := h.bsrc eb heb
      have := h.bid eb heb x hx hv
      intro hc
      exact hinew x hx (this.trans hc.symm)
  · intro en hen' x hx hr eb heb hv
    rw [hzs] at hen'
    rw [hex] at hx
    rcases List.mem_append.mp hx with hx | hx
    · rcases List.mem_append.mp hen' with he | he
      · exact h.hi en he x hx hr eb heb hv
      · simp only [List.mem_singleton] at he
        subst he
        rw [hz.2] at hr
        exact absurd hr (hfx x hx)
    · simp only [List.mem_singleton] at hx
      subst hx
      rw [hy.2.2] at hv; cases hv

/-- the started request is handed out: the book learns of it -/
theorem X.yield {rest : List Nat} {B B' : BW} {S S' : MV} (h : X rest B S) (r v i d now : Nat)
    (hex : S'.execs = S.execs.map (fun x => if x.rid == r then { x with vis := some v } else x))
    (hen : S'.ents = S.ents) (hcq : S'.cq = S.cq) (hrq : S'.rq = S.rq) (hinb : S'.inb = S.inb)
    (hb : B'.execs = B.execs ++ [⟨v, i, d, now, false, false, false⟩])
    (hr0 : ∀ x ∈ S.execs, x.rid = r → x.vis = none ∧ x.id = i)
    (hx0 : ∃ x ∈ S.execs, x.rid = r)
    (hv : ∀ x ∈ S.execs, x.vis ≠ some v) (hbv : ∀ eb ∈ B.execs, eb.rid ≠ v)
    (hhi : ∀ en ∈ S.ents, en.rid = r → en.due + en.rem ≤ max d now) : X rest B' S' := by
  let g : YE → YE := fun x => if x.rid == r then { x with vis := some v } else x
  have hgr : ∀ x, (g x).rid = x.rid := by intro x; show (if _ then _ else _ : YE).rid = _; split <;> rfl
  have hgi : ∀ x, (g x).id = x.id := by intro x; show (if _ then _ else _ : YE).id = _; split <;> rfl
  have hgl : ∀ x, (g x).live = x.live := by intro x; show (if _ then _ else _ : YE).live = _; split <;> rfl
  have hga : ∀ x, (g x).aborted = x.aborted := by intro x; show (if _ then _ else _ : YE).aborted = _; split <;> rfl
  have hgv1 : ∀ x, x.rid = r → (g x).vis = some v := by
    intro x hx; show (if _ then _ else _ : YE).vis = _; rw [if_pos (by simpa using hx)]
  have hgv2 : ∀ x, x.rid ≠ r → g x = x := by
    intro x hx; show (if _ then _ else _ : YE) = _; rw [if_neg (by simpa using hx)]
  have hmem : ∀ x' ∈ S'.execs, ∃ x ∈ S.execs, x' = g x := by
    intro x' hx'; rw [hex] at hx'; obtain ⟨x, hx, rfl⟩ := List.mem_map.mp hx'; exact ⟨x, hx, rfl⟩
  have hin : ∀ x ∈ S.execs, g x ∈ S'.execs := fun x hx => by rw [hex]; exact List.mem_map_of_mem hx
  have hids : S'.execs.map (·.id) = S.execs.map (·.id) := by
    rw [hex, List.map_map]
    exact List.map_congr_left (fun x _ => hgi x)
  have hbm : ∀ eb ∈ B'.execs, eb ∈ B.execs ∨ eb = ⟨v, i, d, now, false, false, false⟩ := by
    intro eb heb; rw [hb] at heb
    rcases List.mem_append.mp heb with h1 | h1
    · exact Or.inl h1
    · exact Or.inr (List.mem_singleton.mp h1)
  refine ⟨?_, ?_, ?_, ?_, ?_, ?_, ?_, ?_, ?_⟩
  · rw [hids, hinb]; exact h.nd
  · intro j hj
    rw [hcq] at hj
    obtain ⟨x, hx, hxi, hl⟩ := h.cq j hj
    exact ⟨g x, hin x hx, (hgi x).trans hxi, (hgl x).trans hl⟩
  · intro j hj
    rw [hrq] at hj
    obtain ⟨x, hx, hxi, hl⟩ := h.rq j hj
    exact ⟨g x, hin x hx, (hgi x).trans hxi, (hgl x).trans hl⟩
  · intro x' hx'
    obtain ⟨x, hx, rfl⟩ := hmem x' hx'
    rw [hgr, hga, hgl, hen]
    exact h.unt x hx
  · intro en hen'
    rw [hen] at hen'
    obtain ⟨x, hx, hr⟩ := h.esrc en hen'
    exact ⟨g x, hin x hx, (hgr x).trans hr⟩
  · intro eb heb
    rcases hbm eb heb with h1 | h1
    · obtain ⟨x, hx, hxv⟩ := h.bsrc eb h1
      refine ⟨g x, hin x hx, ?_⟩
      by_cases hxr : x.rid = r
      · rw [(hr0 x hx hxr).1] at hxv; cases hxv
      · rw [hgv2 x hxr]; exact hxv
    · obtain ⟨x, hx, hxr⟩ := hx0
      exact ⟨g x, hin x hx, by rw [h1]; exact hgv1 x hxr⟩
  · intro eb heb x' hx' hxv
    obtain ⟨x, hx, rfl⟩ := hmem x' hx'
    rw [hgi]
    by_cases hxr : x.rid = r
    · rw [hgv1 x hxr] at hxv
      rcases hbm eb heb with h1 | h1
      · exact absurd (Option.some.inj hxv).symm (hbv eb h1)
      · rw [h1]; exact (hr0 x hx hxr).2
    · rw [hgv2 x hxr] at hxv
      rcases hbm eb heb with h1 | h1
      · exact h.bid eb h1 x hx hxv
      · rw [h1] at hxv; exact absurd hxv (hv x hx)
  · intro eb heb hs en hen'
    rw [hen] at hen'
    rcases hbm eb heb with h1 | h1
    · exact h.expd eb h1 hs en hen'
    · rw [h1] at hs; cases hs
  · intro en hen' x' hx' hr eb heb hxv
    rw [hen] at hen'
    obtain ⟨x, hx, rfl⟩ := hmem x' hx'
    rw [hgr] at hr
    by_cases hxr : x.rid = r
    · rw [hgv1 x hxr] at hxv
      rcases hbm eb heb with h1 | h1
      · exact absurd (Option.some.inj hxv).symm (hbv eb h1)
      · rw [h1]; exact hhi en hen' (hr.symm.trans hxr)
    · rw [hgv2 x hxr] at hxv
      rcases hbm eb heb with h1 | h1
      · exact h.hi en hen' x hx hr eb h1 hxv
      · rw [h1] at hxv; exact absurd hxv (hv x hx)

/-- the book's executions are updated in place: identities, deadline and hand-out time stay; an expiry is recorded only
for requests that are tracked no more -/
theorem X.book {rest : List Nat} {B B' : BW} {S : MV} (h : X rest B S) (f : WB → WB)
    (hb : B'.execs = B.execs.map f)
    (hf : ∀ e ∈ B.execs, (f e).rid = e.rid ∧ (f e).id = e.id ∧ (f e).deadline = e.deadline ∧ (f e).yieldedAt = e.yieldedAt ∧
      ((f e).expiredSeen = true → e.expiredSeen = true ∨ ∀ en ∈ S.ents, en.id ≠ e.id)) : X rest B' S := by
  have hmem : ∀ eb' ∈ B'.execs, ∃ eb ∈ B.execs, eb' = f eb := by
    intro x' hx'; rw [hb] at hx'; obtain ⟨x, hx, rfl⟩ := List.mem_map.mp hx'; exact ⟨x, hx, rfl⟩
  refine ⟨h.nd, h.cq, h.rq, h.unt, h.esrc, ?_, ?_, ?_, ?_⟩
  · intro eb' heb'
    obtain ⟨eb, heb, rfl⟩ := hmem eb' heb'
    rw [(hf eb heb).1]; exact h.bsrc eb heb
  · intro eb' heb' x hx hv
    obtain ⟨eb, heb, rfl⟩ := hmem eb' heb'
    rw [(hf eb heb).1] at hv
    rw [(hf eb heb).2.1]; exact h.bid eb heb x hx hv
  · intro eb' heb' hs en hen
    obtain ⟨eb, heb, rfl⟩ := hmem eb' heb'
    rw [(hf eb heb).2.1]
    rcases (hf eb heb).2.2.2.2 hs with h1 | h1
    · exact h.expd eb heb h1 en hen
    · exact h1 en hen
  · intro en hen x hx hr eb' heb' hv
    obtain ⟨eb, heb, rfl⟩ := hmem eb' heb'
    rw [(hf eb heb).1] at hv
    rw [(hf eb heb).2.2.1, (hf eb heb).2.2.2.1]
    exact h.hi en hen x hx hr eb heb hv

/-- an idle sweep (generic in the condition, so that nothing ever evaluates it): the executions satisfying `c` are
marked; they are tracked no more -/
theorem X.sweepG {rest : List Nat} {B B' : BW} {S : MV} (h : X rest B S) (c : WB → Prop) [DecidablePred c]
    (hb : B'.execs = B.execs.map (fun x => if c x then { x with expiredSeen := true } else x))
    (hc : ∀ eb ∈ B.execs, c eb → ∀ en ∈ S.ents, en.id ≠ eb.id) : X rest B' S := by
  refine h.book (fun x => if c x then { x with expiredSeen := true } else x) hb ?_
  intro e he
  by_cases hce : c e
  · rw [if_pos hce]
    exact ⟨rfl, rfl, rfl, rfl, fun _ => Or.inr (hc e he hce)⟩
  · rw [if_neg hce]
    exact ⟨rfl, rfl, rfl, rfl, fun h' => Or.inl h'⟩

end TarpcModel.Server.Tab

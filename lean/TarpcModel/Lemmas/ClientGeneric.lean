import TarpcModel.Lemmas.ClientPres
/-! Preservation of `Inv` by the functions of the client model (dispatch side, call side, ops). -/
namespace TarpcModel.Client

/-! ### transport: the sent log only grows in `startSend` -/

@[simp] theorem SimT.useAfter_sentLog (t : SimT) (w : String) : (t.useAfter w).sentLog = t.sentLog := by
  unfold SimT.useAfter SimT.violate; split <;> (try split) <;> rfl
@[simp] theorem SimT.violate_sentLog (t : SimT) (w : String) : (t.violate w).sentLog = t.sentLog := rfl
@[simp] theorem SimT.letThrough_sentLog (t : SimT) (a : Bool) : (t.letThrough a).sentLog = t.sentLog := by
  unfold SimT.letThrough; split <;> rfl
@[simp] theorem SimT.drain_sentLog (t : SimT) : t.drain.1.sentLog = t.sentLog := by
  unfold SimT.drain; simp only; split <;> rfl
@[simp] theorem SimT.pollReady_sentLog (t : SimT) : t.pollReady.1.sentLog = t.sentLog := by
  unfold SimT.pollReady; simp only; split <;> (try split) <;> simp
@[simp] theorem SimT.pollFlush_sentLog (t : SimT) : t.pollFlush.1.sentLog = t.sentLog := by
  unfold SimT.pollFlush; simp only; split <;> (try split) <;> simp
@[simp] theorem SimT.pollClose_sentLog (t : SimT) : t.pollClose.1.sentLog = t.sentLog := by
  unfold SimT.pollClose; simp only; split <;> (try split) <;> simp
@[simp] theorem SimT.pollNext_sentLog (t : SimT) : t.pollNext.1.sentLog = t.sentLog := by
  unfold SimT.pollNext; split
  · rfl
  · simp only; split <;> (try split) <;> simp
theorem SimT.startSend_sentLog (t : SimT) (m : Msg) :
    (t.startSend m).1.sentLog = if (t.startSend m).2 then t.sentLog ++ [m] else t.sentLog := by
  unfold SimT.startSend; simp only; split <;> split <;> simp

/-- two states with the same view apart from the transport's log -/
theorem view_t (s : St) (t : SimT) (h : t.sentLog = s.t.sentLog) : view { s with t := t } = view s := by
  simp [view, h]

theorem view_emitViolations (s : St) (n : Nat) : view (emitViolations s n) = view s := by
  unfold emitViolations
  generalize ((s.t.violations.take (s.t.violations.length - n)).reverse) = l
  induction l generalizing s with
  | nil => rfl
  | cons w l ih => simp only [List.foldl_cons]; rw [ih, view_emit_irr _ _ rfl]

@[simp] theorem tid_emitViolations (s : St) (n : Nat) : tid (emitViolations s n) = tid s := by
  unfold emitViolations
  generalize ((s.t.violations.take (s.t.violations.length - n)).reverse) = l
  induction l generalizing s with
  | nil => rfl
  | cons w l ih => simp only [List.foldl_cons]; rw [ih]; rfl

theorem view_emit_ev (s : St) (t : SimT) (n : Nat) (o : Obs) (ho : relevant o = false)
    (ht : t.sentLog = s.t.sentLog) : view (emit (emitViolations { s with t := t } n) o) = view s := by
  rw [view_emit_irr _ _ ho, view_emitViolations, view_t _ _ ht]

@[simp] theorem view_tReady (s : St) : view (tReady s).1 = view s := by
  unfold tReady; simp only
  split
  · rw [view_wakeDispatch]; exact view_emit_ev _ _ _ _ rfl (SimT.pollReady_sentLog _)
  · exact view_emit_ev _ _ _ _ rfl (SimT.pollReady_sentLog _)
@[simp] theorem view_tFlush (s : St) : view (tFlush s).1 = view s := by
  unfold tFlush; simp only
  split
  · rw [view_wakeDispatch]; exact view_emit_ev _ _ _ _ rfl (SimT.pollFlush_sentLog _)
  · exact view_emit_ev _ _ _ _ rfl (SimT.pollFlush_sentLog _)
@[simp] theorem view_tClose (s : St) : view (tClose s).1 = view s := by
  unfold tClose; simp only
  split
  · rw [view_wakeDispatch]; exact view_emit_ev _ _ _ _ rfl (SimT.pollClose_sentLog _)
  · exact view_emit_ev _ _ _ _ rfl (SimT.pollClose_sentLog _)

theorem view_tNext (s : St) :
    view (tNext s).1 =
      match (tNext s).2 with
      | .item (.response id res) => { view s with rel := .tNext (tid s) (.item (.response id res)) :: (view s).rel }
      | _ => view s := by
  unfold tNext
  split
  · rfl
  · simp only
    rcases hp : s.t.pollNext with ⟨t, r⟩
    have ht : t.sentLog = s.t.sentLog := by have := SimT.pollNext_sentLog s.t; rw [hp] at this; exact this
    have hb : ∀ s' : St, view { s' with readFused := true } = view s' := fun _ => rfl
    cases r with
    | pending => simp only [reduceCtorEq, beq_iff_eq, ↓reduceIte]; rw [view_emit_irr _ _ rfl, view_t _ _ ht]
    | err => simp only [reduceCtorEq, beq_iff_eq, ↓reduceIte]; rw [view_emit_irr _ _ rfl, view_t _ _ ht]
    | eof => simp only [beq_self_eq_true, ↓reduceIte]; rw [hb, view_emit_irr _ _ rfl, view_t _ _ ht]
    | item m =>
      simp only [reduceCtorEq, beq_iff_eq, ↓reduceIte]
      cases m with
      | response id res => rw [view_emit_rel _ _ rfl, view_t _ _ ht]
      | request _ _ _ _ => rw [view_emit_irr _ _ rfl, view_t _ _ ht]
      | cancel _ _ => rw [view_emit_irr _ _ rfl, view_t _ _ ht]

theorem view_tSend (s : St) (m : Msg) :
    view (tSend s m).1 =
      { view s with sentLog := if (tSend s m).2 then (view s).sentLog ++ [m] else (view s).sentLog,
                    rel := .tSend (tid s) m (tSend s m).2 :: (view s).rel } := by
  unfold tSend
  simp only
  rw [view_emit_rel _ _ rfl, view_emitViolations]
  have := SimT.startSend_sentLog s.t m
  split <;> simp_all [view]

theorem view_removeTimer (s : St) (k : Nat) :
    ∃ pn, view (removeTimer s k) =
      { view s with poisoned := (view s).poisoned || pn,
                    rel := stopObs pn (tid s) "deadlines.remove: invalid key" ++ (view s).rel } := by
  unfold removeTimer; split
  · simp only; split
    · exact ⟨false, by rw [view_wakeDispatch]; simp [view, stopObs]⟩
    · exact ⟨false, by simp [view, stopObs]⟩
  · exact ⟨true, by rw [view_emit_rel _ _ rfl]; simp [view, stopObs, tid]⟩

/-! ### queues -/

@[simp] theorem view_pqRelease (s : St) : view (pqRelease s) = view s := by
  unfold pqRelease; split
  · rw [view_wakeCall]; rfl
  · rfl

theorem view_foldl_wakeCall (ws : List Nat) (s : St) : view (ws.foldl wakeCall s) = view s := by
  induction ws generalizing s with
  | nil => rfl
  | cons w ws ih => simp only [List.foldl_cons]; rw [ih, view_wakeCall]

@[simp] theorem view_pqClose (s : St) : view (pqClose s) = view s := by
  unfold pqClose; simp only; rw [view_foldl_wakeCall]; rfl

theorem view_pqPush (s : St) (r : DReq) : view (pqPush s r) = { view s with pq := (view s).pq ++ [r] } := by
  unfold pqPush; simp only; split
  · rw [view_wakeDispatch]; rfl
  · rfl

theorem view_cqPush (s : St) (id : Nat) :
    view (cqPush s id) = if s.dDropped then view s else { view s with cq := (view s).cq ++ [id] } := by
  unfold cqPush; split
  · rfl
  · simp only; split
    · rw [view_wakeDispatch]; rfl
    · rfl

theorem pqRecv_cases (s : St) :
    (∃ r rest, s.pq = r :: rest ∧ pqRecv s = (pqRelease { s with pq := rest }, .item r)) ∨
    (s.pq = [] ∧ view (pqRecv s).1 = view s ∧ ∀ r, (pqRecv s).2 ≠ .item r) := by
  unfold pqRecv
  cases h : s.pq with
  | cons r rest => left; exact ⟨r, rest, rfl, rfl⟩
  | nil =>
    right
    refine ⟨rfl, ?_⟩
    simp only
    split
    · exact ⟨rfl, fun _ h => by cases h⟩
    · split
      · exact ⟨rfl, fun _ h => by cases h⟩
      · exact ⟨by simp [view, h], fun _ h => by cases h⟩

theorem cqRecv_cases (s : St) :
    (∃ i rest, s.cq = i :: rest ∧ cqRecv s = ({ s with cq := rest }, .item i)) ∨
    (s.cq = [] ∧ view (cqRecv s).1 = view s ∧ ∀ r, (cqRecv s).2 ≠ .item r) := by
  unfold cqRecv
  cases h : s.cq with
  | cons r rest => left; exact ⟨r, rest, rfl, rfl⟩
  | nil =>
    right
    refine ⟨rfl, ?_⟩
    simp only
    split
    · exact ⟨rfl, fun _ h => by cases h⟩
    · exact ⟨by simp [view, h], fun _ h => by cases h⟩


/-! ### `ensure_writeable` -/

/-- a task span or panicked in this poll: the monitors stop judging -/
def Stopped (s : St) : Prop := (view s).rel.any isStop = true ∨ s.poisoned = true

section generic
variable {P : Option Nat → View → Prop} (hP : PresD P)
include hP

theorem ensureLoop_pres {x : Option Nat} (fuel : Nat) {s : St} (h : P x (view s)) :
    P x (view (ensureLoop fuel s).1) ∧ ((ensureLoop fuel s).2 = .spin → Stopped (ensureLoop fuel s).1) := by
  induction fuel generalizing s with
  | zero =>
    unfold ensureLoop
    rw [view_emit_rel _ _ rfl]
    exact ⟨hP.stop _ h rfl, fun _ => Or.inl (by rw [view_emit_rel _ _ rfl]; simp [isStop])⟩
  | succ fuel ih =>
    unfold ensureLoop
    have h1 := view_tReady s
    rcases hr : tReady s with ⟨s1, r⟩
    rw [hr] at h1
    simp only at h1
    cases r with
    | ready => exact ⟨h1 ▸ h, fun h => by cases h⟩
    | err => exact ⟨h1 ▸ h, fun h => by cases h⟩
    | pending =>
      simp only
      have h2 := view_tFlush s1
      rcases hf : tFlush s1 with ⟨s2, f⟩
      rw [hf] at h2
      simp only at h2
      cases f with
      | pending => exact ⟨by rw [h2, h1]; exact h, fun h => by cases h⟩
      | err => exact ⟨by rw [h2, h1]; exact h, fun h => by cases h⟩
      | ready => exact ih (by rw [h2, h1]; exact h)

omit hP in
theorem view_ensureOnce (s : St) : view (ensureOnce s).1 = view s ∧ (ensureOnce s).2 ≠ .spin := by
  unfold ensureOnce
  have h1 := view_tReady s
  rcases hr : tReady s with ⟨s1, r⟩
  rw [hr] at h1
  cases r <;> simp only <;> try exact ⟨h1, by simp⟩
  have h2 := view_tFlush s1
  rcases hf : tFlush s1 with ⟨s2, f⟩
  rw [hf] at h2
  cases f <;> simp only
  · exact ⟨by rw [h2, h1], by simp⟩
  · have h3 := view_tReady s2
    rcases hr2 : tReady s2 with ⟨s3, r2⟩
    rw [hr2] at h3
    cases r2 <;> simp only <;> exact ⟨by rw [h3, h2, h1], by simp⟩
  · exact ⟨by rw [h2, h1], by simp⟩

theorem ensureWriteable_pres {x : Option Nat} {s : St} (h : P x (view s)) :
    P x (view (ensureWriteable s).1) ∧ ((ensureWriteable s).2 = .spin → Stopped (ensureWriteable s).1) := by
  unfold ensureWriteable; split
  · exact ensureLoop_pres hP _ h
  · have := view_ensureOnce s
    exact ⟨this.1 ▸ h, fun h => absurd h this.2⟩

end generic

/-! ### the in-flight table -/

theorem findEntry_none {s : St} {id : Nat} (h : findEntry s id = none) : ∀ e ∈ s.inflight, e.id ≠ id := by
  intro e he
  have := List.find?_eq_none.mp h e he
  simpa using this

theorem completeRequest_view {s : St} {id : Nat} {e : Entry} (hf : findEntry s id = some e) (o : Outcome) :
    ∃ pn, view (completeRequest s id o).1 =
      View.send { view s with inflight := (view s).inflight.filter (·.id != id), poisoned := (view s).poisoned || pn, rel := stopObs pn (tid s) "deadlines.remove: invalid key" ++ (view s).rel } e.cid o := by
  unfold completeRequest
  rw [hf]
  simp only
  obtain ⟨pn, hpn⟩ := view_removeTimer { s with inflight := s.inflight.filter (·.id != id) } e.timerKey
  exact ⟨pn, by rw [view_osSend', hpn]; rfl⟩

theorem completeRequest_inflight (s : St) (id : Nat) (o : Outcome) :
    ∀ e ∈ (completeRequest s id o).1.inflight, e.id ≠ id := by
  unfold completeRequest
  cases hf : findEntry s id with
  | none => exact findEntry_none hf
  | some e0 =>
    simp only [osSend_inflight]
    unfold removeTimer
    split
    · simp only; split <;> (intro e he; simp at he; exact he.2)
    · intro e he; simp at he; exact he.2

theorem cancelRequest_some {s : St} {id : Nat} {e : Entry} {s' : St} (h : cancelRequest s id = (s', some e)) :
    findEntry s id = some e ∧ ∃ pn, view s' =
      { view s with inflight := (view s).inflight.filter (·.id != id), poisoned := (view s).poisoned || pn, rel := stopObs pn (tid s) "deadlines.remove: invalid key" ++ (view s).rel } := by
  unfold cancelRequest at h
  cases hf : findEntry s id with
  | none => rw [hf] at h; simp at h
  | some e' =>
    rw [hf] at h; simp only [Prod.mk.injEq, Option.some.injEq] at h
    obtain ⟨h1, h2⟩ := h
    subst h2
    refine ⟨rfl, ?_⟩
    obtain ⟨pn, hpn⟩ := view_removeTimer { s with inflight := s.inflight.filter (·.id != id) } e'.timerKey
    exact ⟨pn, by rw [← h1, hpn]; rfl⟩

theorem cancelRequest_none {s : St} {id : Nat} {s' : St} (h : cancelRequest s id = (s', none)) : s' = s := by
  unfold cancelRequest at h
  cases hf : findEntry s id with
  | none => rw [hf] at h; simp at h; exact h.symm
  | some e' => rw [hf] at h; simp at h

theorem insertRequest_cases (s : St) (now : Nat) (r : DReq) :
    ∃ s', insertRequest s now r = some s' ∧
      ((∃ site, s'.poisoned = true ∧ view s' = { view s with poisoned := true, rel := .panic (tid s) site :: (view s).rel }) ∨
       (findEntry s r.id = none ∧ s'.poisoned = s.poisoned ∧ ∃ key rem due, view s' =
          { view s with inflight := (view s).inflight ++ [{ id := r.id, cid := r.cid, ctx := r.ctx, timerKey := key, remainder := rem, dueAt := due }] })) := by
  -- (`split` on the function's own `match`, not `cases` on a generalised result: the kernel must not be made to
  -- evaluate `DelayQ.insert … (clampTimeout …)`)
  unfold insertRequest
  split
  · exact ⟨_, rfl, Or.inl ⟨_, rfl, by rw [view_emit_rel _ _ rfl]; rfl⟩⟩
  · rename_i hf
    have hf' : findEntry s r.id = none := by simpa using hf
    split
    · exact ⟨_, rfl, Or.inl ⟨_, rfl, by rw [view_emit_rel _ _ rfl]; rfl⟩⟩
    · rename_i q key w hq
      cases w with
      | false => exact ⟨_, rfl, Or.inr ⟨hf', rfl, key, _, _, rfl⟩⟩
      | true =>
        refine ⟨_, rfl, Or.inr ⟨hf', ?_, key, (r.ctx.deadline - now) - clampTimeout (r.ctx.deadline - now), now + clampTimeout (r.ctx.deadline - now), ?_⟩⟩
        · simp
        · simp only [↓reduceIte]; rw [view_wakeDispatch]; rfl

theorem osIsClosed_view {s : St} {cid : Nat} (h : osIsClosed s cid = false) :
    ∃ c, (view s).get cid = some c ∧ c.rxClosed = false := by
  unfold osIsClosed at h
  cases hg : getCall s cid with
  | none => simp [hg] at h
  | some c => rw [hg] at h; exact ⟨c.v, view_getCall_some hg, h⟩

section generic
variable {P : Option Nat → View → Prop} (hP : PresD P)
include hP

theorem completeRequest_pres {x : Option Nat} {s : St} (h : P x (view s)) (id : Nat) (o : Outcome)
    (ho : okLike (some o) = false) : P x (view (completeRequest s id o).1) := by
  cases hf : findEntry s id with
  | none => unfold completeRequest; rw [hf]; exact h
  | some e =>
    obtain ⟨he, hid⟩ := findEntry_some hf
    obtain ⟨pn, hv⟩ := completeRequest_view hf o
    rw [hv]
    subst hid
    exact hP.completeN (v := view s) h he o ho pn _ _

end generic

/-! ### the write pump: requests -/

def PW.isSpin {α} : PW α → Bool
  | .spin => true
  | _ => false

section generic
variable {P : Option Nat → View → Prop} (hP : PresD P)
include hP

theorem nextRequestLoop_pres {x : Option Nat} (fuel : Nat) {s : St} (h : P x (view s)) :
    P x (view (nextRequestLoop fuel s).1) ∧
    ∀ r, (nextRequestLoop fuel s).2 = .some r →
      (∃ v1 rest, P x v1 ∧ v1.pq = r :: rest ∧ view (nextRequestLoop fuel s).1 = { v1 with pq := rest }) ∧
      osIsClosed (nextRequestLoop fuel s).1 r.cid = false := by
  induction fuel generalizing s with
  | zero => exact ⟨h, fun r h => by simp [nextRequestLoop] at h⟩
  | succ fuel ih =>
    unfold nextRequestLoop
    rcases pqRecv_cases s with ⟨r, rest, hpq, heq⟩ | ⟨_, hv, hne⟩
    · rw [heq]
      have hp := Inv.pqPop (v := view s) (hP.inv h) (r := r) (rest := rest) hpq
      have hp1 := hP.pqPop (v := view s) (r := r) (rest := rest) h hpq
      have hv : view (pqRelease { s with pq := rest }) = { view s with pq := rest } := by
        rw [view_pqRelease]; rfl
      simp only
      by_cases hc : osIsClosed (pqRelease { s with pq := rest }) r.cid = true
      · simp only [hc, ↓reduceIte]
        exact ih (hv ▸ hp1)
      · simp only [hc, Bool.false_eq_true, ↓reduceIte]
        refine ⟨hv ▸ hp1, fun r' h' => ?_⟩
        injection h' with h'; subst h'
        exact ⟨⟨view s, rest, h, hpq, hv⟩, by simpa using hc⟩
    · rcases hr : pqRecv s with ⟨s1, res⟩
      rw [hr] at hv hne
      cases res with
      | pending => exact ⟨hv ▸ h, fun r h => by cases h⟩
      | closed => exact ⟨hv ▸ h, fun r h => by cases h⟩
      | item r => exact absurd rfl (hne r)

omit hP in
theorem nextRequestLoop_noSpin (fuel : Nat) (s : St) : (nextRequestLoop fuel s).2.isSpin = false := by
  induction fuel generalizing s with
  | zero => simp [nextRequestLoop, PW.isSpin]
  | succ fuel ih =>
    unfold nextRequestLoop
    rcases hr : pqRecv s with ⟨s2, res⟩
    cases res with
    | pending => simp [PW.isSpin]
    | closed => simp [PW.isSpin]
    | item r =>
      simp only
      split
      · exact ih _
      · simp [PW.isSpin]

theorem pollNextRequest_pres {x : Option Nat} {s : St} (h : P x (view s)) :
    P x (view (pollNextRequest s).1) ∧
    (∀ r, (pollNextRequest s).2 = .some r →
      (∃ v1 rest, P x v1 ∧ v1.pq = r :: rest ∧ view (pollNextRequest s).1 = { v1 with pq := rest }) ∧
      osIsClosed (pollNextRequest s).1 r.cid = false) ∧
    ((pollNextRequest s).2.isSpin = true → Stopped (pollNextRequest s).1) := by
  unfold pollNextRequest
  split
  · exact ⟨h, fun r h => (by cases h), fun h => (by cases h)⟩
  · have hv := ensureWriteable_pres hP h
    rcases he : ensureWriteable s with ⟨s1, ew⟩
    rw [he] at hv
    cases ew with
    | ready =>
      have := nextRequestLoop_pres hP (s1.pq.length + 1) hv.1
      refine ⟨this.1, this.2, fun hs => ?_⟩
      simp only at hs
      rw [nextRequestLoop_noSpin] at hs; cases hs
    | pending => exact ⟨hv.1, fun r h => (by cases h), fun h => (by cases h)⟩
    | err a => exact ⟨hv.1, fun r h => (by cases h), fun h => (by cases h)⟩
    | spin => exact ⟨hv.1, fun r h => (by cases h), fun _ => hv.2 rfl⟩

theorem pollWriteRequest_pres {s : St} (h : P none (view s)) (now : Nat) :
    P none (view (pollWriteRequest s now).1) ∧
      ((pollWriteRequest s now).2.isSpin = true → Stopped (pollWriteRequest s now).1) := by
  unfold pollWriteRequest
  have h1 := pollNextRequest_pres hP h
  rcases hp : pollNextRequest s with ⟨s1, res⟩
  rw [hp] at h1
  cases res with
  | pending => exact ⟨h1.1, fun h => by cases h⟩
  | none => exact ⟨h1.1, fun h => by cases h⟩
  | err a => exact ⟨h1.1, fun h => by cases h⟩
  | spin => exact ⟨h1.1, fun _ => h1.2.2 rfl⟩
  | some r =>
    obtain ⟨hi1, h2, _⟩ := h1
    obtain ⟨⟨v1, rest, hv1P, hv1pq, hv1⟩, hcl⟩ := h2 r rfl
    simp only at hi1 hv1 hcl ⊢
    have hd : Deq (view s1) r := hv1 ▸ (Inv.pqPop (hP.inv hv1P) hv1pq).2
    obtain ⟨s2, hins, hcase⟩ := insertRequest_cases s1 now r
    rw [hins]
    simp only
    rcases hcase with ⟨site, hpois, hv⟩ | ⟨hfe, hpois, key, rem, due, hv⟩
    · simp only [hpois, ↓reduceIte]
      exact ⟨hv ▸ hP.panic _ site hi1, fun _ => Or.inr hpois⟩
    · have hi2 : P (some r.id) (view s2) := by
        rw [hv, hv1]
        have hnc : ∃ c, v1.get r.cid = some c ∧ c.rxClosed = false := by
          obtain ⟨c, hc, hrx⟩ := osIsClosed_view hcl
          rw [hv1] at hc
          exact ⟨c, hc, hrx⟩
        exact hP.popInsert (v := v1) key rem due hv1P hv1pq hnc
      by_cases hp2 : s2.poisoned = true
      · simp only [hp2, ↓reduceIte]
        exact ⟨hP.drop_x hi2 (Or.inl hp2), fun _ => Or.inr hp2⟩
      · simp only [hp2, Bool.false_eq_true, ↓reduceIte]
        have hts := view_tSend s2 (.request r.id r.ctx.deadline r.ctx.trace r.body)
        rcases ht : tSend s2 (.request r.id r.ctx.deadline r.ctx.trace r.body) with ⟨s3, ok⟩
        rw [ht] at hts
        simp only at hts ⊢
        have hmem : ({ id := r.id, cid := r.cid, ctx := r.ctx, timerKey := key, remainder := rem, dueAt := due } : Entry) ∈ (view s2).inflight := by
          rw [hv]; simp
        have hcall : ∃ c, (view s2).get r.cid = some c ∧ c.rxClosed = false ∧ r.body = c.body := by
          obtain ⟨c, hc, hrx⟩ := osIsClosed_view hcl
          obtain ⟨c', hc', _, _, hb, _⟩ := hd.call
          rw [hc] at hc'; injection hc' with hc'; subst hc'
          exact ⟨c, by rw [hv]; exact hc, hrx, hb⟩
        have hnp : (view s2).poisoned = false := by simpa [view] using hp2
        cases ok with
        | true =>
          simp only [↓reduceIte] at hts ⊢
          rw [hts]
          exact ⟨hP.sendReqOk (tid s2) r.body hi2 hnp hmem rfl hcall, fun h => by cases h⟩
        | false =>
          simp only [Bool.false_eq_true, ↓reduceIte] at hts ⊢
          refine ⟨?_, fun h => by cases h⟩
          have hinf3 : s3.inflight = s1.inflight ++ [{ id := r.id, cid := r.cid, ctx := r.ctx, timerKey := key, remainder := rem, dueAt := due }] := by
            have : (view s3).inflight = (view s2).inflight := by rw [hts]
            have h2 : (view s2).inflight = (view s1).inflight ++ [{ id := r.id, cid := r.cid, ctx := r.ctx, timerKey := key, remainder := rem, dueAt := due }] := by rw [hv]
            exact this.trans h2
          have hf3 : findEntry s3 r.id = some { id := r.id, cid := r.cid, ctx := r.ctx, timerKey := key, remainder := rem, dueAt := due } := by
            unfold findEntry at hfe ⊢
            rw [hinf3, List.find?_append, hfe]
            simp
          obtain ⟨pn, hv3⟩ := completeRequest_view hf3 .send
          rw [hv3, hts]
          exact hP.sendReqFail (v := view s2) (tid s2) r.body pn (tid s3) _ hi2 hnp hmem rfl hcall

end generic

/-! ### the write pump: cancellations -/

section generic
variable {P : Option Nat → View → Prop} (hP : PresD P)
include hP

theorem nextCancelLoop_pres (fuel : Nat) {s : St} (h : P none (view s)) :
    P none (view (nextCancelLoop fuel s).1) ∧
    (∀ e, (nextCancelLoop fuel s).2 = .some e → CanOk (view (nextCancelLoop fuel s).1) e) ∧
    (nextCancelLoop fuel s).2.isSpin = false := by
  induction fuel generalizing s with
  | zero => exact ⟨h, fun r h => (by simp [nextCancelLoop] at h), rfl⟩
  | succ fuel ih =>
    unfold nextCancelLoop
    rcases cqRecv_cases s with ⟨i, rest, hcq, heq⟩ | ⟨_, hv, hne⟩
    · rw [heq]
      have hp := Inv.cqPop (v := view s) (hP.inv h) (i := i) (rest := rest) hcq
      have hp1 : P none (view { s with cq := rest }) := hP.cqPop (v := view s) (i := i) (rest := rest) h hcq
      simp only
      rcases hc : cancelRequest { s with cq := rest } i with ⟨s2, oe⟩
      cases oe with
      | none =>
        simp only
        have := cancelRequest_none hc
        subst this
        exact ih hp1
      | some e =>
        simp only
        obtain ⟨hfe, pn, hv⟩ := cancelRequest_some hc
        obtain ⟨hmem, hid⟩ := findEntry_some hfe
        subst hid
        have := hP.cancelEntry (v := view { s with cq := rest }) hp1 hmem hp.2 pn (tid { s with cq := rest }) "deadlines.remove: invalid key"
        rw [hv]
        exact ⟨this.1, fun e' h => (by injection h with h; subst h; exact this.2), rfl⟩
    · rcases hr : cqRecv s with ⟨s1, res⟩
      rw [hr] at hv hne
      cases res with
      | pending => exact ⟨hv ▸ h, fun r h => (by cases h), rfl⟩
      | closed => exact ⟨hv ▸ h, fun r h => (by cases h), rfl⟩
      | item r => exact absurd rfl (hne r)

theorem pollNextCancellation_pres {s : St} (h : P none (view s)) :
    P none (view (pollNextCancellation s).1) ∧
    (∀ e, (pollNextCancellation s).2 = .some e → CanOk (view (pollNextCancellation s).1) e) ∧
    ((pollNextCancellation s).2.isSpin = true → Stopped (pollNextCancellation s).1) := by
  unfold pollNextCancellation
  have hv := ensureWriteable_pres hP h
  rcases he : ensureWriteable s with ⟨s1, ew⟩
  rw [he] at hv
  cases ew with
  | ready =>
    have := nextCancelLoop_pres hP (s1.cq.length + 1) hv.1
    exact ⟨this.1, this.2.1, fun hs => (by simp only at hs; rw [this.2.2] at hs; cases hs)⟩
  | pending => exact ⟨hv.1, fun r h => (by cases h), fun h => (by cases h)⟩
  | err a => exact ⟨hv.1, fun r h => (by cases h), fun h => (by cases h)⟩
  | spin => exact ⟨hv.1, fun r h => (by cases h), fun _ => hv.2 rfl⟩

theorem pollWriteCancel_pres {s : St} (h : P none (view s)) :
    P none (view (pollWriteCancel s).1) ∧
    ((pollWriteCancel s).2.isSpin = true → Stopped (pollWriteCancel s).1) := by
  unfold pollWriteCancel
  have h1 := pollNextCancellation_pres hP h
  rcases hp : pollNextCancellation s with ⟨s1, res⟩
  rw [hp] at h1
  cases res with
  | pending => exact ⟨h1.1, fun h => (by cases h)⟩
  | none => exact ⟨h1.1, fun h => (by cases h)⟩
  | err a => exact ⟨h1.1, fun h => (by cases h)⟩
  | spin => exact ⟨h1.1, fun _ => h1.2.2 rfl⟩
  | some e =>
    obtain ⟨hi1, h2, _⟩ := h1
    have hc := h2 e rfl
    simp only at hi1 hc ⊢
    have hts := view_tSend s1 (.cancel e.id e.ctx.trace)
    rcases ht : tSend s1 (.cancel e.id e.ctx.trace) with ⟨s2, ok⟩
    rw [ht] at hts
    simp only at hts ⊢
    have := hP.sendCancel (tid s1) ok hi1 hc
    cases ok with
    | true => exact ⟨hts ▸ this, fun h => (by cases h)⟩
    | false => exact ⟨hts ▸ this, fun h => (by cases h)⟩

end generic

/-! ### expiry and the read pump -/

section generic
variable {P : Option Nat → View → Prop} (hP : PresD P)
include hP

theorem rearmWith_pres {x : Option Nat} {s : St} (h : P x (view s)) (id t due : Nat)
    (r : DelayQ × DelayQ.InsertRes × Bool) : P x (view (rearmWith s id t due r).st) := by
  unfold rearmWith; split
  · show P x (view (emit _ _))
    rw [view_emit_rel _ _ rfl]
    exact hP.panic (v := view s) (tid s) _ h
  · show P x (view (if _ then _ else _))
    split
    · rw [view_wakeDispatch]; exact hP.infRearm id _ t due h
    · exact hP.infRearm id _ t due h

theorem expireWith_pres {x : Option Nat} {s : St} (h : P x (view s)) (now : Nat) (r : DelayQ × DelayQ.PollRes) :
    P x (view (expireWith s now r).st) := by
  unfold expireWith; split
  · rename_i q e
    split
    · rename_i en hf
      obtain ⟨hmem, hid⟩ := findEntry_some hf
      split
      · exact rearmWith_pres hP h _ _ _ _
      · show P x (view (osSend _ _ _))
        rw [view_osSend', ← hid]
        have := hP.completeN (v := view s) h hmem .deadline rfl false (tid s) ""
        have e1 : ({ view s with inflight := (view s).inflight.filter (·.id != en.id), poisoned := (view s).poisoned || false, rel := stopObs false (tid s) "" ++ (view s).rel } : View)
            = view { s with timers := q, inflight := s.inflight.filter (·.id != en.id) } := by
          simp [stopObs, view]
        rw [e1] at this
        exact this
    · exact h
  · exact h

theorem pollExpiredLoop_pres {x : Option Nat} (fuel : Nat) {s : St} (h : P x (view s)) (now : Nat) :
    P x (view (pollExpiredLoop fuel s now).1) := by
  induction fuel generalizing s with
  | zero => exact h
  | succ fuel ih =>
    have h1 : P x (view (expireStep s now).st) := expireWith_pres hP h now _
    unfold pollExpiredLoop; split <;> rename_i heq <;> rw [heq] at h1
    · exact ih h1
    · exact h1

theorem pollExpired_pres {x : Option Nat} {s : St} (h : P x (view s)) (now : Nat) :
    P x (view (pollExpired s now).1) := pollExpiredLoop_pres hP _ h now

theorem pumpRead_pres {s : St} (h : P none (view s)) : P none (view (pumpRead s).1) := by
  unfold pumpRead
  have hv := view_tNext s
  rcases ht : tNext s with ⟨s1, r⟩
  rw [ht] at hv
  simp only at hv
  cases r with
  | pending => exact hv ▸ h
  | eof => exact hv ▸ h
  | err => exact hv ▸ h
  | item m =>
    cases m with
    | request _ _ _ _ => exact hv ▸ h
    | cancel _ _ => exact hv ▸ h
    | response id res =>
      simp only at hv ⊢
      cases hf : findEntry s1 id with
      | none =>
        unfold completeRequest; rw [hf]
        simp only
        rw [hv]
        refine hP.readMiss (tid s) id res h ?_
        have := findEntry_none hf
        have hinf : s1.inflight = s.inflight := by
          have : (view s1).inflight = (view s).inflight := by rw [hv]
          exact this
        rw [hinf] at this; exact this
      | some e =>
        obtain ⟨he, hid⟩ := findEntry_some hf
        obtain ⟨pn, hv2⟩ := completeRequest_view hf (outcomeOf res)
        rw [hv2, hv]
        subst hid
        have hinf : s1.inflight = s.inflight := by
          have : (view s1).inflight = (view s).inflight := by rw [hv]
          exact this
        rw [hinf] at he
        exact hP.readHit (v := view s) (tid s) res pn (tid s1) _ h he

end generic

/-! ### `pump_write`, `run` -/

def PWOk (P : Option Nat → View → Prop) (p : St × PW Unit) : Prop :=
  P none (view p.1) ∧ (p.2.isSpin = true → Stopped p.1)

section generic
variable {P : Option Nat → View → Prop} (hP : PresD P)
include hP

theorem pumpWrite_tail {s2 : St} (h2 : P none (view s2)) (now : Nat) (reqClosed canClosed : Bool) :
    PWOk P
        (let (s, exp) := pollExpired s2 now
            if exp then (s, PW.some ())
            else if s.poisoned then (s, PW.spin)
            else if reqClosed && canClosed then
              match tClose s with
              | (s, .pending) => (s, PW.pending)
              | (s, .err) => (s, PW.err .close)
              | (s, .ready) => (s, PW.none)
            else
              match tFlush s with
              | (s, .pending) => (s, PW.pending)
              | (s, .err) => (s, PW.err .flush)
              | (s, .ready) => (s, (PW.pending : PW Unit))) := by
  have h3 := pollExpired_pres hP h2 now
  rcases he : pollExpired s2 now with ⟨s3, exp⟩
  rw [he] at h3
  simp only at h3 ⊢
  split
  · exact ⟨h3, fun h => (by cases h)⟩
  · split
    · rename_i hpo; exact ⟨h3, fun _ => Or.inr hpo⟩
    split
    · have hv := view_tClose s3
      rcases htc : tClose s3 with ⟨s4, r⟩
      rw [htc] at hv
      cases r <;> exact ⟨hv ▸ h3, fun h => (by cases h)⟩
    · have hv := view_tFlush s3
      rcases htc : tFlush s3 with ⟨s4, r⟩
      rw [htc] at hv
      cases r <;> exact ⟨hv ▸ h3, fun h => (by cases h)⟩

theorem pumpWrite_mid {s1 : St} (hi1 : P none (view s1)) (now : Nat) (reqClosed : Bool) :
    PWOk P (match pollWriteCancel s1 with
        | (s, .err a) => (s, PW.err a)
        | (s, .spin) => (s, PW.spin)
        | (s, .some ()) => (s, PW.some ())
        | (s, canStatus) =>
            let canClosed := match canStatus with | .none => true | _ => false
            let (s, exp) := pollExpired s now
            if exp then (s, PW.some ())
            else if s.poisoned then (s, PW.spin)
            else if reqClosed && canClosed then
              match tClose s with
              | (s, .pending) => (s, PW.pending)
              | (s, .err) => (s, PW.err .close)
              | (s, .ready) => (s, PW.none)
            else
              match tFlush s with
              | (s, .pending) => (s, PW.pending)
              | (s, .err) => (s, PW.err .flush)
              | (s, .ready) => (s, PW.pending)) := by
  have h2 := pollWriteCancel_pres hP hi1
  rcases hc : pollWriteCancel s1 with ⟨s2, r2⟩
  rw [hc] at h2
  simp only at h2
  cases r2 with
  | pending => exact pumpWrite_tail hP h2.1 now reqClosed false
  | none => exact pumpWrite_tail hP h2.1 now reqClosed true
  | err a => exact ⟨h2.1, fun h => (by cases h)⟩
  | spin => exact ⟨h2.1, fun _ => h2.2 rfl⟩
  | some u => exact ⟨h2.1, fun h => (by cases h)⟩

theorem pumpWrite_pres {s : St} (h : P none (view s)) (now : Nat) : PWOk P (pumpWrite s now) := by
  unfold pumpWrite
  have h1 := pollWriteRequest_pres hP h now
  rcases hp : pollWriteRequest s now with ⟨s1, r1⟩
  rw [hp] at h1
  simp only at h1
  cases r1 with
  | err a => exact ⟨h1.1, fun h => (by cases h)⟩
  | spin => exact ⟨h1.1, fun _ => h1.2 rfl⟩
  | some u => exact ⟨h1.1, fun h => (by cases h)⟩
  | pending => exact pumpWrite_mid hP h1.1 now false
  | none => exact pumpWrite_mid hP h1.1 now true

end generic

theorem pumpRead_noSpin (s : St) : (pumpRead s).2.isSpin = false := by
  unfold pumpRead
  rcases ht : tNext s with ⟨s1, r⟩
  cases r with
  | pending => rfl
  | eof => rfl
  | err => rfl
  | item m => cases m <;> rfl

section generic
variable {P : Option Nat → View → Prop} (hP : PresD P)
include hP

theorem run_pres (fuel : Nat) {s : St} (h : P none (view s)) (now : Nat) :
    P none (view (run fuel s now).1) ∧ ((run fuel s now).2 = .spin → Stopped (run fuel s now).1) := by
  induction fuel generalizing s with
  | zero =>
    unfold run
    rw [view_emit_rel _ _ rfl]
    exact ⟨hP.stop _ h rfl, fun _ => Or.inl (by rw [view_emit_rel _ _ rfl]; simp [isStop])⟩
  | succ fuel ih =>
    unfold run
    have h1 := pumpRead_pres hP h
    have hns := pumpRead_noSpin s
    rcases hr : pumpRead s with ⟨s1, rd⟩
    rw [hr] at h1 hns
    simp only at h1 hns
    have h2 := pumpWrite_pres hP h1 now
    rcases hw : pumpWrite s1 now with ⟨s2, wr⟩
    rw [hw] at h2
    obtain ⟨h2a, h2b⟩ := h2
    simp only at h2a h2b
    cases rd with
    | spin => cases hns
    | err a => exact ⟨h1, fun h => (by cases h)⟩
    | pending =>
      simp only [hw]
      cases wr with
      | spin => exact ⟨h2a, fun _ => h2b rfl⟩
      | err a => exact ⟨h2a, fun h => (by cases h)⟩
      | pending => exact ⟨h2a, fun h => (by cases h)⟩
      | none => simp only; split <;> exact ⟨h2a, fun h => (by cases h)⟩
      | some u => exact ih h2a
    | none =>
      simp only [hw]
      cases wr with
      | spin => exact ⟨h2a, fun _ => h2b rfl⟩
      | err a => exact ⟨h2a, fun h => (by cases h)⟩
      | pending => exact ⟨h2a, fun h => (by cases h)⟩
      | none => exact ⟨h2a, fun h => (by cases h)⟩
      | some u => exact ⟨h2a, fun h => (by cases h)⟩
    | some u =>
      simp only [hw]
      cases wr with
      | spin => exact ⟨h2a, fun _ => h2b rfl⟩
      | err a => exact ⟨h2a, fun h => (by cases h)⟩
      | pending => exact ih h2a
      | none => simp only; split
                · exact ⟨h2a, fun h => (by cases h)⟩
                · exact ih h2a
      | some u => exact ih h2a

end generic

/-! ### shutdown -/

theorem view_foldl_osSend (es : List Entry) (o : Outcome) (s : St) :
    view (es.foldl (fun s e => osSend s e.cid o) s) = es.foldl (fun v e => v.send e.cid o) (view s) := by
  induction es generalizing s with
  | nil => rfl
  | cons e es ih => simp only [List.foldl_cons]; rw [ih, view_osSend']

section generic
variable {P : Option Nat → View → Prop} (hP : PresD P)
include hP

theorem failAll_pres {x : Option Nat} {s : St} (h : P x (view s)) (a : Activity) :
    P x (view (failAll s a)) := by
  unfold failAll
  simp only
  rw [view_foldl_osSend]
  have hi := hP.inv h
  refine hP.sendAll (.channel a) rfl s.inflight (v := view { s with inflight := [], timers := s.timers.clear })
    (hP.infClear (v := view s) h) rfl ?_
  intro e he
  obtain ⟨o1, _, o3, _⟩ := hi.orphan (v := view s) he
  exact ⟨o1, o3⟩

theorem drainLoop_pres {x : Option Nat} (fuel : Nat) {s : St} (h : P x (view s)) (a : Activity) :
    P x (view (drainLoop fuel s a).1) := by
  induction fuel generalizing s with
  | zero => exact h
  | succ fuel ih =>
    unfold drainLoop
    rcases pqRecv_cases s with ⟨r, rest, hpq, heq⟩ | ⟨_, hv, hne⟩
    · rw [heq]
      have hp := Inv.pqPop (v := view s) (hP.inv h) (r := r) (rest := rest) hpq
      have hp1 := hP.pqPop (v := view s) (r := r) (rest := rest) h hpq
      have hv : view (pqRelease { s with pq := rest }) = { view s with pq := rest } := by
        rw [view_pqRelease]; rfl
      simp only
      split
      · exact ih (hv ▸ hp1)
      · refine ih ?_
        rw [view_osSend', hv]
        obtain ⟨o1, o2, o3⟩ := Deq.orphan hp.1 hp.2
        exact hP.send r.cid _ hp1 o1 o2 o3 rfl
    · rcases hr : pqRecv s with ⟨s1, res⟩
      rw [hr] at hv hne
      cases res with
      | pending => exact hv ▸ h
      | closed => exact hv ▸ h
      | item r => exact absurd rfl (hne r)

theorem shutDown_pres {x : Option Nat} {s : St} (h : P x (view s)) (a : Activity) :
    P x (view (shutDown s a).1) := by
  unfold shutDown
  simp only
  exact drainLoop_pres hP _ (failAll_pres hP (by rw [view_pqClose]; exact h) a) a

theorem pollDispatchCore_pres {s : St} (h : P none (view s)) (now : Nat) :
    P none (view (pollDispatchCore s now).1) := by
  unfold pollDispatchCore
  split
  · exact shutDown_pres hP h _
  · have h1 := run_pres hP (runFuel s) h now
    rcases hr : run (runFuel s) s now with ⟨s1, r⟩
    rw [hr] at h1
    cases r with
    | pending => exact h1.1
    | ok => exact h1.1
    | spin => exact hP.poison (v := view s1) h1.1 (h1.2 rfl)
    | err a => exact shutDown_pres hP (s := { s1 with termErr := some a }) h1.1 a

end generic

/-! ### `RequestDispatch::poll` and the drop of the dispatch -/

theorem view_foldl_osDropTx {α} (f : α → Nat) (l : List α) (s : St) :
    view (l.foldl (fun s e => osDropTx s (f e)) s) = view s := by
  induction l generalizing s with
  | nil => rfl
  | cons e es ih => simp only [List.foldl_cons]; rw [ih, view_osDropTx]

theorem view_dropDispatch (s : St) :
    view (dropDispatch s) = view s ∨
    view (dropDispatch s) = { view s with pq := [], inflight := [], cq := [] } := by
  unfold dropDispatch
  split
  · left; exact view_emit_irr _ _ rfl
  · right
    simp only
    rw [show ∀ s' : St, view { s' with cq := [] } = { view s' with cq := [] } from fun _ => rfl]
    rw [view_foldl_osDropTx (fun e : Entry => e.cid)]
    rw [show ∀ s' : St, view { s' with inflight := [], timers := {} } = { view s' with inflight := [] } from fun _ => rfl]
    rw [view_foldl_osDropTx (fun r : DReq => r.cid)]
    rw [show ∀ (s' : St) (n : Nat), view { s' with pq := [], pqAvail := n } = { view s' with pq := [] } from fun _ _ => rfl]
    rw [view_pqClose]
    rfl

section generic
variable {P : Option Nat → View → Prop} (hP : PresD P)
include hP

theorem dropDispatch_pres {x : Option Nat} {s : St} (h : P x (view s)) : P x (view (dropDispatch s)) := by
  rcases view_dropDispatch s with hv | hv
  · rw [hv]; exact h
  · rw [hv]; exact hP.cqClear (hP.infClear (hP.pqClear h))

theorem pollDispatchKeep_pres {s : St} (h : P none (view s)) (now : Nat) :
    P none (view (pollDispatchKeep s now)) := by
  unfold pollDispatchKeep
  split
  · rw [view_emit_irr _ _ rfl]; exact h
  · simp only
    have h1 := pollDispatchCore_pres hP (s := { s with dWoken := false }) h now
    rcases hc : pollDispatchCore { s with dWoken := false } now with ⟨s1, r⟩
    rw [hc] at h1
    simp only at h1
    have key : P none (view (if (s1.obs.any (fun o => match o with | .spin _ => true | _ => false) && !(s.obs.any (fun o => match o with | .spin _ => true | _ => false))) = true then { s1 with obs := .spin (tid s1) :: s.obs, poisoned := true }
             else if s1.poisoned then s1
             else emit (emit s1 (.ret (tid s1) r)) (.counts (tid s1) s1.inflight.length s1.timers.len))) := by
      split
      · have : view { s1 with obs := .spin (tid s1) :: s.obs, poisoned := true } = { view s1 with rel := .spin (tid s1) :: (view s).rel, poisoned := true } := by
          simp [view, List.filter_cons, relevant]
        rw [this]
        exact hP.trunc (tid s1) h h1
      · split
        · exact h1
        · rw [view_emit_irr _ _ rfl, view_emit_irr _ _ rfl]; exact h1
    cases r <;> exact key

theorem pollDispatch_pres {s : St} (h : P none (view s)) (now : Nat) : P none (view (pollDispatch s now)) := by
  unfold pollDispatch
  simp only
  split
  · exact dropDispatch_pres hP (pollDispatchKeep_pres hP h now)
  · exact pollDispatchKeep_pres hP h now

end generic

/-! ### the call future -/

theorem View.upd_upd (v : View) (cid : Nat) (g h : CallV → CallV) :
    (v.upd cid g).upd cid h = v.upd cid (fun c => h { g c with cid := c.cid }) := by
  simp only [View.upd, List.map_map]
  congr 1
  apply List.map_congr_left
  intro c _
  by_cases hc : c.cid = cid <;> simp [hc]

theorem view_guardClose (s : St) (cid : Nat) :
    view (guardClose s cid) = (view s).upd cid (fun c => { c with rxClosed := true }) :=
  view_updCall s cid _ _ (fun _ => rfl) (fun _ => rfl)

theorem view_wakeCq (s : St) : view (if s.cqRxWaker then wakeDispatch { s with cqRxWaker := false } else s) = view s := by
  split
  · rw [view_wakeDispatch]; rfl
  · rfl

theorem view_wakePq (s : St) : view (if s.pqRxWaker then wakeDispatch { s with pqRxWaker := false } else s) = view s := by
  split
  · rw [view_wakeDispatch]; rfl
  · rfl

@[simp] theorem view_afterCallGone (s : St) : view (afterCallGone s) = view s := by
  unfold afterCallGone
  split
  · simp only
    rw [view_wakeCq, view_wakePq]
  · rfl

theorem view_resolve (s : St) (cid : Nat) (o : Outcome) (now : Nat) :
    view (resolve s cid o now) =
      { (view s).upd cid (fun c => { c with phase := .resolved, outcome := some o, rxClosed := true }) with rel := .resolved cid o now :: (view s).rel } := by
  unfold resolve
  simp only
  rw [view_afterCallGone, view_emit_rel _ _ rfl]
  have e : view (updCall s cid (fun c => { c with phase := .resolved, outcome := some o, woken := false, os := { c.os with rxClosed := true, rxWaker := false } }))
      = (view s).upd cid (fun c => { c with phase := .resolved, outcome := some o, rxClosed := true }) :=
    view_updCall _ _ _ _ (fun _ => rfl) (fun _ => rfl)
  rw [e]
  rfl

section generic
variable {P : Option Nat → View → Prop} (hP : Pres P)
include hP

theorem pollOneshot_pres {x : Option Nat} {s : St} (h : P x (view s)) (cid : Nat) (now : Nat)
    (hph : ∀ c, (view s).get cid = some c → c.phase = .awaiting) :
    P x (view (pollOneshot s cid now)) := by
  unfold pollOneshot
  cases hg : getCall s cid with
  | none => exact h
  | some c =>
    have hgv := view_getCall_some hg
    have hpa := hph _ hgv
    simp only
    cases hv : c.os.val with
    | some o =>
      simp only
      have e : view (updCall s cid (fun c => { c with os := { c.os with val := none } }))
          = (view s).upd cid (fun c => { c with val := none }) :=
        view_updCall _ _ _ _ (fun _ => rfl) (fun _ => rfl)
      rw [view_resolve, e, View.upd_upd]
      have := hP.resolveVal (o := o) now h hgv hpa (by simpa [Call.v] using hv)
      exact this
    | none =>
      simp only
      split
      · rw [view_resolve]
        exact hP.resolveShut now h hgv (Or.inr hpa)
      · rw [view_emit_irr _ _ rfl]
        have e : view (updCall s cid (fun c => { c with os := { c.os with rxWaker := true } })) = view s :=
          view_updCall_same _ _ _ (fun _ => rfl)
        rw [e]
        exact h

end generic

/-- `failShutdown` at view level: close the receiver, queue the cancellation (unless the dispatch is gone),
resolve with `Shutdown`. -/
def View.failShutdown (v : View) (cid id now : Nat) (dd : Bool) : View :=
  { ((if dd then v.upd cid (fun c => { c with rxClosed := true }) else { v.upd cid (fun c => { c with rxClosed := true }) with cq := v.cq ++ [id] }).upd cid (fun c => { c with phase := .resolved, outcome := some .shutdown, rxClosed := true })) with rel := .resolved cid .shutdown now :: v.rel }

theorem view_failShutdown (s : St) (cid id now : Nat) :
    view (failShutdown s cid id now) = (view s).failShutdown cid id now s.dDropped := by
  unfold failShutdown View.failShutdown
  simp only
  rw [view_resolve, view_cqPush]
  have e : (guardClose (osDropTx s cid) cid).dDropped = s.dDropped := by simp [guardClose]
  rw [e, view_guardClose, view_osDropTx]
  cases s.dDropped <;> rfl

/-- closing the receiver first is invisible once the call is resolved -/
theorem View.failShutdown_eq (v : View) (cid id now : Nat) (dd : Bool) :
    v.failShutdown cid id now dd =
      { (if dd then v.upd cid (fun c => { c with phase := .resolved, outcome := some .shutdown, rxClosed := true }) else { v.upd cid (fun c => { c with phase := .resolved, outcome := some .shutdown, rxClosed := true }) with cq := v.cq ++ [id] }) with rel := .resolved cid .shutdown now :: v.rel } := by
  have key : (v.upd cid (fun c => { c with rxClosed := true })).upd cid (fun c => { c with phase := .resolved, outcome := some .shutdown, rxClosed := true })
      = v.upd cid (fun c => { c with phase := .resolved, outcome := some .shutdown, rxClosed := true }) := by
    rw [View.upd_upd]
  unfold View.failShutdown
  cases dd
  · simp only [Bool.false_eq_true, ↓reduceIte]
    have := congrArg (fun w : View => ({ w with cq := v.cq ++ [id], rel := Obs.resolved cid Outcome.shutdown now :: v.rel } : View)) key
    exact this
  · simp only [↓reduceIte]
    rw [key]

section generic
variable {P : Option Nat → View → Prop} (hP : Pres P)
include hP

theorem failShutdownV_pres {x : Option Nat} {v : View} (h : P x v) {cid : Nat} {c : CallV}
    (hc : v.get cid = some c) (hph : c.phase = .reserving) (now : Nat) (dd : Bool) :
    P x (v.failShutdown cid c.id now dd) := by
  unfold View.failShutdown
  have hcid := View.get_cid hc
  have h1 := hP.guardClose h hc (Or.inl hph)
  have hc1 : (v.upd cid (fun c => { c with rxClosed := true })).get cid = some { c with rxClosed := true } := by
    rw [View.get_upd_self, hc]; simp
  cases dd
  · simp only [Bool.false_eq_true, ↓reduceIte]
    have h2 := hP.cqPush h1 hc1 (Or.inl hph) rfl
    exact hP.resolveShut now h2 (c := { c with rxClosed := true }) hc1 (Or.inl hph)
  · simp only [↓reduceIte]
    exact hP.resolveShut now h1 hc1 (Or.inl hph)

end generic

/-- first poll of a call, before the phase changes: the ids are drawn -/
def View.assignNP (v : View) (cid : Nat) (tr : Trace) : View :=
  { v.upd cid (fun c => { c with id := v.nextId, trace := tr }) with nextId := v.nextId + 1, nextFresh := v.nextFresh + 1 }

/-- an update that overwrites the phase cannot tell `assignNP` from `assign` -/
theorem View.assign_upd (v : View) (cid : Nat) (tr : Trace) (X : CallV → CallV)
    (hX : ∀ c p, X { c with phase := p } = X c) :
    (v.assignNP cid tr).upd cid X = (v.assign cid tr).upd cid X := by
  simp only [View.assignNP, View.assign, View.upd, List.map_map, View.mk.injEq, and_self, and_true]
  apply List.map_congr_left
  intro c _
  by_cases h : c.cid = cid
  · subst h
    simp only [Function.comp, beq_self_eq_true, ↓reduceIte]
    have := hX { c with id := v.nextId, trace := tr } .reserving
    simp only at this
    rw [this]
  · simp [h]

theorem View.assign_get {v : View} {cid : Nat} {c : CallV} (hc : v.get cid = some c) (tr : Trace) :
    (v.assign cid tr).get cid = some { c with id := v.nextId, trace := tr, phase := .reserving } := by
  have := View.get_upd_self v cid (fun c => { c with id := v.nextId, trace := tr, phase := .reserving })
  have h' : (v.assign cid tr).get cid = (v.upd cid (fun c => { c with id := v.nextId, trace := tr, phase := .reserving })).get cid := rfl
  rw [h', this, hc]
  simp

section generic
variable {P : Option Nat → View → Prop} (hP : Pres P)
include hP

/-- `enqueue`, given that its effect on the view up to the poll of the oneshot is an `enqueue` transition -/
theorem enqueue_pres {x : Option Nat} {s : St} (c : Call) (now : Nat) {v : View} (h : P x v) {cv : CallV}
    (hc : v.get c.cid = some cv) (hph : cv.phase = .reserving)
    (hid : cv.id = c.id) (hdl : cv.ctx.deadline = c.ctx.deadline) (htr : cv.trace = c.trace) (hb : cv.body = c.body)
    (hv : ({ (view s).upd c.cid (fun c => { c with phase := .awaiting }) with pq := (view s).pq ++ [{ cid := c.cid, id := c.id, ctx := { deadline := c.ctx.deadline, trace := c.trace }, body := c.body }] } : View)
        = { v.upd c.cid (fun c => { c with phase := .awaiting }) with pq := v.pq ++ [{ cid := c.cid, id := c.id, ctx := { deadline := c.ctx.deadline, trace := c.trace }, body := c.body }] }) :
    P x (view (enqueue s c now)) := by
  unfold enqueue
  simp only
  have e : view (updCall (pqPush s { cid := c.cid, id := c.id, ctx := { deadline := c.ctx.deadline, trace := c.trace }, body := c.body }) c.cid (fun c => { c with phase := .awaiting }))
      = { v.upd c.cid (fun c => { c with phase := .awaiting }) with pq := v.pq ++ [{ cid := c.cid, id := c.id, ctx := { deadline := c.ctx.deadline, trace := c.trace }, body := c.body }] } := by
    rw [← hv]
    have e1 : view (updCall (pqPush s { cid := c.cid, id := c.id, ctx := { deadline := c.ctx.deadline, trace := c.trace }, body := c.body }) c.cid (fun c => { c with phase := .awaiting }))
        = (view (pqPush s { cid := c.cid, id := c.id, ctx := { deadline := c.ctx.deadline, trace := c.trace }, body := c.body })).upd c.cid (fun c => { c with phase := .awaiting }) :=
      view_updCall _ _ _ _ (fun _ => rfl) (fun _ => rfl)
    rw [e1, view_pqPush]
    rfl
  have h2 := hP.enqueue h hc hph
  rw [hid, hdl, htr, hb] at h2
  refine pollOneshot_pres hP (e ▸ h2) c.cid now ?_
  intro c' hc'
  rw [e] at hc'
  have : (v.upd c.cid (fun c => { c with phase := .awaiting })).get c.cid = some c' := hc'
  rw [View.get_upd_self, hc] at this
  simp only [Option.map_some, Option.some.injEq] at this
  rw [← this]

end generic

theorem View.assignNP_reserving (v : View) (cid : Nat) (tr : Trace) :
    (v.assignNP cid tr).upd cid (fun c => { c with phase := .reserving }) = v.assign cid tr := by
  simp only [View.assignNP, View.assign, View.upd, List.map_map, View.mk.injEq, and_self, and_true]
  apply List.map_congr_left
  intro c _
  by_cases h : c.cid = cid
  · subst h; simp
  · simp [h]

theorem View.failShutdown_assign (v : View) (cid : Nat) (tr : Trace) (id now : Nat) (dd : Bool) :
    (v.assignNP cid tr).failShutdown cid id now dd = (v.assign cid tr).failShutdown cid id now dd := by
  rw [View.failShutdown_eq, View.failShutdown_eq, View.assign_upd v cid tr _ (fun _ _ => rfl)]
  rfl

theorem view_assignNP (s : St) (cid : Nat) (tr : Trace) :
    view (updCall { s with nextFresh := s.nextFresh + 1, nextId := s.nextId + 1 } cid (fun c => { c with id := s.nextId, trace := tr, woken := false }))
      = (view s).assignNP cid tr := by
  have e : view (updCall { s with nextFresh := s.nextFresh + 1, nextId := s.nextId + 1 } cid (fun c => { c with id := s.nextId, trace := tr, woken := false }))
      = (view { s with nextFresh := s.nextFresh + 1, nextId := s.nextId + 1 }).upd cid (fun c => { c with id := s.nextId, trace := tr }) :=
    view_updCall _ _ _ _ (fun _ => rfl) (fun _ => rfl)
  rw [e]; rfl

section generic
variable {P : Option Nat → View → Prop} (hP : Pres P)
include hP

theorem pollCall_pres {x : Option Nat} {s : St} (h : P x (view s)) (cid now : Nat) :
    P x (view (pollCall s cid now)) := by
  unfold pollCall
  cases hg : getCall s cid with
  | none => rw [view_emit_irr _ _ rfl]; exact h
  | some c =>
    have hgv := view_getCall_some hg
    have hcid := getCall_cid hg
    simp only
    cases hph : c.phase with
    | resolved => simp only; rw [view_emit_irr _ _ rfl]; exact h
    | dropped => simp only; rw [view_emit_irr _ _ rfl]; exact h
    | awaiting =>
      simp only
      have e : view (updCall s cid (fun c => { c with woken := false })) = view s :=
        view_updCall_same _ _ _ (fun _ => rfl)
      refine pollOneshot_pres hP (e ▸ h) cid now ?_
      intro c' hc'
      rw [e, hgv] at hc'
      injection hc' with hc'; rw [← hc']; exact hph
    | reserving =>
      simp only
      have e : view (updCall s cid (fun c => { c with woken := false })) = view s :=
        view_updCall_same _ _ _ (fun _ => rfl)
      split
      · rw [view_failShutdown]
        have e2 : ∀ (a b : List Nat) (n : Nat), view { updCall s cid (fun c => { c with woken := false }) with pqAssigned := a, pqWaiters := b, pqAvail := n } = view s :=
          fun _ _ _ => e
        rw [e2]
        exact failShutdownV_pres hP h hgv hph now _
      · split
        · refine enqueue_pres hP c now (v := view s) h (cv := c.v) (hcid ▸ hgv) hph rfl rfl rfl rfl ?_
          have e2 : ∀ (a : List Nat), view { updCall s cid (fun c => { c with woken := false }) with pqAssigned := a } = view s :=
            fun _ => e
          rw [e2]
        · rw [view_emit_irr _ _ rfl, e]; exact h
    | notPolled =>
      simp only
      have hv2 := view_assignNP s cid { c.ctx.trace with span := .fresh s.nextFresh }
      have hva := hP.assign h hgv hph
      have hga := View.assign_get hgv { c.ctx.trace with span := .fresh s.nextFresh }
      split
      · rw [view_failShutdown, hv2, View.failShutdown_assign]
        exact failShutdownV_pres hP hva hga rfl now _
      · split
        · have key : ∀ S : St, view S = (view s).assignNP cid { c.ctx.trace with span := .fresh s.nextFresh } →
              P x (view (enqueue S { c with id := s.nextId, trace := { c.ctx.trace with span := .fresh s.nextFresh } } now)) := by
            intro S hS
            refine enqueue_pres hP { c with id := s.nextId, trace := { c.ctx.trace with span := .fresh s.nextFresh } } now
              (v := (view s).assign cid { c.ctx.trace with span := .fresh s.nextFresh }) hva
              (cv := { c.v with id := s.nextId, trace := { c.ctx.trace with span := .fresh s.nextFresh }, phase := .reserving })
              (hcid ▸ hga) rfl rfl rfl rfl rfl ?_
            rw [hS]
            simp only [hcid]
            rw [View.assign_upd _ _ _ _ (fun _ _ => rfl)]
            rfl
          exact key _ hv2
        · rw [view_emit_irr _ _ rfl]
          have key : ∀ S : St, view S = (view s).assignNP cid { c.ctx.trace with span := .fresh s.nextFresh } →
              P x (view (updCall S cid (fun c => { c with phase := .reserving }))) := by
            intro S hS
            have e : view (updCall S cid (fun c => { c with phase := .reserving })) = (view S).upd cid (fun c => { c with phase := .reserving }) :=
              view_updCall _ _ _ _ (fun _ => rfl) (fun _ => rfl)
            rw [e, hS, View.assignNP_reserving]; exact hva
          exact key _ hv2

end generic

/-! ### dropping a call future -/

/-- the guard of call `cid` has closed the receiver -/
def Closed (v : View) (cid : Nat) : Prop :=
  ∀ c, v.get cid = some c → (c.phase = .reserving ∨ c.phase = .awaiting) → c.rxClosed = true

theorem Closed.frame {v0 v : View} {cid : Nat} (hc : Closed v0 cid) (hf : Frame v0 v) : Closed v cid := by
  intro c' hc' hph
  obtain ⟨c, h0, hp, hr⟩ := hf cid c' hc'
  exact hr (hc c h0 (by rw [← hp]; exact hph))

@[simp] theorem view_dropPre (s : St) (cid : Nat) : view (dropPre s cid) = view s := by
  unfold dropPre
  split
  · rfl
  · split
    · simp only
      rw [view_osDropTx]
      split
      · rw [view_pqRelease]; rfl
      · rfl
    · rfl

theorem view_dropCancel (s : St) (cid : Nat) :
    (view (dropCancel s cid)).calls = (view s).calls := by
  unfold dropCancel
  split
  · rfl
  · split
    · rw [view_cqPush]; split <;> rfl
    · rw [view_cqPush]; split <;> rfl
    · rfl

theorem Closed.of_calls {v v' : View} {cid : Nat} (h : Closed v cid) (hc : v'.calls = v.calls) : Closed v' cid := by
  intro c hg; unfold View.get at hg; rw [hc] at hg; exact h c hg

/-- `dropCall` with the `guarded` flag as a parameter -/
def dropCallG (guarded : Bool) (s : St) (cid : Nat) (at_ : DropAt) (now : Nat) : St :=
  let s := dropPre s cid
  let s := if guarded && at_ == .enter then pollDispatch s now else s
  let s := dropClose s cid
  let s := if guarded && at_ == .mid then pollDispatch s now else s
  let s := dropCancel s cid
  let s := if guarded && at_ == .exit then pollDispatch s now else s
  dropFinish s cid

theorem dropCall_eq (s : St) (cid : Nat) (at_ : DropAt) (now : Nat) :
    dropCall s cid at_ now = dropCallG (match getCall s cid with
      | some c => c.phase == .reserving || c.phase == .awaiting
      | none => false) s cid at_ now := rfl

section generic
variable {P : Option Nat → View → Prop} (hP : Pres P)
include hP

theorem dropClose_pres {x : Option Nat} {s : St} (h : P x (view s)) (cid : Nat) :
    P x (view (dropClose s cid)) ∧ Closed (view (dropClose s cid)) cid := by
  unfold dropClose
  cases hg : getCall s cid with
  | none =>
    exact ⟨h, fun c hc => by rw [view_getCall_none hg] at hc; cases hc⟩
  | some c =>
    have hgv := view_getCall_some hg
    have hcl : ∀ (hph : c.phase = .reserving ∨ c.phase = .awaiting),
        P x (view (guardClose s cid)) ∧ Closed (view (guardClose s cid)) cid := by
      intro hph
      rw [view_guardClose]
      refine ⟨hP.guardClose h hgv hph, fun c' hc' _ => ?_⟩
      rw [View.get_upd_self, hgv] at hc'
      simp only [Option.map_some, Option.some.injEq] at hc'
      rw [← hc']
    have hno : ¬ (c.phase = .reserving ∨ c.phase = .awaiting) → Closed (view s) cid := by
      intro hn c' hc' hph
      rw [hgv] at hc'; injection hc' with hc'; subst hc'; exact absurd hph hn
    simp only
    cases hph : c.phase with
    | reserving => exact hcl (Or.inl hph)
    | awaiting => exact hcl (Or.inr hph)
    | notPolled => exact ⟨h, hno (by simp [hph])⟩
    | resolved => exact ⟨h, hno (by simp [hph])⟩
    | dropped => exact ⟨h, hno (by simp [hph])⟩

theorem dropCancel_pres {x : Option Nat} {s : St} (h : P x (view s)) (cid : Nat) (hcl : Closed (view s) cid) :
    P x (view (dropCancel s cid)) := by
  unfold dropCancel
  cases hg : getCall s cid with
  | none => exact h
  | some c =>
    have hgv := view_getCall_some hg
    have key : (c.phase = .reserving ∨ c.phase = .awaiting) → P x (view (cqPush s c.id)) := by
      intro hph
      rw [view_cqPush]
      split
      · exact h
      · have hpol : c.v.polled := by
          rcases hph with hph | hph
          · exact Or.inl hph
          · exact Or.inr (Or.inl hph)
        exact hP.cqPush h hgv hpol (hcl _ hgv hph)
    simp only
    cases hph : c.phase with
    | reserving => exact key (Or.inl hph)
    | awaiting => exact key (Or.inr hph)
    | notPolled => exact h
    | resolved => exact h
    | dropped => exact h

theorem dropFinish_pres {x : Option Nat} {s : St} (h : P x (view s)) (cid : Nat) (hcl : Closed (view s) cid) :
    P x (view (dropFinish s cid)) := by
  unfold dropFinish
  cases hg : getCall s cid with
  | none => rw [view_emit_irr _ _ rfl]; exact h
  | some c =>
    have hgv := view_getCall_some hg
    have e : view (afterCallGone (updCall s cid (fun c => { c with phase := .dropped, woken := false })))
        = (view s).upd cid (fun c => { c with phase := .dropped }) := by
      rw [view_afterCallGone]
      exact view_updCall _ _ _ _ (fun _ => rfl) (fun _ => rfl)
    simp only
    cases hph : c.phase with
    | reserving => simp only; rw [e]; exact hP.dropGuarded h hgv (Or.inl hph) (hcl _ hgv (Or.inl hph))
    | awaiting => simp only; rw [e]; exact hP.dropGuarded h hgv (Or.inr hph) (hcl _ hgv (Or.inr hph))
    | notPolled => simp only; rw [e]; exact hP.dropNP h hgv hph
    | resolved => simp only; rw [view_emit_irr _ _ rfl]; exact h
    | dropped => simp only; rw [view_emit_irr _ _ rfl]; exact h

/-- a dispatch poll in the middle of a drop keeps the receiver closed -/
theorem pollDispatch_closed {s : St} (h : P none (view s)) (now : Nat) (cid : Nat) (hcl : Closed (view s) cid) :
    P none (view (pollDispatch s now)) ∧ Closed (view (pollDispatch s now)) cid := by
  have := pollDispatch_pres (hP.toPresD.withFrame (view s)) (s := s) ⟨h, Frame.refl _⟩ now
  exact ⟨this.1, hcl.frame this.2⟩

theorem dropCallG_pres {s : St} (h : P none (view s)) (guarded : Bool) (cid : Nat) (at_ : DropAt) (now : Nat) :
    P none (view (dropCallG guarded s cid at_ now)) := by
  unfold dropCallG
  simp only
  have h1 : P none (view (dropPre s cid)) := by rw [view_dropPre]; exact h
  generalize dropPre s cid = s1 at h1
  have h2 : P none (view (if (guarded && at_ == .enter) = true then pollDispatch s1 now else s1)) := by
    split
    · exact pollDispatch_pres hP.toPresD h1 now
    · exact h1
  generalize (if (guarded && at_ == .enter) = true then pollDispatch s1 now else s1) = s2 at h2
  have h3 := dropClose_pres hP h2 cid
  generalize dropClose s2 cid = s3 at h3
  have h4 : P none (view (if (guarded && at_ == .mid) = true then pollDispatch s3 now else s3)) ∧
      Closed (view (if (guarded && at_ == .mid) = true then pollDispatch s3 now else s3)) cid := by
    split
    · exact pollDispatch_closed hP h3.1 now cid h3.2
    · exact h3
  generalize (if (guarded && at_ == .mid) = true then pollDispatch s3 now else s3) = s4 at h4
  have h5 : P none (view (dropCancel s4 cid)) ∧ Closed (view (dropCancel s4 cid)) cid :=
    ⟨dropCancel_pres hP h4.1 cid h4.2, h4.2.of_calls (view_dropCancel s4 cid)⟩
  generalize dropCancel s4 cid = s5 at h5
  have h6 : P none (view (if (guarded && at_ == .exit) = true then pollDispatch s5 now else s5)) ∧
      Closed (view (if (guarded && at_ == .exit) = true then pollDispatch s5 now else s5)) cid := by
    split
    · exact pollDispatch_closed hP h5.1 now cid h5.2
    · exact h5
  generalize (if (guarded && at_ == .exit) = true then pollDispatch s5 now else s5) = s6 at h6
  exact dropFinish_pres hP h6.1 cid h6.2

theorem dropCall_pres {s : St} (h : P none (view s)) (cid : Nat) (at_ : DropAt) (now : Nat) :
    P none (view (dropCall s cid at_ now)) := by
  rw [dropCall_eq]; exact dropCallG_pres hP h _ cid at_ now

end generic

/-! ### handles, external events, ops -/

theorem view_newCall (s : St) (h : Nat) (ctx : Ctx) (body : Nat) :
    view (newCall s h ctx body) = view s ∨
    (s.handles.contains h = true ∧
     view (newCall s h ctx body) = { view s with calls := (view s).calls ++ [CallV.fresh (view s).calls.length ctx body] }) := by
  unfold newCall
  split
  · right
    refine ⟨‹_›, ?_⟩
    simp [view, CallV.fresh, Call.v]
  · left; exact view_emit_irr _ _ rfl

theorem view_cloneHandle (s : St) (h : Nat) :
    view (cloneHandle s h) =
      if s.handles.contains h then { view s with handles := s.handles ++ [s.nextHandle], nextHandle := s.nextHandle + 1 } else view s := by
  unfold cloneHandle; split
  · rfl
  · exact view_emit_irr _ _ rfl

theorem view_dropHandle (s : St) (h : Nat) :
    view (dropHandle s h) = { view s with handles := s.handles.filter (· != h) } := by
  unfold dropHandle; split
  · rw [view_afterCallGone]; rfl
  · rw [view_emit_irr _ _ rfl]
    have : s.handles.filter (· != h) = s.handles := by
      apply List.filter_eq_self.mpr
      intro a ha
      have hn : ¬ s.handles.contains h = true := ‹_›
      simp only [List.contains_iff_mem] at hn
      simp only [bne_iff_ne, ne_eq]
      intro e; subst e; exact hn ha
    rw [this]; rfl

theorem view_liftT (s : St) (r : SimT × Bool) (h : r.1.sentLog = s.t.sentLog) : view (liftT s r) = view s := by
  unfold liftT; simp only; split
  · rw [view_wakeDispatch, view_t _ _ h]
  · exact view_t _ _ h

@[simp] theorem view_onAdvance (s : St) (now : Nat) : view (onAdvance s now) = view s := by
  unfold onAdvance; split
  · split
    · rw [view_wakeDispatch]; rfl
    · rfl
  · rfl

theorem view_foldl_took (ms : List Msg) (s : St) :
    view (ms.foldl (fun s m => emit s (.took (tid s) m)) s) = view s := by
  induction ms generalizing s with
  | nil => rfl
  | cons m ms ih => simp only [List.foldl_cons]; rw [ih, view_emit_irr _ _ rfl]

theorem SimT.wakeIfReady_sentLog (t : SimT) : t.wakeIfReady.1.sentLog = t.sentLog := by
  unfold SimT.wakeIfReady; split <;> rfl

/-- the ops that do not involve the call futures or the dispatch leave the view alone -/
theorem view_applyOp_env (c : Sys) (op : COp)
    (h : match op with
      | .call _ _ _ _ | .pollCall _ | .dropCall _ _ | .pollDispatch | .dropDispatch | .clone _ | .dropHandle _ => False
      | _ => True) :
    view (applyOp c op).s = view c.s := by
  cases op with
  | call _ _ _ _ => cases h
  | pollCall _ => cases h
  | dropCall _ _ => cases h
  | pollDispatch => cases h
  | dropDispatch => cases h
  | clone h => cases h
  | dropHandle h => cases h
  | injectResp id res => exact view_liftT _ _ rfl
  | injectErr => exact view_liftT _ _ rfl
  | eof => exact view_liftT _ _ rfl
  | setReady b => exact view_liftT _ _ (SimT.wakeIfReady_sentLog _)
  | setFlush b => exact view_liftT _ _ (SimT.wakeIfReady_sentLog _)
  | fault k => cases k <;> rfl
  | faultSkip n => rfl
  | selfWake b => rfl
  | take n => exact (view_foldl_took _ _).trans rfl
  | advance n => exact view_onAdvance _ _

theorem applyOp_inv {c : Sys} (h : Inv none (view c.s)) (op : COp) : Inv none (view (applyOp c op).s) := by
  cases op with
  | call hd d tr b =>
    rcases view_newCall c.s hd { deadline := d, trace := tr } b with hv | ⟨_, hv⟩
    · exact hv ▸ h
    · show Inv none (view (newCall c.s hd { deadline := d, trace := tr } b))
      rw [hv]; exact h.newCall _ _
  | pollCall cid => exact pollCall_pres Inv.pres h cid c.now
  | dropCall cid site => exact dropCall_pres Inv.pres h cid site c.now
  | pollDispatch => exact pollDispatch_pres Inv.presD h c.now
  | dropDispatch => exact dropDispatch_pres Inv.presD h
  | clone hd =>
    show Inv none (view (cloneHandle c.s hd))
    rw [view_cloneHandle]; split
    · exact h.of_handles _ _
    · exact h
  | dropHandle hd =>
    show Inv none (view (dropHandle c.s hd))
    rw [view_dropHandle]; exact h.of_handles _ _
  | injectResp _ _ => rw [view_applyOp_env _ _ trivial]; exact h
  | injectErr => rw [view_applyOp_env _ _ trivial]; exact h
  | eof => rw [view_applyOp_env _ _ trivial]; exact h
  | setReady _ => rw [view_applyOp_env _ _ trivial]; exact h
  | setFlush _ => rw [view_applyOp_env _ _ trivial]; exact h
  | fault _ => rw [view_applyOp_env _ _ trivial]; exact h
  | faultSkip _ => rw [view_applyOp_env _ _ trivial]; exact h
  | selfWake _ => rw [view_applyOp_env _ _ trivial]; exact h
  | take _ => rw [view_applyOp_env _ _ trivial]; exact h
  | advance _ => rw [view_applyOp_env _ _ trivial]; exact h

theorem init_inv (k m b tc : Nat) (coupled : Bool) : Inv none (view (init k m b tc coupled)) := by
  constructor <;> simp [view, init, View.get, reqIds, cancelIds]

theorem reach_inv (m b tc : Nat) (coupled : Bool) (ops : List COp) :
    Inv none (view (ops.foldl applyOp (initSys m b tc coupled)).s) := by
  have : ∀ (c : Sys), Inv none (view c.s) → Inv none (view (ops.foldl applyOp c).s) := by
    induction ops with
    | nil => exact fun _ h => h
    | cons op ops ih => exact fun c h => ih _ (applyOp_inv h op)
  exact this _ (init_inv _ _ _ _ _)

end TarpcModel.Client

import TarpcModel.Lemmas.ClientNotLate
/-!
A parked dispatch has its timers armed — the end-to-end form of "timer expiry wakes the dispatch".

`Parked now s`: if the dispatch is alive and has not been woken since its last poll (`dWoken = false`), its timer queue
is idle (`DelayQ.Idle`): no timer is due at `now`, the dispatch's waker is stored in the queue, and the queue's `Sleep` is
registered no later than the earliest tick.  It holds in every reachable state (clock below `2^35` ms): a poll that
returns `Pending` establishes it (`pollDispatch_idle`); the operations of the calls, the handles and the transport do not
touch the queue and can only wake the dispatch (`Park`); and when the clock reaches the `Sleep`, `onAdvance` wakes the
dispatch.  Consequence: whenever an in-flight request's timer is due, the dispatch has been woken — together with
`pollDispatch_idle` (the poll that follows handles every due timer): no deadline waits for an unrelated event.
-/
set_option linter.unusedSimpArgs false
namespace TarpcModel.Client
open TarpcModel

/-- `s'` has the same timer queue and dispatch status as `s`, and the dispatch is woken in `s'` if it was in `s` -/
structure Park (s s' : St) : Prop where
  timers : s'.timers = s.timers
  dDropped : s'.dDropped = s.dDropped
  done : s'.done = s.done
  poisoned : s'.poisoned = s.poisoned
  woken : s'.dWoken = false → s.dWoken = false

theorem Park.refl (s : St) : Park s s := ⟨rfl, rfl, rfl, rfl, id⟩

theorem Park.trans {a b c : St} (h1 : Park a b) (h2 : Park b c) : Park a c :=
  ⟨h2.timers.trans h1.timers, h2.dDropped.trans h1.dDropped, h2.done.trans h1.done, h2.poisoned.trans h1.poisoned,
    fun h => h1.woken (h2.woken h)⟩

theorem Park.of_eq {s s' : St} (ht : s'.timers = s.timers) (hd : s'.dDropped = s.dDropped) (hn : s'.done = s.done)
    (hp : s'.poisoned = s.poisoned) (hw : s'.dWoken = s.dWoken) : Park s s' := ⟨ht, hd, hn, hp, fun h => hw ▸ h⟩

theorem park_foldl {α : Type} (f : St → α → St) (hf : ∀ s a, Park s (f s a)) (l : List α) (s : St) :
    Park s (l.foldl f s) := by
  induction l generalizing s with
  | nil => exact .refl _
  | cons a l ih => exact .trans (hf s a) (ih _)

theorem park_emit (s : St) (o : Obs) : Park s (emit s o) := .of_eq rfl rfl rfl rfl rfl

theorem park_wakeDispatch (s : St) : Park s (wakeDispatch s) := by
  unfold wakeDispatch
  split
  · exact .refl _
  · exact ⟨rfl, rfl, rfl, rfl, fun h => by simp [emit] at h⟩

theorem park_updCall (s : St) (cid : Nat) (f : Call → Call) : Park s (updCall s cid f) := .of_eq rfl rfl rfl rfl rfl

theorem park_wakeCall (s : St) (cid : Nat) : Park s (wakeCall s cid) :=
  .of_eq (wakeCall_timers _ _) (wakeCall_dDropped _ _) (wakeCall_done _ _) (wakeCall_poisoned _ _) (wakeCall_dWoken _ _)

theorem park_osSend (s : St) (cid : Nat) (o : Outcome) : Park s (osSend s cid o) :=
  .of_eq (osSend_timers _ _ _) (osSend_dDropped _ _ _) (osSend_done _ _ _) (osSend_poisoned _ _ _) (osSend_dWoken _ _ _)

theorem park_osDropTx (s : St) (cid : Nat) : Park s (osDropTx s cid) :=
  .of_eq (osDropTx_timers _ _) (osDropTx_dDropped _ _) (osDropTx_done _ _) (osDropTx_poisoned _ _) (osDropTx_dWoken _ _)

/-- `park_last h`: the last step of a chain is `h`; what remains is the chain before it -/
macro "park_last " t:term : tactic => `(tactic| refine Park.trans ?_ $t)
/-- closes `Park s { s with … }` for updates of fields `Park` does not read -/
macro "park_rfl" : tactic => `(tactic| exact Park.of_eq rfl rfl rfl rfl rfl)

theorem park_pqRelease (s : St) : Park s (pqRelease s) := by
  unfold pqRelease
  split
  · park_last (park_wakeCall _ _); park_rfl
  · park_rfl

theorem park_pqPush (s : St) (r : DReq) : Park s (pqPush s r) := by
  unfold pqPush
  simp only
  split
  · park_last (park_wakeDispatch _); park_rfl
  · park_rfl

theorem park_cqPush (s : St) (id : Nat) : Park s (cqPush s id) := by
  unfold cqPush
  split
  · exact .refl _
  · simp only
    split
    · park_last (park_wakeDispatch _); park_rfl
    · park_rfl

theorem park_guardClose (s : St) (cid : Nat) : Park s (guardClose s cid) := park_updCall _ _ _

theorem park_wakePq (s : St) : Park s (if s.pqRxWaker = true then wakeDispatch { s with pqRxWaker := false } else s) := by
  split
  · park_last (park_wakeDispatch _); park_rfl
  · exact .refl _

theorem park_wakeCq (s : St) : Park s (if s.cqRxWaker = true then wakeDispatch { s with cqRxWaker := false } else s) := by
  split
  · park_last (park_wakeDispatch _); park_rfl
  · exact .refl _

theorem park_afterCallGone (s : St) : Park s (afterCallGone s) := by
  unfold afterCallGone
  split
  · simp only
    exact .trans (park_wakePq s) (park_wakeCq _)
  · exact .refl _

theorem park_resolve (s : St) (cid : Nat) (o : Outcome) (now : Nat) : Park s (resolve s cid o now) := by
  unfold resolve
  simp only
  park_last (park_afterCallGone _)
  park_last (park_emit _ _)
  exact park_updCall _ _ _

theorem park_failShutdown (s : St) (cid id now : Nat) : Park s (failShutdown s cid id now) := by
  unfold failShutdown
  simp only
  park_last (park_resolve _ _ _ _)
  park_last (park_cqPush _ _)
  park_last (park_guardClose _ _)
  exact park_osDropTx _ _

theorem park_pollOneshot (s : St) (cid now : Nat) : Park s (pollOneshot s cid now) := by
  unfold pollOneshot
  split
  · exact .refl _
  · split
    · park_last (park_resolve _ _ _ _); exact park_updCall _ _ _
    · split
      · exact park_resolve _ _ _ _
      · park_last (park_emit _ _); exact park_updCall _ _ _

theorem park_enqueue (s : St) (c : Call) (now : Nat) : Park s (enqueue s c now) := by
  unfold enqueue
  simp only
  park_last (park_pollOneshot _ _ _)
  park_last (park_updCall _ _ _)
  exact park_pqPush _ _

theorem park_pollCall (s : St) (cid now : Nat) : Park s (pollCall s cid now) := by
  unfold pollCall
  split
  · exact park_emit _ _
  · split
    · exact park_emit _ _
    · exact park_emit _ _
    · simp only
      split
      · park_last (park_failShutdown _ _ _ _); park_last (park_updCall _ _ _); park_rfl
      · split
        · park_last (park_enqueue _ _ _); park_rfl
        · park_last (park_emit _ _); park_last (park_updCall _ _ _); park_rfl
    · simp only
      split
      · park_last (park_failShutdown _ _ _ _); park_rfl
      · split
        · park_last (park_enqueue _ _ _); park_rfl
        · park_last (park_emit _ _); exact park_updCall _ _ _
    · park_last (park_pollOneshot _ _ _); exact park_updCall _ _ _

theorem park_dropPre (s : St) (cid : Nat) : Park s (dropPre s cid) := by
  unfold dropPre
  split
  · exact .refl _
  · split
    · simp only
      park_last (park_osDropTx _ _)
      split
      · park_last (park_pqRelease _); park_rfl
      · park_rfl
    · exact .refl _

theorem park_dropClose (s : St) (cid : Nat) : Park s (dropClose s cid) := by
  unfold dropClose
  split
  · exact .refl _
  · split
    · exact park_guardClose _ _
    · exact park_guardClose _ _
    · exact .refl _

theorem park_dropCancel (s : St) (cid : Nat) : Park s (dropCancel s cid) := by
  unfold dropCancel
  split
  · exact .refl _
  · split
    · exact park_cqPush _ _
    · exact park_cqPush _ _
    · exact .refl _

theorem park_dropFinish (s : St) (cid : Nat) : Park s (dropFinish s cid) := by
  unfold dropFinish
  split
  · exact park_emit _ _
  · split
    · park_last (park_afterCallGone _); exact park_updCall _ _ _
    · park_last (park_afterCallGone _); exact park_updCall _ _ _
    · park_last (park_afterCallGone _); exact park_updCall _ _ _
    · exact park_emit _ _

theorem park_newCall (s : St) (h : Nat) (ctx : Ctx) (body : Nat) : Park s (newCall s h ctx body) := by
  unfold newCall; split
  · park_rfl
  · exact park_emit _ _

theorem park_cloneHandle (s : St) (h : Nat) : Park s (cloneHandle s h) := by
  unfold cloneHandle; split
  · park_rfl
  · exact park_emit _ _

theorem park_dropHandle (s : St) (h : Nat) : Park s (dropHandle s h) := by
  unfold dropHandle; split
  · park_last (park_afterCallGone _); park_rfl
  · exact park_emit _ _

theorem park_liftT (s : St) (r : SimT × Bool) : Park s (liftT s r) := by
  unfold liftT
  simp only
  split
  · park_last (park_wakeDispatch _); park_rfl
  · park_rfl

theorem park_took (ms : List Msg) (s : St) : Park s (ms.foldl (fun s m => emit s (.took (tid s) m)) s) :=
  park_foldl (fun s m => emit s (.took (tid s) m)) (fun s _ => park_emit s _) ms s

/-! ### the invariant -/

/-- a dispatch that is alive and has not been woken since its last poll has an idle timer queue -/
def Parked (now : Nat) (s : St) : Prop :=
  s.dDropped = false → s.done = none → s.poisoned = false → s.dWoken = false → DelayQ.Idle now s.timers

theorem Parked.park {now : Nat} {s s' : St} (h : Parked now s) (hp : Park s s') : Parked now s' := by
  intro hd hn hz hw
  rw [hp.timers]
  exact h (hp.dDropped ▸ hd) (hp.done ▸ hn) (hp.poisoned ▸ hz) (hp.woken hw)

theorem wakeDispatch_woken (s : St) (hd : s.dDropped = false) (hn : s.done = none) : (wakeDispatch s).dWoken = true := by
  unfold wakeDispatch
  simp [hd, hn, emit]

/-- the clock moves on: the dispatch stays parked only if no timer has become due -/
theorem Parked.onAdvance {now : Nat} {s : St} (h : Parked now s) (n : Nat) : Parked (now + n) (onAdvance s (now + n)) := by
  intro hd hn hz hw
  unfold Client.onAdvance at hd hn hz hw ⊢
  cases hf : s.timers.nextFire with
  | none =>
    simp only [hf] at hd hn hz hw ⊢
    have hi := h hd hn hz hw
    refine DelayQ.Idle.of_items_nil ?_
    cases hit : s.timers.items with
    | nil => rfl
    | cons e rest =>
      obtain ⟨_, t, ht, _⟩ := hi.armed e (by rw [hit]; exact List.mem_cons_self)
      rw [hf] at ht; cases ht
  | some t =>
    simp only [hf] at hd hn hz hw ⊢
    by_cases hc : (decide (t ≤ now + n) && s.timers.waker) = true
    · rw [if_pos hc] at hd hn hw
      simp only [wakeDispatch_dDropped, wakeDispatch_done] at hd hn
      have := wakeDispatch_woken { s with timers := { s.timers with waker := false } } hd hn
      rw [this] at hw
      cases hw
    · rw [if_neg hc] at hd hn hz hw ⊢
      have hi := h hd hn hz hw
      constructor
      · intro e he
        obtain ⟨hwk, t', ht', _, hle⟩ := hi.armed e he
        rw [hf] at ht'; cases ht'
        simp only [hwk, Bool.and_true, decide_eq_true_eq] at hc
        omega
      · intro e he
        obtain ⟨hwk, t', ht', hlt, hle⟩ := hi.armed e he
        rw [hf] at ht'; cases ht'
        simp only [hwk, Bool.and_true, decide_eq_true_eq] at hc
        exact ⟨hwk, t, hf, by omega, hle⟩

theorem foldl_frame {α β : Type} (g : St → β) (f : St → α → St) (hf : ∀ s a, g (f s a) = g s) (l : List α) (s : St) :
    g (l.foldl f s) = g s := by
  induction l generalizing s with
  | nil => rfl
  | cons a l ih => rw [List.foldl_cons, ih, hf]

/-- dropping the dispatch marks it dropped, unless it already was (or is poisoned), in which case nothing happens -/
theorem dropDispatch_alive (s : St) :
    (dropDispatch s).dDropped = true ∨ (dropDispatch s = emit s .noop ∧ (s.dDropped || s.poisoned) = true) := by
  unfold dropDispatch
  split
  · rename_i hc; exact .inr ⟨rfl, hc⟩
  · left
    simp only
    rw [foldl_frame (fun s => s.dDropped) (fun s (e : Entry) => osDropTx s e.cid) (fun s e => osDropTx_dDropped s e.cid)]
    simp only
    rw [foldl_frame (fun s => s.dDropped) (fun s (r : DReq) => osDropTx s r.cid) (fun s r => osDropTx_dDropped s r.cid)]
    simp only
    unfold pqClose
    simp only
    rw [foldl_frame (fun s => s.dDropped) wakeCall (fun s c => wakeCall_dDropped s c)]

/-- a poll of the dispatch (queue satisfying the wheel invariant, clock in range) -/
theorem Parked.pollDispatch {now : Nat} (hc : QClosed now DelayQ.Complete) {s : St} (h : Parked now s)
    (hq : DelayQ.Complete s.timers) : Parked now (Client.pollDispatch s now) := by
  intro hd hn hp hw
  rw [Flow.pollDispatch_eq] at hd hn hw hp ⊢
  by_cases hcond : ((pollDispatchKeep s now).done.isSome && !(pollDispatchKeep s now).dDropped) = true
  · exfalso
    rw [if_pos hcond] at hd hp
    simp only [Bool.and_eq_true, Bool.not_eq_true'] at hcond
    rcases dropDispatch_alive (pollDispatchKeep s now) with hdd | ⟨heq, hor⟩
    · rw [hdd] at hd; cases hd
    · rw [heq] at hp
      simp only [hcond.2, Bool.false_or] at hor
      rw [show (emit (pollDispatchKeep s now) .noop).poisoned = (pollDispatchKeep s now).poisoned from rfl, hor] at hp
      cases hp
  · rw [if_neg hcond] at hd hn hw hp ⊢
    by_cases hrun : (s.dDropped || s.done.isSome || s.poisoned) = true
    · have hk : pollDispatchKeep s now = emit s .noop := by rw [Flow.pollDispatchKeep_eq, if_pos hrun]
      rw [hk] at hd hn hw hp ⊢
      exact h hd hn hp hw
    · have hrun' : (s.dDropped || s.done.isSome || s.poisoned) = false := by simpa using hrun
      exact pollDispatchKeep_idle hc hq hrun' hn hp

theorem Parked.dropDispatch {now : Nat} {s : St} (h : Parked now s) : Parked now (Client.dropDispatch s) := by
  intro hd hn hp hw
  rcases dropDispatch_alive s with hdd | ⟨heq, _⟩
  · rw [hdd] at hd; cases hd
  · rw [heq] at hd hn hp hw ⊢
    exact h hd hn hp hw

theorem Parked.dropCall {now : Nat} (hc : QClosed now DelayQ.Complete) {s : St} (h : Parked now s)
    (hq : DelayQ.Complete s.timers) (cid : Nat) (at_ : DropAt) : Parked now (Client.dropCall s cid at_ now) := by
  rw [dropCall_eq]
  generalize (match getCall s cid with
      | some c => c.phase == Phase.reserving || c.phase == Phase.awaiting
      | none => false) = g
  unfold dropCallG
  simp only
  have step : ∀ (b : Bool) (s1 : St), (Parked now s1 ∧ DelayQ.Complete s1.timers) →
      (Parked now (if b = true then Client.pollDispatch s1 now else s1) ∧
        DelayQ.Complete (if b = true then Client.pollDispatch s1 now else s1).timers) := by
    intro b s1 hs1
    split
    · exact ⟨hs1.1.pollDispatch hc hs1.2, hc.pollDispatch hs1.2⟩
    · exact hs1
  have quiet : ∀ (s1 s2 : St), Park s1 s2 → (Parked now s1 ∧ DelayQ.Complete s1.timers) →
      (Parked now s2 ∧ DelayQ.Complete s2.timers) := fun s1 s2 hp hs1 => ⟨hs1.1.park hp, hp.timers ▸ hs1.2⟩
  refine (quiet _ _ (park_dropFinish _ _) ?_).1
  refine step _ _ ?_
  refine quiet _ _ (park_dropCancel _ _) ?_
  refine step _ _ ?_
  refine quiet _ _ (park_dropClose _ _) ?_
  refine step _ _ ?_
  exact quiet _ _ (park_dropPre _ _) ⟨h, hq⟩

/-- every operation except `advance` keeps the invariant (queue satisfying the wheel invariant, clock in range) -/
theorem Parked.applyOp {c : Sys} (hc : QClosed c.now DelayQ.Complete) (h : Parked c.now c.s)
    (hq : DelayQ.Complete c.s.timers) (op : COp) (hop : ∀ n, op ≠ .advance n) : Parked c.now (Client.applyOp c op).s := by
  cases op with
  | call hd d tr b => exact h.park (park_newCall _ _ _ _)
  | pollCall cid => exact h.park (park_pollCall _ _ _)
  | dropCall cid site => exact h.dropCall hc hq cid site
  | clone hd => exact h.park (park_cloneHandle _ _)
  | dropHandle hd => exact h.park (park_dropHandle _ _)
  | pollDispatch => exact h.pollDispatch hc hq
  | dropDispatch => exact h.dropDispatch
  | injectResp id res => exact h.park (park_liftT _ _)
  | injectErr => exact h.park (park_liftT _ _)
  | eof => exact h.park (park_liftT _ _)
  | setReady b => exact h.park (park_liftT _ _)
  | setFlush b => exact h.park (park_liftT _ _)
  | fault k => exact h.park (by park_rfl)
  | faultSkip n => exact h.park (by park_rfl)
  | selfWake b => exact h.park (by park_rfl)
  | take n => exact h.park (.trans (by park_rfl) (park_took _ _))
  | advance n => exact absurd rfl (hop n)

theorem parked_from (hf : ClampFits) : ∀ (ops : List COp) (c : Sys), Parked c.now c.s → QC c.now c.s.timers →
    c.now + advSum ops < panicFreeNs → Parked (ops.foldl applyOp c).now (ops.foldl applyOp c).s := by
  intro ops
  induction ops with
  | nil => intro c h _ _; exact h
  | cons op ops ih =>
    intro c h0 hq hT
    simp only [List.foldl_cons]
    have hnow' : (Client.applyOp c op).now = c.now + opAdv op := applyOp_now c op
    have hT' : (Client.applyOp c op).now + advSum ops < panicFreeNs := by
      rw [hnow']; simp only [advSum] at hT; omega
    have hcn : c.now < panicFreeNs := by omega
    have hq0 : DelayQ.Complete c.s.timers := hq hcn
    by_cases hop : ∃ n, op = .advance n
    · obtain ⟨n, rfl⟩ := hop
      refine ih _ (h0.onAdvance n) ?_ hT'
      exact (qc_closed hf _).onAdvance (fun hn => hq (by omega)) _
    · have hnow : (Client.applyOp c op).now = c.now := by
        cases op <;> first | rfl | exact absurd ⟨_, rfl⟩ hop
      have hcl : QClosed c.now DelayQ.Complete := by
        have := qc_closed hf c.now
        exact ⟨fun h hi => this.insert (fun _ => h) hi hcn, fun h hr => this.remove (fun _ => h) hr hcn,
          fun h => this.poll (fun _ => h) hcn, fun h => this.clear (fun _ => h) hcn, this.empty hcn,
          fun b h => this.waker b (fun _ => h) hcn⟩
      refine ih _ ?_ ?_ hT'
      · rw [hnow]; exact h0.applyOp hcl hq0 op (fun n hn => hop ⟨n, hn⟩)
      · rw [hnow]; exact (qc_closed hf c.now).applyOp hq op (fun n hn => hop ⟨n, hn⟩)

/-- **A parked dispatch has its timers armed.**  In every reachable state whose clock is below `2^35` ms: if the dispatch
is alive, not poisoned and has not been woken since its last poll, no timer is due, its waker is stored in the queue and
the queue's `Sleep` is registered no later than the earliest tick. -/
theorem parked_reach (hf : ClampFits) (m b tc : Nat) (coupled : Bool) (ops : List COp) (hT : advSum ops < panicFreeNs) :
    Parked (ops.foldl applyOp (initSys m b tc coupled)).now (ops.foldl applyOp (initSys m b tc coupled)).s :=
  parked_from hf ops (initSys m b tc coupled) (fun _ _ _ hw => by cases hw) (fun _ => DelayQ.Complete_empty)
    (by show 0 + advSum ops < panicFreeNs; omega)

end TarpcModel.Client

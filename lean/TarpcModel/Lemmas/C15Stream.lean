import TarpcModel.Wire.Frame
import TarpcModel.Wire.Queue
/-!
Helper lemmas for the stream-level half of C15 (length-delimited framing).
-/
namespace TarpcModel.Wire

/-! ### The length prefix round-trips -/

theorem be32Val_be32 (n : Nat) (h : n < 4294967296) :
    be32Val (UInt8.ofNat (n / 16777216 % 256)) (UInt8.ofNat (n / 65536 % 256))
      (UInt8.ofNat (n / 256 % 256)) (UInt8.ofNat (n % 256)) = n := by
  simp only [be32Val, UInt8.toNat_ofNat']
  omega

/-! ### `decode` -/

theorem measure_pos (s : DecState) : 0 < measure s := by
  unfold measure; omega

theorem decodeData_frame_measure {s s' : DecState} {n : Nat} {p : Payload}
    (h : decodeData s n = (s', .frame p)) : s'.buf.length ≤ s.buf.length ∧ s'.phase = .head := by
  unfold decodeData at h
  split at h
  · simp at h
  · simp only [Prod.mk.injEq, Step.frame.injEq] at h
    obtain ⟨rfl, _⟩ := h
    simp

theorem decode_frame_measure {s s' : DecState} {p : Payload}
    (h : decode s = (s', .frame p)) : measure s' < measure s := by
  unfold decode at h
  split at h
  · simp at h
  · split at h
    · split at h
      · split at h
        · simp at h
        · rename_i hb _
          have := decodeData_frame_measure h
          simp only [measure, this.2, hb, List.length_cons] at *
          omega
      · simp at h
    · rename_i hp
      have := decodeData_frame_measure h
      simp only [measure, this.2, hp]
      omega

/-! ### Fuel is irrelevant once it covers `measure` -/

theorem drain_fuel (f : Nat) : ∀ (g : Nat) (s : DecState), measure s ≤ f → measure s ≤ g →
    drain f s = drain g s := by
  induction f with
  | zero => intro g s hf; have := measure_pos s; omega
  | succ f ih =>
    intro g s hf hg
    cases g with
    | zero => have := measure_pos s; omega
    | succ g =>
      simp only [drain]
      rcases h : decode s with ⟨s', r⟩
      cases r with
      | frame p =>
        have := decode_frame_measure h
        simp only []
        rw [ih g s' (by omega) (by omega)]
      | none => rfl
      | oversize => rfl

theorem drainAll_of_frame {s s' : DecState} {p : Payload} (h : decode s = (s', .frame p)) :
    drainAll s = ((drainAll s').1, p :: (drainAll s').2) := by
  have hm := decode_frame_measure h
  unfold drainAll
  obtain ⟨m, hm'⟩ : ∃ m, measure s = m + 1 := ⟨measure s - 1, by have := measure_pos s; omega⟩
  rw [hm']
  simp only [drain, h]
  rw [drain_fuel m (measure s') s' (by omega) (Nat.le_refl _)]

theorem drainAll_of_none {s s' : DecState} (h : decode s = (s', .none)) :
    drainAll s = (s', []) := by
  unfold drainAll
  obtain ⟨m, hm'⟩ : ∃ m, measure s = m + 1 := ⟨measure s - 1, by have := measure_pos s; omega⟩
  rw [hm']
  simp only [drain, h]

theorem drainAll_of_oversize {s s' : DecState} (h : decode s = (s', .oversize)) :
    drainAll s = ({ s' with failed := true }, []) := by
  unfold drainAll
  obtain ⟨m, hm'⟩ : ∃ m, measure s = m + 1 := ⟨measure s - 1, by have := measure_pos s; omega⟩
  rw [hm']
  simp only [drain, h]

/-- `drainAll` depends on the state only through `decode`. -/
theorem drainAll_congr {a b : DecState} (h : decode a = decode b) : drainAll a = drainAll b := by
  rcases hb : decode b with ⟨s', r⟩
  have ha : decode a = (s', r) := h.trans hb
  cases r with
  | frame p => rw [drainAll_of_frame ha, drainAll_of_frame hb]
  | none => rw [drainAll_of_none ha, drainAll_of_none hb]
  | oversize => rw [drainAll_of_oversize ha, drainAll_of_oversize hb]

/-! ### Case analysis of `decode` -/

theorem decode_failed {s : DecState} (h : s.failed = true) : decode s = (s, .none) := by
  simp [decode, h]

theorem decode_data_eq {s : DecState} {n : Nat} (hf : s.failed = false) (hp : s.phase = .data n) :
    decode s = decodeData s n := by
  simp [decode, hf, hp]

theorem decode_head_eq {s : DecState} {b0 b1 b2 b3 : UInt8} {rest : List UInt8}
    (hf : s.failed = false) (hp : s.phase = .head) (hb : s.buf = b0 :: b1 :: b2 :: b3 :: rest) :
    decode s = if be32Val b0 b1 b2 b3 > s.max then (s, .oversize)
      else decodeData { s with buf := rest, phase := .data (be32Val b0 b1 b2 b3) } (be32Val b0 b1 b2 b3) := by
  simp [decode, hf, hp, hb]

theorem decode_short_eq {s : DecState} (hp : s.phase = .head) (hb : s.buf.length < 4) :
    decode s = (s, .none) := by
  rcases hbuf : s.buf with _ | ⟨a, _ | ⟨b, _ | ⟨c, _ | ⟨d, r⟩⟩⟩⟩ <;> simp [decode, hp, hbuf]
  rw [hbuf] at hb; simp at hb; omega

inductive DecodeCase (s : DecState) : Prop where
  | failed (hf : s.failed = true)
  | short (hf : s.failed = false) (hp : s.phase = .head) (hb : s.buf.length < 4)
  | long (b0 b1 b2 b3 : UInt8) (rest : List UInt8) (hf : s.failed = false) (hp : s.phase = .head)
      (hb : s.buf = b0 :: b1 :: b2 :: b3 :: rest)
  | data (n : Nat) (hf : s.failed = false) (hp : s.phase = .data n)

theorem decodeCase (s : DecState) : DecodeCase s := by
  cases hf : s.failed with
  | true => exact .failed hf
  | false =>
    cases hp : s.phase with
    | data n => exact .data n hf hp
    | head =>
      rcases hbuf : s.buf with _ | ⟨a, _ | ⟨b, _ | ⟨c, _ | ⟨d, r⟩⟩⟩⟩
      · exact .short hf hp (by simp [hbuf])
      · exact .short hf hp (by simp [hbuf])
      · exact .short hf hp (by simp [hbuf])
      · exact .short hf hp (by simp [hbuf])
      · exact .long a b c d r hf hp hbuf

/-! ### More bytes behind the buffer do not change what `decode` already decided -/

@[simp] theorem push_nil (s : DecState) : s.push [] = s := by
  simp [DecState.push]

@[simp] theorem push_push (s : DecState) (a b : List UInt8) : (s.push a).push b = s.push (a ++ b) := by
  simp [DecState.push, List.append_assoc]

@[simp] theorem push_failed (s : DecState) (m : List UInt8) : (s.push m).failed = s.failed := rfl
@[simp] theorem push_phase (s : DecState) (m : List UInt8) : (s.push m).phase = s.phase := rfl
@[simp] theorem push_max (s : DecState) (m : List UInt8) : (s.push m).max = s.max := rfl
@[simp] theorem push_buf (s : DecState) (m : List UInt8) : (s.push m).buf = s.buf ++ m := rfl

theorem decodeData_push_frame {s s' : DecState} {n : Nat} {p : Payload} (m : List UInt8)
    (h : decodeData s n = (s', .frame p)) : decodeData (s.push m) n = (s'.push m, .frame p) := by
  unfold decodeData at h ⊢
  split at h
  · simp at h
  · rename_i hlen
    simp only [Prod.mk.injEq, Step.frame.injEq] at h
    obtain ⟨rfl, rfl⟩ := h
    have hle : n ≤ s.buf.length := by omega
    have : ¬ ((s.push m).buf.length < n) := by simp; omega
    simp only [this, ↓reduceIte]
    simp [DecState.push, List.drop_append_of_le_length hle, List.take_append_of_le_length hle]

theorem decodeData_none {s s' : DecState} {n : Nat}
    (h : decodeData s n = (s', .none)) : s' = s := by
  unfold decodeData at h
  split at h
  · simp at h; exact h.symm
  · simp at h

theorem decodeData_ne_oversize {s s' : DecState} {n : Nat} : decodeData s n ≠ (s', .oversize) := by
  unfold decodeData
  split <;> simp

theorem decode_push_frame {s s' : DecState} {p : Payload} (m : List UInt8)
    (h : decode s = (s', .frame p)) : decode (s.push m) = (s'.push m, .frame p) := by
  cases decodeCase s with
  | failed hf => rw [decode_failed hf] at h; simp at h
  | short hf hp hb => rw [decode_short_eq hp hb] at h; simp at h
  | data n hf hp =>
    rw [decode_data_eq hf hp] at h
    rw [decode_data_eq (s := s.push m) hf hp]
    exact decodeData_push_frame m h
  | long b0 b1 b2 b3 rest hf hp hb =>
    rw [decode_head_eq hf hp hb] at h
    rw [decode_head_eq (s := s.push m) (b0 := b0) (b1 := b1) (b2 := b2) (b3 := b3) (rest := rest ++ m) hf hp (by simp [hb])]
    split at h
    · simp at h
    · rename_i hmax
      simp only [push_max, hmax, ↓reduceIte]
      exact decodeData_push_frame m h

theorem decode_push_oversize {s s' : DecState} (m : List UInt8)
    (h : decode s = (s', .oversize)) : decode (s.push m) = (s'.push m, .oversize) := by
  cases decodeCase s with
  | failed hf => rw [decode_failed hf] at h; simp at h
  | short hf hp hb => rw [decode_short_eq hp hb] at h; simp at h
  | data n hf hp => rw [decode_data_eq hf hp] at h; exact absurd h decodeData_ne_oversize
  | long b0 b1 b2 b3 rest hf hp hb =>
    rw [decode_head_eq hf hp hb] at h
    rw [decode_head_eq (s := s.push m) (b0 := b0) (b1 := b1) (b2 := b2) (b3 := b3) (rest := rest ++ m) hf hp (by simp [hb])]
    split at h
    · rename_i hmax
      simp only [Prod.mk.injEq, and_true] at h
      subst h
      simp only [push_max, hmax, ↓reduceIte]
    · exact absurd h decodeData_ne_oversize

/-- If `decode` wants more bytes it may have moved from `Head` to `Data`; either way the next call,
with more bytes, sees the same thing. -/
theorem decode_push_none {s s' : DecState} (m : List UInt8)
    (h : decode s = (s', .none)) : decode (s.push m) = decode (s'.push m) := by
  cases decodeCase s with
  | failed hf => rw [decode_failed hf] at h; simp at h; subst h; rfl
  | short hf hp hb => rw [decode_short_eq hp hb] at h; simp at h; subst h; rfl
  | data n hf hp =>
    rw [decode_data_eq hf hp] at h
    rw [decodeData_none h]
  | long b0 b1 b2 b3 rest hf hp hb =>
    rw [decode_head_eq hf hp hb] at h
    split at h
    · simp at h
    · rename_i hmax
      have hs' := decodeData_none h
      subst hs'
      rw [decode_head_eq (s := s.push m) (b0 := b0) (b1 := b1) (b2 := b2) (b3 := b3) (rest := rest ++ m) hf hp (by simp [hb])]
      simp only [push_max, hmax, ↓reduceIte]
      rw [decode_data_eq (n := be32Val b0 b1 b2 b3) (by simp [DecState.push, hf]) (by simp [DecState.push])]
      rfl

/-- A state in which `decode` wants more bytes stays like that until bytes arrive. -/
theorem decode_none_stable {s s' : DecState} (h : decode s = (s', .none)) :
    decode s' = (s', .none) := by
  have h2 := decode_push_none [] h
  simp only [push_nil] at h2
  rw [← h2, h]

/-! ### Draining early or late is the same -/

theorem drainAll_push (s : DecState) (m : List UInt8) :
    drainAll (s.push m) =
      ((drainAll ((drainAll s).1.push m)).1, (drainAll s).2 ++ (drainAll ((drainAll s).1.push m)).2) := by
  generalize hk : measure s = k
  induction k using Nat.strongRecOn generalizing s with
  | _ k ih =>
    rcases h : decode s with ⟨s', r⟩
    cases r with
    | frame p =>
      have hlt := decode_frame_measure h
      rw [drainAll_of_frame (decode_push_frame m h), drainAll_of_frame h]
      rw [ih (measure s') (by omega) s' rfl]
      simp
    | none =>
      rw [drainAll_of_none h]
      simp only [List.nil_append]
      exact drainAll_congr (decode_push_none m h)
    | oversize =>
      rw [drainAll_of_oversize h, drainAll_of_oversize (decode_push_oversize m h)]
      have : decode (DecState.push { s' with failed := true } m)
          = (DecState.push { s' with failed := true } m, .none) := decode_failed rfl
      rw [drainAll_of_none this]
      rfl

/-- After draining, `decode` wants more bytes (or the stream is dead). -/
theorem drainAll_drained (s : DecState) : drainAll (drainAll s).1 = ((drainAll s).1, []) := by
  generalize hk : measure s = k
  induction k using Nat.strongRecOn generalizing s with
  | _ k ih =>
    rcases h : decode s with ⟨s', r⟩
    cases r with
    | frame p =>
      have hlt := decode_frame_measure h
      rw [drainAll_of_frame h]
      exact ih (measure s') (by omega) s' rfl
    | none =>
      rw [drainAll_of_none h]
      exact drainAll_of_none (decode_none_stable h)
    | oversize =>
      rw [drainAll_of_oversize h]
      exact drainAll_of_none (decode_failed rfl)

/-- **Chunking is irrelevant**: feeding chunks one at a time (draining after each) is the same as
handing the decoder the concatenation at once. -/
theorem feedAll_eq (s : DecState) (hs : drainAll s = (s, [])) (cs : List (List UInt8)) :
    feedAll s cs = drainAll (s.push cs.flatten) := by
  induction cs generalizing s with
  | nil => simp [feedAll, hs]
  | cons c cs ih =>
    simp only [feedAll, feed, List.flatten_cons]
    rw [ih _ (drainAll_drained _), ← push_push, drainAll_push (s.push c) cs.flatten]

theorem initDec_drained (max : Nat) : drainAll (initDec max) = (initDec max, []) :=
  drainAll_of_none (by simp [decode, initDec])

/-! ### A complete frame at the front of the buffer is emitted -/

theorem decode_frame_front (s : DecState) (p : Payload) (rest : List UInt8)
    (hf : s.failed = false) (hp : s.phase = .head) (hb : s.buf = [])
    (hlen : p.length ≤ s.max) (hmax : s.max < 4294967296) :
    decode (s.push (frame p ++ rest)) = (s.push rest, .frame p) := by
  have hv := be32Val_be32 p.length (by omega)
  have hbuf : (s.push (frame p ++ rest)).buf =
      UInt8.ofNat (p.length / 16777216 % 256) :: UInt8.ofNat (p.length / 65536 % 256) ::
        UInt8.ofNat (p.length / 256 % 256) :: UInt8.ofNat (p.length % 256) :: (p ++ rest) := by
    simp [hb, frame, be32]
  rw [decode_head_eq (s := s.push (frame p ++ rest)) hf hp hbuf, hv]
  have : ¬ (p.length > s.max) := by omega
  simp only [push_max, this, ↓reduceIte]
  have h2 : ¬ (p.length + rest.length < p.length) := by omega
  simp [decodeData, DecState.push, hb, hf, hp, h2]

theorem drainAll_frame_front (s : DecState) (p : Payload) (rest : List UInt8)
    (hf : s.failed = false) (hp : s.phase = .head) (hb : s.buf = [])
    (hlen : p.length ≤ s.max) (hmax : s.max < 4294967296) :
    drainAll (s.push (frame p ++ rest)) = ((drainAll (s.push rest)).1, p :: (drainAll (s.push rest)).2) :=
  drainAll_of_frame (decode_frame_front s p rest hf hp hb hlen hmax)

/-- All the frames in front of `rest` come out, in order, and then `rest` is processed. -/
theorem drainAll_frames (s : DecState) (ps : List Payload) (rest : List UInt8)
    (hf : s.failed = false) (hp : s.phase = .head) (hb : s.buf = [])
    (hlen : ∀ p ∈ ps, p.length ≤ s.max) (hmax : s.max < 4294967296) :
    drainAll (s.push ((ps.map frame).flatten ++ rest)) =
      ((drainAll (s.push rest)).1, ps ++ (drainAll (s.push rest)).2) := by
  induction ps with
  | nil => simp
  | cons p ps ih =>
    simp only [List.map_cons, List.flatten_cons, List.append_assoc]
    rw [drainAll_frame_front s p _ hf hp hb (hlen p (by simp)) hmax,
      ih (fun q hq => hlen q (by simp [hq]))]
    simp

/-! ### A strict prefix of a frame emits nothing -/

theorem frame_length (p : Payload) : (frame p).length = p.length + 4 := by
  simp [frame, be32]

/-- Cut inside the header. -/
theorem drainAll_cut_header (s : DecState) (p : Payload) (k : Nat)
    (hp : s.phase = .head) (hb : s.buf = []) (hk : k < 4) :
    drainAll (s.push ((frame p).take k)) = (s.push ((frame p).take k), []) := by
  apply drainAll_of_none
  exact decode_short_eq (s := s.push ((frame p).take k)) hp (by simp [hb]; omega)

/-- Cut after the header, inside (or just before) the body. -/
theorem drainAll_cut_body (s : DecState) (p : Payload) (j : Nat)
    (hf : s.failed = false) (hp : s.phase = .head) (hb : s.buf = [])
    (hlen : p.length ≤ s.max) (hmax : s.max < 4294967296) (hj : j < p.length) :
    drainAll (s.push ((frame p).take (j + 4))) =
      ({ s with buf := p.take j, phase := .data p.length }, []) := by
  apply drainAll_of_none
  have hv := be32Val_be32 p.length (by omega)
  have hbuf : (s.push ((frame p).take (j + 4))).buf =
      UInt8.ofNat (p.length / 16777216 % 256) :: UInt8.ofNat (p.length / 65536 % 256) ::
        UInt8.ofNat (p.length / 256 % 256) :: UInt8.ofNat (p.length % 256) :: p.take j := by
    simp [hb, frame, be32]
  rw [decode_head_eq (s := s.push ((frame p).take (j + 4))) hf hp hbuf, hv]
  have h1 : ¬ (p.length > s.max) := by omega
  have h2 : min j p.length < p.length := by omega
  simp [h1, decodeData, h2]

/-! ## The FIFO pipe (`Wire/Queue.lean`) -/

section Pipe
variable {α : Type}

theorem accepted_append (a b : List (PObs α)) : accepted (a ++ b) = accepted a ++ accepted b := by
  induction a with
  | nil => rfl
  | cons o os ih => cases o <;> simp [accepted, ih]

theorem delivered_append (a b : List (PObs α)) : delivered (a ++ b) = delivered a ++ delivered b := by
  induction a with
  | nil => rfl
  | cons o os ih => cases o <;> simp [delivered, ih]

/-- Conservation and order: what was accepted is what was delivered, then what is in flight, then what
is staged, then what died with the writer. -/
structure PipeInv (p : Pipe α) (obs : List (PObs α)) : Prop where
  cons : accepted obs = delivered obs ++ p.queue ++ p.staged ++ p.lost
  lostNil : p.writer ≠ .dropped → p.lost = []
  stagedNil : p.writer ≠ .opened → p.staged = []
  unbuffered : p.cfg.buffered = false → p.staged = [] ∧ p.lost = []
  capOk : ∀ c, p.cfg.cap = some c → p.cfg.buffered = false →
    p.queue.length ≤ c + 1 ∧ (p.parked = false → p.queue.length ≤ c)

theorem PipeInv.quiet {p : Pipe α} {obs : List (PObs α)} (h : PipeInv p obs) (o : List (PObs α))
    (ha : accepted o = []) (hd : delivered o = []) : PipeInv p (obs ++ o) :=
  ⟨by simpa [accepted_append, delivered_append, ha, hd] using h.cons, h.lostNil, h.stagedNil,
   h.unbuffered, h.capOk⟩

theorem PipeInv.flushStaged {p : Pipe α} {obs : List (PObs α)} (h : PipeInv p obs)
    (hw : p.writer = .opened) : PipeInv p.flushStaged obs := by
  obtain ⟨hc, hl, hs, hu, hcap⟩ := h
  have hl' := hl (by simp [hw])
  refine ⟨?_, ?_, ?_, ?_, ?_⟩
  · simp [hc, hl', Pipe.flushStaged]
  · simp [hl', Pipe.flushStaged]
  · simp [Pipe.flushStaged]
  · intro hb; have := hu hb; simp [Pipe.flushStaged, this]
  · intro c hcc hbb
    have := hu hbb
    simpa [Pipe.flushStaged, this] using hcap c hcc hbb

theorem PipeInv.autoFlush {p : Pipe α} {obs : List (PObs α)} (h : PipeInv p obs)
    (hw : p.writer = .opened) : PipeInv p.autoFlush obs := by
  unfold Pipe.autoFlush; split
  · exact h.flushStaged hw
  · exact h

@[simp] theorem flushStaged_writer (p : Pipe α) : p.flushStaged.writer = p.writer := rfl
@[simp] theorem flushStaged_cfg (p : Pipe α) : p.flushStaged.cfg = p.cfg := rfl
@[simp] theorem flushStaged_lost (p : Pipe α) : p.flushStaged.lost = p.lost := rfl
@[simp] theorem flushStaged_parked (p : Pipe α) : p.flushStaged.parked = p.parked := rfl
@[simp] theorem autoFlush_writer (p : Pipe α) : p.autoFlush.writer = p.writer := by
  unfold Pipe.autoFlush; split <;> rfl
@[simp] theorem autoFlush_cfg (p : Pipe α) : p.autoFlush.cfg = p.cfg := by
  unfold Pipe.autoFlush; split <;> rfl

theorem PipeInv.pop {p : Pipe α} {obs : List (PObs α)} (h : PipeInv p obs) :
    PipeInv p.pop.1 (obs ++ p.pop.2) := by
  obtain ⟨qc, ql, qs, qu, qcap⟩ := h
  unfold Pipe.pop
  cases hq : p.queue with
  | nil =>
    refine ⟨?_, ql, qs, qu, qcap⟩
    simp only
    split <;> simpa [accepted_append, delivered_append, accepted, delivered, hq] using qc
  | cons a r =>
    refine ⟨?_, ql, qs, qu, ?_⟩
    · simpa [accepted_append, delivered_append, accepted, delivered, hq] using qc
    · intro c hcc hbb
      have h2 := qcap c hcc hbb
      simp only [hq, List.length_cons] at h2
      simp; omega

theorem PipeInv.step {p : Pipe α} {obs : List (PObs α)} (h : PipeInv p obs) (op : POp α) :
    PipeInv (p.step op).1 (obs ++ (p.step op).2) := by
  cases op with
  | send a =>
    unfold Pipe.step
    by_cases hw : p.writer = .opened
    · by_cases hp : p.parked = true
      · simp only [hw, ne_eq, not_true_eq_false, ↓reduceIte, hp]
        exact h.quiet _ rfl rfl
      · by_cases hb : p.cfg.buffered = true
        · simp only [hw, ne_eq, not_true_eq_false, ↓reduceIte, hp, hb, Bool.false_eq_true]
          obtain ⟨hc, hl, hs, hu, hcap⟩ := h.autoFlush hw
          have hl' := hl (by simp [hw])
          refine ⟨?_, ?_, ?_, ?_, ?_⟩
          · simp [accepted_append, delivered_append, accepted, delivered, hc, hl']
          · simp [hl']
          · simp [hw]
          · simp [hb]
          · simp [hb]
        · simp only [hw, ne_eq, not_true_eq_false, ↓reduceIte, hp, hb, Bool.false_eq_true]
          obtain ⟨hc, hl, hs, hu, hcap⟩ := h
          have hl' := hl (by simp [hw])
          have hb' : p.cfg.buffered = false := by simpa using hb
          have hu' := hu hb'
          refine ⟨?_, ?_, ?_, ?_, ?_⟩
          · simp [accepted_append, delivered_append, accepted, delivered, hc, hl', hu'.1]
          · simp [hl']
          · simp
          · intro _; exact hu'
          · intro c hcc hbb
            have := hcap c hcc hbb
            have hp' : p.parked = false := by simpa using hp
            have hcc' : p.cfg.cap = some c := hcc
            simp only [List.length_append, List.length_cons, List.length_nil, hcc', overCap]
            constructor
            · have := this.2 hp'; omega
            · intro hd; simp at hd; omega
    · simp only [ne_eq, hw, not_false_eq_true, ↓reduceIte]
      exact h.quiet _ rfl rfl
  | flush =>
    unfold Pipe.step
    by_cases hw : p.writer = .opened
    · simp only [hw, ne_eq, not_true_eq_false, ↓reduceIte]
      exact (h.flushStaged hw).quiet _ rfl rfl
    · simp only [ne_eq, hw, not_false_eq_true, ↓reduceIte]
      exact h.quiet _ rfl rfl
  | recv =>
    unfold Pipe.step
    by_cases hw : p.writer = .opened
    · simp only [hw, ↓reduceIte]; exact (h.flushStaged hw).pop
    · simp only [hw, ↓reduceIte]; exact h.pop
  | close =>
    unfold Pipe.step
    by_cases hw : p.writer = .opened
    · simp only [hw, ne_eq, not_true_eq_false, ↓reduceIte]
      obtain ⟨hc, hl, hs, hu, hcap⟩ := h.flushStaged hw
      have hl' := hl (by simp [hw])
      refine ⟨?_, ?_, ?_, hu, hcap⟩
      · simpa [accepted_append, delivered_append, accepted, delivered] using hc
      · intro _; exact hl'
      · intro _; simp [Pipe.flushStaged]
    · simp only [ne_eq, hw, not_false_eq_true, ↓reduceIte]
      exact h.quiet _ rfl rfl
  | drop =>
    unfold Pipe.step
    by_cases hw : p.writer = .dropped
    · simp only [hw, ↓reduceIte]
      exact h.quiet _ rfl rfl
    · simp only [hw, ↓reduceIte]
      obtain ⟨hc, hl, hs, hu, hcap⟩ := h
      have hl' := hl hw
      refine ⟨?_, ?_, ?_, ?_, ?_⟩
      · simp [accepted_append, delivered_append, accepted, delivered, hc, hl']
      · simp
      · simp
      · intro hb; have := hu hb; simp [this]
      · exact hcap

theorem PipeInv.run {p : Pipe α} {obs : List (PObs α)} (h : PipeInv p obs) (ops : List (POp α)) :
    PipeInv (p.run ops).1 (obs ++ (p.run ops).2) := by
  induction ops generalizing p obs with
  | nil => simpa [Pipe.run] using h
  | cons op ops ih =>
    simp only [Pipe.run]
    have := ih (h.step op)
    simpa [List.append_assoc] using this

theorem PipeInv.init (cfg : PipeCfg) : PipeInv (Pipe.init cfg : Pipe α) [] :=
  ⟨by simp [Pipe.init, accepted, delivered], by simp [Pipe.init], by simp [Pipe.init],
   by simp [Pipe.init], by intro c _ _; simp [Pipe.init]⟩

theorem step_cfg (p : Pipe α) (op : POp α) : (p.step op).1.cfg = p.cfg := by
  cases op <;> simp only [Pipe.step, Pipe.pop]
  · split
    · rfl
    · split
      · rfl
      · split <;> simp
  · split <;> rfl
  · split <;> split <;> rfl
  · split <;> rfl
  · split <;> rfl

theorem run_cfg (p : Pipe α) (ops : List (POp α)) : (p.run ops).1.cfg = p.cfg := by
  induction ops generalizing p with
  | nil => rfl
  | cons op ops ih => simp only [Pipe.run, ih, step_cfg]

theorem run_append (p : Pipe α) (a b : List (POp α)) :
    p.run (a ++ b) = (((p.run a).1.run b).1, (p.run a).2 ++ ((p.run a).1.run b).2) := by
  induction a generalizing p with
  | nil => simp [Pipe.run]
  | cons op a ih => simp [Pipe.run, ih, List.append_assoc]

end Pipe

end TarpcModel.Wire

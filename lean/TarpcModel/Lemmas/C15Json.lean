import TarpcModel.Lemmas.C15Varint
import TarpcModel.Wire.Json
/-! Helper lemmas for the JSON codec (C15): the text layer reads back what it writes. -/
namespace TarpcModel.Json
open TarpcModel.Bincode (Bytes strBytes Duration TraceContext Context Request ClientMessage ServerError RespBody
  Response leBytes leVal leVal_leBytes leBytes_length)

/-! ### Digits -/

theorem digitByte_toNat (d : Nat) (h : d < 10) : (digitByte d).toNat = 48 + d := by
  simp only [digitByte, UInt8.toNat_ofNat']
  omega

theorem isDigit_digitByte (d : Nat) (h : d < 10) : isDigit (digitByte d) = true := by
  simp [isDigit, digitByte_toNat d h]
  omega

theorem natDigitsF_all : ∀ (f n : Nat), n < f → ∀ b ∈ natDigitsF f n, isDigit b = true := by
  intro f
  induction f with
  | zero => intro n h; omega
  | succ f ih =>
    intro n h b hb
    simp only [natDigitsF] at hb
    split at hb
    · next hn => simp at hb; subst hb; exact isDigit_digitByte n hn
    · next hn =>
      simp at hb
      rcases hb with hb | hb
      · exact ih (n / 10) (by omega) b hb
      · subst hb; exact isDigit_digitByte _ (by omega)

theorem natDigitsF_ne_nil : ∀ (f n : Nat), n < f → natDigitsF f n ≠ [] := by
  intro f n h
  cases f with
  | zero => omega
  | succ f =>
    simp only [natDigitsF]
    split <;> simp

theorem digitsVal_append (xs ys : Bytes) (a : Nat) :
    digitsVal (xs ++ ys) a = digitsVal ys (digitsVal xs a) := by
  induction xs generalizing a with
  | nil => rfl
  | cons x xs ih => simp [digitsVal, ih]

theorem digitsVal_natDigitsF : ∀ (f n : Nat), n < f → digitsVal (natDigitsF f n) 0 = n := by
  intro f
  induction f with
  | zero => intro n h; omega
  | succ f ih =>
    intro n h
    simp only [natDigitsF]
    split
    · next hn => simp [digitsVal, digitByte_toNat n hn]
    · next hn =>
      rw [digitsVal_append, ih (n / 10) (by omega)]
      simp [digitsVal, digitByte_toNat (n % 10) (by omega)]
      omega

/-- No superfluous leading zero. -/
theorem natDigitsF_head_zero : ∀ (f n : Nat), n < f → ∀ t, natDigitsF f n = 0x30 :: t → n = 0 := by
  intro f
  induction f with
  | zero => intro n h; omega
  | succ f ih =>
    intro n h t ht
    simp only [natDigitsF] at ht
    split at ht
    · next hn =>
      simp at ht
      have := congrArg UInt8.toNat ht.1
      rw [digitByte_toNat n hn] at this
      simp at this
      omega
    · next hn =>
      exfalso
      have hne := natDigitsF_ne_nil f (n / 10) (by omega)
      cases hd : natDigitsF f (n / 10) with
      | nil => exact hne hd
      | cons d ds =>
        rw [hd] at ht
        simp at ht
        have := ih (n / 10) (by omega) ds (by rw [hd, ht.1])
        omega

theorem natDigitsF_zero (f : Nat) : natDigitsF (f + 1) 0 = [0x30] := by
  simp [natDigitsF, digitByte]

theorem spanDigits_append (ds rest : Bytes) (hds : ∀ b ∈ ds, isDigit b = true)
    (hr : ∀ c r, rest = c :: r → isDigit c = false) : spanDigits (ds ++ rest) = (ds, rest) := by
  induction ds with
  | nil =>
    cases rest with
    | nil => rfl
    | cons c r => simp [spanDigits, hr c r rfl]
  | cons d ds ih =>
    have := ih (fun b hb => hds b (by simp [hb]))
    simp [spanDigits, hds d (by simp), this]

theorem numEnd_not_digit {rest : Bytes} (h : numEnd rest = true) :
    ∀ c r, rest = c :: r → isDigit c = false := by
  intro c r hr
  subst hr
  simp [numEnd] at h
  exact h.1.1.1

theorem parseFrac_numEnd {rest : Bytes} (h : numEnd rest = true) : parseFrac rest = some (false, rest) := by
  cases rest with
  | nil => rfl
  | cons c r =>
    simp [numEnd] at h
    obtain ⟨⟨⟨_, h2⟩, h3⟩, h4⟩ := h
    simp [parseFrac, parseExp, h2, h3, h4]

theorem parseNum_natDigits (n : Nat) (rest : Bytes) (h : numEnd rest = true) :
    parseNum false (natDigits n ++ rest) = some (.num n, rest) := by
  have hall := natDigitsF_all (n + 1) n (by omega)
  have hval := digitsVal_natDigitsF (n + 1) n (by omega)
  have hsp := spanDigits_append (natDigits n) rest hall (numEnd_not_digit h)
  unfold parseNum
  rw [hsp]
  unfold natDigits at *
  cases hd : natDigitsF (n + 1) n with
  | nil => exact absurd hd (natDigitsF_ne_nil _ _ (by omega))
  | cons d t =>
    rw [hd] at hval
    cases t with
    | nil => simp [parseFrac_numEnd h, hval]
    | cons e t' =>
      have hz : d ≠ 0x30 := by
        intro hz
        subst hz
        have h0 := natDigitsF_head_zero (n + 1) n (by omega) _ hd
        subst h0
        rw [natDigitsF_zero] at hd
        simp at hd
      simp [parseFrac_numEnd h, hval, hz]

theorem parseNum_opaque (rest : Bytes) (h : numEnd rest = true) :
    parseNum true (0x30 :: rest) = some (.opaque, rest) := by
  have hsp := spanDigits_append [0x30] rest (by simp [isDigit]) (numEnd_not_digit h)
  simp only [List.cons_append, List.nil_append] at hsp
  simp [parseNum, hsp, parseFrac_numEnd h]

theorem natDigits_head (n : Nat) : ∃ d t, natDigits n = d :: t ∧ isDigit d = true := by
  cases hd : natDigits n with
  | nil => exact absurd hd (natDigitsF_ne_nil _ _ (by omega))
  | cons d t => exact ⟨d, t, rfl, natDigitsF_all (n + 1) n (by omega) d (by unfold natDigits at hd; simp [hd])⟩

/-! ### Strings -/

theorem hexVal_hexDigit (k : Nat) (h : k < 16) : hexVal (hexDigit k) = some k := by
  unfold hexDigit
  split
  · next hk =>
    have : (UInt8.ofNat (48 + k)).toNat = 48 + k := by simp only [UInt8.toNat_ofNat']; omega
    simp only [hexVal, this]
    rw [if_pos (by omega)]
    simp
  · next hk =>
    have : (UInt8.ofNat (87 + k)).toNat = 87 + k := by simp only [UInt8.toNat_ofNat']; omega
    simp only [hexVal, this]
    rw [if_neg (by omega), if_pos (by omega)]
    simp

theorem strBody_esc : ∀ (bs rest : Bytes) (f : Nat), (escBytes bs ++ 0x22 :: rest).length ≤ f →
    strBody f (escBytes bs ++ 0x22 :: rest) = some (bs, false, rest) := by
  intro bs
  induction bs with
  | nil =>
    intro rest f h
    cases f with
    | zero => simp at h
    | succ f => simp [escBytes, strBody]
  | cons b t ih =>
    intro rest f h
    cases f with
    | zero => simp at h
    | succ f =>
      simp only [escBytes, List.append_assoc] at h ⊢
      unfold escByte at h ⊢
      split at h
      · next hb =>
        subst hb; simp at h
        simp [strBody, simpleEsc, ih rest f (by simp; omega), pre]
      · split at h
        · next hb => subst hb; simp at h; simp [strBody, simpleEsc, ih rest f (by simp; omega), pre]
        · split at h
          · next hb => subst hb; simp at h; simp [strBody, simpleEsc, ih rest f (by simp; omega), pre]
          · split at h
            · next hb => subst hb; simp at h; simp [strBody, simpleEsc, ih rest f (by simp; omega), pre]
            · split at h
              · next hb => subst hb; simp at h; simp [strBody, simpleEsc, ih rest f (by simp; omega), pre]
              · split at h
                · next hb => subst hb; simp at h; simp [strBody, simpleEsc, ih rest f (by simp; omega), pre]
                · split at h
                  · next hb => subst hb; simp at h; simp [strBody, simpleEsc, ih rest f (by simp; omega), pre]
                  · split at h
                    · next h1 h2 h3 h4 h5 h6 h7 hlt =>
                      simp at h
                      have e1 := hexVal_hexDigit (b.toNat / 16) (by omega)
                      have e2 := hexVal_hexDigit (b.toNat % 16) (by omega)
                      have hz : hexVal 0x30 = some 0 := by decide
                      have hu : utf8Of b.toNat = [b] := by
                        unfold utf8Of
                        rw [if_pos (by omega)]
                        simp
                      have hv : 16 * (b.toNat / 16) + b.toNat % 16 = b.toNat := by omega
                      simp [strBody, h1, h2, h3, h4, h5, h6, h7, hlt, hex4, e1, e2, hz, ih rest f (by simp; omega), pre]
                      rw [hv, if_neg (by omega), if_neg (by omega), hu]
                      rfl
                    · next h1 h2 h3 h4 h5 h6 h7 hlt =>
                      simp at h
                      simp [strBody, h1, h2, h3, h4, h5, h6, h7, hlt, ih rest f (by simp; omega), pre]

/-! ### Values -/

theorem parseStrTok_render (s : String) (rest : Bytes) :
    parseStrTok (escBytes (strBytes s) ++ 0x22 :: rest) = some (.str s, rest) := by
  unfold parseStrTok
  rw [strBody_esc (strBytes s) rest _ (Nat.le_refl _)]
  simp [strBytes, String.fromUTF8?, String.toUTF8, s.isValidUTF8, String.fromUTF8]

theorem renderStr_eq (s : String) (rest : Bytes) :
    renderStr s ++ rest = 0x22 :: (escBytes (strBytes s) ++ 0x22 :: rest) := by
  simp [renderStr]

theorem skipWs_cons (b : UInt8) (t : Bytes) (h : isWs b = false) : skipWs (b :: t) = b :: t := by
  simp [skipWs, h]

theorem isWs_of_isDigit (b : UInt8) (h : isDigit b = true) : isWs b = false := by
  simp [isDigit] at h
  simp [isWs]
  refine ⟨⟨⟨?_, ?_⟩, ?_⟩, ?_⟩ <;> (intro hb; subst hb; simp at h)

theorem keysOf_map (kvs : List (String × Json)) :
    keysOf (kvs.map fun p => (Json.str p.1, p.2)) = some kvs := by
  induction kvs with
  | nil => rfl
  | cons p t ih => obtain ⟨k, v⟩ := p; simp [keysOf, ih]

theorem parseMember_render (pv : Bytes → Option (Json × Bytes)) (k : String) (v : Json) (tail : Bytes)
    (hv : pv (render v ++ tail) = some (v, tail)) :
    parseMember pv (escBytes (strBytes k) ++ 0x22 :: 0x3a :: (render v ++ tail)) = some ((.str k, v), tail) := by
  simp [parseMember, parseStrTok_render, skipWs, isWs, hv]

theorem render_head : ∀ v : Json, ∃ c t, render v = c :: t ∧ isWs c = false ∧ c ≠ 0x5d ∧ c ≠ 0x7d
  | .null => ⟨_, _, rfl, by decide, by decide, by decide⟩
  | .bool true => ⟨_, _, rfl, by decide, by decide, by decide⟩
  | .bool false => ⟨_, _, rfl, by decide, by decide, by decide⟩
  | .num n => by
    obtain ⟨d, t, hd, hdig⟩ := natDigits_head n
    refine ⟨d, t, by simp [render, hd], isWs_of_isDigit d hdig, ?_, ?_⟩ <;>
      (intro h; subst h; simp [isDigit] at hdig)
  | .str s => ⟨_, _, rfl, by decide, by decide, by decide⟩
  | .arr [] => ⟨_, _, rfl, by decide, by decide, by decide⟩
  | .arr (_ :: _) => ⟨_, _, rfl, by decide, by decide, by decide⟩
  | .obj [] => ⟨_, _, rfl, by decide, by decide, by decide⟩
  | .obj ((_, _) :: _) => ⟨_, _, rfl, by decide, by decide, by decide⟩
  | .opaque => ⟨_, _, rfl, by decide, by decide, by decide⟩

theorem numEnd_renderElems (xs : List Json) (rest : Bytes) : numEnd (renderElems xs ++ rest) = true := by
  cases xs <;> simp [renderElems, numEnd, isDigit]

theorem numEnd_renderFields (kvs : List (String × Json)) (rest : Bytes) :
    numEnd (renderFields kvs ++ rest) = true := by
  cases kvs with
  | nil => simp [renderFields, numEnd, isDigit]
  | cons p t => obtain ⟨k, v⟩ := p; simp [renderFields, numEnd, isDigit]

mutual
theorem parseVal_render : ∀ (v : Json) (rest : Bytes) (f : Nat), (render v ++ rest).length < f →
    (isNumTok v = true → numEnd rest = true) → parseVal f (render v ++ rest) = some (v, rest)
  | .null, rest, f, hl, _ => by
    cases f with
    | zero => omega
    | succ f => simp [render, parseVal, skipWs, isWs, expect]
  | .bool true, rest, f, hl, _ => by
    cases f with
    | zero => omega
    | succ f => simp [render, parseVal, skipWs, isWs, expect]
  | .bool false, rest, f, hl, _ => by
    cases f with
    | zero => omega
    | succ f => simp [render, parseVal, skipWs, isWs, expect]
  | .num n, rest, f, hl, hn => by
    cases f with
    | zero => omega
    | succ f =>
      obtain ⟨d, t, hd, hdig⟩ := natDigits_head n
      have hp := parseNum_natDigits n rest (hn rfl)
      simp only [render, hd, List.cons_append] at hp ⊢
      have hw := isWs_of_isDigit d hdig
      simp [isDigit] at hdig
      have h1 : d ≠ 0x6e := by intro h; subst h; simp at hdig
      have h2 : d ≠ 0x74 := by intro h; subst h; simp at hdig
      have h3 : d ≠ 0x66 := by intro h; subst h; simp at hdig
      have h4 : d ≠ 0x22 := by intro h; subst h; simp at hdig
      have h5 : d ≠ 0x2d := by intro h; subst h; simp at hdig
      simp [parseVal, skipWs, hw, h1, h2, h3, h4, h5, isDigit, hdig, hp]
  | .opaque, rest, f, hl, hn => by
    cases f with
    | zero => omega
    | succ f => simp [render, parseVal, skipWs, isWs, parseNum_opaque rest (hn rfl)]
  | .str s, rest, f, hl, _ => by
    cases f with
    | zero => omega
    | succ f => simp [render, renderStr_eq, parseVal, skipWs, isWs, parseStrTok_render]
  | .arr [], rest, f, hl, _ => by
    cases f with
    | zero => omega
    | succ f => simp [render, parseVal, skipWs, isWs, isDigit]
  | .arr (x :: xs), rest, f, hl, _ => by
    cases f with
    | zero => omega
    | succ f =>
      simp only [render, List.cons_append, List.append_assoc, List.length_cons] at hl ⊢
      have ihx := parseVal_render x (renderElems xs ++ rest) f (by omega)
        (fun _ => numEnd_renderElems xs rest)
      have ihxs := parseElems_render xs rest f (by simp at hl ⊢; omega)
      obtain ⟨c, t, hc, hws, h1, h2⟩ := render_head x
      simp only [hc, List.cons_append] at ihx ⊢
      have hws' : ¬(((c = 32 ∨ c = 10) ∨ c = 9) ∨ c = 13) := by simpa [isWs] using hws
      simp [parseVal, skipWs, isWs, isDigit, hws', h1, ihx, ihxs]
  | .obj [], rest, f, hl, _ => by
    cases f with
    | zero => omega
    | succ f => simp [render, parseVal, skipWs, isWs, isDigit]
  | .obj ((k, v) :: kvs), rest, f, hl, _ => by
    cases f with
    | zero => omega
    | succ f =>
      simp only [render, renderStr, List.cons_append, List.append_assoc, List.length_cons, List.nil_append] at hl ⊢
      have ihv := parseVal_render v (renderFields kvs ++ rest) f (by simp at hl ⊢; omega)
        (fun _ => numEnd_renderFields kvs rest)
      have ihk := parseFields_render kvs rest f (by simp at hl ⊢; omega)
      have hm := parseMember_render (parseVal f) k v (renderFields kvs ++ rest) ihv
      simp [parseVal, skipWs, isWs, isDigit, hm, ihk, mkObj, keysOf, keysOf_map]
theorem parseElems_render : ∀ (xs : List Json) (rest : Bytes) (f : Nat), (renderElems xs ++ rest).length < f →
    parseElems f (renderElems xs ++ rest) = some (xs, rest)
  | [], rest, f, hl => by
    cases f with
    | zero => omega
    | succ f => simp [renderElems, parseElems, skipWs, isWs]
  | x :: xs, rest, f, hl => by
    cases f with
    | zero => omega
    | succ f =>
      simp only [renderElems, List.cons_append, List.append_assoc, List.length_cons] at hl ⊢
      have ihx := parseVal_render x (renderElems xs ++ rest) f (by omega)
        (fun _ => numEnd_renderElems xs rest)
      have ihxs := parseElems_render xs rest f (by simp at hl ⊢; omega)
      simp [parseElems, skipWs, isWs, ihx, ihxs]
theorem parseFields_render : ∀ (kvs : List (String × Json)) (rest : Bytes) (f : Nat),
    (renderFields kvs ++ rest).length < f →
    parseFields f (renderFields kvs ++ rest) = some (kvs.map fun p => (Json.str p.1, p.2), rest)
  | [], rest, f, hl => by
    cases f with
    | zero => omega
    | succ f => simp [renderFields, parseFields, skipWs, isWs]
  | (k, v) :: kvs, rest, f, hl => by
    cases f with
    | zero => omega
    | succ f =>
      simp only [renderFields, renderStr, List.cons_append, List.append_assoc, List.length_cons, List.nil_append] at hl ⊢
      have ihv := parseVal_render v (renderFields kvs ++ rest) f (by simp at hl ⊢; omega)
        (fun _ => numEnd_renderFields kvs rest)
      have ihk := parseFields_render kvs rest f (by simp at hl ⊢; omega)
      have hm := parseMember_render (parseVal f) k v (renderFields kvs ++ rest) ihv
      simp [parseFields, skipWs, isWs, hm, ihk]
end

/-! ### Schema layer -/

theorem parseDoc_render (v : Json) : parseDoc (render v) = some v := by
  have := parseVal_render v [] ((render v).length + 1) (by simp) (fun _ => rfl)
  simp only [List.append_nil] at this
  simp [parseDoc, parse, this, skipWs]

theorem bytesFromJson_bytesToJson (bs : Bytes) : bytesFromJson (bytesToJson bs) = some bs := by
  induction bs with
  | nil => rfl
  | cons b t ih =>
    have : b.toNat < 256 := b.toNat_lt
    simp [bytesToJson, bytesFromJson, ih, this]

theorem traceId_roundtrip (t : Nat) (h : t < 2 ^ 128) : traceIdFromJson (traceIdToJson t) = some t := by
  simp [traceIdFromJson, traceIdToJson, bytesFromJson_bytesToJson, leBytes_length,
    leVal_leBytes 16 t (by omega)]

theorem duration_roundtrip (d : Duration) (h : d.Valid) : durationFromJson (durationToJson d) = some d := by
  obtain ⟨h1, h2⟩ := h
  have h3 : d.nanos / 1000000000 = 0 := Nat.div_eq_of_lt h2
  have h4 : d.nanos % 1000000000 = d.nanos := Nat.mod_eq_of_lt h2
  have h5 : d.nanos < 2 ^ 32 := by omega
  simp [durationFromJson, durationToJson, durationKeysOk, req, lookupAll, uintFromJson, mkDuration,
    h1, h3, h4, h5]

theorem sampling_roundtrip (b : Bool) : samplingFromJson (samplingToJson b) = some b := by
  cases b <;> simp [samplingFromJson, samplingToJson]

theorem trace_roundtrip (t : TraceContext) (h : t.Valid) : traceFromJson (traceToJson t) = some t := by
  obtain ⟨h1, h2⟩ := h
  simp [traceFromJson, traceToJson, req, lookupAll, mkTrace, traceId_roundtrip _ h1, uintFromJson, h2,
    sampling_roundtrip]

theorem context_roundtrip (c : Context) (h : c.Valid) : contextFromJson (contextToJson c) = some c := by
  simp [contextFromJson, contextToJson, req, opt, lookupAll, mkContext, duration_roundtrip _ h.1,
    trace_roundtrip _ h.2]

section
variable {T : Type} {encT : T → Json} {decT : Json → Option T} {PT : T → Prop}

theorem request_roundtrip (hT : BodyCodec encT decT PT) (r : Request T) (h : r.Valid PT) :
    requestFromJson decT (requestToJson encT r) = some r := by
  obtain ⟨h1, h2, h3⟩ := h
  simp [requestFromJson, requestToJson, req, lookupAll, mkRequest, context_roundtrip _ h1, uintFromJson,
    h2, hT _ h3]

theorem clientMessage_roundtrip (hT : BodyCodec encT decT PT) (m : ClientMessage T) (h : m.Valid PT) :
    clientMessageFromJson decT (clientMessageToJson encT m) = some m := by
  cases m with
  | request r => simp [clientMessageFromJson, clientMessageToJson, request_roundtrip hT r h]
  | cancel t id =>
    simp [clientMessageFromJson, clientMessageToJson, cancelFromJson, req, opt, lookupAll, mkCancel,
      trace_roundtrip _ h.1, uintFromJson, h.2]

theorem serverError_roundtrip (e : ServerError) (k' : String) (hk : kindBack e.kind = some k') :
    serverErrorFromJson (serverErrorToJson e) = some { e with kind := k' } := by
  unfold kindBack at hk
  simp [serverErrorFromJson, serverErrorToJson, req, lookupAll, mkServerError, hk, strFromJson]

theorem response_roundtrip (hT : BodyCodec encT decT PT) (r : Response T) (hr : ValidResponse PT r) (k' : String)
    (hk : ∀ e, r.message = .err e → kindBack e.kind = some k') :
    responseFromJson decT (responseToJson encT r) = some (r.withKind k') := by
  obtain ⟨id, msg⟩ := r
  obtain ⟨h1, h2⟩ := hr
  cases msg with
  | ok t =>
    simp only at h1
    simp [responseFromJson, responseToJson, req, lookupAll, mkResponse, uintFromJson, h1, resultFromJson,
      resultToJson, hT _ (h2 t rfl), Response.withKind]
  | err e =>
    simp only at h1
    simp [responseFromJson, responseToJson, req, lookupAll, mkResponse, uintFromJson, h1, resultFromJson,
      resultToJson, serverError_roundtrip e k' (hk e rfl), Response.withKind]
end

/-! ### Insignificant whitespace around a document -/

theorem skipWs_append_ws (ws bs : Bytes) (h : allWs ws) : skipWs (ws ++ bs) = skipWs bs := by
  induction ws with
  | nil => rfl
  | cons w t ih =>
    have hw := h w (by simp)
    simp [skipWs, hw, ih (fun b hb => h b (by simp [hb]))]

theorem skipWs_allWs (ws : Bytes) (h : allWs ws) : skipWs ws = [] := by
  have := skipWs_append_ws ws [] h
  simpa [skipWs] using this

theorem numEnd_allWs (ws : Bytes) (h : allWs ws) : numEnd ws = true := by
  cases ws with
  | nil => rfl
  | cons w t =>
    have hw := h w (by simp)
    simp [isWs] at hw
    rcases hw with ((hw | hw) | hw) | hw <;> subst hw <;> simp [numEnd, isDigit]

theorem parseVal_ws (f : Nat) (ws bs : Bytes) (h : allWs ws) :
    parseVal (f + 1) (ws ++ bs) = parseVal (f + 1) bs := by
  simp only [parseVal, skipWs_append_ws ws bs h]

theorem parseDoc_ws (v : Json) (ws₁ ws₂ : Bytes) (h₁ : allWs ws₁) (h₂ : allWs ws₂) :
    parseDoc (ws₁ ++ render v ++ ws₂) = some v := by
  have := parseVal_render v ws₂ ((ws₁ ++ (render v ++ ws₂)).length + 1) (by simp; omega)
    (fun _ => numEnd_allWs ws₂ h₂)
  simp only [parseDoc, parse, List.append_assoc, parseVal_ws _ ws₁ _ h₁, this]
  simp [skipWs_allWs ws₂ h₂]

end TarpcModel.Json

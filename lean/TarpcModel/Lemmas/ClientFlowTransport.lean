import TarpcModel.Lemmas.ClientFlow
/-
How the dispatch's transport calls act on the instrumented transport `SimT` and on the client state:
`SimT`-level effect lemmas (`pollReady`, `startSend`, `pollFlush`, `pollClose`, `pollNext`), the common shape
`tEmit` of `tReady/tFlush/tClose/tSend`, and the effect / frame lemmas of those calls on `St`.
-/
namespace TarpcModel.Client.Flow

namespace SimT
open TarpcModel.SimT

@[simp] theorem violate_violations (t : SimT) (w : String) : (t.violate w).violations = w :: t.violations := rfl
@[simp] theorem violate_closed (t : SimT) (w : String) : (t.violate w).closed = t.closed := rfl
@[simp] theorem violate_failed (t : SimT) (w : String) : (t.violate w).failed = t.failed := rfl
@[simp] theorem violate_gotReady (t : SimT) (w : String) : (t.violate w).gotReady = t.gotReady := rfl
@[simp] theorem violate_buffered (t : SimT) (w : String) : (t.violate w).buffered = t.buffered := rfl
@[simp] theorem violate_writeWaker (t : SimT) (w : String) : (t.violate w).writeWaker = t.writeWaker := rfl
@[simp] theorem violate_faultReady (t : SimT) (w : String) : (t.violate w).faultReady = t.faultReady := rfl
@[simp] theorem violate_faultSend (t : SimT) (w : String) : (t.violate w).faultSend = t.faultSend := rfl
@[simp] theorem violate_faultFlush (t : SimT) (w : String) : (t.violate w).faultFlush = t.faultFlush := rfl
@[simp] theorem violate_faultClose (t : SimT) (w : String) : (t.violate w).faultClose = t.faultClose := rfl
@[simp] theorem violate_coupled (t : SimT) (w : String) : (t.violate w).coupled = t.coupled := rfl
@[simp] theorem violate_flushOpen (t : SimT) (w : String) : (t.violate w).flushOpen = t.flushOpen := rfl
@[simp] theorem violate_isReadyNow (t : SimT) (w : String) : (t.violate w).isReadyNow = t.isReadyNow := rfl

/-! #### fault countdown: `fires`, `letThrough` (only `faultSkip` changes) -/

@[simp] theorem letThrough_cap (t : SimT) (a : Bool) : (t.letThrough a).cap = t.cap := by unfold letThrough; split <;> rfl
@[simp] theorem letThrough_coupled (t : SimT) (a : Bool) : (t.letThrough a).coupled = t.coupled := by unfold letThrough; split <;> rfl
@[simp] theorem letThrough_buffered (t : SimT) (a : Bool) : (t.letThrough a).buffered = t.buffered := by unfold letThrough; split <;> rfl
@[simp] theorem letThrough_wire (t : SimT) (a : Bool) : (t.letThrough a).wire = t.wire := by unfold letThrough; split <;> rfl
@[simp] theorem letThrough_sentLog (t : SimT) (a : Bool) : (t.letThrough a).sentLog = t.sentLog := by unfold letThrough; split <;> rfl
@[simp] theorem letThrough_inbound (t : SimT) (a : Bool) : (t.letThrough a).inbound = t.inbound := by unfold letThrough; split <;> rfl
@[simp] theorem letThrough_eof (t : SimT) (a : Bool) : (t.letThrough a).eof = t.eof := by unfold letThrough; split <;> rfl
@[simp] theorem letThrough_readyOpen (t : SimT) (a : Bool) : (t.letThrough a).readyOpen = t.readyOpen := by unfold letThrough; split <;> rfl
@[simp] theorem letThrough_flushOpen (t : SimT) (a : Bool) : (t.letThrough a).flushOpen = t.flushOpen := by unfold letThrough; split <;> rfl
@[simp] theorem letThrough_faultReady (t : SimT) (a : Bool) : (t.letThrough a).faultReady = t.faultReady := by unfold letThrough; split <;> rfl
@[simp] theorem letThrough_faultSend (t : SimT) (a : Bool) : (t.letThrough a).faultSend = t.faultSend := by unfold letThrough; split <;> rfl
@[simp] theorem letThrough_faultFlush (t : SimT) (a : Bool) : (t.letThrough a).faultFlush = t.faultFlush := by unfold letThrough; split <;> rfl
@[simp] theorem letThrough_faultClose (t : SimT) (a : Bool) : (t.letThrough a).faultClose = t.faultClose := by unfold letThrough; split <;> rfl
@[simp] theorem letThrough_faultNext (t : SimT) (a : Bool) : (t.letThrough a).faultNext = t.faultNext := by unfold letThrough; split <;> rfl
@[simp] theorem letThrough_selfWake (t : SimT) (a : Bool) : (t.letThrough a).selfWake = t.selfWake := by unfold letThrough; split <;> rfl
@[simp] theorem letThrough_closed (t : SimT) (a : Bool) : (t.letThrough a).closed = t.closed := by unfold letThrough; split <;> rfl
@[simp] theorem letThrough_failed (t : SimT) (a : Bool) : (t.letThrough a).failed = t.failed := by unfold letThrough; split <;> rfl
@[simp] theorem letThrough_gotReady (t : SimT) (a : Bool) : (t.letThrough a).gotReady = t.gotReady := by unfold letThrough; split <;> rfl
@[simp] theorem letThrough_readWaker (t : SimT) (a : Bool) : (t.letThrough a).readWaker = t.readWaker := by unfold letThrough; split <;> rfl
@[simp] theorem letThrough_writeWaker (t : SimT) (a : Bool) : (t.letThrough a).writeWaker = t.writeWaker := by unfold letThrough; split <;> rfl
@[simp] theorem letThrough_violations (t : SimT) (a : Bool) : (t.letThrough a).violations = t.violations := by unfold letThrough; split <;> rfl
@[simp] theorem letThrough_isReadyNow (t : SimT) (a : Bool) : (t.letThrough a).isReadyNow = t.isReadyNow := by
  unfold letThrough; split <;> rfl
@[simp] theorem letThrough_false (t : SimT) : t.letThrough false = t := rfl
@[simp] theorem fires_false (t : SimT) : t.fires false = false := rfl
theorem fires_true (t : SimT) : t.fires true = (t.faultSkip == 0) := by simp [fires]
@[simp] theorem violate_faultSkip (t : SimT) (w : String) : (t.violate w).faultSkip = t.faultSkip := rfl
@[simp] theorem violate_selfWake (t : SimT) (w : String) : (t.violate w).selfWake = t.selfWake := rfl
@[simp] theorem violate_faultNext (t : SimT) (w : String) : (t.violate w).faultNext = t.faultNext := rfl
@[simp] theorem violate_fires (t : SimT) (w : String) (a : Bool) : (t.violate w).fires a = t.fires a := rfl

/-- `useAfter` only records a violation. -/
theorem useAfter_eq (t : SimT) (what : String) :
    t.useAfter what = t ∨
      (t.failed = true ∧ t.useAfter what = t.violate (what ++ "-after-failure")) ∨
      (t.failed = false ∧ t.closed = true ∧ t.useAfter what = t.violate (what ++ "-after-close")) := by
  unfold useAfter
  by_cases hf : t.failed = true
  · simp [hf]
  · by_cases hc : t.closed = true
    · simp [hf, hc]
    · simp [hf, hc]

@[simp] theorem useAfter_closed (t : SimT) (w : String) : (t.useAfter w).closed = t.closed := by
  rcases useAfter_eq t w with h | ⟨_, h⟩ | ⟨_, _, h⟩ <;> rw [h] <;> rfl
@[simp] theorem useAfter_failed (t : SimT) (w : String) : (t.useAfter w).failed = t.failed := by
  rcases useAfter_eq t w with h | ⟨_, h⟩ | ⟨_, _, h⟩ <;> rw [h] <;> rfl
@[simp] theorem useAfter_gotReady (t : SimT) (w : String) : (t.useAfter w).gotReady = t.gotReady := by
  rcases useAfter_eq t w with h | ⟨_, h⟩ | ⟨_, _, h⟩ <;> rw [h] <;> rfl
@[simp] theorem useAfter_buffered (t : SimT) (w : String) : (t.useAfter w).buffered = t.buffered := by
  rcases useAfter_eq t w with h | ⟨_, h⟩ | ⟨_, _, h⟩ <;> rw [h] <;> rfl
@[simp] theorem useAfter_writeWaker (t : SimT) (w : String) : (t.useAfter w).writeWaker = t.writeWaker := by
  rcases useAfter_eq t w with h | ⟨_, h⟩ | ⟨_, _, h⟩ <;> rw [h] <;> rfl
@[simp] theorem useAfter_faultReady (t : SimT) (w : String) : (t.useAfter w).faultReady = t.faultReady := by
  rcases useAfter_eq t w with h | ⟨_, h⟩ | ⟨_, _, h⟩ <;> rw [h] <;> rfl
@[simp] theorem useAfter_faultSend (t : SimT) (w : String) : (t.useAfter w).faultSend = t.faultSend := by
  rcases useAfter_eq t w with h | ⟨_, h⟩ | ⟨_, _, h⟩ <;> rw [h] <;> rfl
@[simp] theorem useAfter_faultFlush (t : SimT) (w : String) : (t.useAfter w).faultFlush = t.faultFlush := by
  rcases useAfter_eq t w with h | ⟨_, h⟩ | ⟨_, _, h⟩ <;> rw [h] <;> rfl
@[simp] theorem useAfter_faultClose (t : SimT) (w : String) : (t.useAfter w).faultClose = t.faultClose := by
  rcases useAfter_eq t w with h | ⟨_, h⟩ | ⟨_, _, h⟩ <;> rw [h] <;> rfl
@[simp] theorem useAfter_coupled (t : SimT) (w : String) : (t.useAfter w).coupled = t.coupled := by
  rcases useAfter_eq t w with h | ⟨_, h⟩ | ⟨_, _, h⟩ <;> rw [h] <;> rfl
@[simp] theorem useAfter_flushOpen (t : SimT) (w : String) : (t.useAfter w).flushOpen = t.flushOpen := by
  rcases useAfter_eq t w with h | ⟨_, h⟩ | ⟨_, _, h⟩ <;> rw [h] <;> rfl
@[simp] theorem useAfter_isReadyNow (t : SimT) (w : String) : (t.useAfter w).isReadyNow = t.isReadyNow := by
  rcases useAfter_eq t w with h | ⟨_, h⟩ | ⟨_, _, h⟩ <;> rw [h] <;> rfl

@[simp] theorem useAfter_faultSkip (t : SimT) (w : String) : (t.useAfter w).faultSkip = t.faultSkip := by
  rcases useAfter_eq t w with h | ⟨_, h⟩ | ⟨_, _, h⟩ <;> rw [h] <;> rfl
@[simp] theorem useAfter_selfWake (t : SimT) (w : String) : (t.useAfter w).selfWake = t.selfWake := by
  rcases useAfter_eq t w with h | ⟨_, h⟩ | ⟨_, _, h⟩ <;> rw [h] <;> rfl
@[simp] theorem useAfter_fires (t : SimT) (w : String) (a : Bool) : (t.useAfter w).fires a = t.fires a := by
  unfold fires; rw [useAfter_faultSkip]

/-- The violations `useAfter what` may add. -/
theorem useAfter_violations (t : SimT) (what : String) :
    (t.useAfter what).violations = t.violations ∨
      (t.failed = true ∧ (t.useAfter what).violations = (what ++ "-after-failure") :: t.violations) ∨
      (t.failed = false ∧ t.closed = true ∧ (t.useAfter what).violations = (what ++ "-after-close") :: t.violations) := by
  rcases useAfter_eq t what with h | ⟨h1, h⟩ | ⟨h1, h2, h⟩
  · exact .inl (by rw [h])
  · exact .inr (.inl ⟨h1, by rw [h]; rfl⟩)
  · exact .inr (.inr ⟨h1, h2, by rw [h]; rfl⟩)

/-- The violations a call of kind `what` adds: a description of every transport call's effect on the log. -/
def Adds (t t' : SimT) (P : String → Prop) : Prop :=
  ∃ l, t'.violations = l ++ t.violations ∧ ∀ w ∈ l, P w

theorem Adds.mono {t t' : SimT} (h : Adds t t' P) : ∀ w ∈ t.violations, w ∈ t'.violations := by
  obtain ⟨l, h1, _⟩ := h; intro w hw; rw [h1]; exact List.mem_append_right _ hw

theorem Adds.mem {t t' : SimT} (h : Adds t t' P) {w : String} (hw : w ∈ t'.violations) :
    w ∈ t.violations ∨ P w := by
  obtain ⟨l, h1, h2⟩ := h; rw [h1] at hw
  rcases List.mem_append.mp hw with h | h
  · exact .inr (h2 _ h)
  · exact .inl h

theorem useAfter_adds (t : SimT) (what : String) :
    Adds t (t.useAfter what) (fun w => (w = what ++ "-after-failure" ∧ t.failed = true) ∨
      (w = what ++ "-after-close" ∧ t.closed = true ∧ t.failed = false)) := by
  rcases useAfter_violations t what with h | ⟨h1, h⟩ | ⟨h1, h2, h⟩
  · exact ⟨[], by simp [h], by simp⟩
  · exact ⟨[what ++ "-after-failure"], by simp [h], by simp [h1]⟩
  · exact ⟨[what ++ "-after-close"], by simp [h], by simp [h1, h2]⟩

/-! #### `pollReady` -/

theorem pollReady_closed (t : SimT) : t.pollReady.1.closed = t.closed := by
  by_cases h1 : t.faultReady = true <;> by_cases h0 : t.faultSkip = 0 <;> by_cases h2 : t.isReadyNow = true <;> simp [pollReady, fires, h0, h1, h2]

theorem pollReady_failed (t : SimT) : t.pollReady.1.failed = (t.failed || t.pollReady.2.1 == .err) := by
  by_cases h1 : t.faultReady = true <;> by_cases h0 : t.faultSkip = 0 <;> by_cases h2 : t.isReadyNow = true <;> simp [pollReady, fires, h0, h1, h2]

theorem pollReady_gotReady (t : SimT) (h : t.pollReady.2.1 = .ready) : t.pollReady.1.gotReady = true := by
  by_cases h1 : t.faultReady = true <;> by_cases h0 : t.faultSkip = 0 <;> by_cases h2 : t.isReadyNow = true <;> simp [pollReady, fires, h0, h1, h2] at h ⊢

theorem pollReady_pending (t : SimT) (h : t.pollReady.2.1 = .pending) : t.pollReady.1.writeWaker = true := by
  by_cases h1 : t.faultReady = true <;> by_cases h0 : t.faultSkip = 0 <;> by_cases h2 : t.isReadyNow = true <;> simp [pollReady, fires, h0, h1, h2] at h ⊢

theorem pollReady_woke (t : SimT) : t.pollReady.2.2 = false := by
  by_cases h1 : t.faultReady = true <;> by_cases h0 : t.faultSkip = 0 <;> by_cases h2 : t.isReadyNow = true <;> simp [pollReady, fires, h0, h1, h2]

theorem pollReady_violations (t : SimT) : t.pollReady.1.violations = (t.useAfter "ready").violations := by
  by_cases h1 : t.faultReady = true <;> by_cases h0 : t.faultSkip = 0 <;> by_cases h2 : t.isReadyNow = true <;> simp [pollReady, fires, h0, h1, h2]

theorem pollReady_buffered (t : SimT) : t.pollReady.1.buffered = t.buffered := by
  by_cases h1 : t.faultReady = true <;> by_cases h0 : t.faultSkip = 0 <;> by_cases h2 : t.isReadyNow = true <;> simp [pollReady, fires, h0, h1, h2]

/-! #### `startSend` -/

theorem startSend_closed (t : SimT) (m : Msg) : (t.startSend m).1.closed = t.closed := by
  by_cases h1 : t.gotReady = true <;> by_cases h2 : t.faultSend = true <;> by_cases h0 : t.faultSkip = 0 <;> simp [startSend, fires, h0, h1, h2]
theorem startSend_failed (t : SimT) (m : Msg) : (t.startSend m).1.failed = t.failed := by
  by_cases h1 : t.gotReady = true <;> by_cases h2 : t.faultSend = true <;> by_cases h0 : t.faultSkip = 0 <;> simp [startSend, fires, h0, h1, h2]
theorem startSend_gotReady (t : SimT) (m : Msg) : (t.startSend m).1.gotReady = false := by
  by_cases h1 : t.gotReady = true <;> by_cases h2 : t.faultSend = true <;> by_cases h0 : t.faultSkip = 0 <;> simp [startSend, fires, h0, h1, h2]

theorem startSend_violations (t : SimT) (m : Msg) : (t.startSend m).1.violations =
    if t.gotReady then (t.useAfter "send").violations else "send-without-ready" :: (t.useAfter "send").violations := by
  by_cases h1 : t.gotReady = true <;> by_cases h2 : t.faultSend = true <;> by_cases h0 : t.faultSkip = 0 <;> simp [startSend, fires, h0, h1, h2]

theorem startSend_adds (t : SimT) (m : Msg) :
    Adds t (t.startSend m).1 (fun w => (w = "send-after-failure" ∧ t.failed = true) ∨
      (w = "send-after-close" ∧ t.closed = true ∧ t.failed = false) ∨
      (w = "send-without-ready" ∧ t.gotReady = false)) := by
  obtain ⟨l, h1, h2⟩ := useAfter_adds t "send"
  have hv := startSend_violations t m
  by_cases hg : t.gotReady = true
  · refine ⟨l, ?_, ?_⟩
    · rw [hv]; simp [hg, h1]
    · intro w hw
      rcases h2 w hw with ⟨e, f⟩ | ⟨e, c, f⟩
      · exact .inl ⟨by rw [e]; decide, f⟩
      · exact .inr (.inl ⟨by rw [e]; decide, c, f⟩)
  · refine ⟨"send-without-ready" :: l, ?_, ?_⟩
    · rw [hv]; simp [hg, h1]
    · intro w hw
      rcases List.mem_cons.mp hw with e | hw
      · exact .inr (.inr ⟨e, by simpa using hg⟩)
      · rcases h2 w hw with ⟨e, f⟩ | ⟨e, c, f⟩
        · exact .inl ⟨by rw [e]; decide, f⟩
        · exact .inr (.inl ⟨by rw [e]; decide, c, f⟩)

theorem startSend_buffered (t : SimT) (m : Msg) :
    (t.startSend m).1.buffered = if (t.startSend m).2 then t.buffered ++ [m] else t.buffered := by
  by_cases h1 : t.gotReady = true <;> by_cases h2 : t.faultSend = true <;> by_cases h0 : t.faultSkip = 0 <;> simp [startSend, fires, h0, h1, h2]

/-! #### `drain`, `pollFlush`, `pollClose` -/

theorem drain_closed (t : SimT) : t.drain.1.closed = t.closed := by unfold drain; simp only; split <;> rfl
theorem drain_failed (t : SimT) : t.drain.1.failed = t.failed := by unfold drain; simp only; split <;> rfl
theorem drain_violations (t : SimT) : t.drain.1.violations = t.violations := by unfold drain; simp only; split <;> rfl
theorem drain_buffered (t : SimT) : t.drain.1.buffered = [] := by unfold drain; simp only; split <;> rfl
theorem drain_gotReady (t : SimT) : t.drain.1.gotReady = t.gotReady := by unfold drain; simp only; split <;> rfl

theorem pollFlush_closed (t : SimT) : t.pollFlush.1.closed = t.closed := by
  by_cases h1 : t.faultFlush = true <;> by_cases h0 : t.faultSkip = 0 <;>
    by_cases h2 : (t.coupled && !t.flushOpen && !t.buffered.isEmpty) = true <;>
    simp [pollFlush, fires, h0, h1, h2, drain_closed]

theorem pollFlush_failed (t : SimT) : t.pollFlush.1.failed = (t.failed || t.pollFlush.2.1 == .err) := by
  by_cases h1 : t.faultFlush = true <;> by_cases h0 : t.faultSkip = 0 <;>
    by_cases h2 : (t.coupled && !t.flushOpen && !t.buffered.isEmpty) = true <;>
    simp [pollFlush, fires, h0, h1, h2, drain_failed]

theorem pollFlush_violations (t : SimT) : t.pollFlush.1.violations = (t.useAfter "flush").violations := by
  by_cases h1 : t.faultFlush = true <;> by_cases h0 : t.faultSkip = 0 <;>
    by_cases h2 : (t.coupled && !t.flushOpen && !t.buffered.isEmpty) = true <;>
    simp [pollFlush, fires, h0, h1, h2, drain_violations]

/-- After a flush that did not fail, nothing is left buffered or the waker is registered. -/
theorem pollFlush_flushed (t : SimT) :
    (t.pollFlush.2.1 = .pending → t.pollFlush.1.writeWaker = true) ∧
    (t.pollFlush.2.1 = .ready → t.pollFlush.1.buffered = []) := by
  by_cases h1 : t.faultFlush = true <;> by_cases h0 : t.faultSkip = 0 <;>
    by_cases h2 : (t.coupled && !t.flushOpen && !t.buffered.isEmpty) = true <;>
    simp [pollFlush, fires, h0, h1, h2, drain_buffered]

theorem pollClose_closed (t : SimT) : t.pollClose.1.closed = (t.closed || t.pollClose.2.1 == .ready) := by
  by_cases h1 : t.faultClose = true <;> by_cases h0 : t.faultSkip = 0 <;>
    by_cases h2 : (t.coupled && !t.flushOpen && !t.buffered.isEmpty) = true <;>
    simp [pollClose, fires, h0, h1, h2]

theorem pollClose_failed (t : SimT) : t.pollClose.1.failed = (t.failed || t.pollClose.2.1 == .err) := by
  by_cases h1 : t.faultClose = true <;> by_cases h0 : t.faultSkip = 0 <;>
    by_cases h2 : (t.coupled && !t.flushOpen && !t.buffered.isEmpty) = true <;>
    simp [pollClose, fires, h0, h1, h2, drain_failed]

theorem pollClose_violations (t : SimT) : t.pollClose.1.violations = (t.useAfter "close").violations := by
  by_cases h1 : t.faultClose = true <;> by_cases h0 : t.faultSkip = 0 <;>
    by_cases h2 : (t.coupled && !t.flushOpen && !t.buffered.isEmpty) = true <;>
    simp [pollClose, fires, h0, h1, h2, drain_violations]

theorem pollClose_flushed (t : SimT) :
    (t.pollClose.2.1 = .pending → t.pollClose.1.writeWaker = true) ∧
    (t.pollClose.2.1 = .ready → t.pollClose.1.buffered = []) := by
  by_cases h1 : t.faultClose = true <;> by_cases h0 : t.faultSkip = 0 <;>
    by_cases h2 : (t.coupled && !t.flushOpen && !t.buffered.isEmpty) = true <;>
    simp [pollClose, fires, h0, h1, h2, drain_buffered]

/-! #### `pollNext` -/

theorem pollNext_closed (t : SimT) : t.pollNext.1.closed = t.closed := by
  unfold pollNext; split
  · rfl
  · simp only; split
    · simp
    · simp
    · split <;> simp
theorem pollNext_failed (t : SimT) : t.pollNext.1.failed = t.failed := by
  unfold pollNext; split
  · rfl
  · simp only; split
    · simp
    · simp
    · split <;> simp
theorem pollNext_violations (t : SimT) : t.pollNext.1.violations = t.violations := by
  unfold pollNext; split
  · rfl
  · simp only; split
    · simp
    · simp
    · split <;> simp
theorem pollNext_gotReady (t : SimT) : t.pollNext.1.gotReady = t.gotReady := by
  unfold pollNext; split
  · rfl
  · simp only; split
    · simp
    · simp
    · split <;> simp
theorem pollNext_buffered (t : SimT) : t.pollNext.1.buffered = t.buffered := by
  unfold pollNext; split
  · rfl
  · simp only; split
    · simp
    · simp
    · split <;> simp
theorem pollNext_writeWaker (t : SimT) : t.pollNext.1.writeWaker = t.writeWaker := by
  unfold pollNext; split
  · rfl
  · simp only; split
    · simp
    · simp
    · split <;> simp

/-! #### the write-side calls leave the read side alone -/

theorem useAfter_inbound (t : SimT) (w : String) : (t.useAfter w).inbound = t.inbound := by
  rcases useAfter_eq t w with h | ⟨_, h⟩ | ⟨_, _, h⟩ <;> rw [h] <;> rfl

theorem pollReady_inbound (t : SimT) : t.pollReady.1.inbound = t.inbound := by
  by_cases h1 : t.faultReady = true <;> by_cases h0 : t.faultSkip = 0 <;> by_cases h2 : t.isReadyNow = true <;>
    simp [pollReady, fires, h0, h1, h2, useAfter_inbound]

theorem startSend_inbound (t : SimT) (m : Msg) : (t.startSend m).1.inbound = t.inbound := by
  by_cases h1 : t.gotReady = true <;> by_cases h2 : t.faultSend = true <;> by_cases h0 : t.faultSkip = 0 <;>
    simp [startSend, fires, h0, violate, h1, h2, useAfter_inbound]

theorem drain_inbound (t : SimT) : t.drain.1.inbound = t.inbound := by unfold drain; simp only; split <;> rfl

theorem pollFlush_inbound (t : SimT) : t.pollFlush.1.inbound = t.inbound := by
  by_cases h1 : t.faultFlush = true <;> by_cases h0 : t.faultSkip = 0 <;>
    by_cases h2 : (t.coupled && !t.flushOpen && !t.buffered.isEmpty) = true <;>
    simp [pollFlush, fires, h0, h1, h2, drain_inbound, useAfter_inbound]

theorem pollClose_inbound (t : SimT) : t.pollClose.1.inbound = t.inbound := by
  by_cases h1 : t.faultClose = true <;> by_cases h0 : t.faultSkip = 0 <;>
    by_cases h2 : (t.coupled && !t.flushOpen && !t.buffered.isEmpty) = true <;>
    simp [pollClose, fires, h0, h1, h2, drain_inbound, useAfter_inbound]

end SimT


/-! ### the common shape of `tReady / tFlush / tClose / tSend` -/

theorem emitViolations_foldl (ws : List String) (s : St) :
    ws.foldl (fun s w => emit s (.tViolation (tid s) w)) s =
      { s with obs := (ws.map (fun w => Obs.tViolation (tid s) w)).reverse ++ s.obs } := by
  induction ws generalizing s with
  | nil => rfl
  | cons w ws ih => rw [List.foldl_cons, ih]; simp [emit, tid]

/-- `emitViolations` only extends `obs`, by the violations recorded since the log had length `n`. -/
theorem emitViolations_eq (s : St) (n : Nat) : emitViolations s n =
    { s with obs := (s.t.violations.take (s.t.violations.length - n)).map (fun w => Obs.tViolation (tid s) w) ++ s.obs } := by
  unfold emitViolations; rw [emitViolations_foldl]; simp

/-- What each of `tReady/tFlush/tClose/tSend` does to the state once the transport has answered. -/
def tEmit (s : St) (t' : SimT) (o : Obs) (w : Bool) : St :=
  let s1 := emit (emitViolations { s with t := t' } s.t.violations.length) o
  if w then wakeDispatch s1 else s1

theorem tReady_eq (s : St) : tReady s =
    (tEmit s s.t.pollReady.1 (.tReady (tid s) s.t.pollReady.2.1) s.t.pollReady.2.2, s.t.pollReady.2.1) := rfl
theorem tFlush_eq (s : St) : tFlush s =
    (tEmit s s.t.pollFlush.1 (.tFlush (tid s) s.t.pollFlush.2.1) s.t.pollFlush.2.2, s.t.pollFlush.2.1) := rfl
theorem tClose_eq (s : St) : tClose s =
    (tEmit s s.t.pollClose.1 (.tClose (tid s) s.t.pollClose.2.1) s.t.pollClose.2.2, s.t.pollClose.2.1) := rfl
theorem tSend_eq (s : St) (m : Msg) : tSend s m =
    (tEmit s (s.t.startSend m).1 (.tSend (tid s) m (s.t.startSend m).2) false, (s.t.startSend m).2) := rfl

/-- The observations for the violations the call just recorded. -/
def newViolObs (s : St) (t' : SimT) : List Obs :=
  (t'.violations.take (t'.violations.length - s.t.violations.length)).map (fun w => Obs.tViolation (tid s) w)

theorem mem_newViolObs {s : St} {t' : SimT} {x : Obs} (h : x ∈ newViolObs s t') :
    ∃ v ∈ t'.violations, x = .tViolation (tid s) v := by
  obtain ⟨v, hv, rfl⟩ := List.mem_map.mp h
  exact ⟨v, List.mem_of_mem_take hv, rfl⟩

/-- `tEmit` as an explicit record update. -/
theorem tEmit_eq' (s : St) (t' : SimT) (o : Obs) (w : Bool) : tEmit s t' o w =
    if (w && !(s.dDropped || s.done.isSome)) = true then
      { s with t := t', obs := .wake (.dispatch s.k) :: o :: (newViolObs s t' ++ s.obs), dWoken := true }
    else { s with t := t', obs := o :: (newViolObs s t' ++ s.obs) } := by
  unfold tEmit
  simp only [emitViolations_eq]
  cases w
  · simp [emit, newViolObs, tid]
  · by_cases h : (s.dDropped || s.done.isSome) = true
    · simp [emit, newViolObs, tid, wakeDispatch, h]
    · simp [emit, newViolObs, tid, wakeDispatch, h]

theorem tEmit_eq (s : St) (t' : SimT) (o : Obs) (w : Bool) :
    ∃ l dw, tEmit s t' o w = { s with t := t', obs := l ++ s.obs, dWoken := dw } ∧
      (∀ x ∈ l, x = o ∨ x = .wake (.dispatch s.k) ∨ ∃ v ∈ t'.violations, x = .tViolation (tid s) v) ∧
      (isT o = true → (l.filter isT).head? = some o) := by
  rw [tEmit_eq']
  split
  · refine ⟨.wake (.dispatch s.k) :: o :: newViolObs s t', true, rfl, ?_, ?_⟩
    · intro x hx
      rcases List.mem_cons.mp hx with h | hx
      · exact .inr (.inl h)
      rcases List.mem_cons.mp hx with h | h
      · exact .inl h
      · exact .inr (.inr (mem_newViolObs h))
    · intro ho; simp [ho]
  · refine ⟨o :: newViolObs s t', s.dWoken, rfl, ?_, ?_⟩
    · intro x hx
      rcases List.mem_cons.mp hx with h | h
      · exact .inl h
      · exact .inr (.inr (mem_newViolObs h))
    · intro ho; simp [ho]

/-! ### field frames of the transport calls (generated) -/

@[simp] theorem tEmit_t (s : St) (t' : SimT) (o : Obs) (w : Bool) : (tEmit s t' o w).t = t' := by
  rw [tEmit_eq']; split <;> rfl
@[simp] theorem tEmit_k (s : St) (t' : SimT) (o : Obs) (w : Bool) : (tEmit s t' o w).k = s.k := by
  rw [tEmit_eq']; split <;> rfl
@[simp] theorem tEmit_maxInFlight (s : St) (t' : SimT) (o : Obs) (w : Bool) : (tEmit s t' o w).maxInFlight = s.maxInFlight := by
  rw [tEmit_eq']; split <;> rfl
@[simp] theorem tEmit_bufCap (s : St) (t' : SimT) (o : Obs) (w : Bool) : (tEmit s t' o w).bufCap = s.bufCap := by
  rw [tEmit_eq']; split <;> rfl
@[simp] theorem tEmit_ensureLoop (s : St) (t' : SimT) (o : Obs) (w : Bool) : (tEmit s t' o w).ensureLoop = s.ensureLoop := by
  rw [tEmit_eq']; split <;> rfl
@[simp] theorem tEmit_handles (s : St) (t' : SimT) (o : Obs) (w : Bool) : (tEmit s t' o w).handles = s.handles := by
  rw [tEmit_eq']; split <;> rfl
@[simp] theorem tEmit_nextHandle (s : St) (t' : SimT) (o : Obs) (w : Bool) : (tEmit s t' o w).nextHandle = s.nextHandle := by
  rw [tEmit_eq']; split <;> rfl
@[simp] theorem tEmit_nextId (s : St) (t' : SimT) (o : Obs) (w : Bool) : (tEmit s t' o w).nextId = s.nextId := by
  rw [tEmit_eq']; split <;> rfl
@[simp] theorem tEmit_nextFresh (s : St) (t' : SimT) (o : Obs) (w : Bool) : (tEmit s t' o w).nextFresh = s.nextFresh := by
  rw [tEmit_eq']; split <;> rfl
@[simp] theorem tEmit_calls (s : St) (t' : SimT) (o : Obs) (w : Bool) : (tEmit s t' o w).calls = s.calls := by
  rw [tEmit_eq']; split <;> rfl
@[simp] theorem tEmit_pq (s : St) (t' : SimT) (o : Obs) (w : Bool) : (tEmit s t' o w).pq = s.pq := by
  rw [tEmit_eq']; split <;> rfl
@[simp] theorem tEmit_pqAvail (s : St) (t' : SimT) (o : Obs) (w : Bool) : (tEmit s t' o w).pqAvail = s.pqAvail := by
  rw [tEmit_eq']; split <;> rfl
@[simp] theorem tEmit_pqWaiters (s : St) (t' : SimT) (o : Obs) (w : Bool) : (tEmit s t' o w).pqWaiters = s.pqWaiters := by
  rw [tEmit_eq']; split <;> rfl
@[simp] theorem tEmit_pqAssigned (s : St) (t' : SimT) (o : Obs) (w : Bool) : (tEmit s t' o w).pqAssigned = s.pqAssigned := by
  rw [tEmit_eq']; split <;> rfl
@[simp] theorem tEmit_pqClosed (s : St) (t' : SimT) (o : Obs) (w : Bool) : (tEmit s t' o w).pqClosed = s.pqClosed := by
  rw [tEmit_eq']; split <;> rfl
@[simp] theorem tEmit_pqRxWaker (s : St) (t' : SimT) (o : Obs) (w : Bool) : (tEmit s t' o w).pqRxWaker = s.pqRxWaker := by
  rw [tEmit_eq']; split <;> rfl
@[simp] theorem tEmit_cq (s : St) (t' : SimT) (o : Obs) (w : Bool) : (tEmit s t' o w).cq = s.cq := by
  rw [tEmit_eq']; split <;> rfl
@[simp] theorem tEmit_cqRxWaker (s : St) (t' : SimT) (o : Obs) (w : Bool) : (tEmit s t' o w).cqRxWaker = s.cqRxWaker := by
  rw [tEmit_eq']; split <;> rfl
@[simp] theorem tEmit_inflight (s : St) (t' : SimT) (o : Obs) (w : Bool) : (tEmit s t' o w).inflight = s.inflight := by
  rw [tEmit_eq']; split <;> rfl
@[simp] theorem tEmit_timers (s : St) (t' : SimT) (o : Obs) (w : Bool) : (tEmit s t' o w).timers = s.timers := by
  rw [tEmit_eq']; split <;> rfl
@[simp] theorem tEmit_termErr (s : St) (t' : SimT) (o : Obs) (w : Bool) : (tEmit s t' o w).termErr = s.termErr := by
  rw [tEmit_eq']; split <;> rfl
@[simp] theorem tEmit_readFused (s : St) (t' : SimT) (o : Obs) (w : Bool) : (tEmit s t' o w).readFused = s.readFused := by
  rw [tEmit_eq']; split <;> rfl
@[simp] theorem tEmit_done (s : St) (t' : SimT) (o : Obs) (w : Bool) : (tEmit s t' o w).done = s.done := by
  rw [tEmit_eq']; split <;> rfl
@[simp] theorem tEmit_dDropped (s : St) (t' : SimT) (o : Obs) (w : Bool) : (tEmit s t' o w).dDropped = s.dDropped := by
  rw [tEmit_eq']; split <;> rfl
@[simp] theorem tEmit_poisoned (s : St) (t' : SimT) (o : Obs) (w : Bool) : (tEmit s t' o w).poisoned = s.poisoned := by
  rw [tEmit_eq']; split <;> rfl
@[simp] theorem tReady_nextHandle (s : St) : (tReady s).1.nextHandle = s.nextHandle := by rw [tReady_eq]; exact tEmit_nextHandle _ _ _ _
@[simp] theorem tReady_nextId (s : St) : (tReady s).1.nextId = s.nextId := by rw [tReady_eq]; exact tEmit_nextId _ _ _ _
@[simp] theorem tReady_nextFresh (s : St) : (tReady s).1.nextFresh = s.nextFresh := by rw [tReady_eq]; exact tEmit_nextFresh _ _ _ _
@[simp] theorem tReady_calls (s : St) : (tReady s).1.calls = s.calls := by rw [tReady_eq]; exact tEmit_calls _ _ _ _
@[simp] theorem tReady_pq (s : St) : (tReady s).1.pq = s.pq := by rw [tReady_eq]; exact tEmit_pq _ _ _ _
@[simp] theorem tReady_pqAvail (s : St) : (tReady s).1.pqAvail = s.pqAvail := by rw [tReady_eq]; exact tEmit_pqAvail _ _ _ _
@[simp] theorem tReady_pqWaiters (s : St) : (tReady s).1.pqWaiters = s.pqWaiters := by rw [tReady_eq]; exact tEmit_pqWaiters _ _ _ _
@[simp] theorem tReady_pqAssigned (s : St) : (tReady s).1.pqAssigned = s.pqAssigned := by rw [tReady_eq]; exact tEmit_pqAssigned _ _ _ _
@[simp] theorem tReady_pqClosed (s : St) : (tReady s).1.pqClosed = s.pqClosed := by rw [tReady_eq]; exact tEmit_pqClosed _ _ _ _
@[simp] theorem tReady_pqRxWaker (s : St) : (tReady s).1.pqRxWaker = s.pqRxWaker := by rw [tReady_eq]; exact tEmit_pqRxWaker _ _ _ _
@[simp] theorem tReady_cq (s : St) : (tReady s).1.cq = s.cq := by rw [tReady_eq]; exact tEmit_cq _ _ _ _
@[simp] theorem tReady_cqRxWaker (s : St) : (tReady s).1.cqRxWaker = s.cqRxWaker := by rw [tReady_eq]; exact tEmit_cqRxWaker _ _ _ _
@[simp] theorem tReady_inflight (s : St) : (tReady s).1.inflight = s.inflight := by rw [tReady_eq]; exact tEmit_inflight _ _ _ _
@[simp] theorem tReady_timers (s : St) : (tReady s).1.timers = s.timers := by rw [tReady_eq]; exact tEmit_timers _ _ _ _
@[simp] theorem tReady_termErr (s : St) : (tReady s).1.termErr = s.termErr := by rw [tReady_eq]; exact tEmit_termErr _ _ _ _
@[simp] theorem tReady_readFused (s : St) : (tReady s).1.readFused = s.readFused := by rw [tReady_eq]; exact tEmit_readFused _ _ _ _
@[simp] theorem tReady_done (s : St) : (tReady s).1.done = s.done := by rw [tReady_eq]; exact tEmit_done _ _ _ _
@[simp] theorem tReady_dDropped (s : St) : (tReady s).1.dDropped = s.dDropped := by rw [tReady_eq]; exact tEmit_dDropped _ _ _ _
@[simp] theorem tReady_poisoned (s : St) : (tReady s).1.poisoned = s.poisoned := by rw [tReady_eq]; exact tEmit_poisoned _ _ _ _
@[simp] theorem tFlush_nextHandle (s : St) : (tFlush s).1.nextHandle = s.nextHandle := by rw [tFlush_eq]; exact tEmit_nextHandle _ _ _ _
@[simp] theorem tFlush_nextId (s : St) : (tFlush s).1.nextId = s.nextId := by rw [tFlush_eq]; exact tEmit_nextId _ _ _ _
@[simp] theorem tFlush_nextFresh (s : St) : (tFlush s).1.nextFresh = s.nextFresh := by rw [tFlush_eq]; exact tEmit_nextFresh _ _ _ _
@[simp] theorem tFlush_calls (s : St) : (tFlush s).1.calls = s.calls := by rw [tFlush_eq]; exact tEmit_calls _ _ _ _
@[simp] theorem tFlush_pq (s : St) : (tFlush s).1.pq = s.pq := by rw [tFlush_eq]; exact tEmit_pq _ _ _ _
@[simp] theorem tFlush_pqAvail (s : St) : (tFlush s).1.pqAvail = s.pqAvail := by rw [tFlush_eq]; exact tEmit_pqAvail _ _ _ _
@[simp] theorem tFlush_pqWaiters (s : St) : (tFlush s).1.pqWaiters = s.pqWaiters := by rw [tFlush_eq]; exact tEmit_pqWaiters _ _ _ _
@[simp] theorem tFlush_pqAssigned (s : St) : (tFlush s).1.pqAssigned = s.pqAssigned := by rw [tFlush_eq]; exact tEmit_pqAssigned _ _ _ _
@[simp] theorem tFlush_pqClosed (s : St) : (tFlush s).1.pqClosed = s.pqClosed := by rw [tFlush_eq]; exact tEmit_pqClosed _ _ _ _
@[simp] theorem tFlush_pqRxWaker (s : St) : (tFlush s).1.pqRxWaker = s.pqRxWaker := by rw [tFlush_eq]; exact tEmit_pqRxWaker _ _ _ _
@[simp] theorem tFlush_cq (s : St) : (tFlush s).1.cq = s.cq := by rw [tFlush_eq]; exact tEmit_cq _ _ _ _
@[simp] theorem tFlush_cqRxWaker (s : St) : (tFlush s).1.cqRxWaker = s.cqRxWaker := by rw [tFlush_eq]; exact tEmit_cqRxWaker _ _ _ _
@[simp] theorem tFlush_inflight (s : St) : (tFlush s).1.inflight = s.inflight := by rw [tFlush_eq]; exact tEmit_inflight _ _ _ _
@[simp] theorem tFlush_timers (s : St) : (tFlush s).1.timers = s.timers := by rw [tFlush_eq]; exact tEmit_timers _ _ _ _
@[simp] theorem tFlush_termErr (s : St) : (tFlush s).1.termErr = s.termErr := by rw [tFlush_eq]; exact tEmit_termErr _ _ _ _
@[simp] theorem tFlush_readFused (s : St) : (tFlush s).1.readFused = s.readFused := by rw [tFlush_eq]; exact tEmit_readFused _ _ _ _
@[simp] theorem tFlush_done (s : St) : (tFlush s).1.done = s.done := by rw [tFlush_eq]; exact tEmit_done _ _ _ _
@[simp] theorem tFlush_dDropped (s : St) : (tFlush s).1.dDropped = s.dDropped := by rw [tFlush_eq]; exact tEmit_dDropped _ _ _ _
@[simp] theorem tFlush_poisoned (s : St) : (tFlush s).1.poisoned = s.poisoned := by rw [tFlush_eq]; exact tEmit_poisoned _ _ _ _
@[simp] theorem tClose_nextHandle (s : St) : (tClose s).1.nextHandle = s.nextHandle := by rw [tClose_eq]; exact tEmit_nextHandle _ _ _ _
@[simp] theorem tClose_nextId (s : St) : (tClose s).1.nextId = s.nextId := by rw [tClose_eq]; exact tEmit_nextId _ _ _ _
@[simp] theorem tClose_nextFresh (s : St) : (tClose s).1.nextFresh = s.nextFresh := by rw [tClose_eq]; exact tEmit_nextFresh _ _ _ _
@[simp] theorem tClose_calls (s : St) : (tClose s).1.calls = s.calls := by rw [tClose_eq]; exact tEmit_calls _ _ _ _
@[simp] theorem tClose_pq (s : St) : (tClose s).1.pq = s.pq := by rw [tClose_eq]; exact tEmit_pq _ _ _ _
@[simp] theorem tClose_pqAvail (s : St) : (tClose s).1.pqAvail = s.pqAvail := by rw [tClose_eq]; exact tEmit_pqAvail _ _ _ _
@[simp] theorem tClose_pqWaiters (s : St) : (tClose s).1.pqWaiters = s.pqWaiters := by rw [tClose_eq]; exact tEmit_pqWaiters _ _ _ _
@[simp] theorem tClose_pqAssigned (s : St) : (tClose s).1.pqAssigned = s.pqAssigned := by rw [tClose_eq]; exact tEmit_pqAssigned _ _ _ _
@[simp] theorem tClose_pqClosed (s : St) : (tClose s).1.pqClosed = s.pqClosed := by rw [tClose_eq]; exact tEmit_pqClosed _ _ _ _
@[simp] theorem tClose_pqRxWaker (s : St) : (tClose s).1.pqRxWaker = s.pqRxWaker := by rw [tClose_eq]; exact tEmit_pqRxWaker _ _ _ _
@[simp] theorem tClose_cq (s : St) : (tClose s).1.cq = s.cq := by rw [tClose_eq]; exact tEmit_cq _ _ _ _
@[simp] theorem tClose_cqRxWaker (s : St) : (tClose s).1.cqRxWaker = s.cqRxWaker := by rw [tClose_eq]; exact tEmit_cqRxWaker _ _ _ _
@[simp] theorem tClose_inflight (s : St) : (tClose s).1.inflight = s.inflight := by rw [tClose_eq]; exact tEmit_inflight _ _ _ _
@[simp] theorem tClose_timers (s : St) : (tClose s).1.timers = s.timers := by rw [tClose_eq]; exact tEmit_timers _ _ _ _
@[simp] theorem tClose_termErr (s : St) : (tClose s).1.termErr = s.termErr := by rw [tClose_eq]; exact tEmit_termErr _ _ _ _
@[simp] theorem tClose_readFused (s : St) : (tClose s).1.readFused = s.readFused := by rw [tClose_eq]; exact tEmit_readFused _ _ _ _
@[simp] theorem tClose_done (s : St) : (tClose s).1.done = s.done := by rw [tClose_eq]; exact tEmit_done _ _ _ _
@[simp] theorem tClose_dDropped (s : St) : (tClose s).1.dDropped = s.dDropped := by rw [tClose_eq]; exact tEmit_dDropped _ _ _ _
@[simp] theorem tClose_poisoned (s : St) : (tClose s).1.poisoned = s.poisoned := by rw [tClose_eq]; exact tEmit_poisoned _ _ _ _
@[simp] theorem tSend_nextHandle (s : St) (m : Msg) : (tSend s m).1.nextHandle = s.nextHandle := by rw [tSend_eq]; exact tEmit_nextHandle _ _ _ _
@[simp] theorem tSend_nextId (s : St) (m : Msg) : (tSend s m).1.nextId = s.nextId := by rw [tSend_eq]; exact tEmit_nextId _ _ _ _
@[simp] theorem tSend_nextFresh (s : St) (m : Msg) : (tSend s m).1.nextFresh = s.nextFresh := by rw [tSend_eq]; exact tEmit_nextFresh _ _ _ _
@[simp] theorem tSend_calls (s : St) (m : Msg) : (tSend s m).1.calls = s.calls := by rw [tSend_eq]; exact tEmit_calls _ _ _ _
@[simp] theorem tSend_pq (s : St) (m : Msg) : (tSend s m).1.pq = s.pq := by rw [tSend_eq]; exact tEmit_pq _ _ _ _
@[simp] theorem tSend_pqAvail (s : St) (m : Msg) : (tSend s m).1.pqAvail = s.pqAvail := by rw [tSend_eq]; exact tEmit_pqAvail _ _ _ _
@[simp] theorem tSend_pqWaiters (s : St) (m : Msg) : (tSend s m).1.pqWaiters = s.pqWaiters := by rw [tSend_eq]; exact tEmit_pqWaiters _ _ _ _
@[simp] theorem tSend_pqAssigned (s : St) (m : Msg) : (tSend s m).1.pqAssigned = s.pqAssigned := by rw [tSend_eq]; exact tEmit_pqAssigned _ _ _ _
@[simp] theorem tSend_pqClosed (s : St) (m : Msg) : (tSend s m).1.pqClosed = s.pqClosed := by rw [tSend_eq]; exact tEmit_pqClosed _ _ _ _
@[simp] theorem tSend_pqRxWaker (s : St) (m : Msg) : (tSend s m).1.pqRxWaker = s.pqRxWaker := by rw [tSend_eq]; exact tEmit_pqRxWaker _ _ _ _
@[simp] theorem tSend_cq (s : St) (m : Msg) : (tSend s m).1.cq = s.cq := by rw [tSend_eq]; exact tEmit_cq _ _ _ _
@[simp] theorem tSend_cqRxWaker (s : St) (m : Msg) : (tSend s m).1.cqRxWaker = s.cqRxWaker := by rw [tSend_eq]; exact tEmit_cqRxWaker _ _ _ _
@[simp] theorem tSend_inflight (s : St) (m : Msg) : (tSend s m).1.inflight = s.inflight := by rw [tSend_eq]; exact tEmit_inflight _ _ _ _
@[simp] theorem tSend_timers (s : St) (m : Msg) : (tSend s m).1.timers = s.timers := by rw [tSend_eq]; exact tEmit_timers _ _ _ _
@[simp] theorem tSend_termErr (s : St) (m : Msg) : (tSend s m).1.termErr = s.termErr := by rw [tSend_eq]; exact tEmit_termErr _ _ _ _
@[simp] theorem tSend_readFused (s : St) (m : Msg) : (tSend s m).1.readFused = s.readFused := by rw [tSend_eq]; exact tEmit_readFused _ _ _ _
@[simp] theorem tSend_done (s : St) (m : Msg) : (tSend s m).1.done = s.done := by rw [tSend_eq]; exact tEmit_done _ _ _ _
@[simp] theorem tSend_dDropped (s : St) (m : Msg) : (tSend s m).1.dDropped = s.dDropped := by rw [tSend_eq]; exact tEmit_dDropped _ _ _ _
@[simp] theorem tSend_poisoned (s : St) (m : Msg) : (tSend s m).1.poisoned = s.poisoned := by rw [tSend_eq]; exact tEmit_poisoned _ _ _ _

@[simp] theorem tReady_t (s : St) : (tReady s).1.t = s.t.pollReady.1 := by rw [tReady_eq]; exact tEmit_t _ _ _ _
@[simp] theorem tFlush_t (s : St) : (tFlush s).1.t = s.t.pollFlush.1 := by rw [tFlush_eq]; exact tEmit_t _ _ _ _
@[simp] theorem tClose_t (s : St) : (tClose s).1.t = s.t.pollClose.1 := by rw [tClose_eq]; exact tEmit_t _ _ _ _
@[simp] theorem tSend_t (s : St) (m : Msg) : (tSend s m).1.t = (s.t.startSend m).1 := by rw [tSend_eq]; exact tEmit_t _ _ _ _
@[simp] theorem tReady_res (s : St) : (tReady s).2 = s.t.pollReady.2.1 := rfl
@[simp] theorem tFlush_res (s : St) : (tFlush s).2 = s.t.pollFlush.2.1 := rfl
@[simp] theorem tClose_res (s : St) : (tClose s).2 = s.t.pollClose.2.1 := rfl
@[simp] theorem tSend_res (s : St) (m : Msg) : (tSend s m).2 = (s.t.startSend m).2 := rfl

/-- `tNext` as an explicit record update. -/
theorem tNext_eq (s : St) : tNext s =
    if s.readFused = true then (s, .eof)
    else ({ s with t := s.t.pollNext.1, obs := .tNext (tid s) s.t.pollNext.2 :: s.obs,
                   readFused := (s.t.pollNext.2 == .eof) }, s.t.pollNext.2) := by
  unfold tNext
  by_cases hf : s.readFused = true
  · simp [hf]
  · simp only [hf, Bool.false_eq_true, ↓reduceIte, emit]
    by_cases he : (s.t.pollNext.2 == .eof) = true
    · simp [he]
    · have : s.readFused = false := by simpa using hf
      simp [he]

@[simp] theorem tNext_nextHandle (s : St) : (tNext s).1.nextHandle = s.nextHandle := by rw [tNext_eq]; split <;> rfl
@[simp] theorem tNext_nextId (s : St) : (tNext s).1.nextId = s.nextId := by rw [tNext_eq]; split <;> rfl
@[simp] theorem tNext_nextFresh (s : St) : (tNext s).1.nextFresh = s.nextFresh := by rw [tNext_eq]; split <;> rfl
@[simp] theorem tNext_calls (s : St) : (tNext s).1.calls = s.calls := by rw [tNext_eq]; split <;> rfl
@[simp] theorem tNext_pq (s : St) : (tNext s).1.pq = s.pq := by rw [tNext_eq]; split <;> rfl
@[simp] theorem tNext_pqAvail (s : St) : (tNext s).1.pqAvail = s.pqAvail := by rw [tNext_eq]; split <;> rfl
@[simp] theorem tNext_pqWaiters (s : St) : (tNext s).1.pqWaiters = s.pqWaiters := by rw [tNext_eq]; split <;> rfl
@[simp] theorem tNext_pqAssigned (s : St) : (tNext s).1.pqAssigned = s.pqAssigned := by rw [tNext_eq]; split <;> rfl
@[simp] theorem tNext_pqClosed (s : St) : (tNext s).1.pqClosed = s.pqClosed := by rw [tNext_eq]; split <;> rfl
@[simp] theorem tNext_pqRxWaker (s : St) : (tNext s).1.pqRxWaker = s.pqRxWaker := by rw [tNext_eq]; split <;> rfl
@[simp] theorem tNext_cq (s : St) : (tNext s).1.cq = s.cq := by rw [tNext_eq]; split <;> rfl
@[simp] theorem tNext_cqRxWaker (s : St) : (tNext s).1.cqRxWaker = s.cqRxWaker := by rw [tNext_eq]; split <;> rfl
@[simp] theorem tNext_inflight (s : St) : (tNext s).1.inflight = s.inflight := by rw [tNext_eq]; split <;> rfl
@[simp] theorem tNext_timers (s : St) : (tNext s).1.timers = s.timers := by rw [tNext_eq]; split <;> rfl
@[simp] theorem tNext_termErr (s : St) : (tNext s).1.termErr = s.termErr := by rw [tNext_eq]; split <;> rfl
@[simp] theorem tNext_done (s : St) : (tNext s).1.done = s.done := by rw [tNext_eq]; split <;> rfl
@[simp] theorem tNext_dDropped (s : St) : (tNext s).1.dDropped = s.dDropped := by rw [tNext_eq]; split <;> rfl
@[simp] theorem tNext_dWoken (s : St) : (tNext s).1.dWoken = s.dWoken := by rw [tNext_eq]; split <;> rfl
@[simp] theorem tNext_poisoned (s : St) : (tNext s).1.poisoned = s.poisoned := by rw [tNext_eq]; split <;> rfl

/-! ### FrameW: what the whole write pump leaves alone -/

/-- The write pump does not touch the read fuse, the terminal error or the inbound queue. -/
structure FrameW (s s' : St) : Prop where
  readFused : s'.readFused = s.readFused
  termErr : s'.termErr = s.termErr
  inbound : s'.t.inbound = s.t.inbound

theorem FrameW.refl (s : St) : FrameW s s := ⟨rfl, rfl, rfl⟩

theorem FrameW.trans {s s1 s2 : St} (h1 : FrameW s s1) (h2 : FrameW s1 s2) : FrameW s s2 :=
  ⟨h2.readFused.trans h1.readFused, h2.termErr.trans h1.termErr, h2.inbound.trans h1.inbound⟩

theorem FrameA.toW {s s' : St} (h : FrameA s s') : FrameW s s' := ⟨h.readFused, h.termErr, by rw [h.t]⟩

/-- `poll_close` observations. -/
def isCloseObs : Obs → Bool
  | .tClose _ _ => true
  | _ => false

theorem isT_of_isCloseObs {o : Obs} (h : isCloseObs o = true) : isT o = true := by
  cases o <;> simp_all [isCloseObs]

theorem filter_closeObs_of_tObs {l l' : List Obs} (h : l'.filter isT = l.filter isT) :
    l'.filter isCloseObs = l.filter isCloseObs := by
  have key : ∀ l : List Obs, l.filter isCloseObs = (l.filter isT).filter isCloseObs := by
    intro l; rw [List.filter_filter]; apply List.filter_congr
    intro o _; cases ho : isCloseObs o
    · simp
    · simp [isT_of_isCloseObs ho]
  rw [key l', key l, h]

/-- The steps of the write pump before `poll_close`: `FrameW`, and no `poll_close` is observed. -/
structure FrameP (s s' : St) : Prop extends FrameW s s' where
  closeObs : s'.obs.filter isCloseObs = s.obs.filter isCloseObs

theorem FrameP.refl (s : St) : FrameP s s := ⟨.refl _, rfl⟩

theorem FrameP.trans {s s1 s2 : St} (h1 : FrameP s s1) (h2 : FrameP s1 s2) : FrameP s s2 :=
  ⟨h1.toFrameW.trans h2.toFrameW, h2.closeObs.trans h1.closeObs⟩

theorem FrameA.toP {s s' : St} (h : FrameA s s') : FrameP s s' := ⟨h.toW, filter_closeObs_of_tObs h.tobs⟩

theorem newViolObs_closeObs (s : St) (t' : SimT) : (newViolObs s t').filter isCloseObs = [] := by
  rw [List.filter_eq_nil_iff]
  intro o ho
  obtain ⟨v, _, rfl⟩ := mem_newViolObs ho
  simp [isCloseObs]

theorem tEmit_closeObs (s : St) (t' : SimT) (o : Obs) (w : Bool) (ho : isCloseObs o = false) :
    (tEmit s t' o w).obs.filter isCloseObs = s.obs.filter isCloseObs := by
  have hw : isCloseObs (.wake (.dispatch s.k)) = false := rfl
  rw [tEmit_eq']
  split <;> simp [List.filter_append, ho, hw, newViolObs_closeObs]

theorem tReady_frameP (s : St) : FrameP s (tReady s).1 :=
  ⟨⟨tReady_readFused s, tReady_termErr s, by rw [tReady_t]; exact SimT.pollReady_inbound _⟩,
   by rw [tReady_eq]; exact tEmit_closeObs _ _ _ _ rfl⟩
theorem tFlush_frameP (s : St) : FrameP s (tFlush s).1 :=
  ⟨⟨tFlush_readFused s, tFlush_termErr s, by rw [tFlush_t]; exact SimT.pollFlush_inbound _⟩,
   by rw [tFlush_eq]; exact tEmit_closeObs _ _ _ _ rfl⟩
theorem tClose_frameW (s : St) : FrameW s (tClose s).1 :=
  ⟨tClose_readFused s, tClose_termErr s, by rw [tClose_t]; exact SimT.pollClose_inbound _⟩
theorem tSend_frameP (s : St) (m : Msg) : FrameP s (tSend s m).1 :=
  ⟨⟨tSend_readFused s m, tSend_termErr s m, by rw [tSend_t]; exact SimT.startSend_inbound _ _⟩,
   by rw [tSend_eq]; exact tEmit_closeObs _ _ _ _ rfl⟩

theorem ensureOnce_frameP (s : St) : FrameP s (ensureOnce s).1 := by
  refine ensureOnce_cases (motive := fun p => FrameP s p.1) s ?_ ?_ ?_ ?_ ?_
  · intro s1 h1; have f1 := tReady_frameP s; rw [h1] at f1; exact f1
  · intro s1 h1; have f1 := tReady_frameP s; rw [h1] at f1; exact f1
  · intro s1 s2 h1 h2
    have f1 := tReady_frameP s; rw [h1] at f1
    have f2 := tFlush_frameP s1; rw [h2] at f2
    exact f1.trans f2
  · intro s1 s2 h1 h2
    have f1 := tReady_frameP s; rw [h1] at f1
    have f2 := tFlush_frameP s1; rw [h2] at f2
    exact f1.trans f2
  · intro s1 s2 s3 r h1 h2 h3
    have f1 := tReady_frameP s; rw [h1] at f1
    have f2 := tFlush_frameP s1; rw [h2] at f2
    have f3 := tReady_frameP s2; rw [h3] at f3
    exact (f1.trans f2).trans f3

theorem ensureLoop_frameP (fuel : Nat) (s : St) : FrameP s (ensureLoop fuel s).1 := by
  induction fuel generalizing s with
  | zero => exact ⟨⟨rfl, rfl, rfl⟩, by simp [ensureLoop_zero, isCloseObs]⟩
  | succ fuel ih =>
    refine ensureLoop_cases (motive := fun p => FrameP s p.1) fuel s ?_ ?_ ?_ ?_ ?_
    · intro s1 h1; have f1 := tReady_frameP s; rw [h1] at f1; exact f1
    · intro s1 h1; have f1 := tReady_frameP s; rw [h1] at f1; exact f1
    · intro s1 s2 h1 h2
      have f1 := tReady_frameP s; rw [h1] at f1
      have f2 := tFlush_frameP s1; rw [h2] at f2
      exact f1.trans f2
    · intro s1 s2 h1 h2
      have f1 := tReady_frameP s; rw [h1] at f1
      have f2 := tFlush_frameP s1; rw [h2] at f2
      exact f1.trans f2
    · intro s1 s2 h1 h2
      have f1 := tReady_frameP s; rw [h1] at f1
      have f2 := tFlush_frameP s1; rw [h2] at f2
      exact (f1.trans f2).trans (ih _)

theorem ensureWriteable_frameP (s : St) : FrameP s (ensureWriteable s).1 := by
  unfold ensureWriteable; split
  · exact ensureLoop_frameP _ _
  · exact ensureOnce_frameP _

theorem pollNextRequest_frameP (s : St) : FrameP s (pollNextRequest s).1 := by
  refine pollNextRequest_cases (motive := fun p => FrameP s p.1) s ?_ ?_ ?_
  · intro _; exact .refl _
  · intro s1 e _ h1 _; have f1 := ensureWriteable_frameP s; rw [h1] at f1; exact f1
  · intro s1 _ h1
    have f1 := ensureWriteable_frameP s; rw [h1] at f1
    exact f1.trans (nextRequestLoop_frameA _ _).toP

theorem pollWriteRequest_frameP (s : St) (now : Nat) : FrameP s (pollWriteRequest s now).1 := by
  refine pollWriteRequest_cases (motive := fun p => FrameP s p.1) s now ?_ ?_ ?_ ?_
  · intro s1 r h1 _; have f1 := pollNextRequest_frameP s; rw [h1] at f1; exact f1
  · intro s1 r s2 h1 h2 _
    have f1 := pollNextRequest_frameP s; rw [h1] at f1
    exact f1.trans (insertRequest_frameA h2).toP
  · intro s1 r s2 s3 h1 h2 _ h3
    have f1 := pollNextRequest_frameP s; rw [h1] at f1
    have f3 := tSend_frameP s2 (.request r.id r.ctx.deadline r.ctx.trace r.body); rw [h3] at f3
    exact (f1.trans (insertRequest_frameA h2).toP).trans f3
  · intro s1 r s2 s3 h1 h2 _ h3
    have f1 := pollNextRequest_frameP s; rw [h1] at f1
    have f3 := tSend_frameP s2 (.request r.id r.ctx.deadline r.ctx.trace r.body); rw [h3] at f3
    exact ((f1.trans (insertRequest_frameA h2).toP).trans f3).trans (completeRequest_frameA _ _ _).toP

theorem pollNextCancellation_frameP (s : St) : FrameP s (pollNextCancellation s).1 := by
  refine pollNextCancellation_cases (motive := fun p => FrameP s p.1) s ?_ ?_
  · intro s1 e h1 _; have f1 := ensureWriteable_frameP s; rw [h1] at f1; exact f1
  · intro s1 h1
    have f1 := ensureWriteable_frameP s; rw [h1] at f1
    exact f1.trans (nextCancelLoop_frameA _ _).toP

theorem pollWriteCancel_frameP (s : St) : FrameP s (pollWriteCancel s).1 := by
  refine pollWriteCancel_cases (motive := fun p => FrameP s p.1) s ?_ ?_ ?_
  · intro s1 r h1 _; have f1 := pollNextCancellation_frameP s; rw [h1] at f1; exact f1
  · intro s1 e s2 h1 h3
    have f1 := pollNextCancellation_frameP s; rw [h1] at f1
    have f3 := tSend_frameP s1 (.cancel e.id e.ctx.trace); rw [h3] at f3
    exact f1.trans f3
  · intro s1 e s2 h1 h3
    have f1 := pollNextCancellation_frameP s; rw [h1] at f1
    have f3 := tSend_frameP s1 (.cancel e.id e.ctx.trace); rw [h3] at f3
    exact f1.trans f3

theorem pumpWrite_frameW (s : St) (now : Nat) : FrameW s (pumpWrite s now).1 := by
  refine pumpWrite_cases (motive := fun p => FrameW s p.1) s now ?_ ?_ ?_ ?_ ?_ ?_
  · intro s1 r1 h1 _
    have f1 := (pollWriteRequest_frameP s now).toFrameW; rw [h1] at f1; exact f1
  · intro s1 r1 s2 r2 h1 _ h2 _
    have f1 := (pollWriteRequest_frameP s now).toFrameW; rw [h1] at f1
    have f2 := (pollWriteCancel_frameP s1).toFrameW; rw [h2] at f2
    exact f1.trans f2
  · intro s1 r1 s2 r2 s3 h1 _ h2 _ h3
    have f1 := (pollWriteRequest_frameP s now).toFrameW; rw [h1] at f1
    have f2 := (pollWriteCancel_frameP s1).toFrameW; rw [h2] at f2
    have f3 := (pollExpired_frameA s2 now).toW; rw [h3] at f3
    exact (f1.trans f2).trans f3
  · intro s1 r1 s2 r2 s3 h1 _ h2 _ h3 _
    have f1 := (pollWriteRequest_frameP s now).toFrameW; rw [h1] at f1
    have f2 := (pollWriteCancel_frameP s1).toFrameW; rw [h2] at f2
    have f3 := (pollExpired_frameA s2 now).toW; rw [h3] at f3
    exact (f1.trans f2).trans f3
  · intro s1 s2 s3 s4 r4 h1 h2 h3 h4
    have f1 := (pollWriteRequest_frameP s now).toFrameW; rw [h1] at f1
    have f2 := (pollWriteCancel_frameP s1).toFrameW; rw [h2] at f2
    have f3 := (pollExpired_frameA s2 now).toW; rw [h3] at f3
    have f4 := tClose_frameW s3; rw [h4] at f4
    exact ((f1.trans f2).trans f3).trans f4
  · intro s1 r1 s2 r2 s3 s4 r4 h1 _ h2 _ _ h3 h4
    have f1 := (pollWriteRequest_frameP s now).toFrameW; rw [h1] at f1
    have f2 := (pollWriteCancel_frameP s1).toFrameW; rw [h2] at f2
    have f3 := (pollExpired_frameA s2 now).toW; rw [h3] at f3
    have f4 := (tFlush_frameP s3).toFrameW; rw [h4] at f4
    exact ((f1.trans f2).trans f3).trans f4

end TarpcModel.Client.Flow

import TarpcModel.Lemmas.ServerMonObs
import TarpcModel.Lemmas.ServerMon14
/-!
The counting clauses of the server's C11 monitor (`checkC11`, `Monitors/Server.lean`): "as many tracked requests
as armed timers" and "the request stream ended ⇒ no request in flight".

* `checkC11Counts` / `checkC11Rest`: `checkC11` split into these two clauses and the remaining ones (which compare
  the count with the monitor's approximate table); `checkC11_split`.
* `G` / `gstep`: the one bit of the monitor's `Book` the second clause depends on (`streamDone`) as a fold over
  observations; `inv11_trace`: on every trace of the model, a `counts` observation after the end of the stream
  reports 0 (there is exactly one: in the poll that ends the stream).
* `mon11_accepts_of`: the link to `Mon.run`.
-/
namespace TarpcModel.Server.Mon11
open TarpcModel TarpcModel.Server TarpcModel.Server.Flow TarpcModel.Server.ObsMon
set_option linter.unusedSimpArgs false
set_option linter.unusedVariables false

/-- the first two clauses of `checkC11` -/
def checkC11Counts (b : Book) (_ : Unit) : SEv → Unit × Option String
  | .obs (.counts (.server _) inflight timers) =>
      if inflight != timers then ((), some s!"{inflight} tracked requests but {timers} armed timers")
      else if b.streamDone && inflight != 0 then ((), some s!"request stream ended with {inflight} requests in flight")
      else ((), none)
  | _ => ((), none)

/-- the remaining clauses of `checkC11` (count against the monitor's table of yielded, unfinished requests) -/
def checkC11Rest (b : Book) (_ : Unit) : SEv → Unit × Option String
  | .obs (.counts (.server _) inflight _) =>
      if !b.failed && inflight > b.table.length then
        ((), some s!"{inflight} requests reported in flight, only {b.table.length} yielded requests can still be tracked")
      else if b.stalled && !b.failed && inflight > b.sweep.table.length then
        ((), some s!"limiter at its limit and sink not ready: {inflight} reported in flight, only {b.sweep.table.length} yielded request(s) unfinished (cancellations / expirations are not processed until the sink is ready)")
      else if b.idleNow && inflight != b.table.length && !b.reuseTainted then
        ((), some s!"channel idle: {inflight} reported in flight, {b.table.length} yielded requests unanswered, uncancelled, unexpired and not abandoned")
      else ((), none)
  | _ => ((), none)

/-- `checkC11` is the counting clauses followed by the rest -/
theorem checkC11_split (b : Book) (u : Unit) (e : SEv) :
    (checkC11 b u e).2 = (checkC11Counts b u e).2.orElse fun _ => (checkC11Rest b u e).2 := by
  cases e with
  | op o => rfl
  | obs o =>
    cases o <;> try rfl
    rename_i ep a t
    cases ep <;> try rfl
    simp only [checkC11, checkC11Counts, checkC11Rest]
    by_cases h1 : (a != t) = true
    · rw [if_pos h1, if_pos h1]; rfl
    · rw [if_neg h1, if_neg h1]
      by_cases h2 : (b.streamDone && a != 0) = true
      · rw [if_pos h2, if_pos h2]; rfl
      · rw [if_neg h2, if_neg h2]; rfl

def monC11Counts (limit : Option Nat) (evs : List SEv) : Mon Unit := Mon.run limit checkC11Counts () evs

/-! ## the model side -/

/-- `ret` of the request stream and `counts`: the two kinds of observation the clause looks at -/
def isRC : Obs → Bool
  | .ret (.server _) _ => true
  | .counts _ _ _ => true
  | _ => false

theorem isRC_pollQuiet : PollQuiet isRC :=
  ⟨fun _ _ => rfl, fun _ _ _ => rfl, fun _ _ => rfl, fun _ _ => rfl, fun _ _ => rfl, fun _ => rfl, fun _ => rfl, fun _ _ => rfl⟩

theorem isRC_execQuiet : ExecQuiet isRC :=
  ⟨⟨⟨fun _ => rfl, rfl, fun _ _ => rfl⟩, fun _ _ => rfl⟩, fun _ _ _ => rfl⟩

structure G where
  sd : Bool := false      -- `Book.streamDone`
  bad : Bool := false     -- the clause fired

def gstep (g : G) : Obs → G
  | .ret (.server _) .readyNone => { g with sd := true }
  | .counts (.server _) a _ => { g with bad := g.bad || (g.sd && a != 0) }
  | _ => g

def go (g0 : G) (obs : List Obs) : G := obs.foldr (fun o g => gstep g o) g0

theorem gstep_not_rc (g : G) (o : Obs) (h : isRC o = false) : gstep g o = g := by
  cases o <;> simp [isRC] at h <;> try rfl
  rename_i t r
  cases t <;> simp at h <;> rfl

theorem go_filter (g0 : G) (l : List Obs) : go g0 (l.filter isRC) = go g0 l := by
  induction l with
  | nil => rfl
  | cons o l ih =>
    by_cases h : isRC o = true
    · rw [List.filter_cons_of_pos h]; show gstep (go g0 (l.filter isRC)) o = gstep (go g0 l) o; rw [ih]
    · rw [List.filter_cons_of_neg h, ih]
      show go g0 l = gstep (go g0 l) o
      rw [gstep_not_rc _ _ (by simpa using h)]

/-- between ops: the clause has not fired; if the monitor has seen the end of the stream, the model has recorded it -/
def Inv11 (g : G) (s : St) : Prop := g.bad = false ∧ (g.sd = true → s.done.isSome = true)

theorem gpoll (g : G) (k : Nat) (r : Ret) (a b : Nat) (hb : g.bad = false) (hs : g.sd = false)
    (h : r = .readyNone → a = 0) :
    (gstep (gstep g (.ret (.server k) r)) (.counts (.server k) a b)).bad = false ∧
    ((gstep (gstep g (.ret (.server k) r)) (.counts (.server k) a b)).sd = true → r = .readyNone) := by
  cases r <;> simp [gstep, hb, hs]
  exact h rfl

theorem pskRet_rc (s : St) (r : ReqPoll) : (pskRet s r).1.obs.filter isRC = s.obs.filter isRC := by
  unfold pskRet
  split <;> try rfl
  split <;> simp [Server.emit, Server.updExec, isRC]

theorem pskRet_none (s : St) (r : ReqPoll) (h : (pskRet s r).2 = .readyNone) : r = .none := by
  unfold pskRet at h
  split at h <;> first | rfl | cases h | skip
  split at h <;> cases h

theorem inv11_pollServerKeep (g : G) (s : St) (now : Nat) (h : Inv11 g s) (h0 : s.obs = []) :
    Inv11 (go g (pollServerKeep s now).obs) (pollServerKeep s now) := by
  rw [pollServerKeep_eq]
  split
  · show Inv11 (gstep (go g s.obs) .noop) _
    rw [h0]; exact h
  · next hl =>
    simp only [Bool.or_eq_true, not_or, Bool.not_eq_true] at hl
    have hsd : g.sd = false := by
      cases hg : g.sd with
      | false => rfl
      | true => have := h.2 hg; rw [hl.1.2] at this; cases this
    have hflt := flt_requestsPollNext isRC_pollQuiet now (pollFuel { s with woken := false }) { s with woken := false }
    have hspec := (requestsPollNext_spec now (pollFuel { s with woken := false }) { s with woken := false }).2
    have hdd := (dd_closed s.done s.dropped now).requestsPollNext (pollFuel { s with woken := false })
      { s with woken := false } ⟨rfl, rfl⟩
    revert hflt hspec hdd
    generalize requestsPollNext (pollFuel { s with woken := false }) { s with woken := false } now = p
    obtain ⟨s1, r⟩ := p
    intro hflt hspec hdd
    unfold Flt at hflt
    simp only [h0, List.filter_nil] at hflt hspec hdd ⊢
    split
    · refine ⟨h.1, fun hg => ?_⟩
      rw [show go g [Obs.spin (tid s1)] = g from rfl, hsd] at hg; cases hg
    · split
      · rw [← go_filter, hflt]
        refine ⟨h.1, fun hg => ?_⟩
        rw [show go g [] = g from rfl, hsd] at hg; cases hg
      · rw [← go_filter]
        have hobs : (pskFinish s1 r).obs.filter isRC =
            [.counts (tid (pskRet s1 r).1) (pskRet s1 r).1.inflight.length (pskRet s1 r).1.timers.len,
             .ret (tid (pskRet s1 r).1) (pskRet s1 r).2] := by
          unfold pskFinish
          simp only [Server.emit, tid]
          rw [List.filter_cons_of_pos (by rfl), List.filter_cons_of_pos (by rfl), pskRet_rc, hflt]
        rw [hobs]
        have hfr := pskRet_frame s1 r
        have hg := gpoll g (pskRet s1 r).1.sidx (pskRet s1 r).2 (pskRet s1 r).1.inflight.length (pskRet s1 r).1.timers.len
          h.1 hsd (fun hr => by
            have := pskRet_none s1 r hr
            subst this
            rw [hfr.2.2.2.1, (hspec rfl).2.1]; rfl)
        refine ⟨hg.1, fun hs => ?_⟩
        have hr := pskRet_none s1 r (hg.2 hs)
        subst hr
        show (pskFinish s1 .none).done.isSome = true
        rw [pskFinish_done, pskRet_done]; rfl

theorem inv11_pollServer (g : G) (s : St) (now : Nat) (h : Inv11 g s) (h0 : s.obs = []) :
    Inv11 (go g (pollServer s now).obs) (pollServer s now) := by
  have hk := inv11_pollServerKeep g s now h h0
  unfold pollServer
  simp only
  split
  · rw [← go_filter, fx_dropServer isRC_execQuiet.toWakeQuiet, go_filter]
    exact ⟨hk.1, fun hs => by rw [dropServer_done]; exact hk.2 hs⟩
  · split
    · exact hk
    · exact hk

theorem applyOp_done (c : Sys) (op : SOp) (hop : op ≠ .pollServer) : (applyOp c op).s.done = c.s.done := by
  have hd : ExecClosed (fun s => s.done = c.s.done) :=
    ⟨fun s s' hi h => by rw [hi.done]; exact h, fun s o _ h => h, fun s r f _ h => h⟩
  cases op with
  | pollServer => exact absurd rfl hop
  | dropServer => simp [applyOp]
  | pollExec r => exact hd.pollExec _ _ _ rfl
  | dropExec r => exact hd.dropExec _ _ _ rfl
  | finish r res => exact hd.finishHandler _ _ _ rfl
  | injectReq id d tr b => simp only [applyOp, liftT]; split <;> simp
  | injectCancel id tr => simp only [applyOp, liftT]; split <;> simp
  | injectErr => simp only [applyOp, liftT]; split <;> simp
  | eof => simp only [applyOp, liftT]; split <;> simp
  | setReady b => simp only [applyOp, liftT]; split <;> simp
  | setFlush b => simp only [applyOp, liftT]; split <;> simp
  | fault k => rfl
  | faultSkip n => rfl
  | selfWake b => rfl
  | take n =>
    simp only [applyOp]
    generalize (c.s.t.take n).2 = ms
    have h0 : ({ c.s with t := (c.s.t.take n).1 } : St).done = c.s.done := rfl
    revert h0
    generalize ({ c.s with t := (c.s.t.take n).1 } : St) = s1
    intro h0
    induction ms generalizing s1 with
    | nil => exact h0
    | cons m ms ih => exact ih _ h0
  | advance n => simp only [applyOp, onAdvance]; (repeat' split) <;> simp

theorem inv11_applyOp (g : G) (c : Sys) (op : SOp) (h : Inv11 g c.s) (h0 : c.s.obs = []) :
    Inv11 (go g (applyOp c op).s.obs) (applyOp c op).s := by
  by_cases hop : op = .pollServer
  · subst hop; exact inv11_pollServer g c.s c.now h h0
  · rw [← go_filter, fx_applyOp isRC_execQuiet c op hop, h0]
    exact ⟨h.1, fun hs => by rw [applyOp_done c op hop]; exact h.2 hs⟩

/-! ## lifting to traces -/

def gev (g : G) : SEv → G
  | .op _ => g
  | .obs o => gstep g o

def gtrace (g : G) (evs : List SEv) : G := evs.foldl gev g

theorem gtrace_obs (g : G) (obs : List Obs) : gtrace g (obs.reverse.map SEv.obs) = go g obs := by
  simp only [gtrace, List.foldl_map, gev, go]
  rw [List.foldl_reverse]

theorem gtrace_cons (g : G) (c : Sys) (op : SOp) (ops : List SOp) :
    gtrace g (trace c (op :: ops)) =
      gtrace (go g (applyOp { c with s := { c.s with obs := [] } } op).s.obs) (trace (stepOp c op).1 ops) := by
  simp only [trace, stepOp]
  rw [gtrace, List.foldl_cons, ← gtrace]
  show gtrace g (_ ++ _) = _
  rw [show ∀ a b, gtrace g (a ++ b) = gtrace (gtrace g a) b from fun a b => by simp [gtrace, List.foldl_append],
    gtrace_obs]

theorem inv11_trace (ops : List SOp) : ∀ (c : Sys) (g : G), Inv11 g c.s → (gtrace g (trace c ops)).bad = false := by
  induction ops with
  | nil => intro c g h; exact h.1
  | cons op ops ih =>
    intro c g h
    rw [gtrace_cons]
    have := inv11_applyOp g { c with s := { c.s with obs := [] } } op h rfl
    exact ih (stepOp c op).1 _ ⟨this.1, this.2⟩

theorem gev_bad_mono (g : G) (e : SEv) (h : (gev g e).bad = false) : g.bad = false := by
  cases e with
  | op o => exact h
  | obs o =>
    cases o <;> try exact h
    · rename_i t r; cases t <;> try exact h
      cases r <;> exact h
    · rename_i ep a b
      cases ep <;> try exact h
      simp only [gev, gstep, Bool.or_eq_false_iff] at h
      exact h.1

theorem gtrace_bad_mono (evs : List SEv) : ∀ g : G, (gtrace g evs).bad = false → g.bad = false := by
  induction evs with
  | nil => intro g h; exact h
  | cons e evs ih => intro g h; exact gev_bad_mono g e (ih _ h)

/-! ## the monitor side -/

def noneRetEv : SEv → Bool
  | .obs (.ret (.server _) .readyNone) => true
  | _ => false

@[simp] theorem endOp_streamDone (b : Book) : b.endOp.streamDone = b.streamDone := by
  unfold Book.endOp; simp only []; (repeat' split) <;> rfl
@[simp] theorem sweepOne_streamDone (b : Book) : b.sweepOne.streamDone = b.streamDone := by
  unfold Book.sweepOne; simp only []; (repeat' split) <;> rfl
@[simp] theorem updExec_streamDone (b : Book) (r f) : (b.updExec r f).streamDone = b.streamDone := rfl
@[simp] theorem untrack_streamDone (b : Book) (id) : (b.untrack id).streamDone = b.streamDone := rfl
@[simp] theorem sweep_streamDone (b : Book) : b.sweep.streamDone = b.streamDone := rfl
@[simp] theorem noteFinish_streamDone (b : Book) (e : SEv) : (b.noteFinish e).streamDone = b.streamDone := by
  unfold Book.noteFinish; split <;> rfl

theorem step_streamDone (b : Book) (e : SEv) : (b.step e).streamDone = (b.streamDone || noneRetEv e) := by
  cases e with
  | op o => cases o <;> simp [Book.step, noneRetEv]
  | obs o =>
    cases o with
    | tNext ep r =>
      cases r with
      | item m => cases m <;> (try simp [Book.step, noneRetEv]) <;> (repeat' split) <;> (try simp)
      | _ => (try simp [Book.step, noneRetEv]) <;> (repeat' split) <;> (try simp)
    | tSend ep m ok => cases m <;> (try simp [Book.step, noneRetEv]) <;> (repeat' split) <;> (try simp)
    | ret t r => cases t <;> cases r <;> (try simp [Book.step, noneRetEv]) <;> (repeat' split) <;> (try simp)
    | handler r ev t => cases ev <;> (try simp [Book.step, noneRetEv]) <;> (repeat' split) <;> (try simp)
    | counts ep a b => cases ep <;> (try simp [Book.step, noneRetEv]) <;> (repeat' split) <;> (try simp)
    | _ => (try simp [Book.step, noneRetEv]) <;> (repeat' split) <;> (try simp)

theorem gev_sd (g : G) (e : SEv) : (gev g e).sd = (g.sd || noneRetEv e) := by
  cases e with
  | op o => simp [gev, noneRetEv]
  | obs o =>
    cases o <;> try simp [gev, gstep, noneRetEv]
    · rename_i t r; cases t <;> try simp [gev, gstep, noneRetEv]
      cases r <;> simp [gev, gstep, noneRetEv]
    · rename_i ep a b; cases ep <;> simp [gev, gstep, noneRetEv]

/-- the counting clauses never fire on an event list on which the fold stays good and every `counts` shows two
equal numbers -/
theorem mon11_accepts_of (evs : List SEv) : ∀ (m : Mon Unit) (g : G), m.bad = none → m.book.streamDone = g.sd →
    (gtrace g evs).bad = false → (∀ k a b, SEv.obs (.counts (.server k) a b) ∈ evs → a = b) →
    (evs.foldl (Mon.step checkC11Counts) m).bad = none := by
  induction evs with
  | nil => intro m g hb _ _ _; exact hb
  | cons e evs ih =>
    intro m g hb hsd hg heq
    simp only [List.foldl_cons]
    have hg' : (gtrace (gev g e) evs).bad = false := hg
    have hge := gtrace_bad_mono evs _ hg'
    refine ih _ (gev g e) ?_ ?_ hg' (fun k a b hm => heq k a b (List.mem_cons_of_mem _ hm))
    · rw [FlowMon.mon_step_def]
      have hcheck : (checkC11Counts (FlowMon.bookOf m.book e) m.st e).2 = none := by
        cases e with
        | op o => rfl
        | obs o =>
          cases o <;> try rfl
          rename_i ep a b
          cases ep <;> try rfl
          rename_i k
          have hab := heq k a b (List.mem_cons_self ..)
          subst hab
          simp only [gev, gstep, Bool.or_eq_false_iff, Bool.and_eq_false_iff] at hge
          simp only [checkC11Counts, FlowMon.bookOf, bne_self_eq_false, Bool.false_eq_true, if_false, hsd]
          rcases hge.2 with h1 | h1 <;> simp [h1]
      have hr : (if (FlowMon.bookOf m.book e).spun then (m.st, none) else checkC11Counts (FlowMon.bookOf m.book e) m.st e).2 = none := by
        split
        · rfl
        · exact hcheck
      rw [hr]
      exact hb
    · have : (Mon.step checkC11Counts m e).book = (m.book.step e).noteFinish e := by
        rw [FlowMon.mon_step_def]
        split
        · rw [FlowMon.fail_book]
        · rfl
      rw [this, noteFinish_streamDone, step_streamDone, gev_sd, hsd]

end TarpcModel.Server.Mon11

import TarpcModel.Lemmas.ClientGeneric
/-!
A stable predicate: once the call that owns a request id has closed its receiver while the id is not in flight,
the id never enters the in-flight table (again).  Another instance of the `Pres` interface.
-/
namespace TarpcModel.Client

/-- the call owning `id` has closed its receiver and `id` is not in flight -/
def ClosedOut (id : Nat) (v : View) : Prop :=
  (∃ i c, v.get i = some c ∧ c.polled ∧ c.id = id ∧ c.rxClosed = true) ∧ ∀ e ∈ v.inflight, e.id ≠ id

theorem ClosedOut.of_same {id : Nat} {v v' : View} (h : ClosedOut id v) (hc : v'.calls = v.calls)
    (hi : ∀ e ∈ v'.inflight, e ∈ v.inflight) : ClosedOut id v' := by
  obtain ⟨⟨i, c, hg, a⟩, hn⟩ := h
  refine ⟨⟨i, c, ?_, a⟩, fun e he => hn e (hi e he)⟩
  unfold View.get at hg ⊢; rw [hc]; exact hg

theorem View.get_send_fwd {v : View} {cid : Nat} {o : Outcome} {i : Nat} {c : CallV} (h : v.get i = some c) :
    ∃ c', (v.send cid o).get i = some c' ∧ c'.phase = c.phase ∧ c'.id = c.id ∧ c'.rxClosed = c.rxClosed := by
  unfold View.send
  split
  · exact ⟨c, h, rfl, rfl, rfl⟩
  · split
    · exact ⟨c, h, rfl, rfl, rfl⟩
    · rw [View.get_upd]
      split
      · rw [h]; exact ⟨_, rfl, rfl, rfl, rfl⟩
      · exact ⟨c, h, rfl, rfl, rfl⟩

theorem ClosedOut.send {id : Nat} {v : View} (h : ClosedOut id v) (cid : Nat) (o : Outcome) :
    ClosedOut id (v.send cid o) := by
  obtain ⟨⟨i, c, hg, hp, hid, hrx⟩, hn⟩ := h
  obtain ⟨c', hg', h1, h2, h3⟩ := View.get_send_fwd (cid := cid) (o := o) hg
  refine ⟨⟨i, c', hg', ?_, by rw [h2]; exact hid, by rw [h3]; exact hrx⟩, by simpa using hn⟩
  simp only [CallV.polled] at hp ⊢
  rw [h1, h3]; exact hp

theorem ClosedOut.upd {id : Nat} {v : View} (h : ClosedOut id v) (cid : Nat) (g : CallV → CallV)
    (hg : ∀ c, v.get cid = some c → c.polled → c.rxClosed = true →
      (g c).polled ∧ (g c).id = c.id ∧ (g c).rxClosed = true) :
    ClosedOut id (v.upd cid g) := by
  obtain ⟨⟨i, c, hgc, hp, hid, hrx⟩, hn⟩ := h
  refine ⟨?_, hn⟩
  by_cases e : i = cid
  · subst e
    obtain ⟨a1, a2, a3⟩ := hg c hgc hp hrx
    refine ⟨i, { g c with cid := c.cid }, by rw [View.get_upd_self, hgc]; rfl, ?_, by rw [← hid]; exact a2, a3⟩
    simpa [CallV.polled] using a1
  · exact ⟨i, c, by rw [View.get_upd_ne _ _ _ e]; exact hgc, hp, hid, hrx⟩

def Stable (id : Nat) (x : Option Nat) (v : View) : Prop := Inv x v ∧ ClosedOut id v

theorem Stable.presD (id : Nat) : PresD (Stable id) where
  inv := fun h => h.1
  stop := fun o h ho => ⟨Inv.presD.stop o h.1 ho, h.2.of_same rfl (fun _ h => h)⟩
  panic := fun t site h => ⟨Inv.presD.panic t site h.1, h.2.of_same rfl (fun _ h => h)⟩
  poison := fun h hs => ⟨Inv.presD.poison h.1 hs, h.2.of_same rfl (fun _ h => h)⟩
  trunc := fun t h0 h => ⟨Inv.presD.trunc t h0.1 h.1, h.2.of_same rfl (fun _ h => h)⟩
  pqPop := fun h hpq => ⟨Inv.presD.pqPop h.1 hpq, h.2.of_same rfl (fun _ h => h)⟩
  cqPop := fun h hcq => ⟨Inv.presD.cqPop h.1 hcq, h.2.of_same rfl (fun _ h => h)⟩
  infRemove := fun id' h => ⟨Inv.presD.infRemove id' h.1, h.2.of_same rfl (fun _ h => (List.mem_filter.mp h).1)⟩
  drop_x := fun h hx => ⟨Inv.presD.drop_x h.1 hx, h.2⟩
  infRearm := fun id' key t due h => ⟨Inv.presD.infRearm id' key t due h.1, by
    obtain ⟨⟨i, c, hg, a⟩, hn⟩ := h.2
    refine ⟨⟨i, c, hg, a⟩, fun e he => ?_⟩
    obtain ⟨e0, he0, rfl⟩ := List.mem_map.mp he
    rw [(rearmEntry_same id' key t due e0).1]; exact hn e0 he0⟩
  popInsert := fun {v r rest} key rem due h hpq hnc => by
    refine ⟨Inv.presD.popInsert key rem due h.1 hpq hnc, ?_⟩
    obtain ⟨⟨i, c0, hg0, hp0, hid0, hrx0⟩, hn⟩ := h.2
    refine ⟨⟨i, c0, hg0, hp0, hid0, hrx0⟩, fun e he => ?_⟩
    simp only [List.mem_append, List.mem_singleton] at he
    rcases he with he | rfl
    · exact hn e he
    · intro hr
      simp only at hr
      obtain ⟨c, hc, hrx⟩ := hnc
      have hd := (h.1.pqPop hpq).2
      obtain ⟨c', hc', en', id', _⟩ := hd.call
      have hc'' : v.get r.cid = some c' := hc'
      rw [hc] at hc''; injection hc'' with hc''; subst hc''
      have : i = r.cid := h.1.idInj i r.cid c0 c hg0 hc hp0 en'.polled (by omega)
      subst this
      rw [hc] at hg0; injection hg0 with hg0; subst hg0
      rw [hrx] at hrx0; cases hrx0
  sendReqOk := fun t body h hp he hid hb => ⟨Inv.presD.sendReqOk t body h.1 hp he hid hb, h.2.of_same rfl (fun _ h => h)⟩
  sendReqFail := fun {v id' e} t body pn t' site h hp he hid hb => ⟨Inv.presD.sendReqFail t body pn t' site h.1 hp he hid hb,
    ClosedOut.send (v := { v with inflight := v.inflight.filter (·.id != id'), poisoned := v.poisoned || pn, rel := stopObs pn t' site ++ .tSend t (Msg.request id' e.ctx.deadline e.ctx.trace body) false :: v.rel })
      (h.2.of_same rfl (fun _ h => (List.mem_filter.mp h).1)) e.cid _⟩
  sendCancel := fun t ok h hc => ⟨Inv.presD.sendCancel t ok h.1 hc, h.2.of_same rfl (fun _ h => h)⟩
  send := fun cid o h h1 h2 h3 h4 => ⟨Inv.presD.send cid o h.1 h1 h2 h3 h4, h.2.send cid o⟩
  readMiss := fun t id' res h hm => ⟨Inv.presD.readMiss t id' res h.1 hm, h.2.of_same rfl (fun _ h => h)⟩
  readHit := fun {v e} t res pn t' site h he => ⟨Inv.presD.readHit t res pn t' site h.1 he,
    ClosedOut.send (v := { v with inflight := v.inflight.filter (·.id != e.id), poisoned := v.poisoned || pn, rel := stopObs pn t' site ++ .tNext t (.item (.response e.id res)) :: v.rel })
      (h.2.of_same rfl (fun _ h => (List.mem_filter.mp h).1)) e.cid _⟩
  infClear := fun h => ⟨Inv.presD.infClear h.1, h.2.of_same rfl (fun _ h => by cases h)⟩
  pqClear := fun h => ⟨Inv.presD.pqClear h.1, h.2.of_same rfl (fun _ h => h)⟩
  cqClear := fun h => ⟨Inv.presD.cqClear h.1, h.2.of_same rfl (fun _ h => h)⟩

theorem Stable.pres (id : Nat) : Pres (Stable id) where
  toPresD := Stable.presD id
  assign := fun {x v cid c} h hc hp => ⟨Inv.pres.assign h.1 hc hp, by
    have := h.2.upd cid (fun c' => { c' with id := v.nextId, trace := { c.ctx.trace with span := .fresh v.nextFresh }, phase := .reserving })
      (fun c' hc' hp' _ => by
        rw [hc] at hc'; injection hc' with hc'; subst hc'
        simp only [CallV.polled] at hp'; grind)
    exact this.of_same rfl (fun _ h => h)⟩
  enqueue := fun {x v cid c} h hc hp => ⟨Inv.pres.enqueue h.1 hc hp, by
    have := h.2.upd cid (fun c' => { c' with phase := .awaiting })
      (fun c' _ _ hrx => ⟨Or.inr (Or.inl rfl), rfl, hrx⟩)
    exact this.of_same rfl (fun _ h => h)⟩
  resolveVal := fun {x v cid c o} now h hc hp hv => ⟨Inv.pres.resolveVal now h.1 hc hp hv, by
    have := h.2.upd cid (fun c' => { c' with val := none, phase := .resolved, outcome := some o, rxClosed := true })
      (fun c' _ _ _ => ⟨Or.inr (Or.inr (Or.inl rfl)), rfl, rfl⟩)
    exact this.of_same rfl (fun _ h => h)⟩
  resolveShut := fun {x v cid c} now h hc hp => ⟨Inv.pres.resolveShut now h.1 hc hp, by
    have := h.2.upd cid (fun c' => { c' with phase := .resolved, outcome := some .shutdown, rxClosed := true })
      (fun c' _ _ _ => ⟨Or.inr (Or.inr (Or.inl rfl)), rfl, rfl⟩)
    exact this.of_same rfl (fun _ h => h)⟩
  guardClose := fun {x v cid c} h hc hp => ⟨Inv.pres.guardClose h.1 hc hp,
    h.2.upd cid (fun c' => { c' with rxClosed := true })
      (fun c' _ hp' _ => ⟨by simp only [CallV.polled] at hp' ⊢; grind, rfl, rfl⟩)⟩
  cqPush := fun h hc hp hr => ⟨Inv.pres.cqPush h.1 hc hp hr, h.2.of_same rfl (fun _ h => h)⟩
  dropGuarded := fun {x v cid c} h hc hp hr => ⟨Inv.pres.dropGuarded h.1 hc hp hr,
    h.2.upd cid (fun c' => { c' with phase := .dropped })
      (fun c' _ _ hrx => ⟨Or.inr (Or.inr (Or.inr ⟨rfl, hrx⟩)), rfl, hrx⟩)⟩
  dropNP := fun {x v cid c} h hc hp => ⟨Inv.pres.dropNP h.1 hc hp,
    h.2.upd cid (fun c' => { c' with phase := .dropped })
      (fun c' hc' hp' _ => by
        rw [hc] at hc'; injection hc' with hc'; subst hc'
        simp only [CallV.polled] at hp'; grind)⟩

theorem applyOp_stable {id : Nat} {c : Sys} (h : Stable id none (view c.s)) (op : COp) :
    Stable id none (view (applyOp c op).s) := by
  cases op with
  | call hd d tr b =>
    rcases view_newCall c.s hd { deadline := d, trace := tr } b with hv | ⟨_, hv⟩
    · exact hv ▸ h
    · show Stable id none (view (newCall c.s hd { deadline := d, trace := tr } b))
      rw [hv]
      refine ⟨h.1.newCall _ _, ?_⟩
      obtain ⟨⟨i, c0, hg0, a⟩, hn⟩ := h.2
      refine ⟨⟨i, c0, ?_, a⟩, hn⟩
      rw [h.1.get_newCall, if_neg (Nat.ne_of_lt (h.1.cidLt i c0 hg0))]; exact hg0
  | pollCall cid => exact pollCall_pres (Stable.pres id) h cid c.now
  | dropCall cid site => exact dropCall_pres (Stable.pres id) h cid site c.now
  | pollDispatch => exact pollDispatch_pres (Stable.presD id) h c.now
  | dropDispatch => exact dropDispatch_pres (Stable.presD id) h
  | clone hd =>
    show Stable id none (view (cloneHandle c.s hd))
    rw [view_cloneHandle]; split
    · exact ⟨h.1.of_handles _ _, h.2.of_same rfl (fun _ h => h)⟩
    · exact h
  | dropHandle hd =>
    show Stable id none (view (dropHandle c.s hd))
    rw [view_dropHandle]; exact ⟨h.1.of_handles _ _, h.2.of_same rfl (fun _ h => h)⟩
  | injectResp _ _ => rw [view_applyOp_env _ _ trivial]; exact h
  | injectErr => rw [view_applyOp_env _ _ trivial]; exact h
  | eof => rw [view_applyOp_env _ _ trivial]; exact h
  | setReady _ => rw [view_applyOp_env _ _ trivial]; exact h
  | setFlush _ => rw [view_applyOp_env _ _ trivial]; exact h
  | fault _ => rw [view_applyOp_env _ _ trivial]; exact h
  | faultSkip _ => rw [view_applyOp_env _ _ trivial]; exact h
  | selfWake _ => rw [view_applyOp_env _ _ trivial]; exact h
  | take _ => rw [view_applyOp_env _ _ trivial]; exact h
  | advance _ => rw [view_applyOp_env _ _ trivial]; exact h

theorem foldl_stable {id : Nat} (ops : List COp) {c : Sys} (h : Stable id none (view c.s)) :
    Stable id none (view (ops.foldl applyOp c).s) := by
  induction ops generalizing c with
  | nil => exact h
  | cons op ops ih => exact ih (applyOp_stable h op)

end TarpcModel.Client

import TarpcModel.Lemmas.ClientFlowInv
import TarpcModel.Lemmas.ClientFlowErr
import TarpcModel.Lemmas.ClientFlowSpin
import TarpcModel.Monitors.Client
/-
Glue between the client invariants and the property files `Props/C14Client.lean`, `Props/C09Client.lean`,
`Props/C10Client.lean`: scripts and traces, and a few facts about single polls.
-/
namespace TarpcModel.Client.Flow

/-- The start state of a `cli` script with the `ensure_writeable` variant chosen explicitly
(`initSys` uses the generated flag `Gen.clientEnsureLoop`). -/
def initSysWith (ensureLoop : Bool) (m b c : Nat) (coupled : Bool) : Sys :=
  { s := { init 0 m b c coupled with ensureLoop := ensureLoop } }

theorem initSysWith_inv (el : Bool) (m b c : Nat) (coupled : Bool) : Inv (initSysWith el m b c coupled).s := by
  refine ⟨⟨?_, ?_, ?_⟩, ?_⟩
  · intro w hw; cases hw
  · intro ep w hm; cases hm
  · intro hc; cases hc
  · intro hf; cases hf

/-- Every `tViolation` observation in the event trace of a script started in an invariant state names a
violation other than the three send violations. -/
theorem trace_no_send_violation (ops : List COp) {c : Sys} (h : Inv c.s) (ep : TaskId) (w : String)
    (hm : CEv.obs (.tViolation ep w) ∈ trace c ops) : w ∉ sendViols := by
  induction ops generalizing c with
  | nil => cases hm
  | cons op ops ih =>
    have h1 : Inv (applyOp { c with s := { c.s with obs := [] } } op).s := applyOp_inv op h.clearObs
    simp only [trace, stepOp, List.mem_cons, reduceCtorEq, false_or, List.mem_append, List.mem_map,
      List.mem_reverse] at hm
    rcases hm with ⟨o, ho, he⟩ | hm
    · cases he
      exact h1.base.sv w (h1.base.obsOK.of_mem ho)
    · exact ih h1.clearObs hm


theorem pollDispatchCore_pending_flushed (s : St) (now : Nat) (hr : (pollDispatchCore s now).2 = .pending)
    (ht : (pollDispatchCore s now).1.termErr = none) (hp : (pollDispatchCore s now).1.poisoned = false) :
    Flushed (pollDispatchCore s now).1 := by
  revert hr ht hp
  refine pollDispatchCore_cases (motive := fun p => p.2 = .pending → p.1.termErr = none → p.1.poisoned = false →
    Flushed p.1) s now ?_ ?_ ?_ ?_ ?_
  · intro a s1 fin hta h1 _ ht _
    have := shutDown_termErr s a; rw [h1] at this
    rw [this, hta] at ht; cases ht
  · intro s1 _ h1 _ _ _
    have := run_pending_flushed (runFuel s) s now; rw [h1] at this; exact this rfl
  · intro _ _ _ h; cases h
  · intro _ _ _ _ _ hp; cases hp
  · intro s1 a s2 fin _ _ h2 _ ht _
    have := shutDown_termErr { s1 with termErr := some a } a; rw [h2] at this
    rw [this] at ht; cases ht


theorem any_eq_filter_ne_nil (l : List Obs) : l.any isSpinObs = !(l.filter isSpinObs).isEmpty := by
  induction l with
  | nil => rfl
  | cons o l ih =>
    simp only [List.any_cons, List.filter_cons]
    cases h : isSpinObs o <;> simp [ih]


/-! ### no spin, for whole scripts -/

/-- **One dispatch poll observes no spin** (fixed `ensure_writeable`): `run`'s fuel `runFuel s` exceeds
`runMeasure s`, so it never runs out (`run_no_spin`); the shutdown path and the drop make no transport call. -/
theorem pollDispatch_no_spin (s : St) (now : Nat) (hel : s.ensureLoop = false) :
    (pollDispatch s now).obs.filter isSpinObs = s.obs.filter isSpinObs := by
  have hf : runMeasure { s with dWoken := false } < runFuel { s with dWoken := false } := runMeasure_lt_runFuel _
  have hcore : (pollDispatchCore { s with dWoken := false } now).1.obs.filter isSpinObs = s.obs.filter isSpinObs := by
    refine pollDispatchCore_cases (motive := fun p => p.1.obs.filter isSpinObs = s.obs.filter isSpinObs)
      { s with dWoken := false } now ?_ ?_ ?_ ?_ ?_
    · intro a s1 fin _ h1
      have := filter_spinObs_of_tObs (shutDown_frameA { s with dWoken := false } a).tobs
      rw [h1] at this; exact this
    · intro s1 _ h1
      have := run_no_spin (runFuel { s with dWoken := false }) { s with dWoken := false } now hel hf
      rw [h1] at this; exact this
    · intro s1 _ h1
      have := run_no_spin (runFuel { s with dWoken := false }) { s with dWoken := false } now hel hf
      rw [h1] at this; exact this
    · intro s1 _ h1
      have := run_no_spin (runFuel { s with dWoken := false }) { s with dWoken := false } now hel hf
      rw [h1] at this; exact this
    · intro s1 a s2 fin _ h1 h2
      have h := run_no_spin (runFuel { s with dWoken := false }) { s with dWoken := false } now hel hf
      rw [h1] at h
      have := filter_spinObs_of_tObs (shutDown_frameA { s1 with termErr := some a } a).tobs
      rw [h2] at this; exact this.trans h
  have hkeep : (pollDispatchKeep s now).obs.filter isSpinObs = s.obs.filter isSpinObs := by
    rw [pollDispatchKeep_eq]
    split
    · simp [isSpinObs]
    · rcases hc : pollDispatchCore { s with dWoken := false } now with ⟨s1, r⟩
      rw [hc] at hcore
      simp only at hcore ⊢
      have hk : (keepFinish s.obs s1 r).obs.filter isSpinObs = s.obs.filter isSpinObs := by
        unfold keepFinish
        rw [any_eq_filter_ne_nil, any_eq_filter_ne_nil, hcore]
        simp only [Bool.and_not_self, Bool.false_eq_true, ↓reduceIte]
        split
        · exact hcore
        · simp [isSpinObs, hcore]
      unfold keepDone
      split
      · exact hk
      · exact hk
  rw [pollDispatch_eq]
  split
  · exact (filter_spinObs_of_tObs (dropDispatch_frameA _).tobs).trans hkeep
  · exact hkeep

/-- A step that keeps the `ensure_writeable` variant and adds no `Obs.spin`. -/
structure NoSpinStep (s s' : St) : Prop where
  el : s'.ensureLoop = s.ensureLoop
  spin : s'.obs.filter isSpinObs = s.obs.filter isSpinObs

theorem NoSpinStep.refl (s : St) : NoSpinStep s s := ⟨rfl, rfl⟩
theorem NoSpinStep.trans {s s1 s2 : St} (h1 : NoSpinStep s s1) (h2 : NoSpinStep s1 s2) : NoSpinStep s s2 :=
  ⟨h2.el.trans h1.el, h2.spin.trans h1.spin⟩
theorem NoSpinStep.of_frameA {s s' : St} (h : FrameA s s') : NoSpinStep s s' :=
  ⟨h.ensureLoop, filter_spinObs_of_tObs h.tobs⟩

theorem pollDispatch_noSpinStep (s : St) (now : Nat) (hel : s.ensureLoop = false) :
    NoSpinStep s (pollDispatch s now) :=
  ⟨pollDispatch_ensureLoop s now, pollDispatch_no_spin s now hel⟩

theorem dropCall_noSpinStep (s : St) (cid : Nat) (at_ : DropAt) (now : Nat) (hel : s.ensureLoop = false) :
    NoSpinStep s (dropCall s cid at_ now) := by
  unfold dropCall
  dsimp only
  have step : ∀ (b : Bool) (x : St), NoSpinStep s x →
      NoSpinStep s (if b = true then pollDispatch x now else x) := by
    intro b x hx; split
    · exact hx.trans (pollDispatch_noSpinStep x now (hx.el.trans hel))
    · exact hx
  exact (step _ _ ((step _ _ ((step _ _ (.of_frameA (dropPre_frameA s cid))).trans
    (.of_frameA (dropClose_frameA _ cid)))).trans (.of_frameA (dropCancel_frameA _ cid)))).trans
    (.of_frameA (dropFinish_frameA _ cid))

theorem liftT_noSpinStep (s : St) (r : SimT × Bool) : NoSpinStep s (liftT s r) := by
  unfold liftT; dsimp only; split
  · exact ⟨by simp, by rw [filter_spinObs_of_tObs (wakeDispatch_frameA _).tobs]⟩
  · exact ⟨rfl, rfl⟩

theorem take_noSpinStep (s : St) (t' : SimT) (ms : List Msg) :
    NoSpinStep s (ms.foldl (fun s m => emit s (.took (tid s) m)) { s with t := t' }) := by
  have h1 : NoSpinStep s { s with t := t' } := ⟨rfl, rfl⟩
  generalize ({ s with t := t' } : St) = s1 at h1
  induction ms generalizing s1 with
  | nil => exact h1
  | cons m ms ih => exact ih _ (h1.trans (.of_frameA (emit_frameA _ _ rfl)))

/-- Every op of a script keeps the variant and, with the fixed `ensure_writeable`, adds no spin. -/
theorem applyOp_noSpinStep (c : Sys) (op : COp) (hel : c.s.ensureLoop = false) :
    NoSpinStep c.s (applyOp c op).s := by
  cases op with
  | call hd d tr b => exact .of_frameA (newCall_frameA _ _ _ _)
  | pollCall cid => exact .of_frameA (pollCall_frameA _ _ _)
  | dropCall cid site => exact dropCall_noSpinStep _ _ _ _ hel
  | clone hd => exact .of_frameA (cloneHandle_frameA _ _)
  | dropHandle hd => exact .of_frameA (dropHandle_frameA _ _)
  | pollDispatch => exact pollDispatch_noSpinStep _ _ hel
  | dropDispatch => exact .of_frameA (dropDispatch_frameA _)
  | injectResp id res => exact liftT_noSpinStep _ _
  | injectErr => exact liftT_noSpinStep _ _
  | eof => exact liftT_noSpinStep _ _
  | setReady b => exact liftT_noSpinStep _ _
  | setFlush b => exact liftT_noSpinStep _ _
  | fault k => exact ⟨rfl, rfl⟩
  | faultSkip n => exact ⟨rfl, rfl⟩
  | selfWake b => exact ⟨rfl, rfl⟩
  | take n => exact take_noSpinStep _ _ _
  | advance n => exact .of_frameA (onAdvance_frameA _ _)

/-- No `Obs.spin` in the event trace of a script started with the fixed `ensure_writeable`. -/
theorem trace_no_spin (ops : List COp) {c : Sys} (hel : c.s.ensureLoop = false) (t : TaskId) :
    CEv.obs (.spin t) ∉ trace c ops := by
  induction ops generalizing c with
  | nil => intro hm; cases hm
  | cons op ops ih =>
    have h1 := applyOp_noSpinStep { c with s := { c.s with obs := [] } } op hel
    intro hm
    simp only [trace, stepOp, List.mem_cons, reduceCtorEq, false_or, List.mem_append, List.mem_map,
      List.mem_reverse] at hm
    rcases hm with ⟨o, ho, he⟩ | hm
    · cases he
      have : Obs.spin t ∈ (applyOp { c with s := { c.s with obs := [] } } op).s.obs.filter isSpinObs :=
        List.mem_filter.mpr ⟨ho, rfl⟩
      rw [h1.spin] at this
      simp at this
    · exact ih (c := { applyOp { c with s := { c.s with obs := [] } } op with
          s := { (applyOp { c with s := { c.s with obs := [] } } op).s with obs := [] } }) (h1.el.trans hel) hm

/-- No `Obs.spin` among the observations a script accumulates (state form of `trace_no_spin`). -/
theorem foldl_applyOp_noSpinStep (ops : List COp) (c : Sys) (hel : c.s.ensureLoop = false) :
    NoSpinStep c.s (ops.foldl applyOp c).s := by
  induction ops generalizing c with
  | nil => exact .refl _
  | cons op ops ih =>
    have h1 := applyOp_noSpinStep c op hel
    exact h1.trans (ih _ (h1.el.trans hel))

theorem tNext_closeObs (s : St) : (tNext s).1.obs.filter isCloseObs = s.obs.filter isCloseObs := by
  rw [tNext_eq]; split
  · rfl
  · simp [isCloseObs]


theorem tNext_fused_iff (s : St) : (tNext s).1.readFused = true ↔ (tNext s).2 = .eof := by
  rw [tNext_eq]
  split
  · rename_i h; simp [h]
  · simp

theorem pumpRead_fused_iff (s : St) : (pumpRead s).1.readFused = true ↔ (pumpRead s).2 = .none := by
  have key := tNext_fused_iff s
  refine pumpRead_cases (motive := fun p => p.1.readFused = true ↔ p.2 = .none) s ?_ ?_ ?_ ?_ ?_
  · intro s1 h1; rw [h1] at key; simpa using key
  · intro s1 h1; rw [h1] at key; simpa using key
  · intro s1 h1; rw [h1] at key; simpa using key
  · intro s1 id res h1; rw [h1] at key; rw [completeRequest_readFused]; simpa using key
  · intro s1 m h1 _; rw [h1] at key; simpa using key


end TarpcModel.Client.Flow

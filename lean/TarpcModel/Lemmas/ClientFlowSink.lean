import TarpcModel.Lemmas.ClientFlowInv
import TarpcModel.Lemmas.ClientFlowErr
import TarpcModel.Lemmas.ClientFlowSpin
import TarpcModel.Monitors.Client
/-
Glue between the client invariants and the property files `Props/C14Client.lean`, `Props/C09Client.lean`,
`Props/C10Client.lean`: scripts and traces, and a few facts about single polls.
-/
namespace TarpcModel.Client.Flow

/-- The start state of a `cli` script with the `ensure_writeable` variant chosen explicitly
(`initSys` uses the generated flag `Gen.clientEnsureLoop`). -/
def initSysWith (ensureLoop : Bool) (m b c : Nat) (coupled : Bool) : Sys :=
  { s := { init 0 m b c coupled with ensureLoop := ensureLoop } }

theorem initSysWith_inv (el : Bool) (m b c : Nat) (coupled : Bool) : Inv (initSysWith el m b c coupled).s := by
  refine ⟨⟨?_, ?_, ?_⟩, ?_⟩
  · intro w hw; cases hw
  · intro ep w hm; cases hm
  · intro hc; cases hc
  · intro hf; cases hf

/-- Every `tViolation` observation in the event trace of a script started in an invariant state names a
violation other than the three send violations. -/
theorem trace_no_send_violation (ops : List COp) {c : Sys} (h : Inv c.s) (ep : TaskId) (w : String)
    (hm : CEv.obs (.tViolation ep w) ∈ trace c ops) : w ∉ sendViols := by
  induction ops generalizing c with
  | nil => cases hm
  | cons op ops ih =>
    have h1 : Inv (applyOp { c with s := { c.s with obs := [] } } op).s := applyOp_inv op h.clearObs
    simp only [trace, stepOp, List.mem_cons, reduceCtorEq, false_or, List.mem_append, List.mem_map,
      List.mem_reverse] at hm
    rcases hm with ⟨o, ho, he⟩ | hm
    · cases he
      exact h1.base.sv w (h1.base.obsOK.of_mem ho)
    · exact ih h1.clearObs hm


theorem pollDispatchCore_pending_flushed (s : St) (now : Nat) (hr : (pollDispatchCore s now).2 = .pending)
    (ht : (pollDispatchCore s now).1.termErr = none) (hp : (pollDispatchCore s now).1.poisoned = false) :
    Flushed (pollDispatchCore s now).1 := by
  revert hr ht hp
  refine pollDispatchCore_cases (motive := fun p => p.2 = .pending → p.1.termErr = none → p.1.poisoned = false →
    Flushed p.1) s now ?_ ?_ ?_ ?_ ?_
  · intro a s1 fin hta h1 _ ht _
    have := shutDown_termErr s a; rw [h1] at this
    rw [this, hta] at ht; cases ht
  · intro s1 _ h1 _ _ _
    have := run_pending_flushed (runFuel s) s now; rw [h1] at this; exact this rfl
  · intro _ _ _ h; cases h
  · intro _ _ _ _ _ hp; cases hp
  · intro s1 a s2 fin _ _ h2 _ ht _
    have := shutDown_termErr { s1 with termErr := some a } a; rw [h2] at this
    rw [this] at ht; cases ht


theorem any_eq_filter_ne_nil (l : List Obs) : l.any isSpinObs = !(l.filter isSpinObs).isEmpty := by
  induction l with
  | nil => rfl
  | cons o l ih =>
    simp only [List.any_cons, List.filter_cons]
    cases h : isSpinObs o <;> simp [ih]


theorem tNext_closeObs (s : St) : (tNext s).1.obs.filter isCloseObs = s.obs.filter isCloseObs := by
  rw [tNext_eq]; split
  · rfl
  · simp [isCloseObs]


theorem tNext_fused_iff (s : St) : (tNext s).1.readFused = true ↔ (tNext s).2 = .eof := by
  rw [tNext_eq]
  split
  · rename_i h; simp [h]
  · simp

theorem pumpRead_fused_iff (s : St) : (pumpRead s).1.readFused = true ↔ (pumpRead s).2 = .none := by
  have key := tNext_fused_iff s
  refine pumpRead_cases (motive := fun p => p.1.readFused = true ↔ p.2 = .none) s ?_ ?_ ?_ ?_ ?_
  · intro s1 h1; rw [h1] at key; simpa using key
  · intro s1 h1; rw [h1] at key; simpa using key
  · intro s1 h1; rw [h1] at key; simpa using key
  · intro s1 id res h1; rw [h1] at key; rw [completeRequest_readFused]; simpa using key
  · intro s1 m h1 _; rw [h1] at key; simpa using key


end TarpcModel.Client.Flow

import TarpcModel.Lemmas.ServerTable
import TarpcModel.Lemmas.DelayQIdle
/-!
Bridge between the server model and the completeness results for the timer wheel
(`Lemmas/DelayQComplete.lean`, `Lemmas/DelayQReach.lean`): the server only ever applies `insert` (with a clamped
timeout, at the current clock), `remove`, `pollExpired` and a reset (`dropServer`) to its `DelayQueue`, so — while
the clock is below `2^35` ms (`panicFreeNs`) and the clamp fits (`ClampFits`, the fact about the generated constant
behind `C16_server_flags`) — every insert is in the strict range (`DelayQ.InRangeStrict`) and the queue of every
reachable state satisfies the two-sided wheel invariant `DelayQ.Complete` (next to `KeysOk` and `Sound`, which are
part of `TInv`).
-/
namespace TarpcModel.Server.Flow
open TarpcModel

/-- clamped timeouts armed before `panicFreeNs` (2^35 ms) are in the strict range of the wheel, whatever the state of
the queue: `ceilMs (now + clamp) ≤ now_ms + clamp_ms + 1 < 2^36`. -/
theorem clamp_inRangeStrict (hf : ClampFits) (q : DelayQ) (now t : Nat) (hn : now < panicFreeNs) :
    DelayQ.InRangeStrict q now (clampTimeout t) := by
  apply DelayQ.inRangeStrict_of_horizon
  have ht := clampTimeout_le hf.1 t
  have h2 := hf.2
  unfold ceilMs nsPerMs
  unfold panicFreeNs nsPerMs at hn
  unfold clampNs at ht
  unfold delayQMaxMs at h2
  generalize clampTimeout t = T at ht
  generalize Gen.serverTimerClampSecs = S at ht h2
  simp only [Nat.reducePow] at *
  omega

theorem complete_waker {q : DelayQ} (h : DelayQ.Complete q) (b : Bool) : DelayQ.Complete { q with waker := b } :=
  ⟨h.strict.of_eq rfl rfl, ⟨h.dok.dsome, h.dok.dle⟩, h.exp⟩

/-- the timer queue of the state satisfies the two-sided wheel invariant (while the clock is below `2^35` ms) -/
def QC (now : Nat) (s : St) : Prop := now < panicFreeNs → DelayQ.Complete s.timers

theorem QC.of_timers {now : Nat} {s s' : St} (h : QC now s) (ht : s'.timers = s.timers) : QC now s' := by
  intro hn; rw [ht]; exact h hn

theorem QC.mono {now now' : Nat} {s : St} (h : QC now s) (hle : now ≤ now') : QC now' s :=
  fun hn => h (Nat.lt_of_le_of_lt hle hn)

theorem QC.removeTimer {now : Nat} {s : St} (h : QC now s) (k : Nat) : QC now (removeTimer s k) := by
  intro hn
  unfold Server.removeTimer
  cases hr : s.timers.remove k with
  | none => exact h hn
  | some p =>
    obtain ⟨q, w⟩ := p
    have hq := DelayQ.remove_complete hr (h hn)
    simp only
    split
    · rw [wakeServer_timers]; exact hq
    · exact hq

theorem QC.removeRequest {now : Nat} {s : St} (h : QC now s) (id : Nat) : QC now (removeRequest s id).1 := by
  unfold Server.removeRequest
  split
  · exact h
  · exact QC.removeTimer (show QC now { s with inflight := s.inflight.filter (·.id != id) } from h.of_timers rfl) _

theorem QC.cancelRequest {now : Nat} {s : St} (h : QC now s) (id : Nat) : QC now (cancelRequest s id).1 := by
  unfold Server.cancelRequest
  split
  · exact h
  · next e _ =>
    exact QC.removeTimer (show QC now (abortExec { s with inflight := s.inflight.filter (·.id != id) } e.rid) from
      h.of_timers (by rw [abortExec_timers])) _

theorem QC.expireStep (hf : ClampFits) {now : Nat} {s : St} (h : QC now s) : QC now (Server.expireStep s now).1 := by
  intro hn
  have hq := (DelayQ.pollExpired_complete now (h hn)).1
  have hs := expireStep_shape s now
  revert hs
  generalize Server.expireStep s now = p
  intro hs
  obtain ⟨s', r⟩ := p
  dsimp only at hs ⊢
  cases hs with
  | idleNone q hp => rw [hp] at hq; exact hq
  | idlePending q hp => rw [hp] at hq; exact hq
  | orphan q e hp hf' => rw [hp] at hq; exact hq
  | abort q e en hp hf' h0 => rw [hp] at hq; rw [abortExec_timers]; exact hq
  | rearmed q e en s2 hp hf' h0 hr =>
    rw [hp] at hq
    obtain ⟨q2, key, w, hi, rfl⟩ := rearm_some hr
    exact DelayQ.insert_complete hi hq (clamp_inRangeStrict hf q now _ hn)
  | panicked q e en hp hf' h0 hr => exact h hn

theorem QC.expire (hf : ClampFits) {now : Nat} {s : St} (h : QC now s) : QC now (pollExpired s now).1 :=
  pollExpired_ind (P := QC now) now (fun _ h1 => h1.of_timers (emit_timers _ _)) (fun _ h1 => h1.expireStep hf) s h

theorem QC.start (hf : ClampFits) {now : Nat} {s : St} (h : QC now s) (id d : Nat) (tr : Trace) (b : Nat) :
    QC now (startRequest s now id d tr b).1 := by
  intro hn
  unfold Server.startRequest
  split
  · exact h hn
  · rcases hi : s.timers.insert now (clampTimeout (d - now)) id with ⟨q, r, w⟩
    have hq := DelayQ.insert_complete hi (h hn) (clamp_inRangeStrict hf s.timers now _ hn)
    cases r with
    | panic => exact h hn
    | ok key => exact hq

theorem QC.drop {now : Nat} {s : St} (h : QC now s) : QC now (dropServer s) := by
  intro hn
  unfold Server.dropServer
  split
  · exact h hn
  · exact DelayQ.Complete_empty

theorem qc_closed (hf : ClampFits) (now : Nat) : PrimClosed now (QC now) where
  inert := fun _ _ hi h => h.of_timers hi.timers
  emit := fun _ _ _ h => h.of_timers (emit_timers _ _)
  upd := fun _ _ _ _ h => h.of_timers (updExec_timers _ _ _)
  setT := fun _ _ h => h.of_timers rfl
  setFused := fun _ h => h.of_timers rfl
  removeReq := fun _ id h => h.removeRequest id
  cancel := fun s id _ h _ => (h.of_timers (tNext_timers s)).cancelRequest id
  expire := fun _ h => h.expire hf
  start := fun _ id d tr b h => h.start hf id d tr b
  timerWaker := fun _ b h hn => complete_waker (h hn) b
  spin := fun _ h => h.of_timers (emit_timers _ _)
  spunReset := fun _ _ _ h => h.of_timers rfl
  setDone := fun _ _ h => h.of_timers rfl
  drop := fun _ h => h.drop

/-- **Bridge (server).**  In every reachable state whose clock is below `2^35` ms, the server's `DelayQueue` satisfies
the two-sided wheel invariant. -/
theorem qc_reach (hf : ClampFits) (limit : Option Nat) (respCap tcap : Nat) (coupled : Bool) (ops : List SOp) :
    QC (ops.foldl applyOp (initSys limit respCap tcap coupled)).now
      (ops.foldl applyOp (initSys limit respCap tcap coupled)).s :=
  reach_inv QC (qc_closed hf) (fun _ _ _ hle h => h.mono hle) _ (fun _ => DelayQ.Complete_empty) ops

/-- the three invariants of the timer queue in one statement -/
theorem timers_reach (hf : ClampFits) (limit : Option Nat) (respCap tcap : Nat) (coupled : Bool) (ops : List SOp)
    (hT : advSum ops < panicFreeNs) :
    DelayQ.Complete (ops.foldl applyOp (initSys limit respCap tcap coupled)).s.timers ∧
    DelayQ.KeysOk (ops.foldl applyOp (initSys limit respCap tcap coupled)).s.timers ∧
    DelayQ.Sound (ops.foldl applyOp (initSys limit respCap tcap coupled)).s.timers (advSum ops) := by
  have hq := qc_reach hf limit respCap tcap coupled ops
  have ht := (sinv_reach false limit respCap tcap coupled ops).t
  have hnow := foldl_applyOp_now ops (initSys limit respCap tcap coupled)
  have h0 : (initSys limit respCap tcap coupled).now = 0 := rfl
  rw [h0, Nat.zero_add] at hnow
  rw [hnow] at hq ht
  exact ⟨hq hT, ht.wf, ht.sound⟩

/-! ### going idle: nothing is due, and the `Sleep` is armed no later than the earliest tick -/

open DelayQ (Idle)

/-- the last iteration of `poll_expired`'s loop: it reports nothing due and did not panic ⇒ the queue is idle -/
theorem expireStep_idle {now : Nat} {s : St} (hq : DelayQ.Complete s.timers)
    (hr : (Server.expireStep s now).2 = some .pending ∨ (Server.expireStep s now).2 = some .closed)
    (hp : (Server.expireStep s now).1.poisoned = false) : Idle now (Server.expireStep s now).1.timers := by
  have hs := expireStep_shape s now
  revert hs hr hp
  generalize Server.expireStep s now = p
  intro hr hp hs
  obtain ⟨s', r⟩ := p
  dsimp only at hs hr hp ⊢
  cases hs with
  | idleNone q hpq => exact Idle.of_poll hq hpq (.inr rfl)
  | idlePending q hpq => exact Idle.of_poll hq hpq (.inl rfl)
  | orphan q e hpq hf' => rcases hr with hr | hr <;> cases hr
  | abort q e en hpq hf' h0 => rcases hr with hr | hr <;> cases hr
  | rearmed q e en s2 hpq hf' h0 hr' => rcases hr with hr | hr <;> cases hr
  | panicked q e en hpq hf' h0 hr' => simp at hp

theorem pollExpiredLoop_idle (hf : ClampFits) {now : Nat} (hn : now < panicFreeNs) : ∀ (fuel : Nat) (s : St),
    rearmBudget s < fuel → DelayQ.Complete s.timers → (pollExpiredLoop fuel s now).2 ≠ .ready →
    (pollExpiredLoop fuel s now).1.poisoned = false → Idle now (pollExpiredLoop fuel s now).1.timers := by
  intro fuel
  induction fuel with
  | zero => intro s hb; omega
  | succ n ih =>
    intro s hb hq
    rw [pollExpiredLoop_succ]
    have h2 := expireStep_budget s now
    have h3 := expireStep_idle (now := now) hq
    have h4 : QC now (Server.expireStep s now).1 := QC.expireStep hf (fun _ => hq)
    revert h2 h3 h4
    generalize Server.expireStep s now = p
    intro h2 h3 h4
    rcases p with ⟨s', r⟩
    cases r with
    | some r =>
      intro hr hp
      dsimp only at hr hp h3 ⊢
      cases r with
      | ready => exact absurd rfl hr
      | closed => exact h3 (.inr rfl) hp
      | pending => exact h3 (.inl rfl) hp
    | none => exact ih s' (by have := h2 rfl; simp only at this; omega) (h4 hn)

/-- **`poll_expired` going idle.**  If the channel's `poll_expired` at clock `now` reports no expiration (and did not
panic), no timer of the queue it leaves behind is due. -/
theorem pollExpired_idle (hf : ClampFits) {now : Nat} (hn : now < panicFreeNs) {s : St} (hq : DelayQ.Complete s.timers)
    (hr : (pollExpired s now).2 ≠ .ready) (hp : (pollExpired s now).1.poisoned = false) :
    Idle now (pollExpired s now).1.timers := by
  unfold Server.pollExpired at hr hp ⊢
  split
  · next he => exact Idle.of_empty he
  · next he =>
    rw [if_neg he] at hr hp
    exact pollExpiredLoop_idle hf hn _ s (by rw [expireFuel_eq]; omega) hq hr hp

theorem bpStep_idle_timers (hf : ClampFits) {now : Nat} (hn : now < panicFreeNs) {s : St} (hq : QC now s)
    (h : (bpStep s now).2 = some .pending ∨ (bpStep s now).2 = some .none) : Idle now (bpStep s now).1.timers := by
  obtain ⟨h1, h2, -, -⟩ := bpStep_idle s now h
  rw [h2]
  have hq1 : QC now (bpCancel s).1 := (qc_closed hf now).toStepClosed.bpCancel s hq
  refine pollExpired_idle hf hn (hq1 hn) h1 ?_
  have ho := bpStep_out s now
  revert ho h
  generalize bpStep s now = out
  intro h ho
  cases ho with
  | closed hp _ _ _ _ => exact hp
  | pending hp _ _ _ _ => exact hp
  | _ => rcases h with h | h <;> cases h

/-- **The channel's `poll_next` going idle.**  From a state whose timer queue satisfies the wheel invariant, at a clock
below `2^35` ms: if `BaseChannel::poll_next` returns `Pending` or the end of the stream, the timer queue it leaves behind
is idle — no timer is due, the waker is stored and the `Sleep` is armed no later than the earliest tick. -/
theorem basePollNext_idle_timers (hf : ClampFits) {now : Nat} (hn : now < panicFreeNs) : ∀ (fuel : Nat) (s : St), QC now s →
    ((basePollNext fuel s now).2 = .pending ∨ (basePollNext fuel s now).2 = .none) →
    Idle now (basePollNext fuel s now).1.timers := by
  intro fuel
  induction fuel with
  | zero => intro s _ h; rcases h with h | h <;> cases h
  | succ n ih =>
    intro s hq
    rw [basePollNext_succ]
    have hb := bpStep_idle_timers hf hn hq
    have hq' : QC now (bpStep s now).1 := (qc_closed hf now).toStepClosed.bpStep s hq
    revert hb hq'
    generalize bpStep s now = out
    intro hb hq'
    rcases out with ⟨s', r⟩
    cases r with
    | none => exact ih s' hq'
    | some r =>
      intro h
      dsimp only at h hb ⊢
      exact hb (by rcases h with h | h <;> simp [h])

/-! ### the `Requests` stream going idle (no limiter) -/

theorem ensureLoop_tm : ∀ (fuel : Nat) (s : St), (ensureLoop fuel s).1.timers = s.timers := by
  intro fuel
  induction fuel with
  | zero => intro s; rfl
  | succ n ih =>
    intro s
    unfold Server.ensureLoop
    have h1 := tReady_timers s
    generalize tReady s = p at h1 ⊢
    obtain ⟨s1, r⟩ := p
    cases r with
    | ready => exact h1
    | err => exact h1
    | pending =>
      simp only
      have h2 := tFlush_timers s1
      generalize tFlush s1 = p at h2 ⊢
      obtain ⟨s2, f⟩ := p
      cases f with
      | pending => exact h2.trans h1
      | err => exact h2.trans h1
      | ready => exact (ih s2).trans (h2.trans h1)

theorem ensureOnce_tm (s : St) : (ensureOnce s).1.timers = s.timers := by
  unfold Server.ensureOnce
  have h1 := tReady_timers s
  generalize tReady s = p at h1 ⊢
  obtain ⟨s1, r⟩ := p
  cases r with
  | ready => exact h1
  | err => exact h1
  | pending =>
    simp only
    have h2 := tFlush_timers s1
    generalize tFlush s1 = p at h2 ⊢
    obtain ⟨s2, f⟩ := p
    cases f with
    | pending => exact h2.trans h1
    | err => exact h2.trans h1
    | ready =>
      simp only
      have h3 := tReady_timers s2
      generalize tReady s2 = p at h3 ⊢
      obtain ⟨s3, r2⟩ := p
      cases r2 <;> exact h3.trans (h2.trans h1)

theorem ensureWriteable_tm (s : St) : (ensureWriteable s).1.timers = s.timers := by
  unfold Server.ensureWriteable; split
  · exact ensureLoop_tm _ _
  · exact ensureOnce_tm _

theorem flushArm_tm (s : St) (rc : Bool) : (flushArm s rc).1.timers = s.timers := by
  unfold Server.flushArm
  have h1 := tFlush_timers s
  generalize tFlush s = p at h1 ⊢
  obtain ⟨s1, r⟩ := p
  cases r with
  | pending => exact h1
  | err => exact h1
  | ready => simp only; split <;> exact h1

/-- a write pump that ends `Pending` / `None` (nothing was sent) has not touched the timers -/
theorem pumpWrite_idle_timers (s : St) (rc : Bool)
    (h : (pumpWrite s rc).2 = .pending ∨ (pumpWrite s rc).2 = .none) : (pumpWrite s rc).1.timers = s.timers := by
  unfold Server.pumpWrite at h ⊢
  have he := ensureWriteable_tm s
  revert he h
  generalize ensureWriteable s = p
  intro h he
  obtain ⟨s1, r⟩ := p
  dsimp only at he
  cases r with
  | pending => simp only [flushArm_tm]; exact he
  | err a => exact he
  | spin => exact he
  | ready =>
    dsimp only at h ⊢
    cases hq : s1.respQ with
    | nil => simp only [flushArm_tm]; exact he
    | cons x rest =>
      obtain ⟨id, res⟩ := x
      rw [hq] at h
      dsimp only at h
      revert h
      generalize baseStartSend (rqRelease { s1 with respQ := rest }) id res = p2
      intro h
      obtain ⟨s2, o⟩ := p2
      exfalso
      cases o with
      | none => rcases h with h | h <;> cases h
      | some b => cases b <;> (rcases h with h | h <;> cases h)

theorem channelPollNext_none {s : St} (h : s.limit = none) (now : Nat) :
    channelPollNext s now = basePollNext (baseFuel s) s now := by
  unfold Server.channelPollNext; rw [h]

/-- **`Requests::poll_next` going idle (no `MaxRequests` limiter).**  From a state whose timer queue satisfies the wheel
invariant, at a clock below `2^35` ms: if the poll of the request stream ends `Pending` or at the end of the stream, the
timer queue it leaves behind is idle. -/
theorem requestsPollNext_idle_timers (hf : ClampFits) {now : Nat} (hn : now < panicFreeNs) : ∀ (fuel : Nat) (s : St),
    s.limit = none → QC now s →
    ((requestsPollNext fuel s now).2 = .pending ∨ (requestsPollNext fuel s now).2 = .none) →
    Idle now (requestsPollNext fuel s now).1.timers := by
  intro fuel
  induction fuel with
  | zero => intro s _ _ h; rcases h with h | h <;> cases h
  | succ n ih =>
    intro s hl hq
    rw [requestsPollNext_succ, channelPollNext_none hl]
    have h1 := basePollNext_idle_timers hf hn (baseFuel s) s hq
    have hq1 : QC now (basePollNext (baseFuel s) s now).1 := (qc_closed hf now).toLoopClosed.basePollNext _ s hq
    have hl1 : (basePollNext (baseFuel s) s now).1.limit = none :=
      ((cfg_closed s now).toLoopClosed.basePollNext (baseFuel s) s ⟨rfl, rfl, rfl, rfl⟩).2.1.trans hl
    revert h1 hq1 hl1
    generalize basePollNext (baseFuel s) s now = p
    intro h1 hq1 hl1
    obtain ⟨s1, read⟩ := p
    dsimp only at h1 hq1 hl1
    have key : ∀ read' : SPoll Exec, (read' = .pending ∨ read' = .none) → Idle now s1.timers →
        ((match pumpWrite (armRead s1 read') (readClosedOf read') with
          | (s, .err a) => (dropRead s read', ReqPoll.err a)
          | (s, .spin) => (s, .spin)
          | (s, write) =>
              match read', write with
              | .none, .none => (s, .none)
              | .some ex, _ => (s, .item ex.rid)
              | _, .some () => requestsPollNext n s now
              | _, _ => (s, .pending)).2 = .pending ∨
         (match pumpWrite (armRead s1 read') (readClosedOf read') with
          | (s, .err a) => (dropRead s read', ReqPoll.err a)
          | (s, .spin) => (s, .spin)
          | (s, write) =>
              match read', write with
              | .none, .none => (s, .none)
              | .some ex, _ => (s, .item ex.rid)
              | _, .some () => requestsPollNext n s now
              | _, _ => (s, .pending)).2 = .none) →
        Idle now (match pumpWrite (armRead s1 read') (readClosedOf read') with
          | (s, .err a) => (dropRead s read', ReqPoll.err a)
          | (s, .spin) => (s, .spin)
          | (s, write) =>
              match read', write with
              | .none, .none => (s, .none)
              | .some ex, _ => (s, .item ex.rid)
              | _, .some () => requestsPollNext n s now
              | _, _ => (s, .pending)).1.timers := by
      intro read' hrd hidle
      have ha : armRead s1 read' = s1 := by rcases hrd with rfl | rfl <;> rfl
      rw [ha]
      have hw := pumpWrite_idle_timers s1 (readClosedOf read')
      have hq2 : QC now (pumpWrite s1 (readClosedOf read')).1 := (qc_closed hf now).toLoopClosed.pumpWrite _ _ hq1
      have hl2 : (pumpWrite s1 (readClosedOf read')).1.limit = none :=
        ((cfg_closed s1 now).toLoopClosed.pumpWrite s1 (readClosedOf read') ⟨rfl, rfl, rfl, rfl⟩).2.1.trans hl1
      revert hw hq2 hl2
      generalize pumpWrite s1 (readClosedOf read') = pw
      intro hw hq2 hl2
      obtain ⟨s2, write⟩ := pw
      dsimp only at hw hq2 hl2
      rcases hrd with rfl | rfl <;> cases write
      all_goals first
        | (intro h; rcases h with h | h <;> cases h; done)
        | exact ih s2 hl2 hq2
        | (intro _; dsimp only; rw [show s2.timers = s1.timers from hw (.inl rfl)]; exact hidle)
        | (intro _; dsimp only; rw [show s2.timers = s1.timers from hw (.inr rfl)]; exact hidle)
    cases read with
    | err a => intro h; rcases h with h | h <;> cases h
    | spin => intro h; rcases h with h | h <;> cases h
    | pending => exact key .pending (.inl rfl) (h1 (.inl rfl))
    | none => exact key .none (.inr rfl) (h1 (.inr rfl))
    | some ex =>
      dsimp only
      generalize pumpWrite (armRead s1 (.some ex)) (readClosedOf (.some ex)) = pw
      obtain ⟨s2, write⟩ := pw
      cases write <;> (intro h; rcases h with h | h <;> cases h)

end TarpcModel.Server.Flow

import TarpcModel.Lemmas.DelayQComplete
/-!
Consequences of the two-sided wheel invariant (`Lemmas/DelayQComplete.lean`) for single polls and repeated
polling, and the reachability relation under which the invariant holds.
-/
namespace TarpcModel.DelayQ

theorem pair_eta {α β : Type} (p : α × β) : p = (p.1, p.2) := rfl
theorem triple_eta {α β γ : Type} (p : α × β × γ) : p = (p.1, p.2.1, p.2.2) := rfl

/-! ### consequences for one poll -/

/-- **Not late, one poll.**  On a queue satisfying the invariant, a poll that reports nothing (`pending` or
`none`) leaves no due entry behind, has stored the waker, and — if entries remain — the `Sleep` is
registered for an instant in the future that is not after any remaining deadline. -/
theorem pollExpired_nothing_due {q q' : DelayQ} {now : Nat} {r : PollRes} (hq : Complete q)
    (h : q.pollExpired now = (q', r)) (hr : r = .pending ∨ r = .none) :
    (∀ e ∈ items q', now < e.whenMs * nsPerMs) ∧ q'.waker = true ∧
    (∀ e ∈ items q', ∃ t, nextFire q' = some t ∧ now < t ∧ t ≤ e.whenMs * nsPerMs) := by
  have := (pollExpired_complete now hq).2.2
  rw [h] at this
  simp only at this
  obtain ⟨hw, hx, hcase⟩ := this hr
  have hit : items q' = q'.entries := by simp [items, hx]
  rw [hit]
  rcases hcase with ⟨he, _⟩ | ⟨dl, hdl, hlt, hle⟩
  · rw [he]; exact ⟨by simp, hw, by simp⟩
  · have hnf : nextFire q' = some (dl * nsPerMs) := by
      unfold nextFire; rw [hx]; simp [hdl]
    refine ⟨?_, hw, ?_⟩
    · intro e he
      exact Nat.lt_of_lt_of_le hlt (Nat.mul_le_mul_right _ (hle e he))
    · intro e he
      exact ⟨_, hnf, hlt, Nat.mul_le_mul_right _ (hle e he)⟩

theorem mem_cores_iff {q : DelayQ} {c : Nat × Nat × Nat} : c ∈ q.cores ↔ ∃ e ∈ items q, core e = c := by
  simp [cores]

/-- **Not late, converse.**  If some entry is due, the poll yields an entry. -/
theorem pollExpired_due {q : DelayQ} {now : Nat} {e : DqEntry} (hq : Complete q) (hk : KeysOk q)
    (he : e ∈ items q) (hdue : e.whenMs * nsPerMs ≤ now) :
    ∃ e', (q.pollExpired now).2 = .expired e' := by
  cases hr : (q.pollExpired now).2 with
  | expired e' => exact ⟨e', rfl⟩
  | pending =>
    exfalso
    have hc := pollExpired_other (q := q) (q' := (q.pollExpired now).1) (now := now) (r := .pending)
      (Prod.ext rfl hr) hk (fun _ h => by cases h)
    obtain ⟨e', he', hce⟩ := mem_cores_iff.1 ((hc (core e)).2 (mem_cores_iff.2 ⟨e, he, rfl⟩))
    have := (pollExpired_nothing_due hq (q' := (q.pollExpired now).1) (r := .pending) (Prod.ext rfl hr) (.inl rfl)).1 e' he'
    have hw : e'.whenMs = e.whenMs := by
      have := congrArg (fun c => c.2.2) hce; simpa [core] using this
    rw [hw] at this; omega
  | none =>
    exfalso
    have hc := pollExpired_other (q := q) (q' := (q.pollExpired now).1) (now := now) (r := .none)
      (Prod.ext rfl hr) hk (fun _ h => by cases h)
    obtain ⟨e', he', hce⟩ := mem_cores_iff.1 ((hc (core e)).2 (mem_cores_iff.2 ⟨e, he, rfl⟩))
    have := (pollExpired_nothing_due hq (q' := (q.pollExpired now).1) (r := .none) (Prod.ext rfl hr) (.inr rfl)).1 e' he'
    have hw : e'.whenMs = e.whenMs := by
      have := congrArg (fun c => c.2.2) hce; simpa [core] using this
    rw [hw] at this; omega

/-! ### repeated polling -/

/-- poll until the queue reports nothing (at most `fuel` times); returns the entries that came out -/
def drain : Nat → DelayQ → Nat → DelayQ × List DqEntry
  | 0, q, _ => (q, [])
  | fuel + 1, q, now =>
    match q.pollExpired now with
    | (q', .expired e) => ((drain fuel q' now).1, e :: (drain fuel q' now).2)
    | (q', _) => (q', [])

/-- **Not late, repeated polling.**  Polling `len` times (or until the queue reports nothing) removes every
due entry: nothing due remains, and the queue's content is split between what remains and what came out. -/
theorem drain_complete (now : Nat) : ∀ (fuel : Nat) (q : DelayQ), Complete q → KeysOk q → q.len ≤ fuel →
    Complete (drain fuel q now).1 ∧ KeysOk (drain fuel q now).1 ∧
    (∀ e ∈ items (drain fuel q now).1, now < e.whenMs * nsPerMs) ∧
    (∀ c, c ∈ q.cores ↔ c ∈ (drain fuel q now).1.cores ∨ c ∈ (drain fuel q now).2.map core) := by
  intro fuel
  induction fuel with
  | zero =>
    intro q hq hk hl
    have : items q = [] := by
      have := len_eq q
      exact List.eq_nil_of_length_eq_zero (by omega)
    refine ⟨hq, hk, ?_, ?_⟩
    · simp only [drain, this]; simp
    · intro c; simp [drain]
  | succ fuel ih =>
    intro q hq hk hl
    have hcomp := (pollExpired_complete now hq).1
    unfold drain
    rcases hp : q.pollExpired now with ⟨q', r⟩
    rw [hp] at hcomp
    have hk' := pollExpired_WF hp hk
    cases r with
    | expired e =>
      simp only
      have hlt := pollExpired_len_lt hp
      obtain ⟨i1, i2, i3, i4⟩ := ih q' hcomp hk' (by omega)
      refine ⟨i1, i2, i3, ?_⟩
      obtain ⟨hin, hrest⟩ := pollExpired_expired hp hk
      intro c
      simp only [List.map_cons, List.mem_cons]
      rw [← or_assoc, or_comm (a := c ∈ (drain fuel q' now).1.cores), or_assoc, ← i4 c, hrest c]
      constructor
      · intro hc
        by_cases hce : c = core e
        · exact .inl hce
        · right
          refine ⟨hc, ?_⟩
          intro hkey
          apply hce
          -- same key in a queue with distinct keys: same entry
          obtain ⟨a, ha, rfl⟩ := mem_cores_iff.1 hc
          obtain ⟨b, hb, hbe⟩ := mem_cores_iff.1 hin
          have hab : a = b := eq_of_key_eq hk.nodup ha hb (by
            have := congrArg (fun c => c.1) hbe
            simp only [core] at this hkey
            omega)
          rw [hab, hbe]
      · rintro (rfl | ⟨hc, _⟩)
        · exact hin
        · exact hc
    | pending =>
      simp only
      refine ⟨hcomp, hk', (pollExpired_nothing_due hq hp (.inl rfl)).1, ?_⟩
      intro c
      have := pollExpired_other hp hk (fun _ h => by cases h) c
      simp [this]
    | none =>
      simp only
      refine ⟨hcomp, hk', (pollExpired_nothing_due hq hp (.inr rfl)).1, ?_⟩
      intro c
      have := pollExpired_other hp hk (fun _ h => by cases h) c
      simp [this]

/-! ### reachability -/

/-- operations of a queue's owner; `insert` and `poll` happen at the current clock -/
inductive DOp where
  | insert (timeout val : Nat)
  | remove (key : Nat)
  | poll
  | advance (dt : Nat)
deriving Repr, DecidableEq

/-- the library's own range check: `insert` does not panic -/
def InRange (q : DelayQ) (now timeout : Nat) : Prop := whenOf q now timeout - q.wheelElapsed ≤ delayQMaxMs

/-- the range in which the wheel is complete: the deadline is less than one full rotation (2^36 ms) after
the start of the top-level slot (2^30 ms) that contains the wheel clock -/
def InRangeStrict (q : DelayQ) (now timeout : Nat) : Prop :=
  whenOf q now timeout < slotStart q.wheelElapsed 5 + 64 ^ 6

instance (q : DelayQ) (now timeout : Nat) : Decidable (InRange q now timeout) := by
  unfold InRange; infer_instance
instance (q : DelayQ) (now timeout : Nat) : Decidable (InRangeStrict q now timeout) := by
  unfold InRangeStrict; infer_instance

theorem InRangeStrict.inRange {q : DelayQ} {now timeout : Nat} (h : InRangeStrict q now timeout) :
    InRange q now timeout := by
  unfold InRangeStrict slotStart at h
  unfold InRange delayQMaxMs
  have := Nat.mod_le q.wheelElapsed (64 ^ 5)
  simp only [Nat.reducePow] at *
  omega

/-- all deadlines before 2^36 ms (≈ 2.18 years after the queue's creation) are in the strict range -/
theorem inRangeStrict_of_horizon (q : DelayQ) {now timeout : Nat} (h : ceilMs (now + timeout) < 64 ^ 6) :
    InRangeStrict q now timeout := by
  unfold InRangeStrict whenOf slotStart
  have := Nat.mod_lt q.wheelElapsed (show 0 < 64 ^ 5 by decide)
  have := Nat.mod_le q.wheelElapsed (64 ^ 5)
  simp only [Nat.reducePow] at *
  omega

/-- all deadlines at most 63·2^30 ms (≈ 2.14 years) after the wheel clock are in the strict range -/
theorem inRangeStrict_of_le (q : DelayQ) {now timeout : Nat}
    (h : whenOf q now timeout - q.wheelElapsed ≤ 63 * 64 ^ 5) : InRangeStrict q now timeout := by
  unfold InRangeStrict slotStart
  have := Nat.mod_lt q.wheelElapsed (show 0 < 64 ^ 5 by decide)
  have := Nat.mod_le q.wheelElapsed (64 ^ 5)
  simp only [Nat.reducePow] at *
  omega

/-- `Reach P ops q now`: the queue `q` and the clock `now` (ns) result from running `ops`, in order, from the
empty queue at clock 0.  Each `insert`/`poll` is applied at the current clock, the clock only grows, every
`insert` satisfies the range predicate `P` (so it does not panic when `P` implies `InRange`), and every
`remove` is for a key that is present (the real call panics otherwise). -/
inductive Reach (P : DelayQ → Nat → Nat → Prop) : List DOp → DelayQ → Nat → Prop
  | init : Reach P [] {} 0
  | insert {ops q now} (timeout val : Nat) : Reach P ops q now → P q now timeout →
      Reach P (ops ++ [.insert timeout val]) (q.insert now timeout val).1 now
  | remove {ops q now q' w} (key : Nat) : Reach P ops q now → q.remove key = some (q', w) →
      Reach P (ops ++ [.remove key]) q' now
  | poll {ops q now} : Reach P ops q now → Reach P (ops ++ [.poll]) (q.pollExpired now).1 now
  | advance {ops q now} (dt : Nat) : Reach P ops q now → Reach P (ops ++ [.advance dt]) q (now + dt)

/-- executable form of `Reach` (`none`: a precondition is violated) -/
def stepOp (P : DelayQ → Nat → Nat → Prop) [∀ q n t, Decidable (P q n t)] (q : DelayQ) (now : Nat) :
    DOp → Option (DelayQ × Nat)
  | .insert timeout val => if P q now timeout then some ((q.insert now timeout val).1, now) else none
  | .remove key => (q.remove key).map (fun r => (r.1, now))
  | .poll => some ((q.pollExpired now).1, now)
  | .advance dt => some (q, now + dt)

def runFrom (P : DelayQ → Nat → Nat → Prop) [∀ q n t, Decidable (P q n t)] :
    DelayQ → Nat → List DOp → Option (DelayQ × Nat)
  | q, now, [] => some (q, now)
  | q, now, op :: ops => (stepOp P q now op).bind (fun c => runFrom P c.1 c.2 ops)

def runOps (P : DelayQ → Nat → Nat → Prop) [∀ q n t, Decidable (P q n t)] (ops : List DOp) :
    Option (DelayQ × Nat) := runFrom P {} 0 ops

theorem reach_step (P : DelayQ → Nat → Nat → Prop) [∀ q n t, Decidable (P q n t)] {pre : List DOp} {op : DOp}
    {q q1 : DelayQ} {now now1 : Nat} (hr : Reach P pre q now) (hs : stepOp P q now op = some (q1, now1)) :
    Reach P (pre ++ [op]) q1 now1 := by
  cases op with
  | insert timeout val =>
    simp only [stepOp] at hs
    split at hs
    · next hp =>
      simp only [Option.some.injEq, Prod.mk.injEq] at hs
      obtain ⟨rfl, rfl⟩ := hs
      exact Reach.insert timeout val hr hp
    · cases hs
  | remove key =>
    simp only [stepOp] at hs
    cases hrm : q.remove key with
    | none => rw [hrm] at hs; cases hs
    | some r =>
      obtain ⟨r1, r2⟩ := r
      rw [hrm] at hs
      simp only [Option.map_some, Option.some.injEq, Prod.mk.injEq] at hs
      obtain ⟨rfl, rfl⟩ := hs
      exact Reach.remove key hr hrm
  | poll =>
    simp only [stepOp, Option.some.injEq, Prod.mk.injEq] at hs
    obtain ⟨rfl, rfl⟩ := hs
    exact Reach.poll hr
  | advance dt =>
    simp only [stepOp, Option.some.injEq, Prod.mk.injEq] at hs
    obtain ⟨rfl, rfl⟩ := hs
    exact Reach.advance dt hr

theorem reach_of_runFrom (P : DelayQ → Nat → Nat → Prop) [∀ q n t, Decidable (P q n t)] (ops : List DOp) :
    ∀ (pre : List DOp) (q q' : DelayQ) (now now' : Nat), Reach P pre q now →
      runFrom P q now ops = some (q', now') → Reach P (pre ++ ops) q' now' := by
  induction ops with
  | nil =>
    intro pre q q' now now' hr h
    simp only [runFrom, Option.some.injEq, Prod.mk.injEq] at h
    obtain ⟨rfl, rfl⟩ := h
    simpa using hr
  | cons op ops ih =>
    intro pre q q' now now' hr h
    simp only [runFrom] at h
    cases hs : stepOp P q now op with
    | none => rw [hs] at h; cases h
    | some c1 =>
      obtain ⟨q1, n1⟩ := c1
      rw [hs] at h
      simp only [Option.bind_some] at h
      have := ih (pre ++ [op]) q1 q' n1 now' (reach_step P hr hs) h
      simpa using this

theorem reach_of_runOps {P : DelayQ → Nat → Nat → Prop} [∀ q n t, Decidable (P q n t)] {ops : List DOp}
    {q : DelayQ} {now : Nat} (h : runOps P ops = some (q, now)) : Reach P ops q now := by
  have := reach_of_runFrom P ops [] {} q 0 now Reach.init h
  simpa using this

theorem Reach.mono {P P' : DelayQ → Nat → Nat → Prop} (hP : ∀ q n t, P q n t → P' q n t) {ops : List DOp}
    {q : DelayQ} {now : Nat} (h : Reach P ops q now) : Reach P' ops q now := by
  induction h with
  | init => exact .init
  | insert timeout val _ hp ih => exact .insert timeout val ih (hP _ _ _ hp)
  | remove key _ hr ih => exact .remove key ih hr
  | poll _ ih => exact .poll ih
  | advance dt _ ih => exact .advance dt ih

/-- every queue reachable with in-range inserts satisfies the two-sided invariant, has distinct keys, and
satisfies the one-sided invariant `Sound` relative to the clock -/
theorem reach_inv {ops : List DOp} {q : DelayQ} {now : Nat} (h : Reach InRangeStrict ops q now) :
    Complete q ∧ KeysOk q ∧ Sound q now := by
  induction h with
  | init => exact ⟨Complete_empty, WF_empty, Sound_empty 0⟩
  | @insert ops q now timeout val _ hp ih =>
    obtain ⟨i1, i2, i3⟩ := ih
    have heq := triple_eta (q.insert now timeout val)
    exact ⟨insert_complete heq i1 hp, insert_WF heq i2, insert_Sound heq i3⟩
  | remove key _ hr ih =>
    obtain ⟨i1, i2, i3⟩ := ih
    exact ⟨remove_complete hr i1, remove_WF hr i2, remove_Sound hr i3⟩
  | @poll ops q now _ ih =>
    obtain ⟨i1, i2, i3⟩ := ih
    have heq := pair_eta (q.pollExpired now)
    exact ⟨(pollExpired_complete now i1).1, pollExpired_WF heq i2, pollExpired_Sound heq i3⟩
  | advance dt _ ih =>
    obtain ⟨i1, i2, i3⟩ := ih
    exact ⟨i1, i2, i3.mono (Nat.le_add_right _ _)⟩

end TarpcModel.DelayQ

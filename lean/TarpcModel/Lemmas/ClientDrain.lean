import TarpcModel.Lemmas.ClientCq
/-!
# A dispatch poll that goes idle with a writable sink has drained the cancellation queue

`HasT p s`: one of the transport observations of `s` satisfies `p`.  With `p = readyP` (`poll_ready → Pending`):
every path on which `pump_write` ends `Pending` / `None` with cancellations still queued goes through an
`ensure_writeable` that returned `Pending` — which is observed.  So `run → Pending` (and a whole `pollDispatch` that
returns `Pending` without a terminal error and without a panic) leaves `cq = []` unless a `poll_ready → Pending` was
observed (`pollDispatch_drained`).

Together with `CqI` (`Lemmas/ClientCq.lean`): after such a poll every in-flight entry belongs to a call that is still
awaiting it (`pollDispatch_entries_live`).
-/
set_option linter.unusedSimpArgs false
set_option linter.unusedVariables false
namespace TarpcModel.Client

/-- one of the transport observations satisfies `p` -/
def HasT (p : Obs → Bool) (s : St) : Prop := ∃ o ∈ s.obs.filter Flow.isT, p o = true

/-- `poll_ready → Pending` -/
def readyP : Obs → Bool
  | .tReady _ .pending => true
  | _ => false

theorem HasT.frameA {p : Obs → Bool} {s s' : St} (h : Flow.FrameA s s') : HasT p s' ↔ HasT p s := by
  unfold HasT; rw [h.tobs]

theorem hasT_tEmit_mono {p : Obs → Bool} {s : St} (h : HasT p s) (t' : SimT) (o : Obs) (w : Bool) :
    HasT p (Flow.tEmit s t' o w) := by
  obtain ⟨l, dw, he, _, _⟩ := Flow.tEmit_eq s t' o w
  obtain ⟨x, hx, hp⟩ := h
  rw [he]
  exact ⟨x, by simp only [List.filter_append]; exact List.mem_append_right _ hx, hp⟩

theorem hasT_tEmit_new {p : Obs → Bool} (s : St) (t' : SimT) {o : Obs} (w : Bool) (hT : Flow.isT o = true)
    (hp : p o = true) : HasT p (Flow.tEmit s t' o w) := by
  obtain ⟨l, dw, he, _, hh⟩ := Flow.tEmit_eq s t' o w
  rw [he]
  refine ⟨o, ?_, hp⟩
  simp only [List.filter_append]
  exact List.mem_append_left _ (List.mem_of_mem_head? (hh hT))

theorem hasT_tReady {p : Obs → Bool} {s : St} (h : HasT p s) : HasT p (tReady s).1 := by
  rw [Flow.tReady_eq]; exact hasT_tEmit_mono h _ _ _
theorem hasT_tFlush {p : Obs → Bool} {s : St} (h : HasT p s) : HasT p (tFlush s).1 := by
  rw [Flow.tFlush_eq]; exact hasT_tEmit_mono h _ _ _
theorem hasT_tClose {p : Obs → Bool} {s : St} (h : HasT p s) : HasT p (tClose s).1 := by
  rw [Flow.tClose_eq]; exact hasT_tEmit_mono h _ _ _
theorem hasT_tSend {p : Obs → Bool} {s : St} (h : HasT p s) (m : Msg) : HasT p (tSend s m).1 := by
  rw [Flow.tSend_eq]; exact hasT_tEmit_mono h _ _ _

theorem hasT_tNext {p : Obs → Bool} {s : St} (h : HasT p s) : HasT p (tNext s).1 := by
  rw [Flow.tNext_eq]
  split
  · exact h
  · obtain ⟨x, hx, hp⟩ := h
    refine ⟨x, ?_, hp⟩
    simp only [List.filter_cons, Flow.isT_tNext, ↓reduceIte]
    exact List.mem_cons_of_mem _ hx

/-- `poll_ready → Pending` is observed -/
theorem tReady_pending_hasT {s s1 : St} (h : tReady s = (s1, .pending)) : HasT readyP s1 := by
  have e : s1 = (tReady s).1 := by rw [h]
  have r : (tReady s).2 = .pending := by rw [h]
  rw [e, Flow.tReady_eq]
  rw [Flow.tReady_res] at r
  simp only
  exact hasT_tEmit_new s _ _ rfl (by rw [r]; rfl)

theorem hasT_ensureOnce {p : Obs → Bool} {s : St} (h : HasT p s) : HasT p (ensureOnce s).1 := by
  refine Flow.ensureOnce_cases (motive := fun q => HasT p q.1) s ?_ ?_ ?_ ?_ ?_
  · intro s1 h1; have := hasT_tReady h; rw [h1] at this; exact this
  · intro s1 h1; have := hasT_tReady h; rw [h1] at this; exact this
  · intro s1 s2 h1 h2
    have a := hasT_tReady h; rw [h1] at a
    have b := hasT_tFlush a; rw [h2] at b; exact b
  · intro s1 s2 h1 h2
    have a := hasT_tReady h; rw [h1] at a
    have b := hasT_tFlush a; rw [h2] at b; exact b
  · intro s1 s2 s3 r h1 h2 h3
    have a := hasT_tReady h; rw [h1] at a
    have b := hasT_tFlush a; rw [h2] at b
    have c := hasT_tReady b; rw [h3] at c; exact c

theorem hasT_ensureLoop {p : Obs → Bool} (fuel : Nat) {s : St} (h : HasT p s) : HasT p (ensureLoop fuel s).1 := by
  induction fuel generalizing s with
  | zero =>
    rw [Flow.ensureLoop_zero]
    obtain ⟨x, hx, hp⟩ := h
    exact ⟨x, by simp only [Flow.emit_obs, List.filter_cons, Flow.isT_spin, ↓reduceIte]; exact List.mem_cons_of_mem _ hx, hp⟩
  | succ fuel ih =>
    refine Flow.ensureLoop_cases (motive := fun q => HasT p q.1) fuel s ?_ ?_ ?_ ?_ ?_
    · intro s1 h1; have := hasT_tReady h; rw [h1] at this; exact this
    · intro s1 h1; have := hasT_tReady h; rw [h1] at this; exact this
    · intro s1 s2 h1 h2
      have a := hasT_tReady h; rw [h1] at a
      have b := hasT_tFlush a; rw [h2] at b; exact b
    · intro s1 s2 h1 h2
      have a := hasT_tReady h; rw [h1] at a
      have b := hasT_tFlush a; rw [h2] at b; exact b
    · intro s1 s2 h1 h2
      have a := hasT_tReady h; rw [h1] at a
      have b := hasT_tFlush a; rw [h2] at b
      exact ih b

theorem hasT_ensureWriteable {p : Obs → Bool} {s : St} (h : HasT p s) : HasT p (ensureWriteable s).1 := by
  unfold ensureWriteable; split
  · exact hasT_ensureLoop _ h
  · exact hasT_ensureOnce h

/-- `ensure_writeable → Pending` comes from a `poll_ready → Pending` (observed) -/
theorem ensureWriteable_pending_hasT {s s1 : St} (h : ensureWriteable s = (s1, .pending)) : HasT readyP s1 := by
  have key1 : ∀ s, (ensureOnce s).2 = .pending → HasT readyP (ensureOnce s).1 := by
    intro s
    refine Flow.ensureOnce_cases (motive := fun q => q.2 = .pending → HasT readyP q.1) s ?_ ?_ ?_ ?_ ?_
    · intro _ _ hh; cases hh
    · intro _ _ hh; cases hh
    · intro s1 s2 h1 h2 _
      have b := hasT_tFlush (tReady_pending_hasT h1); rw [h2] at b; exact b
    · intro _ _ _ _ hh; cases hh
    · intro s1 s2 s3 r h1 h2 h3 _
      have b := hasT_tFlush (tReady_pending_hasT h1); rw [h2] at b
      have c := hasT_tReady b; rw [h3] at c; exact c
  have key2 : ∀ fuel s, (ensureLoop fuel s).2 = .pending → HasT readyP (ensureLoop fuel s).1 := by
    intro fuel
    induction fuel with
    | zero => intro s hh; rw [Flow.ensureLoop_zero] at hh; cases hh
    | succ fuel ih =>
      intro s
      refine Flow.ensureLoop_cases (motive := fun q => q.2 = .pending → HasT readyP q.1) fuel s ?_ ?_ ?_ ?_ ?_
      · intro _ _ hh; cases hh
      · intro _ _ hh; cases hh
      · intro s1 s2 h1 h2 _
        have b := hasT_tFlush (tReady_pending_hasT h1); rw [h2] at b; exact b
      · intro _ _ _ _ hh; cases hh
      · intro s1 s2 h1 h2 hh
        exact ih s2 hh
  have e : s1 = (ensureWriteable s).1 := by rw [h]
  have r : (ensureWriteable s).2 = .pending := by rw [h]
  rw [e]
  unfold ensureWriteable at r ⊢
  split at r
  · rename_i hl; rw [if_pos hl]; exact key2 _ _ r
  · rename_i hl; rw [if_neg hl]; exact key1 _ r

theorem hasT_pollNextRequest {p : Obs → Bool} {s : St} (h : HasT p s) : HasT p (pollNextRequest s).1 := by
  refine Flow.pollNextRequest_cases (motive := fun q => HasT p q.1) s ?_ ?_ ?_
  · intro _; exact h
  · intro s1 e _ he _; have := hasT_ensureWriteable h; rw [he] at this; exact this
  · intro s1 _ he
    have := hasT_ensureWriteable h; rw [he] at this
    exact (HasT.frameA (Flow.nextRequestLoop_frameA _ s1)).mpr this

theorem hasT_pollWriteRequest {p : Obs → Bool} {s : St} (h : HasT p s) (now : Nat) :
    HasT p (pollWriteRequest s now).1 := by
  have h1 := hasT_pollNextRequest h
  refine Flow.pollWriteRequest_cases (motive := fun q => HasT p q.1) s now ?_ ?_ ?_ ?_
  · intro s1 r hp _; rw [hp] at h1; exact h1
  · intro s1 r s2 hp hins _
    rw [hp] at h1
    exact (HasT.frameA (Flow.insertRequest_frameA hins)).mpr h1
  · intro s1 r s2 s3 hp hins _ hs
    rw [hp] at h1
    have h2 := (HasT.frameA (Flow.insertRequest_frameA hins)).mpr h1
    have := hasT_tSend h2 (.request r.id r.ctx.deadline r.ctx.trace r.body); rw [hs] at this; exact this
  · intro s1 r s2 s3 hp hins _ hs
    rw [hp] at h1
    have h2 := (HasT.frameA (Flow.insertRequest_frameA hins)).mpr h1
    have h3 := hasT_tSend h2 (.request r.id r.ctx.deadline r.ctx.trace r.body); rw [hs] at h3
    exact (HasT.frameA (Flow.completeRequest_frameA _ _ _)).mpr h3

theorem hasT_pollNextCancellation {p : Obs → Bool} {s : St} (h : HasT p s) : HasT p (pollNextCancellation s).1 := by
  refine Flow.pollNextCancellation_cases (motive := fun q => HasT p q.1) s ?_ ?_
  · intro s1 e he _; have := hasT_ensureWriteable h; rw [he] at this; exact this
  · intro s1 he
    have := hasT_ensureWriteable h; rw [he] at this
    exact (HasT.frameA (Flow.nextCancelLoop_frameA _ s1)).mpr this

theorem hasT_pollWriteCancel {p : Obs → Bool} {s : St} (h : HasT p s) : HasT p (pollWriteCancel s).1 := by
  have h1 := hasT_pollNextCancellation h
  refine Flow.pollWriteCancel_cases (motive := fun q => HasT p q.1) s ?_ ?_ ?_
  · intro s1 r hr _; rw [hr] at h1; exact h1
  · intro s1 e s2 hr hs
    rw [hr] at h1
    have := hasT_tSend h1 (.cancel e.id e.ctx.trace); rw [hs] at this; exact this
  · intro s1 e s2 hr hs
    rw [hr] at h1
    have := hasT_tSend h1 (.cancel e.id e.ctx.trace); rw [hs] at this; exact this

/-! ### the cancellation queue is drained -/

/-- the dequeue loop of `poll_next_cancellation`, with enough fuel, stops `Pending` only on an empty queue -/
theorem nextCancelLoop_pending (fuel : Nat) {s s' : St} (h : nextCancelLoop fuel s = (s', .pending))
    (hf : s.cq.length < fuel) : s'.cq = [] := by
  induction fuel generalizing s with
  | zero => omega
  | succ fuel ih =>
    unfold nextCancelLoop at h
    rcases cqRecv_cases s with ⟨i, rest, hcq, heq⟩ | ⟨hcq, _, hne⟩
    · rw [heq] at h
      simp only at h
      rcases hc : cancelRequest { s with cq := rest } i with ⟨s2, oe⟩
      rw [hc] at h
      cases oe with
      | some e => cases h
      | none =>
        simp only at h
        have := cancelRequest_none hc
        subst this
        exact ih h (by simp only; rw [hcq] at hf; simp at hf; omega)
    · rcases hr : cqRecv s with ⟨s1, res⟩
      rw [hr] at h hne
      cases res with
      | pending =>
        simp only [Prod.mk.injEq, and_true] at h
        subst h
        have := (qc_cqRecv_noItem s (by rw [hr]; exact hne)).cq
        rw [hr] at this
        rw [this]; exact hcq
      | closed => cases h
      | item r => exact absurd rfl (hne r)

/-- `poll_next_cancellation` ends `Pending` / `None`: the sink was not ready (observed), or the queue is empty -/
theorem pollNextCancellation_drained {s s1 : St} {r : PW Entry} (h : pollNextCancellation s = (s1, r))
    (hr : r = .pending ∨ r = .none) : HasT readyP s1 ∨ s1.cq = [] := by
  revert h
  refine Flow.pollNextCancellation_cases (motive := fun q => q = (s1, r) → HasT readyP s1 ∨ s1.cq = []) s ?_ ?_
  · intro s0 e he hne hh
    injection hh with h1 h2
    subst h1
    cases e with
    | ready => exact absurd rfl hne
    | pending => exact Or.inl (ensureWriteable_pending_hasT he)
    | err a => rcases hr with rfl | rfl <;> simp [EW.toPW] at h2
    | spin => rcases hr with rfl | rfl <;> simp [EW.toPW] at h2
  · intro s0 he hh
    right
    rcases hr with rfl | rfl
    · exact nextCancelLoop_pending _ hh (Nat.lt_succ_self _)
    · exact (Flow.nextCancelLoop_none hh).1

theorem pollWriteCancel_drained {s s1 : St} {r : PW Unit} (h : pollWriteCancel s = (s1, r))
    (hr : r = .pending ∨ r = .none) : HasT readyP s1 ∨ s1.cq = [] := by
  revert h
  refine Flow.pollWriteCancel_cases (motive := fun q => q = (s1, r) → HasT readyP s1 ∨ s1.cq = []) s ?_ ?_ ?_
  · intro s0 r0 h0 hs hh
    injection hh with h1 h2
    subst h1
    refine pollNextCancellation_drained h0 ?_
    cases r0 <;> rcases hr with rfl | rfl <;> simp_all [PW.pass, PW.isSome]
  · intro _ _ _ _ _ hh; injection hh with _ h2; rcases hr with rfl | rfl <;> cases h2
  · intro _ _ _ _ _ hh; injection hh with _ h2; rcases hr with rfl | rfl <;> cases h2

theorem pumpWrite_drained {s s' : St} {r : PW Unit} {now : Nat} (h : pumpWrite s now = (s', r))
    (hr : r = .pending ∨ r = .none) : HasT readyP s' ∨ s'.cq = [] := by
  revert h
  refine Flow.pumpWrite_cases (motive := fun q => q = (s', r) → HasT readyP s' ∨ s'.cq = []) s now ?_ ?_ ?_ ?_ ?_ ?_
  · intro s1 r1 _ hs hh
    injection hh with _ h2; subst h2
    rcases hr with rfl | rfl <;> simp [PW.isStop] at hs
  · intro s1 r1 s2 r2 _ _ _ hs hh
    injection hh with _ h2; subst h2
    rcases hr with rfl | rfl <;> simp [PW.isStop] at hs
  · intro _ _ _ _ _ _ _ _ _ _ hh; injection hh with _ h2; rcases hr with rfl | rfl <;> cases h2
  · intro _ _ _ _ _ _ _ _ _ _ _ hh; injection hh with _ h2; rcases hr with rfl | rfl <;> cases h2
  · intro s1 s2 s3 s4 r4 _ h2 h3 h4 hh
    injection hh with e1 _; subst e1
    have d := pollWriteCancel_drained h2 (Or.inr rfl)
    have a3 := Flow.pollExpired_frameA s2 now; rw [h3] at a3
    have c3 := Flow.pollExpired_cq_le s2 now; rw [h3] at c3
    have c4 : s4.cq = s3.cq := by have := Flow.tClose_cq s3; rw [h4] at this; exact this
    rcases d with d | d
    · left
      have := hasT_tClose ((HasT.frameA a3).mpr d); rw [h4] at this; exact this
    · right; rw [c4]; exact Flow.nil_of_length_le c3 d
  · intro s1 r1 s2 r2 s3 s4 r4 _ _ h2 hs2 _ h3 h4 hh
    injection hh with e1 _; subst e1
    have d := pollWriteCancel_drained h2 (PW.not_isStop hs2)
    have a3 := Flow.pollExpired_frameA s2 now; rw [h3] at a3
    have c3 := Flow.pollExpired_cq_le s2 now; rw [h3] at c3
    have c4 : s4.cq = s3.cq := by have := Flow.tFlush_cq s3; rw [h4] at this; exact this
    rcases d with d | d
    · left
      have := hasT_tFlush ((HasT.frameA a3).mpr d); rw [h4] at this; exact this
    · right; rw [c4]; exact Flow.nil_of_length_le c3 d

/-- **`run → Pending` has drained the cancellation queue** unless a `poll_ready → Pending` was observed. -/
theorem run_drained (fuel : Nat) {s s' : St} {now : Nat} (h : run fuel s now = (s', .pending)) :
    HasT readyP s' ∨ s'.cq = [] := by
  induction fuel generalizing s with
  | zero => rw [Flow.run_zero] at h; cases h
  | succ fuel ih =>
    revert h
    refine Flow.run_cases (motive := fun q => q = (s', RunRes.pending) → HasT readyP s' ∨ s'.cq = []) fuel s now
      ?_ ?_ ?_ ?_ ?_ ?_ ?_ ?_ ?_
    · intro _ _ _ hh; injection hh with _ h2; cases h2
    · intro _ _ hh; injection hh with _ h2; cases h2
    · intro _ _ _ _ _ _ hh; injection hh with _ h2; cases h2
    · intro _ _ _ _ _ hh; injection hh with _ h2; cases h2
    · intro _ _ _ _ _ _ hh; injection hh with _ h2; cases h2
    · intro _ _ _ _ _ _ _ hh; injection hh with _ h2; cases h2
    · intro s1 s2 _ h2 _ hh
      injection hh with e1 _; subst e1
      exact pumpWrite_drained h2 (Or.inr rfl)
    · intro s1 rd s2 wr _ _ _ hh; exact ih hh
    · intro s1 s2 _ h2 hh
      injection hh with e1 _; subst e1
      exact pumpWrite_drained h2 (Or.inl rfl)

theorem pollDispatchCore_drained {s : St} {now : Nat} (hr : (pollDispatchCore s now).2 = .pending)
    (ht : (pollDispatchCore s now).1.termErr = none) (hp : (pollDispatchCore s now).1.poisoned = false) :
    HasT readyP (pollDispatchCore s now).1 ∨ (pollDispatchCore s now).1.cq = [] := by
  revert hr ht hp
  refine Flow.pollDispatchCore_cases (motive := fun q => q.2 = .pending → q.1.termErr = none → q.1.poisoned = false →
    HasT readyP q.1 ∨ q.1.cq = []) s now ?_ ?_ ?_ ?_ ?_
  · intro a s1 fin hta h1 _ ht _
    have := Flow.shutDown_termErr s a; rw [h1] at this
    rw [this, hta] at ht; cases ht
  · intro s1 _ h1 _ _ _; exact run_drained _ h1
  · intro _ _ _ h; cases h
  · intro _ _ _ _ _ hp; cases hp
  · intro s1 a s2 fin _ _ h2 _ ht _
    have := Flow.shutDown_termErr { s1 with termErr := some a } a; rw [h2] at this
    rw [this] at ht; cases ht

theorem foldl_done {α : Type} (f : St → α → St) (hf : ∀ s a, (f s a).done = s.done) (l : List α) (s : St) :
    (l.foldl f s).done = s.done := by
  induction l generalizing s with
  | nil => rfl
  | cons a l ih => simp only [List.foldl_cons]; rw [ih, hf]

theorem dropI_done (s : St) : (dropI s).done = s.done := by
  unfold dropI
  exact foldl_done (fun s (e : Entry) => osDropTx s e.cid) (fun s e => osDropTx_done s e.cid) _ _

theorem dropQ_done (s : St) : (dropQ s).done = s.done := by
  unfold dropQ
  exact foldl_done (fun s (r : DReq) => osDropTx s r.cid) (fun s r => osDropTx_done s r.cid) _ _

theorem pqClose_done (s : St) : (pqClose s).done = s.done := by
  unfold pqClose
  exact foldl_done wakeCall (fun s w => wakeCall_done s w) _ _

theorem dropDispatch_done (s : St) : (dropDispatch s).done = s.done := by
  rw [dropDispatch_stages]
  split
  · rfl
  · show (dropI (dropQ (pqClose { s with dDropped := true, dWoken := false }))).done = s.done
    rw [dropI_done, dropQ_done, pqClose_done]

/-- **A dispatch poll that returns `Pending`** (the dispatch was alive, is not done afterwards, has no terminal error
and did not panic) **has drained the cancellation queue**, unless a `poll_ready → Pending` was observed. -/
theorem pollDispatch_drained {s : St} {now : Nat} (ha : (s.dDropped || s.done.isSome || s.poisoned) = false)
    (h1 : (pollDispatch s now).poisoned = false) (h2 : (pollDispatch s now).done = none)
    (h3 : (pollDispatch s now).termErr = none) :
    HasT readyP (pollDispatch s now) ∨ (pollDispatch s now).cq = [] := by
  rw [Flow.pollDispatch_eq] at h1 h2 h3 ⊢
  split at h2
  · rename_i hc
    rw [dropDispatch_done] at h2
    rw [h2] at hc; simp at hc
  · rename_i hc
    rw [if_neg hc] at h1 h3 ⊢
    rw [Flow.pollDispatchKeep_eq] at h1 h2 h3 ⊢
    rw [if_neg (by simp [ha])] at h1 h2 h3 ⊢
    generalize hcore : pollDispatchCore { s with dWoken := false } now = core at h1 h2 h3 ⊢
    obtain ⟨c1, r⟩ := core
    have hd := pollDispatchCore_drained (s := { s with dWoken := false }) (now := now)
    rw [hcore] at hd
    simp only at h1 h2 h3 hd ⊢
    cases r with
    | pending =>
      simp only [Flow.keepDone] at h1 h2 h3 ⊢
      unfold Flow.keepFinish at h1 h2 h3 ⊢
      split at h1
      · cases h1
      · split at h1
        · rename_i hpo; rw [hpo] at h1; cases h1
        · rename_i hsp hpo
          rw [if_neg hsp, if_neg hpo] at h3 ⊢
          have hpo' : c1.poisoned = false := by simpa using hpo
          rcases hd rfl h3 hpo' with d | d
          · left
            obtain ⟨x, hx, hp⟩ := d
            exact ⟨x, by simpa [Flow.emit_obs, List.filter_cons] using hx, hp⟩
          · right; exact d
    | readyOk => simp [Flow.keepDone] at h2
    | readyErr a => simp [Flow.keepDone] at h2
    | readyNone => simp [Flow.keepDone] at h2
    | readyItem => simp [Flow.keepDone] at h2
    | readyItemErr a => simp [Flow.keepDone] at h2

end TarpcModel.Client

import TarpcModel.Lemmas.DelayQComplete
/-!
The *order* in which the timer-wheel emulation `Prim/DelayQ.lean` yields due timers: what `poll_expired` returns has the
earliest tick (`whenMs`) of all timers in the queue — the wheel processes its slots in chronological order, and the
entries on the `expired` stack (inserted with a tick the wheel clock had already reached) all carry the wheel clock as
their tick (`StackEq`).
-/
namespace TarpcModel.DelayQ

/-- the entries on the `expired` stack carry the wheel clock as their tick -/
def StackEq (q : DelayQ) : Prop := ∀ e ∈ q.expired, e.whenMs = q.wheelElapsed

theorem sst_level0 (e : DqEntry) (h : e.level = 0) : sst e = e.whenMs := by
  unfold sst slotStart
  rw [h]
  simp only [Nat.pow_zero, Nat.mod_one, Nat.sub_zero]

/-- what `Wheel::poll` returns has the earliest tick of the wheel -/
theorem wheelPoll_min (t : Nat) : ∀ (fuel : Nat) (q : DelayQ), WLoop q t → ∀ e, (wheelPoll fuel q t).2 = some e →
    ∀ y ∈ (wheelPoll fuel q t).1.entries, e.whenMs ≤ y.whenMs := by
  intro fuel
  induction fuel with
  | zero => intro q _ e he; cases he
  | succ fuel ih =>
    intro q h
    rw [wheelPoll_succ']
    split
    · intro e he; cases he
    · next ex hex =>
      have hn := nextExpiration_isNext h hex
      have hge : ∀ y ∈ q.entries, ex.deadline ≤ sst y := by
        intro y hy
        cases hat : atSlot ex.level ex.slot y with
        | true => exact Nat.le_of_eq (hn.inSlot y hy hat).symm
        | false => exact Nat.le_of_lt (hn.other y hy hat)
      split
      · intro e he; cases he
      · next hle =>
        have hle : ex.deadline ≤ t := Nat.le_of_not_gt hle
        split
        · next hl0 =>
          have hl0 : ex.level = 0 := by simpa using hl0
          split
          · next e0 he0 =>
            intro e he y hy
            cases he
            obtain ⟨hm, hat⟩ := slotTop_at he0
            have hlv : e0.level = 0 := (atSlot_iff.1 hat).1
            have hsst : sst e0 = ex.deadline := hn.inSlot e0 hm (by rw [hl0]; exact hat)
            rw [sst_level0 e0 hlv] at hsst
            have hy' : y ∈ q.entries := (List.mem_filter.1 hy).1
            have := hge y hy'
            have := sst_le y
            omega
          · intro e he; cases he
        · next hl0 =>
          have hl0 : ex.level ≠ 0 := by simpa using hl0
          obtain ⟨hloop, _⟩ := cascade_WLoop h hn hl0 hle rfl
          exact ih _ hloop

theorem idxTail_min {rec : DelayQ → DelayQ × PollRes} {p : DelayQ × Option DqEntry} {fuel t : Nat} {q : DelayQ}
    (hrec : ∀ q2, WStrict q2 → DelayOk q2 → IdxFuel q2 fuel → ∀ e, (rec q2).2 = .expired e →
      ∀ y ∈ (rec q2).1.entries, e.whenMs ≤ y.whenMs)
    (hp : WPOut q t p.1 p.2) (hmin : ∀ e, p.2 = some e → ∀ y ∈ p.1.entries, e.whenMs ≤ y.whenMs)
    (hfuel : p.2 = none → pot p.1 + 1 ≤ fuel) :
    ∀ e, (idxTail rec p).2 = .expired e → ∀ y ∈ (idxTail rec p).1.entries, e.whenMs ≤ y.whenMs := by
  obtain ⟨p1, p2⟩ := p
  unfold idxTail
  cases p2 with
  | some e0 =>
    intro e he y hy
    simp only at he
    cases he
    exact hmin _ rfl y hy
  | none =>
    simp only
    split
    · intro e he; cases he
    · next hsome =>
      have hsome' : ∃ dl, nextDeadline p1 = some dl := by
        cases hnd : nextDeadline p1 with
        | none => simp [hnd] at hsome
        | some dl => exact ⟨dl, rfl⟩
      obtain ⟨dl, hdl⟩ := hsome'
      exact hrec { p1 with delay := nextDeadline p1 } (hp.strict.of_eq rfl rfl)
        (DelayOk.fresh hp.strict p1.waker)
        (.inl ⟨dl, hdl, (nextDeadline_congr rfl rfl).trans hdl, hfuel rfl⟩)

theorem pollIdx_min (now : Nat) : ∀ (fuel : Nat) (q : DelayQ), WStrict q → DelayOk q → IdxFuel q fuel →
    ∀ e, (pollIdx fuel q now).2 = .expired e → ∀ y ∈ (pollIdx fuel q now).1.entries, e.whenMs ≤ y.whenMs := by
  intro fuel
  induction fuel with
  | zero =>
    intro q _ _ hf
    rcases hf with ⟨_, _, _, h⟩ | h <;> omega
  | succ fuel ih =>
    intro q hs hd hf
    rw [pollIdx_succ_f]
    split
    · next dl hdl =>
      split
      · intro e he; cases he
      · have hs1 : WStrict { q with wheelNow := dl } := hs.of_eq rfl rfl
        have hp := wheelPoll_complete dl (wheelFuel { q with wheelNow := dl }) { q with wheelNow := dl }
          (hs1.loop dl) (wheelFuel_ok hs1)
        have hm := wheelPoll_min dl (wheelFuel { q with wheelNow := dl }) { q with wheelNow := dl } (hs1.loop dl)
        refine idxTail_min ih hp hm ?_
        intro hnone
        have h1 := hp.potle
        have hpq : pot { q with wheelNow := dl } = pot q := rfl
        rcases hf with ⟨dl', h2, h3, h4⟩ | h4
        · rw [hdl] at h2; cases h2
          unfold nextDeadline at h3
          cases hex : nextExpiration q with
          | none => rw [hex] at h3; cases h3
          | some ex =>
            rw [hex] at h3
            simp only [Option.map_some, Option.some.injEq] at h3
            have := hp.progress hnone ex ((nextExpiration_congr rfl rfl).trans hex) (Nat.le_of_eq h3)
            omega
        · omega
    · next hdl =>
      have hp := wheelPoll_complete q.wheelNow (wheelFuel q) q (hs.loop _) (wheelFuel_ok hs)
      have hm := wheelPoll_min q.wheelNow (wheelFuel q) q (hs.loop _)
      refine idxTail_min ih hp hm ?_
      intro hnone
      have h1 := hp.potle
      rcases hf with ⟨dl', h2, _⟩ | h4
      · rw [hdl] at h2; cases h2
      · omega

/-- **What `poll_expired` yields has the earliest tick of the queue.** -/
theorem pollExpired_min {q : DelayQ} (now : Nat) (h : Complete q) (hs : StackEq q) {e : DqEntry}
    (he : (q.pollExpired now).2 = .expired e) : ∀ y ∈ (q.pollExpired now).1.items, e.whenMs ≤ y.whenMs := by
  cases hx : q.expired with
  | cons e0 rest =>
    rw [pollExpired_cons_c now hx] at he ⊢
    simp only at he
    cases he
    intro y hy
    have he0 : e.whenMs = q.wheelElapsed := hs e (by rw [hx]; exact List.mem_cons_self ..)
    rcases List.mem_append.mp hy with h1 | h1
    · have := (h.strict.pos y h1).2.1
      have := slotStart_le y.whenMs y.level
      omega
    · have := hs y (by rw [hx]; exact List.mem_cons_of_mem _ h1)
      omega
  | nil =>
    rw [pollExpired_nil_c now hx] at he ⊢
    have hs0 : WStrict { q with waker := true } := h.strict.of_eq rfl rfl
    have hd0 : DelayOk { q with waker := true } := ⟨h.dok.dsome, h.dok.dle⟩
    have hmin := pollIdx_min now (wheelFuel { q with waker := true } + 8) { q with waker := true } hs0 hd0
      (pollFuel_ok hs0) e he
    have hfr := (pollIdx_frame (wheelFuel { q with waker := true } + 8) { q with waker := true } now).expired_eq
    replace hfr := hfr.trans (show ({ q with waker := true } : DelayQ).expired = [] from hx)
    intro y hy
    unfold items at hy
    rw [hfr, List.append_nil] at hy
    exact hmin y hy


/-! ### `StackEq` is kept by everything the owners of a queue do -/

theorem StackEq_empty : StackEq {} := by intro e he; cases he

theorem StackEq.of_eq {q q' : DelayQ} (h : StackEq q) (h1 : q'.expired = q.expired) (h2 : q'.wheelElapsed = q.wheelElapsed) :
    StackEq q' := by
  intro e he; rw [h1] at he; rw [h2]; exact h e he

theorem insert_stackEq {q q' : DelayQ} {now to v : Nat} {r : InsertRes} {w : Bool}
    (h : q.insert now to v = (q', r, w)) (hq : StackEq q) : StackEq q' := by
  rcases insert_cases h with ⟨_, h'⟩ | ⟨_, _, hE, _, hc⟩
  · exact h' ▸ hq
  · rcases hc with ⟨_, e2, hW⟩ | ⟨_, e2, _, _⟩
    · intro e he
      rw [e2] at he
      rw [hE]
      rcases List.mem_cons.1 he with rfl | he
      · show max (ceilMs (now + to)) q.wheelElapsed = q.wheelElapsed
        have := Nat.le_max_right (ceilMs (now + to)) q.wheelElapsed
        omega
      · exact hq e he
    · exact hq.of_eq e2 hE

theorem remove_stackEq {q q' : DelayQ} {k : Nat} {w : Bool} (h : q.remove k = some (q', w)) (hq : StackEq q) :
    StackEq q' := by
  obtain ⟨_, _, e2, _, e4, _⟩ := remove_cases h
  intro e he
  rw [e2] at he
  rw [e4]
  exact hq e (List.mem_filter.1 he).1

theorem pollExpired_stackEq {q : DelayQ} (now : Nat) (hq : StackEq q) : StackEq (q.pollExpired now).1 := by
  cases hx : q.expired with
  | cons e rest =>
    rw [pollExpired_cons_c now hx]
    intro x hx'
    exact hq x (by rw [hx]; exact List.mem_cons_of_mem _ hx')
  | nil =>
    rw [pollExpired_nil_c now hx]
    have hfr := (pollIdx_frame (wheelFuel { q with waker := true } + 8) { q with waker := true } now).expired_eq
    replace hfr := hfr.trans (show ({ q with waker := true } : DelayQ).expired = [] from hx)
    intro x hx'
    rw [hfr] at hx'; cases hx'

end TarpcModel.DelayQ

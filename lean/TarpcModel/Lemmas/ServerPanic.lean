import TarpcModel.Lemmas.ServerTable
import TarpcModel.Monitors.NoPanic
/-!
The server channel never panics while the clock is below `panicFreeNs` (2^35 ms): lifting the
`panics` clause of the server invariant (`Lemmas/ServerTable.lean`: every `Obs.panic` on record is the
`DelayQueue::insert` range check, and — the armed timeout being clamped (`ClampFits`) — it does not
happen before `panicFreeNs`) from reachable states to the event trace (`trace`, which clears the
recorded observations after every op), and the monitor form (`Monitors/NoPanic.lean`).
-/
namespace TarpcModel.Server.Flow
open TarpcModel

/-- Every panic in the event trace of a script run from a state satisfying the invariant is the
`DelayQueue` range panic and happens at or after `panicFreeNs` (if the clamp fits). -/
theorem trace_panic_ok (ops : List SOp) : ∀ (c : Sys) (w : Bool), SInv w c.now c.s →
    ∀ ep m, SEv.obs (.panic ep m) ∈ trace c ops → PanicOk (c.now + advSum ops) m := by
  induction ops with
  | nil => intro c w _ ep m hm; simp [trace] at hm
  | cons op ops ih =>
    intro c w h ep m hm
    have h0 : SInv false c.now ({ c with s := { c.s with obs := [] } } : Sys).s := h.clear_obs
    have h1 := sinv_applyOp ({ c with s := { c.s with obs := [] } } : Sys) op h0
    have hnow : (applyOp { c with s := { c.s with obs := [] } } op).now = c.now + opAdv op := applyOp_now _ op
    simp only [trace, stepOp, List.mem_cons, List.mem_append, List.mem_map, reduceCtorEq, false_or] at hm
    rcases hm with ⟨o, ho, heq⟩ | hm
    · cases heq
      have := h1.panics ep m (List.mem_reverse.mp ho)
      rw [hnow] at this
      exact this.mono (by simp only [advSum]; omega)
    · have := ih _ false h1.clear_obs ep m hm
      simp only [hnow] at this
      exact this.mono (by simp only [advSum]; omega)

/-- No panic observation in the event trace of a script that stays before `panicFreeNs`. -/
theorem trace_no_panic (hf : ClampFits) (limit : Option Nat) (respCap tcap : Nat) (coupled : Bool) (ops : List SOp)
    (hT : advSum ops < panicFreeNs) (t : TaskId) (site : String) :
    SEv.obs (.panic t site) ∉ trace (initSys limit respCap tcap coupled) ops := by
  intro hm
  have := (trace_panic_ok ops (initSys limit respCap tcap coupled) false
    (sinv_init false limit respCap tcap coupled) t site hm).2 hf
  have h0 : (initSys limit respCap tcap coupled).now = 0 := rfl
  omega

/-- Every panic observation on record in a reachable state is the `DelayQueue` range panic and the
clock has reached `panicFreeNs` (if the clamp fits). -/
theorem reach_panic_ok (limit : Option Nat) (respCap tcap : Nat) (coupled : Bool) (ops : List SOp)
    (t : TaskId) (site : String)
    (hm : Obs.panic t site ∈ (ops.foldl applyOp (initSys limit respCap tcap coupled)).s.obs) :
    PanicOk (advSum ops) site := by
  have := (sinv_reach false limit respCap tcap coupled ops).panics t site hm
  rw [foldl_applyOp_now] at this
  have h0 : (initSys limit respCap tcap coupled).now = 0 := rfl
  rw [h0, Nat.zero_add] at this
  exact this

theorem advSum_prefix_le {pre ops : List SOp} (h : pre <+: ops) : advSum pre ≤ advSum ops := by
  obtain ⟨suf, rfl⟩ := h
  rw [advSum_append]; omega

/-! ### monitor form (`Monitors/NoPanic.lean`) -/

/-- the observations of an event trace, in order -/
def obsOf (evs : List SEv) : List Obs := evs.filterMap (fun e => match e with | .obs o => some o | _ => none)

/-- the update of the `c16` field in `SrvMon.feed` (`Driver/Srv.lean`) -/
def c16Step (acc : Option String) (e : SEv) : Option String :=
  acc.orElse (fun _ => match e with | .obs o => panicOf o | _ => none)

theorem firstPanic_none_of {evs : List SEv} (h : ∀ t site, SEv.obs (.panic t site) ∉ evs) :
    firstPanic (obsOf evs) = none := by
  unfold firstPanic
  rw [List.findSome?_eq_none_iff]
  intro o ho
  obtain ⟨e, he, heq⟩ := List.mem_filterMap.mp ho
  cases e with
  | op _ => simp at heq
  | obs o' =>
    simp only [Option.some.injEq] at heq
    subst heq
    cases o' <;> try rfl
    rename_i t site
    exact absurd he (h t site)

theorem c16Step_foldl_none_of {evs : List SEv} (h : ∀ t site, SEv.obs (.panic t site) ∉ evs) :
    evs.foldl c16Step none = none := by
  induction evs with
  | nil => rfl
  | cons e evs ih =>
    have h1 : c16Step none e = none := by
      cases e with
      | op _ => rfl
      | obs o =>
        cases o <;> try rfl
        rename_i t site
        exact absurd List.mem_cons_self (h t site)
    rw [List.foldl_cons, h1]
    exact ih (fun t site hm => h t site (List.mem_cons_of_mem _ hm))

end TarpcModel.Server.Flow

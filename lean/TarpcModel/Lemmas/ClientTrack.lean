import TarpcModel.Lemmas.ClientOwed
/-!
# What the dispatch does with a tracked request, read off its observations

`TR now s s'` relates the state before and after a step of the dispatch:

* the transport observations only grow; every new observation is a transport observation, a `wake` or a `panic`
  (in particular no `ret` / `counts` / `resolved` is emitted by the pumps);
* every entry of the in-flight table is still there (same id, same deadline) — or there is an *excuse* (`Exc`): a
  `Response id` was read, a `Cancel id` was written, a transport failure was observed, the deadline has passed, the
  dispatch was dropped, panicked, or is shutting down with a terminal error;
* every `Request id` written successfully in this step is tracked (or excused).

Proved for every function of the dispatch, up to `pollDispatch`.
-/
set_option linter.unusedSimpArgs false
set_option linter.unusedVariables false
namespace TarpcModel.Client

/-- what the pumps emit: transport observations, wakes, panics -/
def dispObs : Obs → Bool
  | .wake _ => true
  | .panic _ _ => true
  | .noop => true
  | o => Flow.isT o

/-- `Request id` with deadline `dl` was written successfully -/
def isReqOk (id dl : Nat) : Obs → Bool
  | .tSend _ (.request i d _ _) true => i == id && d == dl
  | _ => false

/-- why a transmitted request need not be tracked (any more) -/
def Exc (now id dl : Nat) (s : St) : Prop :=
  HasT (isRead id) s ∨ HasT (isCancelOk id) s ∨ HasT isFail s ∨ dl ≤ now ∨ s.dDropped = true ∨ s.poisoned = true ∨
    s.termErr.isSome = true

/-- the request is tracked -/
def Kept (id dl : Nat) (s : St) : Prop := ∃ e ∈ s.inflight, e.id = id ∧ e.ctx.deadline = dl

structure TR (now : Nat) (s s' : St) : Prop where
  mono : ∀ o ∈ s.obs.filter Flow.isT, o ∈ s'.obs.filter Flow.isT
  disp : ∀ o ∈ s'.obs, o ∈ s.obs ∨ dispObs o = true
  dd : s'.dDropped = s.dDropped
  po : s.poisoned = true → s'.poisoned = true
  te : s.termErr.isSome = true → s'.termErr.isSome = true
  keep : ∀ e ∈ s.inflight, Kept e.id e.ctx.deadline s' ∨ Exc now e.id e.ctx.deadline s'
  new : ∀ o ∈ s'.obs.filter Flow.isT, ∀ id dl, isReqOk id dl o = true →
    o ∈ s.obs.filter Flow.isT ∨ Kept id dl s' ∨ Exc now id dl s'

theorem HasT.mono {p : Obs → Bool} {s s' : St} (h : HasT p s) (hm : ∀ o ∈ s.obs.filter Flow.isT, o ∈ s'.obs.filter Flow.isT) :
    HasT p s' := by
  obtain ⟨o, ho, hp⟩ := h
  exact ⟨o, hm o ho, hp⟩

theorem Exc.step {now id dl : Nat} {s s' : St} (h : Exc now id dl s) (t : TR now s s') : Exc now id dl s' := by
  rcases h with h | h | h | h | h | h | h
  · exact Or.inl (h.mono t.mono)
  · exact Or.inr (Or.inl (h.mono t.mono))
  · exact Or.inr (Or.inr (Or.inl (h.mono t.mono)))
  · exact Or.inr (Or.inr (Or.inr (Or.inl h)))
  · exact Or.inr (Or.inr (Or.inr (Or.inr (Or.inl (by rw [t.dd]; exact h)))))
  · exact Or.inr (Or.inr (Or.inr (Or.inr (Or.inr (Or.inl (t.po h))))))
  · exact Or.inr (Or.inr (Or.inr (Or.inr (Or.inr (Or.inr (t.te h))))))

theorem TR.refl (now : Nat) (s : St) : TR now s s :=
  ⟨fun _ h => h, fun _ h => Or.inl h, rfl, id, id, fun e he => Or.inl ⟨e, he, rfl, rfl⟩, fun _ h _ _ _ => Or.inl h⟩

theorem TR.trans {now : Nat} {a b c : St} (h1 : TR now a b) (h2 : TR now b c) : TR now a c := by
  refine ⟨fun o ho => h2.mono o (h1.mono o ho), ?_, h2.dd.trans h1.dd, fun h => h2.po (h1.po h),
    fun h => h2.te (h1.te h), ?_, ?_⟩
  · intro o ho
    rcases h2.disp o ho with h | h
    · exact h1.disp o h
    · exact Or.inr h
  · intro e he
    rcases h1.keep e he with ⟨e1, he1, hid, hdl⟩ | hx
    · rcases h2.keep e1 he1 with hk | hx
      · rw [hid, hdl] at hk; exact Or.inl hk
      · rw [hid, hdl] at hx; exact Or.inr hx
    · exact Or.inr (hx.step h2)
  · intro o ho id dl hr
    rcases h2.new o ho id dl hr with h | h | h
    · rcases h1.new o h id dl hr with h' | ⟨e1, he1, hid, hdl⟩ | h'
      · exact Or.inl h'
      · rcases h2.keep e1 he1 with hk | hx
        · rw [hid, hdl] at hk; exact Or.inr (Or.inl hk)
        · rw [hid, hdl] at hx; exact Or.inr (Or.inr hx)
      · exact Or.inr (Or.inr (h'.step h2))
    · exact Or.inr (Or.inl h)
    · exact Or.inr (Or.inr h)

theorem TR.after {now : Nat} {a b c : St} (h2 : TR now b c) (h1 : TR now a b) : TR now a c := h1.trans h2

/-! ### steps that do not call the transport -/

/-- `s'` differs from `s` by wakes / panics and in fields the tracking does not read (the table may differ) -/
structure TB (s s' : St) : Prop where
  tobs : s'.obs.filter Flow.isT = s.obs.filter Flow.isT
  disp : ∀ o ∈ s'.obs, o ∈ s.obs ∨ dispObs o = true
  dd : s'.dDropped = s.dDropped
  po : s.poisoned = true → s'.poisoned = true
  te : s'.termErr = s.termErr

theorem TB.refl (s : St) : TB s s := ⟨rfl, fun _ h => Or.inl h, rfl, id, rfl⟩

theorem TB.trans {a b c : St} (h1 : TB a b) (h2 : TB b c) : TB a c :=
  ⟨h2.tobs.trans h1.tobs, fun o ho => (h2.disp o ho).elim (h1.disp o) Or.inr, h2.dd.trans h1.dd,
   fun h => h2.po (h1.po h), h2.te.trans h1.te⟩

theorem TB.after {a b c : St} (h2 : TB b c) (h1 : TB a b) : TB a c := h1.trans h2

/-- a record update that leaves `obs`, `dDropped`, `termErr` alone and does not un-poison -/
theorem TB.of_same {s s' : St} (h1 : s'.obs = s.obs) (h2 : s'.dDropped = s.dDropped)
    (h3 : s.poisoned = true → s'.poisoned = true) (h4 : s'.termErr = s.termErr) : TB s s' :=
  ⟨by rw [h1], fun o ho => Or.inl (h1 ▸ ho), h2, h3, h4⟩

theorem tb_emit (s : St) (o : Obs) (hd : dispObs o = true) (ht : Flow.isT o = false) : TB s (emit s o) :=
  ⟨by simp [emit, ht], fun x hx => by
    rcases List.mem_cons.mp hx with rfl | h
    · exact Or.inr hd
    · exact Or.inl h, rfl, id, rfl⟩

theorem tb_foldl {α : Type} (f : St → α → St) (hf : ∀ s a, TB s (f s a)) (l : List α) (s : St) : TB s (l.foldl f s) := by
  induction l generalizing s with
  | nil => exact TB.refl _
  | cons a l ih => exact (hf s a).trans (ih _)

theorem tb_wakeDispatch (s : St) : TB s (wakeDispatch s) := by
  unfold wakeDispatch; split
  · exact TB.refl _
  · exact (tb_emit _ _ rfl rfl).after (TB.of_same rfl rfl id rfl)

theorem tb_updCall (s : St) (cid : Nat) (f : Call → Call) : TB s (updCall s cid f) := TB.of_same rfl rfl id rfl

theorem tb_wakeCall (s : St) (cid : Nat) : TB s (wakeCall s cid) := by
  unfold wakeCall
  split
  · split
    · exact (tb_emit _ _ rfl rfl).after (tb_updCall _ _ _)
    · exact TB.refl _
  · exact TB.refl _

theorem tb_osSend (s : St) (cid : Nat) (o : Outcome) : TB s (osSend s cid o) := by
  unfold osSend
  split
  · exact TB.refl _
  · split
    · exact TB.refl _
    · simp only
      split
      · exact (tb_wakeCall _ _).after (tb_updCall _ _ _)
      · exact tb_updCall _ _ _

theorem tb_osDropTx (s : St) (cid : Nat) : TB s (osDropTx s cid) := by
  unfold osDropTx
  split
  · exact TB.refl _
  · split
    · exact TB.refl _
    · simp only
      split
      · exact (tb_wakeCall _ _).after (tb_updCall _ _ _)
      · exact tb_updCall _ _ _

theorem tb_pqRelease (s : St) : TB s (pqRelease s) := by
  unfold pqRelease; split
  · exact (tb_wakeCall _ _).after (TB.of_same rfl rfl id rfl)
  · exact TB.of_same rfl rfl id rfl

theorem tb_pqRecv (s : St) : TB s (pqRecv s).1 := by
  unfold pqRecv; split
  · exact (tb_pqRelease _).after (TB.of_same rfl rfl id rfl)
  · split
    · exact TB.refl _
    · split
      · exact TB.refl _
      · exact TB.of_same rfl rfl id rfl

theorem tb_cqRecv (s : St) : TB s (cqRecv s).1 := by
  unfold cqRecv; split
  · exact TB.of_same rfl rfl id rfl
  · split
    · exact TB.refl _
    · exact TB.of_same rfl rfl id rfl

theorem tb_pqClose (s : St) : TB s (pqClose s) := by
  unfold pqClose
  simp only
  exact (tb_foldl _ (fun s w => tb_wakeCall s w) _ _).after (TB.of_same rfl rfl id rfl)

theorem tb_removeTimer (s : St) (k : Nat) : TB s (removeTimer s k) := by
  unfold removeTimer
  split
  · simp only
    split
    · exact (tb_wakeDispatch _).after (TB.of_same rfl rfl id rfl)
    · exact TB.of_same rfl rfl id rfl
  · exact (tb_emit _ _ rfl rfl).after (TB.of_same rfl rfl (fun _ => rfl) rfl)

/-- a step that leaves the table alone -/
theorem TB.tr {s s' : St} (h : TB s s') (now : Nat) (hinf : s'.inflight = s.inflight) : TR now s s' :=
  ⟨fun o ho => h.tobs ▸ ho, h.disp, h.dd, h.po, fun ht => by rw [h.te]; exact ht,
   fun e he => Or.inl ⟨e, hinf ▸ he, rfl, rfl⟩, fun o ho _ _ _ => Or.inl (h.tobs ▸ ho)⟩

/-- a step that takes entries out of the table (or re-keys them), each removal with an excuse -/
theorem TB.tr_remove {s s' : St} (h : TB s s') (now : Nat)
    (hinf : ∀ e ∈ s.inflight, Kept e.id e.ctx.deadline s' ∨ Exc now e.id e.ctx.deadline s') : TR now s s' :=
  ⟨fun o ho => h.tobs ▸ ho, h.disp, h.dd, h.po, fun ht => by rw [h.te]; exact ht,
   hinf, fun o ho _ _ _ => Or.inl (h.tobs ▸ ho)⟩

/-! ### transport calls -/

theorem dispObs_of_isT {o : Obs} (h : Flow.isT o = true) : dispObs o = true := by
  cases o <;> simp_all [dispObs, Flow.isT]

theorem isT_of_isReqOk {id dl : Nat} {o : Obs} (h : isReqOk id dl o = true) : Flow.isT o = true := by
  cases o <;> simp_all [isReqOk]

/-- a transport call: one transport observation (plus violations / a wake); a successful `Request` write must be for
a tracked request -/
theorem tr_tEmit (now : Nat) (s : St) (t' : SimT) (o : Obs) (w : Bool) (hT : Flow.isT o = true)
    (hnew : ∀ id dl, isReqOk id dl o = true → Kept id dl s) : TR now s (Flow.tEmit s t' o w) := by
  obtain ⟨l, dw, he, hl, _⟩ := Flow.tEmit_eq s t' o w
  rw [he]
  refine ⟨?_, ?_, rfl, id, id, fun e he => Or.inl ⟨e, he, rfl, rfl⟩, ?_⟩
  · intro x hx
    simp only [List.filter_append]
    exact List.mem_append_right _ hx
  · intro x hx
    rcases List.mem_append.mp hx with hx | hx
    · right
      rcases hl x hx with rfl | rfl | ⟨v, _, rfl⟩
      · exact dispObs_of_isT hT
      · rfl
      · rfl
    · exact Or.inl hx
  · intro x hx id dl hr
    simp only [List.filter_append] at hx
    rcases List.mem_append.mp hx with hx | hx
    · have hx' := (List.mem_filter.mp hx).1
      rcases hl x hx' with rfl | rfl | ⟨v, _, rfl⟩
      · exact Or.inr (Or.inl (hnew id dl hr))
      · simp [isReqOk] at hr
      · simp [isReqOk] at hr
    · exact Or.inl hx

theorem tr_tReady (now : Nat) (s : St) : TR now s (tReady s).1 := by
  rw [Flow.tReady_eq]
  exact tr_tEmit now s s.t.pollReady.1 (.tReady (tid s) s.t.pollReady.2.1) s.t.pollReady.2.2 rfl
    (fun _ _ h => by simp [isReqOk] at h)
theorem tr_tFlush (now : Nat) (s : St) : TR now s (tFlush s).1 := by
  rw [Flow.tFlush_eq]
  exact tr_tEmit now s s.t.pollFlush.1 (.tFlush (tid s) s.t.pollFlush.2.1) s.t.pollFlush.2.2 rfl
    (fun _ _ h => by simp [isReqOk] at h)
theorem tr_tClose (now : Nat) (s : St) : TR now s (tClose s).1 := by
  rw [Flow.tClose_eq]
  exact tr_tEmit now s s.t.pollClose.1 (.tClose (tid s) s.t.pollClose.2.1) s.t.pollClose.2.2 rfl
    (fun _ _ h => by simp [isReqOk] at h)
theorem tr_tSend_cancel (now : Nat) (s : St) (id : Nat) (tr : Trace) : TR now s (tSend s (.cancel id tr)).1 := by
  rw [Flow.tSend_eq]
  exact tr_tEmit now s (s.t.startSend (.cancel id tr)).1 (.tSend (tid s) (.cancel id tr) (s.t.startSend (.cancel id tr)).2)
    false rfl (fun _ _ h => by simp [isReqOk] at h)

/-- a transport call that is not a successful `Request` write adds no such observation -/
theorem tEmit_reqOk_old (s : St) (t' : SimT) (o : Obs) (w : Bool) {x : Obs} {id dl : Nat}
    (hx : x ∈ (Flow.tEmit s t' o w).obs.filter Flow.isT) (hr : isReqOk id dl x = true) (hno : isReqOk id dl o = false) :
    x ∈ s.obs.filter Flow.isT := by
  obtain ⟨l, dw, he, hl, _⟩ := Flow.tEmit_eq s t' o w
  rw [he] at hx
  simp only [List.filter_append] at hx
  rcases List.mem_append.mp hx with hx | hx
  · have hx' := (List.mem_filter.mp hx).1
    rcases hl x hx' with rfl | rfl | ⟨v, _, rfl⟩
    · rw [hno] at hr; cases hr
    · simp [isReqOk] at hr
    · simp [isReqOk] at hr
  · exact hx

theorem tr_tSend_request (now : Nat) (s : St) (id dl : Nat) (tr : Trace) (body : Nat)
    (hk : (tSend s (.request id dl tr body)).2 = true → Kept id dl s) : TR now s (tSend s (.request id dl tr body)).1 := by
  rw [Flow.tSend_eq]
  refine tr_tEmit now s (s.t.startSend (.request id dl tr body)).1
    (.tSend (tid s) (.request id dl tr body) (s.t.startSend (.request id dl tr body)).2) false rfl ?_
  intro id' dl' hr
  rw [Flow.tSend_res] at hk
  cases hok : (s.t.startSend (.request id dl tr body)).2 with
  | false => simp [isReqOk, hok] at hr
  | true =>
    simp only [isReqOk, hok, Bool.and_eq_true, beq_iff_eq] at hr
    rw [← hr.1, ← hr.2]; exact hk hok

theorem tr_tNext (now : Nat) (s : St) : TR now s (tNext s).1 := by
  rw [Flow.tNext_eq]
  split
  · exact TR.refl _ _
  · refine ⟨?_, ?_, rfl, id, id, fun e he => Or.inl ⟨e, he, rfl, rfl⟩, ?_⟩
    · intro x hx
      simp only [List.filter_cons, Flow.isT_tNext, ↓reduceIte]
      exact List.mem_cons_of_mem _ hx
    · intro x hx
      rcases List.mem_cons.mp hx with rfl | hx
      · exact Or.inr rfl
      · exact Or.inl hx
    · intro x hx id dl hr
      simp only [List.filter_cons, Flow.isT_tNext, ↓reduceIte] at hx
      rcases List.mem_cons.mp hx with rfl | hx
      · simp [isReqOk] at hr
      · exact Or.inl hx

theorem tr_emit_spin (now : Nat) (s : St) (t : TaskId) : TR now s (emit s (.spin t)) := by
  refine ⟨?_, ?_, rfl, id, id, fun e he => Or.inl ⟨e, he, rfl, rfl⟩, ?_⟩
  · intro x hx
    simp only [Flow.emit_obs, List.filter_cons, Flow.isT_spin, ↓reduceIte]
    exact List.mem_cons_of_mem _ hx
  · intro x hx
    rcases List.mem_cons.mp hx with rfl | hx
    · exact Or.inr rfl
    · exact Or.inl hx
  · intro x hx id dl hr
    simp only [Flow.emit_obs, List.filter_cons, Flow.isT_spin, ↓reduceIte] at hx
    rcases List.mem_cons.mp hx with rfl | hx
    · simp [isReqOk] at hr
    · exact Or.inl hx

theorem tr_ensureOnce (now : Nat) (s : St) : TR now s (ensureOnce s).1 := by
  refine Flow.ensureOnce_cases (motive := fun p => TR now s p.1) s ?_ ?_ ?_ ?_ ?_
  · intro s1 h1; have := tr_tReady now s; rw [h1] at this; exact this
  · intro s1 h1; have := tr_tReady now s; rw [h1] at this; exact this
  · intro s1 s2 h1 h2
    have a := tr_tReady now s; rw [h1] at a
    have b := tr_tFlush now s1; rw [h2] at b
    exact a.trans b
  · intro s1 s2 h1 h2
    have a := tr_tReady now s; rw [h1] at a
    have b := tr_tFlush now s1; rw [h2] at b
    exact a.trans b
  · intro s1 s2 s3 r h1 h2 h3
    have a := tr_tReady now s; rw [h1] at a
    have b := tr_tFlush now s1; rw [h2] at b
    have c := tr_tReady now s2; rw [h3] at c
    exact (a.trans b).trans c

theorem tr_ensureLoop (now : Nat) (fuel : Nat) (s : St) : TR now s (ensureLoop fuel s).1 := by
  induction fuel generalizing s with
  | zero => rw [Flow.ensureLoop_zero]; exact tr_emit_spin now s _
  | succ fuel ih =>
    refine Flow.ensureLoop_cases (motive := fun p => TR now s p.1) fuel s ?_ ?_ ?_ ?_ ?_
    · intro s1 h1; have := tr_tReady now s; rw [h1] at this; exact this
    · intro s1 h1; have := tr_tReady now s; rw [h1] at this; exact this
    · intro s1 s2 h1 h2
      have a := tr_tReady now s; rw [h1] at a
      have b := tr_tFlush now s1; rw [h2] at b
      exact a.trans b
    · intro s1 s2 h1 h2
      have a := tr_tReady now s; rw [h1] at a
      have b := tr_tFlush now s1; rw [h2] at b
      exact a.trans b
    · intro s1 s2 h1 h2
      have a := tr_tReady now s; rw [h1] at a
      have b := tr_tFlush now s1; rw [h2] at b
      exact (a.trans b).trans (ih s2)

theorem tr_ensureWriteable (now : Nat) (s : St) : TR now s (ensureWriteable s).1 := by
  unfold ensureWriteable; split
  · exact tr_ensureLoop now _ _
  · exact tr_ensureOnce now _

/-! ### the request side of the write pump -/

theorem pqRelease_inflight (s : St) : (pqRelease s).inflight = s.inflight := by
  unfold pqRelease; split
  · rw [wakeCall_inflight]
  · rfl

theorem pqRecv_inflight_eq (s : St) : (pqRecv s).1.inflight = s.inflight := by
  unfold pqRecv; split
  · exact pqRelease_inflight _
  · split
    · rfl
    · split <;> rfl

theorem tb_nextRequestLoop (fuel : Nat) (s : St) :
    TB s (nextRequestLoop fuel s).1 ∧ (nextRequestLoop fuel s).1.inflight = s.inflight := by
  induction fuel generalizing s with
  | zero => exact ⟨TB.refl _, rfl⟩
  | succ fuel ih =>
    unfold nextRequestLoop
    have h1 := tb_pqRecv s
    have h2 := pqRecv_inflight_eq s
    rcases hr : pqRecv s with ⟨s1, res⟩
    rw [hr] at h1 h2
    cases res with
    | pending => exact ⟨h1, h2⟩
    | closed => exact ⟨h1, h2⟩
    | item r =>
      simp only
      split
      · exact ⟨h1.trans (ih s1).1, (ih s1).2.trans h2⟩
      · exact ⟨h1, h2⟩

theorem tr_pollNextRequest (now : Nat) (s : St) : TR now s (pollNextRequest s).1 := by
  refine Flow.pollNextRequest_cases (motive := fun p => TR now s p.1) s ?_ ?_ ?_
  · intro _; exact TR.refl _ _
  · intro s1 e _ he _; have := tr_ensureWriteable now s; rw [he] at this; exact this
  · intro s1 _ he
    have := tr_ensureWriteable now s; rw [he] at this
    exact this.trans ((tb_nextRequestLoop _ s1).1.tr now (tb_nextRequestLoop _ s1).2)

/-- `insert_request`: the table grows by the entry of the request (unless the insert panics) -/
theorem insertRequest_track {s s' : St} {now : Nat} {r : DReq} (h : insertRequest s now r = some s') :
    TB s s' ∧ (∀ e ∈ s.inflight, e ∈ s'.inflight) ∧
    (s'.poisoned = true ∨
      (Kept r.id r.ctx.deadline s' ∧ findEntry s r.id = none ∧
        ∀ e ∈ s'.inflight, e ∈ s.inflight ∨ (e.id = r.id ∧ e.cid = r.cid))) := by
  -- the facts about the new entry, whatever its other fields are
  have key1 : ∀ (en : Entry) (s2 : St), en.id = r.id → en.cid = r.cid → en.ctx = r.ctx →
      s2.inflight = s.inflight ++ [en] →
      (∀ e ∈ s.inflight, e ∈ s2.inflight) ∧ Kept r.id r.ctx.deadline s2 ∧
      ∀ e ∈ s2.inflight, e ∈ s.inflight ∨ (e.id = r.id ∧ e.cid = r.cid) := by
    intro en s2 e1 e2 e3 h2
    refine ⟨fun e he => by rw [h2]; exact List.mem_append_left _ he, ⟨en, by rw [h2]; simp, e1, by rw [e3]⟩, ?_⟩
    intro e he
    rw [h2] at he
    rcases List.mem_append.mp he with he | he
    · exact Or.inl he
    · simp only [List.mem_singleton] at he; subst he; exact Or.inr ⟨e1, e2⟩
  unfold insertRequest at h
  split at h
  · injection h with h; subst h
    exact ⟨(tb_emit _ _ rfl rfl).after (TB.of_same rfl rfl (fun _ => rfl) rfl), fun e he => he, Or.inl rfl⟩
  · rename_i hf
    have hf' : findEntry s r.id = none := by simpa using hf
    split at h
    · injection h with h; subst h
      exact ⟨(tb_emit _ _ rfl rfl).after (TB.of_same rfl rfl (fun _ => rfl) rfl), fun e he => he, Or.inl rfl⟩
    · rename_i q key w hq
      injection h with h; subst h
      cases w with
      | false =>
        generalize hS : ({ s with timers := q, inflight := s.inflight ++ [_] } : St) = S
        have hE : ∃ E : Entry, S.inflight = s.inflight ++ [E] ∧ E.id = r.id ∧ E.cid = r.cid ∧ E.ctx = r.ctx := by
          subst hS
          refine Exists.intro ?E ⟨?h1, ?h2, ?h3, ?h4⟩
          case h1 => rfl
          all_goals rfl
        obtain ⟨E, h0, e1, e2, e3⟩ := hE
        obtain ⟨a, b, c⟩ := key1 E _ e1 e2 e3 h0
        subst hS
        exact ⟨TB.of_same rfl rfl (fun h => h) rfl, a, Or.inr ⟨b, hf', c⟩⟩
      | true =>
        simp only [↓reduceIte]
        generalize hS : ({ s with timers := q, inflight := s.inflight ++ [_] } : St) = S
        have hE : ∃ E : Entry, (wakeDispatch S).inflight = s.inflight ++ [E] ∧ E.id = r.id ∧ E.cid = r.cid ∧ E.ctx = r.ctx := by
          subst hS
          refine Exists.intro ?E ⟨?h1, ?h2, ?h3, ?h4⟩
          case h1 => rw [wakeDispatch_inflight]
          all_goals rfl
        obtain ⟨E, h0, e1, e2, e3⟩ := hE
        obtain ⟨a, b, c⟩ := key1 E _ e1 e2 e3 h0
        subst hS
        exact ⟨(tb_wakeDispatch _).after (TB.of_same rfl rfl (fun h => h) rfl), a, Or.inr ⟨b, hf', c⟩⟩

theorem removeTimer_inflight' (s : St) (k : Nat) : (removeTimer s k).inflight = s.inflight := (qc_removeTimer s k).inflight

/-- `complete_request`: the entries other than `id` stay -/
theorem completeRequest_track (s : St) (id : Nat) (o : Outcome) :
    TB s (completeRequest s id o).1 ∧ (∀ e ∈ s.inflight, e.id ≠ id → e ∈ (completeRequest s id o).1.inflight) := by
  unfold completeRequest
  split
  · exact ⟨TB.refl _, fun e he _ => he⟩
  · simp only
    refine ⟨(tb_osSend _ _ _).after ((tb_removeTimer _ _).after (TB.of_same rfl rfl (fun h => h) rfl)), ?_⟩
    intro e he hne
    rw [osSend_inflight, removeTimer_inflight']
    exact List.mem_filter.mpr ⟨he, by simpa using hne⟩

theorem tr_pollWriteRequest (now : Nat) (s : St) : TR now s (pollWriteRequest s now).1 := by
  have h1 := tr_pollNextRequest now s
  refine Flow.pollWriteRequest_cases (motive := fun p => TR now s p.1) s now ?_ ?_ ?_ ?_
  · intro s1 r hp _; rw [hp] at h1; exact h1
  · intro s1 r s2 hp hins _
    rw [hp] at h1
    obtain ⟨tb, hk, _⟩ := insertRequest_track hins
    exact h1.trans (tb.tr_remove now (fun e he => Or.inl ⟨e, hk e he, rfl, rfl⟩))
  · intro s1 r s2 s3 hp hins hpo hs
    rw [hp] at h1
    obtain ⟨tb, hk, hr⟩ := insertRequest_track hins
    have hkept : Kept r.id r.ctx.deadline s2 := by
      rcases hr with h | ⟨h, _⟩
      · rw [hpo] at h; cases h
      · exact h
    have h3 := tr_tSend_request now s2 r.id r.ctx.deadline r.ctx.trace r.body (fun _ => hkept)
    rw [hs] at h3
    exact (h1.trans (tb.tr_remove now (fun e he => Or.inl ⟨e, hk e he, rfl, rfl⟩))).trans h3
  · intro s1 r s2 s3 hp hins hpo hs
    rw [hp] at h1
    obtain ⟨tb, hk, hr⟩ := insertRequest_track hins
    have hfe : findEntry s1 r.id = none := by
      rcases hr with h | ⟨_, h, _⟩
      · rw [hpo] at h; cases h
      · exact h
    -- the write fails: the entry just inserted is taken out again; nothing else changes
    have h3 := tr_tSend_request now s2 r.id r.ctx.deadline r.ctx.trace r.body
      (fun hok => by rw [hs] at hok; cases hok)
    rw [hs] at h3
    have hinf3 : s3.inflight = s2.inflight := by
      have := Flow.tSend_inflight s2 (.request r.id r.ctx.deadline r.ctx.trace r.body); rw [hs] at this; exact this
    have hold : ∀ x ∈ s3.obs.filter Flow.isT, ∀ id dl, isReqOk id dl x = true → x ∈ s2.obs.filter Flow.isT := by
      intro x hx id dl hr'
      have e3 : s3 = (tSend s2 (.request r.id r.ctx.deadline r.ctx.trace r.body)).1 := by rw [hs]
      have r3 : (tSend s2 (.request r.id r.ctx.deadline r.ctx.trace r.body)).2 = false := by rw [hs]
      rw [e3, Flow.tSend_eq] at hx
      rw [Flow.tSend_res] at r3
      exact tEmit_reqOk_old s2 _ _ _ hx hr' (by simp [isReqOk, r3])
    obtain ⟨tb4, hk4⟩ := completeRequest_track s3 r.id .send
    refine h1.trans ⟨?_, ?_, ?_, ?_, ?_, ?_, ?_⟩
    · intro o ho; rw [tb4.tobs]; exact h3.mono o (tb.tobs ▸ ho)
    · intro o ho
      rcases tb4.disp o ho with h | h
      · rcases h3.disp o h with h | h
        · exact tb.disp o h
        · exact Or.inr h
      · exact Or.inr h
    · exact tb4.dd.trans (h3.dd.trans tb.dd)
    · intro hp'; exact tb4.po (h3.po (tb.po hp'))
    · intro ht; rw [tb4.te]; exact h3.te (by rw [tb.te]; exact ht)
    · intro e he
      exact Or.inl ⟨e, hk4 e (hinf3 ▸ hk e he) (findEntry_none hfe e he), rfl, rfl⟩
    · intro o ho id dl hr'
      rw [tb4.tobs] at ho
      left
      have := hold o ho id dl hr'
      rw [tb.tobs] at this; exact this

/-! ### the cancellation side of the write pump -/

theorem cancelRequest_track (s : St) (id : Nat) :
    TB s (cancelRequest s id).1 ∧
    ∀ e ∈ s.inflight, e ∈ (cancelRequest s id).1.inflight ∨ ∃ e0, (cancelRequest s id).2 = some e0 ∧ e0.id = e.id := by
  unfold cancelRequest
  cases hf : findEntry s id with
  | none => exact ⟨TB.refl _, fun e he => Or.inl he⟩
  | some e0 =>
    simp only
    refine ⟨(tb_removeTimer _ _).after (TB.of_same rfl rfl (fun h => h) rfl), ?_⟩
    intro e he
    rw [removeTimer_inflight']
    by_cases hid : e.id = id
    · exact Or.inr ⟨e0, rfl, by rw [(findEntry_some hf).2, hid]⟩
    · exact Or.inl (List.mem_filter.mpr ⟨he, by simpa using hid⟩)

theorem nextCancelLoop_track (fuel : Nat) (s : St) :
    TB s (nextCancelLoop fuel s).1 ∧
    ∀ e ∈ s.inflight, e ∈ (nextCancelLoop fuel s).1.inflight ∨
      ∃ e0, (nextCancelLoop fuel s).2 = .some e0 ∧ e0.id = e.id := by
  induction fuel generalizing s with
  | zero => exact ⟨TB.refl _, fun e he => Or.inl he⟩
  | succ fuel ih =>
    unfold nextCancelLoop
    rcases cqRecv_cases s with ⟨i, rest, hcq, heq⟩ | ⟨_, _, hne⟩
    · rw [heq]
      simp only
      obtain ⟨tb1, k1⟩ := cancelRequest_track { s with cq := rest } i
      rcases hc : cancelRequest { s with cq := rest } i with ⟨s2, oe⟩
      rw [hc] at tb1 k1
      cases oe with
      | some e0 =>
        simp only
        refine ⟨tb1.after (TB.of_same rfl rfl (fun h => h) rfl), fun e he => ?_⟩
        rcases k1 e he with h | ⟨e1, h1, h2⟩
        · exact Or.inl h
        · exact Or.inr ⟨e1, by injection h1 with h1; rw [h1], h2⟩
      | none =>
        simp only
        obtain ⟨tb2, k2⟩ := ih s2
        refine ⟨(tb2.after tb1).after (TB.of_same rfl rfl (fun h => h) rfl), fun e he => ?_⟩
        rcases k1 e he with h | ⟨e1, h1, _⟩
        · exact k2 e h
        · simp at h1
    · have h1 := tb_cqRecv s
      have hq := qc_cqRecv_noItem s hne
      rcases hr : cqRecv s with ⟨s1, res⟩
      rw [hr] at h1 hq hne
      cases res with
      | pending => exact ⟨h1, fun e he => Or.inl (hq.inflight ▸ he)⟩
      | closed => exact ⟨h1, fun e he => Or.inl (hq.inflight ▸ he)⟩
      | item r => exact absurd rfl (hne r)

theorem hasT_tSend_new {p : Obs → Bool} (s : St) (m : Msg) (hp : p (.tSend (tid s) m (tSend s m).2) = true) :
    HasT p (tSend s m).1 := by
  rw [Flow.tSend_eq]
  rw [Flow.tSend_res] at hp
  exact hasT_tEmit_new s _ _ rfl hp

theorem tr_pollWriteCancel (now : Nat) (s : St) : TR now s (pollWriteCancel s).1 := by
  unfold pollWriteCancel
  refine Flow.pollNextCancellation_cases
    (motive := fun p => TR now s (match p with
      | (s, .pending) => (s, (PW.pending : PW Unit))
      | (s, .none) => (s, .none)
      | (s, .err a) => (s, .err a)
      | (s, .spin) => (s, .spin)
      | (s, .some e) =>
          let (s, ok) := tSend s (.cancel e.id e.ctx.trace)
          if ok then (s, .some ()) else (s, .err .write)).1) s ?_ ?_
  · intro s1 e he hne
    have := tr_ensureWriteable now s; rw [he] at this
    cases e <;> simp only [EW.toPW] <;> first | exact this | exact absurd rfl hne
  · intro s0 he
    have h0 := tr_ensureWriteable now s; rw [he] at h0
    obtain ⟨tb1, k1⟩ := nextCancelLoop_track (s0.cq.length + 1) s0
    rcases hl : nextCancelLoop (s0.cq.length + 1) s0 with ⟨s1, res⟩
    rw [hl] at tb1 k1
    simp only at tb1 k1
    have keepAll : (∀ e0, res ≠ .some e0) → TR now s0 s1 := by
      intro hn
      refine tb1.tr_remove now (fun e he => ?_)
      rcases k1 e he with h | ⟨e0, h, _⟩
      · exact Or.inl ⟨e, h, rfl, rfl⟩
      · exact absurd h (hn e0)
    cases res with
    | pending => exact h0.trans (keepAll (fun _ h => by cases h))
    | none => exact h0.trans (keepAll (fun _ h => by cases h))
    | err a => exact h0.trans (keepAll (fun _ h => by cases h))
    | spin => exact h0.trans (keepAll (fun _ h => by cases h))
    | some e0 =>
      simp only
      have h2 := tr_tSend_cancel now s1 e0.id e0.ctx.trace
      have hinf2 := Flow.tSend_inflight s1 (.cancel e0.id e0.ctx.trace)
      have hx : HasT (isCancelOk e0.id) (tSend s1 (.cancel e0.id e0.ctx.trace)).1 ∨
          HasT isFail (tSend s1 (.cancel e0.id e0.ctx.trace)).1 := by
        cases hok : (tSend s1 (.cancel e0.id e0.ctx.trace)).2 with
        | true => exact Or.inl (hasT_tSend_new s1 _ (by rw [hok]; simp [isCancelOk]))
        | false => exact Or.inr (hasT_tSend_new s1 _ (by rw [hok]; rfl))
      have h12 : TR now s0 (tSend s1 (.cancel e0.id e0.ctx.trace)).1 := by
        refine ⟨fun o ho => h2.mono o (tb1.tobs ▸ ho), ?_, h2.dd.trans tb1.dd,
          fun hp => h2.po (tb1.po hp), fun ht => h2.te (by rw [tb1.te]; exact ht), ?_, ?_⟩
        · intro o ho
          rcases h2.disp o ho with h | h
          · exact tb1.disp o h
          · exact Or.inr h
        · intro e he
          rcases k1 e he with h | ⟨e1, h1, hid⟩
          · exact Or.inl ⟨e, hinf2 ▸ h, rfl, rfl⟩
          · injection h1 with h1; subst h1
            right
            rw [← hid]
            rcases hx with hx | hx
            · exact Or.inr (Or.inl hx)
            · exact Or.inr (Or.inr (Or.inl hx))
        · intro o ho id dl hr
          rcases h2.new o ho id dl hr with h | h | h
          · exact Or.inl (tb1.tobs ▸ h)
          · exact Or.inr (Or.inl h)
          · exact Or.inr (Or.inr h)
      rcases hs : tSend s1 (.cancel e0.id e0.ctx.trace) with ⟨s2, ok⟩
      rw [hs] at h12
      simp only
      cases ok <;> exact h0.trans h12

/-! ### expiry (the one place that depends on how the deadline timers are armed) -/

/-- One iteration of `poll_expired`: an entry stays (possibly re-keyed), or its deadline has passed, or the re-arming
insert panicked. -/
theorem expireWith_track {x : Option Nat} {b : Snap} {s : St} {now : Nat} (hi : Inv' x b s now)
    (r : DelayQ × DelayQ.PollRes) (hr : r = s.timers.pollExpired now) :
    TB s (expireWith s now r).st ∧
    ∀ e ∈ s.inflight, Kept e.id e.ctx.deadline (expireWith s now r).st ∨ e.ctx.deadline ≤ now ∨
      (expireWith s now r).st.poisoned = true := by
  suffices H : ∀ st, (expireWith s now r).st = st →
      (TB s st ∧ ∀ e ∈ s.inflight, Kept e.id e.ctx.deadline st ∨ e.ctx.deadline ≤ now ∨ st.poisoned = true) from H _ rfl
  intro st hst
  obtain ⟨hsome, _⟩ := hi.t.expired hi.i.inNodup
  rw [← hr] at hsome
  have same : ∀ q : DelayQ, TB s { s with timers := q } ∧
      ∀ e ∈ s.inflight, Kept e.id e.ctx.deadline { s with timers := q } ∨ e.ctx.deadline ≤ now ∨
        ({ s with timers := q } : St).poisoned = true :=
    fun q => ⟨TB.of_same rfl rfl (fun h => h) rfl, fun e' he' => Or.inl ⟨e', he', rfl, rfl⟩⟩
  unfold expireWith at hst
  split at hst
  · rename_i q e
    obtain ⟨en0, hen0, hid0, _, hdue, _, hdl, _, hdue2, _⟩ := hsome e rfl
    cases hf : findEntry s e.val with
    | none => exact absurd hid0 (findEntry_none_ne hf en0 hen0)
    | some en =>
      rw [hf] at hst
      simp only at hst
      obtain ⟨hen, hid⟩ := findEntry_some_mem hf
      have heq : en = en0 := eq_of_nodup_map (·.id) hi.i.inNodup hen hen0 (by rw [hid, hid0])
      subst heq
      split at hst
      · -- re-armed
        unfold rearm at hst
        rcases rearmWith_cases s e.val (now - en.dueAt + clampTimeout (en.remainder - (now - en.dueAt)))
            (now + clampTimeout (en.remainder - (now - en.dueAt)))
            (q.insert now (clampTimeout (en.remainder - (now - en.dueAt))) e.val) with
          ⟨q', w, _, hrw⟩ | ⟨q', key, w, _, hrw⟩
        · rw [hrw] at hst
          simp only [ExpStep.st] at hst
          subst hst
          exact ⟨(tb_emit _ _ rfl rfl).after (TB.of_same rfl rfl (fun _ => rfl) rfl), fun _ _ => Or.inr (Or.inr rfl)⟩
        · rw [hrw] at hst
          simp only [ExpStep.st] at hst
          have hk : ∀ s2 : St, s2.inflight = s.inflight.map (rearmEntry e.val key
                (now - en.dueAt + clampTimeout (en.remainder - (now - en.dueAt)))
                (now + clampTimeout (en.remainder - (now - en.dueAt)))) →
              ∀ e' ∈ s.inflight, Kept e'.id e'.ctx.deadline s2 := by
            intro s2 h2 e' he'
            refine ⟨rearmEntry e.val key _ _ e', by rw [h2]; exact List.mem_map_of_mem he', ?_, ?_⟩
            · exact (rearmEntry_same _ _ _ _ e').1
            · rw [(rearmEntry_same _ _ _ _ e').2.2]
          cases w with
          | true =>
            simp only [↓reduceIte] at hst
            subst hst
            exact ⟨(tb_wakeDispatch _).after (TB.of_same rfl rfl (fun h => h) rfl),
              fun e' he' => Or.inl (hk _ (wakeDispatch_inflight _) e' he')⟩
          | false =>
            simp only [Bool.false_eq_true, ↓reduceIte] at hst
            subst hst
            exact ⟨TB.of_same rfl rfl (fun h => h) rfl, fun e' he' => Or.inl (hk _ rfl e' he')⟩
      · -- nothing left to arm: the deadline has passed
        rename_i hz
        have hz' : en.remainder - (now - en.dueAt) = 0 := by simpa using hz
        simp only [ExpStep.st] at hst
        subst hst
        refine ⟨(tb_osSend _ _ _).after (TB.of_same rfl rfl (fun h => h) rfl), ?_⟩
        intro e' he'
        by_cases hx : e'.id = e.val
        · have : e' = en := eq_of_nodup_map (·.id) hi.i.inNodup he' hen (by rw [hx, hid])
          subst this
          right; left; omega
        · left
          refine ⟨e', ?_, rfl, rfl⟩
          rw [osSend_inflight]
          exact List.mem_filter.mpr ⟨he', by simpa using hx⟩
  · simp only [ExpStep.st] at hst
    subst hst
    exact same _

theorem tr_of_expire {now : Nat} {s s' : St} (tb : TB s s')
    (hk : ∀ e ∈ s.inflight, Kept e.id e.ctx.deadline s' ∨ e.ctx.deadline ≤ now ∨ s'.poisoned = true) : TR now s s' :=
  tb.tr_remove now (fun e he => by
    rcases hk e he with h | h | h
    · exact Or.inl h
    · exact Or.inr (Or.inr (Or.inr (Or.inr (Or.inl h))))
    · exact Or.inr (Or.inr (Or.inr (Or.inr (Or.inr (Or.inr (Or.inl h)))))))

theorem tr_pollExpiredLoop {x : Option Nat} {b : Snap} {now : Nat} (fuel : Nat) (s : St) (hi : Inv' x b s now) :
    TR now s (pollExpiredLoop fuel s now).1 := by
  induction fuel generalizing s with
  | zero => exact TR.refl _ _
  | succ fuel ih =>
    have i1 : Inv' x b (expireStep s now).st now := hi.expireWith _ rfl
    obtain ⟨tb, hk⟩ := expireWith_track hi (s.timers.pollExpired now) rfl
    have t1 : TR now s (expireStep s now).st := tr_of_expire tb hk
    unfold pollExpiredLoop; split <;> rename_i heq <;> rw [heq] at t1 i1
    · exact t1.trans (ih _ i1)
    · exact t1

theorem tr_pollExpired {x : Option Nat} {b : Snap} {now : Nat} {s : St} (hi : Inv' x b s now) :
    TR now s (pollExpired s now).1 := tr_pollExpiredLoop _ s hi

/-! ### the pumps, `run` -/

theorem tr_pumpWrite {x : Option Nat} {b : Snap} {now : Nat} {s : St} (hi : Inv' x b s now) :
    TR now s (pumpWrite s now).1 := by
  have h1 := tr_pollWriteRequest now s
  have i1 := hi.pollWriteRequest
  refine Flow.pumpWrite_cases (motive := fun p => TR now s p.1) s now ?_ ?_ ?_ ?_ ?_ ?_
  · intro s1 r1 e1 _; rw [e1] at h1; exact h1
  · intro s1 r1 s2 r2 e1 _ e2 _
    rw [e1] at h1
    have h2 := tr_pollWriteCancel now s1; rw [e2] at h2; exact h1.trans h2
  · intro s1 r1 s2 r2 s3 e1 _ e2 _ e3
    rw [e1] at h1 i1
    have h2 := tr_pollWriteCancel now s1
    have i2 := i1.pollWriteCancel
    rw [e2] at h2 i2
    have h3 := tr_pollExpired i2; rw [e3] at h3
    exact (h1.trans h2).trans h3
  · intro s1 r1 s2 r2 s3 e1 _ e2 _ e3 _
    rw [e1] at h1 i1
    have h2 := tr_pollWriteCancel now s1
    have i2 := i1.pollWriteCancel
    rw [e2] at h2 i2
    have h3 := tr_pollExpired i2; rw [e3] at h3
    exact (h1.trans h2).trans h3
  · intro s1 s2 s3 s4 r4 e1 e2 e3 e4
    rw [e1] at h1 i1
    have h2 := tr_pollWriteCancel now s1
    have i2 := i1.pollWriteCancel
    rw [e2] at h2 i2
    have h3 := tr_pollExpired i2; rw [e3] at h3
    have h4 := tr_tClose now s3; rw [e4] at h4
    exact ((h1.trans h2).trans h3).trans h4
  · intro s1 r1 s2 r2 s3 s4 r4 e1 _ e2 _ _ e3 e4
    rw [e1] at h1 i1
    have h2 := tr_pollWriteCancel now s1
    have i2 := i1.pollWriteCancel
    rw [e2] at h2 i2
    have h3 := tr_pollExpired i2; rw [e3] at h3
    have h4 := tr_tFlush now s3; rw [e4] at h4
    exact ((h1.trans h2).trans h3).trans h4

theorem hasT_tNext_item {s s1 : St} {m : Msg} (h : tNext s = (s1, .item m)) :
    Obs.tNext (tid s) (.item m) ∈ s1.obs.filter Flow.isT := by
  have e1 : s1 = (tNext s).1 := by rw [h]
  have r1 : (tNext s).2 = .item m := by rw [h]
  rw [e1]
  rw [Flow.tNext_eq] at r1 ⊢
  split at r1
  · cases r1
  · rename_i hf
    rw [if_neg hf]
    simp only at r1 ⊢
    rw [r1]
    simp

theorem tr_pumpRead (now : Nat) (s : St) : TR now s (pumpRead s).1 := by
  have h1 := tr_tNext now s
  refine Flow.pumpRead_cases (motive := fun p => TR now s p.1) s ?_ ?_ ?_ ?_ ?_
  · intro s1 e1; rw [e1] at h1; exact h1
  · intro s1 e1; rw [e1] at h1; exact h1
  · intro s1 e1; rw [e1] at h1; exact h1
  · intro s1 id res e1
    rw [e1] at h1
    obtain ⟨tb, hk⟩ := completeRequest_track s1 id (outcomeOf res)
    refine h1.trans (tb.tr_remove now (fun e he => ?_))
    by_cases hx : e.id = id
    · right; left
      refine ⟨.tNext (tid s) (.item (.response id res)), ?_, by simp [isRead, hx]⟩
      rw [tb.tobs]; exact hasT_tNext_item e1
    · exact Or.inl ⟨e, hk e he hx, rfl, rfl⟩
  · intro s1 m e1 _; rw [e1] at h1; exact h1

theorem tr_run {x : Option Nat} {b : Snap} {now : Nat} (fuel : Nat) (s : St) (hi : Inv' x b s now) :
    TR now s (run fuel s now).1 := by
  induction fuel generalizing s with
  | zero => rw [Flow.run_zero]; exact tr_emit_spin now s _
  | succ fuel ih =>
    have h1 := tr_pumpRead now s
    have i1 := hi.pumpRead
    have step : ∀ s1 rd s2 wr, pumpRead s = (s1, rd) → pumpWrite s1 now = (s2, wr) →
        Inv' x b s2 now ∧ TR now s s2 := by
      intro s1 rd s2 wr e1 e2
      rw [e1] at i1 h1
      have i2 := i1.pumpWrite
      have h2 := tr_pumpWrite i1
      rw [e2] at i2 h2
      exact ⟨i2, h1.trans h2⟩
    refine Flow.run_cases (motive := fun p => TR now s p.1) fuel s now ?_ ?_ ?_ ?_ ?_ ?_ ?_ ?_ ?_
    · intro s1 a e1; rw [e1] at h1; exact h1
    · intro s1 e1; rw [e1] at h1; exact h1
    · intro s1 rd s2 a e1 e2; exact (step _ _ _ _ e1 e2).2
    · intro s1 rd s2 e1 e2; exact (step _ _ _ _ e1 e2).2
    · intro s1 s2 wr e1 e2 _; exact (step _ _ _ _ e1 e2).2
    · intro s1 rd s2 e1 _ e2 _; exact (step _ _ _ _ e1 e2).2
    · intro s1 s2 e1 e2 _; exact (step _ _ _ _ e1 e2).2
    · intro s1 rd s2 wr e1 e2 _
      obtain ⟨a, b'⟩ := step _ _ _ _ e1 e2
      exact b'.trans (ih s2 a)
    · intro s1 s2 e1 e2; exact (step _ _ _ _ e1 e2).2

/-! ### shutdown, `RequestDispatch::poll` -/

theorem tb_failAll (s : St) (a : Activity) : TB s (failAll s a) := by
  unfold failAll
  simp only
  exact (tb_foldl _ (fun s (e : Entry) => tb_osSend s e.cid _) _ _).after (TB.of_same rfl rfl (fun h => h) rfl)

theorem tb_drainLoop (fuel : Nat) (s : St) (a : Activity) : TB s (drainLoop fuel s a).1 := by
  induction fuel generalizing s with
  | zero => exact TB.refl _
  | succ fuel ih =>
    unfold drainLoop
    have h1 := tb_pqRecv s
    rcases hr : pqRecv s with ⟨s1, res⟩
    rw [hr] at h1
    cases res with
    | pending => exact h1
    | closed => exact h1
    | item r =>
      simp only
      split
      · exact h1.trans (ih _)
      · exact (h1.trans (tb_osSend _ _ _)).trans (ih _)

/-- shutting down with a terminal error: everything tracked is failed — the excuse is the terminal error -/
theorem tr_shutDown (now : Nat) (s : St) (a : Activity) (ht : s.termErr.isSome = true) : TR now s (shutDown s a).1 := by
  have tb : TB s (shutDown s a).1 := by
    unfold shutDown
    simp only
    exact (tb_drainLoop _ _ a).after ((tb_failAll _ a).after (tb_pqClose s))
  refine tb.tr_remove now (fun e he => Or.inr ?_)
  refine Or.inr (Or.inr (Or.inr (Or.inr (Or.inr (Or.inr ?_)))))
  rw [tb.te]; exact ht

theorem tr_pollDispatchCore {x : Option Nat} {b : Snap} {now : Nat} {s : St} (hi : Inv' x b s now) :
    TR now s (pollDispatchCore s now).1 := by
  have hr := tr_run (runFuel s) s hi
  refine Flow.pollDispatchCore_cases (motive := fun p => TR now s p.1) s now ?_ ?_ ?_ ?_ ?_
  · intro a s1 fin hta e1
    have := tr_shutDown now s a (by rw [hta]; rfl); rw [e1] at this; exact this
  · intro s1 _ e1; rw [e1] at hr; exact hr
  · intro s1 _ e1; rw [e1] at hr; exact hr
  · intro s1 _ e1; rw [e1] at hr
    exact hr.trans ((TB.of_same rfl rfl (fun _ => rfl) rfl : TB s1 { s1 with poisoned := true }).tr now rfl)
  · intro s1 a s2 fin _ e1 e2
    rw [e1] at hr
    have h1 : TR now s1 { s1 with termErr := some a } :=
      ⟨fun _ h => h, fun _ h => Or.inl h, rfl, fun h => h, fun _ => rfl,
       fun e he => Or.inl ⟨e, he, rfl, rfl⟩, fun _ h _ _ _ => Or.inl h⟩
    have h2 := tr_shutDown now { s1 with termErr := some a } a rfl; rw [e2] at h2
    exact (hr.trans h1).trans h2

/-! ### a whole poll, the drop of the dispatch, the other ops

`TR0`: `TR` without the clause about the shape of the observations (the end of a poll emits `ret` / `counts`), and with
`dDropped` only going up. -/

structure TR0 (now : Nat) (s s' : St) : Prop where
  mono : ∀ o ∈ s.obs.filter Flow.isT, o ∈ s'.obs.filter Flow.isT
  dd : s.dDropped = true → s'.dDropped = true
  po : s.poisoned = true → s'.poisoned = true
  te : s.termErr.isSome = true → s'.termErr.isSome = true
  keep : ∀ e ∈ s.inflight, Kept e.id e.ctx.deadline s' ∨ Exc now e.id e.ctx.deadline s'
  new : ∀ o ∈ s'.obs.filter Flow.isT, ∀ id dl, isReqOk id dl o = true →
    o ∈ s.obs.filter Flow.isT ∨ Kept id dl s' ∨ Exc now id dl s'

theorem TR.tr0 {now : Nat} {s s' : St} (h : TR now s s') : TR0 now s s' :=
  ⟨h.mono, fun hd => by rw [h.dd]; exact hd, h.po, h.te, h.keep, h.new⟩

theorem Exc.step0 {now id dl : Nat} {s s' : St} (h : Exc now id dl s) (t : TR0 now s s') : Exc now id dl s' := by
  rcases h with h | h | h | h | h | h | h
  · exact Or.inl (h.mono t.mono)
  · exact Or.inr (Or.inl (h.mono t.mono))
  · exact Or.inr (Or.inr (Or.inl (h.mono t.mono)))
  · exact Or.inr (Or.inr (Or.inr (Or.inl h)))
  · exact Or.inr (Or.inr (Or.inr (Or.inr (Or.inl (t.dd h)))))
  · exact Or.inr (Or.inr (Or.inr (Or.inr (Or.inr (Or.inl (t.po h))))))
  · exact Or.inr (Or.inr (Or.inr (Or.inr (Or.inr (Or.inr (t.te h))))))

theorem TR0.refl (now : Nat) (s : St) : TR0 now s s := (TR.refl now s).tr0

theorem TR0.trans {now : Nat} {a b c : St} (h1 : TR0 now a b) (h2 : TR0 now b c) : TR0 now a c := by
  refine ⟨fun o ho => h2.mono o (h1.mono o ho), fun h => h2.dd (h1.dd h), fun h => h2.po (h1.po h),
    fun h => h2.te (h1.te h), ?_, ?_⟩
  · intro e he
    rcases h1.keep e he with ⟨e1, he1, hid, hdl⟩ | hx
    · rcases h2.keep e1 he1 with hk | hx
      · rw [hid, hdl] at hk; exact Or.inl hk
      · rw [hid, hdl] at hx; exact Or.inr hx
    · exact Or.inr (hx.step0 h2)
  · intro o ho id dl hr
    rcases h2.new o ho id dl hr with h | h | h
    · rcases h1.new o h id dl hr with h' | ⟨e1, he1, hid, hdl⟩ | h'
      · exact Or.inl h'
      · rcases h2.keep e1 he1 with hk | hx
        · rw [hid, hdl] at hk; exact Or.inr (Or.inl hk)
        · rw [hid, hdl] at hx; exact Or.inr (Or.inr hx)
      · exact Or.inr (Or.inr (h'.step0 h2))
    · exact Or.inr (Or.inl h)
    · exact Or.inr (Or.inr h)

/-- a step that leaves the table, the transport observations and the three flags alone -/
theorem TR0.of_same {now : Nat} {s s' : St} (h1 : s'.obs.filter Flow.isT = s.obs.filter Flow.isT)
    (h2 : s'.inflight = s.inflight) (h3 : s'.dDropped = s.dDropped) (h4 : s'.poisoned = s.poisoned)
    (h5 : s'.termErr = s.termErr) : TR0 now s s' :=
  ⟨fun o ho => h1 ▸ ho, fun h => by rw [h3]; exact h, fun h => by rw [h4]; exact h, fun h => by rw [h5]; exact h,
   fun e he => Or.inl ⟨e, h2 ▸ he, rfl, rfl⟩, fun o ho _ _ _ => Or.inl (h1 ▸ ho)⟩

/-- the end of a dispatch poll: the bookkeeping of `pollDispatchKeep` after `pollDispatchCore` -/
theorem tr0_keepFinish {now : Nat} {s c1 : St} (h : TR now s c1) (r : Ret) : TR0 now s (Flow.keepFinish s.obs c1 r) := by
  unfold Flow.keepFinish
  split
  · -- the poll span: its observations are replaced by one `spin`, the dispatch is poisoned
    refine ⟨?_, fun hd => by rw [← h.dd] at hd; exact hd, fun _ => rfl, h.te, ?_, ?_⟩
    · intro o ho
      simp only [List.filter_cons, Flow.isT_spin, ↓reduceIte]
      exact List.mem_cons_of_mem _ ho
    · intro e _
      exact Or.inr (Or.inr (Or.inr (Or.inr (Or.inr (Or.inr (Or.inl rfl))))))
    · intro o ho id dl hr
      simp only [List.filter_cons, Flow.isT_spin, ↓reduceIte] at ho
      rcases List.mem_cons.mp ho with rfl | ho
      · simp [isReqOk] at hr
      · exact Or.inl ho
  · split
    · exact h.tr0
    · exact h.tr0.trans (TR0.of_same (by simp [emit]) rfl rfl rfl rfl)

theorem tr0_keepDone (now : Nat) (r : Ret) (s : St) : TR0 now s (Flow.keepDone r s) := by
  unfold Flow.keepDone
  split
  · exact TR0.refl _ _
  · exact TR0.of_same rfl rfl rfl rfl rfl

theorem foldl_field {α β : Type} (g : St → β) (f : St → α → St) (hf : ∀ s a, g (f s a) = g s) (l : List α) (s : St) :
    g (l.foldl f s) = g s := by
  induction l generalizing s with
  | nil => rfl
  | cons a l ih => simp only [List.foldl_cons]; rw [ih, hf]

theorem dropStages_dDropped (s : St) : (dropI (dropQ (pqClose s))).dDropped = s.dDropped := by
  have h1 : ∀ s, (dropI s).dDropped = s.dDropped := fun s => by
    unfold dropI; exact foldl_field (·.dDropped) (fun s (e : Entry) => osDropTx s e.cid) (fun s e => osDropTx_dDropped s e.cid) _ _
  have h2 : ∀ s, (dropQ s).dDropped = s.dDropped := fun s => by
    unfold dropQ; exact foldl_field (·.dDropped) (fun s (r : DReq) => osDropTx s r.cid) (fun s r => osDropTx_dDropped s r.cid) _ _
  have h3 : ∀ s, (pqClose s).dDropped = s.dDropped := fun s => by
    unfold pqClose; exact foldl_field (·.dDropped) wakeCall (fun s w => wakeCall_dDropped s w) _ _
  rw [h1, h2, h3]

theorem dropStages_poisoned (s : St) : (dropI (dropQ (pqClose s))).poisoned = s.poisoned := by
  have h1 : ∀ s, (dropI s).poisoned = s.poisoned := fun s => by
    unfold dropI; exact foldl_field (·.poisoned) (fun s (e : Entry) => osDropTx s e.cid) (fun s e => osDropTx_poisoned s e.cid) _ _
  have h2 : ∀ s, (dropQ s).poisoned = s.poisoned := fun s => by
    unfold dropQ; exact foldl_field (·.poisoned) (fun s (r : DReq) => osDropTx s r.cid) (fun s r => osDropTx_poisoned s r.cid) _ _
  have h3 : ∀ s, (pqClose s).poisoned = s.poisoned := fun s => by
    unfold pqClose; exact foldl_field (·.poisoned) wakeCall (fun s w => wakeCall_poisoned s w) _ _
  rw [h1, h2, h3]

theorem tr0_dropDispatch (now : Nat) (s : St) : TR0 now s (dropDispatch s) := by
  have hA := Flow.dropDispatch_frameA s
  rw [dropDispatch_stages] at hA ⊢
  split
  · exact TR0.of_same (by simp [emit]) rfl rfl rfl rfl
  · rename_i hg
    rw [if_neg hg] at hA
    have hdd : ({ dropI (dropQ (pqClose { s with dDropped := true, dWoken := false })) with cq := [] } : St).dDropped = true := by
      show (dropI (dropQ (pqClose { s with dDropped := true, dWoken := false }))).dDropped = true
      rw [dropStages_dDropped]
    have hpo : ({ dropI (dropQ (pqClose { s with dDropped := true, dWoken := false })) with cq := [] } : St).poisoned = s.poisoned := by
      show (dropI (dropQ (pqClose { s with dDropped := true, dWoken := false }))).poisoned = s.poisoned
      rw [dropStages_poisoned]
    refine ⟨fun o ho => hA.tobs ▸ ho, fun _ => hdd, fun h => by rw [hpo]; exact h, fun h => by rw [hA.termErr]; exact h, ?_,
      fun o ho _ _ _ => Or.inl (hA.tobs ▸ ho)⟩
    intro e _
    exact Or.inr (Or.inr (Or.inr (Or.inr (Or.inr (Or.inl hdd)))))

theorem tr0_pollDispatchKeep {x : Option Nat} {b : Snap} {now : Nat} {s : St} (hi : Inv' x b s now) :
    TR0 now s (pollDispatchKeep s now) := by
  rw [Flow.pollDispatchKeep_eq]
  split
  · exact TR0.of_same (by simp [emit]) rfl rfl rfl rfl
  · have h0 : TR now s { s with dWoken := false } := (TB.of_same rfl rfl (fun h => h) rfl : TB s { s with dWoken := false }).tr now rfl
    have i0 : Inv' x b { s with dWoken := false } now := hi.quiet (by quiet_rfl)
    have h1 := h0.trans (tr_pollDispatchCore i0)
    exact (tr0_keepFinish h1 _).trans (tr0_keepDone now _ _)

theorem tr0_pollDispatch {x : Option Nat} {b : Snap} {now : Nat} {s : St} (hi : Inv' x b s now) :
    TR0 now s (pollDispatch s now) := by
  rw [Flow.pollDispatch_eq]
  split
  · exact (tr0_pollDispatchKeep hi).trans (tr0_dropDispatch now _)
  · exact tr0_pollDispatchKeep hi

/-! ### the call futures and the other ops leave the table and the flags alone -/

structure SameFl (s s' : St) : Prop where
  inflight : s'.inflight = s.inflight
  dDropped : s'.dDropped = s.dDropped
  poisoned : s'.poisoned = s.poisoned

theorem SameFl.refl (s : St) : SameFl s s := ⟨rfl, rfl, rfl⟩
theorem SameFl.trans {a b c : St} (h1 : SameFl a b) (h2 : SameFl b c) : SameFl a c :=
  ⟨h2.inflight.trans h1.inflight, h2.dDropped.trans h1.dDropped, h2.poisoned.trans h1.poisoned⟩
theorem SameFl.after {a b c : St} (h2 : SameFl b c) (h1 : SameFl a b) : SameFl a c := h1.trans h2

theorem same_emit (s : St) (o : Obs) : SameFl s (emit s o) := ⟨rfl, rfl, rfl⟩
theorem same_updCall (s : St) (cid : Nat) (f : Call → Call) : SameFl s (updCall s cid f) := ⟨rfl, rfl, rfl⟩
theorem same_wakeDispatch (s : St) : SameFl s (wakeDispatch s) := ⟨by simp, by simp, by simp⟩
theorem same_wakeCall (s : St) (cid : Nat) : SameFl s (wakeCall s cid) := ⟨by simp, by simp, by simp⟩
theorem same_osSend (s : St) (cid : Nat) (o : Outcome) : SameFl s (osSend s cid o) := ⟨by simp, by simp, by simp⟩
theorem same_osDropTx (s : St) (cid : Nat) : SameFl s (osDropTx s cid) := ⟨by simp, by simp, by simp⟩

theorem same_afterCallGone (s : St) : SameFl s (afterCallGone s) := by
  unfold afterCallGone
  split
  · simp only
    have h1 : SameFl s (if s.pqRxWaker then wakeDispatch { s with pqRxWaker := false } else s) := by
      split
      · exact (same_wakeDispatch _).after ⟨rfl, rfl, rfl⟩
      · exact SameFl.refl s
    generalize (if s.pqRxWaker then wakeDispatch { s with pqRxWaker := false } else s) = s1 at h1 ⊢
    split
    · exact h1.trans ((⟨rfl, rfl, rfl⟩ : SameFl s1 { s1 with cqRxWaker := false }).trans (same_wakeDispatch _))
    · exact h1
  · exact SameFl.refl s

theorem same_resolve (s : St) (cid : Nat) (o : Outcome) (now : Nat) : SameFl s (resolve s cid o now) := by
  unfold resolve
  simp only
  exact (same_afterCallGone _).after ((same_emit _ _).after (same_updCall _ _ _))

theorem same_cqPush (s : St) (id : Nat) : SameFl s (cqPush s id) := by
  unfold cqPush
  split
  · exact SameFl.refl _
  · simp only
    split
    · exact (same_wakeDispatch _).after ⟨rfl, rfl, rfl⟩
    · exact ⟨rfl, rfl, rfl⟩

theorem same_pqPush (s : St) (r : DReq) : SameFl s (pqPush s r) := by
  unfold pqPush
  simp only
  split
  · exact (same_wakeDispatch _).after ⟨rfl, rfl, rfl⟩
  · exact ⟨rfl, rfl, rfl⟩

theorem same_failShutdown (s : St) (cid id now : Nat) : SameFl s (failShutdown s cid id now) := by
  unfold failShutdown
  simp only
  exact (same_resolve _ _ _ _).after ((same_cqPush _ _).after ((same_updCall _ _ _ : SameFl _ (guardClose _ _)).after (same_osDropTx _ _)))

theorem same_pollOneshot (s : St) (cid now : Nat) : SameFl s (pollOneshot s cid now) := by
  unfold pollOneshot
  split
  · exact SameFl.refl _
  · split
    · exact (same_resolve _ _ _ _).after (same_updCall _ _ _)
    · split
      · exact same_resolve _ _ _ _
      · exact (same_emit _ _).after (same_updCall _ _ _)

theorem same_enqueue (s : St) (c : Call) (now : Nat) : SameFl s (enqueue s c now) := by
  unfold enqueue
  simp only
  exact (same_pollOneshot _ _ _).after ((same_updCall _ _ _).after (same_pqPush _ _))

theorem same_pollCall (s : St) (cid now : Nat) : SameFl s (pollCall s cid now) := by
  cases hg : getCall s cid with
  | none => unfold pollCall; rw [hg]; exact same_emit _ _
  | some c =>
    cases hph : c.phase with
    | resolved => unfold pollCall; simp only [hg, hph]; exact same_emit _ _
    | dropped => unfold pollCall; simp only [hg, hph]; exact same_emit _ _
    | awaiting => rw [pollCall_awaiting hg hph]; exact (same_pollOneshot _ _ _).after (same_updCall _ _ _)
    | notPolled =>
      rw [pollCall_notPolled hg hph]
      have h1 : SameFl s (assignId s cid c) := by
        unfold assignId
        exact (same_updCall _ _ _).after ⟨rfl, rfl, rfl⟩
      split
      · exact h1.trans (same_failShutdown _ _ _ _)
      · split
        · exact h1.trans ((same_enqueue _ _ _).after ⟨rfl, rfl, rfl⟩)
        · exact h1.trans ((same_emit _ _).after ((same_updCall _ _ _).after ⟨rfl, rfl, rfl⟩))
    | reserving =>
      rw [pollCall_reserving hg hph]
      have h1 : SameFl s (updCall s cid (fun c => { c with woken := false })) := same_updCall _ _ _
      split
      · exact h1.trans ((same_failShutdown _ _ _ _).after ⟨rfl, rfl, rfl⟩)
      · split
        · exact h1.trans ((same_enqueue _ _ _).after ⟨rfl, rfl, rfl⟩)
        · exact h1.trans (same_emit _ _)

theorem same_pqRelease (s : St) : SameFl s (pqRelease s) := by
  unfold pqRelease; split
  · exact (same_wakeCall _ _).after ⟨rfl, rfl, rfl⟩
  · exact ⟨rfl, rfl, rfl⟩

theorem same_dropPre (s : St) (cid : Nat) : SameFl s (dropPre s cid) := by
  unfold dropPre
  split
  · exact SameFl.refl _
  · split
    · simp only
      refine (same_osDropTx _ _).after ?_
      split
      · exact (same_pqRelease _).after ⟨rfl, rfl, rfl⟩
      · exact ⟨rfl, rfl, rfl⟩
    · exact SameFl.refl _

theorem same_dropClose (s : St) (cid : Nat) : SameFl s (dropClose s cid) := by
  unfold dropClose
  split
  · exact SameFl.refl _
  · split <;> first | exact same_updCall _ _ _ | exact SameFl.refl _

theorem same_dropCancel (s : St) (cid : Nat) : SameFl s (dropCancel s cid) := by
  unfold dropCancel
  split
  · exact SameFl.refl _
  · split <;> first | exact same_cqPush _ _ | exact SameFl.refl _

theorem same_dropFinish (s : St) (cid : Nat) : SameFl s (dropFinish s cid) := by
  unfold dropFinish
  split
  · exact same_emit _ _
  · split <;> first | exact (same_afterCallGone _).after (same_updCall _ _ _) | exact same_emit _ _

theorem SameFl.tr0 {s s' : St} (h : SameFl s s') (hA : Flow.FrameA s s') (now : Nat) : TR0 now s s' :=
  TR0.of_same hA.tobs h.inflight h.dDropped h.poisoned hA.termErr

theorem tr0_dropCall {x : Option Nat} {b : Snap} {now : Nat} {s : St} (hi : Inv' x b s now) (cid : Nat) (at_ : DropAt) :
    TR0 now s (dropCall s cid at_ now) := by
  unfold dropCall
  simp only
  have step : ∀ (c : Bool) (s : St), Inv' x b s now →
      Inv' x b (if c = true then pollDispatch s now else s) now ∧ TR0 now s (if c = true then pollDispatch s now else s) := by
    intro c s hs
    split
    · exact ⟨hs.pollDispatch, tr0_pollDispatch hs⟩
    · exact ⟨hs, TR0.refl _ _⟩
  have i1 : Inv' x b (dropPre s cid) now := hi.quiet (quiet_dropPre s cid)
  have t1 : TR0 now s (dropPre s cid) := (same_dropPre s cid).tr0 (Flow.dropPre_frameA s cid) now
  generalize dropPre s cid = s1 at i1 t1
  obtain ⟨i2, t2⟩ := step (_ && at_ == .enter) s1 i1
  generalize (if (_ && at_ == .enter) = true then pollDispatch s1 now else s1) = s2 at i2 t2
  have i3 : Inv' x b (dropClose s2 cid) now := i2.quiet (quiet_dropClose s2 cid)
  have t3 : TR0 now s2 (dropClose s2 cid) := (same_dropClose s2 cid).tr0 (Flow.dropClose_frameA s2 cid) now
  generalize dropClose s2 cid = s3 at i3 t3
  obtain ⟨i4, t4⟩ := step (_ && at_ == .mid) s3 i3
  generalize (if (_ && at_ == .mid) = true then pollDispatch s3 now else s3) = s4 at i4 t4
  have i5 : Inv' x b (dropCancel s4 cid) now := i4.quiet (quiet_dropCancel s4 cid)
  have t5 : TR0 now s4 (dropCancel s4 cid) := (same_dropCancel s4 cid).tr0 (Flow.dropCancel_frameA s4 cid) now
  generalize dropCancel s4 cid = s5 at i5 t5
  obtain ⟨i6, t6⟩ := step (_ && at_ == .exit) s5 i5
  generalize (if (_ && at_ == .exit) = true then pollDispatch s5 now else s5) = s6 at i6 t6
  have t7 : TR0 now s6 (dropFinish s6 cid) := (same_dropFinish s6 cid).tr0 (Flow.dropFinish_frameA s6 cid) now
  exact (((((t1.trans t2).trans t3).trans t4).trans t5).trans t6).trans t7

/-! ### one op -/

theorem tobs_foldl_took (ms : List Msg) (s : St) :
    (ms.foldl (fun s m => emit s (.took (tid s) m)) s).obs.filter Flow.isT = s.obs.filter Flow.isT ∧
    SameFl s (ms.foldl (fun s m => emit s (.took (tid s) m)) s) ∧
    (ms.foldl (fun s m => emit s (.took (tid s) m)) s).termErr = s.termErr := by
  induction ms generalizing s with
  | nil => exact ⟨rfl, SameFl.refl _, rfl⟩
  | cons m ms ih =>
    simp only [List.foldl_cons]
    obtain ⟨a, b, c⟩ := ih (emit s (.took (tid s) m))
    exact ⟨by rw [a]; simp [emit], (same_emit _ _).trans b, by rw [c]; rfl⟩

theorem tr0_liftT (now : Nat) (s : St) (r : SimT × Bool) : TR0 now s (liftT s r) := by
  unfold liftT
  simp only
  split
  · refine TR0.of_same ?_ (by simp) (by simp) (by simp) (by simp)
    unfold wakeDispatch; split
    · rfl
    · simp [emit]
  · exact TR0.of_same rfl rfl rfl rfl rfl

/-- **One op of a script**, as far as the tracking of transmitted requests is concerned. -/
theorem tr0_applyOp {c : Sys} (hi : StInv c.s c.now) (op : COp) : TR0 (applyOp c op).now c.s (applyOp c op).s := by
  cases op with
  | call hd d tr b =>
    refine SameFl.tr0 ?_ (Flow.newCall_frameA c.s hd _ b) _
    show SameFl c.s (newCall c.s hd _ b)
    unfold newCall; split
    · exact ⟨rfl, rfl, rfl⟩
    · exact same_emit _ _
  | pollCall cid => exact (same_pollCall c.s cid c.now).tr0 (Flow.pollCall_frameA _ _ _) _
  | dropCall cid site => exact tr0_dropCall hi cid site
  | clone hd =>
    refine SameFl.tr0 ?_ (Flow.cloneHandle_frameA c.s hd) _
    show SameFl c.s (cloneHandle c.s hd)
    unfold cloneHandle; split
    · exact ⟨rfl, rfl, rfl⟩
    · exact same_emit _ _
  | dropHandle hd =>
    refine SameFl.tr0 ?_ (Flow.dropHandle_frameA c.s hd) _
    show SameFl c.s (dropHandle c.s hd)
    unfold dropHandle; split
    · exact (same_afterCallGone _).after ⟨rfl, rfl, rfl⟩
    · exact same_emit _ _
  | pollDispatch => exact tr0_pollDispatch hi
  | dropDispatch => exact tr0_dropDispatch _ _
  | injectResp id res => exact tr0_liftT _ _ _
  | injectErr => exact tr0_liftT _ _ _
  | eof => exact tr0_liftT _ _ _
  | setReady b => exact tr0_liftT _ _ _
  | setFlush b => exact tr0_liftT _ _ _
  | fault k => exact TR0.of_same rfl rfl rfl rfl rfl
  | faultSkip n => exact TR0.of_same rfl rfl rfl rfl rfl
  | selfWake b => exact TR0.of_same rfl rfl rfl rfl rfl
  | take n =>
    obtain ⟨a, b, d⟩ := tobs_foldl_took (c.s.t.take n).2 { c.s with t := (c.s.t.take n).1 }
    exact TR0.of_same a b.inflight b.dDropped b.poisoned d
  | advance n =>
    refine SameFl.tr0 ?_ (Flow.onAdvance_frameA c.s _) _
    show SameFl c.s (onAdvance c.s (c.now + n))
    unfold onAdvance
    split
    · split
      · exact (same_wakeDispatch _).after ⟨rfl, rfl, rfl⟩
      · exact SameFl.refl _
    · exact SameFl.refl _

/-! ### the terminal error is set only after an observed failure -/

def isSpin : Obs → Bool
  | .spin _ => true
  | _ => false

/-- how the terminal error comes about: it was there, or a failing transport call (or a spin) was observed -/
structure TE (s s' : St) : Prop where
  mono : ∀ o ∈ s.obs.filter Flow.isT, o ∈ s'.obs.filter Flow.isT
  te : s'.termErr.isSome = true → s.termErr.isSome = true ∨ HasT isFail s' ∨ HasT isSpin s'

theorem TE.refl (s : St) : TE s s := ⟨fun _ h => h, fun h => Or.inl h⟩

theorem TE.trans {a b c : St} (h1 : TE a b) (h2 : TE b c) : TE a c := by
  refine ⟨fun o ho => h2.mono o (h1.mono o ho), fun h => ?_⟩
  rcases h2.te h with h | h | h
  · rcases h1.te h with h | h | h
    · exact Or.inl h
    · exact Or.inr (Or.inl (h.mono h2.mono))
    · exact Or.inr (Or.inr (h.mono h2.mono))
  · exact Or.inr (Or.inl h)
  · exact Or.inr (Or.inr h)

theorem TE.of_frameA {s s' : St} (h : Flow.FrameA s s') : TE s s' :=
  ⟨fun o ho => h.tobs ▸ ho, fun ht => Or.inl (by rw [← h.termErr]; exact ht)⟩

theorem isFail_of_errObs {a : Activity} {o : Obs} (h : Flow.errObs a o = true) : isFail o = true := by
  cases o with
  | tReady ep r => cases r <;> cases a <;> simp_all [Flow.errObs, isFail]
  | tFlush ep r => cases r <;> cases a <;> simp_all [Flow.errObs, isFail]
  | tClose ep r => cases r <;> cases a <;> simp_all [Flow.errObs, isFail]
  | tNext ep r => cases r <;> cases a <;> simp_all [Flow.errObs, isFail]
  | tSend ep m ok => cases m <;> cases ok <;> cases a <;> simp_all [Flow.errObs, isFail]
  | _ => cases a <;> simp_all [Flow.errObs]

theorem liftT_termErr (s : St) (r : SimT × Bool) : (liftT s r).termErr = s.termErr := by
  unfold liftT; simp only; split <;> simp

theorem te_pollDispatchCore {x : Option Nat} {b : Snap} {now : Nat} {s : St} (hi : Inv' x b s now) :
    TE s (pollDispatchCore s now).1 := by
  have hm := (tr_pollDispatchCore hi).mono
  refine ⟨hm, ?_⟩
  revert hm
  refine Flow.pollDispatchCore_cases (motive := fun p => (∀ o ∈ s.obs.filter Flow.isT, o ∈ p.1.obs.filter Flow.isT) →
    p.1.termErr.isSome = true → s.termErr.isSome = true ∨ HasT isFail p.1 ∨ HasT isSpin p.1) s now ?_ ?_ ?_ ?_ ?_
  · intro a s1 fin hta _ _ _; exact Or.inl (by rw [hta]; rfl)
  · intro s1 _ h1 _ ht
    have := Flow.run_termErr (runFuel s) s now; rw [h1] at this
    exact Or.inl (by rw [← this]; exact ht)
  · intro s1 _ h1 _ ht
    have := Flow.run_termErr (runFuel s) s now; rw [h1] at this
    exact Or.inl (by rw [← this]; exact ht)
  · intro s1 _ h1 _ ht
    have := Flow.run_termErr (runFuel s) s now; rw [h1] at this
    exact Or.inl (by rw [← this]; exact ht)
  · intro s1 a s2 fin _ h1 h2 _ _
    right; left
    have ht := Flow.run_errTagged (runFuel s) s now a (by rw [h1])
    rw [h1] at ht
    obtain ⟨o, hl, he⟩ := ht
    have hA := Flow.shutDown_frameA { s1 with termErr := some a } a
    rw [h2] at hA
    refine ⟨o, ?_, isFail_of_errObs he⟩
    rw [hA.tobs]
    exact List.mem_of_mem_head? hl

theorem te_pollDispatch {x : Option Nat} {b : Snap} {now : Nat} {s : St} (hi : Inv' x b s now) :
    TE s (pollDispatch s now) := by
  have hm := (tr0_pollDispatch hi).mono
  refine ⟨hm, ?_⟩
  have key : (pollDispatchKeep s now).termErr.isSome = true →
      s.termErr.isSome = true ∨ HasT isFail (pollDispatchKeep s now) ∨ HasT isSpin (pollDispatchKeep s now) := by
    rw [Flow.pollDispatchKeep_eq]
    split
    · intro h; exact Or.inl h
    · have i0 : Inv' x b { s with dWoken := false } now := hi.quiet (by quiet_rfl)
      have h1 := te_pollDispatchCore i0
      generalize pollDispatchCore { s with dWoken := false } now = core at h1 ⊢
      obtain ⟨c1, r⟩ := core
      simp only at h1 ⊢
      have hkd : ∀ s2 : St, (Flow.keepDone r s2).termErr = s2.termErr ∧
          (Flow.keepDone r s2).obs = s2.obs := by
        intro s2; unfold Flow.keepDone; split <;> exact ⟨rfl, rfl⟩
      intro ht
      rw [(hkd _).1] at ht
      unfold HasT
      rw [(hkd _).2]
      unfold Flow.keepFinish at ht ⊢
      split
      · right; right
        exact ⟨.spin (tid c1), by simp, rfl⟩
      · rename_i hsp
        rw [if_neg hsp] at ht
        split
        · rename_i hpo
          rw [if_pos hpo] at ht
          exact h1.te ht
        · rename_i hpo
          rw [if_neg hpo] at ht
          rcases h1.te ht with h | ⟨o, ho, hp⟩ | ⟨o, ho, hp⟩
          · exact Or.inl h
          · exact Or.inr (Or.inl ⟨o, by simpa [Flow.emit_obs, List.filter_cons] using ho, hp⟩)
          · exact Or.inr (Or.inr ⟨o, by simpa [Flow.emit_obs, List.filter_cons] using ho, hp⟩)
  rw [Flow.pollDispatch_eq]
  split
  · intro ht
    have hA := Flow.dropDispatch_frameA (pollDispatchKeep s now)
    rw [hA.termErr] at ht
    rcases key ht with h | h | h
    · exact Or.inl h
    · exact Or.inr (Or.inl ((HasT.frameA hA).mpr h))
    · exact Or.inr (Or.inr ((HasT.frameA hA).mpr h))
  · exact key

theorem te_dropCall {x : Option Nat} {b : Snap} {now : Nat} {s : St} (hi : Inv' x b s now) (cid : Nat) (at_ : DropAt) :
    TE s (dropCall s cid at_ now) := by
  unfold dropCall
  simp only
  have step : ∀ (c : Bool) (s : St), Inv' x b s now →
      Inv' x b (if c = true then pollDispatch s now else s) now ∧ TE s (if c = true then pollDispatch s now else s) := by
    intro c s hs
    split
    · exact ⟨hs.pollDispatch, te_pollDispatch hs⟩
    · exact ⟨hs, TE.refl _⟩
  have i1 : Inv' x b (dropPre s cid) now := hi.quiet (quiet_dropPre s cid)
  have t1 : TE s (dropPre s cid) := TE.of_frameA (Flow.dropPre_frameA s cid)
  generalize dropPre s cid = s1 at i1 t1
  obtain ⟨i2, t2⟩ := step (_ && at_ == .enter) s1 i1
  generalize (if (_ && at_ == .enter) = true then pollDispatch s1 now else s1) = s2 at i2 t2
  have i3 : Inv' x b (dropClose s2 cid) now := i2.quiet (quiet_dropClose s2 cid)
  have t3 : TE s2 (dropClose s2 cid) := TE.of_frameA (Flow.dropClose_frameA s2 cid)
  generalize dropClose s2 cid = s3 at i3 t3
  obtain ⟨i4, t4⟩ := step (_ && at_ == .mid) s3 i3
  generalize (if (_ && at_ == .mid) = true then pollDispatch s3 now else s3) = s4 at i4 t4
  have i5 : Inv' x b (dropCancel s4 cid) now := i4.quiet (quiet_dropCancel s4 cid)
  have t5 : TE s4 (dropCancel s4 cid) := TE.of_frameA (Flow.dropCancel_frameA s4 cid)
  generalize dropCancel s4 cid = s5 at i5 t5
  obtain ⟨i6, t6⟩ := step (_ && at_ == .exit) s5 i5
  generalize (if (_ && at_ == .exit) = true then pollDispatch s5 now else s5) = s6 at i6 t6
  have t7 : TE s6 (dropFinish s6 cid) := TE.of_frameA (Flow.dropFinish_frameA s6 cid)
  exact (((((t1.trans t2).trans t3).trans t4).trans t5).trans t6).trans t7

/-- **One op of a script**: a terminal error that appears was preceded by an observed failure (or a spin). -/
theorem te_applyOp {c : Sys} (hi : StInv c.s c.now) (op : COp) :
    (applyOp c op).s.termErr.isSome = true →
      c.s.termErr.isSome = true ∨ HasT isFail (applyOp c op).s ∨ HasT isSpin (applyOp c op).s := by
  cases op with
  | pollDispatch => exact (te_pollDispatch hi).te
  | dropCall cid site => exact (te_dropCall hi cid site).te
  | call hd d tr b => intro h; exact Or.inl (by rw [← (Flow.newCall_frameA c.s hd _ b).termErr]; exact h)
  | pollCall cid => intro h; exact Or.inl (by rw [← (Flow.pollCall_frameA c.s cid c.now).termErr]; exact h)
  | clone hd => intro h; exact Or.inl (by rw [← (Flow.cloneHandle_frameA c.s hd).termErr]; exact h)
  | dropHandle hd => intro h; exact Or.inl (by rw [← (Flow.dropHandle_frameA c.s hd).termErr]; exact h)
  | dropDispatch => intro h; exact Or.inl (by rw [← (Flow.dropDispatch_frameA c.s).termErr]; exact h)
  | injectResp id res => intro h; change (liftT c.s _).termErr.isSome = true at h; rw [liftT_termErr] at h; exact Or.inl h
  | injectErr => intro h; change (liftT c.s _).termErr.isSome = true at h; rw [liftT_termErr] at h; exact Or.inl h
  | eof => intro h; change (liftT c.s _).termErr.isSome = true at h; rw [liftT_termErr] at h; exact Or.inl h
  | setReady b => intro h; change (liftT c.s _).termErr.isSome = true at h; rw [liftT_termErr] at h; exact Or.inl h
  | setFlush b => intro h; change (liftT c.s _).termErr.isSome = true at h; rw [liftT_termErr] at h; exact Or.inl h
  | fault k => intro h; exact Or.inl h
  | faultSkip n => intro h; exact Or.inl h
  | selfWake b => intro h; exact Or.inl h
  | take n =>
    intro h
    obtain ⟨_, _, d⟩ := tobs_foldl_took (c.s.t.take n).2 { c.s with t := (c.s.t.take n).1 }
    exact Or.inl (by rw [← show ({ c.s with t := (c.s.t.take n).1 } : St).termErr = c.s.termErr from rfl, ← d]; exact h)
  | advance n => intro h; exact Or.inl (by rw [← (Flow.onAdvance_frameA c.s (c.now + n)).termErr]; exact h)

end TarpcModel.Client

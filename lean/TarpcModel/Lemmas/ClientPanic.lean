import TarpcModel.Lemmas.ClientMon
import TarpcModel.Lemmas.ClientFlowSink
import TarpcModel.Lemmas.ClientPoison
import TarpcModel.Monitors.NoPanic
/-!
The client dispatch never panics and is never poisoned while the clock is below `panicFreeNs` (2^35 ms) — glue
between the three client proof families:

* `Lemmas/ClientInv.lean` (`StInv`, `ObsGood`): the only panic site ever reached is the `DelayQueue::insert` range
  check, and — the armed timeout being clamped (`ClampFits`) — not before `panicFreeNs`
  (`insert_panic_late`: `when - wheelElapsed ≤ ceilMs (now + clampNs) ≤ now_ms + clamp_ms + 1 ≤ 2^36 - 1`);
* `Lemmas/ClientFlowSink.lean` (`Flow.NoSpinStep`): with the fixed `ensure_writeable` no `Obs.spin` is ever emitted;
* `Lemmas/ClientPoison.lean` (`reach_poisoned_stop`): `poisoned` is set only together with a `panic` / `spin` observation.
-/
namespace TarpcModel.Client

/-- No panic observation is on record in a state reached before `panicFreeNs`. -/
theorem reach_no_panic_obs (hf : ClampFits) (m b tc : Nat) (coupled : Bool) (ops : List COp)
    (hT : advSum ops < panicFreeNs) (t : TaskId) (site : String) :
    Obs.panic t site ∉ (ops.foldl applyOp (initSys m b tc coupled)).s.obs := by
  intro hm
  have hg := (inv_reach m b tc coupled ops).o _ hm
  rw [now_reach] at hg
  have := hg.2 hf
  omega

/-- No panic observation in the event trace of a script that stays before `panicFreeNs`. -/
theorem trace_no_panic (hf : ClampFits) (m b tc : Nat) (coupled : Bool) (ops : List COp)
    (hT : advSum ops < panicFreeNs) (t : TaskId) (site : String) :
    CEv.obs (.panic t site) ∉ trace (initSys m b tc coupled) ops := by
  intro hm
  obtain ⟨calls, now, hn, hg⟩ :=
    trace_obs_good m ops (initSys m b tc coupled) (inv_init 0 m b tc coupled 0) rfl _ hm
  have := hg.2 hf
  have h0 : (initSys m b tc coupled).now = 0 := rfl
  omega

/-- No spin observation is on record in a reachable state (fixed `ensure_writeable`). -/
theorem reach_no_spin_obs (hel : Gen.clientEnsureLoop = false) (m b tc : Nat) (coupled : Bool) (ops : List COp)
    (t : TaskId) : Obs.spin t ∉ (ops.foldl applyOp (initSys m b tc coupled)).s.obs := by
  intro hm
  have h := (Flow.foldl_applyOp_noSpinStep ops (initSys m b tc coupled) hel).spin
  have : Obs.spin t ∈ (ops.foldl applyOp (initSys m b tc coupled)).s.obs.filter Flow.isSpinObs :=
    List.mem_filter.mpr ⟨hm, rfl⟩
  rw [h] at this
  simp [initSys, init] at this

/-- **Never poisoned before `panicFreeNs`.** -/
theorem reach_not_poisoned (hf : ClampFits) (hel : Gen.clientEnsureLoop = false) (m b tc : Nat) (coupled : Bool)
    (ops : List COp) (hT : advSum ops < panicFreeNs) :
    (ops.foldl applyOp (initSys m b tc coupled)).s.poisoned = false := by
  cases hp : (ops.foldl applyOp (initSys m b tc coupled)).s.poisoned with
  | false => rfl
  | true =>
    exfalso
    obtain ⟨o, ho, hs⟩ := reach_poisoned_stop m b tc coupled ops hp
    cases o <;> simp [isStop] at hs
    · exact reach_no_spin_obs hel m b tc coupled ops _ ho
    · exact reach_no_panic_obs hf m b tc coupled ops hT _ _ ho

/-! ### monitor form (`Monitors/NoPanic.lean`) -/

/-- the observations of an event trace, in order -/
def obsOf (evs : List CEv) : List Obs := evs.filterMap (fun e => match e with | .obs o => some o | _ => none)

/-- the update of the `c16` field in `CliMon.feed` (`Driver/Cli.lean`) -/
def c16Step (acc : Option String) (e : CEv) : Option String :=
  acc.orElse (fun _ => match e with | .obs o => panicOf o | _ => none)

theorem firstPanic_none_of {evs : List CEv} (h : ∀ t site, CEv.obs (.panic t site) ∉ evs) :
    firstPanic (obsOf evs) = none := by
  unfold firstPanic
  rw [List.findSome?_eq_none_iff]
  intro o ho
  obtain ⟨e, he, heq⟩ := List.mem_filterMap.mp ho
  cases e with
  | op _ => simp at heq
  | obs o' =>
    simp only [Option.some.injEq] at heq
    subst heq
    cases o' <;> try rfl
    rename_i t site
    exact absurd he (h t site)

theorem c16Step_foldl_none_of {evs : List CEv} (h : ∀ t site, CEv.obs (.panic t site) ∉ evs) :
    evs.foldl c16Step none = none := by
  induction evs with
  | nil => rfl
  | cons e evs ih =>
    have h1 : c16Step none e = none := by
      cases e with
      | op _ => rfl
      | obs o =>
        cases o <;> try rfl
        rename_i t site
        exact absurd List.mem_cons_self (h t site)
    rw [List.foldl_cons, h1]
    exact ih (fun t site hm => h t site (List.mem_cons_of_mem _ hm))

theorem advSum_prefix_le {pre ops : List COp} (h : pre <+: ops) : advSum pre ≤ advSum ops := by
  obtain ⟨suf, rfl⟩ := h
  rw [advSum_append]; omega

end TarpcModel.Client

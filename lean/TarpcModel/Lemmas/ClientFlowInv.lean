import TarpcModel.Lemmas.ClientFlowTransport
/-
The transport-contract invariant of the client dispatch (`Base`) and its preservation by every model
function; the per-poll refinement `NF` (no failure reported yet) with the post-conditions of the pumps.
Used by `Props/C14Client.lean`, `Props/C09Client.lean`, `Props/C10Client.lean`.
-/
namespace TarpcModel.Client.Flow

/-- The violations of the sink contract the dispatch provably never commits: every violation that concerns a
write, and every use of the sink after it reported a failure. -/
def sendViols : List String :=
  ["send-without-ready", "send-after-failure", "send-after-close",
   "ready-after-failure", "flush-after-failure", "close-after-failure"]

/-- None of `sendViols` has been recorded by the transport. -/
def SV (t : SimT) : Prop := ∀ w ∈ t.violations, w ∉ sendViols

/-- Every violation observation is backed by the transport's own log. -/
def ObsOK (s : St) : Prop := ∀ ep w, Obs.tViolation ep w ∈ s.obs.filter isT → w ∈ s.t.violations

/-- The transport was closed only with no sender left and both queues empty — and that is stable. -/
def ClosedDrained (s : St) : Prop := s.t.closed = true → senders s = 0 ∧ s.pq = [] ∧ s.cq = []

structure Base (s : St) : Prop where
  sv : SV s.t
  obsOK : ObsOK s
  cd : ClosedDrained s

theorem ObsOK.of_mem {s : St} (h : ObsOK s) {ep : TaskId} {w : String} (hm : Obs.tViolation ep w ∈ s.obs) :
    w ∈ s.t.violations := h ep w (List.mem_filter.mpr ⟨hm, rfl⟩)

theorem SV.of_adds {t t' : SimT} {P : String → Prop} (h : SimT.Adds t t' P) (hP : ∀ w, P w → w ∉ sendViols)
    (hs : SV t) : SV t' := by
  intro w hw
  rcases h.mem hw with h1 | h1
  · exact hs w h1
  · exact hP w h1

theorem SV.of_useAfter {t : SimT} {what : String} (hs : SV t) (hnf : t.failed = false)
    (h2 : what ++ "-after-close" ∉ sendViols) : SV (t.useAfter what) :=
  SV.of_adds (SimT.useAfter_adds t what) (by
    rintro w (⟨rfl, hf⟩ | ⟨rfl, _⟩)
    · rw [hnf] at hf; cases hf
    · exact h2) hs

theorem SV.congr {t t' : SimT} (h : t'.violations = t.violations) (hs : SV t) : SV t' := by
  intro w hw; rw [h] at hw; exact hs w hw

/-! ### frames preserve `Base` -/

theorem ClosedDrained.of_frameD {s s' : St} (hD : FrameD s s') (hc : s'.t.closed = s.t.closed)
    (h : ClosedDrained s) : ClosedDrained s' := by
  intro hcl
  rw [hc] at hcl
  obtain ⟨h1, h2, h3⟩ := h hcl
  refine ⟨by rw [hD.senders]; exact h1, ?_, ?_⟩
  · have := hD.pq; rw [h2] at this; exact List.eq_nil_of_length_eq_zero (by simpa using this)
  · have := hD.cq; rw [h3] at this; exact List.eq_nil_of_length_eq_zero (by simpa using this)

theorem ObsOK.of_frameA {s s' : St} (hA : FrameA s s') (h : ObsOK s) : ObsOK s' := by
  intro ep w hm; rw [hA.tobs] at hm; rw [hA.t]; exact h ep w hm

/-- A model function that calls no transport operation and acts on the dispatch side keeps `Base`. -/
theorem Base.of_frames {s s' : St} (hA : FrameA s s') (hD : FrameD s s') (h : Base s) : Base s' :=
  ⟨by rw [hA.t]; exact h.sv, h.obsOK.of_frameA hA, h.cd.of_frameD hD (by rw [hA.t])⟩

/-! ### the transport calls -/

theorem tEmit_senders (s : St) (t' : SimT) (o : Obs) (w : Bool) : senders (tEmit s t' o w) = senders s :=
  senders_eq_of (tEmit_handles _ _ _ _) (by rw [tEmit_calls])

theorem tEmit_obsOK {s : St} {t' : SimT} {o : Obs} {w : Bool} (h : ObsOK s)
    (hm : ∀ v ∈ s.t.violations, v ∈ t'.violations) (ho : ∀ ep v, o ≠ .tViolation ep v) :
    ObsOK (tEmit s t' o w) := by
  obtain ⟨l, dw, he, hl, _⟩ := tEmit_eq s t' o w
  intro ep v hv
  rw [he] at hv ⊢
  simp only [List.filter_append, List.mem_append, List.mem_filter] at hv
  show v ∈ t'.violations
  rcases hv with ⟨hv, _⟩ | ⟨hv, _⟩
  · rcases hl _ hv with h1 | h1 | ⟨v', hv', h1⟩
    · exact absurd h1.symm (ho ep v)
    · cases h1
    · cases h1; exact hv'
  · exact hm v (h.of_mem hv)

theorem tEmit_cd {s : St} {t' : SimT} {o : Obs} {w : Bool} (h : ClosedDrained s)
    (hc : t'.closed = true → s.t.closed = true ∨ (senders s = 0 ∧ s.pq = [] ∧ s.cq = [])) :
    ClosedDrained (tEmit s t' o w) := by
  intro hcl
  rw [tEmit_t] at hcl
  rw [tEmit_senders, tEmit_pq, tEmit_cq]
  rcases hc hcl with h1 | h1
  · exact h h1
  · exact h1

theorem tReady_base {s : St} (h : Base s) (hnf : s.t.failed = false) : Base (tReady s).1 := by
  rw [tReady_eq]
  refine ⟨?_, ?_, ?_⟩
  · rw [tEmit_t]
    exact SV.congr (SimT.pollReady_violations _) (h.sv.of_useAfter hnf (by decide))
  · refine tEmit_obsOK h.obsOK ?_ (by simp)
    intro v hv; rw [SimT.pollReady_violations]; exact (SimT.useAfter_adds _ _).mono v hv
  · exact tEmit_cd h.cd (fun hc => .inl (by rwa [SimT.pollReady_closed] at hc))

theorem tFlush_base {s : St} (h : Base s) (hnf : s.t.failed = false) : Base (tFlush s).1 := by
  rw [tFlush_eq]
  refine ⟨?_, ?_, ?_⟩
  · rw [tEmit_t]
    exact SV.congr (SimT.pollFlush_violations _) (h.sv.of_useAfter hnf (by decide))
  · refine tEmit_obsOK h.obsOK ?_ (by simp)
    intro v hv; rw [SimT.pollFlush_violations]; exact (SimT.useAfter_adds _ _).mono v hv
  · exact tEmit_cd h.cd (fun hc => .inl (by rwa [SimT.pollFlush_closed] at hc))

/-- `tClose` keeps the invariant when called with no sender left and both queues empty. -/
theorem tClose_base {s : St} (h : Base s) (hnf : s.t.failed = false)
    (hd : senders s = 0 ∧ s.pq = [] ∧ s.cq = []) : Base (tClose s).1 := by
  rw [tClose_eq]
  refine ⟨?_, ?_, ?_⟩
  · rw [tEmit_t]
    exact SV.congr (SimT.pollClose_violations _) (h.sv.of_useAfter hnf (by decide))
  · refine tEmit_obsOK h.obsOK ?_ (by simp)
    intro v hv; rw [SimT.pollClose_violations]; exact (SimT.useAfter_adds _ _).mono v hv
  · exact tEmit_cd h.cd (fun _ => .inr hd)

/-- `tSend` keeps the invariant when called after `poll_ready → Ready` on an open, healthy transport. -/
theorem tSend_base {s : St} (m : Msg) (h : Base s) (hr : s.t.gotReady = true) (hf : s.t.failed = false)
    (hc : s.t.closed = false) : Base (tSend s m).1 := by
  rw [tSend_eq]
  refine ⟨?_, ?_, ?_⟩
  · rw [tEmit_t]
    refine SV.of_adds (SimT.startSend_adds s.t m) ?_ h.sv
    rintro w (⟨_, h1⟩ | ⟨_, h1, _⟩ | ⟨_, h1⟩) <;> simp_all
  · exact tEmit_obsOK h.obsOK (SimT.startSend_adds s.t m).mono (by simp)
  · exact tEmit_cd h.cd (fun hc' => .inl (by rwa [SimT.startSend_closed] at hc'))

theorem tNext_base {s : St} (h : Base s) : Base (tNext s).1 := by
  rw [tNext_eq]
  split
  · exact h
  · refine ⟨?_, ?_, ?_⟩
    · exact SV.congr (SimT.pollNext_violations _) h.sv
    · intro ep v hv
      simp only [List.filter_cons, isT_tNext, ↓reduceIte, List.mem_cons, reduceCtorEq, false_or] at hv
      show v ∈ s.t.pollNext.1.violations
      rw [SimT.pollNext_violations]; exact h.obsOK ep v hv
    · intro hcl
      have hcl' : s.t.closed = true := by rw [← SimT.pollNext_closed]; exact hcl
      obtain ⟨h1, h2, h3⟩ := h.cd hcl'
      exact ⟨by rw [← h1]; exact senders_eq_of rfl rfl, h2, h3⟩

/-! ### one dispatch poll: post-conditions of the pump steps -/

/-- Post-condition of a step of the write / read pump started in a state without reported failure:
the invariant is kept, the violation log only grows, and a failure reported by the transport in this
step is surfaced as the step's error result (`E`). -/
structure PostR (s s' : St) (E : Prop) : Prop where
  base : Base s'
  vm : ∀ w ∈ s.t.violations, w ∈ s'.t.violations
  nf : s'.t.failed = true → E

/-- `PostR` for the steps before `poll_close`: the `closed` flag is unchanged, too. -/
structure Post (s s' : St) (E : Prop) : Prop extends PostR s s' E where
  closed : s'.t.closed = s.t.closed

theorem PostR.nf_of {s s' : St} {E : Prop} (h : PostR s s' E) (hne : ¬ E) : s'.t.failed = false := by
  cases hf : s'.t.failed
  · rfl
  · exact absurd (h.nf hf) hne

theorem Post.andThen {s s1 s2 : St} {E1 E2 : Prop} (h1 : Post s s1 E1) (h2 : Post s1 s2 E2) : Post s s2 E2 :=
  ⟨⟨h2.base, fun w hw => h2.vm w (h1.vm w hw), h2.nf⟩, h2.closed.trans h1.closed⟩

theorem Post.andThenR {s s1 s2 : St} {E1 E2 : Prop} (h1 : Post s s1 E1) (h2 : PostR s1 s2 E2) : PostR s s2 E2 :=
  ⟨h2.base, fun w hw => h2.vm w (h1.vm w hw), h2.nf⟩

theorem Post.weaken {s s' : St} {E E' : Prop} (h : Post s s' E) (hE : E → E') : Post s s' E' :=
  ⟨⟨h.base, h.vm, fun hf => hE (h.nf hf)⟩, h.closed⟩

theorem PostR.weaken {s s' : St} {E E' : Prop} (h : PostR s s' E) (hE : E → E') : PostR s s' E' :=
  ⟨h.base, h.vm, fun hf => hE (h.nf hf)⟩

/-- Steps that call no transport operation. -/
theorem Post.of_frames {s s' : St} {E : Prop} (hA : FrameA s s') (hD : FrameD s s') (hb : Base s)
    (hnf : s.t.failed = false) : Post s s' E :=
  ⟨⟨hb.of_frames hA hD, by rw [hA.t]; exact fun _ h => h, by rw [hA.t, hnf]; intro h; cases h⟩, by rw [hA.t]⟩

theorem Post.refl {s : St} {E : Prop} (hb : Base s) (hnf : s.t.failed = false) : Post s s E :=
  Post.of_frames (.refl _) (.refl _) hb hnf

theorem tReady_post {s : St} (hb : Base s) (hnf : s.t.failed = false) :
    Post s (tReady s).1 ((tReady s).2 = .err) := by
  refine ⟨⟨tReady_base hb hnf, ?_, ?_⟩, ?_⟩
  · rw [tReady_t]; intro w hw; rw [SimT.pollReady_violations]; exact (SimT.useAfter_adds _ _).mono w hw
  · rw [tReady_t, SimT.pollReady_failed, hnf]; simp
  · rw [tReady_t, SimT.pollReady_closed]

theorem tReady_gotReady {s : St} (h : (tReady s).2 = .ready) : (tReady s).1.t.gotReady = true := by
  rw [tReady_t]; exact SimT.pollReady_gotReady _ h

theorem tFlush_post {s : St} (hb : Base s) (hnf : s.t.failed = false) :
    Post s (tFlush s).1 ((tFlush s).2 = .err) := by
  refine ⟨⟨tFlush_base hb hnf, ?_, ?_⟩, ?_⟩
  · rw [tFlush_t]; intro w hw; rw [SimT.pollFlush_violations]; exact (SimT.useAfter_adds _ _).mono w hw
  · rw [tFlush_t, SimT.pollFlush_failed, hnf]; simp
  · rw [tFlush_t, SimT.pollFlush_closed]

theorem tClose_post {s : St} (hb : Base s) (hnf : s.t.failed = false)
    (hd : senders s = 0 ∧ s.pq = [] ∧ s.cq = []) : PostR s (tClose s).1 ((tClose s).2 = .err) := by
  refine ⟨tClose_base hb hnf hd, ?_, ?_⟩
  · rw [tClose_t]; intro w hw; rw [SimT.pollClose_violations]; exact (SimT.useAfter_adds _ _).mono w hw
  · rw [tClose_t, SimT.pollClose_failed, hnf]; simp

theorem tSend_post {s : St} (m : Msg) (hb : Base s) (hnf : s.t.failed = false) (hr : s.t.gotReady = true)
    (hc : s.t.closed = false) : Post s (tSend s m).1 False := by
  refine ⟨⟨tSend_base m hb hr hnf hc, ?_, ?_⟩, ?_⟩
  · rw [tSend_t]; exact (SimT.startSend_adds _ _).mono
  · rw [tSend_t, SimT.startSend_failed, hnf]; intro h; cases h
  · rw [tSend_t, SimT.startSend_closed]

theorem tNext_post {s : St} (hb : Base s) (hnf : s.t.failed = false) : Post s (tNext s).1 False := by
  refine ⟨⟨tNext_base hb, ?_, ?_⟩, ?_⟩
  · rw [tNext_eq]; split
    · exact fun _ h => h
    · intro w hw; show w ∈ s.t.pollNext.1.violations; rw [SimT.pollNext_violations]; exact hw
  · rw [tNext_eq]; split
    · rw [hnf]; intro h; cases h
    · show s.t.pollNext.1.failed = true → False; rw [SimT.pollNext_failed, hnf]; intro h; cases h
  · rw [tNext_eq]; split
    · rfl
    · exact SimT.pollNext_closed _

/-- What `ensure_writeable` guarantees. -/
def EnsPost (s : St) (p : St × EW) : Prop :=
  Post s p.1 (∃ a, p.2 = .err a) ∧ (p.2 = .ready → p.1.t.gotReady = true)

theorem ensureOnce_post {s : St} (hb : Base s) (hnf : s.t.failed = false) : EnsPost s (ensureOnce s) := by
  refine ensureOnce_cases (motive := EnsPost s) s ?_ ?_ ?_ ?_ ?_
  · intro s1 h1
    have p1 := tReady_post hb hnf; have g1 := tReady_gotReady (s := s); rw [h1] at p1 g1
    exact ⟨p1.weaken (by simp), fun _ => g1 rfl⟩
  · intro s1 h1
    have p1 := tReady_post hb hnf; rw [h1] at p1
    exact ⟨p1.weaken (fun _ => ⟨_, rfl⟩), by simp⟩
  · intro s1 s2 h1 h2
    have p1 := tReady_post hb hnf; rw [h1] at p1
    have p2 := tFlush_post p1.base (p1.nf_of (by simp)); rw [h2] at p2
    exact ⟨(p1.andThen p2).weaken (by simp), by simp⟩
  · intro s1 s2 h1 h2
    have p1 := tReady_post hb hnf; rw [h1] at p1
    have p2 := tFlush_post p1.base (p1.nf_of (by simp)); rw [h2] at p2
    exact ⟨(p1.andThen p2).weaken (fun _ => ⟨_, rfl⟩), by simp⟩
  · intro s1 s2 s3 r h1 h2 h3
    have p1 := tReady_post hb hnf; rw [h1] at p1
    have p2 := tFlush_post p1.base (p1.nf_of (by simp)); rw [h2] at p2
    have p3 := tReady_post p2.base (p2.nf_of (by simp)); have g3 := tReady_gotReady (s := s2); rw [h3] at p3 g3
    refine ⟨((p1.andThen p2).andThen p3).weaken ?_, ?_⟩
    · rintro rfl; exact ⟨_, rfl⟩
    · cases r <;> simp [readyEW] at g3 ⊢; exact g3

theorem ensureLoop_post (fuel : Nat) {s : St} (hb : Base s) (hnf : s.t.failed = false) :
    EnsPost s (ensureLoop fuel s) := by
  induction fuel generalizing s with
  | zero =>
    rw [ensureLoop_zero]
    refine ⟨⟨⟨⟨hb.sv, ?_, fun hc => hb.cd hc⟩, fun _ h => h, by simp [hnf]⟩, rfl⟩, by simp⟩
    intro ep w hm
    simp only [emit_obs, List.filter_cons, isT_spin, ↓reduceIte, List.mem_cons, reduceCtorEq, false_or] at hm
    exact hb.obsOK ep w hm
  | succ fuel ih =>
    refine ensureLoop_cases (motive := EnsPost s) fuel s ?_ ?_ ?_ ?_ ?_
    · intro s1 h1
      have p1 := tReady_post hb hnf; have g1 := tReady_gotReady (s := s); rw [h1] at p1 g1
      exact ⟨p1.weaken (by simp), fun _ => g1 rfl⟩
    · intro s1 h1
      have p1 := tReady_post hb hnf; rw [h1] at p1
      exact ⟨p1.weaken (fun _ => ⟨_, rfl⟩), by simp⟩
    · intro s1 s2 h1 h2
      have p1 := tReady_post hb hnf; rw [h1] at p1
      have p2 := tFlush_post p1.base (p1.nf_of (by simp)); rw [h2] at p2
      exact ⟨(p1.andThen p2).weaken (by simp), by simp⟩
    · intro s1 s2 h1 h2
      have p1 := tReady_post hb hnf; rw [h1] at p1
      have p2 := tFlush_post p1.base (p1.nf_of (by simp)); rw [h2] at p2
      exact ⟨(p1.andThen p2).weaken (fun _ => ⟨_, rfl⟩), by simp⟩
    · intro s1 s2 h1 h2
      have p1 := tReady_post hb hnf; rw [h1] at p1
      have p2 := tFlush_post p1.base (p1.nf_of (by simp)); rw [h2] at p2
      have p3 := ih p2.base (p2.nf_of (by simp))
      exact ⟨(p1.andThen p2).andThen p3.1, p3.2⟩

theorem ensureWriteable_post {s : St} (hb : Base s) (hnf : s.t.failed = false) :
    EnsPost s (ensureWriteable s) := by
  unfold ensureWriteable; split
  · exact ensureLoop_post _ hb hnf
  · exact ensureOnce_post hb hnf

/-! #### the dequeue loops -/

theorem pqRecv_item {s s' : St} {r : DReq} (h : pqRecv s = (s', .item r)) : s.pq ≠ [] := by
  unfold pqRecv at h; split at h
  · simp_all
  · split at h
    · cases h
    · split at h <;> cases h

theorem pqRecv_closed {s s' : St} (h : pqRecv s = (s', .closed)) : s' = s ∧ s.pq = [] := by
  unfold pqRecv at h; split at h
  · cases h
  · rename_i hq
    split at h
    · cases h; exact ⟨rfl, hq⟩
    · split at h
      · cases h; exact ⟨rfl, hq⟩
      · cases h

theorem nextRequestLoop_some {fuel : Nat} {s s' : St} {r : DReq}
    (h : nextRequestLoop fuel s = (s', .some r)) : s.pq ≠ [] := by
  cases fuel with
  | zero => cases h
  | succ fuel =>
    unfold nextRequestLoop at h
    split at h
    · cases h
    · cases h
    · rename_i heq; exact pqRecv_item heq

theorem nextRequestLoop_none {fuel : Nat} {s s' : St}
    (h : nextRequestLoop fuel s = (s', .none)) : s'.pq = [] := by
  induction fuel generalizing s with
  | zero => cases h
  | succ fuel ih =>
    unfold nextRequestLoop at h
    split at h
    · cases h
    · rename_i heq; cases h; obtain ⟨rfl, hq⟩ := pqRecv_closed heq; exact hq
    · split at h
      · exact ih h
      · cases h

theorem cqRecv_item {s s' : St} {i : Nat} (h : cqRecv s = (s', .item i)) : s.cq ≠ [] := by
  unfold cqRecv at h; split at h
  · simp_all
  · split at h <;> cases h

theorem cqRecv_closed {s s' : St} (h : cqRecv s = (s', .closed)) : s' = s ∧ s.cq = [] ∧ senders s = 0 := by
  unfold cqRecv at h; split at h
  · cases h
  · rename_i hq
    split at h
    · rename_i hs; cases h; exact ⟨rfl, hq, by simpa using hs⟩
    · cases h

theorem nextCancelLoop_some {fuel : Nat} {s s' : St} {e : Entry}
    (h : nextCancelLoop fuel s = (s', .some e)) : s.cq ≠ [] := by
  cases fuel with
  | zero => cases h
  | succ fuel =>
    unfold nextCancelLoop at h
    split at h
    · cases h
    · cases h
    · rename_i heq; exact cqRecv_item heq

theorem nextCancelLoop_none {fuel : Nat} {s s' : St}
    (h : nextCancelLoop fuel s = (s', .none)) : s'.cq = [] ∧ senders s' = 0 := by
  induction fuel generalizing s with
  | zero => cases h
  | succ fuel ih =>
    unfold nextCancelLoop at h
    split at h
    · cases h
    · rename_i heq; cases h; obtain ⟨rfl, hq, hs⟩ := cqRecv_closed heq; exact ⟨hq, hs⟩
    · split at h
      · cases h
      · exact ih h

/-! #### `poll_write_request` -/

theorem nil_of_length_le {α : Type} {l l' : List α} (h : l'.length ≤ l.length) (hl : l = []) : l' = [] := by
  subst hl; exact List.eq_nil_of_length_eq_zero (by simpa using h)

theorem ne_nil_of_length_le {α : Type} {l l' : List α} (h : l'.length ≤ l.length) (hl : l' ≠ []) : l ≠ [] := by
  intro hn; exact hl (nil_of_length_le h hn)

def NextReqPost (s : St) (p : St × PW DReq) : Prop :=
  Post s p.1 (∃ a, p.2 = .err a) ∧ (∀ r, p.2 = .some r → p.1.t.gotReady = true ∧ s.pq ≠ []) ∧
    (p.2 = .none → p.1.pq = [])

theorem pollNextRequest_post {s : St} (hb : Base s) (hnf : s.t.failed = false) :
    NextReqPost s (pollNextRequest s) := by
  refine pollNextRequest_cases (motive := NextReqPost s) s ?_ ?_ ?_
  · intro _; exact ⟨Post.refl hb hnf, by simp, by simp⟩
  · intro s1 e _ h1 hne
    have p1 := ensureWriteable_post hb hnf; rw [h1] at p1
    refine ⟨p1.1.weaken ?_, ?_, ?_⟩
    · rintro ⟨a, rfl⟩; exact ⟨a, rfl⟩
    · cases e <;> simp [EW.toPW] at hne ⊢
    · cases e <;> simp [EW.toPW] at hne ⊢
  · intro s1 _ h1
    have p1 := ensureWriteable_post hb hnf; rw [h1] at p1
    have d1 := ensureWriteable_frameD s; rw [h1] at d1
    have p2 : Post s1 (nextRequestLoop (s1.pq.length + 1) s1).1 (∃ a, (nextRequestLoop (s1.pq.length + 1) s1).2 = .err a) :=
      Post.of_frames (nextRequestLoop_frameA _ _) (nextRequestLoop_frameD _ _) p1.1.base (p1.1.nf_of (by simp))
    refine ⟨p1.1.andThen p2, ?_, ?_⟩
    · intro r hr
      rcases hp : nextRequestLoop (s1.pq.length + 1) s1 with ⟨s2, r2⟩
      rw [hp] at hr; cases hr
      have ht : s2.t = s1.t := by have := nextRequestLoop_t (s1.pq.length + 1) s1; rwa [hp] at this
      exact ⟨by rw [ht]; exact p1.2 rfl, ne_nil_of_length_le d1.pq (nextRequestLoop_some hp)⟩
    · intro hr
      rcases hp : nextRequestLoop (s1.pq.length + 1) s1 with ⟨s2, r2⟩
      rw [hp] at hr; cases hr
      exact nextRequestLoop_none hp

def WriteReqPost (s : St) (p : St × PW Unit) : Prop :=
  Post s p.1 (∃ a, p.2 = .err a) ∧ (p.2 = .none → p.1.pq = [])

theorem closed_false_of_pq {s : St} (hb : Base s) (h : s.pq ≠ []) : s.t.closed = false := by
  cases hc : s.t.closed
  · rfl
  · exact absurd (hb.cd hc).2.1 h

theorem closed_false_of_cq {s : St} (hb : Base s) (h : s.cq ≠ []) : s.t.closed = false := by
  cases hc : s.t.closed
  · rfl
  · exact absurd (hb.cd hc).2.2 h

theorem pollWriteRequest_post {s : St} (now : Nat) (hb : Base s) (hnf : s.t.failed = false) :
    WriteReqPost s (pollWriteRequest s now) := by
  have hp := pollNextRequest_post hb hnf
  refine pollWriteRequest_cases (motive := WriteReqPost s) s now ?_ ?_ ?_ ?_
  · intro s1 r h1 hns
    rw [h1] at hp
    refine ⟨hp.1.weaken ?_, ?_⟩
    · rintro ⟨a, rfl⟩; exact ⟨a, rfl⟩
    · cases r <;> simp [PW.pass, PW.isSome] at hns ⊢
      exact hp.2.2 rfl
  · intro s1 r s2 h1 h2 _
    rw [h1] at hp
    have p2 : Post s1 s2 (∃ a, (PW.spin : PW Unit) = PW.err a) :=
      Post.of_frames (insertRequest_frameA h2) (insertRequest_frameD h2) hp.1.base (hp.1.nf_of (by simp))
    exact ⟨hp.1.andThen p2, by simp⟩
  · intro s1 r s2 s3 h1 h2 _ h3
    rw [h1] at hp
    have hA := insertRequest_frameA h2
    have p2 : Post s1 s2 False :=
      Post.of_frames hA (insertRequest_frameD h2) hp.1.base (hp.1.nf_of (by simp))
    have hc : s2.t.closed = false := by
      rw [hA.t, hp.1.closed]; exact closed_false_of_pq hb (hp.2.1 r rfl).2
    have p3 := tSend_post (.request r.id r.ctx.deadline r.ctx.trace r.body) p2.base (p2.nf_of id)
      (by rw [hA.t]; exact (hp.2.1 r rfl).1) hc
    rw [h3] at p3
    exact ⟨((hp.1.andThen p2).andThen p3).weaken False.elim, by simp⟩
  · intro s1 r s2 s3 h1 h2 _ h3
    rw [h1] at hp
    have hA := insertRequest_frameA h2
    have p2 : Post s1 s2 False :=
      Post.of_frames hA (insertRequest_frameD h2) hp.1.base (hp.1.nf_of (by simp))
    have hc : s2.t.closed = false := by
      rw [hA.t, hp.1.closed]; exact closed_false_of_pq hb (hp.2.1 r rfl).2
    have p3 := tSend_post (.request r.id r.ctx.deadline r.ctx.trace r.body) p2.base (p2.nf_of id)
      (by rw [hA.t]; exact (hp.2.1 r rfl).1) hc
    rw [h3] at p3
    have p4 : Post s3 (completeRequest s3 r.id .send).1 False :=
      Post.of_frames (completeRequest_frameA _ _ _) (completeRequest_frameD _ _ _) p3.base (p3.nf_of id)
    exact ⟨(((hp.1.andThen p2).andThen p3).andThen p4).weaken False.elim, by simp⟩

/-! #### `poll_write_cancel` -/

def NextCanPost (s : St) (p : St × PW Entry) : Prop :=
  Post s p.1 (∃ a, p.2 = .err a) ∧ (∀ e, p.2 = .some e → p.1.t.gotReady = true ∧ s.cq ≠ []) ∧
    (p.2 = .none → p.1.cq = [] ∧ senders p.1 = 0)

theorem pollNextCancellation_post {s : St} (hb : Base s) (hnf : s.t.failed = false) :
    NextCanPost s (pollNextCancellation s) := by
  refine pollNextCancellation_cases (motive := NextCanPost s) s ?_ ?_
  · intro s1 e h1 hne
    have p1 := ensureWriteable_post hb hnf; rw [h1] at p1
    refine ⟨p1.1.weaken ?_, ?_, ?_⟩
    · rintro ⟨a, rfl⟩; exact ⟨a, rfl⟩
    · cases e <;> simp [EW.toPW] at hne ⊢
    · cases e <;> simp [EW.toPW] at hne ⊢
  · intro s1 h1
    have p1 := ensureWriteable_post hb hnf; rw [h1] at p1
    have d1 := ensureWriteable_frameD s; rw [h1] at d1
    have p2 : Post s1 (nextCancelLoop (s1.cq.length + 1) s1).1 (∃ a, (nextCancelLoop (s1.cq.length + 1) s1).2 = .err a) :=
      Post.of_frames (nextCancelLoop_frameA _ _) (nextCancelLoop_frameD _ _) p1.1.base (p1.1.nf_of (by simp))
    refine ⟨p1.1.andThen p2, ?_, ?_⟩
    · intro r hr
      rcases hp : nextCancelLoop (s1.cq.length + 1) s1 with ⟨s2, r2⟩
      rw [hp] at hr; cases hr
      have ht : s2.t = s1.t := by have := nextCancelLoop_t (s1.cq.length + 1) s1; rwa [hp] at this
      exact ⟨by rw [ht]; exact p1.2 rfl, ne_nil_of_length_le d1.cq (nextCancelLoop_some hp)⟩
    · intro hr
      rcases hp : nextCancelLoop (s1.cq.length + 1) s1 with ⟨s2, r2⟩
      rw [hp] at hr; cases hr
      exact nextCancelLoop_none hp

def WriteCanPost (s : St) (p : St × PW Unit) : Prop :=
  Post s p.1 (∃ a, p.2 = .err a) ∧ (p.2 = .none → p.1.cq = [] ∧ senders p.1 = 0)

theorem pollWriteCancel_post {s : St} (hb : Base s) (hnf : s.t.failed = false) :
    WriteCanPost s (pollWriteCancel s) := by
  have hp := pollNextCancellation_post hb hnf
  refine pollWriteCancel_cases (motive := WriteCanPost s) s ?_ ?_ ?_
  · intro s1 r h1 hns
    rw [h1] at hp
    refine ⟨hp.1.weaken ?_, ?_⟩
    · rintro ⟨a, rfl⟩; exact ⟨a, rfl⟩
    · cases r <;> simp [PW.pass, PW.isSome] at hns ⊢
      exact hp.2.2 rfl
  · intro s1 e s2 h1 h3
    rw [h1] at hp
    have hc : s1.t.closed = false := by rw [hp.1.closed]; exact closed_false_of_cq hb (hp.2.1 e rfl).2
    have p3 := tSend_post (.cancel e.id e.ctx.trace) hp.1.base (hp.1.nf_of (by simp)) (hp.2.1 e rfl).1 hc
    rw [h3] at p3
    exact ⟨(hp.1.andThen p3).weaken False.elim, by simp⟩
  · intro s1 e s2 h1 h3
    rw [h1] at hp
    have hc : s1.t.closed = false := by rw [hp.1.closed]; exact closed_false_of_cq hb (hp.2.1 e rfl).2
    have p3 := tSend_post (.cancel e.id e.ctx.trace) hp.1.base (hp.1.nf_of (by simp)) (hp.2.1 e rfl).1 hc
    rw [h3] at p3
    exact ⟨(hp.1.andThen p3).weaken False.elim, by simp⟩

/-! #### `pump_write`, `pump_read`, `run` -/

/-- C10 (client), the local fact: on the path of `pump_write` that calls `poll_close`, no sender is left and both
queues are empty in the state `poll_close` is called in. -/
theorem pumpWrite_close_drained {s s1 s2 s3 : St} {now : Nat} (h1 : pollWriteRequest s now = (s1, .none))
    (h2 : pollWriteCancel s1 = (s2, .none)) (h3 : pollExpired s2 now = (s3, false)) :
    senders s3 = 0 ∧ s3.pq = [] ∧ s3.cq = [] := by
  -- the request side reported "closed" with an empty queue …
  have q1 : s1.pq = [] := by
    revert h1
    refine pollWriteRequest_cases (motive := fun p => p = (s1, PW.none) → s1.pq = []) s now ?_ ?_ ?_ ?_
    · intro s1' r hn hs he
      revert hn
      refine pollNextRequest_cases (motive := fun p => p = (s1', r) → s1.pq = []) s ?_ ?_ ?_
      · intro _ hh; cases hh; cases he
      · intro s0 e _ _ hne hh; cases hh; cases e <;> simp [EW.toPW, PW.pass] at hne he
      · intro s0 _ _ hh
        cases r <;> simp [PW.pass, PW.isSome] at he hs
        cases he; exact nextRequestLoop_none hh
    · intro _ _ _ _ _ _ he; cases he
    · intro _ _ _ _ _ _ _ _ he; cases he
    · intro _ _ _ _ _ _ _ _ he; cases he
  -- … the cancellation side reported "closed": no sender, empty queue …
  have q2 : s2.cq = [] ∧ senders s2 = 0 := by
    revert h2
    refine pollWriteCancel_cases (motive := fun p => p = (s2, PW.none) → s2.cq = [] ∧ senders s2 = 0) s1 ?_ ?_ ?_
    · intro s1' r hn hs he
      revert hn
      refine pollNextCancellation_cases (motive := fun p => p = (s1', r) → s2.cq = [] ∧ senders s2 = 0) s1 ?_ ?_
      · intro s0 e _ hne hh; cases hh; cases e <;> simp [EW.toPW, PW.pass] at hne he
      · intro s0 _ hh
        cases r <;> simp [PW.pass, PW.isSome] at he hs
        cases he; exact nextCancelLoop_none hh
    · intro _ _ _ _ _ he; cases he
    · intro _ _ _ _ _ he; cases he
  have d2 := pollWriteCancel_frameD s1; rw [h2] at d2
  have d3 := pollExpired_frameD s2 now; rw [h3] at d3
  exact ⟨by rw [d3.senders]; exact q2.2, nil_of_length_le d3.pq (nil_of_length_le d2.pq q1),
    nil_of_length_le d3.cq q2.1⟩

theorem pollExpired_post {s : St} {E : Prop} (now : Nat) (hb : Base s) (hnf : s.t.failed = false) :
    Post s (pollExpired s now).1 E :=
  Post.of_frames (pollExpired_frameA _ _) (pollExpired_frameD _ _) hb hnf

theorem pumpWrite_post {s : St} (now : Nat) (hb : Base s) (hnf : s.t.failed = false) :
    PostR s (pumpWrite s now).1 (∃ a, (pumpWrite s now).2 = .err a) := by
  refine pumpWrite_cases (motive := fun p => PostR s p.1 (∃ a, p.2 = .err a)) s now ?_ ?_ ?_ ?_ ?_ ?_
  · intro s1 r1 h1 _
    have p1 := pollWriteRequest_post now hb hnf; rw [h1] at p1
    exact p1.1.toPostR
  · intro s1 r1 s2 r2 h1 hn1 h2 _
    have p1 := pollWriteRequest_post now hb hnf; rw [h1] at p1
    have hne : ¬ ∃ a, r1 = PW.err a := by rintro ⟨a, rfl⟩; simp [PW.isStop] at hn1
    have p2 := pollWriteCancel_post p1.1.base (p1.1.nf_of hne); rw [h2] at p2
    exact (p1.1.andThen p2.1).toPostR
  · intro s1 r1 s2 r2 s3 h1 hn1 h2 hn2 h3
    have p1 := pollWriteRequest_post now hb hnf; rw [h1] at p1
    have hne : ¬ ∃ a, r1 = PW.err a := by rintro ⟨a, rfl⟩; simp [PW.isStop] at hn1
    have p2 := pollWriteCancel_post p1.1.base (p1.1.nf_of hne); rw [h2] at p2
    have hne2 : ¬ ∃ a, r2 = PW.err a := by rintro ⟨a, rfl⟩; simp [PW.isStop] at hn2
    have p3 : Post s2 (pollExpired s2 now).1 (∃ a, (PW.some () : PW Unit) = .err a) :=
      pollExpired_post now p2.1.base (p2.1.nf_of hne2)
    rw [h3] at p3
    exact ((p1.1.andThen p2.1).andThen p3).toPostR
  · intro s1 r1 s2 r2 s3 h1 hn1 h2 hn2 h3 _
    have p1 := pollWriteRequest_post now hb hnf; rw [h1] at p1
    have hne : ¬ ∃ a, r1 = PW.err a := by rintro ⟨a, rfl⟩; simp [PW.isStop] at hn1
    have p2 := pollWriteCancel_post p1.1.base (p1.1.nf_of hne); rw [h2] at p2
    have hne2 : ¬ ∃ a, r2 = PW.err a := by rintro ⟨a, rfl⟩; simp [PW.isStop] at hn2
    have p3 : Post s2 (pollExpired s2 now).1 (∃ a, (PW.spin : PW Unit) = .err a) :=
      pollExpired_post now p2.1.base (p2.1.nf_of hne2)
    rw [h3] at p3
    exact ((p1.1.andThen p2.1).andThen p3).toPostR
  · intro s1 s2 s3 s4 r4 h1 h2 h3 h4
    have p1 := pollWriteRequest_post now hb hnf; rw [h1] at p1
    have p2 := pollWriteCancel_post p1.1.base (p1.1.nf_of (by simp)); rw [h2] at p2
    have p3 : Post s2 (pollExpired s2 now).1 False := pollExpired_post now p2.1.base (p2.1.nf_of (by simp))
    rw [h3] at p3
    have p4 := tClose_post p3.base (p3.nf_of id) (pumpWrite_close_drained h1 h2 h3)
    rw [h4] at p4
    refine (((p1.1.andThen p2.1).andThen p3).andThenR p4).weaken ?_
    rintro rfl; exact ⟨_, rfl⟩
  · intro s1 r1 s2 r2 s3 s4 r4 h1 hn1 h2 hn2 _ h3 h4
    have p1 := pollWriteRequest_post now hb hnf; rw [h1] at p1
    have hne : ¬ ∃ a, r1 = PW.err a := by rintro ⟨a, rfl⟩; simp [PW.isStop] at hn1
    have p2 := pollWriteCancel_post p1.1.base (p1.1.nf_of hne); rw [h2] at p2
    have hne2 : ¬ ∃ a, r2 = PW.err a := by rintro ⟨a, rfl⟩; simp [PW.isStop] at hn2
    have p3 : Post s2 (pollExpired s2 now).1 False := pollExpired_post now p2.1.base (p2.1.nf_of hne2)
    rw [h3] at p3
    have p4 := tFlush_post p3.base (p3.nf_of id)
    rw [h4] at p4
    refine (((p1.1.andThen p2.1).andThen p3).andThen p4).toPostR.weaken ?_
    rintro rfl; exact ⟨_, rfl⟩

theorem pumpRead_post {s : St} (hb : Base s) (hnf : s.t.failed = false) : Post s (pumpRead s).1 False := by
  refine pumpRead_cases (motive := fun p => Post s p.1 False) s ?_ ?_ ?_ ?_ ?_
  · intro s1 h1; have p := tNext_post hb hnf; rw [h1] at p; exact p
  · intro s1 h1; have p := tNext_post hb hnf; rw [h1] at p; exact p
  · intro s1 h1; have p := tNext_post hb hnf; rw [h1] at p; exact p
  · intro s1 id res h1
    have p := tNext_post hb hnf; rw [h1] at p
    exact p.andThen (Post.of_frames (completeRequest_frameA _ _ _) (completeRequest_frameD _ _ _) p.base (p.nf_of (fun h => h)))
  · intro s1 m h1 _; have p := tNext_post hb hnf; rw [h1] at p; exact p

theorem PostR.andThenR {s s1 s2 : St} {E1 E2 : Prop} (h1 : PostR s s1 E1) (h2 : PostR s1 s2 E2) : PostR s s2 E2 :=
  ⟨h2.base, fun w hw => h2.vm w (h1.vm w hw), h2.nf⟩

theorem emit_base {s : St} (o : Obs) (ho : ∀ ep v, o ≠ .tViolation ep v) (hb : Base s) : Base (emit s o) := by
  refine ⟨hb.sv, ?_, fun hc => hb.cd hc⟩
  intro ep w hm
  simp only [emit_obs, List.filter_cons] at hm
  split at hm
  · rcases List.mem_cons.mp hm with h | h
    · exact absurd h.symm (ho ep w)
    · exact hb.obsOK ep w h
  · exact hb.obsOK ep w hm

theorem run_post (fuel : Nat) {s : St} (now : Nat) (hb : Base s) (hnf : s.t.failed = false) :
    PostR s (run fuel s now).1 (∃ a, (run fuel s now).2 = .err a) := by
  induction fuel generalizing s with
  | zero =>
    rw [run_zero]
    exact ⟨emit_base _ (by simp) hb, fun _ h => h, by simp [hnf]⟩
  | succ fuel ih =>
    have pr := pumpRead_post hb hnf
    refine run_cases (motive := fun p => PostR s p.1 (∃ a, p.2 = .err a)) fuel s now ?_ ?_ ?_ ?_ ?_ ?_ ?_ ?_ ?_
    · intro s1 a h1; rw [h1] at pr; exact pr.toPostR.weaken False.elim
    · intro s1 h1; rw [h1] at pr; exact pr.toPostR.weaken False.elim
    · intro s1 rd s2 a h1 h2
      rw [h1] at pr
      have pw := pumpWrite_post now pr.base (pr.nf_of id); rw [h2] at pw
      exact (pr.andThenR pw).weaken (fun _ => ⟨_, rfl⟩)
    · intro s1 rd s2 h1 h2
      rw [h1] at pr
      have pw := pumpWrite_post now pr.base (pr.nf_of id); rw [h2] at pw
      exact (pr.andThenR pw).weaken (by simp)
    · intro s1 s2 wr h1 h2 hw
      rw [h1] at pr
      have pw := pumpWrite_post now pr.base (pr.nf_of id); rw [h2] at pw
      exact (pr.andThenR pw).weaken (by rcases hw with rfl | rfl | rfl <;> simp)
    · intro s1 rd s2 h1 _ h2 _
      rw [h1] at pr
      have pw := pumpWrite_post now pr.base (pr.nf_of id); rw [h2] at pw
      exact (pr.andThenR pw).weaken (by simp)
    · intro s1 s2 h1 h2 _
      rw [h1] at pr
      have pw := pumpWrite_post now pr.base (pr.nf_of id); rw [h2] at pw
      exact (pr.andThenR pw).weaken (by simp)
    · intro s1 rd s2 wr h1 h2 hw
      rw [h1] at pr
      have pw := pumpWrite_post now pr.base (pr.nf_of id); rw [h2] at pw
      have hne : ¬ ∃ a, wr = PW.err a := by
        rintro ⟨a, rfl⟩
        rcases hw with ⟨_, h | h | ⟨h, _⟩⟩ | ⟨_, h⟩ <;> cases h
      exact (pr.andThenR pw).andThenR (ih pw.base (pw.nf_of hne))
    · intro s1 s2 h1 h2
      rw [h1] at pr
      have pw := pumpWrite_post now pr.base (pr.nf_of id); rw [h2] at pw
      exact (pr.andThenR pw).weaken (by simp)

/-! ### flush before idle -/

/-- Nothing written is left unflushed without a flush in progress (its waker registered). -/
def Flushed (s : St) : Prop := s.t.buffered = [] ∨ s.t.writeWaker = true

theorem pumpWrite_flushed (s : St) (now : Nat) (h : (pumpWrite s now).2 = .pending ∨ (pumpWrite s now).2 = .none) :
    Flushed (pumpWrite s now).1 := by
  revert h
  refine pumpWrite_cases (motive := fun p => (p.2 = .pending ∨ p.2 = .none) → Flushed p.1) s now ?_ ?_ ?_ ?_ ?_ ?_
  · intro s1 r1 _ hs h; rcases h with rfl | rfl <;> simp [PW.isStop] at hs
  · intro s1 r1 s2 r2 _ _ _ hs h; rcases h with rfl | rfl <;> simp [PW.isStop] at hs
  · intro _ _ _ _ _ _ _ _ _ _ h; rcases h with h | h <;> cases h
  · intro _ _ _ _ _ _ _ _ _ _ _ h; rcases h with h | h <;> cases h
  · intro s1 s2 s3 s4 r4 _ _ _ h4 _
    have e : s4 = (tClose s3).1 ∧ r4 = (tClose s3).2 := by rw [h4]; exact ⟨rfl, rfl⟩
    obtain ⟨rfl, rfl⟩ := e
    have := SimT.pollClose_flushed s3.t
    unfold Flushed
    rw [tClose_t]
    rw [tClose_res] at *
    cases hr : s3.t.pollClose.2.1
    · exact .inr (this.1 hr)
    · exact .inl (this.2 hr)
    · rename_i h; rw [hr] at h; rcases h with h | h <;> cases h
  · intro s1 r1 s2 r2 s3 s4 r4 _ _ _ _ _ _ h4 _
    have e : s4 = (tFlush s3).1 ∧ r4 = (tFlush s3).2 := by rw [h4]; exact ⟨rfl, rfl⟩
    obtain ⟨rfl, rfl⟩ := e
    have := SimT.pollFlush_flushed s3.t
    unfold Flushed
    rw [tFlush_t]
    rw [tFlush_res] at *
    cases hr : s3.t.pollFlush.2.1
    · exact .inr (this.1 hr)
    · exact .inl (this.2 hr)
    · rename_i h; rw [hr] at h; rcases h with h | h <;> cases h

theorem run_pending_flushed (fuel : Nat) (s : St) (now : Nat) (h : (run fuel s now).2 = .pending) :
    Flushed (run fuel s now).1 := by
  induction fuel generalizing s with
  | zero => rw [run_zero] at h; cases h
  | succ fuel ih =>
    revert h
    refine run_cases (motive := fun p => p.2 = .pending → Flushed p.1) fuel s now ?_ ?_ ?_ ?_ ?_ ?_ ?_ ?_ ?_
    · intro _ _ _ h; cases h
    · intro _ _ h; cases h
    · intro _ _ _ _ _ _ h; cases h
    · intro _ _ _ _ _ h; cases h
    · intro _ _ _ _ _ _ h; cases h
    · intro _ _ _ _ _ _ _ h; cases h
    · intro s1 s2 _ h2 _ _
      have := pumpWrite_flushed s1 now; rw [h2] at this; exact this (.inr rfl)
    · intro s1 rd s2 wr _ _ _ h; exact ih s2 h
    · intro s1 s2 _ h2 _
      have := pumpWrite_flushed s1 now; rw [h2] at this; exact this (.inl rfl)

/-! ### the invariant of reachable states -/

/-- `Base` plus: a failure reported by the transport has been recorded as the dispatch's terminal error. -/
structure Inv (s : St) : Prop where
  base : Base s
  ft : s.t.failed = true → s.termErr.isSome = true

theorem Inv.of_frames {s s' : St} (hA : FrameA s s') (hD : FrameD s s') (h : Inv s) : Inv s' :=
  ⟨h.base.of_frames hA hD, by rw [hA.t, hA.termErr]; exact h.ft⟩

theorem pollDispatchCore_inv {s : St} (now : Nat) (h : Inv s) :
    Inv (pollDispatchCore s now).1 ∧ ∀ w ∈ s.t.violations, w ∈ (pollDispatchCore s now).1.t.violations := by
  refine pollDispatchCore_cases
    (motive := fun p => Inv p.1 ∧ ∀ w ∈ s.t.violations, w ∈ p.1.t.violations) s now ?_ ?_ ?_ ?_ ?_
  · intro a s1 fin _ h1
    have hA := shutDown_frameA s a; have hD := shutDown_frameD s a; rw [h1] at hA hD
    exact ⟨h.of_frames hA hD, by rw [hA.t]; exact fun _ hw => hw⟩
  · intro s1 ht h1
    have hnf : s.t.failed = false := by
      cases hf : s.t.failed
      · rfl
      · have := h.ft hf; rw [ht] at this; cases this
    have pr := run_post (runFuel s) now h.base hnf; rw [h1] at pr
    exact ⟨⟨pr.base, fun hf => by rw [pr.nf_of (by simp)] at hf; cases hf⟩, pr.vm⟩
  · intro s1 ht h1
    have hnf : s.t.failed = false := by
      cases hf : s.t.failed
      · rfl
      · have := h.ft hf; rw [ht] at this; cases this
    have pr := run_post (runFuel s) now h.base hnf; rw [h1] at pr
    exact ⟨⟨pr.base, fun hf => by rw [pr.nf_of (by simp)] at hf; cases hf⟩, pr.vm⟩
  · intro s1 ht h1
    have hnf : s.t.failed = false := by
      cases hf : s.t.failed
      · rfl
      · have := h.ft hf; rw [ht] at this; cases this
    have pr := run_post (runFuel s) now h.base hnf; rw [h1] at pr
    refine ⟨⟨⟨pr.base.sv, pr.base.obsOK, fun hc => pr.base.cd hc⟩, fun hf => ?_⟩, pr.vm⟩
    have := pr.nf_of (by simp); rw [this] at hf; cases hf
  · intro s1 a s2 fin ht h1 h2
    have hnf : s.t.failed = false := by
      cases hf : s.t.failed
      · rfl
      · have := h.ft hf; rw [ht] at this; cases this
    have pr := run_post (runFuel s) now h.base hnf; rw [h1] at pr
    have hi : Inv { s1 with termErr := some a } :=
      ⟨⟨pr.base.sv, pr.base.obsOK, fun hc => pr.base.cd hc⟩, fun _ => rfl⟩
    have hA := shutDown_frameA { s1 with termErr := some a } a
    have hD := shutDown_frameD { s1 with termErr := some a } a
    rw [h2] at hA hD
    exact ⟨hi.of_frames hA hD, by rw [hA.t]; exact pr.vm⟩

theorem keepFinish_inv {s0 s : St} (r : Ret) (h0 : ObsOK s0) (hv : ∀ w ∈ s0.t.violations, w ∈ s.t.violations)
    (h : Inv s) : Inv (keepFinish s0.obs s r) := by
  unfold keepFinish
  split
  · refine ⟨⟨h.base.sv, ?_, fun hc => h.base.cd hc⟩, h.ft⟩
    intro ep w hm
    simp only [List.filter_cons, isT_spin, ↓reduceIte, List.mem_cons, reduceCtorEq, false_or] at hm
    exact hv w (h0 ep w hm)
  · split
    · exact h
    · exact (h.of_frames (emit_frameA _ _ rfl) (emit_frameD _ _)).of_frames (emit_frameA _ _ rfl) (emit_frameD _ _)

theorem keepDone_inv {s : St} (r : Ret) (h : Inv s) : Inv (keepDone r s) := by
  unfold keepDone
  split
  · exact h
  · exact ⟨⟨h.base.sv, h.base.obsOK, fun hc => h.base.cd hc⟩, h.ft⟩

theorem pollDispatchKeep_inv {s : St} (now : Nat) (h : Inv s) : Inv (pollDispatchKeep s now) := by
  rw [pollDispatchKeep_eq]
  split
  · exact h.of_frames (emit_frameA _ _ rfl) (emit_frameD _ _)
  · have h' : Inv { s with dWoken := false } := ⟨⟨h.base.sv, h.base.obsOK, fun hc => h.base.cd hc⟩, h.ft⟩
    have hc := pollDispatchCore_inv now h'
    exact keepDone_inv _ (keepFinish_inv _ h.base.obsOK hc.2 hc.1)

theorem dropDispatch_inv {s : St} (h : Inv s) : Inv (dropDispatch s) :=
  h.of_frames (dropDispatch_frameA _) (dropDispatch_frameD _)

theorem pollDispatch_inv {s : St} (now : Nat) (h : Inv s) : Inv (pollDispatch s now) := by
  rw [pollDispatch_eq]
  split
  · exact dropDispatch_inv (pollDispatchKeep_inv now h)
  · exact pollDispatchKeep_inv now h

/-! ### the call side: with no sender left every call / handle operation is a no-op -/

theorem dead_of_senders {s : St} (h : senders s = 0) : s.handles = [] ∧ ∀ c ∈ s.calls, callLive c = false := by
  unfold senders at h
  have h1 : s.handles.length = 0 := by omega
  have h2 : (s.calls.filter callLive).length = 0 := by omega
  refine ⟨List.eq_nil_of_length_eq_zero h1, ?_⟩
  intro c hc
  have := List.eq_nil_of_length_eq_zero h2
  rw [List.filter_eq_nil_iff] at this
  simpa using this c hc

theorem getCall_dead {s : St} (h : senders s = 0) {cid : Nat} {c : Call} (hg : getCall s cid = some c) :
    c.phase = .resolved ∨ c.phase = .dropped := by
  have hm : c ∈ s.calls := List.mem_of_find?_eq_some hg
  have := (dead_of_senders h).2 c hm
  unfold callLive at this
  cases hp : c.phase <;> simp_all

/-- A call-side step: it is a transport-free step and, with no sender left, changes nothing the invariant
looks at. -/
structure CallStep (s s' : St) : Prop where
  fa : FrameA s s'
  dead : senders s = 0 → senders s' = 0 ∧ s'.pq = s.pq ∧ s'.cq = s.cq

theorem CallStep.inv {s s' : St} (hs : CallStep s s') (h : Inv s) : Inv s' := by
  refine ⟨⟨by rw [hs.fa.t]; exact h.base.sv, h.base.obsOK.of_frameA hs.fa, ?_⟩, by rw [hs.fa.t, hs.fa.termErr]; exact h.ft⟩
  intro hc
  rw [hs.fa.t] at hc
  obtain ⟨h1, h2, h3⟩ := h.base.cd hc
  obtain ⟨d1, d2, d3⟩ := hs.dead h1
  exact ⟨d1, by rw [d2]; exact h2, by rw [d3]; exact h3⟩

theorem pollCall_callStep (s : St) (cid now : Nat) : CallStep s (pollCall s cid now) := by
  refine ⟨pollCall_frameA _ _ _, fun hd => ?_⟩
  unfold pollCall
  split
  · exact ⟨hd, rfl, rfl⟩
  · rename_i c hg
    rcases getCall_dead hd hg with hp | hp <;> simp only [hp] <;> exact ⟨hd, rfl, rfl⟩

theorem dropPre_dead {s : St} (hd : senders s = 0) (cid : Nat) : dropPre s cid = s := by
  unfold dropPre
  split
  · rfl
  · rename_i c hg
    rcases getCall_dead hd hg with hp | hp <;> simp only [hp]

theorem dropClose_dead {s : St} (hd : senders s = 0) (cid : Nat) : dropClose s cid = s := by
  unfold dropClose
  split
  · rfl
  · rename_i c hg
    rcases getCall_dead hd hg with hp | hp <;> simp only [hp]

theorem dropCancel_dead {s : St} (hd : senders s = 0) (cid : Nat) : dropCancel s cid = s := by
  unfold dropCancel
  split
  · rfl
  · rename_i c hg
    rcases getCall_dead hd hg with hp | hp <;> simp only [hp]

theorem dropFinish_dead {s : St} (hd : senders s = 0) (cid : Nat) : dropFinish s cid = emit s .noop := by
  unfold dropFinish
  split
  · rfl
  · rename_i c hg
    rcases getCall_dead hd hg with hp | hp <;> simp only [hp]

theorem dropPre_callStep (s : St) (cid : Nat) : CallStep s (dropPre s cid) :=
  ⟨dropPre_frameA _ _, fun hd => by rw [dropPre_dead hd]; exact ⟨hd, rfl, rfl⟩⟩
theorem dropClose_callStep (s : St) (cid : Nat) : CallStep s (dropClose s cid) :=
  ⟨dropClose_frameA _ _, fun hd => by rw [dropClose_dead hd]; exact ⟨hd, rfl, rfl⟩⟩
theorem dropCancel_callStep (s : St) (cid : Nat) : CallStep s (dropCancel s cid) :=
  ⟨dropCancel_frameA _ _, fun hd => by rw [dropCancel_dead hd]; exact ⟨hd, rfl, rfl⟩⟩
theorem dropFinish_callStep (s : St) (cid : Nat) : CallStep s (dropFinish s cid) :=
  ⟨dropFinish_frameA _ _, fun hd => by rw [dropFinish_dead hd]; exact ⟨hd, rfl, rfl⟩⟩

theorem dropCall_inv {s : St} (cid : Nat) (at_ : DropAt) (now : Nat) (h : Inv s) : Inv (dropCall s cid at_ now) := by
  unfold dropCall
  dsimp only
  have step : ∀ (b : Bool) (x : St), Inv x → Inv (if b = true then pollDispatch x now else x) := by
    intro b x hx; split
    · exact pollDispatch_inv now hx
    · exact hx
  exact (dropFinish_callStep _ _).inv (step _ _ ((dropCancel_callStep _ _).inv (step _ _
    ((dropClose_callStep _ _).inv (step _ _ ((dropPre_callStep _ _).inv h))))))

theorem newCall_callStep (s : St) (h : Nat) (ctx : Ctx) (body : Nat) : CallStep s (newCall s h ctx body) := by
  refine ⟨newCall_frameA _ _ _ _, fun hd => ?_⟩
  unfold newCall
  rw [(dead_of_senders hd).1]
  exact ⟨hd, rfl, rfl⟩

theorem cloneHandle_callStep (s : St) (h : Nat) : CallStep s (cloneHandle s h) := by
  refine ⟨cloneHandle_frameA _ _, fun hd => ?_⟩
  unfold cloneHandle
  rw [(dead_of_senders hd).1]
  exact ⟨hd, rfl, rfl⟩

theorem dropHandle_callStep (s : St) (h : Nat) : CallStep s (dropHandle s h) := by
  refine ⟨dropHandle_frameA _ _, fun hd => ?_⟩
  unfold dropHandle
  rw [(dead_of_senders hd).1]
  exact ⟨hd, rfl, rfl⟩

/-! ### external events -/

/-- An external transport event: the parts of the transport the invariant reads are unchanged. -/
structure ExtT (t t' : SimT) : Prop where
  violations : t'.violations = t.violations
  closed : t'.closed = t.closed
  failed : t'.failed = t.failed

theorem Inv.of_extT {s : St} {t' : SimT} (hx : ExtT s.t t') (h : Inv s) : Inv { s with t := t' } := by
  refine ⟨⟨SV.congr hx.violations h.base.sv, ?_, ?_⟩, ?_⟩
  · intro ep w hm; show w ∈ t'.violations; rw [hx.violations]; exact h.base.obsOK ep w hm
  · intro hc
    have hc' : s.t.closed = true := by rw [← hx.closed]; exact hc
    exact h.base.cd hc'
  · intro hf
    have hf' : s.t.failed = true := by rw [← hx.failed]; exact hf
    exact h.ft hf'

theorem liftT_inv {s : St} {r : SimT × Bool} (hx : ExtT s.t r.1) (h : Inv s) : Inv (liftT s r) := by
  unfold liftT; dsimp only; split
  · exact (h.of_extT hx).of_frames (wakeDispatch_frameA _) (wakeDispatch_frameD _)
  · exact h.of_extT hx

theorem wakeIfReady_extT (t : SimT) : ExtT t t.wakeIfReady.1 := by
  unfold SimT.wakeIfReady; split <;> exact ⟨rfl, rfl, rfl⟩

theorem inject_extT (t : SimT) (i : Inb) : ExtT t (t.inject i).1 := ⟨rfl, rfl, rfl⟩
theorem setEof_extT (t : SimT) : ExtT t t.setEof.1 := ⟨rfl, rfl, rfl⟩
theorem setReady_extT (t : SimT) (b : Bool) : ExtT t (t.setReady b).1 := by
  have := wakeIfReady_extT { t with readyOpen := b }
  exact ⟨this.violations, this.closed, this.failed⟩
theorem setFlush_extT (t : SimT) (b : Bool) : ExtT t (t.setFlush b).1 := by
  have := wakeIfReady_extT { t with flushOpen := b }
  exact ⟨this.violations, this.closed, this.failed⟩
theorem armFault_extT (t : SimT) (k : FaultKind) : ExtT t (armFault t k) := by
  cases k <;> exact ⟨rfl, rfl, rfl⟩

theorem take_inv {s : St} (t' : SimT) (ms : List Msg) (hx : ExtT s.t t') (h : Inv s) :
    Inv (ms.foldl (fun s m => emit s (.took (tid s) m)) { s with t := t' }) := by
  have h1 := h.of_extT hx
  generalize ({ s with t := t' } : St) = s1 at h1
  induction ms generalizing s1 with
  | nil => exact h1
  | cons m ms ih => exact ih _ (h1.of_frames (emit_frameA _ _ rfl) (emit_frameD _ _))

/-! ### all operations, all scripts -/

theorem applyOp_inv {c : Sys} (op : COp) (h : Inv c.s) : Inv (applyOp c op).s := by
  cases op with
  | call hd d tr b => exact (newCall_callStep _ _ _ _).inv h
  | pollCall cid => exact (pollCall_callStep _ _ _).inv h
  | dropCall cid site => exact dropCall_inv _ _ _ h
  | clone hd => exact (cloneHandle_callStep _ _).inv h
  | dropHandle hd => exact (dropHandle_callStep _ _).inv h
  | pollDispatch => exact pollDispatch_inv _ h
  | dropDispatch => exact dropDispatch_inv h
  | injectResp id res => exact liftT_inv (inject_extT _ _) h
  | injectErr => exact liftT_inv (inject_extT _ _) h
  | eof => exact liftT_inv (setEof_extT _) h
  | setReady b => exact liftT_inv (setReady_extT _ _) h
  | setFlush b => exact liftT_inv (setFlush_extT _ _) h
  | fault k => exact h.of_extT (armFault_extT _ _)
  | faultSkip n => exact h.of_extT ⟨rfl, rfl, rfl⟩
  | selfWake b => exact h.of_extT ⟨rfl, rfl, rfl⟩
  | take n => exact take_inv _ _ ⟨rfl, rfl, rfl⟩ h
  | advance n => exact h.of_frames (onAdvance_frameA _ _) (onAdvance_frameD _ _)

theorem init_inv (k m b c : Nat) (coupled : Bool) : Inv (init k m b c coupled) := by
  refine ⟨⟨?_, ?_, ?_⟩, ?_⟩
  · intro w hw; cases hw
  · intro ep w hm; cases hm
  · intro hc; cases hc
  · intro hf; cases hf

theorem initSys_inv (m b c : Nat) (coupled : Bool) : Inv (initSys m b c coupled).s := init_inv _ _ _ _ _

theorem foldl_applyOp_inv (ops : List COp) {c : Sys} (h : Inv c.s) : Inv (ops.foldl applyOp c).s := by
  induction ops generalizing c with
  | nil => exact h
  | cons op ops ih => exact ih (applyOp_inv op h)

/-- Clearing the observation buffer (as `stepOp` does between ops) keeps the invariant. -/
theorem Inv.clearObs {s : St} (h : Inv s) : Inv { s with obs := [] } :=
  ⟨⟨h.base.sv, fun _ _ hm => by simp at hm, fun hc => h.base.cd hc⟩, h.ft⟩

end TarpcModel.Client.Flow

import TarpcModel.Lemmas.ServerTab2
import TarpcModel.Lemmas.ServerInv
/-!
The second coupling (`Tab.X`) over whole scripts: the ops besides `poll-server`, the invariant between ops, and the
acceptance of `checkC06Rest` (the two "deadline enforced" clauses of the C06 monitor) on every trace of the model without
limiter, below the clock bound, whose injected requests carry pairwise distinct ids.
-/
namespace TarpcModel.Server.Tab
open TarpcModel TarpcModel.Server TarpcModel.Server.Flow TarpcModel.Server.ObsMon TarpcModel.Server.Mon06
set_option linter.unusedSimpArgs false
set_option linter.unusedVariables false

/-! ## updates of the book that keep what the coupling reads -/

def Lx (f : WB → WB) : Prop :=
  ∀ e, (f e).rid = e.rid ∧ (f e).id = e.id ∧ (f e).deadline = e.deadline ∧ (f e).yieldedAt = e.yieldedAt ∧
    (f e).expiredSeen = e.expiredSeen

def BW.lx (B B' : BW) : Prop := ∃ f, B'.execs = B.execs.map f ∧ Lx f

theorem BW.lx.refl (B : BW) : BW.lx B B := ⟨id, by simp, fun e => ⟨rfl, rfl, rfl, rfl, rfl⟩⟩

theorem BW.lx.of_eq {B B' : BW} (h : B'.execs = B.execs) : BW.lx B B' := ⟨id, by simp [h], fun e => ⟨rfl, rfl, rfl, rfl, rfl⟩⟩

theorem BW.lx.trans {A B C : BW} (h1 : BW.lx A B) (h2 : BW.lx B C) : BW.lx A C := by
  obtain ⟨f1, e1, l1⟩ := h1
  obtain ⟨f2, e2, l2⟩ := h2
  refine ⟨f2 ∘ f1, by rw [e2, e1, List.map_map], fun e => ?_⟩
  obtain ⟨a1, a2, a3, a4, a5⟩ := l1 e
  obtain ⟨b1, b2, b3, b4, b5⟩ := l2 (f1 e)
  exact ⟨b1.trans a1, b2.trans a2, b3.trans a3, b4.trans a4, b5.trans a5⟩

theorem X.lx {rest : List Nat} {B B' : BW} {S : MV} (h : X rest B S) (hl : BW.lx B B') : X rest B' S := by
  obtain ⟨f, hb, hf⟩ := hl
  refine h.book f hb (fun e _ => ?_)
  obtain ⟨a1, a2, a3, a4, a5⟩ := hf e
  exact ⟨a1, a2, a3, a4, fun h' => Or.inl (a5 ▸ h')⟩

theorem lx_updExec (b : Book) (r : Nat) (f : BExec → BExec) (F : WB → WB) (hF : ∀ e, wb (f e) = F (wb e)) (hL : Lx F) :
    BW.lx (bw b) (bw (b.updExec r f)) := by
  refine ⟨fun x => if x.rid == r then F x else x, ?_, fun e => ?_⟩
  · show (b.execs.map (fun e => if e.rid == r then f e else e)).map wb = _
    exact map_wb_ite b.execs (fun e => (e.rid == r) = true) (fun x => (x.rid == r) = true) (fun e => Iff.rfl) f F hF
  · dsimp only
    split
    · exact hL e
    · exact ⟨rfl, rfl, rfl, rfl, rfl⟩

/-- an observation that is not a read, a response, `yielded` or the stream's `ret` -/
theorem step_lx (b : Book) (o : Obs) (h : isCore o = false) : BW.lx (bw b) (bw (b.step (.obs o))) := by
  cases o with
  | tNext ep r => simp [isCore] at h
  | yielded r id d tr => simp [isCore] at h
  | tSend ep m ok =>
    cases m with
    | response id res => simp [isCore] at h
    | _ => exact BW.lx.refl _
  | ret t r =>
    cases t with
    | server k => simp [isCore] at h
    | exec v =>
      cases r with
      | readyOk =>
        exact lx_updExec _ _ _ (fun x => { x with gone := true }) (fun e => rfl) (fun e => ⟨rfl, rfl, rfl, rfl, rfl⟩)
      | _ => exact BW.lx.refl _
    | _ => exact BW.lx.refl _
  | handler r ev t =>
    cases ev with
    | completed => exact lx_updExec _ _ _ id (fun e => rfl) (fun e => ⟨rfl, rfl, rfl, rfl, rfl⟩)
    | dropped => exact lx_updExec _ _ _ id (fun e => rfl) (fun e => ⟨rfl, rfl, rfl, rfl, rfl⟩)
    | _ => exact BW.lx.refl _
  | tReady ep r =>
    refine BW.lx.of_eq ?_
    simp only [Book.step]
    (repeat' split) <;> rfl
  | tFlush ep r =>
    refine BW.lx.of_eq ?_
    simp only [Book.step]
    (repeat' split) <;> rfl
  | counts ep a b' => cases ep <;> exact BW.lx.refl _
  | wake t => exact BW.lx.refl _
  | _ => exact BW.lx.refl _

theorem bo_lx (b0 : Book) {s s' : St} (h : Ext s s') : BW.lx (bw (bo b0 s.obs)) (bw (bo b0 s'.obs)) := by
  obtain ⟨l, e, p⟩ := h
  rw [e]
  clear e
  induction l with
  | nil => exact BW.lx.refl _
  | cons o l ih =>
    exact (ih (fun o' ho' => p o' (List.mem_cons_of_mem _ ho'))).trans (step_lx _ o (p o (List.mem_cons_self ..)))

theorem lx_endOp (b : Book) : BW.lx (bw b) (bw b.endOp) := by
  cases hc : b.curDropExec with
  | none => exact BW.lx.of_eq (by show b.endOp.execs.map wb = _; rw [endOp_execs_none b hc]; rfl)
  | some r =>
    have h1 := lx_updExec b r (fun e => if e.gone then e else { e with gone := true, abandoned := true })
      (fun x => if x.gone then x else { x with gone := true, abandoned := true })
      (fun e => by cases hg : e.gone <;> simp [wb, hg]) (fun e => by dsimp only; split <;> exact ⟨rfl, rfl, rfl, rfl, rfl⟩)
    refine h1.trans (BW.lx.of_eq ?_)
    show b.endOp.execs.map wb = _
    rw [endOp_execs_some b r hc]; rfl

theorem step_op_execs (b : Book) (op : SOp) : (b.step (.op op)).execs = b.endOp.execs := by
  cases op <;> rfl

theorem lx_opBook (b : Book) (op : SOp) : BW.lx (bw b.endOp) (bw (opBook b op)) := by
  unfold opBook
  have h0 : BW.lx (bw b.endOp) (bw (b.step (.op op))) :=
    BW.lx.of_eq (by show (b.step (.op op)).execs.map wb = _; rw [step_op_execs]; rfl)
  refine h0.trans ?_
  unfold Book.noteFinish
  split
  · exact lx_updExec _ _ _ id (fun e => by split <;> rfl) (fun e => ⟨rfl, rfl, rfl, rfl, rfl⟩)
  · exact BW.lx.refl _

/-! ## the ops besides `poll-server`: what they do to the queues -/

theorem dead_of_updExec_done (s : St) (r : Nat) (f : Exec → Exec) (hf : ∀ e, (f e).rid = e.rid ∧ execLive (f e) = false) :
    ∀ x ∈ (updExec s r f).execs, x.rid = r → execLive x = false := by
  intro x hx hr
  simp only [updExec] at hx
  obtain ⟨e0, _, rfl⟩ := List.mem_map.mp hx
  by_cases h0 : e0.rid = r
  · rw [if_pos (by simpa using h0)]; exact (hf e0).2
  · rw [if_neg (by simpa using h0)] at hr; exact absurd hr h0

theorem qaf_rq (s : St) (e : Exec) (res : Res) (n : Nat) :
    (∀ p ∈ (queueAndFinish s e res n).respQ, p ∈ s.respQ ∨ p.1 = e.id) ∧
    ∀ x ∈ (queueAndFinish s e res n).execs, x.rid = e.rid → execLive x = false := by
  unfold queueAndFinish
  simp only
  constructor
  · intro p hp
    simp only [emit_respQ, updExec_respQ] at hp
    split at hp
    · exact Or.inl hp
    · split at hp
      · simp only [wakeServer_respQ] at hp
        rcases List.mem_append.mp hp with h | h
        · exact Or.inl h
        · simp only [List.mem_singleton] at h; rw [h]; exact Or.inr rfl
      · rcases List.mem_append.mp hp with h | h
        · exact Or.inl h
        · simp only [List.mem_singleton] at h; rw [h]; exact Or.inr rfl
  · intro x hx
    rw [emit_execs] at hx
    refine dead_of_updExec_done _ _ _ ?_ x hx
    exact fun e' => ⟨rfl, rfl⟩

theorem trySend_rq (s : St) (e : Exec) (res : Res) (n : Nat) :
    ∀ p ∈ (trySend s e res n).respQ, p ∈ s.respQ ∨
      (p.1 = e.id ∧ ∀ x ∈ (trySend s e res n).execs, x.rid = e.rid → execLive x = false) := by
  unfold trySend
  split
  · intro p hp
    exact ((qaf_rq s e res n).1 p hp).imp id (fun h => ⟨h, (qaf_rq s e res n).2⟩)
  · split
    · intro p hp
      exact ((qaf_rq _ e res n).1 p hp).imp id (fun h => ⟨h, (qaf_rq _ e res n).2⟩)
    · split
      · intro p hp; exact Or.inl hp
      · split
        · intro p hp
          exact ((qaf_rq _ e res n).1 p hp).imp id (fun h => ⟨h, (qaf_rq _ e res n).2⟩)
        · intro p hp; exact Or.inl hp

/-- `poll-exec` of an aborted execution: what is dropped -/
def peDrop (s0 : St) (e : Exec) (vid now : Nat) : St :=
  match e.phase with
  | .sending =>
      let had := s0.rqAssigned.contains e.rid
      let s := { s0 with rqAssigned := s0.rqAssigned.filter (· != e.rid), rqWaiters := s0.rqWaiters.filter (· != e.rid) }
      if had then rqRelease s else s
  | _ => if e.hDone then s0 else emit s0 (.handler vid .dropped now)

def peAborted (s0 : St) (e : Exec) (vid now : Nat) : St :=
  emit (updExec (peDrop s0 e vid now) e.rid (fun x => { x with phase := .done, guardArmed := false })) (.ret (.exec vid) .readyOk)

def peSending (s0 : St) (e : Exec) (now : Nat) : St :=
  match e.resp with
  | some res => trySend s0 e res now
  | none => emit s0 .noop

def peStart (s0 : St) (e : Exec) (vid now : Nat) : St :=
  emit (updExec s0 e.rid (fun x => { x with phase := .running })) (.handler vid .polled now)

def peRunning (s0 : St) (e : Exec) (vid now : Nat) : St :=
  match e.finishCmd with
  | some res =>
      trySend (updExec (emit (peStart s0 e vid now) (.handler vid .completed now)) e.rid
        (fun x => { x with hDone := true, finishCmd := none })) { e with hDone := true, phase := .running } res now
  | none =>
      emit (updExec (peStart s0 e vid now) e.rid (fun x => { x with abortWaker := true })) (.ret (.exec vid) .pending)

/-- `poll-exec` of an execution that runs -/
def peRun (s0 : St) (e : Exec) (vid now : Nat) : St :=
  match e.phase with
  | .sending => peSending s0 e now
  | _ => peRunning s0 e vid now

theorem pollExec_eq (s : St) (vid now : Nat) :
    pollExec s vid now =
      match getExecVis s vid with
      | none => emit s .noop
      | some e =>
          if !execLive e then emit s .noop
          else if e.aborted then peAborted (updExec s e.rid (fun x => { x with woken := false })) e vid now
          else peRun (updExec s e.rid (fun x => { x with woken := false })) e vid now := by
  unfold pollExec peAborted peDrop peRun peSending peRunning peStart
  cases getExecVis s vid with
  | none => rfl
  | some e =>
    simp only
    by_cases hl : (!execLive e) = true
    · rw [if_pos hl, if_pos hl]
    · rw [if_neg hl, if_neg hl]
      by_cases ha : e.aborted = true
      · rw [if_pos ha, if_pos ha]
        cases e.phase <;> rfl
      · rw [if_neg ha, if_neg ha]
        cases e.phase <;> rfl

theorem peDrop_respQ (s0 : St) (e : Exec) (vid now : Nat) : (peDrop s0 e vid now).respQ = s0.respQ := by
  unfold peDrop
  cases e.phase <;> simp only <;> (split <;> first | rfl | (rw [rqRelease_respQ]))

theorem peAborted_respQ (s0 : St) (e : Exec) (vid now : Nat) : (peAborted s0 e vid now).respQ = s0.respQ := by
  unfold peAborted
  rw [emit_respQ, updExec_respQ, peDrop_respQ]

theorem peRun_rq (s0 : St) (e : Exec) (vid now : Nat) :
    ∀ p ∈ (peRun s0 e vid now).respQ, p ∈ s0.respQ ∨
      (p.1 = e.id ∧ ∀ x ∈ (peRun s0 e vid now).execs, x.rid = e.rid → execLive x = false) := by
  have hsend : ∀ p ∈ (peSending s0 e now).respQ, p ∈ s0.respQ ∨
      (p.1 = e.id ∧ ∀ x ∈ (peSending s0 e now).execs, x.rid = e.rid → execLive x = false) := by
    unfold peSending
    cases e.resp with
    | none => intro p hp; exact Or.inl hp
    | some res => exact trySend_rq s0 e res now
  have hrun : ∀ p ∈ (peRunning s0 e vid now).respQ, p ∈ s0.respQ ∨
      (p.1 = e.id ∧ ∀ x ∈ (peRunning s0 e vid now).execs, x.rid = e.rid → execLive x = false) := by
    unfold peRunning
    cases e.finishCmd with
    | none => intro p hp; exact Or.inl hp
    | some res =>
      intro p hp
      have := trySend_rq (updExec (emit (peStart s0 e vid now) (.handler vid .completed now)) e.rid
        (fun x => { x with hDone := true, finishCmd := none })) { e with hDone := true, phase := .running } res now p hp
      exact this
  unfold peRun
  cases e.phase <;> first | exact hsend | exact hrun

theorem pollExec_rq (s : St) (vid n : Nat) :
    ∀ p ∈ (pollExec s vid n).respQ, p ∈ s.respQ ∨
      ∃ e, getExecVis s vid = some e ∧ p.1 = e.id ∧ ∀ x ∈ (pollExec s vid n).execs, x.rid = e.rid → execLive x = false := by
  rw [pollExec_eq]
  split
  · intro p hp; exact Or.inl hp
  · next e hg =>
    split
    · intro p hp; exact Or.inl hp
    · split
      · intro p hp
        rw [peAborted_respQ] at hp
        exact Or.inl hp
      · intro p hp
        rcases peRun_rq _ e vid n p hp with h | ⟨h1, h2⟩
        · exact Or.inl h
        · exact Or.inr ⟨e, hg, h1, h2⟩

theorem dropExec_cq (s : St) (vid n : Nat) :
    ∀ i ∈ (dropExec s vid n).cancelQ, i ∈ s.cancelQ ∨ ∃ e, getExecVis s vid = some e ∧ execLive e = true ∧ i = e.id := by
  unfold dropExec
  split
  · intro i hi; exact Or.inl hi
  · next e hg =>
    simp only
    split
    · intro i hi; exact Or.inl hi
    · next hl =>
      have hcq : ∀ s0 : St, ∀ i ∈ (guardDrop s0 e).cancelQ, i ∈ s0.cancelQ ∨ i = e.id := by
        intro s0 i hi
        unfold guardDrop at hi
        split at hi
        · simp only at hi
          split at hi
          · simp only [wakeServer_cancelQ] at hi
            rcases List.mem_append.mp hi with h | h
            · exact Or.inl h
            · exact Or.inr (List.mem_singleton.mp h)
          · rcases List.mem_append.mp hi with h | h
            · exact Or.inl h
            · exact Or.inr (List.mem_singleton.mp h)
        · exact Or.inl hi
      intro i hi
      rcases hcq _ i hi with h | h
      · left
        simp only [updExec_cancelQ] at h
        split at h
        · split at h
          · exact h
          · exact h
        · split at h
          · simpa using h
          · exact h
        · exact h
      · exact Or.inr ⟨e, by assumption, by simpa using hl, h⟩

/-! ## … and to the coupling -/

theorem X_ld {now : Nat} {pend : Option (Nat × Nat)} {Bv : BV} {rest : List Nat} {B : BW} {s s' : St} {r : Nat}
    (hK : K now pend Bv (sview s)) (h : X rest B (mv s)) (hl : LD r s s') (hlive : LiveRid s r)
    (hcq : ∀ i ∈ s'.cancelQ, i ∈ s.cancelQ ∨
      ∃ e ∈ s.execs, e.rid = r ∧ e.id = i ∧ ∀ x ∈ s'.execs, x.rid = r → execLive x = false)
    (hrq : ∀ p ∈ s'.respQ, p ∈ s.respQ ∨
      ∃ e ∈ s.execs, e.rid = r ∧ e.id = p.1 ∧ ∀ x ∈ s'.execs, x.rid = r → execLive x = false)
    (hinb : s'.t.inbound = s.t.inbound) : X rest B (mv s') := by
  obtain ⟨⟨g, hg, hid⟩, hin, _, _⟩ := hl
  have hlv := liveRid_of_K hK hlive
  refine h.model s.execs ye (ye ∘ g) rfl (by show s'.execs.map ye = _; rw [hg, List.map_map]) ?_ ?_ ?_ ?_ hinb ?_
  · intro a ha
    obtain ⟨h1, h2, _, h4, h5, h6⟩ := hid a
    refine ⟨h1, h2, h4, fun hq => ?_, fun hq => ?_⟩
    · by_cases hr : a.rid = r
      · exact hlv a ha hr
      · have : execLive (g a) = execLive a := h6 hr
        show execLive a = true
        rw [← this]; exact hq
    · show (g a).aborted = true
      rw [h5]; exact hq
  · intro en' hen'
    have : (mv s').ents = (mv s).ents := congrArg (List.map ze) hin
    rw [this] at hen'
    exact ⟨en', hen', rfl, rfl, Nat.le_refl _⟩
  · intro i hi
    rcases hcq i hi with h1 | ⟨e, he, her, hei, hd⟩
    · exact Or.inl h1
    · exact Or.inr ⟨e, he, hei, hd (g e) (by rw [hg]; exact List.mem_map_of_mem he) ((hid e).1.trans her)⟩
  · intro i hi
    obtain ⟨p, hp, rfl⟩ := List.mem_map.mp hi
    rcases hrq p hp with h1 | ⟨e, he, her, hei, hd⟩
    · exact Or.inl (List.mem_map_of_mem h1)
    · exact Or.inr ⟨e, he, hei, hd (g e) (by rw [hg]; exact List.mem_map_of_mem he) ((hid e).1.trans her)⟩
  · intro a ha ⟨en, hen, hr⟩
    refine Or.inl ⟨en, ?_, hr⟩
    have : (mv s').ents = (mv s).ents := congrArg (List.map ze) hin
    rw [this]; exact hen

theorem liftT_nextVis (s : St) (r : SimT × Bool) : (liftT s r).nextVis = s.nextVis := by
  unfold liftT; simp only; split <;> simp

theorem mv_liftT (s : St) (r : SimT × Bool) : mv (liftT s r) = { mv s with inb := r.1.inbound } := by
  unfold mv
  simp [liftT_t, liftT_nextVis]

theorem mv_took (ms : List Msg) (s : St) : mv (ms.foldl (fun s m => emit s (.took (tid s) m)) s) = mv s := by
  induction ms generalizing s with
  | nil => rfl
  | cons m ms ih => exact (ih _).trans rfl

theorem mv_onAdvance (s : St) (n : Nat) : mv (onAdvance s n) = mv s := by
  unfold onAdvance
  (repeat' split) <;> first | rfl | exact (qm_wakeServer _).2.trans rfl

theorem armFault_inbound (t : SimT) (k : FaultKind) : (armFault t k).inbound = t.inbound := by
  cases k <;> rfl

theorem wakeIfReady_inbound (t : SimT) : t.wakeIfReady.1.inbound = t.inbound := by
  unfold SimT.wakeIfReady; split <;> rfl

def opReq : SOp → List Nat
  | .injectReq id _ _ _ => [id]
  | _ => []

/-- the ids of the requests a script injects, in order -/
def reqIds : List SOp → List Nat
  | [] => []
  | op :: ops => opReq op ++ reqIds ops

theorem X_applyOp {now : Nat} {pend : Option (Nat × Nat)} {Bv : BV} {rest : List Nat} {B : BW} (c0 : Sys) (op : SOp)
    (h1 : op ≠ .pollServer) (h2 : op ≠ .dropServer) (hK : K now pend Bv (sview c0.s))
    (hX : X (opReq op ++ rest) B (mv c0.s)) : X rest B (mv (applyOp c0 op).s) := by
  have hsame : ∀ s' : St, mv s' = mv c0.s → opReq op = [] → X rest B (mv s') := by
    intro s' h hr
    rw [h]; rw [hr] at hX; exact hX
  have hinj : ∀ m : Inb, opReq op = inbIds [m] → X rest B (mv (liftT c0.s (c0.s.t.inject m))) := by
    intro m hr
    rw [mv_liftT]
    exact hX.inject m (by rw [hr])
  cases op with
  | pollServer => exact absurd rfl h1
  | dropServer => exact absurd rfl h2
  | pollExec v =>
    show X rest B (mv (pollExec c0.s v c0.now))
    have hX : X rest B (mv c0.s) := hX
    have hcq : (pollExec c0.s v c0.now).cancelQ = c0.s.cancelQ := pollExec_cancelQ _ _ _
    have ht : (pollExec c0.s v c0.now).t = c0.s.t := pollExec_t _ _ _
    rcases ld_pollExec c0.s v c0.now with h | ⟨e, hg, hl, h⟩
    · refine X_ld hK hX h (Or.inl rfl) (fun i hi => Or.inl (by rw [← hcq]; exact hi)) (fun p hp => ?_) (by rw [ht])
      rcases pollExec_rq c0.s v c0.now p hp with h3 | ⟨e, hg, _, hd⟩
      · exact Or.inl h3
      · -- nothing changed: the execution found is as it was, not live: its poll is a no-op
        left
        obtain ⟨⟨g, hgm, hid⟩, _⟩ := h
        obtain ⟨hem, _⟩ := getExecVis_mem hg
        have hlt := hK.ridLt (xe e) (List.mem_map_of_mem hem)
        simp only [sview, List.length_map] at hlt
        have hne : e.rid ≠ c0.s.execs.length := Nat.ne_of_lt hlt
        have hdead := hd (g e) (by rw [hgm]; exact List.mem_map_of_mem hem) (hid e).1
        rw [(hid e).2.2.2.2.2 hne] at hdead
        have : pollExec c0.s v c0.now = emit c0.s .noop := by
          unfold pollExec; simp [hg, hdead]
        rw [this] at hp
        exact hp
    · refine X_ld hK hX h (Or.inr ⟨e, (getExecVis_mem hg).1, rfl, hl⟩) (fun i hi => Or.inl (by rw [← hcq]; exact hi))
        (fun p hp => ?_) (by rw [ht])
      rcases pollExec_rq c0.s v c0.now p hp with h3 | ⟨e', hg', hpe, hd⟩
      · exact Or.inl h3
      · rw [hg] at hg'; cases hg'
        exact Or.inr ⟨e, (getExecVis_mem hg).1, rfl, hpe.symm, hd⟩
  | dropExec v =>
    show X rest B (mv (dropExec c0.s v c0.now))
    have hX : X rest B (mv c0.s) := hX
    have hrq : (dropExec c0.s v c0.now).respQ = c0.s.respQ := dropExec_respQ _ _ _
    have ht : (dropExec c0.s v c0.now).t = c0.s.t := dropExec_t _ _ _
    rcases ld_dropExec c0.s v c0.now with ⟨h, hnl⟩ | ⟨e, hg, hl, h, hpost⟩
    · refine X_ld hK hX h (Or.inl rfl) (fun i hi => ?_) (fun p hp => Or.inl (by rw [← hrq]; exact hp)) (by rw [ht])
      rcases dropExec_cq c0.s v c0.now i hi with h3 | ⟨e, hg, hl, _⟩
      · exact Or.inl h3
      · rw [hnl e hg] at hl; cases hl
    · refine X_ld hK hX h (Or.inr ⟨e, (getExecVis_mem hg).1, rfl, hl⟩) (fun i hi => ?_)
        (fun p hp => Or.inl (by rw [← hrq]; exact hp)) (by rw [ht])
      rcases dropExec_cq c0.s v c0.now i hi with h3 | ⟨e', hg', _, hie⟩
      · exact Or.inl h3
      · rw [hg] at hg'; cases hg'
        exact Or.inr ⟨e, (getExecVis_mem hg).1, rfl, hie.symm, hpost⟩
  | finish v res =>
    show X rest B (mv (finishHandler c0.s v res))
    have hX : X rest B (mv c0.s) := hX
    refine X_ld hK hX (ld_finishHandler c0.s.execs.length c0.s v res) (Or.inl rfl)
      (fun i hi => Or.inl (by rw [← finishHandler_cancelQ c0.s v res]; exact hi))
      (fun p hp => Or.inl (by rw [← finishHandler_respQ c0.s v res]; exact hp)) (by rw [finishHandler_t])
  | injectReq id d tr b => exact hinj (.msg (.request id d tr b)) rfl
  | injectCancel id tr => exact hinj (.msg (.cancel id tr)) rfl
  | injectErr => exact hinj .err rfl
  | eof =>
    refine hsame _ ?_ rfl
    show mv (liftT c0.s c0.s.t.setEof) = _
    rw [mv_liftT]; rfl
  | setReady b =>
    refine hsame _ ?_ rfl
    show mv (liftT c0.s (c0.s.t.setReady b)) = _
    rw [mv_liftT]
    have : (c0.s.t.setReady b).1.inbound = c0.s.t.inbound := wakeIfReady_inbound _
    rw [this]; rfl
  | setFlush b =>
    refine hsame _ ?_ rfl
    show mv (liftT c0.s (c0.s.t.setFlush b)) = _
    rw [mv_liftT]
    have : (c0.s.t.setFlush b).1.inbound = c0.s.t.inbound := wakeIfReady_inbound _
    rw [this]; rfl
  | fault k => exact hsame _ (mv_setT c0.s _ (armFault_inbound _ k)) rfl
  | faultSkip n => exact hsame _ (mv_setT c0.s _ rfl) rfl
  | selfWake b => exact hsame _ (mv_setT c0.s _ rfl) rfl
  | take n =>
    refine hsame _ ?_ rfl
    show mv ((c0.s.t.take n).2.foldl (fun s m => emit s (.took (tid s) m)) { c0.s with t := (c0.s.t.take n).1 }) = _
    rw [mv_took]
    exact mv_setT c0.s _ rfl
  | advance n => exact hsame _ (mv_onAdvance _ _) rfl

/-! ## the enforcement clause on the ops besides `poll-server` -/

/-- a `handler … polled` observation -/
def isHP : Obs → Bool
  | .handler _ .polled _ => true
  | _ => false

theorem isHP_sendQuiet : SendQuiet isHP := ⟨⟨fun _ => rfl, rfl, fun _ _ => rfl⟩, fun _ _ => rfl⟩
theorem isHP_wakeQuiet : WakeQuiet isHP := isHP_sendQuiet.toWakeQuiet

theorem peDrop_hp (s0 : St) (e : Exec) (vid now : Nat) : (peDrop s0 e vid now).obs.filter isHP = s0.obs.filter isHP := by
  unfold peDrop
  cases e.phase <;> simp only <;> (split <;> first | rfl | (rw [fx_rqRelease isHP_wakeQuiet]))

theorem peAborted_hp (s0 : St) (e : Exec) (vid now : Nat) :
    (peAborted s0 e vid now).obs.filter isHP = s0.obs.filter isHP := by
  unfold peAborted
  show (Obs.ret (.exec vid) .readyOk :: (peDrop s0 e vid now).obs).filter isHP = _
  rw [List.filter_cons_of_neg (by simp [isHP]), peDrop_hp]

theorem peRun_hp (s0 : St) (e : Exec) (vid now : Nat) :
    (peRun s0 e vid now).obs.filter isHP = s0.obs.filter isHP ∨
    (peRun s0 e vid now).obs.filter isHP = .handler vid .polled now :: s0.obs.filter isHP := by
  unfold peRun
  cases e.phase
  case sending =>
    left
    unfold peSending
    cases e.resp with
    | none => simp [Server.emit, isHP]
    | some res => exact fx_trySend isHP_sendQuiet _ _ _ _
  all_goals
    right
    unfold peRunning
    have h0 : (peStart s0 e vid now).obs.filter isHP = .handler vid .polled now :: s0.obs.filter isHP := by
      unfold peStart
      show (Obs.handler vid .polled now :: s0.obs).filter isHP = _
      rw [List.filter_cons_of_pos (by rfl)]
    cases e.finishCmd with
    | none =>
      show (Obs.ret (.exec vid) .pending :: (peStart s0 e vid now).obs).filter isHP = _
      rw [List.filter_cons_of_neg (by simp [isHP]), h0]
    | some res =>
      rw [fx_trySend isHP_sendQuiet]
      show (Obs.handler vid .completed now :: (peStart s0 e vid now).obs).filter isHP = _
      rw [List.filter_cons_of_neg (by simp [isHP]), h0]

/-- `poll-exec v` reports `handler … polled` only for `v`, live and not aborted -/
theorem pollExec_hp (s : St) (vid now : Nat) (h0 : s.obs = []) (v t : Nat)
    (hm : Obs.handler v .polled t ∈ (pollExec s vid now).obs) :
    v = vid ∧ ∃ e, getExecVis s vid = some e ∧ execLive e = true ∧ e.aborted = false := by
  have hmem : Obs.handler v .polled t ∈ (pollExec s vid now).obs.filter isHP := List.mem_filter.mpr ⟨hm, rfl⟩
  rw [pollExec_eq] at hmem
  split at hmem
  · simp [Server.emit, h0, isHP] at hmem
  · next e hg =>
    split at hmem
    · simp [Server.emit, h0, isHP] at hmem
    · next hl =>
      split at hmem
      · rw [peAborted_hp] at hmem
        simp [updExec, h0] at hmem
      · next ha =>
        rcases peRun_hp (updExec s e.rid (fun x => { x with woken := false })) e vid now with h | h
        · rw [h] at hmem
          simp [updExec, h0] at hmem
        · rw [h] at hmem
          simp [updExec, h0] at hmem
          exact ⟨hmem.1, e, hg, by simpa using hl, by simpa using ha⟩

theorem dropExec_hp (s : St) (vid now : Nat) : (dropExec s vid now).obs.filter isHP = s.obs.filter isHP := by
  unfold dropExec
  split
  · simp [Server.emit, isHP]
  · simp only
    split
    · simp [Server.emit, isHP]
    · rw [fx_guardDrop isHP_wakeQuiet]
      simp only [Server.updExec]
      split
      · split
        · rfl
        · simp only [Server.emit]; rw [List.filter_cons_of_neg (by simp [isHP])]
      · split
        · rw [fx_rqRelease isHP_wakeQuiet]
        · rfl
      · rfl

def PolledOKW (B : BW) (v : Nat) : Prop := ∀ x ∈ B.execs, x.rid = v → x.expiredSeen = false

theorem PolledOKW.lx {B B' : BW} {v : Nat} (h : PolledOKW B v) (hl : BW.lx B B') : PolledOKW B' v := by
  obtain ⟨f, hb, hf⟩ := hl
  intro x hx hr
  rw [hb] at hx
  obtain ⟨x0, hx0, rfl⟩ := List.mem_map.mp hx
  rw [(hf x0).2.2.2.2]
  exact h x0 hx0 ((hf x0).1.symm.trans hr)

theorem chk06_polled (b : Book) (v t : Nat) (h : PolledOKW (bw b) v) : chk06 b (.handler v .polled t) = none := by
  unfold chk06
  simp only [checkC06Rest]
  split
  · next e tp hE hL =>
    have hm : e ∈ b.execs := List.mem_of_find?_eq_some hE
    have hr : e.rid = v := by simpa using List.find?_some hE
    have hx : e.expiredSeen = false := h (wb e) (List.mem_map_of_mem hm) hr
    rw [if_neg (by rw [hx]; simp)]
  · rfl

theorem bo_lx_list (b0 : Book) (l : List Obs) (h : ∀ o ∈ l, isCore o = false) : BW.lx (bw b0) (bw (bo b0 l)) := by
  induction l with
  | nil => exact BW.lx.refl _
  | cons o l ih =>
    exact (ih (fun o' ho' => h o' (List.mem_cons_of_mem _ ho'))).trans (step_lx _ o (h o (List.mem_cons_self ..)))

theorem CK_ops (b0 : Book) : ∀ (obs : List Obs), (∀ o ∈ obs, isCore o = false) →
    (b0.spun = true ∨ ∀ v t, Obs.handler v .polled t ∈ obs → PolledOKW (bw b0) v) → CK chk06 b0 obs := by
  intro obs
  induction obs with
  | nil => intro _ _; trivial
  | cons o l ih =>
    intro hc hh
    have hcl : ∀ o' ∈ l, isCore o' = false := fun o' ho' => hc o' (List.mem_cons_of_mem _ ho')
    refine ⟨ih hcl (hh.imp id (fun h v t hm => h v t (List.mem_cons_of_mem _ hm))), ?_⟩
    rcases hh with hs | hh
    · left
      have := bo_spun_mono b0 [] l hs
      simpa using this
    · right
      by_cases hp : ∃ v t, o = .handler v .polled t
      · obtain ⟨v, t, rfl⟩ := hp
        exact chk06_polled _ v t ((hh v t (List.mem_cons_self ..)).lx (bo_lx_list b0 l hcl))
      · refine chk06_other _ _ (fun v t he => hp ⟨v, t, he⟩) (fun ep id res ok he => ?_)
        have := hc o (List.mem_cons_self ..)
        rw [he] at this; cases this

/-! ## a monitor over one op's observations -/

section gen
variable (check : Book → Unit → SEv → Unit × Option String)

def chkOf (b : Book) (o : Obs) : Option String := (check b () (.obs o)).2

def mobsG (m : Mon Unit) (l : List Obs) : Mon Unit := l.foldl (fun m o => Mon.step check m (.obs o)) m

theorem monG_step_book (m : Mon Unit) (e : SEv) : (Mon.step check m e).book = (m.book.step e).noteFinish e := by
  rw [FlowMon.mon_step_def]
  split
  · rw [FlowMon.fail_book]
  · rfl

theorem monG_step_bad (m : Mon Unit) (e : SEv) (hb : m.bad = none)
    (hc : m.book.spun = true ∨ (check (FlowMon.bookOf m.book e) () e).2 = none) :
    (Mon.step check m e).bad = none := by
  rw [FlowMon.mon_step_def]
  have : (if (FlowMon.bookOf m.book e).spun then (m.st, none) else check (FlowMon.bookOf m.book e) m.st e).2 = none := by
    rcases hc with hs | hc
    · rw [FlowMon.bookOf_spun, hs]; rfl
    · split
      · rfl
      · exact hc
  rw [this]; exact hb

theorem mobsG_book (l : List Obs) (m : Mon Unit) : (mobsG check m l).book = l.foldl (fun b o => b.step (.obs o)) m.book := by
  induction l generalizing m with
  | nil => rfl
  | cons o l ih =>
    simp only [mobsG, List.foldl_cons] at ih ⊢
    rw [ih, monG_step_book]
    rfl

theorem mobsG_ok : ∀ (obs : List Obs) (m : Mon Unit), m.bad = none → CK (chkOf check) m.book obs →
    (mobsG check m obs.reverse).bad = none := by
  intro obs
  induction obs with
  | nil => intro m hb _; exact hb
  | cons o l ih =>
    intro m hb hck
    have h1 := ih m hb hck.1
    have hbk : (mobsG check m l.reverse).book = bo m.book l := by rw [mobsG_book, bo_eq_foldl]
    rw [List.reverse_cons]
    show ((l.reverse ++ [o]).foldl (fun m o => Mon.step check m (.obs o)) m).bad = none
    rw [List.foldl_append]
    show (Mon.step check (mobsG check m l.reverse) (.obs o)).bad = none
    refine monG_step_bad check _ _ h1 ?_
    rw [hbk]
    exact hck.2

end gen

theorem chk06_eq : chk06 = chkOf checkC06Rest := rfl

/-! ## the invariant between ops, one op, every trace -/

structure OInvT (b : Book) (c : Sys) (rest : List Nat) : Prop where
  base : OInv b c
  lim : c.s.limit = none
  qc : QC c.now c.s
  x : b.spun = true ∨ X rest (bw b.endOp) (mv c.s)

theorem nohp_of_filter {l : List Obs} (h : l.filter isHP = []) : ∀ v t, Obs.handler v .polled t ∉ l := by
  intro v t hm
  have : Obs.handler v .polled t ∈ l.filter isHP := List.mem_filter.mpr ⟨hm, rfl⟩
  rw [h] at this; cases this

theorem NN.x_end {b0 : Book} {now : Nat} {pend : Option (Nat × Nat)} {rest : List Nat} {s : St} (h : NN b0 now pend rest s) :
    (bo b0 s.obs).spun = true ∨ X rest (bw (bo b0 s.obs).endOp) (mv s) :=
  h.n.imp id (fun hx => hx.2.lx (lx_endOp _))

theorem NP.x_end {b0 : Book} {now : Nat} {rest : List Nat} {s : St} (h : NP b0 now rest s) :
    (bo b0 s.obs).spun = true ∨ X rest (bw (bo b0 s.obs).endOp) (mv s) := by
  rcases h with h | ⟨_, _, h⟩
  · exact h.x_end
  · exact h.x_end

theorem NP.ck {b0 : Book} {now : Nat} {rest : List Nat} {s : St} (h : NP b0 now rest s) : CK chk06 b0 s.obs := by
  rcases h with h | ⟨_, _, h⟩
  · exact h.ck
  · exact h.ck

theorem op_stepT (hf : ClampFits) {b : Book} {c : Sys} {rest : List Nat} (op : SOp) (h : OInvT b c (opReq op ++ rest))
    (hn : c.now + opAdv op < panicFreeNs) :
    OInvT (bo (opBook b op) (applyOp { c with s := { c.s with obs := [] } } op).s.obs) (stepOp c op).1 rest ∧
    CK chk06 (opBook b op) (applyOp { c with s := { c.s with obs := [] } } op).s.obs := by
  have hbase' := (op_step op h.base).1
  generalize hc0 : ({ c with s := { c.s with obs := [] } } : Sys) = c0 at hbase' ⊢
  have hobs0 : c0.s.obs = [] := by rw [← hc0]
  have hnow0 : c0.now = c.now := by rw [← hc0]
  have hsv0 : sview c0.s = sview c.s := by rw [← hc0]; rfl
  have hmv0 : mv c0.s = mv c.s := by rw [← hc0]; rfl
  have hpo0 : c0.s.poisoned = c.s.poisoned := by rw [← hc0]
  have hs0 : SInv false c0.now c0.s := by rw [← hc0]; exact h.base.sinv.clear_obs
  have hdd0 : DoneDropped c0.s := by rw [← hc0]; exact h.base.dd
  have hcfg0 : c0.s.throttleAfterRead = false ∧ c0.s.ensureLoop = false := by rw [← hc0]; exact ⟨h.base.cfg1, h.base.cfg2⟩
  have hl0 : c0.s.limit = none := by rw [← hc0]; exact h.lim
  have hq0 : QC c0.now c0.s := by rw [← hc0]; exact h.qc.of_timers rfl
  have hstep : (stepOp c op).1 = { applyOp c0 op with s := { (applyOp c0 op).s with obs := [] } } := by
    rw [← hc0]; rfl
  have hnow := applyOp_now c0 op
  rw [hnow0] at hnow
  have hcfgA := cfg_reach c0 [op]
  have hqA : QC (applyOp c0 op).now (applyOp c0 op).s :=
    reach_inv QC (qc_closed hf) (fun _ _ _ hle hq => hq.mono hle) c0 hq0 [op]
  -- the remaining components of the invariant, given the last one
  have hfin : ((bo (opBook b op) (applyOp c0 op).s.obs).spun = true ∨
      X rest (bw (bo (opBook b op) (applyOp c0 op).s.obs).endOp) (mv (applyOp c0 op).s)) →
      OInvT (bo (opBook b op) (applyOp c0 op).s.obs) (stepOp c op).1 rest := by
    intro hx
    refine ⟨hbase', ?_, ?_, ?_⟩
    · rw [hstep]; exact hcfgA.2.1.trans hl0
    · rw [hstep]; exact hqA.of_timers rfl
    · rw [hstep]; exact hx
  -- the start of the op
  have hspun0 : b.spun = true → ∀ l, (bo (opBook b op) l).spun = true := by
    intro hs l
    have : (bo (opBook b op) []).spun = true := by show (opBook b op).spun = true; rw [opBook_spun]; exact hs
    have := bo_spun_mono (opBook b op) [] l this
    simpa using this
  have hstart : b.spun = true ∨ ∃ pend, (pend = none ∨ c0.s.poisoned = true) ∧
      K (c.now + opAdv op) pend (bview (opBook b op)) (sview c0.s) ∧ X (opReq op ++ rest) (bw (opBook b op)) (mv c0.s) := by
    rcases h.base.j with hs | ⟨pend, hpp, hK⟩
    · exact Or.inl hs
    · rcases h.x with hs | hX
      · exact Or.inl hs
      · refine Or.inr ⟨pend, by rw [hpo0]; exact hpp, by rw [hsv0]; exact K_opBook op hK, ?_⟩
        rw [hmv0]; exact hX.lx (lx_opBook b op)
  by_cases hps : op = .pollServer
  · subst hps
    have e : c.now + opAdv SOp.pollServer = c0.now := by rw [hnow0]; rfl
    have hn0 : c0.now < panicFreeNs := by rw [← e]; exact hn
    have hNP : NP (opBook b .pollServer) c0.now rest c0.s := by
      rcases hstart with hs | ⟨pend, hpp, hK, hX⟩
      · exact Or.inl ⟨Or.inl (by rw [hobs0]; exact hspun0 hs []), by rw [hobs0]; trivial⟩
      · have hNN : NN (opBook b .pollServer) c0.now pend rest c0.s :=
          ⟨Or.inr ⟨by rw [hobs0, ← e]; exact hK, by rw [hobs0]; exact hX⟩, by rw [hobs0]; trivial⟩
        rcases hpp with rfl | hpo
        · exact Or.inl hNN
        · exact Or.inr ⟨hpo, pend, hNN⟩
    have hfinal := NN_pollServer hf hn0 hobs0 hs0 hq0 hdd0 hNP hl0 hcfg0.1 hcfg0.2
    exact ⟨hfin hfinal.x_end, hfinal.ck⟩
  · by_cases hds : op = .dropServer
    · subst hds
      have key : ∀ pend, NN (opBook b .dropServer) (c.now + opAdv .dropServer) pend rest c0.s →
          NN (opBook b .dropServer) (c.now + opAdv .dropServer) pend rest (dropServer c0.s) := by
        intro pend hNN
        refine NN_dropServer hNN ?_
        rw [hobs0]; exact Or.inr (opBook_dropped b)
      rcases hstart with hs | ⟨pend, hpp, hK, hX⟩
      · have hNN : NN (opBook b .dropServer) (c.now + opAdv .dropServer) none rest c0.s :=
          ⟨Or.inl (by rw [hobs0]; exact hspun0 hs []), by rw [hobs0]; trivial⟩
        have := key _ hNN
        exact ⟨hfin this.x_end, this.ck⟩
      · have hNN : NN (opBook b .dropServer) (c.now + opAdv .dropServer) pend rest c0.s :=
          ⟨Or.inr ⟨by rw [hobs0]; exact hK, by rw [hobs0]; exact hX⟩, by rw [hobs0]; trivial⟩
        have := key _ hNN
        exact ⟨hfin this.x_end, this.ck⟩
    · -- the execution-side ops and the external events
      have hext : Ext c0.s (applyOp c0 op).s := ext_of_nil hobs0 (fx_applyOp isCore_execQuiet c0 op hps)
      have hcore : ∀ o ∈ (applyOp c0 op).s.obs, isCore o = false := by
        obtain ⟨l, hl, hp⟩ := hext
        rw [hl, hobs0, List.append_nil]; exact hp
      have hlx := bo_lx (opBook b op) hext
      rw [hobs0] at hlx
      refine ⟨hfin ?_, CK_ops _ _ hcore ?_⟩
      · rcases hstart with hs | ⟨pend, hpp, hK, hX⟩
        · exact Or.inl (hspun0 hs _)
        · right
          have h1 := X_applyOp c0 op hps hds hK hX
          exact (h1.lx hlx).lx (lx_endOp _)
      · rcases hstart with hs | ⟨pend, hpp, hK, hX⟩
        · left; show (opBook b op).spun = true; rw [opBook_spun]; exact hs
        · right
          intro v t hm
          by_cases hpe : ∃ v0, op = .pollExec v0
          · obtain ⟨v0, rfl⟩ := hpe
            obtain ⟨rfl, e, hg, hl, ha⟩ := pollExec_hp c0.s v0 c0.now hobs0 v t hm
            obtain ⟨hem, hev⟩ := getExecVis_mem hg
            intro x hx hr
            cases hes : x.expiredSeen with
            | false => rfl
            | true =>
              exfalso
              have hX' : X rest (bw (opBook b (.pollExec v))) (mv c0.s) := hX
              rcases hX'.expa (K_eid_mv hK) hx hes (x := ye e) (List.mem_map_of_mem hem)
                (by show e.vis = some x.rid; rw [hr]; exact hev) with h1 | h1
              · have h1' : e.aborted = true := h1
                rw [ha] at h1'; cases h1'
              · have h1' : execLive e = true → False := by
                  intro h2; have h3 : execLive e = false := h1; rw [h2] at h3; cases h3
                exact h1' hl
          · exfalso
            by_cases hde : ∃ v0, op = .dropExec v0
            · obtain ⟨v0, rfl⟩ := hde
              have : (dropExec c0.s v0 c0.now).obs.filter isHP = [] := by rw [dropExec_hp, hobs0]; rfl
              exact nohp_of_filter this v t hm
            · have : (applyOp c0 op).s.obs.filter isHP = [] := by
                rw [fx_applyOp_wake isHP_wakeQuiet c0 op hps (fun v0 hv => hpe ⟨v0, hv⟩) (fun v0 hv => hde ⟨v0, hv⟩), hobs0]; rfl
              exact nohp_of_filter this v t hm

theorem advSum_cons (op : SOp) (ops : List SOp) : advSum (op :: ops) = opAdv op + advSum ops := rfl

/-- **The two "deadline enforced" clauses of the C06 monitor never fire** — from any state satisfying the invariant,
for scripts that stay below the clock bound. -/
theorem c06r_trace (hf : ClampFits) (ops : List SOp) : ∀ (c : Sys) (m : Mon Unit), m.bad = none →
    OInvT m.book c (reqIds ops) → c.now + advSum ops < panicFreeNs →
    ((trace c ops).foldl (Mon.step checkC06Rest) m).bad = none := by
  induction ops with
  | nil => intro c m hb _ _; exact hb
  | cons op ops ih =>
    intro c m hb hI hT
    rw [advSum_cons] at hT
    obtain ⟨hI', hck⟩ := op_stepT hf op (rest := reqIds ops) hI (by omega)
    have htr : trace c (op :: ops) = SEv.op op :: ((stepOp c op).2.map SEv.obs ++ trace (stepOp c op).1 ops) := rfl
    rw [htr, List.foldl_cons, List.foldl_append, List.foldl_map]
    have hb1 : (Mon.step checkC06Rest m (.op op)).bad = none := monG_step_bad _ m _ hb (Or.inr rfl)
    have hbk1 : (Mon.step checkC06Rest m (.op op)).book = opBook m.book op := monG_step_book _ m _
    have hos : (stepOp c op).2 = (applyOp { c with s := { c.s with obs := [] } } op).s.obs.reverse := rfl
    rw [hos]
    have hm2 : (mobsG checkC06Rest (Mon.step checkC06Rest m (.op op))
        (applyOp { c with s := { c.s with obs := [] } } op).s.obs.reverse).bad = none :=
      mobsG_ok _ _ _ hb1 (by rw [hbk1]; exact hck)
    have hbk2 : (mobsG checkC06Rest (Mon.step checkC06Rest m (.op op))
        (applyOp { c with s := { c.s with obs := [] } } op).s.obs.reverse).book =
        bo (opBook m.book op) (applyOp { c with s := { c.s with obs := [] } } op).s.obs := by
      rw [mobsG_book, hbk1, bo_eq_foldl]
    have hnow' : (stepOp c op).1.now = c.now + opAdv op := applyOp_now _ op
    have hI2 : OInvT (mobsG checkC06Rest (Mon.step checkC06Rest m (.op op))
        (applyOp { c with s := { c.s with obs := [] } } op).s.obs.reverse).book (stepOp c op).1 (reqIds ops) := by
      rw [hbk2]; exact hI'
    exact ih (stepOp c op).1 (mobsG checkC06Rest (Mon.step checkC06Rest m (.op op))
        (applyOp { c with s := { c.s with obs := [] } } op).s.obs.reverse) hm2 hI2 (by rw [hnow']; omega)

theorem X_init (rest : List Nat) (h : rest.Nodup) (limit : Option Nat) (respCap tcap : Nat) (coupled : Bool) :
    X rest (bw ({ limit := limit } : Book).endOp) (mv (initSys limit respCap tcap coupled).s) := by
  refine ⟨by simpa [mv, initSys, init, inbIds] using h, ?_, ?_, ?_, ?_, ?_, ?_, ?_, ?_⟩
  all_goals (intro a ha; cases ha)

theorem oinvT_init (limit : Option Nat) (respCap tcap : Nat) (coupled : Bool) (rest : List Nat) (h : rest.Nodup)
    (hl : limit = none) : OInvT ({ limit := limit } : Book) (initSys limit respCap tcap coupled) rest :=
  ⟨oinv_init limit respCap tcap coupled, hl, fun _ => DelayQ.Complete_empty, Or.inr (X_init rest h limit respCap tcap coupled)⟩

/-- ids of the requests a script injects are pairwise distinct -/
def DistinctIds (ops : List SOp) : Prop := (reqIds ops).Nodup

instance (ops : List SOp) : Decidable (DistinctIds ops) := by unfold DistinctIds; infer_instance

theorem c06_rest_accepts (hf : ClampFits) (respCap tcap : Nat) (coupled : Bool) (ops : List SOp)
    (hT : advSum ops < panicFreeNs) (hd : DistinctIds ops) :
    (Mon.run none checkC06Rest () (trace (initSys none respCap tcap coupled) ops)).bad = none :=
  c06r_trace hf ops _ _ rfl (oinvT_init none respCap tcap coupled _ hd rfl) (by
    show 0 + advSum ops < panicFreeNs
    omega)

/-! ## the whole `checkC06`: its clause run separately -/

theorem step_bad_none_inv (check : Book → Unit → SEv → Unit × Option String) (m : Mon Unit) (e : SEv)
    (h : (Mon.step check m e).bad = none) :
    m.bad = none ∧ (m.book.spun = true ∨ (check (FlowMon.bookOf m.book e) () e).2 = none) := by
  rw [FlowMon.mon_step_def] at h
  split at h
  · next why hf =>
    exfalso
    unfold Mon.fail at h
    split at h
    · next w hb => simp only at hb; rw [hb] at h; cases h
    · cases h
  · next hf =>
    refine ⟨h, ?_⟩
    cases hs : m.book.spun with
    | true => exact Or.inl rfl
    | false =>
      right
      rw [FlowMon.bookOf_spun, hs] at hf
      exact hf

theorem foldl_bad_none (check : Book → Unit → SEv → Unit × Option String) (evs : List SEv) :
    ∀ m : Mon Unit, (evs.foldl (Mon.step check) m).bad = none → m.bad = none := by
  induction evs with
  | nil => intro m h; exact h
  | cons e evs ih => intro m h; exact (step_bad_none_inv check m e (ih _ h)).1

/-- a run of `checkC06` accepts if the runs of its two parts do -/
theorem run_split (evs : List SEv) : ∀ (m mE mR : Mon Unit), m.book = mE.book → m.book = mR.book → m.bad = none →
    (evs.foldl (Mon.step checkC06Early) mE).bad = none → (evs.foldl (Mon.step checkC06Rest) mR).bad = none →
    (evs.foldl (Mon.step checkC06) m).bad = none := by
  induction evs with
  | nil => intro m _ _ _ _ hb _ _; exact hb
  | cons e evs ih =>
    intro m mE mR hbE hbR hb hE hR
    simp only [List.foldl_cons] at hE hR ⊢
    obtain ⟨_, hcE⟩ := step_bad_none_inv checkC06Early mE e (foldl_bad_none _ evs _ hE)
    obtain ⟨_, hcR⟩ := step_bad_none_inv checkC06Rest mR e (foldl_bad_none _ evs _ hR)
    refine ih _ _ _ ?_ ?_ ?_ hE hR
    · rw [monG_step_book, monG_step_book, hbE]
    · rw [monG_step_book, monG_step_book, hbR]
    · refine monG_step_bad checkC06 m e hb ?_
      rcases hcE with hs | hcE
      · exact Or.inl (by rw [hbE]; exact hs)
      · rcases hcR with hs | hcR
        · exact Or.inl (by rw [hbR]; exact hs)
        · right
          rw [checkC06_split, hbE, hcE]
          show (checkC06Rest (FlowMon.bookOf mE.book e) () e).2 = none
          rw [← hbE, hbR]; exact hcR

theorem c06_accepts (hf : ClampFits) (respCap tcap : Nat) (coupled : Bool) (ops : List SOp)
    (hT : advSum ops < panicFreeNs) (hd : DistinctIds ops) :
    (monC06 none (trace (initSys none respCap tcap coupled) ops)).bad = none :=
  run_split _ _ _ _ rfl rfl rfl (c06_early_accepts none respCap tcap coupled ops)
    (c06_rest_accepts hf respCap tcap coupled ops hT hd)

end TarpcModel.Server.Tab

import TarpcModel.Lemmas.ServerTable
import TarpcModel.Props.C02Server
import TarpcModel.Lemmas.ClientParkQ
/-!
# A parked request stream does not sit on work it could do

`SPk s`: the sink is not ready and holds the stream task's waker (`WSink`) — or the task is registered on the (empty)
response queue (`WrReg`) and on the read side of the transport, whose inbound queue is empty, or the read side has
ended (`RdReg`).  `SPI s`: an alive stream task that has not panicked and has not been woken since its last poll
satisfies `SPk`.

* the write pump: `pumpWrite → Pending / None` leaves the sink blocked (`Client.Blocked`, the sink lemmas are shared
  with the client) or the task registered on the empty response queue (`pumpWrite_parks`);
* the read side: `BaseChannel::poll_next → Pending / None` leaves the task registered on the empty inbound queue (or
  the stream fused); the `MaxRequests` limiter at its limit returns `Pending` from `poll_ready → Pending`: then the
  task is parked on the sink's write waker, and it is the sink that must wake it when its own flush makes room
  (`selfWake`): with a self-waking sink "woken or parked on a not-ready sink" survives the write pump (`Q`);
* every other op preserves `SPI`; `reach_spk` is the invariant over all reachable states, for scripts without a limit
  or that never switch the sink's self-wake off.
-/
set_option linter.unusedSimpArgs false
set_option linter.unusedVariables false
namespace TarpcModel.Server
open Flow

/-! ### the transport: what the write-side calls leave alone -/

/-- the read side and the configuration of the transport -/
structure TK (t t' : SimT) : Prop where
  selfWake : t'.selfWake = t.selfWake
  inbound : t'.inbound = t.inbound
  readWaker : t'.readWaker = t.readWaker
  eof : t'.eof = t.eof

theorem TK.refl (t : SimT) : TK t t := ⟨rfl, rfl, rfl, rfl⟩
theorem TK.trans {a b c : SimT} (h1 : TK a b) (h2 : TK b c) : TK a c :=
  ⟨h2.selfWake.trans h1.selfWake, h2.inbound.trans h1.inbound, h2.readWaker.trans h1.readWaker, h2.eof.trans h1.eof⟩

theorem tk_useAfter (t : SimT) (w : String) : TK t (t.useAfter w) := by
  unfold SimT.useAfter
  split
  · exact ⟨rfl, rfl, rfl, rfl⟩
  · split <;> exact ⟨rfl, rfl, rfl, rfl⟩

theorem tk_letThrough (t : SimT) (a : Bool) : TK t (t.letThrough a) := by
  unfold SimT.letThrough
  split <;> exact ⟨rfl, rfl, rfl, rfl⟩

theorem tk_drain (t : SimT) : TK t t.drain.1 := by
  unfold SimT.drain
  simp only
  split <;> exact ⟨rfl, rfl, rfl, rfl⟩

theorem tk_pollReady (t : SimT) : TK t t.pollReady.1 := by
  have h0 := (tk_useAfter t "ready").trans (tk_letThrough (t.useAfter "ready") (t.useAfter "ready").faultReady)
  have h1 := tk_useAfter t "ready"
  rcases SimT.pollReady_cases t with ⟨_, he⟩ | ⟨_, _, he⟩ | ⟨_, _, he⟩ <;> rw [he]
  · exact ⟨h1.selfWake, h1.inbound, h1.readWaker, h1.eof⟩
  · exact ⟨h0.selfWake, h0.inbound, h0.readWaker, h0.eof⟩
  · exact ⟨h0.selfWake, h0.inbound, h0.readWaker, h0.eof⟩

theorem tk_pollFlush (t : SimT) : TK t t.pollFlush.1 := by
  have h0 := (tk_useAfter t "flush").trans (tk_letThrough (t.useAfter "flush") (t.useAfter "flush").faultFlush)
  have h1 := tk_useAfter t "flush"
  rcases SimT.pollFlush_cases t with ⟨_, he⟩ | ⟨_, he⟩ | ⟨_, he⟩ <;> rw [he]
  · exact ⟨h1.selfWake, h1.inbound, h1.readWaker, h1.eof⟩
  · exact ⟨h0.selfWake, h0.inbound, h0.readWaker, h0.eof⟩
  · exact h0.trans (tk_drain _)

theorem tk_startSend (t : SimT) (m : Msg) : TK t (t.startSend m).1 := by
  unfold SimT.startSend
  simp only
  have h1 := tk_useAfter t "send"
  generalize t.useAfter "send" = u at h1
  have h2 : TK u (if u.gotReady = true then u else u.violate "send-without-ready") := by
    split
    · exact TK.refl _
    · exact ⟨rfl, rfl, rfl, rfl⟩
  have h12 := h1.trans h2
  generalize (if u.gotReady = true then u else u.violate "send-without-ready") = v at h12
  split
  · exact ⟨h12.selfWake, h12.inbound, h12.readWaker, h12.eof⟩
  · have h3 := h12.trans (tk_letThrough v v.faultSend)
    exact ⟨h3.selfWake, h3.inbound, h3.readWaker, h3.eof⟩

/-- the sink is not ready and holds the waker -/
def WSink (t : SimT) : Prop := t.isReadyNow = false ∧ t.writeWaker = true

theorem Blocked.wsink {t : SimT} (h : Client.Blocked t) : WSink t := ⟨h.1, h.2.1⟩

/-- `poll_ready` on a sink that is not ready and holds the waker: it stays that way, nobody is woken -/
theorem pollReady_wsink {t : SimT} (h : WSink t) : WSink t.pollReady.1 ∧ t.pollReady.2.1 ≠ .ready := by
  obtain ⟨u1, u2, _, _, _⟩ := Client.useAfter_fields t "ready"
  rcases SimT.pollReady_cases t with ⟨_, he⟩ | ⟨_, hr, he⟩ | ⟨_, hr, he⟩ <;> rw [he]
  · exact ⟨⟨by show (t.useAfter "ready").isReadyNow = false; rw [u1]; exact h.1,
      by show (t.useAfter "ready").writeWaker = true; rw [u2]; exact h.2⟩, by simp⟩
  · rw [u1, h.1] at hr; cases hr
  · refine ⟨⟨?_, rfl⟩, by simp⟩
    show ((t.useAfter "ready").letThrough _).isReadyNow = false
    rw [SimT.letThrough_isReadyNow, u1]; exact h.1

/-- `poll_flush` on such a sink, the sink waking its owner when its own flush makes room: it stays not ready with the
waker registered, or the owner is woken -/
theorem pollFlush_wsink {t : SimT} (h : WSink t) (hs : t.selfWake = true) :
    WSink t.pollFlush.1 ∨ t.pollFlush.2.2 = true := by
  obtain ⟨u1, u2, _, _, _⟩ := Client.useAfter_fields t "flush"
  have hk := (tk_useAfter t "flush").trans (tk_letThrough (t.useAfter "flush") (t.useAfter "flush").faultFlush)
  rcases SimT.pollFlush_cases t with ⟨_, he⟩ | ⟨_, he⟩ | ⟨_, he⟩ <;> rw [he]
  · left
    exact ⟨by show (t.useAfter "flush").isReadyNow = false; rw [u1]; exact h.1,
      by show (t.useAfter "flush").writeWaker = true; rw [u2]; exact h.2⟩
  · left
    refine ⟨?_, rfl⟩
    show ((t.useAfter "flush").letThrough _).isReadyNow = false
    rw [SimT.letThrough_isReadyNow, u1]; exact h.1
  · have hw : ((t.useAfter "flush").letThrough (t.useAfter "flush").faultFlush).writeWaker = true := by
      rw [SimT.letThrough_writeWaker, u2]; exact h.2
    have hsw : ((t.useAfter "flush").letThrough (t.useAfter "flush").faultFlush).selfWake = true := by
      rw [hk.selfWake]; exact hs
    generalize (t.useAfter "flush").letThrough (t.useAfter "flush").faultFlush = p at hw hsw
    unfold SimT.drain
    simp only
    by_cases hr : ({ p with wire := p.wire ++ p.buffered, buffered := [] } : SimT).isReadyNow = true
    · right
      rw [if_pos (by rw [hr, hw, hsw]; rfl)]
    · left
      have hr' : ({ p with wire := p.wire ++ p.buffered, buffered := [] } : SimT).isReadyNow = false := by simpa using hr
      rw [if_neg (by rw [hr']; simp)]
      exact ⟨hr', hw⟩

/-- a send does not make a sink ready -/
theorem startSend_not_ready {t : SimT} (m : Msg) (h : t.isReadyNow = false) : (t.startSend m).1.isReadyNow = false := by
  obtain ⟨u1, _, _, _, _⟩ := Client.useAfter_fields t "send"
  unfold SimT.startSend
  simp only
  generalize t.useAfter "send" = u at u1
  have hv : (if u.gotReady = true then u else u.violate "send-without-ready").isReadyNow = false := by
    split
    · rw [u1]; exact h
    · show u.isReadyNow = false; rw [u1]; exact h
  generalize (if u.gotReady = true then u else u.violate "send-without-ready") = v at hv
  split
  · exact hv
  · have hl : (v.letThrough v.faultSend).isReadyNow = false := by rw [SimT.letThrough_isReadyNow]; exact hv
    generalize v.letThrough v.faultSend = p at hl
    unfold SimT.isReadyNow at hl ⊢
    simp only [List.length_append, List.length_cons, List.length_nil] at hl ⊢
    split at hl
    · rename_i hc; rw [if_pos hc]; simp at hl ⊢; omega
    · rename_i hc; rw [if_neg hc]
      cases hro : p.readyOpen
      · simp
      · rw [hro] at hl; simp at hl ⊢; omega

theorem startSend_writeWaker (t : SimT) (m : Msg) : (t.startSend m).1.writeWaker = t.writeWaker := by
  obtain ⟨_, u2, _, _, _⟩ := Client.useAfter_fields t "send"
  unfold SimT.startSend
  simp only
  generalize t.useAfter "send" = u at u2
  have hv : (if u.gotReady = true then u else u.violate "send-without-ready").writeWaker = t.writeWaker := by
    split
    · exact u2
    · exact u2
  generalize (if u.gotReady = true then u else u.violate "send-without-ready") = v at hv
  split
  · exact hv
  · show (v.letThrough v.faultSend).writeWaker = _
    rw [SimT.letThrough_writeWaker]; exact hv

/-! ### where the stream task is registered -/

/-- registered on the empty inbound queue, or the read side has ended -/
def RdReg (s : St) : Prop := (s.t.inbound = [] ∧ s.t.readWaker = true) ∨ s.readFused = true
/-- registered on the empty response queue -/
def WrReg (s : St) : Prop := s.respQ = [] ∧ s.rqRxWaker = true
/-- a parked stream task: on a sink that is not ready, or on both the response queue and the read side -/
def SPk (s : St) : Prop := WSink s.t ∨ (WrReg s ∧ RdReg s)
/-- an alive stream task that has not panicked and has not been woken since its last poll is parked -/
def SPI (s : St) : Prop := s.dropped = false → s.done = none → s.poisoned = false → s.woken = false → SPk s

/-- a step of the write side: the read side of the transport, `readFused`, `dropped`, `done` are left alone; the task
may get woken -/
structure WS (s s' : St) : Prop where
  tk : TK s.t s'.t
  fused : s'.readFused = s.readFused
  dropped : s'.dropped = s.dropped
  done : s'.done = s.done
  nextVis : s'.nextVis = s.nextVis
  wok : s.woken = true → s'.woken = true

theorem WS.refl (s : St) : WS s s := ⟨TK.refl _, rfl, rfl, rfl, rfl, id⟩
theorem WS.trans {a b c : St} (h1 : WS a b) (h2 : WS b c) : WS a c :=
  ⟨h1.tk.trans h2.tk, h2.fused.trans h1.fused, h2.dropped.trans h1.dropped, h2.done.trans h1.done,
   h2.nextVis.trans h1.nextVis, fun h => h2.wok (h1.wok h)⟩

theorem RdReg.ws {s s' : St} (h : RdReg s) (w : WS s s') : RdReg s' := by
  rcases h with ⟨a, b⟩ | a
  · exact Or.inl ⟨by rw [w.tk.inbound]; exact a, by rw [w.tk.readWaker]; exact b⟩
  · exact Or.inr (by rw [w.fused]; exact a)

theorem ws_wakeServer (s : St) : WS s (wakeServer s) :=
  ⟨by rw [wakeServer_t]; exact TK.refl _, by simp, by simp, by simp, by simp, wakeServer_woken_mono s⟩

/-- the shape of a recorded transport call -/
theorem tcall_shape (s : St) (t' : SimT) (o : Obs) (w : Bool) (n : Nat) :
    ∃ obs', (if w = true then wakeServer (emit (emitViolations { s with t := t' } n) o) else emit (emitViolations { s with t := t' } n) o)
      = if w = true then wakeServer { s with t := t', obs := obs' } else { s with t := t', obs := obs' } := by
  obtain ⟨o1, h1⟩ := emitViolations_eq { s with t := t' } n
  rw [h1]
  exact ⟨o :: o1, rfl⟩

theorem ws_tcall (s : St) (t' : SimT) (obs' : List Obs) (w : Bool) (hk : TK s.t t') :
    WS s (if w = true then wakeServer { s with t := t', obs := obs' } else { s with t := t', obs := obs' }) := by
  have h0 : WS s { s with t := t', obs := obs' } := ⟨hk, rfl, rfl, rfl, rfl, id⟩
  split
  · exact h0.trans (ws_wakeServer _)
  · exact h0

theorem tReady_shape' (s : St) : ∃ obs', (tReady s).1 =
    if s.t.pollReady.2.2 = true then wakeServer { s with t := s.t.pollReady.1, obs := obs' } else { s with t := s.t.pollReady.1, obs := obs' } := by
  unfold tReady
  simp only
  exact tcall_shape s _ _ _ _

theorem tFlush_shape' (s : St) : ∃ obs', (tFlush s).1 =
    if s.t.pollFlush.2.2 = true then wakeServer { s with t := s.t.pollFlush.1, obs := obs' } else { s with t := s.t.pollFlush.1, obs := obs' } := by
  unfold tFlush
  simp only
  exact tcall_shape s _ _ _ _

theorem ws_tReady (s : St) : WS s (tReady s).1 := by
  obtain ⟨o, h⟩ := tReady_shape' s
  rw [h]; exact ws_tcall s _ _ _ (tk_pollReady _)

theorem ws_tFlush (s : St) : WS s (tFlush s).1 := by
  obtain ⟨o, h⟩ := tFlush_shape' s
  rw [h]; exact ws_tcall s _ _ _ (tk_pollFlush _)

theorem ws_tSend (s : St) (m : Msg) : WS s (tSend s m).1 := by
  unfold tSend
  simp only
  obtain ⟨o1, h1⟩ := emitViolations_eq { s with t := (s.t.startSend m).1 } s.t.violations.length
  rw [h1]
  exact ⟨tk_startSend _ _, rfl, rfl, rfl, rfl, id⟩

/-- woken, or parked on a sink that is not ready -/
def Q (s : St) : Prop := s.woken = true ∨ WSink s.t

theorem q_tReady {s : St} (h : Q s) : Q (tReady s).1 := by
  rcases h with h | h
  · exact Or.inl ((ws_tReady s).wok h)
  · right
    rw [tReady_t]; exact (pollReady_wsink h).1

theorem q_tFlush {s : St} (hd : s.dropped = false) (hn : s.done = none) (hs : s.t.selfWake = true) (h : Q s) :
    Q (tFlush s).1 := by
  rcases h with h | h
  · exact Or.inl ((ws_tFlush s).wok h)
  · rcases pollFlush_wsink h hs with hw | hw
    · right; rw [tFlush_t]; exact hw
    · left
      obtain ⟨o, he⟩ := tFlush_shape' s
      rw [he, if_pos hw]
      exact wakeServer_woken _ hd hn

theorem q_tSend {s : St} (m : Msg) (h : Q s) : Q (tSend s m).1 := by
  rcases h with h | h
  · exact Or.inl ((ws_tSend s m).wok h)
  · right
    rw [tSend_t]
    exact ⟨startSend_not_ready m h.1, by rw [startSend_writeWaker]; exact h.2⟩

theorem Q.of_ws_t {s s' : St} (h : Q s) (w : WS s s') (ht : s'.t = s.t) : Q s' := by
  rcases h with h | h
  · exact Or.inl (w.wok h)
  · exact Or.inr (by rw [ht]; exact h)

/-! ### `ensure_writeable` -/

theorem ws_ensureOnce (s : St) : WS s (ensureOnce s).1 := by
  unfold ensureOnce
  have a := ws_tReady s
  split <;> rename_i s1 h1 <;> rw [h1] at a
  · exact a
  · exact a
  · have b := ws_tFlush s1
    split <;> rename_i s2 h2 <;> rw [h2] at b
    · exact a.trans b
    · exact a.trans b
    · have c := ws_tReady s2
      split <;> rename_i s3 h3 <;> rw [h3] at c <;> exact (a.trans b).trans c

theorem q_ensureOnce {s : St} (hd : s.dropped = false) (hn : s.done = none) (hs : s.t.selfWake = true) (h : Q s) :
    Q (ensureOnce s).1 := by
  unfold ensureOnce
  have a := q_tReady h
  have wa := ws_tReady s
  split <;> rename_i s1 h1 <;> rw [h1] at a wa
  · exact a
  · exact a
  · have b := q_tFlush (by rw [wa.dropped]; exact hd) (by rw [wa.done]; exact hn) (by rw [wa.tk.selfWake]; exact hs) a
    split <;> rename_i s2 h2 <;> rw [h2] at b
    · exact b
    · exact b
    · have c := q_tReady b
      split <;> rename_i s3 h3 <;> rw [h3] at c <;> exact c

theorem tReady_pending_t {s s1 : St} (h : tReady s = (s1, .pending)) :
    s1.t.isReadyNow = false ∧ s1.t.writeWaker = true ∧ s1.t.coupled = s.t.coupled ∧ s1.t.flushOpen = s.t.flushOpen ∧
    s1.t.buffered = s.t.buffered := by
  have e : s1.t = s.t.pollReady.1 := by have := tReady_t s; rw [h] at this; exact this
  have r : s.t.pollReady.2.1 = .pending := by have := tReady_res s; rw [h] at this; exact this.symm
  rw [e]; exact Client.pollReady_pending_spec _ r

theorem tFlush_pending_t {s s1 : St} (h : tFlush s = (s1, .pending)) :
    s1.t.writeWaker = true ∧ s1.t.coupled = true ∧ s1.t.flushOpen = false ∧ s1.t.buffered ≠ [] ∧
    s1.t.isReadyNow = s.t.isReadyNow := by
  have e : s1.t = s.t.pollFlush.1 := by have := tFlush_t s; rw [h] at this; exact this
  have r : s.t.pollFlush.2.1 = .pending := by have := tFlush_res s; rw [h] at this; exact this.symm
  rw [e]; exact Client.pollFlush_pending_spec _ r

theorem tFlush_ready_t {s s1 : St} (h : tFlush s = (s1, .ready)) : s1.t.buffered = [] := by
  have e : s1.t = s.t.pollFlush.1 := by have := tFlush_t s; rw [h] at this; exact this
  have r : s.t.pollFlush.2.1 = .ready := by have := tFlush_res s; rw [h] at this; exact this.symm
  rw [e]; exact SimT.pollFlush_ready r

/-- `ensure_writeable → Pending` leaves a blocked sink -/
theorem ensureOnce_pending_blocked {s : St} (h : (ensureOnce s).2 = .pending) : Client.Blocked (ensureOnce s).1.t := by
  unfold ensureOnce at h ⊢
  split at h <;> rename_i s1 h1
  · cases h
  · cases h
  · obtain ⟨a1, _, _, _, _⟩ := tReady_pending_t h1
    split at h <;> rename_i s2 h2
    · obtain ⟨b1, b2, b3, b4, b5⟩ := tFlush_pending_t h2
      exact ⟨by rw [b5]; exact a1, b1, Or.inl ⟨b2, b3, b4⟩⟩
    · cases h
    · split at h <;> rename_i s3 h3
      · cases h
      · cases h
      · obtain ⟨c1, c2, _, _, c5⟩ := tReady_pending_t h3
        exact ⟨c1, c2, Or.inr (by rw [c5]; exact tFlush_ready_t h2)⟩

/-! ### the write pump -/

theorem ws_flushArm (s : St) (rc : Bool) : WS s (flushArm s rc).1 := by
  unfold flushArm
  have a := ws_tFlush s
  split <;> rename_i s1 h1 <;> rw [h1] at a
  · exact a
  · exact a
  · split <;> exact a

theorem q_flushArm {s : St} (hd : s.dropped = false) (hn : s.done = none) (hs : s.t.selfWake = true) (h : Q s) (rc : Bool) :
    Q (flushArm s rc).1 := by
  unfold flushArm
  have a := q_tFlush hd hn hs h
  split <;> rename_i s1 h1 <;> rw [h1] at a
  · exact a
  · exact a
  · split <;> exact a

theorem blocked_flushArm {s : St} (h : Client.Blocked s.t) (rc : Bool) : Client.Blocked (flushArm s rc).1.t := by
  unfold flushArm
  have a : Client.Blocked (tFlush s).1.t := by rw [tFlush_t]; exact (Client.pollFlush_of_blocked h).1
  split <;> rename_i s1 h1 <;> rw [h1] at a
  · exact a
  · exact a
  · split <;> exact a

theorem ws_rqRelease (s : St) : WS s (rqRelease s) := by
  refine ⟨by rw [rqRelease_t]; exact TK.refl _, by simp, by simp, by simp, by simp, ?_⟩
  intro h
  unfold rqRelease
  split
  · unfold wakeExec
    repeat' split
    all_goals exact h
  · exact h

theorem ws_removeTimer (s : St) (k : Nat) : WS s (removeTimer s k) := by
  refine ⟨by rw [removeTimer_t]; exact TK.refl _, by simp, by simp, by simp, by simp, ?_⟩
  intro h
  unfold removeTimer
  split
  · simp only
    split
    · exact wakeServer_woken_mono _ h
    · exact h
  · exact h

theorem ws_removeRequest (s : St) (id : Nat) : WS s (removeRequest s id).1 := by
  unfold removeRequest
  split
  · exact WS.refl _
  · exact (⟨TK.refl _, rfl, rfl, rfl, rfl, fun h => h⟩ : WS s { s with inflight := s.inflight.filter (fun x => x.id != id) }).trans (ws_removeTimer _ _)

theorem ws_baseStartSend (s : St) (id : Nat) (res : Res) : WS s (baseStartSend s id res).1 := by
  unfold baseStartSend
  have a := ws_removeRequest s id
  split <;> rename_i s1 h1 <;> rw [h1] at a
  · exact a.trans (ws_tSend s1 _)
  · exact a

theorem q_baseStartSend {s : St} (h : Q s) (id : Nat) (res : Res) : Q (baseStartSend s id res).1 := by
  unfold baseStartSend
  have a : Q (removeRequest s id).1 := h.of_ws_t (ws_removeRequest s id) (by simp)
  split <;> rename_i s1 h1 <;> rw [h1] at a
  · exact q_tSend _ a
  · exact a

theorem ws_pumpWrite {s : St} (hel : s.ensureLoop = false) (rc : Bool) : WS s (pumpWrite s rc).1 := by
  unfold pumpWrite ensureWriteable
  rw [if_neg (by simp [hel])]
  have a := ws_ensureOnce s
  split <;> rename_i s1 h1 <;> rw [h1] at a
  · exact a.trans (ws_flushArm s1 rc)
  · exact a
  · exact a
  · split
    · rename_i id res rest hq
      have b : WS s1 (rqRelease { s1 with respQ := rest }) :=
        (⟨TK.refl _, rfl, rfl, rfl, rfl, fun h => h⟩ : WS s1 { s1 with respQ := rest }).trans (ws_rqRelease _)
      have c := ws_baseStartSend (rqRelease { s1 with respQ := rest }) id res
      dsimp only
      split <;> rename_i s2 h2 <;> rw [h2] at c <;> exact (a.trans b).trans c
    · exact a.trans ((⟨TK.refl _, rfl, rfl, rfl, rfl, fun h => h⟩ : WS s1 { s1 with rqRxWaker := true }).trans (ws_flushArm _ rc))

theorem q_pumpWrite {s : St} (hel : s.ensureLoop = false) (hd : s.dropped = false) (hn : s.done = none)
    (hs : s.t.selfWake = true) (h : Q s) (rc : Bool) : Q (pumpWrite s rc).1 := by
  unfold pumpWrite ensureWriteable
  rw [if_neg (by simp [hel])]
  have a := q_ensureOnce hd hn hs h
  have wa := ws_ensureOnce s
  split <;> rename_i s1 h1 <;> rw [h1] at a wa
  · exact q_flushArm (by rw [wa.dropped]; exact hd) (by rw [wa.done]; exact hn) (by rw [wa.tk.selfWake]; exact hs) a rc
  · exact a
  · exact a
  · split
    · rename_i id res rest hq
      have b : Q (rqRelease { s1 with respQ := rest }) :=
        (a.of_ws_t (⟨TK.refl _, rfl, rfl, rfl, rfl, fun h => h⟩ : WS s1 { s1 with respQ := rest }) rfl).of_ws_t (ws_rqRelease _) (by simp)
      have c := q_baseStartSend b id res
      dsimp only
      split <;> rename_i s2 h2 <;> rw [h2] at c <;> exact c
    · have b : Q ({ s1 with rqRxWaker := true } : St) :=
        a.of_ws_t (⟨TK.refl _, rfl, rfl, rfl, rfl, fun h => h⟩ : WS s1 { s1 with rqRxWaker := true }) rfl
      exact q_flushArm (by show s1.dropped = false; rw [wa.dropped]; exact hd) (by show s1.done = none; rw [wa.done]; exact hn)
        (by show s1.t.selfWake = true; rw [wa.tk.selfWake]; exact hs) b rc

/-- **an idle write pump is parked**: `pump_write → Pending / None` leaves the sink blocked or the task registered on
the empty response queue -/
theorem pumpWrite_parks {s : St} (hel : s.ensureLoop = false) (rc : Bool)
    (hr : (pumpWrite s rc).2 = .pending ∨ (pumpWrite s rc).2 = .none) :
    Client.Blocked (pumpWrite s rc).1.t ∨ WrReg (pumpWrite s rc).1 := by
  unfold pumpWrite ensureWriteable at hr ⊢
  rw [if_neg (by simp [hel])] at hr ⊢
  have hb := ensureOnce_pending_blocked (s := s)
  have hk := ensureOnce_rk s
  split at hr <;> rename_i s1 h1
  · rw [h1] at hb
    exact Or.inl (blocked_flushArm (hb rfl) rc)
  · rcases hr with hr | hr <;> cases hr
  · rcases hr with hr | hr <;> cases hr
  · rw [h1] at hk
    split at hr
    · rename_i id res rest hq
      dsimp only at hr
      split at hr <;> (rcases hr with hr | hr <;> cases hr)
    · rename_i hq
      right
      have hf := flushArm_rk { s1 with rqRxWaker := true } rc
      exact ⟨hf.1.trans hq, hf.2⟩

/-! ### the read side -/

theorem pollNext_selfWake (t : SimT) : t.pollNext.1.selfWake = t.selfWake := by
  rcases SimT.pollNext_cases t with ⟨_, he⟩ | ⟨_, u, hu, _, he⟩ <;> rw [he]
  have hs : u.selfWake = t.selfWake := by rw [hu]; simp
  repeat' split
  all_goals exact hs

theorem tNext_selfWake (s : St) : (tNext s).1.t.selfWake = s.t.selfWake := by
  rw [tNext_t]; split
  · rfl
  · exact pollNext_selfWake _

/-- `poll_next → Pending` on the transport: the inbound queue is empty and the waker is registered -/
theorem pollNext_pending_reg (t : SimT) (h : t.pollNext.2 = .pending) :
    t.pollNext.1.inbound = [] ∧ t.pollNext.1.readWaker = true := by
  rcases SimT.pollNext_cases t with ⟨_, he⟩ | ⟨_, u, hu, hi, he⟩ <;> rw [he] at h ⊢
  · cases h
  · revert h
    cases hin : u.inbound with
    | nil =>
      simp only
      split
      · intro h; cases h
      · intro _; exact ⟨rfl, rfl⟩
    | cons i rest =>
      cases i with
      | msg m => intro h; cases h
      | err => intro h; cases h

theorem tNext_pending_reg {s : St} (h : (tNext s).2 = .pending) :
    (tNext s).1.t.inbound = [] ∧ (tNext s).1.t.readWaker = true := by
  rw [tNext_res] at h
  rw [tNext_t]
  split at h
  · cases h
  · rename_i hf
    rw [if_neg hf]
    exact pollNext_pending_reg _ h

theorem tNext_eof_fused {s : St} (h : (tNext s).2 = .eof) : (tNext s).1.readFused = true :=
  tNext_fused s (Or.inr h)

/-- one iteration of `BaseChannel::poll_next` that decides to go idle or to end: the task is registered on the empty
inbound queue, or the read side has ended -/
theorem bpStep_parks (s : St) (now : Nat) (h : (bpStep s now).2 = some .pending ∨ (bpStep s now).2 = some .none) :
    RdReg (bpStep s now).1 := by
  have key : (bpOther (bp3 s now) (bpNx s now)).2 ≠ .ready → bpNx s now ≠ .err →
      (∀ id d tr b, bpNx s now ≠ .item (.request id d tr b)) → RdReg (bpOther (bp3 s now) (bpNx s now)).1 := by
    intro hnr hne hnq
    rw [bpOther_not_ready hnr]
    unfold bp3
    cases hnx : bpNx s now with
    | err => exact absurd hnx hne
    | pending =>
      have := tNext_pending_reg (s := bp2 s now) hnx
      exact Or.inl this
    | eof => exact Or.inr (tNext_eof_fused (s := bp2 s now) hnx)
    | item m =>
      rw [hnx] at hnr
      cases m with
      | request id d tr b => exact absurd hnx (hnq id d tr b)
      | cancel id tr => exact absurd rfl hnr
      | response id r => exact absurd rfl hnr
  have ho := bpStep_out s now
  revert h
  generalize bpStep s now = p at ho
  intro h
  cases ho with
  | poisoned2 _ => rcases h with h | h <;> cases h
  | readErr _ _ => rcases h with h | h <;> cases h
  | started _ _ _ _ _ _ _ _ => rcases h with h | h <;> cases h
  | startPanic _ _ _ _ _ _ _ _ => rcases h with h | h <;> cases h
  | duplicate _ _ _ _ _ _ _ _ => rcases h with h | h <;> cases h
  | otherPoisoned _ _ _ _ => rcases h with h | h <;> cases h
  | again _ _ _ _ _ => rcases h with h | h <;> cases h
  | closed _ hne hnq _ hst =>
    refine key ?_ hne hnq
    intro hr
    unfold bpSt at hst
    rw [hr] at hst
    generalize combine (bpCancel s).2 (expStatus (pollExpired (bpCancel s).1 now).2) = x at hst
    cases x <;> cases hst
  | pending _ hne hnq _ hst =>
    refine key ?_ hne hnq
    intro hr
    unfold bpSt at hst
    rw [hr] at hst
    generalize combine (bpCancel s).2 (expStatus (pollExpired (bpCancel s).1 now).2) = x at hst
    cases x <;> cases hst

theorem basePollNext_parks (now : Nat) : ∀ (fuel : Nat) (s : St),
    ((basePollNext fuel s now).2 = .pending ∨ (basePollNext fuel s now).2 = .none) → RdReg (basePollNext fuel s now).1 := by
  intro fuel
  induction fuel with
  | zero => intro s h; rw [basePollNext_zero] at h; rcases h with h | h <;> cases h
  | succ n ih =>
    intro s h
    rw [basePollNext_succ] at h ⊢
    have hp := bpStep_parks s now
    rcases hb : bpStep s now with ⟨s', r⟩
    rw [hb] at h hp
    cases r with
    | none => exact ih s' h
    | some x =>
      simp only at h ⊢
      refine hp ?_
      rcases h with h | h
      · exact Or.inl (by rw [h])
      · exact Or.inr (by rw [h])

theorem bpStep_selfWake (s : St) (now : Nat) : (bpStep s now).1.t.selfWake = s.t.selfWake := by
  have h3 : (tNext (pollExpired (bpCancel s).1 now).1).1.t.selfWake = s.t.selfWake := by
    rw [tNext_selfWake]; simp [bpCancel_t]
  unfold bpStep
  simp only
  split
  · simp [bpCancel_t]
  · split
    · exact h3
    · split
      · simpa using h3
      · split <;> simpa using h3
    · split
      · simpa [bpOther_t] using h3
      · split <;> simpa [bpOther_t] using h3

theorem basePollNext_selfWake (fuel : Nat) (s : St) (now : Nat) : (basePollNext fuel s now).1.t.selfWake = s.t.selfWake :=
  basePollNext_loop (fun s' => s'.t.selfWake = s.t.selfWake) now
    (fun s' h => by rw [bpStep_selfWake]; exact h) (fun s' h => h) fuel s rfl

/-- the limiter (`MaxRequests::poll_next`, as found): it goes idle registered on the read side — or, at its limit, on
the write waker of a sink that is not ready -/
theorem limitedLegacy_parks (limit now : Nat) : ∀ (fuel : Nat) (s : St),
    ((limitedPollNextLegacy limit fuel s now).2 = .pending ∨ (limitedPollNextLegacy limit fuel s now).2 = .none) →
    RdReg (limitedPollNextLegacy limit fuel s now).1 ∨ WSink (limitedPollNextLegacy limit fuel s now).1.t := by
  intro fuel
  induction fuel with
  | zero => intro s h; rcases h with h | h <;> cases h
  | succ n ih =>
    intro s h
    unfold limitedPollNextLegacy at h ⊢
    split at h
    · rename_i hlim
      rw [if_pos hlim]
      split at h <;> rename_i s1 h1
      · obtain ⟨a1, a2, _, _, _⟩ := tReady_pending_t h1
        exact Or.inr ⟨a1, a2⟩
      · rcases h with h | h <;> cases h
      · have hb := basePollNext_parks now (baseFuel s1) s1
        split at h
        · rename_i s2 ex h2
          split at h
          · rcases h with h | h <;> cases h
          · rename_i s3 r hne h3
            exact ih _ h
        · rename_i r hne
          generalize basePollNext (baseFuel s1) s1 now = q at h hb hne ⊢
          obtain ⟨s2, r2⟩ := q
          cases r2 with
          | some ex => exact absurd rfl (hne s2 ex)
          | pending => exact Or.inl (hb (Or.inl rfl))
          | none => exact Or.inl (hb (Or.inr rfl))
          | err a => rcases h with h | h <;> cases h
          | spin => rcases h with h | h <;> cases h
    · rename_i hlim
      rw [if_neg hlim]
      exact Or.inl (basePollNext_parks now _ s h)

theorem limitedLegacy_selfWake (limit now : Nat) : ∀ (fuel : Nat) (s : St),
    (limitedPollNextLegacy limit fuel s now).1.t.selfWake = s.t.selfWake := by
  intro fuel
  induction fuel with
  | zero => intro s; rfl
  | succ n ih =>
    intro s
    unfold limitedPollNextLegacy
    split
    · have h1 := (ws_tReady s).tk.selfWake
      split
      · next s1 heq => rw [heq] at h1; exact h1
      · next s1 heq => rw [heq] at h1; exact h1
      · next s1 heq =>
        rw [heq] at h1
        have h2 := basePollNext_selfWake (baseFuel s1) s1 now
        split
        · next s2 ex heq2 =>
          rw [heq2] at h2
          have h3 := (ws_baseStartSend s2 ex.id (.err throttleKindIdx)).tk.selfWake
          split
          · next s3 heq3 => rw [heq3] at h3; exact h3.trans (h2.trans h1)
          · next s3 r hne heq3 =>
            rw [heq3] at h3
            rw [ih]
            exact h3.trans (h2.trans h1)
        · next r hne => exact h2.trans h1
    · exact basePollNext_selfWake _ _ _

theorem channelPollNext_parks {s : St} (hcfg : s.throttleAfterRead = false) (now : Nat)
    (h : (channelPollNext s now).2 = .pending ∨ (channelPollNext s now).2 = .none) :
    RdReg (channelPollNext s now).1 ∨ (s.limit ≠ none ∧ WSink (channelPollNext s now).1.t) := by
  unfold channelPollNext at h ⊢
  split
  · rename_i hl
    rw [hl] at h
    exact Or.inl (basePollNext_parks now _ s h)
  · rename_i l hl
    rw [hl] at h
    simp only [hcfg, Bool.false_eq_true, ↓reduceIte] at h ⊢
    rcases limitedLegacy_parks l now _ s h with x | x
    · exact Or.inl x
    · exact Or.inr ⟨by rw [hl]; simp, x⟩

theorem channelPollNext_selfWake {s : St} (hcfg : s.throttleAfterRead = false) (now : Nat) :
    (channelPollNext s now).1.t.selfWake = s.t.selfWake := by
  unfold channelPollNext
  split
  · exact basePollNext_selfWake _ _ _
  · simp only [hcfg, Bool.false_eq_true, ↓reduceIte]
    exact limitedLegacy_selfWake _ _ _ _

/-! ### the read side: `nextVis`, the yielded request, `spin` results -/

theorem bpCancel_nextVis (s : St) : (bpCancel s).1.nextVis = s.nextVis := by
  unfold bpCancel; split <;> simp

theorem bpOther_nextVis (s : St) (nx : NextRes) : (bpOther s nx).1.nextVis = s.nextVis := by
  unfold bpOther; split <;> simp

theorem bpStep_nextVis (s : St) (now : Nat) : (bpStep s now).1.nextVis = s.nextVis := by
  have h3 : (tNext (pollExpired (bpCancel s).1 now).1).1.nextVis = s.nextVis := by
    simp [bpCancel_nextVis]
  unfold bpStep
  simp only
  split
  · simp [bpCancel_nextVis]
  · split
    · exact h3
    · split
      · simpa using h3
      · split <;> simpa using h3
    · split
      · simpa [bpOther_nextVis] using h3
      · split <;> simpa [bpOther_nextVis] using h3

theorem basePollNext_nextVis (fuel : Nat) (s : St) (now : Nat) : (basePollNext fuel s now).1.nextVis = s.nextVis :=
  basePollNext_loop (fun s' => s'.nextVis = s.nextVis) now
    (fun s' h => by rw [bpStep_nextVis]; exact h) (fun s' h => h) fuel s rfl

theorem limitedLegacy_nextVis (limit now : Nat) : ∀ (fuel : Nat) (s : St),
    (limitedPollNextLegacy limit fuel s now).1.nextVis = s.nextVis := by
  intro fuel
  induction fuel with
  | zero => intro s; rfl
  | succ n ih =>
    intro s
    unfold limitedPollNextLegacy
    split
    · have h1 := (ws_tReady s).nextVis
      split
      · next s1 heq => rw [heq] at h1; exact h1
      · next s1 heq => rw [heq] at h1; exact h1
      · next s1 heq =>
        rw [heq] at h1
        have h2 := basePollNext_nextVis (baseFuel s1) s1 now
        split
        · next s2 ex heq2 =>
          rw [heq2] at h2
          have h3 := (ws_baseStartSend s2 ex.id (.err throttleKindIdx)).nextVis
          split
          · next s3 heq3 => rw [heq3] at h3; exact h3.trans (h2.trans h1)
          · next s3 r hne heq3 =>
            rw [heq3] at h3
            rw [ih]
            exact h3.trans (h2.trans h1)
        · next r hne => exact h2.trans h1
    · exact basePollNext_nextVis _ _ _

theorem channelPollNext_nextVis {s : St} (hcfg : s.throttleAfterRead = false) (now : Nat) :
    (channelPollNext s now).1.nextVis = s.nextVis := by
  unfold channelPollNext
  split
  · exact basePollNext_nextVis _ _ _
  · simp only [hcfg, Bool.false_eq_true, ↓reduceIte]
    exact limitedLegacy_nextVis _ _ _ _

/-- some execution has this `rid` -/
def HasE (s : St) (rid : Nat) : Prop := ∃ e ∈ s.execs, e.rid = rid

theorem HasE.getExec {s : St} {rid : Nat} (h : HasE s rid) : ∃ e, getExec s rid = some e := by
  obtain ⟨e, he, hr⟩ := h
  cases hg : Server.getExec s rid with
  | some e' => exact ⟨e', rfl⟩
  | none =>
    unfold Server.getExec at hg
    have := List.find?_eq_none.mp hg e he
    simp [hr] at this

theorem HasE.updExec {s : St} {rid : Nat} (h : HasE s rid) (r : Nat) (f : Exec → Exec) (hf : ∀ e, (f e).rid = e.rid) :
    HasE (updExec s r f) rid := by
  obtain ⟨e, he, hr⟩ := h
  refine ⟨if e.rid == r then f e else e, ?_, ?_⟩
  · show _ ∈ s.execs.map _
    exact List.mem_map_of_mem (f := fun e => if e.rid == r then f e else e) he
  · split
    · rw [hf]; exact hr
    · exact hr

theorem HasE.of_execs {s s' : St} {rid : Nat} (h : HasE s rid) (e : s'.execs = s.execs) : HasE s' rid := by
  unfold HasE; rw [e]; exact h

theorem HasE.wakeExec {s : St} {rid : Nat} (h : HasE s rid) (r : Nat) : HasE (wakeExec s r) rid := by
  unfold Server.wakeExec
  repeat' split
  all_goals first | exact h | exact (h.updExec r (fun e => { e with woken := true }) (fun _ => rfl)).of_execs rfl

theorem startRequest_hasE {s : St} {now id d : Nat} {tr : Trace} {b : Nat} {ex : Exec}
    (h : (startRequest s now id d tr b).2 = some ex) : HasE (startRequest s now id d tr b).1 ex.rid := by
  unfold startRequest at h ⊢
  by_cases hf : (findEntry s id).isSome = true
  · rw [if_pos hf] at h; cases h
  · rw [if_neg hf] at h ⊢
    split at h
    · cases h
    · rename_i q key woke hq
      simp only at h ⊢
      injection h with h
      subst h
      exact ⟨_, List.mem_append_right _ (List.mem_singleton.mpr rfl), rfl⟩

theorem bpStep_some_hasE (s : St) (now : Nat) (ex : Exec) (h : (bpStep s now).2 = some (.some ex)) :
    HasE (bpStep s now).1 ex.rid := by
  have ho := bpStep_out s now
  revert h
  generalize bpStep s now = p at ho
  intro h
  cases ho with
  | poisoned2 _ => cases h
  | readErr _ _ => cases h
  | started id d tr b ex' _ _ hs =>
    simp only [Option.some.injEq, SPoll.some.injEq] at h
    subst h
    exact startRequest_hasE hs
  | startPanic _ _ _ _ _ _ _ _ => cases h
  | duplicate _ _ _ _ _ _ _ _ => cases h
  | otherPoisoned _ _ _ _ => cases h
  | again _ _ _ _ _ => cases h
  | closed _ _ _ _ _ => cases h
  | pending _ _ _ _ _ => cases h

theorem bpStep_spin (s : St) (now : Nat) (h : (bpStep s now).2 = some .spin) : (bpStep s now).1.poisoned = true := by
  have ho := bpStep_out s now
  revert h
  generalize bpStep s now = p at ho
  intro h
  cases ho with
  | poisoned2 hp => exact hp
  | readErr _ _ => cases h
  | started _ _ _ _ _ _ _ _ => cases h
  | startPanic _ _ _ _ _ _ _ hp => exact hp
  | duplicate _ _ _ _ _ _ _ _ => cases h
  | otherPoisoned _ _ _ hp => exact hp
  | again _ _ _ _ _ => cases h
  | closed _ _ _ _ _ => cases h
  | pending _ _ _ _ _ => cases h

/-- a result that is marked: the task panicked or a `spin` was recorded -/
def Marked (s : St) : Prop := s.poisoned = true ∨ hasSpin s.obs = true

theorem marked_emit_spin (s : St) : Marked (emit s (.spin (tid s))) := Or.inr (by simp [hasSpin])

theorem basePollNext_some_spin (now : Nat) : ∀ (fuel : Nat) (s : St),
    (∀ ex, (basePollNext fuel s now).2 = .some ex → HasE (basePollNext fuel s now).1 ex.rid) ∧
    ((basePollNext fuel s now).2 = .spin → Marked (basePollNext fuel s now).1) := by
  intro fuel
  induction fuel with
  | zero => intro s; rw [basePollNext_zero]; exact ⟨(fun ex h => by cases h), fun _ => marked_emit_spin s⟩
  | succ n ih =>
    intro s
    rw [basePollNext_succ]
    have h1 := bpStep_some_hasE s now
    have h2 := bpStep_spin s now
    rcases hb : bpStep s now with ⟨s', r⟩
    rw [hb] at h1 h2
    cases r with
    | none => exact ih s'
    | some x =>
      simp only
      refine ⟨fun ex h => h1 ex (by rw [h]), fun h => Or.inl (h2 (by rw [h]))⟩

theorem limitedLegacy_some_spin (limit now : Nat) : ∀ (fuel : Nat) (s : St),
    (∀ ex, (limitedPollNextLegacy limit fuel s now).2 = .some ex → HasE (limitedPollNextLegacy limit fuel s now).1 ex.rid) ∧
    ((limitedPollNextLegacy limit fuel s now).2 = .spin → Marked (limitedPollNextLegacy limit fuel s now).1) := by
  intro fuel
  induction fuel with
  | zero => intro s; exact ⟨(fun ex h => by cases h), fun _ => marked_emit_spin s⟩
  | succ n ih =>
    intro s
    unfold limitedPollNextLegacy
    split
    · split
      · exact ⟨(fun ex h => by cases h), (fun h => by cases h)⟩
      · exact ⟨(fun ex h => by cases h), (fun h => by cases h)⟩
      · next s1 heq =>
        have hb := basePollNext_some_spin now (baseFuel s1) s1
        split
        · next s2 ex heq2 =>
          split
          · exact ⟨(fun ex h => by cases h), (fun h => by cases h)⟩
          · exact ih _
        · next r hne =>
          generalize basePollNext (baseFuel s1) s1 now = q at hb hne
          obtain ⟨s2, r2⟩ := q
          cases r2 with
          | some ex => exact absurd rfl (hne s2 ex)
          | pending => exact ⟨(fun ex h => by cases h), (fun h => by cases h)⟩
          | none => exact ⟨(fun ex h => by cases h), (fun h => by cases h)⟩
          | err a => exact ⟨(fun ex h => by cases h), (fun h => by cases h)⟩
          | spin => exact ⟨(fun ex h => by cases h), fun _ => hb.2 rfl⟩
    · exact basePollNext_some_spin now _ s

theorem channelPollNext_some_spin {s : St} (hcfg : s.throttleAfterRead = false) (now : Nat) :
    (∀ ex, (channelPollNext s now).2 = .some ex → HasE (channelPollNext s now).1 ex.rid) ∧
    ((channelPollNext s now).2 = .spin → Marked (channelPollNext s now).1) := by
  unfold channelPollNext
  split
  · exact basePollNext_some_spin now _ s
  · simp only [hcfg, Bool.false_eq_true, ↓reduceIte]
    exact limitedLegacy_some_spin _ now _ s

/-! ### `Requests::poll_next` -/

theorem ensureOnce_not_spin (s : St) : (ensureOnce s).2 ≠ .spin := by
  unfold ensureOnce
  repeat' split
  all_goals simp

theorem flushArm_not_spin (s : St) (rc : Bool) : (flushArm s rc).2 ≠ .spin := by
  unfold flushArm
  repeat' split
  all_goals simp

theorem pumpWrite_not_spin {s : St} (hel : s.ensureLoop = false) (rc : Bool) : (pumpWrite s rc).2 ≠ .spin := by
  unfold pumpWrite ensureWriteable
  rw [if_neg (by simp [hel])]
  have h0 := ensureOnce_not_spin s
  split
  · exact flushArm_not_spin _ _
  · simp
  · rename_i s1 h1; rw [h1] at h0; exact absurd rfl h0
  · split
    · dsimp only
      split <;> simp
    · exact flushArm_not_spin _ _

theorem spk_ensureOnce_execs (s : St) : (ensureOnce s).1.execs = s.execs := by
  unfold ensureOnce
  have a := tReady_execs s
  split <;> rename_i s1 h1 <;> rw [h1] at a
  · exact a
  · exact a
  · have b := tFlush_execs s1
    split <;> rename_i s2 h2 <;> rw [h2] at b
    · exact b.trans a
    · exact b.trans a
    · have c := tReady_execs s2
      split <;> rename_i s3 h3 <;> rw [h3] at c <;> exact c.trans (b.trans a)

theorem spk_flushArm_execs (s : St) (rc : Bool) : (flushArm s rc).1.execs = s.execs := by
  unfold flushArm
  have a := tFlush_execs s
  split <;> rename_i s1 h1 <;> rw [h1] at a
  · exact a
  · exact a
  · split <;> exact a

theorem spk_baseStartSend_execs (s : St) (id : Nat) (res : Res) : (baseStartSend s id res).1.execs = s.execs := by
  unfold baseStartSend
  have a := removeRequest_execs s id
  split <;> rename_i s1 h1 <;> rw [h1] at a
  · exact (tSend_execs s1 _).trans a
  · exact a

theorem HasE.rqRelease {s : St} {rid : Nat} (h : HasE s rid) : HasE (rqRelease s) rid := by
  unfold Server.rqRelease
  split
  · refine HasE.wakeExec ?_ _
    exact h.of_execs rfl
  · exact h.of_execs rfl

theorem pumpWrite_hasE {s : St} {rid : Nat} (hel : s.ensureLoop = false) (h : HasE s rid) (rc : Bool) :
    HasE (pumpWrite s rc).1 rid := by
  unfold pumpWrite ensureWriteable
  rw [if_neg (by simp [hel])]
  have a : HasE (ensureOnce s).1 rid := h.of_execs (spk_ensureOnce_execs s)
  split <;> rename_i s1 h1 <;> rw [h1] at a
  · exact a.of_execs (spk_flushArm_execs _ _)
  · exact a
  · exact a
  · split
    · rename_i id res rest hq
      have b : HasE (rqRelease { s1 with respQ := rest }) rid := (a.of_execs (s' := { s1 with respQ := rest }) rfl).rqRelease
      have c : HasE (baseStartSend (rqRelease { s1 with respQ := rest }) id res).1 rid := b.of_execs (spk_baseStartSend_execs _ _ _)
      dsimp only
      split <;> rename_i s2 h2 <;> rw [h2] at c <;> exact c
    · exact (a.of_execs (s' := { s1 with rqRxWaker := true }) rfl).of_execs (spk_flushArm_execs _ _)

theorem ws_armRead (s : St) (r : SPoll Exec) : WS s (armRead s r) := by
  refine ⟨by rw [armRead_t]; exact TK.refl _, ?_, ?_, ?_, ?_, ?_⟩ <;> (unfold armRead; split) <;> first | rfl | exact fun h => h

theorem spk_armRead_cfg (s : St) (r : SPoll Exec) :
    (armRead s r).ensureLoop = s.ensureLoop ∧ (armRead s r).throttleAfterRead = s.throttleAfterRead ∧
    (armRead s r).limit = s.limit := by
  unfold armRead; split <;> exact ⟨rfl, rfl, rfl⟩

/-- **`Requests::poll_next`**: `nextVis` is left alone; a `Pending` result leaves the task woken or parked; a yielded
request is an existing execution; a `spin` result is marked. -/
theorem requestsPollNext_parks (now : Nat) : ∀ (fuel : Nat) (s s' : St) (r : ReqPoll),
    s.ensureLoop = false → s.throttleAfterRead = false → s.dropped = false → s.done = none →
    (s.limit = none ∨ s.t.selfWake = true) → requestsPollNext fuel s now = (s', r) →
    (s'.nextVis = s.nextVis ∧ s'.t.selfWake = s.t.selfWake) ∧ (r = .pending → s'.woken = true ∨ SPk s') ∧ (∀ rid, r = .item rid → HasE s' rid) ∧
    (r = .spin → Marked s') := by
  intro fuel
  induction fuel with
  | zero =>
    intro s s' r _ _ _ _ _ h
    have e : requestsPollNext 0 s now = (emit s (.spin (tid s)), .spin) := rfl
    rw [e] at h
    injection h with h1 h2
    subst h1; subst h2
    exact ⟨⟨rfl, rfl⟩, (fun h => by cases h), (fun _ h => by cases h), fun _ => marked_emit_spin s⟩
  | succ n ih =>
    intro s s' r hel hcfg hdr hdn hsw h
    rw [requestsPollNext_succ] at h
    have c_nv := channelPollNext_nextVis hcfg now
    have c_sw := channelPollNext_selfWake hcfg now
    have c_park := channelPollNext_parks hcfg now
    have c_ss := channelPollNext_some_spin hcfg now
    have c_cfg := (cfg_closed s now).channelPollNext s ⟨rfl, rfl, rfl, rfl⟩
    have c_dd := (dd_closed s.done s.dropped now).channelPollNext s ⟨rfl, rfl⟩
    rcases hch : channelPollNext s now with ⟨s1, read⟩
    rw [hch] at h c_nv c_sw c_park c_ss c_cfg c_dd
    simp only at c_nv c_sw c_park c_ss c_cfg c_dd
    -- the state the write pump starts from
    have wa := ws_armRead s1 read
    obtain ⟨ca1, ca2, ca3⟩ := spk_armRead_cfg s1 read
    have hela : (armRead s1 read).ensureLoop = false := by rw [ca1, c_cfg.2.2.1]; exact hel
    have w := ws_pumpWrite hela (readClosedOf read)
    have p_cfg := (cfg_closed (armRead s1 read) now).pumpWrite (armRead s1 read) (readClosedOf read) ⟨rfl, rfl, rfl, rfl⟩
    have p_parks := pumpWrite_parks hela (readClosedOf read)
    have p_ns := pumpWrite_not_spin hela (readClosedOf read)
    have hdra : (armRead s1 read).dropped = false := by rw [wa.dropped, c_dd.2]; exact hdr
    have hdna : (armRead s1 read).done = none := by rw [wa.done, c_dd.1]; exact hdn
    have p_q := fun hs hq => q_pumpWrite hela hdra hdna hs hq (readClosedOf read)
    have p_he := fun rid (hh : HasE (armRead s1 read) rid) => pumpWrite_hasE hela hh (readClosedOf read)
    rcases hpw : pumpWrite (armRead s1 read) (readClosedOf read) with ⟨s3, write⟩
    rw [hpw] at w p_cfg p_parks p_ns p_q p_he
    simp only at w p_cfg p_parks p_ns p_q p_he
    have F_nv : s3.nextVis = s.nextVis ∧ s3.t.selfWake = s.t.selfWake :=
      ⟨w.nextVis.trans (wa.nextVis.trans c_nv), w.tk.selfWake.trans (wa.tk.selfWake.trans c_sw)⟩
    have F_item : ∀ ex, read = .some ex → HasE s3 ex.rid := by
      intro ex he
      refine p_he _ ?_
      have := c_ss.1 ex he
      subst he
      exact this.updExec _ _ (fun _ => rfl)
    have F_park : (read = .pending ∨ read = .none) → (write = .pending ∨ write = .none) → s3.woken = true ∨ SPk s3 := by
      intro hr hw
      rcases c_park hr with x | ⟨xl, x⟩
      · have r3 : RdReg s3 := (x.ws wa).ws w
        rcases p_parks hw with y | y
        · exact Or.inr (Or.inl (Blocked.wsink y))
        · exact Or.inr (Or.inr ⟨y, r3⟩)
      · have hs1 : s.t.selfWake = true := by
          rcases hsw with e | e
          · exact absurd e xl
          · exact e
        have hsa : (armRead s1 read).t.selfWake = true := by rw [wa.tk.selfWake, c_sw]; exact hs1
        have qa : Q (armRead s1 read) := Or.inr (by rw [armRead_t]; exact x)
        rcases p_q hsa qa with y | y
        · exact Or.inl y
        · exact Or.inr (Or.inl y)
    have F_rec : s3.ensureLoop = false ∧ s3.throttleAfterRead = false ∧ s3.dropped = false ∧ s3.done = none ∧
        (s3.limit = none ∨ s3.t.selfWake = true) := by
      refine ⟨by rw [p_cfg.2.2.1]; exact hela, by rw [p_cfg.2.2.2, ca2, c_cfg.2.2.2]; exact hcfg,
        by rw [w.dropped]; exact hdra, by rw [w.done]; exact hdna, ?_⟩
      rcases hsw with e | e
      · exact Or.inl (by rw [p_cfg.2.1, ca3, c_cfg.2.1]; exact e)
      · exact Or.inr (by rw [w.tk.selfWake, wa.tk.selfWake, c_sw]; exact e)
    cases read with
    | err a =>
      simp only at h; injection h with h1 h2; subst h1; subst h2
      exact ⟨⟨c_nv, c_sw⟩, (fun h => by cases h), (fun _ h => by cases h), (fun h => by cases h)⟩
    | spin =>
      simp only at h; injection h with h1 h2; subst h1; subst h2
      exact ⟨⟨c_nv, c_sw⟩, (fun h => by cases h), (fun _ h => by cases h), fun _ => c_ss.2 rfl⟩
    | pending =>
      simp only at h
      rw [hpw] at h
      cases write with
      | err a =>
        simp only [dropRead] at h; injection h with h1 h2; subst h1; subst h2
        exact ⟨F_nv, (fun h => by cases h), (fun _ h => by cases h), (fun h => by cases h)⟩
      | spin => exact absurd rfl p_ns
      | pending =>
        simp only at h; injection h with h1 h2; subst h1; subst h2
        exact ⟨F_nv, fun _ => F_park (Or.inl rfl) (Or.inl rfl), (fun _ h => by cases h), (fun h => by cases h)⟩
      | none =>
        simp only at h; injection h with h1 h2; subst h1; subst h2
        exact ⟨F_nv, fun _ => F_park (Or.inl rfl) (Or.inr rfl), (fun _ h => by cases h), (fun h => by cases h)⟩
      | some u =>
        cases u
        simp only at h
        obtain ⟨i1, i2, i3, i4⟩ := ih s3 s' r F_rec.1 F_rec.2.1 F_rec.2.2.1 F_rec.2.2.2.1 F_rec.2.2.2.2 h
        exact ⟨⟨i1.1.trans F_nv.1, i1.2.trans F_nv.2⟩, i2, i3, i4⟩
    | none =>
      simp only at h
      rw [hpw] at h
      cases write with
      | err a =>
        simp only [dropRead] at h; injection h with h1 h2; subst h1; subst h2
        exact ⟨F_nv, (fun h => by cases h), (fun _ h => by cases h), (fun h => by cases h)⟩
      | spin => exact absurd rfl p_ns
      | pending =>
        simp only at h; injection h with h1 h2; subst h1; subst h2
        exact ⟨F_nv, fun _ => F_park (Or.inr rfl) (Or.inl rfl), (fun _ h => by cases h), (fun h => by cases h)⟩
      | none =>
        simp only at h; injection h with h1 h2; subst h1; subst h2
        exact ⟨F_nv, (fun h => by cases h), (fun _ h => by cases h), (fun h => by cases h)⟩
      | some u =>
        cases u
        simp only at h
        obtain ⟨i1, i2, i3, i4⟩ := ih s3 s' r F_rec.1 F_rec.2.1 F_rec.2.2.1 F_rec.2.2.2.1 F_rec.2.2.2.2 h
        exact ⟨⟨i1.1.trans F_nv.1, i1.2.trans F_nv.2⟩, i2, i3, i4⟩
    | some ex =>
      simp only at h
      rw [hpw] at h
      cases write with
      | err a =>
        simp only at h; injection h with h1 h2; subst h2
        refine ⟨?_, (fun h => by cases h), (fun _ h => by cases h), (fun h => by cases h)⟩
        rw [← h1]
        show (dropOffered s3 ex.rid ex.id).nextVis = s.nextVis ∧ (dropOffered s3 ex.rid ex.id).t.selfWake = s.t.selfWake
        rw [dropOffered_t, ← F_nv.1]
        refine ⟨?_, F_nv.2⟩
        unfold dropOffered
        simp only
        split <;> simp
      | spin => exact absurd rfl p_ns
      | pending =>
        simp only at h; injection h with h1 h2; subst h1; subst h2
        exact ⟨F_nv, (fun h => by cases h), (fun rid h => by injection h with h; subst h; exact F_item ex rfl), (fun h => by cases h)⟩
      | none =>
        simp only at h; injection h with h1 h2; subst h1; subst h2
        exact ⟨F_nv, (fun h => by cases h), (fun rid h => by injection h with h; subst h; exact F_item ex rfl), (fun h => by cases h)⟩
      | some u =>
        simp only at h; injection h with h1 h2; subst h1; subst h2
        exact ⟨F_nv, (fun h => by cases h), (fun rid h => by injection h with h; subst h; exact F_item ex rfl), (fun h => by cases h)⟩

/-! ### the executions and the other ops -/

/-- a step outside the stream task: its own state is left alone, it may get woken, and the response queue changes under
a sleeping task only if the task was not registered on it -/
structure SQS (s s' : St) : Prop where
  dd : s'.dropped = s.dropped
  dn : s'.done = s.done
  po : s'.poisoned = s.poisoned
  wok : s.woken = true → s'.woken = true
  t : s'.t = s.t
  fused : s'.readFused = s.readFused
  rq : s'.woken = false → s.dropped = false → s.done = none →
    (s'.respQ = s.respQ ∧ s'.rqRxWaker = s.rqRxWaker) ∨ s.rqRxWaker = false

theorem SQS.of_same {s s' : St} (dd : s'.dropped = s.dropped) (dn : s'.done = s.done) (po : s'.poisoned = s.poisoned)
    (wk : s'.woken = s.woken) (t : s'.t = s.t) (fu : s'.readFused = s.readFused) (rq : s'.respQ = s.respQ)
    (rx : s'.rqRxWaker = s.rqRxWaker) : SQS s s' :=
  ⟨dd, dn, po, fun h => by rw [wk]; exact h, t, fu, fun _ _ _ => Or.inl ⟨rq, rx⟩⟩

theorem SQS.refl (s : St) : SQS s s := .of_same rfl rfl rfl rfl rfl rfl rfl rfl

theorem SQS.trans {a b c : St} (h1 : SQS a b) (h2 : SQS b c) : SQS a c := by
  refine ⟨h2.dd.trans h1.dd, h2.dn.trans h1.dn, h2.po.trans h1.po, fun h => h2.wok (h1.wok h), h2.t.trans h1.t,
    h2.fused.trans h1.fused, ?_⟩
  intro wk dd dn
  have wk1 : b.woken = false := by
    cases hb : b.woken with
    | false => rfl
    | true => have := h2.wok hb; rw [wk] at this; cases this
  rcases h2.rq wk (by rw [h1.dd]; exact dd) (by rw [h1.dn]; exact dn) with ⟨a1, a2⟩ | b1
  · rcases h1.rq wk1 dd dn with ⟨c1, c2⟩ | c
    · exact Or.inl ⟨a1.trans c1, a2.trans c2⟩
    · exact Or.inr c
  · rcases h1.rq wk1 dd dn with ⟨c1, c2⟩ | c
    · exact Or.inr (by rw [← c2]; exact b1)
    · exact Or.inr c

theorem SQS.after {a b c : St} (h2 : SQS b c) (h1 : SQS a b) : SQS a c := h1.trans h2

macro "sqs_rfl" : tactic => `(tactic| exact SQS.of_same rfl rfl rfl rfl rfl rfl rfl rfl)

theorem SPI.sqs {s s' : St} (h : SPI s) (r : SQS s s') : SPI s' := by
  intro dd dn po wk
  have dd0 : s.dropped = false := by rw [← r.dd]; exact dd
  have dn0 : s.done = none := by rw [← r.dn]; exact dn
  have po0 : s.poisoned = false := by rw [← r.po]; exact po
  have wk0 : s.woken = false := by
    cases hb : s.woken with
    | false => rfl
    | true => have := r.wok hb; rw [wk] at this; cases this
  rcases h dd0 dn0 po0 wk0 with x | ⟨x, y⟩
  · exact Or.inl (by rw [r.t]; exact x)
  · right
    refine ⟨?_, ?_⟩
    · rcases r.rq wk dd0 dn0 with ⟨a1, a2⟩ | b1
      · exact ⟨by rw [a1]; exact x.1, by rw [a2]; exact x.2⟩
      · rw [x.2] at b1; cases b1
    · rcases y with ⟨y1, y2⟩ | y
      · exact Or.inl ⟨by rw [r.t]; exact y1, by rw [r.t]; exact y2⟩
      · exact Or.inr (by rw [r.fused]; exact y)

theorem sqs_emit (s : St) (o : Obs) : SQS s (emit s o) := by sqs_rfl
theorem sqs_updExec (s : St) (r : Nat) (f : Exec → Exec) : SQS s (updExec s r f) := by sqs_rfl

theorem wakeServer_rqRxWaker' (s : St) : (wakeServer s).rqRxWaker = s.rqRxWaker := by
  unfold wakeServer; split <;> rfl

theorem sqs_wakeServer (s : St) : SQS s (wakeServer s) :=
  ⟨by simp, by simp, by simp, wakeServer_woken_mono s, by simp, by simp,
   fun _ _ _ => Or.inl ⟨by simp, wakeServer_rqRxWaker' s⟩⟩

theorem sqs_wakeExec (s : St) (r : Nat) : SQS s (wakeExec s r) := by
  unfold wakeExec
  repeat' split
  all_goals first | exact SQS.refl _ | exact (sqs_emit _ _).after (sqs_updExec _ _ _)

theorem sqs_rqRelease (s : St) : SQS s (rqRelease s) := by
  unfold rqRelease
  split
  · exact (sqs_wakeExec _ _).after (by sqs_rfl)
  · sqs_rfl

theorem sqs_guardDrop (s : St) (e : Exec) : SQS s (guardDrop s e) := by
  unfold guardDrop
  split
  · simp only
    split
    · exact (sqs_wakeServer _).after (by sqs_rfl)
    · sqs_rfl
  · exact SQS.refl _

/-- the handler's result is queued: a task registered on the response queue is woken -/
theorem sqs_queueAndFinish (s : St) (e : Exec) (res : Res) (n : Nat) : SQS s (queueAndFinish s e res n) := by
  unfold queueAndFinish
  simp only
  refine (sqs_emit _ _).after ((sqs_updExec _ _ _).after ?_)
  split
  · exact SQS.refl _
  · split
    · rename_i hd hw
      refine ⟨by simp, by simp, by simp, fun h => wakeServer_woken_mono _ h, by simp, by simp, ?_⟩
      intro wk dd dn
      have := wakeServer_woken { s with respQ := s.respQ ++ [(e.id, res)], rqRxWaker := false } dd dn
      rw [wk] at this; cases this
    · rename_i hd hw
      exact ⟨rfl, rfl, rfl, fun h => h, rfl, rfl, fun _ _ _ => Or.inr (by simpa using hw)⟩

theorem sqs_trySend (s : St) (e : Exec) (res : Res) (n : Nat) : SQS s (trySend s e res n) := by
  unfold trySend
  split
  · exact sqs_queueAndFinish _ _ _ _
  · split
    · exact (sqs_queueAndFinish _ _ _ _).after (by sqs_rfl)
    · split
      · exact (sqs_emit _ _).after (sqs_updExec _ _ _)
      · split
        · exact (sqs_queueAndFinish _ _ _ _).after (by sqs_rfl)
        · exact (sqs_emit _ _).after ((sqs_updExec _ _ _).after (by sqs_rfl))

theorem sqs_pollExec (s : St) (vid n : Nat) : SQS s (pollExec s vid n) := by
  unfold pollExec
  split
  · exact sqs_emit _ _
  · next e _ =>
    simp only
    split
    · exact sqs_emit _ _
    · have h0 : SQS s (updExec s e.rid (fun x => { x with woken := false })) := sqs_updExec _ _ _
      split
      · refine (sqs_emit _ _).after ((sqs_updExec _ _ _).after ?_)
        split
        · try simp only
          split
          · exact h0.trans ((sqs_rqRelease _).after (by sqs_rfl))
          · exact h0.trans (by sqs_rfl)
        · split
          · exact h0
          · exact h0.trans (sqs_emit _ _)
      · split
        · split
          · exact h0.trans (sqs_trySend _ _ _ _)
          · exact h0.trans (sqs_emit _ _)
        · have h1 : SQS s (emit (updExec (updExec s e.rid (fun x => { x with woken := false })) e.rid
              (fun x => { x with phase := .running })) (.handler vid .polled n)) :=
            h0.trans ((sqs_updExec _ _ _).trans (sqs_emit _ _))
          split
          · exact h1.trans (((sqs_emit _ _).trans (sqs_updExec _ _ _)).trans (sqs_trySend _ _ _ _))
          · exact h1.trans ((sqs_updExec _ _ _).trans (sqs_emit _ _))

theorem sqs_dropExec (s : St) (vid n : Nat) : SQS s (dropExec s vid n) := by
  unfold dropExec
  split
  · exact sqs_emit _ _
  · next e _ =>
    simp only
    split
    · exact sqs_emit _ _
    · refine (sqs_guardDrop _ _).after ((sqs_updExec _ _ _).after ?_)
      split
      · split
        · exact SQS.refl _
        · exact sqs_emit _ _
      · try simp only
        split
        · exact (sqs_rqRelease _).after (by sqs_rfl)
        · sqs_rfl
      · exact SQS.refl _

theorem sqs_finishHandler (s : St) (vid : Nat) (res : Res) : SQS s (finishHandler s vid res) := by
  unfold finishHandler
  split
  · exact sqs_emit _ _
  · simp only
    split
    · exact sqs_emit _ _
    · split
      · exact (sqs_wakeExec _ _).after (sqs_updExec _ _ _)
      · exact sqs_updExec _ _ _

theorem sqs_onAdvance (s : St) (n : Nat) : SQS s (onAdvance s n) := by
  unfold onAdvance
  split
  · split
    · exact (sqs_wakeServer _).after (by sqs_rfl)
    · exact SQS.refl _
  · exact SQS.refl _

theorem sqs_took (ms : List Msg) (s : St) : SQS s (ms.foldl (fun s m => emit s (.took (tid s) m)) s) := by
  induction ms generalizing s with
  | nil => exact SQS.refl _
  | cons m ms ih => exact (sqs_emit _ _).trans (ih _)

/-- an external event on the transport -/
theorem spi_liftT {s : St} (h : SPI s) (r : SimT × Bool)
    (hk : r.2 = false → (WSink s.t → WSink r.1) ∧
      ((s.t.inbound = [] ∧ s.t.readWaker = true) → (r.1.inbound = [] ∧ r.1.readWaker = true))) :
    SPI (liftT s r) := by
  unfold liftT
  simp only
  split
  · intro dd dn po wk
    have := wakeServer_woken { s with t := r.1 } (by simpa using dd) (by simpa using dn)
    rw [wk] at this; cases this
  · rename_i hr
    have hr' : r.2 = false := by simpa using hr
    intro dd dn po wk
    rcases h dd dn po wk with x | ⟨x, y⟩
    · exact Or.inl ((hk hr').1 x)
    · right
      refine ⟨x, ?_⟩
      rcases y with y | y
      · exact Or.inl ((hk hr').2 y)
      · exact Or.inr y

theorem spi_setT {s : St} (h : SPI s) (t' : SimT) (h1 : t'.isReadyNow = s.t.isReadyNow) (h2 : t'.writeWaker = s.t.writeWaker)
    (h3 : t'.inbound = s.t.inbound) (h4 : t'.readWaker = s.t.readWaker) : SPI { s with t := t' } := by
  have := spi_liftT h (t', false) (fun _ => ⟨fun x => ⟨by rw [h1]; exact x.1, by rw [h2]; exact x.2⟩,
    fun x => ⟨by rw [h3]; exact x.1, by rw [h4]; exact x.2⟩⟩)
  exact this

theorem spi_dropServer {s : St} (h : SPI s) : SPI (dropServer s) := by
  unfold dropServer
  split
  · exact h.sqs (sqs_emit _ _)
  · intro dd
    simp only at dd
    rw [foldl_wakeExec_frame (fun s => St.dropped s) (by simp), foldl_abortExec_frame (fun s => St.dropped s) (by simp)] at dd
    cases dd

/-! ### one poll of the request stream -/

theorem SPk.of_fields {s s' : St} (h : SPk s) (e1 : s'.t = s.t) (e2 : s'.respQ = s.respQ) (e3 : s'.rqRxWaker = s.rqRxWaker)
    (e4 : s'.readFused = s.readFused) : SPk s' := by
  rcases h with x | ⟨x, y⟩
  · exact Or.inl (by rw [e1]; exact x)
  · refine Or.inr ⟨⟨by rw [e2]; exact x.1, by rw [e3]; exact x.2⟩, ?_⟩
    rcases y with y | y
    · exact Or.inl (by rw [e1]; exact y)
    · exact Or.inr (by rw [e4]; exact y)

theorem hasSpin_of_cons (o : Obs) (l : List Obs) (h : hasSpin l = true) : hasSpin (o :: l) = true := by
  unfold hasSpin at *; simp [h]

/-- **One poll of the request stream establishes the invariant** (an alive stream), for a state without a request limit
or with a self-waking sink. -/
theorem spi_pollServer {s : St} (hns : NS s) (hcfg : s.throttleAfterRead = false) (hel : s.ensureLoop = false)
    (hsw : s.limit = none ∨ s.t.selfWake = true) (h : SPI s) (now : Nat) : SPI (pollServer s now) := by
  unfold pollServer
  simp only
  split
  · rename_i hc
    intro _ dn
    rw [dropServer_done] at dn
    rw [dn] at hc; simp at hc
  · split
    · intro _ _ _ wk; cases wk
    · rename_i hb1 hb2
      by_cases hlive : (s.dropped || s.done.isSome || s.poisoned) = false
      · intro dd dn po wk
        rcases pollServerKeep_cases s now hlive with ⟨hp, _, _⟩ | ⟨hp, he⟩
        · rw [hp] at po; cases po
        · have hl := hlive
          simp only [Bool.or_eq_false_iff] at hl
          have hd0 : s.done = none := by
            cases hx : s.done with
            | none => rfl
            | some r => rw [hx] at hl; simp at hl
          have hns1 := NS_requestsPollNext now (pollFuel { s with woken := false }) { s with woken := false }
            (by unfold pollFuel; simp only; omega) (NS_of_obs hns rfl) hcfg hel
          generalize hpe : requestsPollNext (pollFuel { s with woken := false }) { s with woken := false } now = p
            at hp he hns1
          obtain ⟨p1, r⟩ := p
          obtain ⟨⟨f1, _⟩, f2, f3, f4⟩ := requestsPollNext_parks now (pollFuel { s with woken := false }) { s with woken := false }
            p1 r hel hcfg hl.1.1 hd0 hsw hpe
          simp only at hp he hns1 f1
          rw [he] at dd dn po wk hb2 ⊢
          cases r with
          | pending =>
            rcases f2 rfl with x | x
            · have : (pskFinish p1 .pending).woken = p1.woken := rfl
              rw [this, x] at wk; cases wk
            · exact x.of_fields rfl rfl rfl rfl
          | none =>
            have : (pskFinish p1 .none).done = some .readyNone := rfl
            rw [this] at dn; cases dn
          | err a =>
            have : (pskFinish p1 (.err a)).done = some (.readyItemErr a) := rfl
            rw [this] at dn; cases dn
          | spin =>
            rcases f4 rfl with x | x
            · rw [hp] at x; cases x
            · unfold NS at hns1; rw [hns1] at x; cases x
          | item rid =>
            exfalso
            obtain ⟨e, hg⟩ := (f3 rid rfl).getExec
            apply hb2
            have hnv : (pskFinish p1 (.item rid)).nextVis = p1.nextVis + 1 := by
              unfold pskFinish pskRet
              simp only [hg]
              rfl
            have hdr : (pskFinish p1 (.item rid)).dropped = false := dd
            rw [hnv, hdr]
            have : p1.nextVis = s.nextVis := f1
            simp only [Bool.not_false, Bool.and_true, decide_eq_true_eq]
            omega
      · have hdead : (s.dropped || s.done.isSome || s.poisoned) = true := by
          cases hx : (s.dropped || s.done.isSome || s.poisoned) <;> simp_all
        rw [pollServerKeep_dead s now hdead]
        exact h.sqs (sqs_emit _ _)

/-! ### the invariant over scripts -/

/-- the script never switches the sink's self-wake off -/
def SelfWakeOn (ops : List SOp) : Prop := ∀ op ∈ ops, op ≠ .selfWake false

/-- no request limit, or a sink that wakes its owner when its own flush makes room -/
def Env (s : St) : Prop := s.limit = none ∨ s.t.selfWake = true

theorem pollServerKeep_selfWake {s : St} (hcfg : s.throttleAfterRead = false) (hel : s.ensureLoop = false) (hsw : Env s)
    (now : Nat) : (pollServerKeep s now).t.selfWake = s.t.selfWake := by
  by_cases hlive : (s.dropped || s.done.isSome || s.poisoned) = false
  · have hl := hlive
    simp only [Bool.or_eq_false_iff] at hl
    have hd0 : s.done = none := by
      cases hx : s.done with
      | none => rfl
      | some r => rw [hx] at hl; simp at hl
    rw [pollServerKeep_eq, hlive]
    simp only [Bool.false_eq_true, ↓reduceIte]
    rcases hpe : requestsPollNext (pollFuel { s with woken := false }) { s with woken := false } now with ⟨p1, r⟩
    obtain ⟨⟨_, f1⟩, _⟩ := requestsPollNext_parks now (pollFuel { s with woken := false }) { s with woken := false }
      p1 r hel hcfg hl.1.1 hd0 hsw hpe
    simp only at f1 ⊢
    split
    · exact f1
    · split
      · exact f1
      · rw [pskFinish_t]; exact f1
  · have hdead : (s.dropped || s.done.isSome || s.poisoned) = true := by
      cases hx : (s.dropped || s.done.isSome || s.poisoned) <;> simp_all
    rw [pollServerKeep_dead s now hdead]; rfl

theorem env_pollServer {s : St} (hcfg : s.throttleAfterRead = false) (hel : s.ensureLoop = false) (hsw : Env s) (now : Nat) :
    Env (pollServer s now) := by
  have hc := (cfg_closed s now).pollServer s ⟨rfl, rfl, rfl, rfl⟩
  rcases hsw with e | e
  · exact Or.inl (by rw [hc.2.1]; exact e)
  · right
    have hk := pollServerKeep_selfWake hcfg hel (Or.inr e) now
    unfold pollServer
    simp only
    split
    · rw [dropServer_t, hk]; exact e
    · split
      · show (pollServerKeep s now).t.selfWake = true; rw [hk]; exact e
      · rw [hk]; exact e

theorem env_of_t {s s' : St} (h : Env s) (e1 : s'.limit = s.limit) (e2 : s'.t.selfWake = s.t.selfWake) : Env s' := by
  rcases h with h | h
  · exact Or.inl (by rw [e1]; exact h)
  · exact Or.inr (by rw [e2]; exact h)

theorem spk_liftT_limit (s : St) (r : SimT × Bool) : (liftT s r).limit = s.limit := by
  unfold liftT; simp only; split <;> simp

theorem wakeIfReady_selfWake (t : SimT) : t.wakeIfReady.1.selfWake = t.selfWake := by
  unfold SimT.wakeIfReady; split <;> rfl

/-- the environment is kept by every op that does not switch the self-wake off -/
theorem env_applyOp {c : Sys} (hcfg : c.s.throttleAfterRead = false) (hel : c.s.ensureLoop = false) (h : Env c.s)
    (op : SOp) (hop : op ≠ .selfWake false) : Env (applyOp c op).s := by
  have hc := (cfg_closed c.s c.now)
  cases op with
  | pollServer => exact env_pollServer hcfg hel h _
  | dropServer => exact env_of_t h (by show (dropServer c.s).limit = _; simp) (by show (dropServer c.s).t.selfWake = _; rw [dropServer_t])
  | pollExec r =>
    exact env_of_t h (hc.pollExec c.s r c.now ⟨rfl, rfl, rfl, rfl⟩).2.1
      (by show (pollExec c.s r c.now).t.selfWake = _; rw [(tFrame_closed c.s.t).pollExec c.s r c.now rfl])
  | dropExec r =>
    exact env_of_t h (hc.dropExec c.s r c.now ⟨rfl, rfl, rfl, rfl⟩).2.1
      (by show (dropExec c.s r c.now).t.selfWake = _; rw [(tFrame_closed c.s.t).dropExec c.s r c.now rfl])
  | finish r res =>
    exact env_of_t h (hc.finishHandler c.s r res ⟨rfl, rfl, rfl, rfl⟩).2.1
      (by show (finishHandler c.s r res).t.selfWake = _; rw [(tFrame_closed c.s.t).finishHandler c.s r res rfl])
  | injectReq id d tr b => exact env_of_t h (spk_liftT_limit _ _) (by show (liftT c.s _).t.selfWake = _; rw [liftT_t]; rfl)
  | injectCancel id tr => exact env_of_t h (spk_liftT_limit _ _) (by show (liftT c.s _).t.selfWake = _; rw [liftT_t]; rfl)
  | injectErr => exact env_of_t h (spk_liftT_limit _ _) (by show (liftT c.s _).t.selfWake = _; rw [liftT_t]; rfl)
  | eof => exact env_of_t h (spk_liftT_limit _ _) (by show (liftT c.s _).t.selfWake = _; rw [liftT_t]; rfl)
  | setReady b =>
    exact env_of_t h (spk_liftT_limit _ _) (by show (liftT c.s _).t.selfWake = _; rw [liftT_t]; exact wakeIfReady_selfWake _)
  | setFlush b =>
    exact env_of_t h (spk_liftT_limit _ _) (by show (liftT c.s _).t.selfWake = _; rw [liftT_t]; exact wakeIfReady_selfWake _)
  | fault k => exact env_of_t h rfl (by cases k <;> rfl)
  | faultSkip n => exact env_of_t h rfl rfl
  | selfWake b =>
    cases b with
    | false => exact absurd rfl hop
    | true => exact h.elim Or.inl (fun _ => Or.inr rfl)
  | take n =>
    have hq := (cfg_closed c.s c.now).took (c.s.t.take n).2 { c.s with t := (c.s.t.take n).1 } ⟨rfl, rfl, rfl, rfl⟩
    exact env_of_t h hq.2.1 (by
      show ((c.s.t.take n).2.foldl (fun s m => emit s (.took (tid s) m)) { c.s with t := (c.s.t.take n).1 }).t.selfWake = _
      rw [took_t]; rfl)
  | advance n =>
    exact env_of_t h (by show (onAdvance c.s _).limit = _; unfold onAdvance; repeat' split <;> simp)
      (by show (onAdvance c.s _).t.selfWake = _; rw [onAdvance_t])

/-- **One op of a script** preserves the parking invariant of the stream task. -/
theorem spi_applyOp {c : Sys} (hns : NS c.s) (hcfg : c.s.throttleAfterRead = false) (hel : c.s.ensureLoop = false)
    (hsw : Env c.s) (h : SPI c.s) (op : SOp) : SPI (applyOp c op).s := by
  cases op with
  | pollServer => exact spi_pollServer hns hcfg hel hsw h _
  | dropServer => exact spi_dropServer h
  | pollExec r => exact h.sqs (sqs_pollExec _ _ _)
  | dropExec r => exact h.sqs (sqs_dropExec _ _ _)
  | finish r res => exact h.sqs (sqs_finishHandler _ _ _)
  | injectReq id d tr b =>
    exact spi_liftT h _ (fun hr => ⟨fun x => x, fun x => by have hr' : c.s.t.readWaker = false := hr; rw [x.2] at hr'; cases hr'⟩)
  | injectCancel id tr =>
    exact spi_liftT h _ (fun hr => ⟨fun x => x, fun x => by have hr' : c.s.t.readWaker = false := hr; rw [x.2] at hr'; cases hr'⟩)
  | injectErr =>
    exact spi_liftT h _ (fun hr => ⟨fun x => x, fun x => by have hr' : c.s.t.readWaker = false := hr; rw [x.2] at hr'; cases hr'⟩)
  | eof =>
    exact spi_liftT h _ (fun hr => ⟨fun x => x, fun x => by have hr' : c.s.t.readWaker = false := hr; rw [x.2] at hr'; cases hr'⟩)
  | setReady b =>
    refine spi_liftT h _ (fun hw => ⟨fun x => ?_, fun x => ?_⟩)
    · by_cases hr : ({ c.s.t with readyOpen := b } : SimT).isReadyNow = false
      · exact Client.wakeIfReady_spec _ hw hr x.2
      · exfalso
        have hr' : ({ c.s.t with readyOpen := b } : SimT).isReadyNow = true := by simpa using hr
        have : ({ c.s.t with readyOpen := b } : SimT).wakeIfReady.2 = true := by
          unfold SimT.wakeIfReady
          rw [if_pos (by rw [hr']; simp; exact x.2)]
        rw [SimT.setReady] at hw
        rw [this] at hw; cases hw
    · show (SimT.wakeIfReady _).1.inbound = [] ∧ (SimT.wakeIfReady _).1.readWaker = true
      unfold SimT.wakeIfReady; split <;> exact x
  | setFlush b =>
    refine spi_liftT h _ (fun hw => ⟨fun x => Client.wakeIfReady_spec _ hw x.1 x.2, fun x => ?_⟩)
    show (SimT.wakeIfReady _).1.inbound = [] ∧ (SimT.wakeIfReady _).1.readWaker = true
    unfold SimT.wakeIfReady; split <;> exact x
  | fault k => exact spi_setT h _ (by cases k <;> rfl) (by cases k <;> rfl) (by cases k <;> rfl) (by cases k <;> rfl)
  | faultSkip n => exact spi_setT h _ rfl rfl rfl rfl
  | selfWake b => exact spi_setT h _ rfl rfl rfl rfl
  | take n => exact (spi_setT h (c.s.t.take n).1 rfl rfl rfl rfl).sqs (sqs_took _ _)
  | advance n => exact h.sqs (sqs_onAdvance _ _)

theorem selfWakeOn_cons {op : SOp} {ops : List SOp} (h : SelfWakeOn (op :: ops)) : op ≠ .selfWake false ∧ SelfWakeOn ops :=
  ⟨h op (by simp), fun o ho => h o (by simp [ho])⟩

/-- **The parking invariant of the stream task holds in every reachable state**, for a server without a request limit
or a script that never switches the sink's self-wake off. -/
theorem reach_spk (limit : Option Nat) (respCap tcap : Nat) (coupled : Bool) (ops : List SOp)
    (henv : limit = none ∨ SelfWakeOn ops) : SPI (ops.foldl applyOp (initSys limit respCap tcap coupled)).s := by
  suffices H : ∀ (ops : List SOp) (c : Sys), NS c.s → c.s.throttleAfterRead = false → c.s.ensureLoop = false →
      (c.s.limit = none ∨ (c.s.t.selfWake = true ∧ SelfWakeOn ops)) → SPI c.s → SPI (ops.foldl applyOp c).s by
    refine H ops _ (by unfold NS; rfl) rfl rfl ?_ (fun _ _ _ wk => by cases wk)
    rcases henv with e | e
    · exact Or.inl e
    · exact Or.inr ⟨rfl, e⟩
  intro ops
  induction ops with
  | nil => intro c _ _ _ _ h; exact h
  | cons op ops ih =>
    intro c hns hcfg hel henv h
    have hcf := (cfg_closed c.s c.now)
    have hcfg' : Cfg c.s (applyOp c op).s := by
      have := cfg_reach c [op]
      simpa using this
    refine ih _ (NS_applyOp c op hns hcfg hel) (by rw [hcfg'.2.2.2]; exact hcfg) (by rw [hcfg'.2.2.1]; exact hel) ?_
      (spi_applyOp hns hcfg hel (henv.elim Or.inl (fun x => Or.inr x.1)) h op)
    rcases henv with e | ⟨e1, e2⟩
    · exact Or.inl (by rw [hcfg'.2.1]; exact e)
    · obtain ⟨hop, hrest⟩ := selfWakeOn_cons e2
      rcases env_applyOp hcfg hel (Or.inr e1) op hop with x | x
      · exact Or.inl x
      · exact Or.inr ⟨x, hrest⟩

end TarpcModel.Server

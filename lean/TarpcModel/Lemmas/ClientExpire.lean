import TarpcModel.Client.Run
/-!
The loop of `in_flight_requests.poll_expired` (`pollExpiredLoop`, `Client/Model.lean`) never runs out of fuel: every
`continue` (re-arm of a clamped deadline timer) takes at least 1 ns off what is still to be armed (`remSum`), and the
model gives the loop `expiredFuel s = remSum s + 1`.  No `@[simp]` lemmas here: imported by the `Flow` family
(`Lemmas/ClientFlowSpin.lean`) and by `Props/C02.lean`.
-/
namespace TarpcModel.Client

/-! ### the loop of `poll_expired`: its fuel never runs out -/

/-- What is still to be armed: every re-arm takes at least 1 ns off it. -/
def remSum (s : St) : Nat := (s.inflight.map (·.remainder)).sum

theorem expiredFuel_eq (s : St) : expiredFuel s = remSum s + 1 := rfl

theorem clampTimeout_pos {r : Nat} (h : r ≠ 0) : 1 ≤ clampTimeout r := by
  unfold clampTimeout; split
  · omega
  · rename_i hc
    have : Gen.clientTimerClampSecs ≠ 0 := by simpa using hc
    omega

theorem sum_rearm_le (l : List Entry) (id key t due : Nat) :
    ((l.map (rearmEntry id key t due)).map (·.remainder)).sum ≤ (l.map (·.remainder)).sum := by
  induction l with
  | nil => exact Nat.le_refl _
  | cons x xs ih =>
    simp only [List.map_cons, List.sum_cons]
    have : (rearmEntry id key t due x).remainder ≤ x.remainder := by
      unfold rearmEntry; split
      · exact Nat.sub_le _ _
      · exact Nat.le_refl _
    omega

theorem sum_rearm_lt {l : List Entry} {id key t due : Nat} {en : Entry} (hf : l.find? (·.id == id) = some en)
    (hr : en.remainder ≠ 0) (ht : 1 ≤ t) :
    ((l.map (rearmEntry id key t due)).map (·.remainder)).sum + 1 ≤ (l.map (·.remainder)).sum := by
  induction l with
  | nil => cases hf
  | cons x xs ih =>
    simp only [List.map_cons, List.sum_cons]
    rw [List.find?_cons] at hf
    split at hf
    · rename_i hx
      cases hf
      have h1 := sum_rearm_le xs id key t due
      have : (rearmEntry id key t due en).remainder = en.remainder - t := by
        unfold rearmEntry; rw [if_pos hx]
      omega
    · rename_i hx
      have : rearmEntry id key t due x = x := by
        unfold rearmEntry; rw [if_neg (by simpa using hx)]
      rw [this]
      have := ih hf
      omega

theorem rearmWith_again {s s' : St} {id t due : Nat} {r : DelayQ × DelayQ.InsertRes × Bool}
    (h : rearmWith s id t due r = .again s') : ∃ key, s'.inflight = s.inflight.map (rearmEntry id key t due) := by
  obtain ⟨q', res, w⟩ := r
  cases res with
  | panic => simp [rearmWith] at h
  | ok key =>
    simp only [rearmWith, ExpStep.again.injEq] at h
    subst h
    refine ⟨key, ?_⟩
    split
    · unfold wakeDispatch; split <;> rfl
    · rfl

/-- A `continue` of `poll_expired`'s loop strictly decreases what is still to be armed. -/
theorem expireWith_again {s s' : St} {now : Nat} {r : DelayQ × DelayQ.PollRes} (h : expireWith s now r = .again s') :
    remSum s' + 1 ≤ remSum s := by
  unfold expireWith at h
  split at h
  · rename_i q e
    split at h
    · rename_i en hf
      split at h
      · rename_i hne
        unfold rearm at h
        obtain ⟨key, hk⟩ := rearmWith_again h
        unfold remSum; rw [hk]
        have hrest : en.remainder - (now - en.dueAt) ≠ 0 := by simpa using hne
        have := clampTimeout_pos hrest
        exact sum_rearm_lt hf (by omega) (by omega)
      · cases h
    · cases h
  · cases h

/-- **Fuel adequacy of `poll_expired`'s loop.**  Any two amounts of fuel above what is still to be armed give the same
result: the loop ends by itself (a queue poll that yields nothing, a request failed, a panic) before the fuel does. -/
theorem pollExpiredLoop_fuel (fuel1 fuel2 : Nat) (s : St) (now : Nat) (h1 : remSum s < fuel1) (h2 : remSum s < fuel2) :
    pollExpiredLoop fuel1 s now = pollExpiredLoop fuel2 s now := by
  induction fuel1 generalizing fuel2 s with
  | zero => omega
  | succ f1 ih =>
    cases fuel2 with
    | zero => omega
    | succ f2 =>
      cases hstep : expireStep s now with
      | again s' =>
        have := expireWith_again (r := s.timers.pollExpired now) hstep
        simp only [pollExpiredLoop, hstep]
        exact ih f2 s' (by omega) (by omega)
      | done s' b => simp only [pollExpiredLoop, hstep]

/-- The model's `expiredFuel` is such an amount: more fuel changes nothing. -/
theorem pollExpired_fuel_adequate (s : St) (now : Nat) (fuel : Nat) (h : expiredFuel s ≤ fuel) :
    pollExpiredLoop fuel s now = pollExpired s now :=
  pollExpiredLoop_fuel fuel (expiredFuel s) s now (by rw [expiredFuel_eq] at h; omega) (by rw [expiredFuel_eq]; omega)

end TarpcModel.Client

import TarpcModel.Lemmas.ClientTop
import TarpcModel.Lemmas.ClientMon
import TarpcModel.Lemmas.ClientFlowSink
/-!
# The cancellation-queue invariant of the client model

`CqI D s`: every in-flight entry belongs to a call that is still waiting for it (`awaiting`, oneshot sender not
dropped) — or its request id is in the cancellation queue `cq`.  (`D = some cid` marks the moment inside `dropCall`
between the guard's `cqPush` and the end of the future's life: the entries of call `cid` are then *all* in `cq`.)
Supporting clauses: a dropped dispatch tracks nothing; the oneshot sender of a queued request has not been dropped;
a call that has not been enqueued yet and whose sender is gone (only inside `dropCall`) is not waiting for a permit.

The invariant is stated over `cores s` (per call: id of the future, phase, `txDropped`) and the two queues, the table,
the permit lists and `dDropped`; `QCq s s'` says that a step leaves all of those alone.  Preservation is proved for
every function of the model (the view-level invariant `Inv` of `Lemmas/ClientIds.lean` is used where the argument
needs to know which call owns a queued request / an entry).
-/
set_option linter.unusedSimpArgs false
set_option linter.unusedVariables false
namespace TarpcModel.Client

/-! ### the part of the state the invariant reads -/

/-- per call: the future's id, its phase, whether the oneshot sender was dropped without sending, and whether the
receiver is closed -/
def ccore (c : Call) : Nat × Phase × Bool × Bool := (c.cid, c.phase, c.os.txDropped, c.os.rxClosed)

def cores (s : St) : List (Nat × Phase × Bool × Bool) := s.calls.map ccore

/-- `s'` agrees with `s` on everything `CqI` reads. -/
structure QCq (s s' : St) : Prop where
  cs : cores s' = cores s
  inflight : s'.inflight = s.inflight
  cq : s'.cq = s.cq
  pq : s'.pq = s.pq
  pqWaiters : s'.pqWaiters = s.pqWaiters
  pqAssigned : s'.pqAssigned = s.pqAssigned
  dDropped : s'.dDropped = s.dDropped

theorem QCq.refl (s : St) : QCq s s := ⟨rfl, rfl, rfl, rfl, rfl, rfl, rfl⟩

theorem QCq.trans {a b c : St} (h1 : QCq a b) (h2 : QCq b c) : QCq a c :=
  ⟨h2.cs.trans h1.cs, h2.inflight.trans h1.inflight, h2.cq.trans h1.cq, h2.pq.trans h1.pq,
   h2.pqWaiters.trans h1.pqWaiters, h2.pqAssigned.trans h1.pqAssigned, h2.dDropped.trans h1.dDropped⟩

theorem QCq.of_calls {s s' : St} (hc : s'.calls = s.calls) (h1 : s'.inflight = s.inflight) (h2 : s'.cq = s.cq)
    (h3 : s'.pq = s.pq) (h4 : s'.pqWaiters = s.pqWaiters) (h5 : s'.pqAssigned = s.pqAssigned)
    (h6 : s'.dDropped = s.dDropped) : QCq s s' :=
  ⟨by unfold Client.cores; rw [hc], h1, h2, h3, h4, h5, h6⟩

/-- composition, last step first (so that the intermediate state is known when the first step is elaborated) -/
theorem QCq.after {a b c : St} (h2 : QCq b c) (h1 : QCq a b) : QCq a c := h1.trans h2

theorem qc_foldl {α : Type} (f : St → α → St) (hf : ∀ s a, QCq s (f s a)) (l : List α) (s : St) :
    QCq s (l.foldl f s) := by
  induction l generalizing s with
  | nil => exact QCq.refl _
  | cons a l ih => exact (hf s a).trans (ih _)

theorem qc_emit (s : St) (o : Obs) : QCq s (emit s o) := QCq.of_calls rfl rfl rfl rfl rfl rfl rfl

theorem qc_wakeDispatch (s : St) : QCq s (wakeDispatch s) :=
  QCq.of_calls (by simp) (by simp) (by simp) (by simp) (by simp) (by simp) (by simp)

theorem cores_updCall (s : St) (cid : Nat) (f : Call → Call) (hf : ∀ c, ccore (f c) = ccore c) :
    cores (updCall s cid f) = cores s := by
  simp only [cores, updCall, List.map_map]
  apply List.map_congr_left
  intro c _
  simp only [Function.comp]
  split
  · exact hf c
  · rfl

theorem qc_updCall (s : St) (cid : Nat) (f : Call → Call) (hf : ∀ c, ccore (f c) = ccore c) :
    QCq s (updCall s cid f) :=
  ⟨cores_updCall s cid f hf, rfl, rfl, rfl, rfl, rfl, rfl⟩

theorem qc_wakeCall (s : St) (cid : Nat) : QCq s (wakeCall s cid) := by
  unfold wakeCall
  split
  · split
    · exact (qc_emit _ _).after (qc_updCall s cid _ (fun _ => rfl))
    · exact QCq.refl _
  · exact QCq.refl _

theorem qc_osSend (s : St) (cid : Nat) (o : Outcome) : QCq s (osSend s cid o) := by
  unfold osSend
  split
  · exact QCq.refl _
  · split
    · exact QCq.refl _
    · simp only
      split
      · exact (qc_wakeCall _ _).after (qc_updCall s cid _ (fun _ => rfl))
      · exact qc_updCall s cid _ (fun _ => rfl)

theorem qc_removeTimer (s : St) (k : Nat) : QCq s (removeTimer s k) := by
  unfold removeTimer
  split
  · simp only
    split
    · exact (qc_wakeDispatch _).after (QCq.of_calls rfl rfl rfl rfl rfl rfl rfl)
    · exact QCq.of_calls rfl rfl rfl rfl rfl rfl rfl
  · exact (qc_emit _ _).after (QCq.of_calls rfl rfl rfl rfl rfl rfl rfl)

theorem qc_tReady (s : St) : QCq s (tReady s).1 :=
  QCq.of_calls (by simp) (by simp) (by simp) (by simp) (by simp) (by simp) (by simp)
theorem qc_tFlush (s : St) : QCq s (tFlush s).1 :=
  QCq.of_calls (by simp) (by simp) (by simp) (by simp) (by simp) (by simp) (by simp)
theorem qc_tClose (s : St) : QCq s (tClose s).1 :=
  QCq.of_calls (by simp) (by simp) (by simp) (by simp) (by simp) (by simp) (by simp)
theorem qc_tSend (s : St) (m : Msg) : QCq s (tSend s m).1 :=
  QCq.of_calls (by simp) (by simp) (by simp) (by simp) (by simp) (by simp) (by simp)
theorem qc_tNext (s : St) : QCq s (tNext s).1 :=
  QCq.of_calls (by simp) (by simp) (by simp) (by simp) (by simp) (by simp) (by simp)

theorem qc_ensureOnce (s : St) : QCq s (ensureOnce s).1 := by
  refine Flow.ensureOnce_cases (motive := fun p => QCq s p.1) s ?_ ?_ ?_ ?_ ?_
  · intro s1 h1; have := qc_tReady s; rw [h1] at this; exact this
  · intro s1 h1; have := qc_tReady s; rw [h1] at this; exact this
  · intro s1 s2 h1 h2
    have a := qc_tReady s; rw [h1] at a
    have b := qc_tFlush s1; rw [h2] at b
    exact a.trans b
  · intro s1 s2 h1 h2
    have a := qc_tReady s; rw [h1] at a
    have b := qc_tFlush s1; rw [h2] at b
    exact a.trans b
  · intro s1 s2 s3 r h1 h2 h3
    have a := qc_tReady s; rw [h1] at a
    have b := qc_tFlush s1; rw [h2] at b
    have c := qc_tReady s2; rw [h3] at c
    exact (a.trans b).trans c

theorem qc_ensureLoop (fuel : Nat) (s : St) : QCq s (ensureLoop fuel s).1 := by
  induction fuel generalizing s with
  | zero => rw [Flow.ensureLoop_zero]; exact qc_emit _ _
  | succ fuel ih =>
    refine Flow.ensureLoop_cases (motive := fun p => QCq s p.1) fuel s ?_ ?_ ?_ ?_ ?_
    · intro s1 h1; have := qc_tReady s; rw [h1] at this; exact this
    · intro s1 h1; have := qc_tReady s; rw [h1] at this; exact this
    · intro s1 s2 h1 h2
      have a := qc_tReady s; rw [h1] at a
      have b := qc_tFlush s1; rw [h2] at b
      exact a.trans b
    · intro s1 s2 h1 h2
      have a := qc_tReady s; rw [h1] at a
      have b := qc_tFlush s1; rw [h2] at b
      exact a.trans b
    · intro s1 s2 h1 h2
      have a := qc_tReady s; rw [h1] at a
      have b := qc_tFlush s1; rw [h2] at b
      exact (a.trans b).trans (ih s2)

theorem qc_ensureWriteable (s : St) : QCq s (ensureWriteable s).1 := by
  unfold ensureWriteable; split
  · exact qc_ensureLoop _ _
  · exact qc_ensureOnce _

theorem qc_pqRecv_noItem (s : St) (h : ∀ r, (pqRecv s).2 ≠ .item r) : QCq s (pqRecv s).1 := by
  unfold pqRecv at h ⊢
  cases hq : s.pq with
  | cons r rest => rw [hq] at h; exact absurd rfl (h r)
  | nil =>
    simp only
    split
    · exact QCq.refl _
    · split
      · exact QCq.refl _
      · exact QCq.of_calls rfl rfl rfl hq.symm rfl rfl rfl

theorem qc_cqRecv_noItem (s : St) (h : ∀ r, (cqRecv s).2 ≠ .item r) : QCq s (cqRecv s).1 := by
  unfold cqRecv at h ⊢
  cases hq : s.cq with
  | cons r rest => rw [hq] at h; exact absurd rfl (h r)
  | nil =>
    simp only
    split
    · exact QCq.refl _
    · exact QCq.of_calls rfl rfl hq.symm rfl rfl rfl rfl

/-! ### the invariant -/

/-- `D`: the call (if any) whose guard has queued its cancellation and whose future is about to go away. -/
structure CqI (D : Option Nat) (s : St) : Prop where
  /-- a dropped dispatch tracks nothing -/
  dd : s.dDropped = true → s.inflight = [] ∧ s.pq = []
  /-- an entry's id is in the cancellation queue, or its call is waiting for it (sender alive) -/
  ent : ∀ e ∈ s.inflight, e.id ∈ s.cq ∨ ((∃ rx, (e.cid, Phase.awaiting, false, rx) ∈ cores s) ∧ D ≠ some e.cid)
  /-- the sender of a queued request has not been dropped -/
  pqTx : ∀ r ∈ s.pq, ∀ ph rx, (r.cid, ph, true, rx) ∉ cores s
  npTx : ∀ cid rx, (cid, Phase.notPolled, true, rx) ∉ cores s
  /-- a call waiting for a permit whose sender is gone (inside `dropCall` only) has left the wait queue -/
  rsTx : ∀ cid rx, (cid, Phase.reserving, true, rx) ∈ cores s → cid ∉ s.pqWaiters ∧ cid ∉ s.pqAssigned
  /-- the marked call has closed its receiver -/
  dcl : ∀ cid, D = some cid → ∀ ph tx, (cid, ph, tx, false) ∉ cores s

theorem CqI.qc {D : Option Nat} {s s' : St} (h : CqI D s) (q : QCq s s') : CqI D s' := by
  refine ⟨?_, ?_, ?_, ?_, ?_, ?_⟩
  · rw [q.dDropped, q.inflight, q.pq]; exact h.dd
  · rw [q.inflight, q.cq, q.cs]; exact h.ent
  · rw [q.pq, q.cs]; exact h.pqTx
  · rw [q.cs]; exact h.npTx
  · rw [q.cs, q.pqWaiters, q.pqAssigned]; exact h.rsTx
  · rw [q.cs]; exact h.dcl

/-- Entries / queued requests / waiters only go away (an entry may be re-keyed): the invariant survives. -/
theorem CqI.shrink {D : Option Nat} {s s' : St} (h : CqI D s) (hc : cores s' = cores s) (hd : s'.dDropped = s.dDropped)
    (hinf : ∀ e' ∈ s'.inflight, ∃ e ∈ s.inflight, e.id = e'.id ∧ e.cid = e'.cid)
    (hcq : s'.cq = s.cq) (hpq : ∀ r ∈ s'.pq, r ∈ s.pq)
    (hw : ∀ w ∈ s'.pqWaiters, w ∈ s.pqWaiters) (ha : ∀ w ∈ s'.pqAssigned, w ∈ s.pqAssigned) : CqI D s' := by
  refine ⟨?_, ?_, ?_, ?_, ?_, ?_⟩
  · intro hdd
    rw [hd] at hdd
    obtain ⟨h1, h2⟩ := h.dd hdd
    constructor
    · cases hi : s'.inflight with
      | nil => rfl
      | cons e l =>
        obtain ⟨e0, he0, -⟩ := hinf e (by rw [hi]; exact List.mem_cons_self)
        rw [h1] at he0; cases he0
    · cases hi : s'.pq with
      | nil => rfl
      | cons r l =>
        have := hpq r (by rw [hi]; exact List.mem_cons_self)
        rw [h2] at this; cases this
  · intro e' he'
    obtain ⟨e, he, h1, h2⟩ := hinf e' he'
    rw [hcq, hc, ← h1, ← h2]
    exact h.ent e he
  · intro r hr; rw [hc]; exact h.pqTx r (hpq r hr)
  · rw [hc]; exact h.npTx
  · intro cid rx hm
    rw [hc] at hm
    obtain ⟨a, b⟩ := h.rsTx cid rx hm
    exact ⟨fun hw' => a (hw cid hw'), fun ha' => b (ha cid ha')⟩
  · rw [hc]; exact h.dcl

/-! ### the queues -/

theorem cores_wakeCall (s : St) (cid : Nat) : cores (wakeCall s cid) = cores s := (qc_wakeCall s cid).cs

theorem cores_pqRelease (s : St) : cores (pqRelease s) = cores s := by
  unfold pqRelease; split
  · rw [cores_wakeCall]; rfl
  · rfl

@[simp] theorem pqRelease_dDropped (s : St) : (pqRelease s).dDropped = s.dDropped := by
  unfold pqRelease; split
  · rw [wakeCall_dDropped]
  · rfl

theorem CqI.pqRelease {D : Option Nat} {s : St} (h : CqI D s) : CqI D (pqRelease s) := by
  unfold Client.pqRelease
  cases hw : s.pqWaiters with
  | nil => exact h.qc (QCq.of_calls rfl rfl rfl rfl hw.symm rfl rfl)
  | cons w rest =>
    simp only
    refine CqI.qc ?_ (qc_wakeCall _ _)
    refine ⟨h.dd, h.ent, h.pqTx, h.npTx, ?_, h.dcl⟩
    intro cid rx hm
    obtain ⟨a, b⟩ := h.rsTx cid rx hm
    rw [hw] at a
    simp only [List.mem_cons, not_or] at a
    exact ⟨a.2, by simp only [List.mem_append, List.mem_singleton, not_or]; exact ⟨b, a.1⟩⟩

/-- requests leave the queue -/
theorem CqI.setPq {D : Option Nat} {s : St} (h : CqI D s) (l : List DReq) (hl : ∀ r ∈ l, r ∈ s.pq) :
    CqI D { s with pq := l } :=
  h.shrink rfl rfl (fun e he => ⟨e, he, rfl, rfl⟩) rfl hl (fun _ hw => hw) (fun _ ha => ha)

theorem cqi_pqRecv {D : Option Nat} {s : St} (h : CqI D s) : CqI D (pqRecv s).1 := by
  rcases pqRecv_cases s with ⟨r, rest, hpq, heq⟩ | ⟨_, _, hne⟩
  · rw [heq]
    exact (h.setPq rest (fun x hx => by rw [hpq]; exact List.mem_cons_of_mem _ hx)).pqRelease
  · exact h.qc (qc_pqRecv_noItem s hne)

theorem cqi_nextRequestLoop {D : Option Nat} (fuel : Nat) {s : St} (h : CqI D s) :
    CqI D (nextRequestLoop fuel s).1 ∧
    ∀ r, (nextRequestLoop fuel s).2 = .some r →
      (∀ ph rx, (r.cid, ph, true, rx) ∉ cores (nextRequestLoop fuel s).1) ∧
      (nextRequestLoop fuel s).1.dDropped = false := by
  induction fuel generalizing s with
  | zero => exact ⟨h, fun r hr => by simp [nextRequestLoop] at hr⟩
  | succ fuel ih =>
    unfold nextRequestLoop
    rcases pqRecv_cases s with ⟨r, rest, hpq, heq⟩ | ⟨_, _, hne⟩
    · have h1 : CqI D (pqRelease { s with pq := rest }) :=
        (h.setPq rest (fun x hx => by rw [hpq]; exact List.mem_cons_of_mem _ hx)).pqRelease
      rw [heq]
      simp only
      split
      · exact ih h1
      · refine ⟨h1, fun r' hr' => ?_⟩
        injection hr' with hr'; subst hr'
        refine ⟨fun ph rx => ?_, ?_⟩
        · rw [cores_pqRelease]
          exact h.pqTx r (by rw [hpq]; exact List.mem_cons_self) ph rx
        · rw [pqRelease_dDropped]
          cases hd : s.dDropped with
          | false => rfl
          | true => have := (h.dd hd).2; rw [hpq] at this; cases this
    · have hq := h.qc (qc_pqRecv_noItem s hne)
      rcases hr : pqRecv s with ⟨s1, res⟩
      rw [hr] at hq hne
      cases res with
      | pending => exact ⟨hq, fun r h => by cases h⟩
      | closed => exact ⟨hq, fun r h => by cases h⟩
      | item r => exact absurd rfl (hne r)

theorem cqi_pollNextRequest {D : Option Nat} {s : St} (h : CqI D s) :
    CqI D (pollNextRequest s).1 ∧
    ∀ r, (pollNextRequest s).2 = .some r →
      (∀ ph rx, (r.cid, ph, true, rx) ∉ cores (pollNextRequest s).1) ∧ (pollNextRequest s).1.dDropped = false := by
  refine Flow.pollNextRequest_cases (motive := fun p => CqI D p.1 ∧ ∀ r, p.2 = .some r →
      (∀ ph rx, (r.cid, ph, true, rx) ∉ cores p.1) ∧ p.1.dDropped = false) s ?_ ?_ ?_
  · intro _; exact ⟨h, fun r hr => by cases hr⟩
  · intro s1 e _ he hne
    have := h.qc (qc_ensureWriteable s); rw [he] at this
    exact ⟨this, fun r hr => by cases e <;> simp [EW.toPW] at hr hne⟩
  · intro s1 _ he
    have := h.qc (qc_ensureWriteable s); rw [he] at this
    exact cqi_nextRequestLoop _ this

/-! ### the in-flight table -/

/-- entries leave the table (or are re-keyed) -/
theorem CqI.setInflight {D : Option Nat} {s : St} (h : CqI D s) (l : List Entry) (q : DelayQ)
    (hl : ∀ e' ∈ l, ∃ e ∈ s.inflight, e.id = e'.id ∧ e.cid = e'.cid) :
    CqI D { s with inflight := l, timers := q } :=
  h.shrink rfl rfl hl rfl (fun _ hr => hr) (fun _ hw => hw) (fun _ ha => ha)

theorem cqi_completeRequest {D : Option Nat} {s : St} (h : CqI D s) (id : Nat) (o : Outcome) :
    CqI D (completeRequest s id o).1 := by
  unfold completeRequest
  split
  · exact h
  · simp only
    refine CqI.qc ?_ ((qc_osSend _ _ _).after (qc_removeTimer _ _))
    exact h.setInflight _ s.timers (fun e' he' => ⟨e', (List.mem_filter.mp he').1, rfl, rfl⟩)

/-- a cancellation is taken off the queue and the entry it names (if any) leaves the table -/
theorem CqI.cqPop {D : Option Nat} {s : St} (h : CqI D s) {i : Nat} {rest : List Nat} (hcq : s.cq = i :: rest)
    (l : List Entry) (hl : ∀ e' ∈ l, e' ∈ s.inflight ∧ e'.id ≠ i) :
    CqI D { s with cq := rest, inflight := l } := by
  refine ⟨?_, ?_, h.pqTx, h.npTx, h.rsTx, h.dcl⟩
  · intro hd
    obtain ⟨h1, h2⟩ := h.dd hd
    refine ⟨?_, h2⟩
    cases hl' : l with
    | nil => rfl
    | cons e l' =>
      have := (hl e (by rw [hl']; exact List.mem_cons_self)).1
      rw [h1] at this; cases this
  · intro e he
    obtain ⟨hm, hne⟩ := hl e he
    rcases h.ent e hm with hc | hc
    · left
      rw [hcq] at hc
      rcases List.mem_cons.mp hc with hc | hc
      · exact absurd hc hne
      · exact hc
    · exact Or.inr hc

theorem cqi_nextCancelLoop {D : Option Nat} (fuel : Nat) {s : St} (h : CqI D s) :
    CqI D (nextCancelLoop fuel s).1 := by
  induction fuel generalizing s with
  | zero => exact h
  | succ fuel ih =>
    unfold nextCancelLoop
    rcases cqRecv_cases s with ⟨i, rest, hcq, heq⟩ | ⟨_, _, hne⟩
    · rw [heq]
      simp only
      unfold cancelRequest
      cases hf : findEntry { s with cq := rest } i with
      | none =>
        simp only
        refine ih (h.cqPop hcq s.inflight (fun e' he' => ⟨he', ?_⟩))
        exact findEntry_none (s := { s with cq := rest }) hf e' he'
      | some e =>
        simp only
        refine CqI.qc ?_ (qc_removeTimer _ _)
        refine h.cqPop hcq _ (fun e' he' => ?_)
        have := List.mem_filter.mp he'
        exact ⟨this.1, by simpa using this.2⟩
    · have hq := h.qc (qc_cqRecv_noItem s hne)
      rcases hr : cqRecv s with ⟨s1, res⟩
      rw [hr] at hq hne
      cases res with
      | pending => exact hq
      | closed => exact hq
      | item r => exact absurd rfl (hne r)

theorem cqi_pollNextCancellation {D : Option Nat} {s : St} (h : CqI D s) : CqI D (pollNextCancellation s).1 := by
  refine Flow.pollNextCancellation_cases (motive := fun p => CqI D p.1) s ?_ ?_
  · intro s1 e he _
    have := h.qc (qc_ensureWriteable s); rw [he] at this; exact this
  · intro s1 he
    have := h.qc (qc_ensureWriteable s); rw [he] at this
    exact cqi_nextCancelLoop _ this

theorem cqi_pollWriteCancel {D : Option Nat} {s : St} (h : CqI D s) : CqI D (pollWriteCancel s).1 := by
  have h1 := cqi_pollNextCancellation h
  refine Flow.pollWriteCancel_cases (motive := fun p => CqI D p.1) s ?_ ?_ ?_
  · intro s1 r hr _; rw [hr] at h1; exact h1
  · intro s1 e s2 hr hs
    rw [hr] at h1
    have := h1.qc (qc_tSend s1 (.cancel e.id e.ctx.trace)); rw [hs] at this; exact this
  · intro s1 e s2 hr hs
    rw [hr] at h1
    have := h1.qc (qc_tSend s1 (.cancel e.id e.ctx.trace)); rw [hs] at this; exact this

/-! ### calls and their cores -/

theorem mem_cores_of_mem {s : St} {c : Call} (h : c ∈ s.calls) : ccore c ∈ cores s := List.mem_map_of_mem h

theorem mem_cores_of_getCall {s : St} {cid : Nat} {c : Call} (h : getCall s cid = some c) : ccore c ∈ cores s :=
  mem_cores_of_mem (List.mem_of_find?_eq_some h)

theorem mem_cores {s : St} {y : Nat × Phase × Bool × Bool} (h : y ∈ cores s) : ∃ c ∈ s.calls, ccore c = y :=
  List.mem_map.mp h

/-- under `Inv` the call ids are pairwise distinct: a call in the list is the one `getCall` finds -/
theorem getCall_of_mem_inv {x : Option Nat} {s : St} (hi : Inv x (view s)) {c : Call} (hc : c ∈ s.calls) :
    getCall s c.cid = some c := by
  have hnd : (s.calls.map (·.cid)).Nodup := by
    have := hi.cids
    simp only [view, List.map_map, List.length_map] at this
    have e : s.calls.map (·.cid) = s.calls.map ((fun c : CallV => c.cid) ∘ Call.v) := rfl
    rw [e, this]; exact List.nodup_range
  unfold getCall
  generalize s.calls = l at hc hnd
  induction l with
  | nil => cases hc
  | cons a l ih =>
    simp only [List.find?_cons]
    simp only [List.map_cons, List.nodup_cons] at hnd
    rcases List.mem_cons.mp hc with rfl | hc'
    · simp
    · have : ¬ (a.cid == c.cid) = true := by
        intro e
        simp only [beq_iff_eq] at e
        exact hnd.1 (e ▸ List.mem_map_of_mem hc')
      simp only [this]
      exact ih hc' hnd.2

/-- … so a core in the list is the core of the call `getCall` finds -/
theorem getCall_of_core {x : Option Nat} {s : St} (hi : Inv x (view s)) {cid : Nat} {ph : Phase} {tx rx : Bool}
    (h : (cid, ph, tx, rx) ∈ cores s) :
    ∃ c, getCall s cid = some c ∧ c.phase = ph ∧ c.os.txDropped = tx ∧ c.os.rxClosed = rx := by
  obtain ⟨c, hc, he⟩ := mem_cores h
  simp only [ccore, Prod.mk.injEq] at he
  obtain ⟨e1, e2, e3, e4⟩ := he
  exact ⟨c, e1 ▸ getCall_of_mem_inv hi hc, e2, e3, e4⟩

/-! ### `poll_write_request` -/

theorem insertRequest_shape {s s' : St} {now : Nat} {r : DReq} (h : insertRequest s now r = some s') :
    QCq s s' ∨
    ∃ e : Entry, e.id = r.id ∧ e.cid = r.cid ∧ s'.inflight = s.inflight ++ [e] ∧ cores s' = cores s ∧ s'.cq = s.cq ∧
      s'.pq = s.pq ∧ s'.pqWaiters = s.pqWaiters ∧ s'.pqAssigned = s.pqAssigned ∧ s'.dDropped = s.dDropped := by
  unfold insertRequest at h
  split at h
  · injection h with h; subst h
    exact Or.inl ((qc_emit _ _).after (QCq.of_calls rfl rfl rfl rfl rfl rfl rfl))
  · split at h
    · injection h with h; subst h
      exact Or.inl ((qc_emit _ _).after (QCq.of_calls rfl rfl rfl rfl rfl rfl rfl))
    · rename_i q key w hq
      injection h with h; subst h
      right
      cases w with
      | false =>
        refine Exists.intro ?E ⟨?h1, ?h2, ?h3, ?h4⟩
        case h3 => rfl
        case h1 => rfl
        case h2 => rfl
        case h4 => exact ⟨rfl, rfl, rfl, rfl, rfl, rfl⟩
      | true =>
        simp only [↓reduceIte]
        refine Exists.intro ?E ⟨?h1, ?h2, ?h3, ?h4⟩
        case h3 => rw [wakeDispatch_inflight]
        case h1 => rfl
        case h2 => rfl
        case h4 => exact ⟨(qc_wakeDispatch _).cs, by simp, by simp, by simp, by simp, by simp⟩

theorem cqi_insertRequest {D : Option Nat} {s s' : St} {now : Nat} {r : DReq} (h : CqI D s)
    (hins : insertRequest s now r = some s') (hd : s.dDropped = false)
    (hr : (∃ rx, (r.cid, Phase.awaiting, false, rx) ∈ cores s) ∧ D ≠ some r.cid) : CqI D s' := by
  rcases insertRequest_shape hins with q | ⟨e, e1, e2, hinf, hc, hcq, hpq, hw, ha, hdd⟩
  · exact h.qc q
  · refine ⟨?_, ?_, ?_, ?_, ?_, ?_⟩
    · intro hd'; rw [hdd, hd] at hd'; cases hd'
    · intro e' he'
      rw [hinf] at he'
      rw [hcq, hc]
      rcases List.mem_append.mp he' with he' | he'
      · exact h.ent e' he'
      · simp only [List.mem_singleton] at he'
        subst he'
        right; rw [e2]; exact hr
    · rw [hpq, hc]; exact h.pqTx
    · rw [hc]; exact h.npTx
    · rw [hc, hw, ha]; exact h.rsTx
    · rw [hc]; exact h.dcl

theorem cqi_pollWriteRequest {D : Option Nat} {s : St} (hi : Inv none (view s)) (h : CqI D s) (now : Nat) :
    CqI D (pollWriteRequest s now).1 := by
  have h1 := cqi_pollNextRequest h
  have i1 := pollNextRequest_pres Inv.presD hi
  -- what is known about a request handed out by `poll_next_request`
  have key : ∀ s1 r, pollNextRequest s = (s1, .some r) →
      s1.dDropped = false ∧ (∃ rx, (r.cid, Phase.awaiting, false, rx) ∈ cores s1) ∧ D ≠ some r.cid := by
    intro s1 r hp
    rw [hp] at h1 i1
    obtain ⟨hq, hk⟩ := h1
    obtain ⟨htx, hdd⟩ := hk r rfl
    obtain ⟨⟨v1, rest, hv1, hv1pq, hv⟩, hcl⟩ := i1.2.1 r rfl
    simp only at hv hcl htx hdd hq
    -- the receiver is open
    unfold osIsClosed at hcl
    cases hg : getCall s1 r.cid with
    | none => simp [hg] at hcl
    | some c =>
      rw [hg] at hcl
      simp only at hcl
      -- hence the call is awaiting
      obtain ⟨cv, hcv, _, _, _, _, _, _, haw⟩ := hv1.pq r (by rw [hv1pq]; exact List.mem_cons_self)
      have hget : (view s1).get r.cid = some c.v := view_getCall_some hg
      have hget' : v1.get r.cid = some c.v := by
        have : (view s1).get r.cid = v1.get r.cid := by rw [hv]; rfl
        rw [← this]; exact hget
      rw [hget'] at hcv; injection hcv with hcv; subst hcv
      have hph : c.phase = .awaiting := haw hcl
      have hcid := getCall_cid hg
      have hm := mem_cores_of_getCall hg
      have htx' : c.os.txDropped = false := by
        cases ht : c.os.txDropped with
        | false => rfl
        | true =>
          exfalso
          refine htx c.phase c.os.rxClosed ?_
          have : ccore c = (r.cid, c.phase, true, c.os.rxClosed) := by simp [ccore, hcid, ht]
          rw [← this]; exact hm
      have hcore : ccore c = (r.cid, Phase.awaiting, false, false) := by simp [ccore, hcid, hph, htx', hcl]
      rw [hcore] at hm
      refine ⟨hdd, ⟨false, hm⟩, ?_⟩
      intro hD
      exact hq.dcl r.cid hD _ _ hm
  refine Flow.pollWriteRequest_cases (motive := fun p => CqI D p.1) s now ?_ ?_ ?_ ?_
  · intro s1 r hp _; rw [hp] at h1; exact h1.1
  · intro s1 r s2 hp hins _
    obtain ⟨k1, k2⟩ := key s1 r hp
    rw [hp] at h1
    exact cqi_insertRequest h1.1 hins k1 k2
  · intro s1 r s2 s3 hp hins _ hs
    obtain ⟨k1, k2⟩ := key s1 r hp
    rw [hp] at h1
    have := (cqi_insertRequest h1.1 hins k1 k2).qc (qc_tSend s2 (.request r.id r.ctx.deadline r.ctx.trace r.body))
    rw [hs] at this; exact this
  · intro s1 r s2 s3 hp hins _ hs
    obtain ⟨k1, k2⟩ := key s1 r hp
    rw [hp] at h1
    have := (cqi_insertRequest h1.1 hins k1 k2).qc (qc_tSend s2 (.request r.id r.ctx.deadline r.ctx.trace r.body))
    rw [hs] at this
    exact cqi_completeRequest this _ _

/-! ### expiry -/

theorem cqi_rearmWith {D : Option Nat} {s : St} (h : CqI D s) (id t due : Nat) (r : DelayQ × DelayQ.InsertRes × Bool) :
    CqI D (rearmWith s id t due r).st := by
  rcases rearmWith_cases s id t due r with ⟨q', w, _, he⟩ | ⟨q', key, w, _, he⟩
  · rw [he]
    exact h.qc ((qc_emit _ _).after (QCq.of_calls rfl rfl rfl rfl rfl rfl rfl))
  · rw [he]
    have h1 : CqI D { s with timers := q', inflight := s.inflight.map (rearmEntry id key t due) } := by
      have := h.setInflight (s.inflight.map (rearmEntry id key t due)) q' (fun e' he' => by
        obtain ⟨e, he, rfl⟩ := List.mem_map.mp he'
        refine ⟨e, he, ?_, ?_⟩ <;> (unfold rearmEntry; split <;> rfl))
      exact this
    show CqI D (if w = true then _ else _)
    split
    · exact h1.qc (qc_wakeDispatch _)
    · exact h1

theorem cqi_expireWith {D : Option Nat} {s : St} (h : CqI D s) (now : Nat) (r : DelayQ × DelayQ.PollRes) :
    CqI D (expireWith s now r).st := by
  unfold expireWith; split
  · split
    · split
      · exact cqi_rearmWith h _ _ _ _
      · show CqI D (osSend _ _ _)
        refine CqI.qc ?_ (qc_osSend _ _ _)
        exact h.setInflight _ _ (fun e' he' => ⟨e', (List.mem_filter.mp he').1, rfl, rfl⟩)
    · exact h.qc (QCq.of_calls rfl rfl rfl rfl rfl rfl rfl)
  · exact h.qc (QCq.of_calls rfl rfl rfl rfl rfl rfl rfl)

theorem cqi_pollExpiredLoop {D : Option Nat} (fuel : Nat) {s : St} (h : CqI D s) (now : Nat) :
    CqI D (pollExpiredLoop fuel s now).1 := by
  induction fuel generalizing s with
  | zero => exact h
  | succ fuel ih =>
    have h1 : CqI D (expireStep s now).st := cqi_expireWith h now _
    unfold pollExpiredLoop; split <;> rename_i heq <;> rw [heq] at h1
    · exact ih h1
    · exact h1

theorem cqi_pollExpired {D : Option Nat} {s : St} (h : CqI D s) (now : Nat) : CqI D (pollExpired s now).1 :=
  cqi_pollExpiredLoop _ h now

/-! ### the pumps -/

theorem cqi_pumpWrite {D : Option Nat} {s : St} (hi : Inv none (view s)) (h : CqI D s) (now : Nat) :
    CqI D (pumpWrite s now).1 := by
  have h1 := cqi_pollWriteRequest hi h now
  refine Flow.pumpWrite_cases (motive := fun p => CqI D p.1) s now ?_ ?_ ?_ ?_ ?_ ?_
  · intro s1 r1 e1 _; rw [e1] at h1; exact h1
  · intro s1 r1 s2 r2 e1 _ e2 _
    rw [e1] at h1
    have h2 := cqi_pollWriteCancel h1; rw [e2] at h2; exact h2
  · intro s1 r1 s2 r2 s3 e1 _ e2 _ e3
    rw [e1] at h1
    have h2 := cqi_pollWriteCancel h1; rw [e2] at h2
    have h3 := cqi_pollExpired h2 now; rw [e3] at h3; exact h3
  · intro s1 r1 s2 r2 s3 e1 _ e2 _ e3 _
    rw [e1] at h1
    have h2 := cqi_pollWriteCancel h1; rw [e2] at h2
    have h3 := cqi_pollExpired h2 now; rw [e3] at h3; exact h3
  · intro s1 s2 s3 s4 r4 e1 e2 e3 e4
    rw [e1] at h1
    have h2 := cqi_pollWriteCancel h1; rw [e2] at h2
    have h3 := cqi_pollExpired h2 now; rw [e3] at h3
    have h4 := h3.qc (qc_tClose s3); rw [e4] at h4; exact h4
  · intro s1 r1 s2 r2 s3 s4 r4 e1 _ e2 _ _ e3 e4
    rw [e1] at h1
    have h2 := cqi_pollWriteCancel h1; rw [e2] at h2
    have h3 := cqi_pollExpired h2 now; rw [e3] at h3
    have h4 := h3.qc (qc_tFlush s3); rw [e4] at h4; exact h4

theorem cqi_pumpRead {D : Option Nat} {s : St} (h : CqI D s) : CqI D (pumpRead s).1 := by
  have h1 := h.qc (qc_tNext s)
  refine Flow.pumpRead_cases (motive := fun p => CqI D p.1) s ?_ ?_ ?_ ?_ ?_
  · intro s1 e1; rw [e1] at h1; exact h1
  · intro s1 e1; rw [e1] at h1; exact h1
  · intro s1 e1; rw [e1] at h1; exact h1
  · intro s1 id res e1; rw [e1] at h1; exact cqi_completeRequest h1 _ _
  · intro s1 m e1 _; rw [e1] at h1; exact h1

theorem cqi_run {D : Option Nat} (fuel : Nat) {s : St} (hi : Inv none (view s)) (h : CqI D s) (now : Nat) :
    CqI D (run fuel s now).1 := by
  induction fuel generalizing s with
  | zero => rw [Flow.run_zero]; exact h.qc (qc_emit _ _)
  | succ fuel ih =>
    have i1 := pumpRead_pres Inv.presD hi
    have h1 := cqi_pumpRead h
    have step : ∀ s1 rd s2 wr, pumpRead s = (s1, rd) → pumpWrite s1 now = (s2, wr) →
        Inv none (view s2) ∧ CqI D s2 := by
      intro s1 rd s2 wr e1 e2
      rw [e1] at i1 h1
      have i2 := pumpWrite_pres Inv.presD i1 now
      have h2 := cqi_pumpWrite i1 h1 now
      rw [e2] at i2 h2
      exact ⟨i2.1, h2⟩
    refine Flow.run_cases (motive := fun p => CqI D p.1) fuel s now ?_ ?_ ?_ ?_ ?_ ?_ ?_ ?_ ?_
    · intro s1 a e1; rw [e1] at h1; exact h1
    · intro s1 e1; rw [e1] at h1; exact h1
    · intro s1 rd s2 a e1 e2; exact (step _ _ _ _ e1 e2).2
    · intro s1 rd s2 e1 e2; exact (step _ _ _ _ e1 e2).2
    · intro s1 s2 wr e1 e2 _; exact (step _ _ _ _ e1 e2).2
    · intro s1 rd s2 e1 _ e2 _; exact (step _ _ _ _ e1 e2).2
    · intro s1 s2 e1 e2 _; exact (step _ _ _ _ e1 e2).2
    · intro s1 rd s2 wr e1 e2 _
      obtain ⟨a, b⟩ := step _ _ _ _ e1 e2
      exact ih a b
    · intro s1 s2 e1 e2; exact (step _ _ _ _ e1 e2).2

/-! ### shutdown -/

theorem cqi_failAll {D : Option Nat} {s : St} (h : CqI D s) (a : Activity) : CqI D (failAll s a) := by
  unfold failAll
  simp only
  refine CqI.qc ?_ (qc_foldl _ (fun s (e : Entry) => qc_osSend s e.cid _) _ _)
  exact h.setInflight [] _ (fun e' he' => by cases he')

theorem cqi_pqClose {D : Option Nat} {s : St} (h : CqI D s) : CqI D (pqClose s) := by
  unfold pqClose
  simp only
  refine CqI.qc ?_ (qc_foldl _ (fun s w => qc_wakeCall s w) _ _)
  exact h.shrink rfl rfl (fun e he => ⟨e, he, rfl, rfl⟩) rfl (fun _ hr => hr) (fun _ hw => by cases hw) (fun _ ha => ha)

theorem cqi_drainLoop {D : Option Nat} (fuel : Nat) {s : St} (h : CqI D s) (a : Activity) :
    CqI D (drainLoop fuel s a).1 := by
  induction fuel generalizing s with
  | zero => exact h
  | succ fuel ih =>
    unfold drainLoop
    have h1 := cqi_pqRecv h
    rcases hr : pqRecv s with ⟨s1, res⟩
    rw [hr] at h1
    cases res with
    | pending => exact h1
    | closed => exact h1
    | item r =>
      simp only
      split
      · exact ih h1
      · exact ih (h1.qc (qc_osSend _ _ _))

theorem cqi_shutDown {D : Option Nat} {s : St} (h : CqI D s) (a : Activity) : CqI D (shutDown s a).1 := by
  unfold shutDown
  simp only
  exact cqi_drainLoop _ (cqi_failAll (cqi_pqClose h) a) a

theorem cqi_pollDispatchCore {D : Option Nat} {s : St} (hi : Inv none (view s)) (h : CqI D s) (now : Nat) :
    CqI D (pollDispatchCore s now).1 := by
  have hr := cqi_run (runFuel s) hi h now
  refine Flow.pollDispatchCore_cases (motive := fun p => CqI D p.1) s now ?_ ?_ ?_ ?_ ?_
  · intro a s1 fin _ e1
    have := cqi_shutDown h a; rw [e1] at this; exact this
  · intro s1 _ e1; rw [e1] at hr; exact hr
  · intro s1 _ e1; rw [e1] at hr; exact hr
  · intro s1 _ e1; rw [e1] at hr
    exact hr.qc (QCq.of_calls rfl rfl rfl rfl rfl rfl rfl)
  · intro s1 a s2 fin _ e1 e2
    rw [e1] at hr
    have h1 : CqI D { s1 with termErr := some a } := hr.qc (QCq.of_calls rfl rfl rfl rfl rfl rfl rfl)
    have := cqi_shutDown h1 a; rw [e2] at this; exact this

theorem qc_keepFinish (obs0 : List Obs) (s : St) (r : Ret) : QCq s (Flow.keepFinish obs0 s r) := by
  unfold Flow.keepFinish
  split
  · exact QCq.of_calls rfl rfl rfl rfl rfl rfl rfl
  · split
    · exact QCq.refl _
    · exact (qc_emit _ _).after (qc_emit _ _)

theorem qc_keepDone (r : Ret) (s : St) : QCq s (Flow.keepDone r s) := by
  unfold Flow.keepDone
  split
  · exact QCq.refl _
  · exact QCq.of_calls rfl rfl rfl rfl rfl rfl rfl

theorem cqi_pollDispatchKeep {D : Option Nat} {s : St} (hi : Inv none (view s)) (h : CqI D s) (now : Nat) :
    CqI D (pollDispatchKeep s now) := by
  rw [Flow.pollDispatchKeep_eq]
  split
  · exact h.qc (qc_emit _ _)
  · have h0 : CqI D { s with dWoken := false } := h.qc (QCq.of_calls rfl rfl rfl rfl rfl rfl rfl)
    have h1 := cqi_pollDispatchCore (s := { s with dWoken := false }) hi h0 now
    exact h1.qc ((qc_keepDone _ _).after (qc_keepFinish _ _ _))

/-! ### the dispatch goes away -/

/-- what `osDropTx` does to the cores: at most the sender-dropped flag of call `x` is raised -/
theorem cores_osDropTx_sub (s : St) (x : Nat) :
    ∀ y ∈ cores (osDropTx s x), y ∈ cores s ∨ ∃ ph rx, y = (x, ph, true, rx) ∧ (x, ph, false, rx) ∈ cores s := by
  intro y hy
  unfold osDropTx at hy
  split at hy
  · exact Or.inl hy
  · split at hy
    · exact Or.inl hy
    · simp only at hy
      have key : ∀ y ∈ cores (updCall s x (fun c => { c with os := { c.os with txDropped := true, rxWaker := false } })),
          y ∈ cores s ∨ ∃ ph rx, y = (x, ph, true, rx) ∧ (x, ph, false, rx) ∈ cores s := by
        intro y hy
        simp only [cores, updCall, List.map_map, List.mem_map, Function.comp] at hy
        obtain ⟨c', hc', rfl⟩ := hy
        by_cases hx : c'.cid = x
        · have hb : (c'.cid == x) = true := by simpa using hx
          simp only [hb, ↓reduceIte]
          cases ht : c'.os.txDropped with
          | true =>
            left
            have : ccore { c' with os := { c'.os with txDropped := true, rxWaker := false } } = ccore c' := by
              simp [ccore, ht]
            rw [this]; exact mem_cores_of_mem hc'
          | false =>
            right
            refine ⟨c'.phase, c'.os.rxClosed, by simp [ccore, hx], ?_⟩
            have : ccore c' = (x, c'.phase, false, c'.os.rxClosed) := by simp [ccore, hx, ht]
            rw [← this]; exact mem_cores_of_mem hc'
        · have : (c'.cid == x) = false := by simpa using hx
          simp only [this, Bool.false_eq_true, ↓reduceIte]
          exact Or.inl (mem_cores_of_mem hc')
      split at hy
      · rw [cores_wakeCall] at hy; exact key y hy
      · exact key y hy

/-- no core of call `x` is in a phase before the enqueue -/
def NoEarly (s : St) (x : Nat) : Prop :=
  ∀ ph tx rx, (x, ph, tx, rx) ∈ cores s → ph ≠ Phase.notPolled ∧ ph ≠ Phase.reserving

theorem NoEarly.osDropTx {s : St} {y : Nat} (h : NoEarly s y) (x : Nat) : NoEarly (osDropTx s x) y := by
  intro ph tx rx hm
  rcases cores_osDropTx_sub s x _ hm with h1 | ⟨ph', rx', he, h1⟩
  · exact h ph tx rx h1
  · simp only [Prod.mk.injEq] at he
    obtain ⟨rfl, rfl, _, rfl⟩ := he
    exact h _ _ _ h1

/-- the clauses of `CqI` that talk about the calls only -/
structure TxI (D : Option Nat) (s : St) : Prop where
  npTx : ∀ cid rx, (cid, Phase.notPolled, true, rx) ∉ cores s
  rsTx : ∀ cid rx, (cid, Phase.reserving, true, rx) ∈ cores s → cid ∉ s.pqWaiters ∧ cid ∉ s.pqAssigned
  dcl : ∀ cid, D = some cid → ∀ ph tx, (cid, ph, tx, false) ∉ cores s

theorem CqI.txi {D : Option Nat} {s : St} (h : CqI D s) : TxI D s := ⟨h.npTx, h.rsTx, h.dcl⟩

theorem TxI.cqi {D : Option Nat} {s : St} (h : TxI D s) (h1 : s.inflight = []) (h2 : s.pq = []) : CqI D s :=
  ⟨fun _ => ⟨h1, h2⟩, fun e he => (by rw [h1] at he; cases he), fun r hr => (by rw [h2] at hr; cases hr),
   h.npTx, h.rsTx, h.dcl⟩

theorem TxI.osDropTx {D : Option Nat} {s : St} (h : TxI D s) {x : Nat} (hx : NoEarly s x) : TxI D (osDropTx s x) := by
  refine ⟨?_, ?_, ?_⟩
  · intro cid rx hm
    rcases cores_osDropTx_sub s x _ hm with h1 | ⟨ph', rx', he, h1⟩
    · exact h.npTx cid rx h1
    · simp only [Prod.mk.injEq] at he
      obtain ⟨rfl, rfl, _, rfl⟩ := he
      exact (hx _ _ _ h1).1 rfl
  · intro cid rx hm
    rw [osDropTx_pqWaiters, osDropTx_pqAssigned]
    rcases cores_osDropTx_sub s x _ hm with h1 | ⟨ph', rx', he, h1⟩
    · exact h.rsTx cid rx h1
    · simp only [Prod.mk.injEq] at he
      obtain ⟨rfl, rfl, _, rfl⟩ := he
      exact absurd rfl (hx _ _ _ h1).2
  · intro cid hD ph tx hm
    rcases cores_osDropTx_sub s x _ hm with h1 | ⟨ph', rx', he, h1⟩
    · exact h.dcl cid hD ph tx h1
    · simp only [Prod.mk.injEq] at he
      obtain ⟨rfl, rfl, _, rfl⟩ := he
      exact h.dcl _ hD _ _ h1

theorem TxI.foldl_osDropTx {D : Option Nat} {α : Type} (f : α → Nat) (l : List α) {s : St} (h : TxI D s)
    (hl : ∀ a ∈ l, NoEarly s (f a)) : TxI D (l.foldl (fun s a => Client.osDropTx s (f a)) s) := by
  induction l generalizing s with
  | nil => exact h
  | cons a l ih =>
    simp only [List.foldl_cons]
    refine ih (h.osDropTx (hl a List.mem_cons_self)) ?_
    intro b hb
    exact (hl b (List.mem_cons_of_mem _ hb)).osDropTx _

theorem foldl_osDropTx_fields {α : Type} (f : α → Nat) (l : List α) (s : St) :
    (l.foldl (fun s a => osDropTx s (f a)) s).inflight = s.inflight ∧
    (l.foldl (fun s a => osDropTx s (f a)) s).pq = s.pq ∧
    (l.foldl (fun s a => osDropTx s (f a)) s).pqWaiters = s.pqWaiters ∧
    (l.foldl (fun s a => osDropTx s (f a)) s).pqAssigned = s.pqAssigned := by
  induction l generalizing s with
  | nil => exact ⟨rfl, rfl, rfl, rfl⟩
  | cons a l ih =>
    simp only [List.foldl_cons]
    obtain ⟨a1, a2, a3, a4⟩ := ih (osDropTx s (f a))
    exact ⟨by rw [a1, osDropTx_inflight], by rw [a2, osDropTx_pq], by rw [a3, osDropTx_pqWaiters],
      by rw [a4, osDropTx_pqAssigned]⟩

/-- the call that owns a queued request / an entry has been enqueued -/
theorem noEarly_of_enq {x : Option Nat} {s : St} (hi : Inv x (view s)) {cid : Nat} {cv : CallV}
    (hg : (view s).get cid = some cv) (he : cv.enq) : NoEarly s cid := by
  intro ph tx rx hm
  obtain ⟨c, hc, h1, _, _⟩ := getCall_of_core hi hm
  have := view_getCall_some hc
  rw [hg] at this; injection this with this; subst this
  have hp : c.v.phase = c.phase := rfl
  unfold CallV.enq at he
  rw [hp, h1] at he
  constructor <;> (intro e; subst e; simp at he)

theorem NoEarly.of_cores {s s' : St} {y : Nat} (h : NoEarly s y) (hc : cores s' = cores s) : NoEarly s' y := by
  intro ph tx rx hm; rw [hc] at hm; exact h ph tx rx hm

theorem NoEarly.foldl_osDropTx {α : Type} (f : α → Nat) (l : List α) {s : St} {y : Nat} (h : NoEarly s y) :
    NoEarly (l.foldl (fun s a => Client.osDropTx s (f a)) s) y := by
  induction l generalizing s with
  | nil => exact h
  | cons a l ih => simp only [List.foldl_cons]; exact ih (h.osDropTx _)

theorem TxI.of_same {D : Option Nat} {s s' : St} (h : TxI D s) (hc : cores s' = cores s)
    (hw : ∀ w ∈ s'.pqWaiters, w ∈ s.pqWaiters) (ha : s'.pqAssigned = s.pqAssigned) : TxI D s' := by
  refine ⟨by rw [hc]; exact h.npTx, ?_, by rw [hc]; exact h.dcl⟩
  intro cid rx hm
  rw [hc] at hm
  obtain ⟨a, b⟩ := h.rsTx cid rx hm
  exact ⟨fun hw' => a (hw cid hw'), by rw [ha]; exact b⟩

/-- dropping the queued requests (with their oneshot senders) -/
def dropQ (s : St) : St :=
  s.pq.foldl (fun s r => osDropTx s r.cid) { s with pq := [], pqAvail := s.bufCap - s.pqAssigned.length }

/-- dropping the in-flight table (with the oneshot senders) -/
def dropI (s : St) : St :=
  s.inflight.foldl (fun s e => osDropTx s e.cid) { s with inflight := [], timers := {} }

theorem dropDispatch_stages (s : St) : dropDispatch s =
    if (s.dDropped || s.poisoned) = true then emit s .noop
    else { dropI (dropQ (pqClose { s with dDropped := true, dWoken := false })) with cq := [] } := by
  unfold dropDispatch dropQ dropI
  split <;> rfl

theorem cqi_dropDispatch {D : Option Nat} {s : St} (hi : Inv none (view s)) (h : CqI D s) : CqI D (dropDispatch s) := by
  rw [dropDispatch_stages]
  split
  · exact h.qc (qc_emit _ _)
  · -- the queue is closed
    have q2 : QCq { s with dDropped := true, dWoken := false, pqClosed := true, pqWaiters := [] }
        (pqClose { s with dDropped := true, dWoken := false }) := by
      unfold pqClose
      exact qc_foldl _ (fun s w => qc_wakeCall s w) _ _
    generalize pqClose { s with dDropped := true, dWoken := false } = s2 at q2
    have c2 : cores s2 = cores s := q2.cs
    have t2 : TxI D s2 := h.txi.of_same c2 (fun w hw => by rw [q2.pqWaiters] at hw; cases hw) q2.pqAssigned
    have ne : ∀ y, NoEarly s y → NoEarly s2 y := fun y hy => hy.of_cores c2
    have neq : ∀ r ∈ s.pq, NoEarly s r.cid := by
      intro r hr
      obtain ⟨cv, hg, he, _⟩ := hi.pq r hr
      exact noEarly_of_enq hi hg he
    have nei : ∀ e ∈ s.inflight, NoEarly s e.cid := by
      intro e he'
      obtain ⟨cv, hg, he, _⟩ := hi.inf e he'
      exact noEarly_of_enq hi hg he
    -- the queued requests are dropped
    have f3 := foldl_osDropTx_fields (fun r : DReq => r.cid) s2.pq
      { s2 with pq := [], pqAvail := s2.bufCap - s2.pqAssigned.length }
    have t3 : TxI D (dropQ s2) := by
      unfold dropQ
      refine TxI.foldl_osDropTx _ _ (t2.of_same rfl (fun _ hw => hw) rfl) ?_
      intro r hr
      rw [q2.pq] at hr
      exact (ne _ (neq r hr)).of_cores rfl
    have ne3 : ∀ y, NoEarly s y → NoEarly (dropQ s2) y := by
      intro y hy
      unfold dropQ
      exact NoEarly.foldl_osDropTx _ _ ((ne y hy).of_cores rfl)
    have i3 : (dropQ s2).inflight = s.inflight := by unfold dropQ; rw [f3.1]; exact q2.inflight
    have p3 : (dropQ s2).pq = [] := by unfold dropQ; rw [f3.2.1]
    generalize dropQ s2 = s3 at t3 ne3 i3 p3
    -- the table is dropped
    have f4 := foldl_osDropTx_fields (fun e : Entry => e.cid) s3.inflight { s3 with inflight := [], timers := {} }
    have t4 : TxI D (dropI s3) := by
      unfold dropI
      refine TxI.foldl_osDropTx _ _ (t3.of_same rfl (fun _ hw => hw) rfl) ?_
      intro e he
      rw [i3] at he
      exact (ne3 _ (nei e he)).of_cores rfl
    have i4 : (dropI s3).inflight = [] := by unfold dropI; rw [f4.1]
    have p4 : (dropI s3).pq = [] := by unfold dropI; rw [f4.2.1]; exact p3
    generalize dropI s3 = s4 at t4 i4 p4
    exact (t4.of_same rfl (fun _ hw => hw) rfl : TxI D { s4 with cq := [] }).cqi i4 p4

theorem cqi_pollDispatch {D : Option Nat} {s : St} (hi : Inv none (view s)) (h : CqI D s) (now : Nat) :
    CqI D (pollDispatch s now) := by
  rw [Flow.pollDispatch_eq]
  have h1 := cqi_pollDispatchKeep hi h now
  split
  · exact cqi_dropDispatch (pollDispatchKeep_pres Inv.presD hi now) h1
  · exact h1

/-! ### one call changes -/

/-- the call ids are pairwise distinct -/
def CUniq (s : St) : Prop := (s.calls.map (·.cid)).Nodup

theorem cuniq_of_inv {x : Option Nat} {s : St} (hi : Inv x (view s)) : CUniq s := by
  have := hi.cids
  simp only [view, List.map_map, List.length_map] at this
  have e : s.calls.map (·.cid) = s.calls.map ((fun c : CallV => c.cid) ∘ Call.v) := rfl
  unfold CUniq
  rw [e, this]; exact List.nodup_range

theorem cids_eq_cores (s : St) : s.calls.map (·.cid) = (cores s).map (·.1) := by
  simp [cores, ccore, List.map_map, Function.comp]

theorem CUniq.unique {s : St} (hu : CUniq s) {cid : Nat} {c : Call} (hg : getCall s cid = some c)
    {y : Nat × Phase × Bool × Bool} (hy : y ∈ cores s) (e : y.1 = cid) : y = ccore c := by
  obtain ⟨c', hc', rfl⟩ := mem_cores hy
  obtain ⟨hm, hcid⟩ := getCall_some hg
  have : c' = c := nodup_map_unique hu hc' hm (by simpa [ccore, hcid] using e)
  rw [this]

/-- `s'` differs from `s` in call `cid` at most (and in fields `CqI` does not read); the cancellation queue may
have grown. -/
structure CS (cid : Nat) (s s' : St) : Prop where
  oth1 : ∀ y ∈ cores s', y.1 ≠ cid → y ∈ cores s
  oth2 : ∀ y ∈ cores s, y.1 ≠ cid → y ∈ cores s'
  cids : s'.calls.map (·.cid) = s.calls.map (·.cid)
  inflight : s'.inflight = s.inflight
  cq : ∀ i ∈ s.cq, i ∈ s'.cq
  pq : s'.pq = s.pq
  pqWaiters : s'.pqWaiters = s.pqWaiters
  pqAssigned : s'.pqAssigned = s.pqAssigned
  dDropped : s'.dDropped = s.dDropped

theorem CS.refl (cid : Nat) (s : St) : CS cid s s :=
  ⟨fun _ h _ => h, fun _ h _ => h, rfl, rfl, fun _ h => h, rfl, rfl, rfl, rfl⟩

theorem CS.trans {cid : Nat} {a b c : St} (h1 : CS cid a b) (h2 : CS cid b c) : CS cid a c :=
  ⟨fun y hy hn => h1.oth1 y (h2.oth1 y hy hn) hn, fun y hy hn => h2.oth2 y (h1.oth2 y hy hn) hn,
   h2.cids.trans h1.cids, h2.inflight.trans h1.inflight, fun i hi => h2.cq i (h1.cq i hi), h2.pq.trans h1.pq,
   h2.pqWaiters.trans h1.pqWaiters, h2.pqAssigned.trans h1.pqAssigned, h2.dDropped.trans h1.dDropped⟩

theorem CS.after {cid : Nat} {a b c : St} (h2 : CS cid b c) (h1 : CS cid a b) : CS cid a c := h1.trans h2

theorem QCq.cs' {s s' : St} (q : QCq s s') (cid : Nat) : CS cid s s' :=
  ⟨fun y hy _ => q.cs ▸ hy, fun y hy _ => q.cs.symm ▸ hy, by rw [cids_eq_cores, cids_eq_cores, q.cs], q.inflight,
   fun i hi => q.cq.symm ▸ hi, q.pq, q.pqWaiters, q.pqAssigned, q.dDropped⟩

theorem CS.cuniq {cid : Nat} {s s' : St} (h : CS cid s s') (hu : CUniq s) : CUniq s' := by
  unfold CUniq; rw [h.cids]; exact hu

theorem cs_updCall (s : St) (cid : Nat) (f : Call → Call) (hf : ∀ c, (f c).cid = c.cid) : CS cid s (updCall s cid f) := by
  refine ⟨?_, ?_, ?_, rfl, fun _ h => h, rfl, rfl, rfl, rfl⟩
  · intro y hy hn
    simp only [cores, updCall, List.map_map, List.mem_map, Function.comp] at hy
    obtain ⟨c', hc', rfl⟩ := hy
    by_cases hx : c'.cid = cid
    · have hb : (c'.cid == cid) = true := by simpa using hx
      simp only [hb, ↓reduceIte] at hn
      exact absurd (by simp [ccore, hf, hx]) hn
    · have hb : (c'.cid == cid) = false := by simpa using hx
      simp only [hb, Bool.false_eq_true, ↓reduceIte]
      exact mem_cores_of_mem hc'
  · intro y hy hn
    obtain ⟨c', hc', rfl⟩ := mem_cores hy
    have hx : c'.cid ≠ cid := by simpa [ccore] using hn
    have hb : (c'.cid == cid) = false := by simpa using hx
    simp only [cores, updCall, List.map_map, List.mem_map, Function.comp]
    exact ⟨c', hc', by simp [hb]⟩
  · simp only [updCall, List.map_map]
    apply List.map_congr_left
    intro c' _
    simp only [Function.comp]
    split
    · exact hf c'
    · rfl

/-- the core of the updated call (the ids being distinct, there is one) -/
theorem core_updCall {s : St} (hu : CUniq s) {cid : Nat} {c : Call} (hg : getCall s cid = some c)
    (f : Call → Call) (hf : ∀ c, (f c).cid = c.cid) :
    ccore (f c) ∈ cores (updCall s cid f) ∧ ∀ y ∈ cores (updCall s cid f), y.1 = cid → y = ccore (f c) := by
  have hg' : getCall (updCall s cid f) cid = some (f c) := by rw [getCall_updCall_self _ _ _ hf, hg]; rfl
  exact ⟨mem_cores_of_getCall hg', fun y hy e => ((cs_updCall s cid f hf).cuniq hu).unique hg' hy e⟩

theorem cs_wakeCall (s : St) (x cid : Nat) : CS cid s (wakeCall s x) := (qc_wakeCall s x).cs' cid

theorem cs_osDropTx (s : St) (cid : Nat) : CS cid s (osDropTx s cid) := by
  unfold osDropTx
  split
  · exact CS.refl _ _
  · split
    · exact CS.refl _ _
    · simp only
      split
      · exact (cs_wakeCall _ _ _).after (cs_updCall s cid _ (fun _ => rfl))
      · exact cs_updCall s cid _ (fun _ => rfl)

theorem cs_cqPush (s : St) (cid id : Nat) : CS cid s (cqPush s id) := by
  unfold cqPush
  split
  · exact CS.refl _ _
  · simp only
    have h1 : CS cid s { s with cq := s.cq ++ [id] } :=
      ⟨fun _ h _ => h, fun _ h _ => h, rfl, rfl, fun i hi => List.mem_append_left _ hi, rfl, rfl, rfl, rfl⟩
    split
    · exact ((qc_wakeDispatch _).cs' cid).after
        (⟨fun _ h _ => h, fun _ h _ => h, rfl, rfl, fun i hi => List.mem_append_left _ hi, rfl, rfl, rfl, rfl⟩ :
          CS cid s { s with cq := s.cq ++ [id], cqRxWaker := false })
    · exact h1

theorem qc_afterCallGone (s : St) : QCq s (afterCallGone s) := by
  unfold afterCallGone
  split
  · simp only
    have h1 : QCq s (if s.pqRxWaker then wakeDispatch { s with pqRxWaker := false } else s) := by
      split
      · exact (qc_wakeDispatch _).after (QCq.of_calls rfl rfl rfl rfl rfl rfl rfl)
      · exact QCq.refl s
    generalize (if s.pqRxWaker then wakeDispatch { s with pqRxWaker := false } else s) = s1 at h1 ⊢
    split
    · exact h1.trans ((QCq.of_calls rfl rfl rfl rfl rfl rfl rfl : QCq s1 { s1 with cqRxWaker := false }).trans
        (qc_wakeDispatch _))
    · exact h1
  · exact QCq.refl s

theorem cs_resolve (s : St) (cid : Nat) (o : Outcome) (now : Nat) : CS cid s (resolve s cid o now) := by
  unfold resolve
  simp only
  exact (((qc_afterCallGone _).after (qc_emit _ _)).cs' cid).after (cs_updCall s cid _ (fun _ => rfl))

/-- every core of call `cid` after `resolve` is resolved, receiver closed -/
theorem resolve_cidcore (s : St) (cid : Nat) (o : Outcome) (now : Nat) :
    ∀ y ∈ cores (resolve s cid o now), y.1 = cid → y.2.1 = Phase.resolved ∧ y.2.2.2 = true := by
  intro y hy e
  unfold resolve at hy
  simp only at hy
  rw [((qc_afterCallGone _).after (qc_emit _ _)).cs] at hy
  simp only [cores, updCall, List.map_map, List.mem_map, Function.comp] at hy
  obtain ⟨c', hc', rfl⟩ := hy
  by_cases hx : c'.cid = cid
  · have hb : (c'.cid == cid) = true := by simpa using hx
    simp only [hb, ↓reduceIte]
    exact ⟨rfl, rfl⟩
  · have hb : (c'.cid == cid) = false := by simpa using hx
    simp only [hb, Bool.false_eq_true, ↓reduceIte] at e
    exact absurd (by simpa [ccore] using e) hx

/-- **One call changes.**  `s'` differs from `s` in call `cid` only; what the new cores of `cid` must satisfy. -/
theorem CqI.call_step {D D' : Option Nat} {s s' : St} (h : CqI D s) {cid : Nat} (hs : CS cid s s')
    (hD : D' = D ∨ D' = none)
    (hent : ∀ e ∈ s.inflight, e.cid = cid → e.id ∈ s'.cq ∨
      ((∃ rx, (cid, Phase.awaiting, false, rx) ∈ cores s') ∧ D' ≠ some cid))
    (hpqtx : ∀ r ∈ s.pq, r.cid = cid → ∀ ph rx, (cid, ph, true, rx) ∉ cores s')
    (hnp : ∀ rx, (cid, Phase.notPolled, true, rx) ∉ cores s')
    (hrs : ∀ rx, (cid, Phase.reserving, true, rx) ∈ cores s' → cid ∉ s.pqWaiters ∧ cid ∉ s.pqAssigned)
    (hdcl : D' = some cid → ∀ ph tx, (cid, ph, tx, false) ∉ cores s') : CqI D' s' := by
  have hDne : ∀ x, D ≠ some x → D' ≠ some x := by
    intro x hx; rcases hD with rfl | rfl
    · exact hx
    · simp
  refine ⟨?_, ?_, ?_, ?_, ?_, ?_⟩
  · rw [hs.dDropped, hs.inflight, hs.pq]; exact h.dd
  · intro e he
    rw [hs.inflight] at he
    by_cases hx : e.cid = cid
    · rw [hx]; exact hent e he hx
    · rcases h.ent e he with hc | ⟨⟨rx, hm⟩, hne⟩
      · exact Or.inl (hs.cq _ hc)
      · exact Or.inr ⟨⟨rx, hs.oth2 _ hm hx⟩, hDne _ hne⟩
  · intro r hr ph rx hm
    rw [hs.pq] at hr
    by_cases hx : r.cid = cid
    · rw [hx] at hm; exact hpqtx r hr hx ph rx hm
    · exact h.pqTx r hr ph rx (hs.oth1 _ hm hx)
  · intro x rx hm
    by_cases hx : x = cid
    · subst hx; exact hnp rx hm
    · exact h.npTx x rx (hs.oth1 _ hm hx)
  · intro x rx hm
    rw [hs.pqWaiters, hs.pqAssigned]
    by_cases hx : x = cid
    · subst hx; exact hrs rx hm
    · exact h.rsTx x rx (hs.oth1 _ hm hx)
  · intro x hx ph tx hm
    by_cases hc : x = cid
    · subst hc; exact hdcl hx ph tx hm
    · rcases hD with rfl | rfl
      · exact h.dcl x hx ph tx (hs.oth1 _ hm hc)
      · cases hx

/-- `CqI` together with the distinctness of the call ids -/
structure CqU (D : Option Nat) (s : St) : Prop where
  u : CUniq s
  q : CqI D s

theorem CqU.qc {D : Option Nat} {s s' : St} (h : CqU D s) (q : QCq s s') : CqU D s' :=
  ⟨(q.cs' 0).cuniq h.u, h.q.qc q⟩

/-- one call is updated in place -/
theorem cqu_updCall {D D' : Option Nat} {s : St} {cid : Nat} {c : Call} (h : CqU D s) (hg : getCall s cid = some c)
    (f : Call → Call) (hf : ∀ c, (f c).cid = c.cid) (hD : D' = D ∨ D' = none)
    (hent : ∀ e ∈ s.inflight, e.cid = cid → e.id ∉ s.cq →
      (f c).phase = .awaiting ∧ (f c).os.txDropped = false ∧ D' ≠ some cid)
    (hpqtx : ∀ r ∈ s.pq, r.cid = cid → (f c).os.txDropped = false)
    (hnp : (f c).phase = .notPolled → (f c).os.txDropped = false)
    (hrs : (f c).phase = .reserving → (f c).os.txDropped = true → cid ∉ s.pqWaiters ∧ cid ∉ s.pqAssigned)
    (hdcl : D' = some cid → (f c).os.rxClosed = true) : CqU D' (updCall s cid f) := by
  have hs := cs_updCall s cid f hf
  obtain ⟨hm, hu⟩ := core_updCall h.u hg f hf
  have hcid : (f c).cid = cid := by rw [hf]; exact getCall_cid hg
  refine ⟨hs.cuniq h.u, h.q.call_step hs hD ?_ ?_ ?_ ?_ ?_⟩
  · intro e he hx
    by_cases hc : e.id ∈ s.cq
    · exact Or.inl hc
    · obtain ⟨a, b, d⟩ := hent e he hx hc
      refine Or.inr ⟨⟨(f c).os.rxClosed, ?_⟩, d⟩
      have : ccore (f c) = (cid, Phase.awaiting, false, (f c).os.rxClosed) := by simp [ccore, hcid, a, b]
      rw [← this]; exact hm
  · intro r hr hx ph rx hy
    have := hu _ hy rfl
    simp only [ccore, Prod.mk.injEq] at this
    have := hpqtx r hr hx
    simp_all
  · intro rx hy
    have := hu _ hy rfl
    simp only [ccore, Prod.mk.injEq] at this
    have := hnp this.2.1.symm
    simp_all
  · intro rx hy
    have := hu _ hy rfl
    simp only [ccore, Prod.mk.injEq] at this
    exact hrs this.2.1.symm this.2.2.1.symm
  · intro hD' ph tx hy
    have := hu _ hy rfl
    simp only [ccore, Prod.mk.injEq] at this
    have := hdcl hD'
    simp_all

/-! ### the call future -/

theorem CUniq.getCall_of_core {s : St} (hu : CUniq s) {cid : Nat} {ph : Phase} {tx rx : Bool}
    (h : (cid, ph, tx, rx) ∈ cores s) :
    ∃ c, getCall s cid = some c ∧ c.phase = ph ∧ c.os.txDropped = tx ∧ c.os.rxClosed = rx := by
  obtain ⟨c, hc, he⟩ := mem_cores h
  simp only [ccore, Prod.mk.injEq] at he
  obtain ⟨e1, e2, e3, e4⟩ := he
  refine ⟨c, ?_, e2, e3, e4⟩
  cases hg : getCall s cid with
  | none => exact absurd e1 (getCall_none hg c hc)
  | some c' =>
    obtain ⟨hm, hcid⟩ := getCall_some hg
    rw [nodup_map_unique hu hc hm (by rw [e1, hcid])]

theorem getCall_of_calls {s s' : St} (h : s'.calls = s.calls) (cid : Nat) : getCall s' cid = getCall s cid := by
  unfold getCall; rw [h]

theorem getCall_updCall_some {s : St} {cid : Nat} {c : Call} (hg : getCall s cid = some c) (f : Call → Call)
    (hf : ∀ c, (f c).cid = c.cid) : getCall (updCall s cid f) cid = some (f c) := by
  rw [getCall_updCall_self _ _ _ hf, hg]; rfl

/-- the sender of a call with a queued request has not been dropped -/
theorem CqI.tx_false_of_pq {D : Option Nat} {s : St} (h : CqI D s) {cid : Nat} {c : Call} (hg : getCall s cid = some c)
    {r : DReq} (hr : r ∈ s.pq) (hx : r.cid = cid) : c.os.txDropped = false := by
  cases ht : c.os.txDropped with
  | false => rfl
  | true =>
    exfalso
    refine h.pqTx r hr c.phase c.os.rxClosed ?_
    have : ccore c = (r.cid, c.phase, true, c.os.rxClosed) := by simp [ccore, getCall_cid hg, hx, ht]
    rw [← this]; exact mem_cores_of_getCall hg

/-- an entry whose id is not in the cancellation queue belongs to a call that is awaiting it -/
theorem CqU.awaiting_of_ent {D : Option Nat} {s : St} (h : CqU D s) {cid : Nat} {c : Call} (hg : getCall s cid = some c)
    {e : Entry} (he : e ∈ s.inflight) (hx : e.cid = cid) (hn : e.id ∉ s.cq) :
    c.phase = .awaiting ∧ c.os.txDropped = false ∧ D ≠ some cid := by
  rcases h.q.ent e he with hc | ⟨⟨rx, hm⟩, hD⟩
  · exact absurd hc hn
  · rw [hx] at hm hD
    have := h.u.unique hg hm rfl
    simp only [ccore, Prod.mk.injEq] at this
    exact ⟨this.2.1.symm, this.2.2.1.symm, hD⟩

theorem cqu_resolve {D : Option Nat} {s : St} {cid : Nat} {c : Call} (h : CqU D s) (hg : getCall s cid = some c)
    (o : Outcome) (now : Nat) (hE : ∀ e ∈ s.inflight, e.cid = cid → e.id ∈ s.cq) : CqU D (resolve s cid o now) := by
  unfold resolve
  simp only
  refine CqU.qc ?_ ((qc_afterCallGone _).after (qc_emit _ _))
  refine cqu_updCall h hg _ (fun _ => rfl) (Or.inl rfl) ?_ ?_ ?_ ?_ ?_
  · intro e he hx hn; exact absurd (hE e he hx) hn
  · intro r hr hx; have := h.q.tx_false_of_pq hg hr hx; exact this
  · intro hp; cases hp
  · intro hp; cases hp
  · intro _; rfl

theorem cqu_pollOneshot {D : Option Nat} {s : St} {cid : Nat} {c : Call} (h : CqU D s) (hg : getCall s cid = some c)
    (now : Nat) (hval : ∀ e ∈ s.inflight, e.cid = cid → e.id ∉ s.cq → c.os.val = none) :
    CqU D (pollOneshot s cid now) := by
  unfold pollOneshot
  rw [hg]
  simp only
  cases hv : c.os.val with
  | some o =>
    simp only
    have q1 : QCq s (updCall s cid (fun c => { c with os := { c.os with val := none } })) :=
      qc_updCall s cid _ (fun _ => rfl)
    have hg1 : getCall (updCall s cid (fun c => { c with os := { c.os with val := none } })) cid
        = some { c with os := { c.os with val := none } } := getCall_updCall_some hg _ (fun _ => rfl)
    refine cqu_resolve (h.qc q1) hg1 o now ?_
    intro e he hx
    rw [q1.inflight] at he
    rw [q1.cq]
    by_cases hc : e.id ∈ s.cq
    · exact hc
    · have := hval e he hx hc; rw [hv] at this; cases this
  | none =>
    simp only
    split
    · rename_i ht
      refine cqu_resolve h hg _ now ?_
      intro e he hx
      by_cases hc : e.id ∈ s.cq
      · exact hc
      · have := (h.awaiting_of_ent hg he hx hc).2.1; rw [ht] at this; cases this
    · exact h.qc ((qc_emit _ _).after (qc_updCall s cid _ (fun _ => rfl)))

theorem cqu_failShutdown {D : Option Nat} {s : St} {cid : Nat} (h : CqU D s) (id now : Nat)
    (hne : ∀ e ∈ s.inflight, e.cid ≠ cid) (hnq : ∀ r ∈ s.pq, r.cid ≠ cid) : CqU D (failShutdown s cid id now) := by
  have hs : CS cid s (failShutdown s cid id now) := by
    unfold failShutdown
    simp only
    exact (cs_resolve _ _ _ _).after ((cs_cqPush _ _ _).after
      ((cs_updCall _ cid _ (fun _ => rfl) : CS cid (osDropTx s cid) (guardClose (osDropTx s cid) cid)).after
        (cs_osDropTx s cid)))
  have hc : ∀ y ∈ cores (failShutdown s cid id now), y.1 = cid → y.2.1 = Phase.resolved ∧ y.2.2.2 = true := by
    unfold failShutdown; simp only; exact resolve_cidcore _ _ _ _
  refine ⟨hs.cuniq h.u, h.q.call_step hs (Or.inl rfl) ?_ ?_ ?_ ?_ ?_⟩
  · intro e he hx; exact absurd hx (hne e he)
  · intro r hr hx; exact absurd hx (hnq r hr)
  · intro rx hy; have := (hc _ hy rfl).1; cases this
  · intro rx hy; have := (hc _ hy rfl).1; cases this
  · intro _ ph tx hy; have := (hc _ hy rfl).2; cases this

theorem pqPush_calls (s : St) (r : DReq) : (pqPush s r).calls = s.calls := by
  unfold pqPush; simp only; split
  · rw [wakeDispatch_calls]
  · rfl

theorem cqu_pqPush {D : Option Nat} {s : St} (h : CqU D s) (r : DReq) (hd : s.dDropped = false)
    (htx : ∀ ph rx, (r.cid, ph, true, rx) ∉ cores s) : CqU D (pqPush s r) := by
  have h1 : CqU D { s with pq := s.pq ++ [r] } := by
    refine ⟨h.u, ⟨fun hd' => (by rw [hd] at hd'; cases hd'), h.q.ent, ?_, h.q.npTx, h.q.rsTx, h.q.dcl⟩⟩
    intro r' hr'
    rcases List.mem_append.mp hr' with hr' | hr'
    · exact h.q.pqTx r' hr'
    · simp only [List.mem_singleton] at hr'; subst hr'; exact htx
  unfold pqPush
  simp only
  split
  · refine CqU.qc (CqU.qc h1 ?_) (qc_wakeDispatch _)
    exact QCq.of_calls rfl rfl rfl rfl rfl rfl rfl
  · exact h1

/-- `enqueue`: the call `cid` (not yet enqueued, sender alive) pushes its request and starts waiting -/
theorem cqu_enqueue {D : Option Nat} {s : St} {cid : Nat} {c0 : Call} (h : CqU D s) (hg : getCall s cid = some c0)
    (c : Call) (hcid : c.cid = cid) (now : Nat) (hd : s.dDropped = false) (htx : c0.os.txDropped = false)
    (hne : ∀ e ∈ s.inflight, e.cid ≠ cid) : CqU D (enqueue s c now) := by
  unfold enqueue
  simp only
  rw [hcid]
  -- the request is pushed
  have h1 := cqu_pqPush h { cid := cid, id := c.id, ctx := { deadline := c.ctx.deadline, trace := c.trace }, body := c.body } hd
    (by
      intro ph rx hm
      have := h.u.unique hg hm rfl
      simp only [ccore, Prod.mk.injEq] at this
      rw [htx] at this; exact absurd this.2.2.1 (by simp))
  have hg1 : getCall (pqPush s { cid := cid, id := c.id, ctx := { deadline := c.ctx.deadline, trace := c.trace }, body := c.body }) cid = some c0 := by
    rw [getCall_of_calls (pqPush_calls _ _)]; exact hg
  have hinf1 : (pqPush s { cid := cid, id := c.id, ctx := { deadline := c.ctx.deadline, trace := c.trace }, body := c.body }).inflight = s.inflight := by
    unfold pqPush; simp only; split
    · rw [wakeDispatch_inflight]
    · rfl
  generalize pqPush s { cid := cid, id := c.id, ctx := { deadline := c.ctx.deadline, trace := c.trace }, body := c.body } = s1 at h1 hg1 hinf1
  -- the call starts waiting
  have hrx : D = some cid → c0.os.rxClosed = true := by
    intro hD
    cases hr : c0.os.rxClosed with
    | true => rfl
    | false =>
      exfalso
      refine h1.q.dcl cid hD c0.phase c0.os.txDropped ?_
      have : ccore c0 = (cid, c0.phase, c0.os.txDropped, false) := by simp [ccore, getCall_cid hg1, hr]
      rw [← this]; exact mem_cores_of_getCall hg1
  have h2 := cqu_updCall (D' := D) h1 hg1 (fun c => { c with phase := .awaiting }) (fun _ => rfl) (Or.inl rfl)
    (fun e he hx _ => absurd hx (hne e (hinf1 ▸ he))) (fun _ _ _ => htx) (fun hp => by cases hp) (fun hp => by cases hp) hrx
  have hg2 : getCall (updCall s1 cid (fun c => { c with phase := .awaiting })) cid = some { c0 with phase := .awaiting } :=
    getCall_updCall_some hg1 _ (fun _ => rfl)
  exact cqu_pollOneshot h2 hg2 now (fun e he hx _ => absurd hx (hne e (hinf1 ▸ he)))

/-- a call that has not been enqueued yet owns neither a queued request nor an entry -/
theorem no_ent_of_early {x : Option Nat} {s : St} (hi : Inv x (view s)) {cid : Nat} {c : Call}
    (hg : getCall s cid = some c) (hph : c.phase = .notPolled ∨ c.phase = .reserving) :
    (∀ e ∈ s.inflight, e.cid ≠ cid) ∧ (∀ r ∈ s.pq, r.cid ≠ cid) := by
  have hv := view_getCall_some hg
  have hne : ¬ c.v.enq := by
    unfold CallV.enq
    have : c.v.phase = c.phase := rfl
    rw [this]
    rcases hph with h | h <;> simp [h]
  constructor
  · intro e he hx
    obtain ⟨cv, hcv, henq, _⟩ := hi.inf e he
    rw [hx, hv] at hcv; injection hcv with hcv; subst hcv
    exact hne henq
  · intro r hr hx
    obtain ⟨cv, hcv, henq, _⟩ := hi.pq r hr
    rw [hx, hv] at hcv; injection hcv with hcv; subst hcv
    exact hne henq

theorem cqu_pollCall {s : St} (hi : Inv none (view s)) (h : CqI none s) (cid now : Nat) :
    CqU none (pollCall s cid now) := by
  have hU : CqU none s := ⟨cuniq_of_inv hi, h⟩
  cases hg : getCall s cid with
  | none => unfold pollCall; rw [hg]; exact hU.qc (qc_emit _ _)
  | some c =>
    cases hph : c.phase with
    | resolved => unfold pollCall; simp only [hg, hph]; exact hU.qc (qc_emit _ _)
    | dropped => unfold pollCall; simp only [hg, hph]; exact hU.qc (qc_emit _ _)
    | awaiting =>
      rw [pollCall_awaiting hg hph]
      have q1 : QCq s (updCall s cid (fun c => { c with woken := false })) := qc_updCall s cid _ (fun _ => rfl)
      have hg1 : getCall (updCall s cid (fun c => { c with woken := false })) cid = some { c with woken := false } :=
        getCall_updCall_some hg _ (fun _ => rfl)
      refine cqu_pollOneshot (hU.qc q1) hg1 now ?_
      intro e he hx _
      rw [q1.inflight] at he
      obtain ⟨cv, hcv, _, _, _, hval, _⟩ := hi.inf e he
      rw [hx, view_getCall_some hg] at hcv; injection hcv with hcv; subst hcv
      exact hval
    | notPolled =>
      obtain ⟨hne, hnq⟩ := no_ent_of_early hi hg (Or.inl hph)
      rw [pollCall_notPolled hg hph]
      have q1 : QCq s (assignId s cid c) := by
        unfold assignId
        refine QCq.trans (b := { s with nextFresh := s.nextFresh + 1, nextId := s.nextId + 1 })
          (QCq.of_calls rfl rfl rfl rfl rfl rfl rfl) ?_
        exact qc_updCall _ _ _ (fun _ => rfl)
      have hg1 : getCall (assignId s cid c) cid = some { c with id := s.nextId, trace := { c.ctx.trace with span := .fresh s.nextFresh }, woken := false } := by
        unfold assignId
        exact getCall_updCall_some (s := { s with nextFresh := s.nextFresh + 1, nextId := s.nextId + 1 }) hg _ (fun _ => rfl)
      have h1 := hU.qc q1
      have htx : c.os.txDropped = false := by
        cases ht : c.os.txDropped with
        | false => rfl
        | true =>
          exfalso
          refine h.npTx cid c.os.rxClosed ?_
          have : ccore c = (cid, Phase.notPolled, true, c.os.rxClosed) := by simp [ccore, getCall_cid hg, hph, ht]
          rw [← this]; exact mem_cores_of_getCall hg
      generalize assignId s cid c = s1 at q1 hg1 h1
      split
      · exact cqu_failShutdown h1 _ now (fun e he => hne e (q1.inflight ▸ he)) (fun r hr => hnq r (q1.pq ▸ hr))
      · rename_i hcl
        have hd : s1.dDropped = false := by
          cases hdd : s1.dDropped with
          | false => rfl
          | true => simp [hdd] at hcl
        split
        · refine cqu_enqueue (s := { s1 with pqAvail := s1.pqAvail - 1 }) (h1.qc (QCq.of_calls rfl rfl rfl rfl rfl rfl rfl))
            (c0 := { c with id := s.nextId, trace := { c.ctx.trace with span := .fresh s.nextFresh }, woken := false })
            hg1 (assignedCall s c) (by have := getCall_cid hg; exact this) now hd htx ?_
          intro e he; exact hne e (q1.inflight ▸ he)
        · -- the call joins the wait queue
          have h2 : CqU none { s1 with pqWaiters := s1.pqWaiters ++ [cid] } := by
            refine ⟨h1.u, ⟨h1.q.dd, h1.q.ent, h1.q.pqTx, h1.q.npTx, ?_, h1.q.dcl⟩⟩
            intro x rx hm
            obtain ⟨a, b⟩ := h1.q.rsTx x rx hm
            refine ⟨?_, b⟩
            simp only [List.mem_append, List.mem_singleton, not_or]
            refine ⟨a, ?_⟩
            rintro rfl
            have := h1.u.unique hg1 hm rfl
            simp only [ccore, Prod.mk.injEq] at this
            rw [hph] at this; exact absurd this.2.1 (by simp)
          refine CqU.qc ?_ (qc_emit _ _)
          refine cqu_updCall (s := { s1 with pqWaiters := s1.pqWaiters ++ [cid] }) h2 hg1 _ (fun _ => rfl) (Or.inl rfl) ?_ ?_ ?_ ?_ ?_
          · intro e he hx; exact absurd hx (hne e (q1.inflight ▸ he))
          · intro r hr hx; exact absurd hx (hnq r (q1.pq ▸ hr))
          · intro hp; cases hp
          · intro _ ht; rw [htx] at ht; cases ht
          · intro hD; cases hD
    | reserving =>
      obtain ⟨hne, hnq⟩ := no_ent_of_early hi hg (Or.inr hph)
      rw [pollCall_reserving hg hph]
      have q1 : QCq s (updCall s cid (fun c => { c with woken := false })) := qc_updCall s cid _ (fun _ => rfl)
      have hg1 : getCall (updCall s cid (fun c => { c with woken := false })) cid = some { c with woken := false } :=
        getCall_updCall_some hg _ (fun _ => rfl)
      have h1 := hU.qc q1
      generalize updCall s cid (fun c => { c with woken := false }) = s1 at q1 hg1 h1
      split
      · refine cqu_failShutdown ?_ _ now ?_ ?_
        · exact ⟨h1.u, h1.q.shrink rfl rfl (fun e he => ⟨e, he, rfl, rfl⟩) rfl (fun _ hr => hr)
            (fun w hw => (List.mem_filter.mp hw).1) (fun w hw => (List.mem_filter.mp hw).1)⟩
        · exact fun e he => hne e (q1.inflight ▸ he)
        · exact fun r hr => hnq r (q1.pq ▸ hr)
      · rename_i hcl
        have hd : s1.dDropped = false := by
          cases hdd : s1.dDropped with
          | false => rfl
          | true => simp [hdd] at hcl
        split
        · rename_i hass
          have htx : c.os.txDropped = false := by
            cases ht : c.os.txDropped with
            | false => rfl
            | true =>
              exfalso
              have hm : (cid, Phase.reserving, true, c.os.rxClosed) ∈ cores s := by
                have : ccore c = (cid, Phase.reserving, true, c.os.rxClosed) := by simp [ccore, getCall_cid hg, hph, ht]
                rw [← this]; exact mem_cores_of_getCall hg
              have := (h.rsTx cid _ hm).2
              rw [← q1.pqAssigned] at this
              exact this (by simpa using hass)
          refine cqu_enqueue (s := { s1 with pqAssigned := s1.pqAssigned.filter (· != cid) })
            ⟨h1.u, h1.q.shrink rfl rfl (fun e he => ⟨e, he, rfl, rfl⟩) rfl (fun _ hr => hr)
              (fun w hw => hw) (fun w hw => (List.mem_filter.mp hw).1)⟩
            (c0 := { c with woken := false }) hg1 c (getCall_cid hg) now hd htx ?_
          intro e he; exact hne e (q1.inflight ▸ he)
        · exact h1.qc (qc_emit _ _)

/-! ### dropping a call future -/

theorem cuniq_of_cores {s s' : St} (hc : cores s' = cores s) (hu : CUniq s) : CUniq s' := by
  unfold CUniq; rw [cids_eq_cores, hc, ← cids_eq_cores]; exact hu

theorem pqRelease_not_mem {s : St} {x : Nat} (h1 : x ∉ s.pqWaiters) (h2 : x ∉ s.pqAssigned) :
    x ∉ (pqRelease s).pqWaiters ∧ x ∉ (pqRelease s).pqAssigned := by
  unfold pqRelease
  cases hw : s.pqWaiters with
  | nil => exact ⟨by simp, h2⟩
  | cons w rest =>
    simp only [wakeCall_pqWaiters, wakeCall_pqAssigned]
    rw [hw] at h1
    simp only [List.mem_cons, not_or] at h1
    exact ⟨h1.2, by simp only [List.mem_append, List.mem_singleton, not_or]; exact ⟨h2, h1.1⟩⟩

/-- the marked call has closed its receiver -/
theorem CqU.rx_of_D {D : Option Nat} {s : St} (h : CqU D s) {cid : Nat} {c : Call} (hg : getCall s cid = some c)
    (hD : D = some cid) : c.os.rxClosed = true := by
  cases hr : c.os.rxClosed with
  | true => rfl
  | false =>
    exfalso
    refine h.q.dcl cid hD c.phase c.os.txDropped ?_
    have : ccore c = (cid, c.phase, c.os.txDropped, false) := by simp [ccore, getCall_cid hg, hr]
    rw [← this]; exact mem_cores_of_getCall hg

theorem cqu_osDropTx {D : Option Nat} {s : St} {cid : Nat} {c : Call} (h : CqU D s) (hg : getCall s cid = some c)
    (hne : ∀ e ∈ s.inflight, e.cid ≠ cid) (hnq : ∀ r ∈ s.pq, r.cid ≠ cid) (hnp : c.phase ≠ .notPolled)
    (hrs : c.phase = .reserving → cid ∉ s.pqWaiters ∧ cid ∉ s.pqAssigned) : CqU D (osDropTx s cid) := by
  unfold osDropTx
  rw [hg]
  simp only
  split
  · exact h
  · have h1 : CqU D (updCall s cid (fun c => { c with os := { c.os with txDropped := true, rxWaker := false } })) := by
      refine cqu_updCall h hg _ (fun _ => rfl) (Or.inl rfl) ?_ ?_ ?_ ?_ ?_
      · intro e he hx; exact absurd hx (hne e he)
      · intro r hr hx; exact absurd hx (hnq r hr)
      · intro hp; exact absurd hp hnp
      · intro hp _; exact hrs hp
      · intro hD; have := h.rx_of_D hg hD; exact this
    split
    · exact h1.qc (qc_wakeCall _ _)
    · exact h1

theorem cqu_dropPre {s : St} (hi : Inv none (view s)) (h : CqI none s) (cid : Nat) : CqU none (dropPre s cid) := by
  have hU : CqU none s := ⟨cuniq_of_inv hi, h⟩
  unfold dropPre
  cases hg : getCall s cid with
  | none => exact hU
  | some c =>
    simp only
    cases hph : c.phase with
    | notPolled => exact hU
    | awaiting => exact hU
    | resolved => exact hU
    | dropped => exact hU
    | reserving =>
      simp only
      obtain ⟨hne, hnq⟩ := no_ent_of_early hi hg (Or.inr hph)
      -- the call leaves the wait queue
      have h1 : CqU none { s with pqAssigned := s.pqAssigned.filter (· != cid), pqWaiters := s.pqWaiters.filter (· != cid) } :=
        ⟨hU.u, h.shrink rfl rfl (fun e he => ⟨e, he, rfl, rfl⟩) rfl (fun _ hr => hr)
          (fun w hw => (List.mem_filter.mp hw).1) (fun w hw => (List.mem_filter.mp hw).1)⟩
      have n1 : cid ∉ (s.pqWaiters.filter (· != cid)) ∧ cid ∉ (s.pqAssigned.filter (· != cid)) := by
        constructor <;> (intro hm; have := (List.mem_filter.mp hm).2; simp at this)
      -- a permit it had been handed goes back
      have h2 : CqU none (if s.pqAssigned.contains cid = true then
            pqRelease { s with pqAssigned := s.pqAssigned.filter (· != cid), pqWaiters := s.pqWaiters.filter (· != cid) }
          else { s with pqAssigned := s.pqAssigned.filter (· != cid), pqWaiters := s.pqWaiters.filter (· != cid) }) ∧
          cid ∉ (if s.pqAssigned.contains cid = true then
            pqRelease { s with pqAssigned := s.pqAssigned.filter (· != cid), pqWaiters := s.pqWaiters.filter (· != cid) }
          else { s with pqAssigned := s.pqAssigned.filter (· != cid), pqWaiters := s.pqWaiters.filter (· != cid) }).pqWaiters ∧
          cid ∉ (if s.pqAssigned.contains cid = true then
            pqRelease { s with pqAssigned := s.pqAssigned.filter (· != cid), pqWaiters := s.pqWaiters.filter (· != cid) }
          else { s with pqAssigned := s.pqAssigned.filter (· != cid), pqWaiters := s.pqWaiters.filter (· != cid) }).pqAssigned ∧
          cores (if s.pqAssigned.contains cid = true then
            pqRelease { s with pqAssigned := s.pqAssigned.filter (· != cid), pqWaiters := s.pqWaiters.filter (· != cid) }
          else { s with pqAssigned := s.pqAssigned.filter (· != cid), pqWaiters := s.pqWaiters.filter (· != cid) }) = cores s ∧
          (if s.pqAssigned.contains cid = true then
            pqRelease { s with pqAssigned := s.pqAssigned.filter (· != cid), pqWaiters := s.pqWaiters.filter (· != cid) }
          else { s with pqAssigned := s.pqAssigned.filter (· != cid), pqWaiters := s.pqWaiters.filter (· != cid) }).inflight = s.inflight ∧
          (if s.pqAssigned.contains cid = true then
            pqRelease { s with pqAssigned := s.pqAssigned.filter (· != cid), pqWaiters := s.pqWaiters.filter (· != cid) }
          else { s with pqAssigned := s.pqAssigned.filter (· != cid), pqWaiters := s.pqWaiters.filter (· != cid) }).pq = s.pq := by
        split
        · have := pqRelease_not_mem (s := { s with pqAssigned := s.pqAssigned.filter (· != cid), pqWaiters := s.pqWaiters.filter (· != cid) }) n1.1 n1.2
          refine ⟨⟨cuniq_of_cores (cores_pqRelease _) h1.u, h1.q.pqRelease⟩, this.1, this.2, cores_pqRelease _, ?_, ?_⟩
          · unfold pqRelease; split
            · rw [wakeCall_inflight]
            · rfl
          · unfold pqRelease; split
            · rw [wakeCall_pq]
            · rfl
        · exact ⟨h1, n1.1, n1.2, rfl, rfl, rfl⟩
      generalize (if s.pqAssigned.contains cid = true then
            pqRelease { s with pqAssigned := s.pqAssigned.filter (· != cid), pqWaiters := s.pqWaiters.filter (· != cid) }
          else { s with pqAssigned := s.pqAssigned.filter (· != cid), pqWaiters := s.pqWaiters.filter (· != cid) }) = s2 at h2
      obtain ⟨h2, w2, a2, c2, i2, p2⟩ := h2
      -- the unsent request is dropped with its oneshot sender
      have hm : (cid, Phase.reserving, c.os.txDropped, c.os.rxClosed) ∈ cores s2 := by
        rw [c2]
        have : ccore c = (cid, Phase.reserving, c.os.txDropped, c.os.rxClosed) := by simp [ccore, getCall_cid hg, hph]
        rw [← this]; exact mem_cores_of_getCall hg
      obtain ⟨c', hg', hp', _, _⟩ := h2.u.getCall_of_core hm
      exact cqu_osDropTx h2 hg' (fun e he => hne e (i2 ▸ he)) (fun r hr => hnq r (p2 ▸ hr))
        (by rw [hp']; simp) (fun _ => ⟨w2, a2⟩)

theorem cqu_dropClose {D : Option Nat} {s : St} (h : CqU D s) (cid : Nat) : CqU D (dropClose s cid) := by
  unfold dropClose
  cases hg : getCall s cid with
  | none => exact h
  | some c =>
    have key : (c.phase = .reserving ∨ c.phase = .awaiting) → CqU D (guardClose s cid) := by
      intro hph
      unfold guardClose
      refine cqu_updCall h hg _ (fun _ => rfl) (Or.inl rfl) ?_ ?_ ?_ ?_ ?_
      · intro e he hx hn; have := h.awaiting_of_ent hg he hx hn; exact this
      · intro r hr hx; have := h.q.tx_false_of_pq hg hr hx; exact this
      · intro hp; rcases hph with h' | h' <;> (rw [h'] at hp; cases hp)
      · intro hp ht
        refine h.q.rsTx cid c.os.rxClosed ?_
        have : ccore c = (cid, Phase.reserving, true, c.os.rxClosed) := by
          have hp' : c.phase = .reserving := hp
          have ht' : c.os.txDropped = true := ht
          simp [ccore, getCall_cid hg, hp', ht']
        rw [← this]; exact mem_cores_of_getCall hg
      · intro _; rfl
    simp only
    cases hph : c.phase with
    | reserving => exact key (Or.inl hph)
    | awaiting => exact key (Or.inr hph)
    | notPolled => exact h
    | resolved => exact h
    | dropped => exact h

/-- the guard of call `cid` is armed: the future is waiting for a permit or for its response -/
def guardedIn (s : St) (cid : Nat) : Bool :=
  (s.calls.map Flow.callSig).any (fun p => p.1 == cid && (p.2 == Phase.reserving || p.2 == Phase.awaiting))

/-- the mark `CqI` carries between the guard's `cqPush` and the end of the future -/
def dmark (s : St) (cid : Nat) : Option Nat := if guardedIn s cid then some cid else none

theorem dmark_of_sigs {s s' : St} (h : s'.calls.map Flow.callSig = s.calls.map Flow.callSig) (cid : Nat) :
    dmark s' cid = dmark s cid := by
  unfold dmark guardedIn; rw [h]

theorem dmark_none {s : St} {cid : Nat} (hg : getCall s cid = none) : dmark s cid = none := by
  unfold dmark guardedIn
  have : (s.calls.map Flow.callSig).any (fun p => p.1 == cid && (p.2 == Phase.reserving || p.2 == Phase.awaiting)) = false := by
    rw [List.any_eq_false]
    intro p hp
    obtain ⟨c, hc, rfl⟩ := List.mem_map.mp hp
    have := getCall_none hg c hc
    simp [Flow.callSig, this]
  rw [this]; rfl

theorem dmark_some {s : St} (hu : CUniq s) {cid : Nat} {c : Call} (hg : getCall s cid = some c) :
    dmark s cid = if c.phase = .reserving ∨ c.phase = .awaiting then some cid else none := by
  unfold dmark guardedIn
  obtain ⟨hm, hcid⟩ := getCall_some hg
  by_cases hph : c.phase = .reserving ∨ c.phase = .awaiting
  · have : (s.calls.map Flow.callSig).any (fun p => p.1 == cid && (p.2 == Phase.reserving || p.2 == Phase.awaiting)) = true := by
      rw [List.any_eq_true]
      refine ⟨Flow.callSig c, List.mem_map_of_mem hm, ?_⟩
      rcases hph with h | h <;> simp [Flow.callSig, hcid, h]
    rw [this, if_pos hph]; rfl
  · have : (s.calls.map Flow.callSig).any (fun p => p.1 == cid && (p.2 == Phase.reserving || p.2 == Phase.awaiting)) = false := by
      rw [List.any_eq_false]
      intro p hp
      obtain ⟨c', hc', rfl⟩ := List.mem_map.mp hp
      by_cases hx : c'.cid = cid
      · have : c' = c := nodup_map_unique hu hc' hm (by rw [hx, hcid])
        subst this
        simp only [not_or] at hph
        simp [Flow.callSig, hph.1, hph.2]
      · simp [Flow.callSig, hx]
    rw [this, if_neg hph]; rfl

theorem cqu_cqPush_mark {s : St} {cid : Nat} {c : Call} (h : CqU none s) (hg : getCall s cid = some c)
    (hrx : c.os.rxClosed = true) (hid : ∀ e ∈ s.inflight, e.cid = cid → e.id = c.id) :
    CqU (some cid) (cqPush s c.id) := by
  have hdcl : ∀ x, some cid = some x → ∀ ph tx, (x, ph, tx, false) ∉ cores s := by
    intro x hx ph tx hm
    injection hx with hx; subst hx
    have := h.u.unique hg hm rfl
    simp only [ccore, Prod.mk.injEq] at this
    rw [hrx] at this; exact absurd this.2.2.2 (by simp)
  unfold cqPush
  split
  · rename_i hd
    refine ⟨h.u, ⟨h.q.dd, ?_, h.q.pqTx, h.q.npTx, h.q.rsTx, hdcl⟩⟩
    intro e he
    rw [(h.q.dd hd).1] at he; cases he
  · simp only
    have h1 : CqU (some cid) { s with cq := s.cq ++ [c.id] } := by
      refine ⟨h.u, ⟨h.q.dd, ?_, h.q.pqTx, h.q.npTx, h.q.rsTx, hdcl⟩⟩
      intro e he
      by_cases hx : e.cid = cid
      · left
        simp only [List.mem_append, List.mem_singleton]
        exact Or.inr (hid e he hx)
      · rcases h.q.ent e he with hc | ⟨hm, _⟩
        · exact Or.inl (List.mem_append_left _ hc)
        · exact Or.inr ⟨hm, fun hh => hx (by injection hh with hh; exact hh.symm)⟩
    split
    · refine CqU.qc (CqU.qc h1 ?_) (qc_wakeDispatch _)
      exact QCq.of_calls rfl rfl rfl rfl rfl rfl rfl
    · exact h1

theorem cqu_dropCancel {s : St} (h : CqU none s) (cid : Nat)
    (hid : ∀ c, getCall s cid = some c → ∀ e ∈ s.inflight, e.cid = cid → e.id = c.id)
    (hcl : ∀ c, getCall s cid = some c → (c.phase = .reserving ∨ c.phase = .awaiting) → c.os.rxClosed = true) :
    CqU (dmark s cid) (dropCancel s cid) := by
  unfold dropCancel
  cases hg : getCall s cid with
  | none => rw [dmark_none hg]; exact h
  | some c =>
    rw [dmark_some h.u hg]
    simp only
    cases hph : c.phase with
    | reserving => simp only [true_or, ↓reduceIte]; exact cqu_cqPush_mark h hg (hcl c hg (Or.inl hph)) (hid c hg)
    | awaiting => simp only [or_true, ↓reduceIte]; exact cqu_cqPush_mark h hg (hcl c hg (Or.inr hph)) (hid c hg)
    | notPolled => simpa using h
    | resolved => simpa using h
    | dropped => simpa using h

theorem dropCancel_calls (s : St) (cid : Nat) : (dropCancel s cid).calls = s.calls := by
  have key : ∀ id, (cqPush s id).calls = s.calls := by
    intro id; unfold cqPush; split
    · rfl
    · simp only; split
      · rw [wakeDispatch_calls]
      · rfl
  unfold dropCancel
  split
  · rfl
  · split <;> first | exact key _ | rfl

theorem cqu_dropFinish {s : St} {cid : Nat} (h : CqU (dmark s cid) s) : CqU none (dropFinish s cid) := by
  unfold dropFinish
  cases hg : getCall s cid with
  | none =>
    rw [dmark_none hg] at h
    exact h.qc (qc_emit _ _)
  | some c =>
    rw [dmark_some h.u hg] at h
    have key : ∀ D, CqU D s → (D = some cid ∨ (D = none ∧ c.phase ≠ .awaiting)) →
        CqU none (afterCallGone (updCall s cid (fun c => { c with phase := .dropped, woken := false }))) := by
      intro D h hD
      refine CqU.qc ?_ (qc_afterCallGone _)
      refine cqu_updCall h hg _ (fun _ => rfl) (Or.inr rfl) ?_ ?_ ?_ ?_ ?_
      · intro e he hx hn
        obtain ⟨a, _, b⟩ := h.awaiting_of_ent hg he hx hn
        rcases hD with hD | ⟨_, hD⟩
        · exact absurd hD b
        · exact absurd a hD
      · intro r hr hx; have := h.q.tx_false_of_pq hg hr hx; exact this
      · intro hp; cases hp
      · intro hp; cases hp
      · intro hD'; cases hD'
    simp only
    cases hph : c.phase with
    | reserving =>
      simp only [hph, true_or, ↓reduceIte] at h
      exact key _ h (Or.inl rfl)
    | awaiting =>
      simp only [hph, or_true, ↓reduceIte] at h
      exact key _ h (Or.inl rfl)
    | notPolled =>
      simp only [hph] at h
      exact key _ (by simpa using h) (Or.inr ⟨rfl, by rw [hph]; simp⟩)
    | resolved =>
      simp only [hph] at h
      exact CqU.qc (by simpa using h) (qc_emit _ _)
    | dropped =>
      simp only [hph] at h
      exact CqU.qc (by simpa using h) (qc_emit _ _)

theorem cqi_dropCallG {s : St} (hi : Inv none (view s)) (h : CqI none s) (guarded : Bool) (cid : Nat) (at_ : DropAt)
    (now : Nat) : CqI none (dropCallG guarded s cid at_ now) := by
  unfold dropCallG
  simp only
  have i1 : Inv none (view (dropPre s cid)) := by rw [view_dropPre]; exact hi
  have q1 := (cqu_dropPre hi h cid).q
  generalize dropPre s cid = s1 at i1 q1
  have h2 : Inv none (view (if (guarded && at_ == .enter) = true then pollDispatch s1 now else s1)) ∧
      CqI none (if (guarded && at_ == .enter) = true then pollDispatch s1 now else s1) := by
    split
    · exact ⟨pollDispatch_pres Inv.presD i1 now, cqi_pollDispatch i1 q1 now⟩
    · exact ⟨i1, q1⟩
  generalize (if (guarded && at_ == .enter) = true then pollDispatch s1 now else s1) = s2 at h2
  have i3 := dropClose_pres Inv.pres h2.1 cid
  have q3 := (cqu_dropClose ⟨cuniq_of_inv h2.1, h2.2⟩ cid).q
  generalize dropClose s2 cid = s3 at i3 q3
  have h4 : (Inv none (view (if (guarded && at_ == .mid) = true then pollDispatch s3 now else s3)) ∧
      Closed (view (if (guarded && at_ == .mid) = true then pollDispatch s3 now else s3)) cid) ∧
      CqI none (if (guarded && at_ == .mid) = true then pollDispatch s3 now else s3) := by
    split
    · exact ⟨pollDispatch_closed Inv.pres i3.1 now cid i3.2, cqi_pollDispatch i3.1 q3 now⟩
    · exact ⟨i3, q3⟩
  generalize (if (guarded && at_ == .mid) = true then pollDispatch s3 now else s3) = s4 at h4
  obtain ⟨⟨i4, c4⟩, q4⟩ := h4
  -- the guard queues the cancellation: from here on the entries of `cid` are all in `cq`
  have i5 : Inv none (view (dropCancel s4 cid)) ∧ Closed (view (dropCancel s4 cid)) cid :=
    ⟨dropCancel_pres Inv.pres i4 cid c4, c4.of_calls (view_dropCancel s4 cid)⟩
  have q5 : CqI (dmark (dropCancel s4 cid) cid) (dropCancel s4 cid) := by
    rw [dmark_of_sigs (s := s4) (by rw [dropCancel_calls]) cid]
    refine (cqu_dropCancel ⟨cuniq_of_inv i4, q4⟩ cid ?_ ?_).q
    · intro c hg e he hx
      obtain ⟨cv, hcv, _, hid, _⟩ := i4.inf e he
      rw [hx, view_getCall_some hg] at hcv; injection hcv with hcv; subst hcv
      exact hid.symm
    · intro c hg hph
      exact c4 c.v (view_getCall_some hg) hph
  generalize dropCancel s4 cid = s5 at i5 q5
  have h6 : Inv none (view (if (guarded && at_ == .exit) = true then pollDispatch s5 now else s5)) ∧
      CqI (dmark (if (guarded && at_ == .exit) = true then pollDispatch s5 now else s5) cid)
        (if (guarded && at_ == .exit) = true then pollDispatch s5 now else s5) := by
    split
    · refine ⟨pollDispatch_pres Inv.presD i5.1 now, ?_⟩
      rw [dmark_of_sigs (Flow.pollDispatch_sigs s5 now) cid]
      exact cqi_pollDispatch i5.1 q5 now
    · exact ⟨i5.1, q5⟩
  generalize (if (guarded && at_ == .exit) = true then pollDispatch s5 now else s5) = s6 at h6
  exact (cqu_dropFinish ⟨cuniq_of_inv h6.1, h6.2⟩).q

theorem cqi_dropCall {s : St} (hi : Inv none (view s)) (h : CqI none s) (cid : Nat) (at_ : DropAt) (now : Nat) :
    CqI none (dropCall s cid at_ now) := by
  rw [dropCall_eq]; exact cqi_dropCallG hi h _ cid at_ now

/-! ### handles, external events, ops -/

theorem cqi_newCall {s : St} (h : CqI none s) (hd : Nat) (ctx : Ctx) (body : Nat) : CqI none (newCall s hd ctx body) := by
  unfold newCall
  split
  · have hc : cores { s with calls := s.calls ++ [{ cid := s.calls.length, ctx := ctx, body := body, trace := ctx.trace }] }
        = cores s ++ [(s.calls.length, Phase.notPolled, false, false)] := by
      simp [cores, ccore]
    refine ⟨h.dd, ?_, ?_, ?_, ?_, fun _ hD => by cases hD⟩
    · intro e he
      rcases h.ent e he with hc' | ⟨⟨rx, hm⟩, hD⟩
      · exact Or.inl hc'
      · exact Or.inr ⟨⟨rx, by rw [hc]; exact List.mem_append_left _ hm⟩, hD⟩
    · intro r hr ph rx hm
      rw [hc] at hm
      rcases List.mem_append.mp hm with hm | hm
      · exact h.pqTx r hr ph rx hm
      · simp at hm
    · intro x rx hm
      rw [hc] at hm
      rcases List.mem_append.mp hm with hm | hm
      · exact h.npTx x rx hm
      · simp at hm
    · intro x rx hm
      rw [hc] at hm
      rcases List.mem_append.mp hm with hm | hm
      · exact h.rsTx x rx hm
      · simp at hm
  · exact h.qc (qc_emit _ _)

theorem qc_liftT (s : St) (r : SimT × Bool) : QCq s (liftT s r) := by
  unfold liftT
  simp only
  split
  · exact (qc_wakeDispatch _).after (QCq.of_calls rfl rfl rfl rfl rfl rfl rfl)
  · exact QCq.of_calls rfl rfl rfl rfl rfl rfl rfl

theorem qc_onAdvance (s : St) (now : Nat) : QCq s (onAdvance s now) := by
  unfold onAdvance
  split
  · split
    · exact (qc_wakeDispatch _).after (QCq.of_calls rfl rfl rfl rfl rfl rfl rfl)
    · exact QCq.refl _
  · exact QCq.refl _

theorem applyOp_cq {c : Sys} (hi : Inv none (view c.s)) (h : CqI none c.s) (op : COp) : CqI none (applyOp c op).s := by
  cases op with
  | call hd d tr b => exact cqi_newCall h _ _ _
  | pollCall cid => exact (cqu_pollCall hi h cid c.now).q
  | dropCall cid site => exact cqi_dropCall hi h cid site c.now
  | clone hd =>
    show CqI none (cloneHandle c.s hd)
    unfold cloneHandle; split
    · exact h.qc (QCq.of_calls rfl rfl rfl rfl rfl rfl rfl)
    · exact h.qc (qc_emit _ _)
  | dropHandle hd =>
    show CqI none (dropHandle c.s hd)
    unfold dropHandle; split
    · exact h.qc ((qc_afterCallGone _).after (QCq.of_calls rfl rfl rfl rfl rfl rfl rfl))
    · exact h.qc (qc_emit _ _)
  | pollDispatch => exact cqi_pollDispatch hi h c.now
  | dropDispatch => exact cqi_dropDispatch hi h
  | injectResp id res => exact h.qc (qc_liftT _ _)
  | injectErr => exact h.qc (qc_liftT _ _)
  | eof => exact h.qc (qc_liftT _ _)
  | setReady b => exact h.qc (qc_liftT _ _)
  | setFlush b => exact h.qc (qc_liftT _ _)
  | fault k => exact h.qc (QCq.of_calls rfl rfl rfl rfl rfl rfl rfl)
  | faultSkip n => exact h.qc (QCq.of_calls rfl rfl rfl rfl rfl rfl rfl)
  | selfWake b => exact h.qc (QCq.of_calls rfl rfl rfl rfl rfl rfl rfl)
  | take n =>
    show CqI none (List.foldl (fun s m => emit s (.took (tid s) m)) { c.s with t := (c.s.t.take n).1 } (c.s.t.take n).2)
    exact h.qc ((qc_foldl _ (fun s m => qc_emit s _) _ _).after (QCq.of_calls rfl rfl rfl rfl rfl rfl rfl))
  | advance n => exact h.qc (qc_onAdvance _ _)

theorem init_cq (k m b tc : Nat) (coupled : Bool) : CqI none (init k m b tc coupled) :=
  ⟨fun hd => (by cases hd), fun e he => (by cases he), fun r hr => (by cases hr), fun _ _ hm => (by cases hm),
   fun _ _ hm => (by cases hm), fun _ hD => (by cases hD)⟩

/-- **The cancellation-queue invariant holds in every reachable state.** -/
theorem reach_cq (m b tc : Nat) (coupled : Bool) (ops : List COp) :
    CqI none (ops.foldl applyOp (initSys m b tc coupled)).s := by
  suffices H : ∀ (c : Sys), Inv none (view c.s) → CqI none c.s → CqI none (ops.foldl applyOp c).s from
    H _ (init_inv 0 m b tc coupled) (init_cq 0 m b tc coupled)
  induction ops with
  | nil => intro c _ h; exact h
  | cons op ops ih =>
    intro c hi h
    exact ih _ (applyOp_inv hi op) (applyOp_cq hi h op)

end TarpcModel.Client

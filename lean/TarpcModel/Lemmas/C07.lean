import TarpcModel.Monitors.C07
/-
Helper lemmas for C07 (`Props/C07.lean` holds the property theorems).
-/
namespace TarpcModel.Ctx

theorem nsPerSec_eq : nsPerSec = 10 ^ 9 := by decide

theorem hop_eq (d s r : Nat) (h : s ≤ r) : hop d s r = max d s + (r - s) := by
  unfold hop de ser
  omega

theorem hop_eq_max (d s r : Nat) (h : s ≤ r) : hop d s r = max (d + (r - s)) r := by
  unfold hop de ser
  omega

theorem orderedB_iff (p : Nat) (hops : List (Nat × Nat)) : orderedB p hops = true ↔ Ordered p hops := by
  induction hops generalizing p with
  | nil => simp [orderedB, Ordered]
  | cons h t ih =>
    obtain ⟨s, r⟩ := h
    simp [orderedB, Ordered, ih, and_assoc]

instance (p : Nat) (hops : List (Nat × Nat)) : Decidable (Ordered p hops) :=
  decidable_of_iff _ (orderedB_iff p hops)

theorem chain_ge (d p : Nat) (hops : List (Nat × Nat)) (h : Ordered p hops) : d ≤ chain d hops := by
  induction hops generalizing d p with
  | nil => simp [chain]
  | cons hd t ih =>
    obtain ⟨s, r⟩ := hd
    obtain ⟨_, hsr, ht⟩ := h
    have := ih (hop d s r) r ht
    have := hop_eq d s r hsr
    simp only [chain]
    omega

theorem lastRecv_ge (p : Nat) (hops : List (Nat × Nat)) (h : Ordered p hops) :
    p + totalTransit hops ≤ lastRecv p hops := by
  induction hops generalizing p with
  | nil => simp [totalTransit, lastRecv]
  | cons hd t ih =>
    obtain ⟨s, r⟩ := hd
    obtain ⟨hps, hsr, ht⟩ := h
    have := ih r ht
    simp only [totalTransit, lastRecv]
    omega

/-- Closed form of a causally ordered chain (generalised over the time `p` before the first send). -/
theorem chain_closed (d p : Nat) (hops : List (Nat × Nat)) (h : Ordered p hops) :
    max p (chain d hops) = max (d + totalTransit hops) (lastRecv p hops) := by
  induction hops generalizing d p with
  | nil => simp [chain, totalTransit, lastRecv]; omega
  | cons hd t ih =>
    obtain ⟨s, r⟩ := hd
    obtain ⟨hps, hsr, ht⟩ := h
    have h1 := ih (hop d s r) r ht
    have h2 := chain_ge (hop d s r) r t ht
    have h3 := hop_eq_max d s r hsr
    have h4 := lastRecv_ge r t ht
    simp only [chain, totalTransit, lastRecv]
    omega

/-- Every nested send happens while the sending handler's deadline has not passed. -/
def Live (d : Nat) : List (Nat × Nat) → Prop
  | [] => True
  | (s, r) :: rest => s ≤ d ∧ Live (hop d s r) rest

instance instDecidableLive : (d : Nat) → (hops : List (Nat × Nat)) → Decidable (Live d hops)
  | _, [] => isTrue trivial
  | d, (s, r) :: rest =>
      match Nat.decLe s d, instDecidableLive (hop d s r) rest with
      | isTrue h1, isTrue h2 => isTrue ⟨h1, h2⟩
      | isFalse h1, _ => isFalse (fun h => h1 h.1)
      | _, isFalse h2 => isFalse (fun h => h2 h.2)

theorem chain_live (d p : Nat) (hops : List (Nat × Nat)) (h : Ordered p hops) (hl : Live d hops) :
    chain d hops = d + totalTransit hops := by
  induction hops generalizing d p with
  | nil => simp [chain, totalTransit]
  | cons hd t ih =>
    obtain ⟨s, r⟩ := hd
    obtain ⟨hps, hsr, ht⟩ := h
    obtain ⟨hsd, hl'⟩ := hl
    have h1 := ih (hop d s r) r ht hl'
    have h3 := hop_eq d s r hsr
    simp only [chain, totalTransit]
    omega

theorem chainSeen_length (c : Codec) (d : Nat) (hops : List (Nat × Nat)) :
    (chainSeen c d hops).length = hops.length := by
  induction hops generalizing d with
  | nil => rfl
  | cons hd t ih => obtain ⟨s, r⟩ := hd; simp [chainSeen, ih]

/-- The last handler's deadline is the last element of `chainSeen`. -/
theorem chainSeen_getLast (c : Codec) (d : Nat) (hops : List (Nat × Nat)) :
    (chainSeen c d hops).getLast? = if hops = [] then none else some (chainVia c d hops) := by
  induction hops generalizing d with
  | nil => rfl
  | cons hd t ih =>
    obtain ⟨s, r⟩ := hd
    cases t with
    | nil => cases c <;> simp [chainSeen, chainVia, chain, hopVia, Codec.serialises]
    | cons hd2 t2 =>
      have := ih (hopVia c d s r)
      obtain ⟨s2, r2⟩ := hd2
      simp only [chainSeen, List.getLast?_cons_cons, reduceCtorEq, ↓reduceIte] at this ⊢
      rw [this]
      cases c <;> simp [chainVia, chain, hopVia, Codec.serialises]

/-! ### Monitor acceptance -/

theorem checkHop_model (c : Codec) (d s r : Nat) (h : s ≤ r) : checkHop (hopVia c d s r) c d s r = true := by
  have := hop_eq d s r h
  cases c <;> simp [checkHop, hopVia, Codec.serialises, h] <;> omega

theorem checkDefault_model (r : Nat) : checkDefault (defaultDeadline r) r = true := by
  simp [checkDefault, defaultDeadline]

theorem checkChain_model (c : Codec) (d : Nat) (hops : List (Nat × Nat)) (h : orderedB 0 hops = true) :
    checkChain (chainVia c d hops) c d hops = true := by
  have ho := (orderedB_iff 0 hops).1 h
  have h1 := chain_closed d 0 hops ho
  have h2 := chain_ge d 0 hops ho
  cases c <;> simp [checkChain, chainVia, Codec.serialises, h] <;> omega

theorem chainObs_check (c : Codec) (d p : Nat) (hops : List (Nat × Nat)) (h : Ordered p hops) :
    ∀ o ∈ chainObs c d hops, check o = true := by
  induction hops generalizing d p with
  | nil => simp [chainObs]
  | cons hd t ih =>
    obtain ⟨s, r⟩ := hd
    obtain ⟨_, hsr, ht⟩ := h
    intro o ho
    simp only [chainObs, List.mem_cons] at ho
    rcases ho with rfl | ho
    · exact checkHop_model c d s r hsr
    · exact ih _ r ht o ho

theorem step_check (op : Op) : ∀ o ∈ step op, check o = true := by
  intro o ho
  cases op with
  | hop c d s r =>
    by_cases h : s ≤ r
    · simp only [step, h, ↓reduceIte, List.mem_singleton] at ho
      subst ho
      exact checkHop_model c d s r h
    · simp only [step, h, ↓reduceIte, List.mem_singleton] at ho
      subst ho; rfl
  | dflt r =>
    simp only [step, List.mem_singleton] at ho
    subst ho
    exact checkDefault_model r
  | chain c d hops =>
    by_cases h : orderedB 0 hops = true
    · simp only [step, h, ↓reduceIte, List.mem_append, List.mem_singleton] at ho
      rcases ho with ho | rfl
      · exact chainObs_check c d 0 hops ((orderedB_iff 0 hops).1 h) o ho
      · exact checkChain_model c d hops h
    · simp only [step, h, Bool.false_eq_true, ↓reduceIte, List.mem_singleton] at ho
      subst ho; rfl

theorem run_check (ops : List Op) : ∀ o ∈ run ops, check o = true := by
  induction ops with
  | nil => simp [run]
  | cons op ops ih =>
    intro o ho
    simp only [run, List.mem_append] at ho
    rcases ho with ho | ho
    · exact step_check op o ho
    · exact ih o ho

theorem foldl_monStep_ok (obs : List Obs) (m : MonSt) (hm : m.ok = true)
    (h : ∀ o ∈ obs, check o = true) : (obs.foldl monStep m).ok = true := by
  induction obs generalizing m with
  | nil => simpa using hm
  | cons o t ih =>
    have ho : check o = true := h o (by simp)
    simp only [List.foldl_cons, monStep, ho, ↓reduceIte]
    exact ih m hm (fun o' h' => h o' (by simp [h']))

/-- A rejected observation makes the verdict stick. -/
theorem foldl_monStep_bad (obs : List Obs) (m : MonSt) (hm : m.ok = false) :
    (obs.foldl monStep m).ok = false := by
  induction obs generalizing m with
  | nil => simpa using hm
  | cons o t ih =>
    simp only [List.foldl_cons]
    apply ih
    unfold monStep
    split <;> simp [hm]

end TarpcModel.Ctx

import TarpcModel.Lemmas.ClientFlowTransport
/-
The error tag of the dispatch (C09, client): whenever a pump step returns `Err(a)`, the most recent transport
observation is the failing call, and `a` is that call's activity.
-/
namespace TarpcModel.Client.Flow

/-- `o` is the observation of a failing transport call whose failure the dispatch tags with activity `a`. -/
def errObs : Activity → Obs → Bool
  | .ready, .tReady _ .err => true
  | .flush, .tFlush _ .err => true
  | .close, .tClose _ .err => true
  | .read, .tNext _ .err => true
  | .write, .tSend _ (.cancel _ _) false => true
  | _, _ => false

/-- The most recent transport observation of `s` is `o`. -/
def LastT (s : St) (o : Obs) : Prop := (s.obs.filter isT).head? = some o

/-- The step returned `Err(a)` right after the transport call that failed, and `a` names that call. -/
def ErrTagged (s' : St) (a : Activity) : Prop := ∃ o, LastT s' o ∧ errObs a o = true

theorem tEmit_lastT (s : St) (t' : SimT) (o : Obs) (w : Bool) (ho : isT o = true) : LastT (tEmit s t' o w) o := by
  obtain ⟨l, dw, he, _, hh⟩ := tEmit_eq s t' o w
  unfold LastT
  rw [he]
  simp only [List.filter_append, List.head?_append, hh ho, Option.some_or]

theorem tReady_lastT (s : St) : LastT (tReady s).1 (.tReady (tid s) (tReady s).2) := by
  rw [tReady_eq]; exact tEmit_lastT _ _ _ _ rfl
theorem tFlush_lastT (s : St) : LastT (tFlush s).1 (.tFlush (tid s) (tFlush s).2) := by
  rw [tFlush_eq]; exact tEmit_lastT _ _ _ _ rfl
theorem tClose_lastT (s : St) : LastT (tClose s).1 (.tClose (tid s) (tClose s).2) := by
  rw [tClose_eq]; exact tEmit_lastT _ _ _ _ rfl
theorem tSend_lastT (s : St) (m : Msg) : LastT (tSend s m).1 (.tSend (tid s) m (tSend s m).2) := by
  rw [tSend_eq]; exact tEmit_lastT _ _ _ _ rfl

theorem tNext_lastT (s : St) (h : (tNext s).2 ≠ .eof) : LastT (tNext s).1 (.tNext (tid s) (tNext s).2) := by
  rw [tNext_eq] at h ⊢
  split
  · rename_i hf; simp [hf] at h
  · simp [LastT, List.filter_cons]

theorem ensureOnce_errTagged (s : St) (a : Activity) (h : (ensureOnce s).2 = .err a) :
    ErrTagged (ensureOnce s).1 a := by
  revert h
  refine ensureOnce_cases (motive := fun p => p.2 = .err a → ErrTagged p.1 a) s ?_ ?_ ?_ ?_ ?_
  · intro _ _ h; cases h
  · intro s1 h1 h; cases h
    have := tReady_lastT s; rw [h1] at this; exact ⟨_, this, rfl⟩
  · intro _ _ _ _ h; cases h
  · intro s1 s2 _ h2 h; cases h
    have := tFlush_lastT s1; rw [h2] at this; exact ⟨_, this, rfl⟩
  · intro s1 s2 s3 r _ _ h3 h
    have := tReady_lastT s2; rw [h3] at this
    cases r <;> simp [readyEW] at h
    cases h; exact ⟨_, this, rfl⟩

theorem ensureLoop_errTagged (fuel : Nat) (s : St) (a : Activity) (h : (ensureLoop fuel s).2 = .err a) :
    ErrTagged (ensureLoop fuel s).1 a := by
  induction fuel generalizing s with
  | zero => rw [ensureLoop_zero] at h; cases h
  | succ fuel ih =>
    revert h
    refine ensureLoop_cases (motive := fun p => p.2 = .err a → ErrTagged p.1 a) fuel s ?_ ?_ ?_ ?_ ?_
    · intro _ _ h; cases h
    · intro s1 h1 h; cases h
      have := tReady_lastT s; rw [h1] at this; exact ⟨_, this, rfl⟩
    · intro _ _ _ _ h; cases h
    · intro s1 s2 _ h2 h; cases h
      have := tFlush_lastT s1; rw [h2] at this; exact ⟨_, this, rfl⟩
    · intro s1 s2 _ _ h; exact ih s2 h

theorem ensureWriteable_errTagged (s : St) (a : Activity) (h : (ensureWriteable s).2 = .err a) :
    ErrTagged (ensureWriteable s).1 a := by
  unfold ensureWriteable at h ⊢; split
  · rename_i hl; rw [if_pos hl] at h; exact ensureLoop_errTagged _ _ _ h
  · rename_i hl; rw [if_neg hl] at h; exact ensureOnce_errTagged _ _ h

theorem nextRequestLoop_not_err (fuel : Nat) (s : St) (a : Activity) : (nextRequestLoop fuel s).2 ≠ .err a := by
  induction fuel generalizing s with
  | zero => intro h; cases h
  | succ fuel ih =>
    unfold nextRequestLoop
    split
    · intro h; cases h
    · intro h; cases h
    · split
      · exact ih _
      · intro h; cases h

theorem nextCancelLoop_not_err (fuel : Nat) (s : St) (a : Activity) : (nextCancelLoop fuel s).2 ≠ .err a := by
  induction fuel generalizing s with
  | zero => intro h; cases h
  | succ fuel ih =>
    unfold nextCancelLoop
    split
    · intro h; cases h
    · intro h; cases h
    · split
      · intro h; cases h
      · exact ih _

theorem pollNextRequest_errTagged (s : St) (a : Activity) (h : (pollNextRequest s).2 = .err a) :
    ErrTagged (pollNextRequest s).1 a := by
  revert h
  refine pollNextRequest_cases (motive := fun p => p.2 = .err a → ErrTagged p.1 a) s ?_ ?_ ?_
  · intro _ h; cases h
  · intro s1 e _ h1 _ h
    have := ensureWriteable_errTagged s a; rw [h1] at this
    cases e <;> simp [EW.toPW] at h
    subst h; exact this rfl
  · intro s1 _ _ h; exact absurd h (nextRequestLoop_not_err _ _ _)

theorem pollWriteRequest_errTagged (s : St) (now : Nat) (a : Activity) (h : (pollWriteRequest s now).2 = .err a) :
    ErrTagged (pollWriteRequest s now).1 a := by
  revert h
  refine pollWriteRequest_cases (motive := fun p => p.2 = .err a → ErrTagged p.1 a) s now ?_ ?_ ?_ ?_
  · intro s1 r h1 _ h
    have := pollNextRequest_errTagged s a; rw [h1] at this
    cases r <;> simp [PW.pass] at h
    subst h; exact this rfl
  · intro _ _ _ _ _ _ h; cases h
  · intro _ _ _ _ _ _ _ _ h; cases h
  · intro _ _ _ _ _ _ _ _ h; cases h

theorem pollNextCancellation_errTagged (s : St) (a : Activity) (h : (pollNextCancellation s).2 = .err a) :
    ErrTagged (pollNextCancellation s).1 a := by
  revert h
  refine pollNextCancellation_cases (motive := fun p => p.2 = .err a → ErrTagged p.1 a) s ?_ ?_
  · intro s1 e h1 _ h
    have := ensureWriteable_errTagged s a; rw [h1] at this
    cases e <;> simp [EW.toPW] at h
    subst h; exact this rfl
  · intro s1 _ h; exact absurd h (nextCancelLoop_not_err _ _ _)

theorem pollWriteCancel_errTagged (s : St) (a : Activity) (h : (pollWriteCancel s).2 = .err a) :
    ErrTagged (pollWriteCancel s).1 a := by
  revert h
  refine pollWriteCancel_cases (motive := fun p => p.2 = .err a → ErrTagged p.1 a) s ?_ ?_ ?_
  · intro s1 r h1 _ h
    have := pollNextCancellation_errTagged s a; rw [h1] at this
    cases r <;> simp [PW.pass] at h
    subst h; exact this rfl
  · intro _ _ _ _ _ h; cases h
  · intro s1 e s2 _ h3 h; cases h
    have := tSend_lastT s1 (.cancel e.id e.ctx.trace); rw [h3] at this
    exact ⟨_, this, rfl⟩

theorem pumpWrite_errTagged (s : St) (now : Nat) (a : Activity) (h : (pumpWrite s now).2 = .err a) :
    ErrTagged (pumpWrite s now).1 a := by
  revert h
  refine pumpWrite_cases (motive := fun p => p.2 = .err a → ErrTagged p.1 a) s now ?_ ?_ ?_ ?_ ?_ ?_
  · intro s1 r1 h1 _ h
    have := pollWriteRequest_errTagged s now a; rw [h1] at this; exact this h
  · intro s1 r1 s2 r2 _ _ h2 _ h
    have := pollWriteCancel_errTagged s1 a; rw [h2] at this; exact this h
  · intro _ _ _ _ _ _ _ _ _ _ h; cases h
  · intro _ _ _ _ _ _ _ _ _ _ _ h; cases h
  · intro s1 s2 s3 s4 r4 _ _ _ h4 h
    have := tClose_lastT s3; rw [h4] at this
    cases r4 <;> simp [closePW] at h
    subst h; exact ⟨_, this, rfl⟩
  · intro s1 r1 s2 r2 s3 s4 r4 _ _ _ _ _ _ h4 h
    have := tFlush_lastT s3; rw [h4] at this
    cases r4 <;> simp [flushPW] at h
    subst h; exact ⟨_, this, rfl⟩

theorem pumpRead_errTagged (s : St) (a : Activity) (h : (pumpRead s).2 = .err a) : ErrTagged (pumpRead s).1 a := by
  revert h
  refine pumpRead_cases (motive := fun p => p.2 = .err a → ErrTagged p.1 a) s ?_ ?_ ?_ ?_ ?_
  · intro _ _ h; cases h
  · intro _ _ h; cases h
  · intro s1 h1 h; cases h
    have := tNext_lastT s (by rw [h1]; simp); rw [h1] at this
    exact ⟨_, this, rfl⟩
  · intro _ _ _ _ h; cases h
  · intro _ _ _ _ h; cases h

theorem run_errTagged (fuel : Nat) (s : St) (now : Nat) (a : Activity) (h : (run fuel s now).2 = .err a) :
    ErrTagged (run fuel s now).1 a := by
  induction fuel generalizing s with
  | zero => rw [run_zero] at h; cases h
  | succ fuel ih =>
    revert h
    refine run_cases (motive := fun p => p.2 = .err a → ErrTagged p.1 a) fuel s now ?_ ?_ ?_ ?_ ?_ ?_ ?_ ?_ ?_
    · intro s1 a' h1 h; cases h
      have := pumpRead_errTagged s a; rw [h1] at this; exact this rfl
    · intro _ _ h; cases h
    · intro s1 rd s2 a' _ h2 h; cases h
      have := pumpWrite_errTagged s1 now a; rw [h2] at this; exact this rfl
    · intro _ _ _ _ _ h; cases h
    · intro _ _ _ _ _ _ h; cases h
    · intro _ _ _ _ _ _ _ h; cases h
    · intro _ _ _ _ _ h; cases h
    · intro s1 rd s2 wr _ _ _ h; exact ih s2 h
    · intro _ _ _ _ h; cases h

/-- Transport-free steps keep the most recent transport observation. -/
theorem LastT.of_frameA {s s' : St} {o : Obs} (hA : FrameA s s') (h : LastT s o) : LastT s' o := by
  unfold LastT at h ⊢; rw [hA.tobs]; exact h

/-! ### `run` never touches the stored terminal error -/

theorem pumpRead_termErr (s : St) : (pumpRead s).1.termErr = s.termErr := by
  have key := tNext_termErr s
  refine pumpRead_cases (motive := fun p => p.1.termErr = s.termErr) s ?_ ?_ ?_ ?_ ?_
  · intro s1 h1; rw [h1] at key; exact key
  · intro s1 h1; rw [h1] at key; exact key
  · intro s1 h1; rw [h1] at key; exact key
  · intro s1 id res h1; rw [h1] at key; rw [completeRequest_termErr]; exact key
  · intro s1 m h1 _; rw [h1] at key; exact key

theorem run_termErr (fuel : Nat) (s : St) (now : Nat) : (run fuel s now).1.termErr = s.termErr := by
  induction fuel generalizing s with
  | zero => rfl
  | succ fuel ih =>
    have key := pumpRead_termErr s
    have step : ∀ s1 rd s2 wr, pumpRead s = (s1, rd) → pumpWrite s1 now = (s2, wr) → s2.termErr = s.termErr := by
      intro s1 rd s2 wr h1 h2
      rw [h1] at key
      have f := pumpWrite_frameW s1 now; rw [h2] at f
      rw [f.termErr]; exact key
    refine run_cases (motive := fun p => p.1.termErr = s.termErr) fuel s now ?_ ?_ ?_ ?_ ?_ ?_ ?_ ?_ ?_
    · intro s1 a h1; rw [h1] at key; exact key
    · intro s1 h1; rw [h1] at key; exact key
    · intro s1 rd s2 a h1 h2; exact step _ _ _ _ h1 h2
    · intro s1 rd s2 h1 h2; exact step _ _ _ _ h1 h2
    · intro s1 s2 wr h1 h2 _; exact step _ _ _ _ h1 h2
    · intro s1 rd s2 h1 _ h2 _; exact step _ _ _ _ h1 h2
    · intro s1 s2 h1 h2 _; exact step _ _ _ _ h1 h2
    · intro s1 rd s2 wr h1 h2 _; rw [ih s2]; exact step _ _ _ _ h1 h2
    · intro s1 s2 h1 h2; exact step _ _ _ _ h1 h2

/-! ### a failing request write is local to its call -/

theorem DelayQ_insert_has_key {q q' : DelayQ} {now timeout val key : Nat} {w : Bool}
    (h : q.insert now timeout val = (q', .ok key, w)) :
    (q'.entries.any (·.key == key) || q'.expired.any (·.key == key)) = true := by
  unfold DelayQ.insert at h
  simp only at h
  split at h
  · cases h
  · split at h <;> split at h <;> cases h <;> (split <;> simp)

theorem updCall_filter_ne (s : St) (cid : Nat) (f : Call → Call) (hf : ∀ c, (f c).cid = c.cid) :
    (updCall s cid f).calls.filter (·.cid != cid) = s.calls.filter (·.cid != cid) := by
  unfold updCall; simp only
  rw [List.filter_map]
  have h1 : ((fun c : Call => c.cid != cid) ∘ fun c => if c.cid == cid then f c else c) = (fun c => c.cid != cid) := by
    funext c; simp only [Function.comp]; split <;> simp [hf]
  rw [h1]
  conv => rhs; rw [← List.map_id (List.filter (fun c => c.cid != cid) s.calls)]
  apply List.map_congr_left
  intro c hc
  have := (List.mem_filter.mp hc).2
  have hne : (c.cid == cid) = false := by simpa using this
  simp [hne]

theorem getCall_updCall (s : St) (cid : Nat) (f : Call → Call) (hf : ∀ c, (f c).cid = c.cid) :
    getCall (updCall s cid f) cid = (getCall s cid).map f := by
  unfold getCall updCall; simp only
  rw [List.find?_map]
  have h1 : ((fun c : Call => c.cid == cid) ∘ fun c => if c.cid == cid then f c else c) = (fun c => c.cid == cid) := by
    funext c; simp only [Function.comp]; split <;> simp [hf]
  rw [h1]
  rcases hfd : s.calls.find? (fun c => c.cid == cid) with _ | c
  · rw [hfd]; rfl
  · have := List.find?_some hfd
    have hc : c.cid = cid := by simpa using this
    rw [hfd]
    simp [hc]

theorem wakeCall_filter_ne (s : St) (cid : Nat) :
    (wakeCall s cid).calls.filter (·.cid != cid) = s.calls.filter (·.cid != cid) := by
  unfold wakeCall
  split
  · split
    · simp only [emit_calls]; exact updCall_filter_ne _ _ _ (fun _ => rfl)
    · rfl
  · rfl

theorem wakeCall_getCall_os (s : St) (cid : Nat) :
    (getCall (wakeCall s cid) cid).map (·.os) = (getCall s cid).map (·.os) := by
  unfold wakeCall
  split
  · rename_i c hg
    split
    · have : getCall (emit (updCall s cid fun c => { c with woken := true }) (.wake (.call cid))) cid =
          getCall (updCall s cid fun c => { c with woken := true }) cid := rfl
      rw [this, getCall_updCall s cid (fun c => { c with woken := true }) (fun _ => rfl), hg]; rfl
    · rfl
  · rfl

theorem osSend_filter_ne (s : St) (cid : Nat) (o : Outcome) :
    (osSend s cid o).calls.filter (·.cid != cid) = s.calls.filter (·.cid != cid) := by
  unfold osSend
  split
  · rfl
  · split
    · rfl
    · simp only
      split
      · rw [wakeCall_filter_ne]; exact updCall_filter_ne _ _ _ (fun _ => rfl)
      · exact updCall_filter_ne _ _ _ (fun _ => rfl)

/-- `Sender::send` on an open oneshot stores the value. -/
theorem osSend_val {s : St} {cid : Nat} {c : Call} (o : Outcome) (hg : getCall s cid = some c)
    (hr : c.os.rxClosed = false) : (getCall (osSend s cid o) cid).map (·.os.val) = some (some o) := by
  unfold osSend
  simp only [hg, hr, Bool.false_eq_true, ↓reduceIte]
  have key : (getCall (updCall s cid fun c => { c with os := { c.os with val := some o, rxWaker := false } }) cid).map
      (·.os) = some { c.os with val := some o, rxWaker := false } := by
    rw [getCall_updCall s cid (fun c => { c with os := { c.os with val := some o, rxWaker := false } }) (fun _ => rfl), hg]; rfl
  split
  · have := wakeCall_getCall_os (updCall s cid fun c => { c with os := { c.os with val := some o, rxWaker := false } }) cid
    rw [key] at this
    rcases hgc : getCall (wakeCall (updCall s cid fun c => { c with os := { c.os with val := some o, rxWaker := false } }) cid) cid with _ | c'
    · rw [hgc] at this; cases this
    · rw [hgc] at this; simp only [Option.map_some, Option.some.injEq] at this ⊢; rw [this]
  · rcases hgc : getCall (updCall s cid fun c => { c with os := { c.os with val := some o, rxWaker := false } }) cid with _ | c'
    · rw [hgc] at key; cases key
    · rw [hgc] at key; simp only [Option.map_some, Option.some.injEq] at key ⊢; rw [key]

theorem wakeCall_inflight (s : St) (cid : Nat) : (wakeCall s cid).inflight = s.inflight := by
  unfold wakeCall; split
  · split <;> rfl
  · rfl
theorem wakeCall_poisoned (s : St) (cid : Nat) : (wakeCall s cid).poisoned = s.poisoned := by
  unfold wakeCall; split
  · split <;> rfl
  · rfl
theorem osSend_inflight (s : St) (cid : Nat) (o : Outcome) : (osSend s cid o).inflight = s.inflight := by
  unfold osSend; split
  · rfl
  · split
    · rfl
    · simp only; split
      · rw [wakeCall_inflight]; rfl
      · rfl
theorem osSend_poisoned (s : St) (cid : Nat) (o : Outcome) : (osSend s cid o).poisoned = s.poisoned := by
  unfold osSend; split
  · rfl
  · split
    · rfl
    · simp only; split
      · rw [wakeCall_poisoned]; rfl
      · rfl

theorem nextRequestLoop_open {fuel : Nat} {s s' : St} {r : DReq}
    (h : nextRequestLoop fuel s = (s', .some r)) : osIsClosed s' r.cid = false := by
  induction fuel generalizing s with
  | zero => cases h
  | succ fuel ih =>
    unfold nextRequestLoop at h
    split at h
    · cases h
    · cases h
    · split at h
      · exact ih h
      · rename_i hc; cases h; simpa using hc

theorem pollNextRequest_open {s s' : St} {r : DReq} (h : pollNextRequest s = (s', .some r)) :
    osIsClosed s' r.cid = false := by
  revert h
  refine pollNextRequest_cases (motive := fun p => p = (s', PW.some r) → osIsClosed s' r.cid = false) s ?_ ?_ ?_
  · intro _ h; cases h
  · intro s1 e _ _ _ h; cases e <;> simp [EW.toPW] at h
  · intro s1 _ _ h; exact nextRequestLoop_open h

/-- A successful `insert_request`, spelled out. -/
theorem insertRequest_ok {s s' : St} {now : Nat} {r : DReq} (h : insertRequest s now r = some s')
    (hp : s'.poisoned = false) :
    findEntry s r.id = none ∧ ∃ q key w, s.timers.insert now (clampTimeout (r.ctx.deadline - now)) r.id = (q, .ok key, w) ∧
      s' = (if w then
              wakeDispatch { s with timers := q, inflight := s.inflight ++ [{ id := r.id, cid := r.cid, ctx := r.ctx, timerKey := key, remainder := (r.ctx.deadline - now) - clampTimeout (r.ctx.deadline - now), dueAt := now + clampTimeout (r.ctx.deadline - now) }] }
            else { s with timers := q, inflight := s.inflight ++ [{ id := r.id, cid := r.cid, ctx := r.ctx, timerKey := key, remainder := (r.ctx.deadline - now) - clampTimeout (r.ctx.deadline - now), dueAt := now + clampTimeout (r.ctx.deadline - now) }] }) := by
  unfold insertRequest at h
  split at h
  · cases h; simp [emit] at hp
  · rename_i hf
    split at h
    · cases h; simp [emit] at hp
    · rename_i q key w hq
      cases h
      exact ⟨by simpa using hf, q, key, w, hq, rfl⟩

theorem filter_ne_of_find_none {l : List Entry} {id : Nat} (h : l.find? (·.id == id) = none) :
    l.filter (·.id != id) = l := by
  rw [List.filter_eq_self]
  intro e he
  have := List.find?_eq_none.mp h e he
  simpa using this

end TarpcModel.Client.Flow

import TarpcModel.Monitors.C20
/-
Helper lemmas for C20 (`Props/C20.lean`): the counting identity behind round robin, the ticket sequence of
`AtomicCycle`, the coupling invariant between the op-level load-balancer model and its monitor, and the
structure of the retry loop's log.  Core Lean only.
-/
namespace TarpcModel.Stubs

/-! ## Counting `t % n` over `t = 0 .. N-1` -/

theorem succ_div_mod_step (n N j : Nat) (hn : 1 ≤ n) (hj : j < n) :
    (N + 1) / n + (if j < (N + 1) % n then 1 else 0)
      = N / n + (if j < N % n then 1 else 0) + (if N % n = j then 1 else 0) := by
  have h := Nat.div_add_mod N n
  have hr := Nat.mod_lt N (show n > 0 by omega)
  generalize hq : N / n = q at *
  generalize hr' : N % n = r at *
  have hN : N + 1 = n * q + (r + 1) := by omega
  rw [hN]
  by_cases hlt : r + 1 < n
  · rw [Nat.mul_add_div (by omega), Nat.mul_add_mod, Nat.div_eq_of_lt hlt, Nat.mod_eq_of_lt hlt]
    split <;> split <;> split <;> omega
  · have : r + 1 = n := by omega
    have h2 : n * q + (r + 1) = n * (q + 1) := by rw [this, Nat.mul_succ]
    rw [h2, Nat.mul_div_cancel_left _ (by omega), Nat.mul_mod_right]
    split <;> split <;> split <;> omega

theorem count_range_mod (n N j : Nat) (hn : 1 ≤ n) (hj : j < n) :
    ((List.range N).map (· % n)).count j = N / n + (if j < N % n then 1 else 0) := by
  induction N with
  | zero => simp
  | succ N ih =>
    rw [List.range_succ, List.map_append, List.count_append, ih, succ_div_mod_step n N j hn hj]
    simp [List.count_singleton]

theorem count_map_some (l : List Nat) (j : Nat) : (l.map some).count (some j) = l.count j := by
  induction l with
  | nil => rfl
  | cons a l ih => simp [List.count_cons, ih]

/-! ## Tickets of `AtomicCycle` -/

theorem rrCalls_spec (n : Nat) (hn : 1 ≤ n) : ∀ (N t : Nat), t + N < W →
    (rrCalls { n := n, next := t } N).2 = ((List.range' t N).map (· % n)).map some ∧
    (rrCalls { n := n, next := t } N).1 = { n := n, next := t + N } := by
  intro N
  induction N with
  | zero => intro t _; simp [rrCalls]
  | succ N ih =>
    intro t ht
    have h1 : (t + 1) % W = t + 1 := Nat.mod_eq_of_lt (by omega)
    have hn0 : ¬ n = 0 := by omega
    have := ih (t + 1) (by omega)
    simp only [rrCalls, RR.pick, RR.fetchAdd, h1, hn0, ↓reduceIte, List.range'_succ, List.map_cons]
    rw [this.1, this.2]
    simp; omega

theorem rrDispatch_backends (s : RR) (order : List Nat) :
    (rrDispatch s order).2.map (·.2) = (rrCalls s order.length).2 ∧
    (rrDispatch s order).2.map (·.1) = order ∧
    (rrDispatch s order).1 = (rrCalls s order.length).1 := by
  induction order generalizing s with
  | nil => simp [rrDispatch, rrCalls]
  | cons c cs ih =>
    have := ih s.pick.1
    simp only [rrDispatch, rrCalls, List.length_cons, List.map_cons]
    simp [this]

/-! ## Op-level load balancer: model/monitor coupling -/

theorem spreadOk_range (n N : Nat) (hn : 1 ≤ n) (bs : List Nat)
    (hbs : bs = ((List.range N).map (· % n)).reverse) : spreadOk n bs = true := by
  subst hbs
  simp only [spreadOk, List.all_eq_true, List.mem_map, List.mem_range, decide_eq_true_eq]
  rintro a ⟨j1, hj1, rfl⟩ b ⟨j2, hj2, rfl⟩
  rw [List.count_reverse, List.count_reverse, count_range_mod n N j1 hn hj1, count_range_mod n N j2 hn hj2]
  split <;> split <;> omega

structure LbGood (kind : Kind) (n : Nat) (s : LbSt) (m : LbMon) : Prop where
  ok : m.ok = true
  kind_eq : s.kind = kind
  n_eq : s.rr.n = n
  created : m.created = s.pending
  results : m.results = s.results
  rrPicks : kind = .rr → m.picks.map (·.2) = ((List.range s.rr.next).map (· % n)).reverse
  hashPicks : kind = .hash → ∀ p ∈ m.picks, p.2 = verifHash s.hseed p.1 % n

theorem lbInit_good (kind : Kind) (n seed : Nat) : LbGood kind n (lbInit kind n seed) {} := by
  constructor <;> simp [lbInit, RR.init]

theorem lbStep_good {kind : Kind} {n : Nat} (hn : 1 ≤ n) {s : LbSt} {m : LbMon} (g : LbGood kind n s m)
    (hw : s.rr.next + 1 < W) (op : LbOp) :
    LbGood kind n (lbStep s op).1 ((lbStep s op).2.foldl (monLbStep kind n) m) ∧
    (lbStep s op).1.rr.next ≤ s.rr.next + 1 := by
  have hn0 : ¬ n = 0 := by omega
  cases op with
  | call req =>
    simp only [lbStep, List.foldl_cons, List.foldl_nil, monLbStep]
    refine ⟨⟨g.ok, g.kind_eq, g.n_eq, ?_, g.results, g.rrPicks, g.hashPicks⟩, by omega⟩
    simp [g.created]
  | setResult b k =>
    simp only [lbStep]
    split
    · rename_i hb
      simp only [List.foldl_cons, List.foldl_nil, monLbStep]
      refine ⟨⟨?_, g.kind_eq, g.n_eq, g.created, ?_, g.rrPicks, g.hashPicks⟩, by simp⟩
      · simp only [g.n_eq] at hb
        simp [LbMon.flag, g.ok, hb]
      · simp [LbMon.flag, g.results]
    · exact ⟨by simpa [monLbStep] using g, by simp⟩
  | drop id =>
    simp only [lbStep]
    cases hl : lookup id s.pending with
    | none => exact ⟨by simpa [monLbStep] using g, by simp⟩
    | some r =>
      simp only [List.foldl_cons, List.foldl_nil, monLbStep]
      refine ⟨⟨g.ok, g.kind_eq, g.n_eq, ?_, g.results, g.rrPicks, g.hashPicks⟩, by omega⟩
      simp [g.created]
  | poll id =>
    simp only [lbStep]
    cases hl : lookup id s.pending with
    | none => exact ⟨by simpa [monLbStep] using g, by simp⟩
    | some req =>
      have hk := g.kind_eq
      have hne := g.n_eq
      cases kind with
      | rr =>
        have h1 : (s.rr.next + 1) % W = s.rr.next + 1 := Nat.mod_eq_of_lt hw
        have hsn : ¬ s.rr.n = 0 := by omega
        simp only [pickBackend, hk, RR.pick, RR.fetchAdd, hsn, ↓reduceIte, h1, List.foldl_cons,
          List.foldl_nil, monLbStep]
        have hp := g.rrPicks rfl
        have hnew : (s.rr.next % s.rr.n) :: m.picks.map (·.2)
            = ((List.range (s.rr.next + 1)).map (· % n)).reverse := by
          rw [List.range_succ, List.map_append, List.reverse_append, hp, hne]; rfl
        have hlt : s.rr.next % s.rr.n < n := by rw [hne]; exact Nat.mod_lt _ (by omega)
        have hspread := spreadOk_range n (s.rr.next + 1) hn _ hnew
        refine ⟨⟨?_, rfl, hne, ?_, ?_, ?_, ?_⟩, by simp⟩
        · simp [LbMon.flag, g.ok, hlt, g.created, hl, kindOk, hspread, g.results]
        · simp [LbMon.flag, g.created]
        · simp [LbMon.flag, g.results]
        · intro _; simpa [LbMon.flag] using hnew
        · intro h; cases h
      | hash =>
        have hsn : ¬ s.rr.n = 0 := by omega
        simp only [pickBackend, hk, chIndex, hsn, ↓reduceIte, List.foldl_cons, List.foldl_nil, monLbStep]
        have hp := g.hashPicks rfl
        have hlt : verifHash s.hseed req % s.rr.n < n := by rw [hne]; exact Nat.mod_lt _ (by omega)
        have hst : stableOk req (verifHash s.hseed req % s.rr.n) m.picks = true := by
          simp only [stableOk, List.all_eq_true]
          intro p hpm
          have := hp p hpm
          by_cases hpr : p.1 = req
          · simp [this, hpr, hne]
          · simp [hpr]
        refine ⟨⟨?_, rfl, hne, ?_, ?_, ?_, ?_⟩, by simp⟩
        · simp [LbMon.flag, g.ok, hlt, g.created, hl, kindOk, hst, g.results]
        · simp [LbMon.flag, g.created]
        · simp [LbMon.flag, g.results]
        · intro h; cases h
        · intro _ p hpm
          simp only [LbMon.flag, List.mem_cons] at hpm
          rcases hpm with rfl | hpm
          · simp [hne]
          · exact hp p hpm


theorem lbRun_good {kind : Kind} {n : Nat} (hn : 1 ≤ n) (ops : List LbOp) :
    ∀ {s : LbSt} {m : LbMon}, LbGood kind n s m → s.rr.next + ops.length < W →
      LbGood kind n (lbRun s ops).1 ((lbRun s ops).2.foldl (monLbStep kind n) m) := by
  induction ops with
  | nil => intro s m g _; simpa [lbRun] using g
  | cons op ops ih =>
    intro s m g hw
    simp only [List.length_cons] at hw
    have h := lbStep_good hn g (by omega) op
    simp only [lbRun, List.foldl_append]
    exact ih h.1 (by omega)

/-- Backends of the `picked` observations, in order. -/
def pickedBackends : List LbObs → List Nat
  | [] => []
  | .picked _ b _ :: l => b :: pickedBackends l
  | _ :: l => pickedBackends l

theorem pickedBackends_append (a b : List LbObs) :
    pickedBackends (a ++ b) = pickedBackends a ++ pickedBackends b := by
  induction a with
  | nil => rfl
  | cons o a ih => cases o <;> simp [pickedBackends, ih]

theorem lbStep_rr_picked {s : LbSt} (hk : s.kind = .rr) (hn : 1 ≤ s.rr.n) (hw : s.rr.next + 1 < W) (op : LbOp) :
    (lbStep s op).1.kind = .rr ∧ (lbStep s op).1.rr.n = s.rr.n ∧
    ((pickedBackends (lbStep s op).2 = [] ∧ (lbStep s op).1.rr.next = s.rr.next) ∨
     (pickedBackends (lbStep s op).2 = [s.rr.next % s.rr.n] ∧ (lbStep s op).1.rr.next = s.rr.next + 1)) := by
  have hsn : ¬ s.rr.n = 0 := by omega
  cases op with
  | call req => simp [lbStep, hk, pickedBackends]
  | setResult b k =>
    simp only [lbStep]
    split <;> simp [hk, pickedBackends]
  | drop id =>
    simp only [lbStep]
    cases hl : lookup id s.pending <;> simp [hk, pickedBackends]
  | poll id =>
    simp only [lbStep]
    cases hl : lookup id s.pending with
    | none => simp [hk, pickedBackends]
    | some req =>
      have h1 : (s.rr.next + 1) % W = s.rr.next + 1 := Nat.mod_eq_of_lt hw
      simp [pickBackend, hk, RR.pick, RR.fetchAdd, hsn, h1, pickedBackends]

theorem lbRun_rr_picked (ops : List LbOp) : ∀ (s : LbSt), s.kind = .rr → 1 ≤ s.rr.n →
    s.rr.next + ops.length < W →
    ∃ K, K ≤ ops.length ∧ (lbRun s ops).1.rr.next = s.rr.next + K ∧
      pickedBackends (lbRun s ops).2 = (List.range' s.rr.next K).map (· % s.rr.n) := by
  induction ops with
  | nil => intro s _ _ _; exact ⟨0, by simp [lbRun, pickedBackends]⟩
  | cons op ops ih =>
    intro s hk hn hw
    simp only [List.length_cons] at hw
    obtain ⟨hk', hn', h⟩ := lbStep_rr_picked hk hn (by omega) op
    simp only [lbRun, pickedBackends_append]
    rcases h with ⟨hp, hnx⟩ | ⟨hp, hnx⟩
    · obtain ⟨K, hK, hnext, hpk⟩ := ih (lbStep s op).1 hk' (by omega) (by omega)
      refine ⟨K, by simp; omega, by omega, ?_⟩
      rw [hp, hpk, hn', hnx]; rfl
    · obtain ⟨K, hK, hnext, hpk⟩ := ih (lbStep s op).1 hk' (by omega) (by omega)
      refine ⟨K + 1, by simp; omega, by omega, ?_⟩
      rw [hp, hpk, hn', hnx, List.range'_succ]; rfl

theorem lbStep_hash_picked {s : LbSt} (hk : s.kind = .hash) (op : LbOp) :
    (lbStep s op).1.kind = .hash ∧ (lbStep s op).1.rr.n = s.rr.n ∧ (lbStep s op).1.hseed = s.hseed ∧
    ∀ id b req, LbObs.picked id b req ∈ (lbStep s op).2 →
      b = verifHash s.hseed req % s.rr.n ∧ b < s.rr.n ∧ lookup id s.pending = some req := by
  cases op with
  | call req => simp [lbStep, hk]
  | setResult b k =>
    simp only [lbStep]
    split <;> simp [hk]
  | drop id =>
    simp only [lbStep]
    cases hl : lookup id s.pending <;> simp [hk]
  | poll id =>
    simp only [lbStep]
    cases hl : lookup id s.pending with
    | none => simp [hk]
    | some req =>
      by_cases hsn : s.rr.n = 0
      · simp [pickBackend, hk, chIndex, hsn]
      · have : verifHash s.hseed req % s.rr.n < s.rr.n := Nat.mod_lt _ (by omega)
        simp only [pickBackend, hk, chIndex, hsn, ↓reduceIte, List.mem_cons, LbObs.picked.injEq,
          List.mem_nil_iff, or_false, reduceCtorEq]
        refine ⟨trivial, trivial, trivial, ?_⟩
        rintro id' b req' ⟨rfl, rfl, rfl⟩
        exact ⟨rfl, this, hl⟩

theorem lbRun_hash_picked (ops : List LbOp) : ∀ (s : LbSt), s.kind = .hash →
    ∀ id b req, LbObs.picked id b req ∈ (lbRun s ops).2 → b = verifHash s.hseed req % s.rr.n ∧ b < s.rr.n := by
  induction ops with
  | nil => intro s _ id b req h; simp [lbRun] at h
  | cons op ops ih =>
    intro s hk id b req h
    obtain ⟨hk', hn', hs', hp⟩ := lbStep_hash_picked hk op
    simp only [lbRun, List.mem_append] at h
    rcases h with h | h
    · exact ⟨(hp id b req h).1, (hp id b req h).2.1⟩
    · have := ih _ hk' id b req h
      rw [hn', hs'] at this
      exact this

/-! ## Retry -/

theorem retryLoop_spec {Ctx Req Res : Type} (policy : Res → Nat → Bool) (ctx : Ctx) (req : Req) :
    ∀ (rs : List Res) (i k : Nat) (r : Res), rs[k]? = some r →
      (∀ j rj, j < k → rs[j]? = some rj → policy rj (i + j) = true) → policy r (i + k) = false →
      (retryLoop policy ctx req i rs).2 = some r ∧
      (retryLoop policy ctx req i rs).1.map (·.attempt) = List.range' i (k + 1) ∧
      (retryLoop policy ctx req i rs).1.map (·.result) = rs.take (k + 1) ∧
      (retryLoop policy ctx req i rs).1.map (·.retried) = List.replicate k true ++ [false] ∧
      (∀ a ∈ (retryLoop policy ctx req i rs).1, a.req = req) := by
  intro rs
  induction rs with
  | nil => intro i k r h; simp at h
  | cons r0 rs ih =>
    intro i k r hk hre hst
    cases k with
    | zero =>
      simp only [List.getElem?_cons_zero, Option.some.injEq] at hk
      subst hk
      simp only [Nat.add_zero] at hst
      simp [retryLoop, hst]
    | succ k =>
      have h0 : policy r0 i = true := by simpa using hre 0 r0 (by omega) (by simp)
      simp only [List.getElem?_cons_succ] at hk
      have := ih (i + 1) k r hk
        (fun j rj hj hrj => by
          have := hre (j + 1) rj (by omega) (by simpa using hrj)
          rwa [show i + (j + 1) = i + 1 + j by omega] at this)
        (by rwa [show i + (k + 1) = i + 1 + k by omega] at hst)
      obtain ⟨h1, h2, h3, h4, h5⟩ := this
      simp only [retryLoop, h0, ↓reduceIte, List.map_cons, List.take_succ_cons, List.mem_cons]
      refine ⟨h1, ?_, ?_, ?_, ?_⟩
      · simp [h2, List.range'_succ]
      · rw [h3]
      · rw [h4]; rfl
      · rintro a (rfl | ha)
        · rfl
        · exact h5 a ha

theorem retryLoop_never {Ctx Req Res : Type} (policy : Res → Nat → Bool) (ctx : Ctx) (req : Req) :
    ∀ (rs : List Res) (i : Nat), (∀ j rj, rs[j]? = some rj → policy rj (i + j) = true) →
      (retryLoop policy ctx req i rs).2 = none ∧
      (retryLoop policy ctx req i rs).1.map (·.attempt) = List.range' i rs.length ∧
      (retryLoop policy ctx req i rs).1.map (·.result) = rs := by
  intro rs
  induction rs with
  | nil => intro i _; simp [retryLoop]
  | cons r0 rs ih =>
    intro i h
    have h0 : policy r0 i = true := by simpa using h 0 r0 (by simp)
    have := ih (i + 1) (fun j rj hrj => by
      have := h (j + 1) rj (by simpa using hrj)
      rwa [show i + (j + 1) = i + 1 + j by omega] at this)
    simp only [retryLoop, h0, ↓reduceIte, List.map_cons, List.length_cons, List.range'_succ]
    simp [this]

theorem retryLoop_length_le {Ctx Req Res : Type} (policy : Res → Nat → Bool) (ctx : Ctx) (req : Req) :
    ∀ (rs : List Res) (i : Nat), (retryLoop policy ctx req i rs).1.length ≤ rs.length := by
  intro rs
  induction rs with
  | nil => intro i; simp [retryLoop]
  | cons r0 rs ih =>
    intro i
    simp only [retryLoop]
    split
    · have := ih (i + 1); simp; omega
    · simp

/-- Every attempt of the loop is made with the caller's context and request, unconditionally (any policy,
any results, also when the call never returns), and attempts are numbered consecutively. -/
theorem retryLoop_same {Ctx Req Res : Type} (policy : Res → Nat → Bool) (ctx : Ctx) (req : Req) :
    ∀ (rs : List Res) (i : Nat),
      (∀ a ∈ (retryLoop policy ctx req i rs).1, a.ctx = ctx ∧ a.req = req) ∧
      (retryLoop policy ctx req i rs).1.map (·.attempt) = List.range' i (retryLoop policy ctx req i rs).1.length := by
  intro rs
  induction rs with
  | nil => intro i; simp [retryLoop]
  | cons r0 rs ih =>
    intro i
    by_cases h0 : policy r0 i = true
    · obtain ⟨h1, h2⟩ := ih (i + 1)
      simp only [retryLoop, h0, ↓reduceIte, List.mem_cons, List.map_cons, List.length_cons, List.range'_succ]
      refine ⟨?_, by rw [h2]⟩
      rintro a (rfl | ha)
      · exact ⟨rfl, rfl⟩
      · exact h1 a ha
    · simp [retryLoop, h0]

/-- The attempts as the mock backend records them: `(attempt number, time, context)`. -/
def attemptRecords : List RtObs → List (Nat × Nat × RtCtx)
  | [] => []
  | .attempt i now c :: l => (i, now, c) :: attemptRecords l
  | _ :: l => attemptRecords l

theorem attemptRecords_append (a b : List RtObs) :
    attemptRecords (a ++ b) = attemptRecords a ++ attemptRecords b := by
  induction a with
  | nil => rfl
  | cons o a ih => cases o <;> simp [attemptRecords, ih]

theorem flatObs_records (ctx : RtCtx) : ∀ (l : List (Attempt RtCtx Nat Res)) (now : Nat) (ds : List Nat),
    (∀ a ∈ l, a.ctx = ctx) → ∀ rec ∈ attemptRecords (flatObs now ds l), rec.2.2 = ctx := by
  intro l
  induction l with
  | nil => intro now ds _ rec h; simp [flatObs, attemptRecords] at h
  | cons a l ih =>
    intro now ds hl rec h
    simp only [flatObs, attemptObs, List.cons_append, List.nil_append, attemptRecords, List.mem_cons] at h
    rcases h with rfl | h
    · exact hl a (by simp)
    · exact ih _ _ (fun b hb => hl b (by simp [hb])) rec h

theorem monRt_loop (policy : Res → Nat → Bool) (q : Nat) (ctx : RtCtx) :
    ∀ (rs : List Res) (i now t : Nat) (ds : List Nat) (m : RtMon), m.ok = true → m.phase = .wantBackend q i ctx →
      ((flatObs now ds (retryLoop policy ctx q i rs).1 ++
          callTail q (i + (retryLoop policy ctx q i rs).1.length) t ctx (retryLoop policy ctx q i rs).2).foldl monRtStep m).ok = true ∧
      ((flatObs now ds (retryLoop policy ctx q i rs).1 ++
          callTail q (i + (retryLoop policy ctx q i rs).1.length) t ctx (retryLoop policy ctx q i rs).2).foldl monRtStep m).phase = .idle := by
  intro rs
  induction rs with
  | nil =>
    intro i now t ds m hok hph
    simp [retryLoop, flatObs, callTail, monRtStep, RtMon.checkCtx, hph, hok]
  | cons r rs ih =>
    intro i now t ds m hok hph
    by_cases hp : policy r i = true
    · simp only [retryLoop, hp, ↓reduceIte, flatObs, attemptObs, List.cons_append, List.nil_append,
        List.foldl_cons, List.length_cons]
      rw [show i + ((retryLoop policy ctx q (i + 1) rs).1.length + 1)
            = (i + 1) + (retryLoop policy ctx q (i + 1) rs).1.length by omega]
      apply ih
      · simp [monRtStep, RtMon.checkCtx, hph, hok]
      · simp [monRtStep, RtMon.checkCtx, hph]
    · simp [retryLoop, hp, flatObs, attemptObs, callTail, monRtStep, RtMon.checkCtx, hph, hok]

def RtGood (m : RtMon) : Prop := m.ok = true ∧ m.phase = .idle

theorem rtStep_good {m : RtMon} (g : RtGood m) (s : RtSt) (op : RtOp) :
    RtGood ((rtStep s op).2.foldl monRtStep m) := by
  cases op with
  | result r d => simpa [rtStep] using g
  | decide b => simpa [rtStep] using g
  | call q d tid span smp =>
    simp only [rtStep, retryCall, List.cons_append, List.nil_append, List.foldl_cons]
    generalize hctx : ({ deadline := s.now + d, traceId := tid, spanId := span, sampled := smp } : RtCtx) = ctx
    have hs : monRtStep m (.start q s.now ctx) = { m with phase := .wantBackend q 1 ctx } := by
      simp [monRtStep, g.2]
    rw [hs]
    have h := monRt_loop s.policy.eval q ctx (s.results.map (·.1)) 1 s.now
      (s.now + sumTake (retryLoop s.policy.eval ctx q 1 (s.results.map (·.1))).1.length (s.results.map (·.2)))
      (s.results.map (·.2)) { m with phase := .wantBackend q 1 ctx } g.1 rfl
    rw [show 1 + (retryLoop s.policy.eval ctx q 1 (s.results.map (·.1))).1.length
          = (retryLoop s.policy.eval ctx q 1 (s.results.map (·.1))).1.length + 1 by omega] at h
    exact h

theorem rtRun_good (ops : List RtOp) : ∀ (s : RtSt) {m : RtMon}, RtGood m →
    RtGood ((rtRun s ops).2.foldl monRtStep m) := by
  induction ops with
  | nil => intro s m g; simpa [rtRun] using g
  | cons op ops ih =>
    intro s m g
    simp only [rtRun, List.foldl_append]
    exact ih _ (rtStep_good g s op)

end TarpcModel.Stubs

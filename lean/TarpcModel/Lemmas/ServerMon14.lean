import TarpcModel.Lemmas.ServerTable
import TarpcModel.Monitors.Server
/-!
The transport-level server monitors (`monC14`, `monC09`, `monC10` of `Monitors/Server.lean`) accept every
trace of the server model.

* `FS` / `fstep` / `fop`: the three monitors' states (plus the two bits of the monitors' `Book` they depend
  on: `spun`, `eofSeen`) run side by side over the observations, as a fold that does not mention the `Book`.
* `Ok X f0 s`: the fold over the observations `s.obs` of the current op (started from `f0`) is `Clean` (no
  check has fired, no spin / panic seen) and satisfies `X`, or it is past a spin / panic (`Bye`: the
  monitors skip everything after one).
* the walk through one `Requests::poll_next` (`ok_tReady` … `ok_requestsPollNext`, `rel_pollServer`),
  the other ops (`rel_applyOp`), the lifting to traces (`rel_trace`) and the link to `Mon.run`
  (`sim14_trace`, `sim9_trace`, `sim10_trace`).
-/
namespace TarpcModel.Server.FlowMon
open TarpcModel TarpcModel.Server TarpcModel.Server.Flow
set_option linter.unusedSimpArgs false
set_option linter.unusedVariables false

/-- `checkC09` without its last clause ("panic"): a panic is C16's business (`C16_server_no_panic`) -/
def checkC09np (b : Book) (exp : C09St) : SEv → C09St × Option String
  | .obs (.panic _ _) => (exp, none)
  | e => checkC09 b exp e

def monC09np (limit : Option Nat) (evs : List SEv) : Mon C09St := Mon.run limit checkC09np none evs

/-! ## the three monitors as one fold over observations -/

structure FS where
  m14 : Client.C14St := {}
  e9 : C09St := none
  u10 : Nat := 0
  eof : Bool := false
  spun : Bool := false
  sawSpin : Bool := false
  bad14 : Bool := false
  bad9 : Bool := false
  bad10 : Bool := false

def isSpin : Obs → Bool
  | .spin _ => true
  | _ => false

def isPoison : Obs → Bool
  | .spin _ => true
  | .panic _ _ => true
  | _ => false

def isEof : Obs → Bool
  | .tNext _ .eof => true
  | _ => false

/-- a book of which only `eofSeen` matters (all `checkC10` looks at) -/
def eofBook (b : Bool) : Book := { eofSeen := b }

def fstep (f : FS) (o : Obs) : FS :=
  if f.spun then { f with sawSpin := f.sawSpin || isSpin o } else
  { m14 := (Client.checkC14Obs f.m14 o).1
    e9 := (checkC09np {} f.e9 (.obs o)).1
    u10 := (checkC10 (eofBook f.eof) f.u10 (.obs o)).1
    eof := f.eof || isEof o
    spun := isPoison o
    sawSpin := f.sawSpin || isSpin o
    bad14 := f.bad14 || (Client.checkC14Obs f.m14 o).2.isSome
    bad9 := f.bad9 || (checkC09np {} f.e9 (.obs o)).2.isSome
    bad10 := f.bad10 || (checkC10 (eofBook f.eof) f.u10 (.obs o)).2.isSome }

/-- a new op begins -/
def fop (f : FS) : FS := if f.spun then f else { f with m14 := { f.m14 with readyP := 0 }, e9 := none }

/-- the fold over the observation buffer (most recent first) -/
def fo (f0 : FS) (obs : List Obs) : FS := obs.foldr (fun o f => fstep f o) f0

@[simp] theorem fo_nil (f0 : FS) : fo f0 [] = f0 := rfl
@[simp] theorem fo_cons (f0 : FS) (o : Obs) (l : List Obs) : fo f0 (o :: l) = fstep (fo f0 l) o := rfl

/-- observations none of the three monitors reacts to -/
def isSilent : Obs → Bool
  | .wake _ | .tViolation _ _ | .handler _ _ _ | .yielded _ _ _ _ | .counts _ _ _ | .took _ _ | .noop => true
  | .ret (.exec _) _ => true
  | _ => false

theorem fstep_silent (f : FS) (o : Obs) (h : isSilent o = true) : fstep f o = f := by
  cases f with
  | mk m14 e9 u10 eof spun sawSpin b14 b9 b10 =>
  cases o <;> simp [isSilent] at h
  all_goals first
    | (cases spun <;> simp [fstep, isSpin, isPoison, isEof, Client.checkC14Obs, checkC09np, checkC09, checkC10]; done)
    | skip
  -- ret (exec _) _
  rename_i t r
  cases t <;> simp at h
  cases spun <;> cases r <;> simp [fstep, isSpin, isPoison, isEof, Client.checkC14Obs, checkC09np, checkC09, checkC10]

/-- past a spin, or past a panic with no check fired before it: nothing can fire any more -/
def Bye (f : FS) : Prop :=
  f.sawSpin = true ∨ (f.spun = true ∧ f.bad14 = false ∧ f.bad9 = false ∧ f.bad10 = false)

structure Clean (f : FS) : Prop where
  spun : f.spun = false
  sawSpin : f.sawSpin = false
  b14 : f.bad14 = false
  b9 : f.bad9 = false
  b10 : f.bad10 = false

theorem Bye.step {f : FS} (h : Bye f) (o : Obs) : Bye (fstep f o) := by
  rcases h with h | ⟨h1, h2, h3, h4⟩
  · left; unfold fstep; split <;> simp [h]
  · right; unfold fstep; simp [h1, h2, h3, h4]

theorem Bye.fo {f0 : FS} {l : List Obs} (h : Bye (fo f0 l)) (l' : List Obs) : Bye (fo f0 (l' ++ l)) := by
  induction l' with
  | nil => exact h
  | cons o l' ih => exact ih.step o

theorem Clean.panic {f : FS} (h : Clean f) (t : TaskId) (w : String) : Bye (fstep f (.panic t w)) := by
  right
  simp [fstep, h.spun, h.b14, h.b9, h.b10, isPoison, Client.checkC14Obs, checkC09np, checkC10]

theorem Clean.spin {f : FS} (h : Clean f) (t : TaskId) : Bye (fstep f (.spin t)) := by
  left; simp [fstep, h.spun, isSpin]

/-! ## noise: what the parts of the model that make no transport call do to the fold -/

structure NzS (s s' : St) : Prop where
  bye : ∀ f0, Bye (fo f0 s.obs) → Bye (fo f0 s'.obs)
  clean : ∀ f0, Clean (fo f0 s.obs) → fo f0 s'.obs = fo f0 s.obs ∨ Bye (fo f0 s'.obs)
  pois : s'.poisoned = true → s.poisoned = true ∨ ∀ f0, Clean (fo f0 s.obs) → Bye (fo f0 s'.obs)
  fused : s'.readFused = s.readFused

theorem NzS.refl (s : St) : NzS s s := ⟨fun _ h => h, fun _ _ => Or.inl rfl, fun h => Or.inl h, rfl⟩

theorem NzS.trans {a b c : St} (h1 : NzS a b) (h2 : NzS b c) : NzS a c := by
  refine ⟨fun f0 h => h2.bye f0 (h1.bye f0 h), fun f0 h => ?_, fun h => ?_, h2.fused.trans h1.fused⟩
  · rcases h1.clean f0 h with he | hb
    · rcases h2.clean f0 (he ▸ h) with he2 | hb2
      · exact Or.inl (he2.trans he)
      · exact Or.inr hb2
    · exact Or.inr (h2.bye f0 hb)
  · rcases h2.pois h with hp | hp
    · rcases h1.pois hp with hp1 | hp1
      · exact Or.inl hp1
      · exact Or.inr fun f0 hc => h2.bye f0 (hp1 f0 hc)
    · right
      intro f0 hc
      rcases h1.clean f0 hc with he | hb
      · exact hp f0 (he ▸ hc)
      · exact h2.bye f0 hb

theorem NzS.of_eq {s s' : St} (h1 : s'.obs = s.obs) (h2 : s'.poisoned = s.poisoned) (h3 : s'.readFused = s.readFused) :
    NzS s s' :=
  ⟨fun f0 h => by rw [h1]; exact h, fun f0 _ => Or.inl (by rw [h1]), fun h => Or.inl (by rw [← h2]; exact h), h3⟩


theorem NzS.pre {s s0 s' : St} (h : NzS s0 s') (h1 : s0.obs = s.obs) (h2 : s0.poisoned = s.poisoned)
    (h3 : s0.readFused = s.readFused) : NzS s s' :=
  (NzS.of_eq h1 h2 h3).trans h

theorem NzS.emit_silent (s : St) (o : Obs) (h : isSilent o = true) : NzS s (emit s o) :=
  ⟨fun f0 hb => hb.step o, fun f0 _ => Or.inl (fstep_silent _ o h), fun hp => Or.inl hp, rfl⟩

theorem NzS.emit_spin (s : St) (t : TaskId) : NzS s (emit s (.spin t)) :=
  ⟨fun f0 hb => hb.step _, fun f0 hc => Or.inr (hc.spin t), fun hp => Or.inl hp, rfl⟩

theorem NzS.panic (s : St) (t : TaskId) (w : String) : NzS s (emit { s with poisoned := true } (.panic t w)) :=
  ⟨fun f0 hb => hb.step _, fun f0 hc => Or.inr (hc.panic t w), fun _ => Or.inr fun f0 hc => hc.panic t w, rfl⟩

theorem nz_emitViolations (s : St) (n : Nat) : NzS s (emitViolations s n) := by
  unfold emitViolations
  generalize ((s.t.violations.take (s.t.violations.length - n)).reverse) = l
  induction l generalizing s with
  | nil => exact NzS.refl s
  | cons a l ih => simp only [List.foldl_cons]; exact (NzS.emit_silent s _ rfl).trans (ih _)

theorem nz_wakeServer (s : St) : NzS s (wakeServer s) := by
  unfold wakeServer; split
  · exact NzS.refl s
  · exact (NzS.of_eq (s := s) (s' := { s with woken := true }) rfl rfl rfl).trans (NzS.emit_silent _ _ rfl)

theorem nz_updExec (s : St) (r : Nat) (f : Exec → Exec) : NzS s (updExec s r f) := NzS.of_eq rfl rfl rfl

theorem nz_wakeExec (s : St) (r : Nat) : NzS s (wakeExec s r) := by
  unfold wakeExec; repeat' split
  all_goals first | exact NzS.refl s | exact (nz_updExec s _ _).trans (NzS.emit_silent _ _ rfl)

theorem nz_abortExec (s : St) (r : Nat) : NzS s (abortExec s r) := by
  unfold abortExec; split
  · exact NzS.refl s
  · simp only; split
    · exact (nz_updExec s _ _).trans (nz_wakeExec _ _)
    · exact nz_updExec s _ _

theorem nz_removeTimer (s : St) (k : Nat) : NzS s (removeTimer s k) := by
  unfold removeTimer; split
  · simp only; split
    · exact (nz_wakeServer _).pre rfl rfl rfl
    · exact NzS.of_eq rfl rfl rfl
  · exact NzS.panic s _ _

theorem nz_removeRequest (s : St) (id : Nat) : NzS s (removeRequest s id).1 := by
  unfold removeRequest; split
  · exact NzS.refl s
  · exact (nz_removeTimer _ _).pre rfl rfl rfl

theorem nz_cancelRequest (s : St) (id : Nat) : NzS s (cancelRequest s id).1 := by
  unfold cancelRequest; split
  · exact NzS.refl s
  · exact (((nz_abortExec _ _).trans (nz_removeTimer _ _))).pre rfl rfl rfl

theorem nz_rearm {s s2 : St} {now : Nat} {en : SEntry} (hr : rearm s now en = some s2) : NzS s s2 := by
  rcases rearm_cases s now en with ⟨_, he⟩ | ⟨q, key, w, _, he⟩ <;> rw [he] at hr <;> cases hr
  cases w
  · exact NzS.of_eq rfl rfl rfl
  · exact (nz_wakeServer s).trans (NzS.of_eq rfl rfl rfl)

theorem nz_expireStep (s : St) (now : Nat) : NzS s (expireStep s now).1 := by
  have hs := expireStep_shape s now
  revert hs; generalize expireStep s now = p; intro hs
  obtain ⟨s', r⟩ := p
  dsimp only at hs ⊢
  cases hs with
  | idleNone q hp => exact NzS.of_eq rfl rfl rfl
  | idlePending q hp => exact NzS.of_eq rfl rfl rfl
  | orphan q e hp hf => exact NzS.of_eq rfl rfl rfl
  | abort q e en hp hf h0 => exact (nz_abortExec _ _).pre rfl rfl rfl
  | rearmed q e en s2 hp hf h0 hr => exact (nz_rearm hr).pre rfl rfl rfl
  | panicked q e en hp hf h0 hr => exact NzS.panic s _ _

theorem nz_pollExpired (s : St) (now : Nat) : NzS s (pollExpired s now).1 :=
  pollExpired_rel (R := NzS) now NzS.refl (fun _ _ _ => NzS.trans) (fun s => NzS.emit_spin s _)
    (fun s => nz_expireStep s now) s

theorem nz_startRequest (s : St) (now id d : Nat) (tr : Trace) (b : Nat) : NzS s (startRequest s now id d tr b).1 := by
  unfold startRequest; split
  · exact NzS.refl s
  · split
    · exact NzS.panic s _ _
    · simp only; split
      · exact (nz_wakeServer s).trans (NzS.of_eq rfl rfl rfl)
      · exact NzS.of_eq rfl rfl rfl

theorem nz_rqRelease (s : St) : NzS s (rqRelease s) := by
  unfold rqRelease; split
  · exact (nz_wakeExec _ _).pre rfl rfl rfl
  · exact NzS.of_eq rfl rfl rfl

theorem nz_dropOffered (s : St) (rid id : Nat) : NzS s (dropOffered s rid id) := by
  unfold dropOffered; simp only; split
  · exact (nz_wakeServer _).pre rfl rfl rfl
  · exact NzS.of_eq rfl rfl rfl

theorem nz_bpCancel (s : St) : NzS s (bpCancel s).1 := by
  unfold bpCancel; split
  · exact (nz_removeRequest _ _).pre rfl rfl rfl
  · exact NzS.of_eq rfl rfl rfl

theorem nz_bpOther (s : St) (nx : NextRes) : NzS s (bpOther s nx).1 := by
  unfold bpOther; split
  · exact nz_cancelRequest _ _
  all_goals exact NzS.refl s

theorem nz_armRead (s : St) (r : SPoll Exec) : NzS s (armRead s r) := by
  unfold armRead; split
  · exact nz_updExec _ _ _
  · exact NzS.refl s

theorem nz_dropRead (s : St) (r : SPoll Exec) : NzS s (dropRead s r) := by
  unfold dropRead; split
  · exact nz_dropOffered _ _ _
  · exact NzS.refl s

/-! ## `Ok`: the fold is clean and satisfies `X`, or it is past a spin / panic -/

def Ok (X : FS → St → Prop) (f0 : FS) (s : St) : Prop :=
  Bye (fo f0 s.obs) ∨ (Clean (fo f0 s.obs) ∧ X (fo f0 s.obs) s)

theorem Ok.mono {X Y : FS → St → Prop} {f0 : FS} {s : St} (h : Ok X f0 s) (hxy : ∀ f, X f s → Y f s) : Ok Y f0 s :=
  h.imp id (fun ⟨hc, hx⟩ => ⟨hc, hxy _ hx⟩)

/-- one observation is emitted -/
theorem Ok.step {X Y : FS → St → Prop} {f0 : FS} {s s' : St} (o : Obs) (h : Ok X f0 s)
    (hfo : fo f0 s'.obs = fstep (fo f0 s.obs) o)
    (hstep : ∀ f, Clean f → X f s → Clean (fstep f o) ∧ Y (fstep f o) s') : Ok Y f0 s' := by
  unfold Ok
  rw [hfo]
  rcases h with hb | ⟨hc, hx⟩
  · exact Or.inl (hb.step o)
  · exact Or.inr (hstep _ hc hx)

/-- a part of the model that makes no transport call runs (`X` requires an unpoisoned state) -/
theorem Ok.noise {X Y : FS → St → Prop} {f0 : FS} {s s' : St} (h : Ok X f0 s) (hn : NzS s s')
    (hx : ∀ f, X f s → s.poisoned = false ∧ (s'.poisoned = false → Y f s')) : Ok Y f0 s' := by
  rcases h with hb | ⟨hc, hX⟩
  · exact Or.inl (hn.bye f0 hb)
  · rcases hn.clean f0 hc with he | hb
    · by_cases hp : s'.poisoned = true
      · rcases hn.pois hp with hp0 | hp1
        · rw [(hx _ hX).1] at hp0; cases hp0
        · exact Or.inl (hp1 f0 hc)
      · right; rw [he]; exact ⟨hc, (hx _ hX).2 (by simpa using hp)⟩
    · exact Or.inl hb

/-- … (`X` does not look at the state) -/
theorem Ok.noise' {X Y : FS → St → Prop} {f0 : FS} {s s' : St} (h : Ok X f0 s) (hn : NzS s s')
    (hx : ∀ f, X f s → Y f s') : Ok Y f0 s' := by
  rcases h with hb | ⟨hc, hX⟩
  · exact Or.inl (hn.bye f0 hb)
  · rcases hn.clean f0 hc with he | hb
    · right; rw [he]; exact ⟨hc, hx _ hX⟩
    · exact Or.inl hb

/-- no transport call has failed in this poll, none ever -/
structure Live (f : FS) : Prop where
  e9 : f.e9 = none
  failed : f.m14.failed = false
  readFailed : f.m14.readFailed = false
  closed : f.m14.closed = false

/-- in the middle of a poll: at most `k` consecutive `poll_ready → Pending`; if `g`, the sink is ready -/
structure MidF (k : Nat) (g : Bool) (f : FS) : Prop where
  live : Live f
  rp : f.m14.readyP ≤ k
  gr : g = true → f.m14.gotReady = true

/-- the link to the state: not poisoned; the monitor has seen the end of the inbound stream if the model has -/
def StP (f : FS) (s : St) : Prop := s.poisoned = false ∧ (s.readFused = true → f.eof = true)

abbrev MidX (k : Nat) (g : Bool) : FS → St → Prop := fun f s => MidF k g f ∧ StP f s

/-- a transport call has failed with activity `a` -/
structure FailF (a : Activity) (f : FS) : Prop where
  e9 : f.e9 = some a
  closed : f.m14.closed = false

abbrev FailX (a : Activity) : FS → St → Prop := fun f s => FailF a f ∧ s.poisoned = false

/-- the last write-side call was a flush that completed or is pending -/
def IdleF (f : FS) : Prop := f.m14.unflushed = 0 ∨ f.m14.flushPendingAfterWrite = true

def NoneF (f : FS) : Prop := f.m14.unflushed = 0 ∧ f.u10 = 0

theorem MidF.weaken {k g k' g'} {f : FS} (h : MidF k g f) (hk : k ≤ k') (hg : g' = true → g = true) : MidF k' g' f :=
  ⟨h.live, Nat.le_trans h.rp hk, fun h' => h.gr (hg h')⟩

theorem MidX.frame {k g} {f : FS} {s s' : St} (h : MidX k g f s) (hf : s'.readFused = s.readFused) :
    s.poisoned = false ∧ (s'.poisoned = false → MidX k g f s') :=
  ⟨h.2.1, fun hp => ⟨h.1, hp, fun hr => h.2.2 (hf ▸ hr)⟩⟩

theorem Ok.noiseMid {k g} {f0 : FS} {s s' : St} (h : Ok (MidX k g) f0 s) (hn : NzS s s') : Ok (MidX k g) f0 s' :=
  h.noise hn (fun f hX => MidX.frame hX hn.fused)

theorem Ok.bye_of_poisoned {k g} {f0 : FS} {s : St} (h : Ok (MidX k g) f0 s) (hp : s.poisoned = true) :
    Bye (fo f0 s.obs) := by
  rcases h with hb | ⟨_, hX⟩
  · exact hb
  · rw [hX.2.1] at hp; cases hp

/-! ### the fold over the four transport calls -/

theorem fo_emitViolations (f0 : FS) (s : St) (n : Nat) : fo f0 (emitViolations s n).obs = fo f0 s.obs := by
  unfold emitViolations
  generalize ((s.t.violations.take (s.t.violations.length - n)).reverse) = l
  induction l generalizing s with
  | nil => rfl
  | cons a l ih => simp only [List.foldl_cons]; rw [ih]; exact fstep_silent _ _ rfl

theorem fo_wakeServer (f0 : FS) (s : St) : fo f0 (wakeServer s).obs = fo f0 s.obs := by
  unfold wakeServer; split
  · rfl
  · exact fstep_silent _ _ rfl

theorem fo_tReady (f0 : FS) (s : St) : fo f0 (tReady s).1.obs = fstep (fo f0 s.obs) (.tReady (tid s) (tReady s).2) := by
  unfold tReady
  simp only
  split
  · rw [fo_wakeServer, emit_obs, fo_cons, fo_emitViolations]
  · rw [emit_obs, fo_cons, fo_emitViolations]

theorem fo_tFlush (f0 : FS) (s : St) : fo f0 (tFlush s).1.obs = fstep (fo f0 s.obs) (.tFlush (tid s) (tFlush s).2) := by
  unfold tFlush
  simp only
  split
  · rw [fo_wakeServer, emit_obs, fo_cons, fo_emitViolations]
  · rw [emit_obs, fo_cons, fo_emitViolations]

theorem fo_tSend (f0 : FS) (s : St) (m : Msg) :
    fo f0 (tSend s m).1.obs = fstep (fo f0 s.obs) (.tSend (tid s) m (tSend s m).2) := by
  unfold tSend
  simp only
  rw [emit_obs, fo_cons, fo_emitViolations]

theorem fo_tNext (f0 : FS) (s : St) (h : s.readFused = false) :
    fo f0 (tNext s).1.obs = fstep (fo f0 s.obs) (.tNext (tid s) (tNext s).2) := by
  unfold tNext
  rw [if_neg (by simp [h])]
  simp only
  split <;> rfl

/-! ### what one transport observation does to a clean fold -/

macro "fs_simp" : tactic =>
  `(tactic| simp_all [fstep, isSpin, isPoison, isEof, eofBook, Client.checkC14Obs, Client.c14ReadyPLimit, checkC09np,
      checkC09, checkC10, Option.orElse])

theorem st_ready_ready {k g} {f : FS} (ep : TaskId) (hc : Clean f) (hm : MidF k g f) :
    Clean (fstep f (.tReady ep .ready)) ∧ MidF 0 true (fstep f (.tReady ep .ready)) ∧
    (fstep f (.tReady ep .ready)).eof = f.eof := by
  obtain ⟨h1, h2, h3, h4, h5⟩ := hc
  obtain ⟨⟨l1, l2, l3, l4⟩, m2, m3⟩ := hm
  refine ⟨⟨?_, ?_, ?_, ?_, ?_⟩, ⟨⟨?_, ?_, ?_, ?_⟩, ?_, ?_⟩, ?_⟩ <;> fs_simp

theorem st_ready_pending {k g} {f : FS} (ep : TaskId) (hc : Clean f) (hm : MidF k g f) (hk : k < 4) :
    Clean (fstep f (.tReady ep .pending)) ∧ MidF (k + 1) g (fstep f (.tReady ep .pending)) ∧
    (fstep f (.tReady ep .pending)).eof = f.eof := by
  obtain ⟨h1, h2, h3, h4, h5⟩ := hc
  obtain ⟨⟨l1, l2, l3, l4⟩, m2, m3⟩ := hm
  have hlt : ¬ (4 < f.m14.readyP + 1) := by omega
  have hst : fstep f (.tReady ep .pending) = { f with m14 := { f.m14 with readyP := f.m14.readyP + 1 } } := by
    cases f with
    | mk m14 e9 u10 eof spun sawSpin b14 b9 b10 =>
    simp only at h1 h2 h3 h4 h5 hlt
    subst h1 h2 h3 h4 h5
    simp [fstep, isSpin, isPoison, isEof, eofBook, Client.checkC14Obs, Client.c14ReadyPLimit, checkC09np,
      checkC09, checkC10, hlt]
  rw [hst]
  exact ⟨⟨h1, h2, h3, h4, h5⟩, ⟨⟨l1, l2, l3, l4⟩, by simpa using m2, m3⟩, rfl⟩

theorem st_ready_err {k g} {f : FS} (ep : TaskId) (hc : Clean f) (hm : MidF k g f) :
    Clean (fstep f (.tReady ep .err)) ∧ FailF .ready (fstep f (.tReady ep .err)) := by
  obtain ⟨h1, h2, h3, h4, h5⟩ := hc
  obtain ⟨⟨l1, l2, l3, l4⟩, m2, m3⟩ := hm
  refine ⟨⟨?_, ?_, ?_, ?_, ?_⟩, ⟨?_, ?_⟩⟩ <;> fs_simp

theorem st_flush_ready {k g} {f : FS} (ep : TaskId) (hc : Clean f) (hm : MidF k g f) :
    Clean (fstep f (.tFlush ep .ready)) ∧ MidF k g (fstep f (.tFlush ep .ready)) ∧
    (fstep f (.tFlush ep .ready)).eof = f.eof ∧ NoneF (fstep f (.tFlush ep .ready)) := by
  obtain ⟨h1, h2, h3, h4, h5⟩ := hc
  obtain ⟨⟨l1, l2, l3, l4⟩, m2, m3⟩ := hm
  refine ⟨⟨?_, ?_, ?_, ?_, ?_⟩, ⟨⟨?_, ?_, ?_, ?_⟩, ?_, ?_⟩, ?_, ?_, ?_⟩ <;> fs_simp

theorem st_flush_pending {k g} {f : FS} (ep : TaskId) (hc : Clean f) (hm : MidF k g f) :
    Clean (fstep f (.tFlush ep .pending)) ∧ MidF k g (fstep f (.tFlush ep .pending)) ∧
    (fstep f (.tFlush ep .pending)).eof = f.eof ∧ IdleF (fstep f (.tFlush ep .pending)) := by
  obtain ⟨h1, h2, h3, h4, h5⟩ := hc
  obtain ⟨⟨l1, l2, l3, l4⟩, m2, m3⟩ := hm
  refine ⟨⟨?_, ?_, ?_, ?_, ?_⟩, ⟨⟨?_, ?_, ?_, ?_⟩, ?_, ?_⟩, ?_, Or.inr ?_⟩ <;> fs_simp

theorem st_flush_err {k g} {f : FS} (ep : TaskId) (hc : Clean f) (hm : MidF k g f) :
    Clean (fstep f (.tFlush ep .err)) ∧ FailF .flush (fstep f (.tFlush ep .err)) := by
  obtain ⟨h1, h2, h3, h4, h5⟩ := hc
  obtain ⟨⟨l1, l2, l3, l4⟩, m2, m3⟩ := hm
  refine ⟨⟨?_, ?_, ?_, ?_, ?_⟩, ⟨?_, ?_⟩⟩ <;> fs_simp

theorem st_send_ok {k} {f : FS} (ep : TaskId) (id : Nat) (res : Res) (hc : Clean f) (hm : MidF k true f) :
    Clean (fstep f (.tSend ep (.response id res) true)) ∧ MidF 0 false (fstep f (.tSend ep (.response id res) true)) ∧
    (fstep f (.tSend ep (.response id res) true)).eof = f.eof := by
  obtain ⟨h1, h2, h3, h4, h5⟩ := hc
  obtain ⟨⟨l1, l2, l3, l4⟩, m2, m3⟩ := hm
  refine ⟨⟨?_, ?_, ?_, ?_, ?_⟩, ⟨⟨?_, ?_, ?_, ?_⟩, ?_, ?_⟩, ?_⟩ <;> fs_simp

theorem st_send_fail {k} {f : FS} (ep : TaskId) (id : Nat) (res : Res) (hc : Clean f) (hm : MidF k true f) :
    Clean (fstep f (.tSend ep (.response id res) false)) ∧ FailF .write (fstep f (.tSend ep (.response id res) false)) := by
  obtain ⟨h1, h2, h3, h4, h5⟩ := hc
  obtain ⟨⟨l1, l2, l3, l4⟩, m2, m3⟩ := hm
  refine ⟨⟨?_, ?_, ?_, ?_, ?_⟩, ⟨?_, ?_⟩⟩ <;> fs_simp

theorem st_next_err {k g} {f : FS} (ep : TaskId) (hc : Clean f) (hm : MidF k g f) :
    Clean (fstep f (.tNext ep .err)) ∧ FailF .read (fstep f (.tNext ep .err)) := by
  obtain ⟨h1, h2, h3, h4, h5⟩ := hc
  obtain ⟨⟨l1, l2, l3, l4⟩, m2, m3⟩ := hm
  refine ⟨⟨?_, ?_, ?_, ?_, ?_⟩, ⟨?_, ?_⟩⟩ <;> fs_simp

theorem st_next_other {k g} {f : FS} (ep : TaskId) (r : NextRes) (hr : r ≠ .err) (hc : Clean f) (hm : MidF k g f) :
    Clean (fstep f (.tNext ep r)) ∧ MidF k g (fstep f (.tNext ep r)) ∧
    (f.eof = true ∨ r = .eof → (fstep f (.tNext ep r)).eof = true) := by
  obtain ⟨h1, h2, h3, h4, h5⟩ := hc
  obtain ⟨⟨l1, l2, l3, l4⟩, m2, m3⟩ := hm
  cases r with
  | err => exact absurd rfl hr
  | pending => refine ⟨⟨?_, ?_, ?_, ?_, ?_⟩, ⟨⟨?_, ?_, ?_, ?_⟩, ?_, ?_⟩, ?_⟩ <;> fs_simp
  | eof => refine ⟨⟨?_, ?_, ?_, ?_, ?_⟩, ⟨⟨?_, ?_, ?_, ?_⟩, ?_, ?_⟩, ?_⟩ <;> fs_simp
  | item m => refine ⟨⟨?_, ?_, ?_, ?_, ?_⟩, ⟨⟨?_, ?_, ?_, ?_⟩, ?_, ?_⟩, ?_⟩ <;> fs_simp

/-! ## the walk through one `Requests::poll_next` -/

theorem StP.frame {f f' : FS} {s s' : St} (h : StP f s) (hp : s'.poisoned = s.poisoned)
    (hf : s'.readFused = true → s.readFused = true ∨ f'.eof = true) (he : f.eof = true → f'.eof = true) : StP f' s' :=
  ⟨hp.trans h.1, fun hr => (hf hr).elim (fun h1 => he (h.2 h1)) id⟩

theorem ok_tReady {f0 : FS} {k : Nat} {g : Bool} {s : St} (h : Ok (MidX k g) f0 s) (hk : k < 4) :
    ((tReady s).2 = .ready → Ok (MidX 0 true) f0 (tReady s).1) ∧
    ((tReady s).2 = .pending → Ok (MidX (k + 1) g) f0 (tReady s).1) ∧
    ((tReady s).2 = .err → Ok (FailX .ready) f0 (tReady s).1) := by
  have hfo := fo_tReady f0 s
  refine ⟨fun hr => ?_, fun hr => ?_, fun hr => ?_⟩ <;> rw [hr] at hfo
  · exact h.step _ hfo (fun f hc hX =>
      have ⟨a, b, c⟩ := st_ready_ready _ hc hX.1
      ⟨a, b, hX.2.frame (by simp) (fun hf => Or.inl (by simpa using hf)) (fun he => by rw [c]; exact he)⟩)
  · exact h.step _ hfo (fun f hc hX =>
      have ⟨a, b, c⟩ := st_ready_pending _ hc hX.1 hk
      ⟨a, b, hX.2.frame (by simp) (fun hf => Or.inl (by simpa using hf)) (fun he => by rw [c]; exact he)⟩)
  · exact h.step _ hfo (fun f hc hX => have ⟨a, b⟩ := st_ready_err _ hc hX.1; ⟨a, b, by simpa using hX.2.1⟩)

theorem ok_tFlush {f0 : FS} {k : Nat} {g : Bool} {s : St} (h : Ok (MidX k g) f0 s) :
    ((tFlush s).2 = .ready → Ok (fun f s => MidX k g f s ∧ NoneF f) f0 (tFlush s).1) ∧
    ((tFlush s).2 = .pending → Ok (fun f s => MidX k g f s ∧ IdleF f) f0 (tFlush s).1) ∧
    ((tFlush s).2 = .err → Ok (FailX .flush) f0 (tFlush s).1) := by
  have hfo := fo_tFlush f0 s
  refine ⟨fun hr => ?_, fun hr => ?_, fun hr => ?_⟩ <;> rw [hr] at hfo
  · exact h.step _ hfo (fun f hc hX =>
      have ⟨a, b, c, d⟩ := st_flush_ready _ hc hX.1
      ⟨a, ⟨b, hX.2.frame (by simp) (fun hf => Or.inl (by simpa using hf)) (fun he => by rw [c]; exact he)⟩, d⟩)
  · exact h.step _ hfo (fun f hc hX =>
      have ⟨a, b, c, d⟩ := st_flush_pending _ hc hX.1
      ⟨a, ⟨b, hX.2.frame (by simp) (fun hf => Or.inl (by simpa using hf)) (fun he => by rw [c]; exact he)⟩, d⟩)
  · exact h.step _ hfo (fun f hc hX => have ⟨a, b⟩ := st_flush_err _ hc hX.1; ⟨a, b, by simpa using hX.2.1⟩)

theorem ok_tSend {f0 : FS} {k : Nat} {s : St} (h : Ok (MidX k true) f0 s) (id : Nat) (res : Res) :
    ((tSend s (.response id res)).2 = true → Ok (MidX 0 false) f0 (tSend s (.response id res)).1) ∧
    ((tSend s (.response id res)).2 = false → Ok (FailX .write) f0 (tSend s (.response id res)).1) := by
  have hfo := fo_tSend f0 s (.response id res)
  refine ⟨fun hr => ?_, fun hr => ?_⟩ <;> rw [hr] at hfo
  · exact h.step _ hfo (fun f hc hX =>
      have ⟨a, b, c⟩ := st_send_ok _ id res hc hX.1
      ⟨a, b, hX.2.frame (by simp) (fun hf => Or.inl (by simpa using hf)) (fun he => by rw [c]; exact he)⟩)
  · exact h.step _ hfo (fun f hc hX => have ⟨a, b⟩ := st_send_fail _ id res hc hX.1; ⟨a, b, by simpa using hX.2.1⟩)

theorem tNext_fused_inv (s : St) (h : (tNext s).1.readFused = true) : s.readFused = true ∨ (tNext s).2 = .eof := by
  by_cases hfu : s.readFused = true
  · exact Or.inl hfu
  · right
    rw [tNext_res, if_neg hfu]
    unfold tNext at h
    rw [if_neg hfu] at h
    simp only at h
    by_cases he : s.t.pollNext.2 = .eof
    · exact he
    · rw [if_neg (by simpa using he)] at h
      exact absurd h hfu

theorem ok_tNext {f0 : FS} {k : Nat} {g : Bool} {s : St} (h : Ok (MidX k g) f0 s) :
    ((tNext s).2 = .err → Ok (FailX .read) f0 (tNext s).1) ∧
    ((tNext s).2 ≠ .err → Ok (MidX k g) f0 (tNext s).1) := by
  by_cases hfu : s.readFused = true
  · have : tNext s = (s, .eof) := by unfold tNext; simp [hfu]
    rw [this]; exact ⟨fun h' => (by cases h'), fun _ => h⟩
  · have hfu' : s.readFused = false := by simpa using hfu
    have hfo := fo_tNext f0 s hfu'
    refine ⟨fun hr => ?_, fun hr => ?_⟩
    · rw [hr] at hfo; exact h.step _ hfo (fun f hc hX => have ⟨a, b⟩ := st_next_err _ hc hX.1; ⟨a, b, by simpa using hX.2.1⟩)
    · exact h.step _ hfo (fun f hc hX =>
        have ⟨a, b, c⟩ := st_next_other (tid s) _ hr hc hX.1
        ⟨a, b, hX.2.frame (by simp) (fun hf => (tNext_fused_inv s hf).imp id (fun he => c (Or.inr he)))
          (fun he => c (Or.inl he))⟩)

theorem ok_bpStep (now : Nat) {f0 : FS} {k : Nat} {g : Bool} {s : St} (h : Ok (MidX k g) f0 s) :
    match bpStep s now with
    | (s', some (.err a)) => a = .read ∧ Ok (FailX .read) f0 s'
    | (s', some .spin) => Bye (fo f0 s'.obs)
    | (s', _) => Ok (MidX k g) f0 s' := by
  have h2 : Ok (MidX k g) f0 (bp2 s now) := (h.noiseMid (nz_bpCancel s)).noiseMid (nz_pollExpired _ now)
  have h3 := ok_tNext h2
  have h3' : bpNx s now ≠ .err → Ok (MidX k g) f0 (bp3 s now) := h3.2
  have ho := bpStep_out s now
  generalize bpStep s now = out at ho ⊢
  cases ho with
  | poisoned2 hp => exact h2.bye_of_poisoned hp
  | readErr hp hn => exact ⟨rfl, h3.1 hn⟩
  | started id d tr b ex hp hn hs => exact (h3' (by rw [hn]; simp)).noiseMid (nz_startRequest _ _ _ _ _ _)
  | startPanic id d tr b hp hn hs hpo =>
    exact ((h3' (by rw [hn]; simp)).noiseMid (nz_startRequest _ _ _ _ _ _)).bye_of_poisoned hpo
  | duplicate id d tr b hp hn hs hpo => exact (h3' (by rw [hn]; simp)).noiseMid (nz_startRequest _ _ _ _ _ _)
  | otherPoisoned hp hn1 hn2 hpo => exact ((h3' hn1).noiseMid (nz_bpOther _ _)).bye_of_poisoned hpo
  | again hp hn1 hn2 hpo hc => exact (h3' hn1).noiseMid (nz_bpOther _ _)
  | closed hp hn1 hn2 hpo hc => exact (h3' hn1).noiseMid (nz_bpOther _ _)
  | pending hp hn1 hn2 hpo hc => exact (h3' hn1).noiseMid (nz_bpOther _ _)

theorem ok_spin {X : FS → St → Prop} {f0 : FS} {s : St} (h : Ok X f0 s) (t : TaskId) :
    Bye (fo f0 (emit s (.spin t)).obs) := by
  rcases h with hb | ⟨hc, _⟩
  · exact hb.step _
  · exact hc.spin t

/-- postcondition of `BaseChannel::poll_next` -/
def PostBase (f0 : FS) (k : Nat) (g : Bool) : St × SPoll Exec → Prop
  | (s', .err a) => a = .read ∧ Ok (FailX .read) f0 s'
  | (s', .spin) => Bye (fo f0 s'.obs)
  | (s', _) => Ok (MidX k g) f0 s'

theorem ok_basePollNext (now : Nat) {f0 : FS} {k : Nat} {g : Bool} : ∀ (fuel : Nat) (s : St), Ok (MidX k g) f0 s →
    PostBase f0 k g (basePollNext fuel s now) := by
  intro fuel
  induction fuel with
  | zero => intro s h; exact ok_spin h _
  | succ n ih =>
    intro s h
    rw [basePollNext_succ]
    have hb := ok_bpStep now h
    revert hb
    generalize bpStep s now = p
    obtain ⟨s', r⟩ := p
    intro hb
    cases r with
    | none => exact ih s' hb
    | some r => cases r <;> exact hb

/-- postcondition of `BaseChannel::start_send` -/
def PostSend (f0 : FS) : St × Option Bool → Prop
  | (s', some false) => Ok (FailX .write) f0 s'
  | (s', _) => Ok (MidX 0 false) f0 s'

theorem ok_baseStartSend {f0 : FS} {s : St} (h : Ok (MidX 0 true) f0 s) (id : Nat) (res : Res) :
    PostSend f0 (baseStartSend s id res) := by
  unfold baseStartSend
  have h1 := h.noiseMid (nz_removeRequest s id)
  revert h1
  generalize removeRequest s id = q
  obtain ⟨s1, b⟩ := q
  intro h1
  cases b
  · exact h1.mono (fun f hX => ⟨hX.1.weaken (Nat.le_refl _) (fun h => by cases h), hX.2⟩)
  · have hs := ok_tSend h1 id res
    revert hs
    simp only
    generalize tSend s1 (.response id res) = p
    obtain ⟨s2, ok⟩ := p
    intro hs
    cases ok
    · exact hs.2 rfl
    · exact hs.1 rfl

theorem PostSend.other {f0 : FS} {s : St} {r : Option Bool} (h : PostSend f0 (s, r)) (hne : r ≠ some false) :
    Ok (MidX 0 false) f0 s := by
  cases r with
  | none => exact h
  | some b => cases b with
    | true => exact h
    | false => exact absurd rfl hne

/-- postcondition of the channel's `poll_next` (with or without limiter) -/
def PostCh (f0 : FS) : St × SPoll Exec → Prop
  | (s', .err a) => Ok (FailX a) f0 s'
  | (s', .spin) => Bye (fo f0 s'.obs)
  | (s', _) => Ok (MidX 1 false) f0 s'

theorem PostBase.ch {f0 : FS} {g : Bool} {p : St × SPoll Exec} (h : PostBase f0 0 g p) : PostCh f0 p := by
  obtain ⟨s2, r⟩ := p
  cases r with
  | err a => obtain ⟨rfl, hb⟩ := h; exact hb
  | spin => exact h
  | some ex => exact Ok.mono h (fun f hX => ⟨hX.1.weaken (by omega) (fun h => by cases h), hX.2⟩)
  | pending => exact Ok.mono h (fun f hX => ⟨hX.1.weaken (by omega) (fun h => by cases h), hX.2⟩)
  | none => exact Ok.mono h (fun f hX => ⟨hX.1.weaken (by omega) (fun h => by cases h), hX.2⟩)

theorem ok_limitedLegacy (limit now : Nat) {f0 : FS} : ∀ (fuel : Nat) (s : St), Ok (MidX 0 false) f0 s →
    PostCh f0 (limitedPollNextLegacy limit fuel s now) := by
  intro fuel
  induction fuel with
  | zero => intro s h; exact ok_spin h _
  | succ n ih =>
    intro s h
    unfold limitedPollNextLegacy
    split
    · have ht := ok_tReady h (by omega : 0 < 4)
      split
      · next s1 heq => have := ht.2.1 (by rw [heq]); rw [heq] at this; exact this
      · next s1 heq => have := ht.2.2 (by rw [heq]); rw [heq] at this; exact this
      · next s1 heq =>
        have h1 := ht.1 (by rw [heq]); rw [heq] at h1
        simp only at h1
        have hb := ok_basePollNext now (baseFuel s1) s1 h1
        split
        · next s2 ex heq2 =>
          rw [heq2] at hb
          have hs := ok_baseStartSend hb ex.id (.err throttleKindIdx)
          split
          · next s3 heq3 => rw [heq3] at hs; exact hs
          · next s3 r hne heq3 =>
            rw [heq3] at hs
            exact ih _ ((hs.other (fun h => hne (by rw [h]))).noiseMid (nz_updExec _ _ _))
        · next r hne => exact hb.ch
    · exact (ok_basePollNext now (baseFuel s) s h).ch

theorem ok_channelPollNext (now : Nat) {f0 : FS} {s : St} (h : Ok (MidX 0 false) f0 s)
    (hcfg : s.throttleAfterRead = false) : PostCh f0 (channelPollNext s now) := by
  unfold channelPollNext
  split
  · exact (ok_basePollNext now (baseFuel s) s h).ch
  · simp only [hcfg]
    exact ok_limitedLegacy _ now _ s h

/-- postcondition of `ensure_writeable` -/
def PostEW (f0 : FS) : St × EW → Prop
  | (s', .ready) => Ok (MidX 0 true) f0 s'
  | (s', .pending) => Ok (MidX 3 false) f0 s'
  | (s', .err a) => Ok (FailX a) f0 s'
  | (_, .spin) => False

theorem ok_ensureOnce {f0 : FS} {s : St} (h : Ok (MidX 1 false) f0 s) : PostEW f0 (ensureOnce s) := by
  unfold ensureOnce
  have ht := ok_tReady h (by omega : 1 < 4)
  split
  · next s1 heq => have := ht.1 (by rw [heq]); rw [heq] at this; exact this
  · next s1 heq => have := ht.2.2 (by rw [heq]); rw [heq] at this; exact this
  · next s1 heq =>
    have h1 := ht.2.1 (by rw [heq]); rw [heq] at h1
    simp only at h1
    have hf := ok_tFlush h1
    split
    · next s2 heq2 =>
      have := hf.2.1 (by rw [heq2]); rw [heq2] at this
      exact this.mono (fun f hX => ⟨hX.1.1.weaken (by omega) id, hX.1.2⟩)
    · next s2 heq2 => have := hf.2.2 (by rw [heq2]); rw [heq2] at this; exact this
    · next s2 heq2 =>
      have h2 := hf.1 (by rw [heq2]); rw [heq2] at h2
      simp only at h2
      have h2' : Ok (MidX 2 false) f0 s2 := h2.mono (fun f hX => hX.1)
      have ht2 := ok_tReady h2' (by omega : 2 < 4)
      split
      · next s3 heq3 => have := ht2.1 (by rw [heq3]); rw [heq3] at this; exact this
      · next s3 heq3 => have := ht2.2.2 (by rw [heq3]); rw [heq3] at this; exact this
      · next s3 heq3 => have := ht2.2.1 (by rw [heq3]); rw [heq3] at this; exact this

theorem ok_ensureWriteable {f0 : FS} {s : St} (h : Ok (MidX 1 false) f0 s) (hel : s.ensureLoop = false) :
    PostEW f0 (ensureWriteable s) := by
  unfold ensureWriteable
  simp only [hel]
  exact ok_ensureOnce h

/-- what the poll may go idle on: the write side flushed or flushing -/
abbrev IdleX : FS → St → Prop := fun f s => MidX 4 false f s ∧ IdleF f
/-- what the request stream may end on -/
abbrev NoneX : FS → St → Prop := fun f s => MidX 4 false f s ∧ NoneF f

theorem NoneF.idle {f : FS} (h : NoneF f) : IdleF f := Or.inl h.1

/-- postcondition of the write pump (`some`: a response was taken off the queue) -/
def PostPW (f0 : FS) (rc : Bool) : St × SPoll Unit → Prop
  | (s', .pending) => Ok IdleX f0 s'
  | (s', .none) => rc = true ∧ Ok NoneX f0 s'
  | (s', .err a) => Ok (FailX a) f0 s'
  | (s', .some _) => Ok (MidX 0 false) f0 s'
  | (_, .spin) => False

theorem ok_flushArm {f0 : FS} {k : Nat} {g : Bool} {s : St} (h : Ok (MidX k g) f0 s) (hk : k ≤ 4) (rc : Bool) :
    PostPW f0 rc (flushArm s rc) := by
  unfold flushArm
  have hf := ok_tFlush h
  split
  · next s1 heq =>
    have := hf.2.1 (by rw [heq]); rw [heq] at this
    exact this.mono (fun f hX => ⟨⟨hX.1.1.weaken hk (fun h => by cases h), hX.1.2⟩, hX.2⟩)
  · next s1 heq => have := hf.2.2 (by rw [heq]); rw [heq] at this; exact this
  · next s1 heq =>
    have h1 := hf.1 (by rw [heq]); rw [heq] at h1
    simp only at h1
    split
    · next hc =>
      simp only [Bool.and_eq_true] at hc
      exact ⟨hc.1, h1.mono (fun f hX => ⟨⟨hX.1.1.weaken hk (fun h => by cases h), hX.1.2⟩, hX.2⟩)⟩
    · exact h1.mono (fun f hX => ⟨⟨hX.1.1.weaken hk (fun h => by cases h), hX.1.2⟩, hX.2.idle⟩)

theorem ok_pumpWrite {f0 : FS} {s : St} (h : Ok (MidX 1 false) f0 s) (hel : s.ensureLoop = false) (rc : Bool) :
    PostPW f0 rc (pumpWrite s rc) := by
  unfold pumpWrite
  have he := ok_ensureWriteable h hel
  split
  · next s1 heq => rw [heq] at he; exact ok_flushArm he (by omega) rc
  · next s1 a heq => rw [heq] at he; exact he
  · next s1 heq => rw [heq] at he; exact he.elim
  · next s1 heq =>
    rw [heq] at he
    split
    · next id res rest hq =>
      have h2 : Ok (MidX 0 true) f0 (rqRelease { s1 with respQ := rest }) :=
        Ok.noiseMid he ((nz_rqRelease _).pre rfl rfl rfl)
      have hs := ok_baseStartSend h2 id res
      simp only
      split
      · next s3 heq3 => rw [heq3] at hs; exact hs
      · next s3 r hne heq3 =>
        rw [heq3] at hs
        exact hs.other (fun h => hne (by rw [h]))
    · have h2 : Ok (MidX 0 true) f0 { s1 with rqRxWaker := true } := Ok.noiseMid he (NzS.of_eq rfl rfl rfl)
      exact ok_flushArm h2 (by omega) rc

/-- postcondition of `Requests::poll_next` -/
def PostReq (f0 : FS) : St × ReqPoll → Prop
  | (s', .pending) => Ok IdleX f0 s'
  | (s', .none) => Ok (fun f s => NoneX f s ∧ f.eof = true) f0 s'
  | (s', .item _) => Ok (MidX 4 false) f0 s'
  | (s', .err a) => Ok (FailX a) f0 s'
  | (s', .spin) => Bye (fo f0 s'.obs)

theorem PostCh.other {f0 : FS} {s : St} {r : SPoll Exec} (h : PostCh f0 (s, r)) (h1 : ∀ a, r ≠ .err a)
    (h2 : r ≠ .spin) : Ok (MidX 1 false) f0 s := by
  cases r with
  | err a => exact absurd rfl (h1 a)
  | spin => exact absurd rfl h2
  | _ => exact h

theorem PostPW.mid {f0 : FS} {rc : Bool} {s : St} {w : SPoll Unit} (h : PostPW f0 rc (s, w)) (h1 : ∀ a, w ≠ .err a)
    (h2 : w ≠ .spin) : Ok (MidX 4 false) f0 s := by
  cases w with
  | err a => exact absurd rfl (h1 a)
  | spin => exact absurd rfl h2
  | pending => exact Ok.mono h (fun f hX => hX.1)
  | none => exact Ok.mono h.2 (fun f hX => hX.1)
  | some u => exact Ok.mono h (fun f hX => ⟨hX.1.weaken (by omega) id, hX.2⟩)

theorem PostPW.idle {f0 : FS} {rc : Bool} {s : St} {w : SPoll Unit} (h : PostPW f0 rc (s, w)) (h1 : ∀ a, w ≠ .err a)
    (h2 : w ≠ .spin) (h3 : ∀ u, w ≠ .some u) : Ok IdleX f0 s := by
  cases w with
  | err a => exact absurd rfl (h1 a)
  | spin => exact absurd rfl h2
  | pending => exact h
  | none => exact Ok.mono h.2 (fun f hX => ⟨hX.1, hX.2.idle⟩)
  | some u => exact absurd rfl (h3 u)

theorem armRead_cfg (s : St) (r : SPoll Exec) :
    (armRead s r).ensureLoop = s.ensureLoop ∧ (armRead s r).throttleAfterRead = s.throttleAfterRead := by
  unfold armRead; split <;> simp

theorem ok_requestsPollNext (now : Nat) {f0 : FS} : ∀ (fuel : Nat) (s : St), Ok (MidX 0 false) f0 s →
    s.throttleAfterRead = false → s.ensureLoop = false → PostReq f0 (requestsPollNext fuel s now) := by
  intro fuel
  induction fuel with
  | zero => intro s h _ _; exact ok_spin h _
  | succ n ih =>
    intro s h hcfg hel
    rw [requestsPollNext_succ]
    have hch := ok_channelPollNext now h hcfg
    have hc1 := (cfg_closed s now).channelPollNext s ⟨rfl, rfl, rfl, rfl⟩
    have hf1 := channelPollNext_none_fused s now
    split
    · next s1 a heq => rw [heq] at hch; exact hch
    · next s1 heq => rw [heq] at hch; exact hch
    · next s1 read hne1 hne2 heq =>
      rw [heq] at hch hc1 hf1
      have h1 := hch.other (fun a ha => hne1 a (by rw [ha])) (fun ha => hne2 (by rw [ha]))
      have h2 : Ok (MidX 1 false) f0 (armRead s1 read) := h1.noiseMid (nz_armRead _ _)
      have hel2 : (armRead s1 read).ensureLoop = false := by
        rw [(armRead_cfg s1 read).1, hc1.2.2.1]; exact hel
      have hcfg2 : (armRead s1 read).throttleAfterRead = false := by
        rw [(armRead_cfg s1 read).2, hc1.2.2.2]; exact hcfg
      have hpw := ok_pumpWrite h2 hel2 (readClosedOf read)
      have hc3 := (cfg_closed (armRead s1 read) now).pumpWrite (armRead s1 read) (readClosedOf read) ⟨rfl, rfl, rfl, rfl⟩
      have hfw := (fused_closed now).pumpWrite (armRead s1 read) (readClosedOf read)
      split
      · next s3 a heq3 =>
        rw [heq3] at hpw
        exact Ok.noise hpw (nz_dropRead _ _) (fun f hX => ⟨hX.2, fun hp => ⟨hX.1, hp⟩⟩)
      · next s3 heq3 => rw [heq3] at hpw; exact hpw.elim
      · next s3 write hne3 hne4 heq3 =>
        rw [heq3] at hpw hc3 hfw
        split
        · have hfu : s3.readFused = true := hfw (by simpa [armRead] using hf1 rfl)
          have hpw' : readClosedOf (SPoll.none : SPoll Exec) = true ∧ Ok NoneX f0 s3 := hpw
          show Ok (fun f s => NoneX f s ∧ f.eof = true) f0 s3
          exact hpw'.2.mono (fun f hX => ⟨hX, hX.1.2.2 hfu⟩)
        · exact hpw.mid (fun a ha => hne3 a (by rw [ha])) (fun ha => hne4 (by rw [ha]))
        · exact ih s3 hpw (hc3.2.2.2.trans hcfg2) (hc3.2.2.1.trans hel2)
        · next hn1 hn2 hn3 =>
          refine hpw.idle (fun a ha => hne3 a (by rw [ha])) (fun ha => hne4 (by rw [ha])) (fun u hu => ?_)
          subst hu
          first | exact absurd rfl (hn3 u) | exact absurd rfl (hn2 u) | exact absurd rfl (hn1 u) | (cases u; exact absurd rfl hn3) | (cases u; exact absurd rfl hn2) | (cases u; exact hn3 _ rfl) | (cases u; exact hn2 _ rfl)

/-! ## between ops -/

/-- what holds between ops (clean fold, unpoisoned state): the monitor has seen no close; while the request
stream is live no transport failure has been seen, and an end of the inbound stream the model knows of has
been seen -/
structure RelF (f : FS) (s : St) : Prop where
  closed : f.m14.closed = false
  live : (s.dropped || s.done.isSome) = false →
    f.m14.failed = false ∧ f.m14.readFailed = false ∧ (s.readFused = true → f.eof = true)

abbrev RelX : FS → St → Prop := fun f s => s.poisoned = false ∧ RelF f s
/-- … at the start of an op -/
abbrev StartX : FS → St → Prop := fun f s => RelX f s ∧ f.e9 = none ∧ f.m14.readyP = 0

theorem RelX.frame {f : FS} {s s' : St} (hX : RelX f s) (hd : s'.dropped = false → s.dropped = false)
    (hdn : s'.done = s.done) (hf : s'.readFused = s.readFused) :
    s.poisoned = false ∧ (s'.poisoned = false → RelX f s') := by
  refine ⟨hX.1, fun hp => ⟨hp, hX.2.closed, fun hl => ?_⟩⟩
  simp only [Bool.or_eq_false_iff] at hl
  rw [hf]
  exact hX.2.live (by simp [hd hl.1, ← hdn, hl.2])

theorem Ok.bye_of {X : FS → St → Prop} {f0 : FS} {s : St} (h : Ok X f0 s) (hx : ∀ f, X f s → False) :
    Bye (fo f0 s.obs) := by
  rcases h with hb | ⟨_, hX⟩
  · exact hb
  · exact (hx _ hX).elim

theorem PostReq.bye_of_poisoned {f0 : FS} {s : St} {r : ReqPoll} (h : PostReq f0 (s, r)) (hp : s.poisoned = true) :
    Bye (fo f0 s.obs) := by
  cases r with
  | pending =>
    have h' : Ok IdleX f0 s := h
    exact Ok.bye_of h' (fun f hX => by have := hX.1.2.1; rw [hp] at this; cases this)
  | none =>
    have h' : Ok (fun f s => NoneX f s ∧ f.eof = true) f0 s := h
    exact Ok.bye_of h' (fun f hX => by have := hX.1.1.2.1; rw [hp] at this; cases this)
  | item r =>
    have h' : Ok (MidX 4 false) f0 s := h
    exact Ok.bye_of h' (fun f hX => by have := hX.2.1; rw [hp] at this; cases this)
  | err a =>
    have h' : Ok (FailX a) f0 s := h
    exact Ok.bye_of h' (fun f hX => by have := hX.2; rw [hp] at this; cases this)
  | spin => exact h

/-! what the `ret` observation that ends a poll does to the fold: nothing, in each of the four cases -/

theorem st_ret_pending {k g} {f : FS} (i : Nat) (hc : Clean f) (hm : MidF k g f) (hi : IdleF f) :
    fstep f (.ret (.server i) .pending) = f := by
  obtain ⟨h1, h2, h3, h4, h5⟩ := hc
  obtain ⟨⟨l1, l2, l3, l4⟩, m2, m3⟩ := hm
  cases f with
  | mk m14 e9 u10 eof spun sawSpin b14 b9 b10 =>
  simp only at h1 h2 h3 h4 h5 l1 l2 l3 l4 hi
  subst h1 h2 h3 h4 h5 l1
  rcases hi with hi | hi <;> simp only at hi <;>
    simp [fstep, isSpin, isPoison, isEof, eofBook, Client.checkC14Obs, checkC09np, checkC09, checkC10, hi, l2, l3]

theorem st_ret_none {k g} {f : FS} (i : Nat) (hc : Clean f) (hm : MidF k g f) (hn : NoneF f) (he : f.eof = true) :
    fstep f (.ret (.server i) .readyNone) = f := by
  obtain ⟨h1, h2, h3, h4, h5⟩ := hc
  obtain ⟨⟨l1, l2, l3, l4⟩, m2, m3⟩ := hm
  obtain ⟨n1, n2⟩ := hn
  cases f with
  | mk m14 e9 u10 eof spun sawSpin b14 b9 b10 =>
  simp only at h1 h2 h3 h4 h5 l1 l2 l3 l4 n1 n2 he
  subst h1 h2 h3 h4 h5 l1 n2 he
  simp [fstep, isSpin, isPoison, isEof, eofBook, Client.checkC14Obs, checkC09np, checkC09, checkC10, n1, l2, l3]

theorem st_ret_item {k g} {f : FS} (i : Nat) (hc : Clean f) (hm : MidF k g f) :
    fstep f (.ret (.server i) .readyItem) = f := by
  obtain ⟨h1, h2, h3, h4, h5⟩ := hc
  obtain ⟨⟨l1, l2, l3, l4⟩, m2, m3⟩ := hm
  cases f with
  | mk m14 e9 u10 eof spun sawSpin b14 b9 b10 =>
  simp only at h1 h2 h3 h4 h5 l1 l2 l3 l4
  subst h1 h2 h3 h4 h5 l1
  simp [fstep, isSpin, isPoison, isEof, eofBook, Client.checkC14Obs, checkC09np, checkC09, checkC10, l2, l3]

theorem st_ret_err {a : Activity} {f : FS} (i : Nat) (hc : Clean f) (hm : FailF a f) :
    fstep f (.ret (.server i) (.readyItemErr a)) = f := by
  obtain ⟨h1, h2, h3, h4, h5⟩ := hc
  obtain ⟨l1, l2⟩ := hm
  cases f with
  | mk m14 e9 u10 eof spun sawSpin b14 b9 b10 =>
  simp only at h1 h2 h3 h4 h5 l1 l2
  subst h1 h2 h3 h4 h5 l1
  simp [fstep, isSpin, isPoison, isEof, eofBook, Client.checkC14Obs, checkC09np, checkC09, checkC10]

/-- an observation that leaves a clean fold satisfying `X` alone is emitted -/
theorem Ok.emit_same {X : FS → St → Prop} {f0 : FS} {s : St} (h : Ok X f0 s) (o : Obs)
    (hs : ∀ f, Clean f → X f s → fstep f o = f) : Ok (fun f _ => X f s) f0 (emit s o) :=
  h.step o rfl (fun f hc hX => by rw [hs f hc hX]; exact ⟨hc, hX⟩)

theorem Ok.emit_silent {X : FS → St → Prop} {f0 : FS} {s : St} (h : Ok X f0 s) (o : Obs) (ho : isSilent o = true) :
    Ok (fun f _ => X f s) f0 (emit s o) :=
  h.emit_same o (fun f _ _ => fstep_silent f o ho)

theorem ok_pskFinish {f0 : FS} {s : St} {r : ReqPoll} (h : PostReq f0 (s, r)) : Ok RelX f0 (pskFinish s r) := by
  cases r with
  | pending =>
    have h1 := (Ok.emit_same h (.ret (tid s) .pending) (fun f hc hX => st_ret_pending _ hc hX.1.1 hX.2)).emit_silent
      (.counts (tid s) s.inflight.length s.timers.len) rfl
    exact h1.mono (fun f hX => ⟨hX.1.2.1, hX.1.1.live.closed,
      fun _ => ⟨hX.1.1.live.failed, hX.1.1.live.readFailed, hX.1.2.2⟩⟩)
  | none =>
    have h0 : Ok (fun f s => NoneX f s ∧ f.eof = true) f0 { s with done := some .readyNone } := h
    have h1 := (Ok.emit_same h0 (.ret (tid s) .readyNone) (fun f hc hX => st_ret_none _ hc hX.1.1.1 hX.1.2 hX.2)).emit_silent
      (.counts (tid s) s.inflight.length s.timers.len) rfl
    exact h1.mono (fun f hX => ⟨hX.1.1.2.1, hX.1.1.1.live.closed, fun hl => by simp at hl⟩)
  | err a =>
    have h0 : Ok (FailX a) f0 { s with done := some (.readyItemErr a) } := h
    have h1 := (Ok.emit_same h0 (.ret (tid s) (.readyItemErr a)) (fun f hc hX => st_ret_err _ hc hX.1)).emit_silent
      (.counts (tid s) s.inflight.length s.timers.len) rfl
    exact h1.mono (fun f hX => ⟨hX.2, hX.1.closed, fun hl => by simp at hl⟩)
  | spin =>
    exact Or.inl ((Bye.step h _).step _)
  | item rid =>
    have hfin : ∀ s1 : St, Ok (MidX 4 false) f0 s1 →
        Ok RelX f0 (emit (emit s1 (.ret (tid s1) .readyItem)) (.counts (tid s1) s1.inflight.length s1.timers.len)) := by
      intro s1 h1
      have h2 := (Ok.emit_same h1 (.ret (tid s1) .readyItem) (fun f hc hX => st_ret_item _ hc hX.1)).emit_silent
        (.counts (tid s1) s1.inflight.length s1.timers.len) rfl
      exact h2.mono (fun f hX => ⟨hX.2.1, hX.1.live.closed, fun _ => ⟨hX.1.live.failed, hX.1.live.readFailed, hX.2.2⟩⟩)
    simp only [pskFinish, pskRet]
    split
    · next e he =>
      refine hfin _ ?_
      have h0 : Ok (MidX 4 false) f0 s := h
      have h1 : Ok (MidX 4 false) f0 (updExec { s with nextVis := s.nextVis + 1 } rid (fun x => { x with vis := some s.nextVis })) :=
        Ok.noiseMid h0 ((nz_updExec _ _ _).pre rfl rfl rfl)
      exact (h1.emit_silent (.yielded s.nextVis e.id e.deadline e.trace) rfl).mono (fun f hX => ⟨hX.1, hX.2⟩)
    · exact hfin s h

theorem ok_pollServerKeep (now : Nat) {f0 : FS} {s : St} (h : Ok StartX f0 s) (hcfg : s.throttleAfterRead = false)
    (hel : s.ensureLoop = false) : Ok RelX f0 (pollServerKeep s now) := by
  rw [pollServerKeep_eq]
  split
  · exact (h.emit_silent .noop rfl).mono (fun f hX => (RelX.frame (s' := emit s .noop) hX.1 id rfl rfl).2 hX.1.1)
  · next hl =>
    simp only [Bool.or_eq_true, not_or, Bool.not_eq_true] at hl
    have h0 : Ok (MidX 0 false) f0 { s with woken := false } :=
      h.imp id (fun ⟨hc, hX⟩ =>
        have hlv := hX.1.2.live (by simp [hl.1.1, hl.1.2])
        ⟨hc, ⟨⟨hX.2.1, hlv.1, hlv.2.1, hX.1.2.closed⟩, by rw [hX.2.2]; exact Nat.le_refl 0, fun hg => by cases hg⟩, hX.1.1, hlv.2.2⟩)
    have hp := ok_requestsPollNext now (pollFuel { s with woken := false }) { s with woken := false } h0 hcfg hel
    simp only
    split
    · left
      show Bye (fstep (fo f0 s.obs) _)
      rcases h with hb | ⟨hc, _⟩
      · exact hb.step _
      · exact hc.spin _
    · split
      · next hpo => exact Or.inl (PostReq.bye_of_poisoned hp hpo)
      · exact ok_pskFinish hp

/-! ## the other ops: only silent observations -/

def loud (o : Obs) : Bool := !isSilent o

theorem fo_filter_loud (f0 : FS) (l : List Obs) : fo f0 (l.filter loud) = fo f0 l := by
  induction l with
  | nil => rfl
  | cons o l ih =>
    by_cases h : isSilent o = true
    · rw [List.filter_cons_of_neg (by simp [loud, h]), fo_cons, fstep_silent _ _ h, ih]
    · rw [List.filter_cons_of_pos (by simpa [loud] using h), fo_cons, fo_cons, ih]

theorem NzS.of_loud {s s' : St} (h : s'.obs.filter loud = s.obs.filter loud) (hp : s'.poisoned = s.poisoned)
    (hf : s'.readFused = s.readFused) : NzS s s' := by
  have he : ∀ f0, fo f0 s'.obs = fo f0 s.obs := fun f0 => by
    rw [← fo_filter_loud f0 s'.obs, h, fo_filter_loud]
  exact ⟨fun f0 hb => by rw [he]; exact hb, fun f0 _ => Or.inl (he f0), fun h => Or.inl (by rw [← hp]; exact h), hf⟩

macro "loud_tac" : tactic =>
  `(tactic| ((repeat' split) <;> (try simp [emit, updExec, loud, isSilent]) <;> (repeat' split) <;>
      (try simp [emit, updExec, loud, isSilent])))

@[simp] theorem loud_wakeServer (s : St) : (wakeServer s).obs.filter loud = s.obs.filter loud := by
  unfold wakeServer; split <;> simp [emit, loud, isSilent]

@[simp] theorem loud_wakeExec (s : St) (r : Nat) : (wakeExec s r).obs.filter loud = s.obs.filter loud := by
  unfold wakeExec; (repeat' split) <;> simp [emit, updExec, loud, isSilent]

@[simp] theorem loud_abortExec (s : St) (r : Nat) : (abortExec s r).obs.filter loud = s.obs.filter loud := by
  unfold abortExec; (repeat' split) <;> simp [emit, updExec, loud, isSilent]

@[simp] theorem loud_rqRelease (s : St) : (rqRelease s).obs.filter loud = s.obs.filter loud := by
  unfold rqRelease; split <;> simp

@[simp] theorem loud_guardDrop (s : St) (e : Exec) : (guardDrop s e).obs.filter loud = s.obs.filter loud := by
  unfold guardDrop; loud_tac

@[simp] theorem loud_queueAndFinish (s : St) (e : Exec) (res : Res) (n : Nat) :
    (queueAndFinish s e res n).obs.filter loud = s.obs.filter loud := by
  unfold queueAndFinish; loud_tac

@[simp] theorem loud_trySend (s : St) (e : Exec) (res : Res) (n : Nat) :
    (trySend s e res n).obs.filter loud = s.obs.filter loud := by
  unfold trySend; loud_tac

theorem loud_pollExec (s : St) (vid n : Nat) : (pollExec s vid n).obs.filter loud = s.obs.filter loud := by
  unfold pollExec; loud_tac

theorem loud_dropExec (s : St) (vid n : Nat) : (dropExec s vid n).obs.filter loud = s.obs.filter loud := by
  unfold dropExec; loud_tac

theorem loud_finishHandler (s : St) (vid : Nat) (res : Res) :
    (finishHandler s vid res).obs.filter loud = s.obs.filter loud := by
  unfold finishHandler; loud_tac

theorem loud_dropServer (s : St) : (dropServer s).obs.filter loud = s.obs.filter loud := by
  unfold dropServer
  split
  · simp [emit, loud, isSilent]
  · simp only
    rw [foldl_wakeExec_frame (fun s => s.obs.filter loud) (by simp)]
    simp only
    rw [foldl_abortExec_frame (fun s => s.obs.filter loud) (by simp)]

theorem loud_liftT (s : St) (r : SimT × Bool) : (liftT s r).obs.filter loud = s.obs.filter loud := by
  unfold liftT; simp only; split <;> simp

theorem loud_onAdvance (s : St) (n : Nat) : (onAdvance s n).obs.filter loud = s.obs.filter loud := by
  unfold onAdvance; (repeat' split) <;> simp

theorem loud_took (ms : List Msg) (s : St) :
    (ms.foldl (fun s m => emit s (.took (tid s) m)) s).obs.filter loud = s.obs.filter loud := by
  induction ms generalizing s with
  | nil => rfl
  | cons m ms ih => simp only [List.foldl_cons]; rw [ih]; simp [emit, loud, isSilent]

/-- the state fields the between-ops relation looks at -/
def Fr4 (s s' : St) : Prop :=
  s'.poisoned = s.poisoned ∧ s'.readFused = s.readFused ∧ s'.dropped = s.dropped ∧ s'.done = s.done

theorem fr4_closed (s0 : St) : ExecClosed (Fr4 s0) where
  inert := fun s s' hi h => by unfold Fr4 at *; rw [hi.poisoned, hi.readFused, hi.dropped, hi.done]; exact h
  emit := fun s o _ h => h
  upd := fun s r f _ h => h

theorem ok_quietOp {f0 : FS} {s s' : St} (h : Ok RelX f0 s) (hl : s'.obs.filter loud = s.obs.filter loud)
    (hfr : Fr4 s s') : Ok RelX f0 s' :=
  h.noise (NzS.of_loud hl hfr.1 hfr.2.1)
    (fun f hX => RelX.frame hX (fun h => by rw [← hfr.2.2.1]; exact h) hfr.2.2.2 hfr.2.1)

theorem ok_dropServer {f0 : FS} {s : St} (h : Ok RelX f0 s) : Ok RelX f0 (dropServer s) :=
  h.noise (NzS.of_loud (loud_dropServer s) (by simp) (by simp))
    (fun f hX => RelX.frame hX (fun hd => by
      by_cases hs : s.dropped = true
      · rw [dropServer_dropped_mono s hs] at hd; cases hd
      · rw [dropServer_dropped s (by simp [hX.1]; simpa using hs)] at hd; cases hd) (by simp) (by simp))

theorem ok_pollServer (now : Nat) {f0 : FS} {s : St} (h : Ok StartX f0 s) (hcfg : s.throttleAfterRead = false)
    (hel : s.ensureLoop = false) : Ok RelX f0 (pollServer s now) := by
  have hk := ok_pollServerKeep now h hcfg hel
  unfold pollServer
  simp only
  split
  · exact ok_dropServer hk
  · split
    · exact hk.noise (NzS.of_eq rfl rfl rfl) (fun f hX => RelX.frame hX id rfl rfl)
    · exact hk

/-- **every op keeps the between-ops relation** -/
theorem ok_applyOp {f0 : FS} (c : Sys) (op : SOp) (h : Ok StartX f0 c.s) (hcfg : c.s.throttleAfterRead = false)
    (hel : c.s.ensureLoop = false) : Ok RelX f0 (applyOp c op).s := by
  have hr : Ok RelX f0 c.s := h.mono (fun f hX => hX.1)
  cases op with
  | pollServer => exact ok_pollServer _ h hcfg hel
  | dropServer => exact ok_dropServer hr
  | pollExec r => exact ok_quietOp hr (loud_pollExec _ _ _) ((fr4_closed c.s).pollExec _ _ _ ⟨rfl, rfl, rfl, rfl⟩)
  | dropExec r => exact ok_quietOp hr (loud_dropExec _ _ _) ((fr4_closed c.s).dropExec _ _ _ ⟨rfl, rfl, rfl, rfl⟩)
  | finish r res => exact ok_quietOp hr (loud_finishHandler _ _ _) ((fr4_closed c.s).finishHandler _ _ _ ⟨rfl, rfl, rfl, rfl⟩)
  | injectReq id d tr b => exact ok_quietOp hr (loud_liftT _ _) (by unfold Fr4 applyOp liftT; simp only; split <;> simp)
  | injectCancel id tr => exact ok_quietOp hr (loud_liftT _ _) (by unfold Fr4 applyOp liftT; simp only; split <;> simp)
  | injectErr => exact ok_quietOp hr (loud_liftT _ _) (by unfold Fr4 applyOp liftT; simp only; split <;> simp)
  | eof => exact ok_quietOp hr (loud_liftT _ _) (by unfold Fr4 applyOp liftT; simp only; split <;> simp)
  | setReady b => exact ok_quietOp hr (loud_liftT _ _) (by unfold Fr4 applyOp liftT; simp only; split <;> simp)
  | setFlush b => exact ok_quietOp hr (loud_liftT _ _) (by unfold Fr4 applyOp liftT; simp only; split <;> simp)
  | fault k => exact ok_quietOp hr rfl ⟨rfl, rfl, rfl, rfl⟩
  | faultSkip n => exact ok_quietOp hr rfl ⟨rfl, rfl, rfl, rfl⟩
  | selfWake b => exact ok_quietOp hr rfl ⟨rfl, rfl, rfl, rfl⟩
  | take n =>
    refine ok_quietOp hr (loud_took _ _) ?_
    show Fr4 c.s (List.foldl (fun s m => emit s (.took (tid s) m)) { c.s with t := (c.s.t.take n).1 } (c.s.t.take n).2)
    generalize (c.s.t.take n).2 = ms
    have h0 : Fr4 c.s { c.s with t := (c.s.t.take n).1 } := ⟨rfl, rfl, rfl, rfl⟩
    revert h0
    generalize ({ c.s with t := (c.s.t.take n).1 } : St) = s1
    intro h0
    induction ms generalizing s1 with
    | nil => exact h0
    | cons m ms ih => exact ih _ h0
  | advance n =>
    exact ok_quietOp hr (loud_onAdvance _ _) (by unfold Fr4 applyOp onAdvance; simp only; (repeat' split) <;> simp)

/-! ## lifting to traces -/

/-- the fold over trace events -/
def fev (f : FS) : SEv → FS
  | .op _ => fop f
  | .obs o => fstep f o

def ftrace (f : FS) (evs : List SEv) : FS := evs.foldl fev f

theorem ftrace_obs (f : FS) (obs : List Obs) : ftrace f (obs.reverse.map SEv.obs) = fo f obs := by
  simp only [ftrace, List.foldl_map, fev, fo]
  rw [List.foldl_reverse]

theorem ftrace_append (f : FS) (a b : List SEv) : ftrace f (a ++ b) = ftrace (ftrace f a) b := by
  simp [ftrace, List.foldl_append]

theorem ftrace_cons (f : FS) (c : Sys) (op : SOp) (ops : List SOp) :
    ftrace f (trace c (op :: ops)) =
      ftrace (fo (fop f) (applyOp { c with s := { c.s with obs := [] } } op).s.obs) (trace (stepOp c op).1 ops) := by
  simp only [trace, stepOp]
  rw [ftrace, List.foldl_cons, ← ftrace, ftrace_append, ftrace_obs]
  rfl

/-- the relation between the fold so far and the state between ops -/
def Inv (f : FS) (s : St) : Prop := Bye f ∨ (Clean f ∧ RelX f s)

theorem Bye.fop {f : FS} (h : Bye f) : Bye (fop f) := by
  unfold FlowMon.fop
  split
  · exact h
  · rcases h with h | h
    · exact Or.inl h
    · rename_i hs; exact absurd h.1 hs

theorem inv_start {f : FS} {s : St} (h : Inv f s) : Ok StartX (fop f) { s with obs := [] } := by
  rcases h with hb | ⟨hc, hX⟩
  · exact Or.inl hb.fop
  · right
    have hf : fop f = { f with m14 := { f.m14 with readyP := 0 }, e9 := none } := by
      unfold fop; rw [if_neg (by simp [hc.spun])]
    show Clean (fop f) ∧ StartX (fop f) { s with obs := [] }
    rw [hf]
    exact ⟨⟨hc.spun, hc.sawSpin, hc.b14, hc.b9, hc.b10⟩, ⟨hX.1, hX.2.closed, hX.2.live⟩, rfl, rfl⟩

theorem inv_of_ok {f0 : FS} {s : St} (h : Ok RelX f0 s) : Inv (fo f0 s.obs) { s with obs := [] } :=
  h.imp id (fun ⟨hc, hX⟩ => ⟨hc, hX.1, hX.2.closed, hX.2.live⟩)

theorem inv_trace (ops : List SOp) : ∀ (c : Sys) (f : FS), Inv f c.s → c.s.throttleAfterRead = false →
    c.s.ensureLoop = false → Bye (ftrace f (trace c ops)) ∨ Clean (ftrace f (trace c ops)) := by
  induction ops with
  | nil => intro c f h _ _; exact h.imp id (fun h => h.1)
  | cons op ops ih =>
    intro c f h hcfg hel
    rw [ftrace_cons]
    have hc := cfg_reach { c with s := { c.s with obs := [] } } [op]
    exact ih (stepOp c op).1 _ (inv_of_ok (ok_applyOp { c with s := { c.s with obs := [] } } op (inv_start h) hcfg hel))
      (hc.2.2.2.trans hcfg) (hc.2.2.1.trans hel)

theorem inv_init (limit : Option Nat) (respCap tcap : Nat) (coupled : Bool) :
    Inv {} (initSys limit respCap tcap coupled).s :=
  Or.inr ⟨⟨rfl, rfl, rfl, rfl, rfl⟩, rfl, rfl, fun _ => ⟨rfl, rfl, fun h => by simp [initSys, init] at h⟩⟩

theorem fev_sawSpin (f : FS) (e : SEv) :
    (fev f e).sawSpin = (f.sawSpin || match e with | .obs o => isSpin o | .op _ => false) := by
  cases e with
  | op o => simp only [fev, fop]; split <;> simp
  | obs o => simp only [fev, fstep]; split <;> rfl

theorem sawSpin_ftrace (evs : List SEv) : ∀ f : FS, (ftrace f evs).sawSpin = true →
    f.sawSpin = true ∨ ∃ t, SEv.obs (.spin t) ∈ evs := by
  induction evs with
  | nil => intro f h; exact Or.inl h
  | cons e evs ih =>
    intro f h
    rcases ih (fev f e) h with h1 | ⟨t, ht⟩
    · rw [fev_sawSpin] at h1
      simp only [Bool.or_eq_true] at h1
      rcases h1 with h1 | h1
      · exact Or.inl h1
      · right
        cases e with
        | op o => cases h1
        | obs o =>
          cases o <;> simp [isSpin] at h1
          exact ⟨_, List.mem_cons_self ..⟩
    · exact Or.inr ⟨t, List.mem_cons_of_mem _ ht⟩

/-- no `spin` observation in any trace of the model (as `C14_server_no_spin_trace`) -/
theorem trace_no_spin (limit : Option Nat) (respCap tcap : Nat) (coupled : Bool) (ops : List SOp) :
    ∀ t, SEv.obs (Obs.spin t) ∉ trace (initSys limit respCap tcap coupled) ops := by
  have key : ∀ (ops : List SOp) (c : Sys), c.s.throttleAfterRead = false → c.s.ensureLoop = false →
      ∀ t, SEv.obs (Obs.spin t) ∉ trace c ops := by
    intro ops
    induction ops with
    | nil => intro c _ _ t h; cases h
    | cons op ops ih =>
      intro c hcfg hel t h
      have hc := cfg_reach { c with s := { c.s with obs := [] } } [op]
      have hns := NS_applyOp { c with s := { c.s with obs := [] } } op (by unfold NS; rfl) hcfg hel
      have ht : trace c (op :: ops) = SEv.op op :: ((stepOp c op).2.map SEv.obs ++ trace (stepOp c op).1 ops) := rfl
      rw [ht] at h
      simp only [List.mem_cons, List.mem_append, List.mem_map] at h
      rcases h with h | ⟨o, ho, h⟩ | h
      · cases h
      · cases h
        unfold NS hasSpin at hns
        rw [List.any_eq_false] at hns
        exact absurd rfl (hns _ (List.mem_reverse.mp ho))
      · exact ih (stepOp c op).1 (hc.2.2.2.trans hcfg) (hc.2.2.1.trans hel) t h
  exact key ops _ rfl rfl

/-- **The three folds never fire on a trace of the model.** -/
theorem flow_accepts (limit : Option Nat) (respCap tcap : Nat) (coupled : Bool) (ops : List SOp) :
    (ftrace {} (trace (initSys limit respCap tcap coupled) ops)).bad14 = false ∧
    (ftrace {} (trace (initSys limit respCap tcap coupled) ops)).bad9 = false ∧
    (ftrace {} (trace (initSys limit respCap tcap coupled) ops)).bad10 = false := by
  rcases inv_trace ops _ _ (inv_init limit respCap tcap coupled) rfl rfl with hb | hc
  · rcases hb with hs | ⟨_, h1, h2, h3⟩
    · rcases sawSpin_ftrace _ _ hs with h0 | ⟨t, ht⟩
      · cases h0
      · exact absurd ht (trace_no_spin limit respCap tcap coupled ops t)
    · exact ⟨h1, h2, h3⟩
  · exact ⟨hc.b14, hc.b9, hc.b10⟩

/-! ## the link to `Mon.run` -/

/-- the book a check sees for an event -/
def bookOf (b : Book) : SEv → Book
  | .op _ => b.endOp
  | _ => b

theorem mon_step_def {σ} (check : Book → σ → SEv → σ × Option String) (m : Mon σ) (e : SEv) :
    Mon.step check m e =
      match (if (bookOf m.book e).spun then (m.st, none) else check (bookOf m.book e) m.st e).2 with
      | some why =>
          Mon.fail { m with st := (if (bookOf m.book e).spun then (m.st, none) else check (bookOf m.book e) m.st e).1,
                            book := (m.book.step e).noteFinish e } why
      | none => { m with st := (if (bookOf m.book e).spun then (m.st, none) else check (bookOf m.book e) m.st e).1,
                         book := (m.book.step e).noteFinish e } := by
  cases e <;> rfl

@[simp] theorem endOp_spun (b : Book) : b.endOp.spun = b.spun := by
  unfold Book.endOp; simp only []; (repeat' split) <;> rfl
@[simp] theorem endOp_eofSeen (b : Book) : b.endOp.eofSeen = b.eofSeen := by
  unfold Book.endOp; simp only []; (repeat' split) <;> rfl
@[simp] theorem sweepOne_spun (b : Book) : b.sweepOne.spun = b.spun := by
  unfold Book.sweepOne; simp only []; (repeat' split) <;> rfl
@[simp] theorem sweepOne_eofSeen (b : Book) : b.sweepOne.eofSeen = b.eofSeen := by
  unfold Book.sweepOne; simp only []; (repeat' split) <;> rfl
@[simp] theorem updExec_spun (b : Book) (r f) : (b.updExec r f).spun = b.spun := rfl
@[simp] theorem updExec_eofSeen (b : Book) (r f) : (b.updExec r f).eofSeen = b.eofSeen := rfl
@[simp] theorem untrack_spun (b : Book) (id) : (b.untrack id).spun = b.spun := rfl
@[simp] theorem untrack_eofSeen (b : Book) (id) : (b.untrack id).eofSeen = b.eofSeen := rfl
@[simp] theorem sweep_spun (b : Book) : b.sweep.spun = b.spun := rfl
@[simp] theorem sweep_eofSeen (b : Book) : b.sweep.eofSeen = b.eofSeen := rfl
@[simp] theorem noteFinish_spun (b : Book) (e : SEv) : (b.noteFinish e).spun = b.spun := by
  unfold Book.noteFinish; split <;> rfl
@[simp] theorem noteFinish_eofSeen (b : Book) (e : SEv) : (b.noteFinish e).eofSeen = b.eofSeen := by
  unfold Book.noteFinish; split <;> rfl

@[simp] theorem bookOf_spun (b : Book) (e : SEv) : (bookOf b e).spun = b.spun := by
  cases e <;> simp [bookOf]
@[simp] theorem bookOf_eofSeen (b : Book) (e : SEv) : (bookOf b e).eofSeen = b.eofSeen := by
  cases e <;> simp [bookOf]

def poisonEv : SEv → Bool
  | .obs o => isPoison o
  | .op _ => false

def eofEv : SEv → Bool
  | .obs o => isEof o
  | .op _ => false

theorem step_spun (b : Book) (e : SEv) : (b.step e).spun = (b.spun || poisonEv e) := by
  cases e with
  | op o => cases o <;> simp [Book.step, poisonEv]
  | obs o =>
    cases o with
    | tNext ep r =>
      cases r with
      | item m => cases m <;> (try simp [Book.step, poisonEv, isPoison]) <;> (repeat' split) <;> (try simp)
      | _ => (try simp [Book.step, poisonEv, isPoison]) <;> (repeat' split) <;> (try simp)
    | tSend ep m ok => cases m <;> (try simp [Book.step, poisonEv, isPoison]) <;> (repeat' split) <;> (try simp)
    | ret t r => cases t <;> cases r <;> (try simp [Book.step, poisonEv, isPoison]) <;> (repeat' split) <;> (try simp)
    | handler r ev t => cases ev <;> (try simp [Book.step, poisonEv, isPoison]) <;> (repeat' split) <;> (try simp)
    | counts ep a b => cases ep <;> (try simp [Book.step, poisonEv, isPoison]) <;> (repeat' split) <;> (try simp)
    | _ => (try simp [Book.step, poisonEv, isPoison]) <;> (repeat' split) <;> (try simp)

theorem step_eofSeen (b : Book) (e : SEv) : (b.step e).eofSeen = (b.eofSeen || eofEv e) := by
  cases e with
  | op o => cases o <;> simp [Book.step, eofEv]
  | obs o =>
    cases o with
    | tNext ep r =>
      cases r with
      | item m => cases m <;> (try simp [Book.step, eofEv, isEof]) <;> (repeat' split) <;> (try simp)
      | _ => (try simp [Book.step, eofEv, isEof]) <;> (repeat' split) <;> (try simp)
    | tSend ep m ok => cases m <;> (try simp [Book.step, eofEv, isEof]) <;> (repeat' split) <;> (try simp)
    | ret t r => cases t <;> cases r <;> (try simp [Book.step, eofEv, isEof]) <;> (repeat' split) <;> (try simp)
    | handler r ev t => cases ev <;> (try simp [Book.step, eofEv, isEof]) <;> (repeat' split) <;> (try simp)
    | counts ep a b => cases ep <;> (try simp [Book.step, eofEv, isEof]) <;> (repeat' split) <;> (try simp)
    | _ => (try simp [Book.step, eofEv, isEof]) <;> (repeat' split) <;> (try simp)

theorem fev_spun (f : FS) (e : SEv) : (fev f e).spun = (f.spun || poisonEv e) := by
  cases e with
  | op o => simp only [fev, fop, poisonEv]; split <;> simp
  | obs o => simp only [fev, fstep, poisonEv]; split <;> simp [*]

theorem fev_eof (f : FS) (e : SEv) (h : f.spun = false) : (fev f e).eof = (f.eof || eofEv e) := by
  cases e with
  | op o => simp [fev, fop, eofEv, h]
  | obs o => simp [fev, fstep, eofEv, h]

theorem fail_book {σ : Type} (m : Mon σ) (w : String) : (m.fail w).book = m.book := by
  unfold Mon.fail; split <;> rfl
theorem fail_st {σ : Type} (m : Mon σ) (w : String) : (m.fail w).st = m.st := by
  unfold Mon.fail; split <;> rfl

/-- simulation between a monitor run and (a projection of) the fold -/
structure SimG {σ : Type} (proj : FS → σ) (badp : FS → Bool) (m : Mon σ) (f : FS) : Prop where
  spun : m.book.spun = f.spun
  eof : f.spun = false → m.book.eofSeen = f.eof
  st : m.st = proj f
  bad : badp f = false → m.bad = none

theorem simG_step {σ : Type} (check : Book → σ → SEv → σ × Option String) (proj : FS → σ) (badp : FS → Bool)
    (hfrozen : ∀ f e, f.spun = true → proj (fev f e) = proj f ∧ badp (fev f e) = badp f)
    (hlive : ∀ (b : Book) f e, f.spun = false → b.eofSeen = f.eof →
      proj (fev f e) = (check b (proj f) e).1 ∧ badp (fev f e) = (badp f || (check b (proj f) e).2.isSome))
    (m : Mon σ) (f : FS) (e : SEv) (h : SimG proj badp m f) : SimG proj badp (Mon.step check m e) (fev f e) := by
  rw [mon_step_def]
  cases hs : f.spun with
  | true =>
    have hbs : (bookOf m.book e).spun = true := by rw [bookOf_spun, h.spun, hs]
    simp only [hbs, if_true]
    obtain ⟨hp, hb⟩ := hfrozen f e hs
    refine ⟨?_, ?_, ?_, ?_⟩
    · simp [step_spun, fev_spun, h.spun, hs]
    · intro hf; rw [fev_spun, hs] at hf; simp at hf
    · rw [hp]; exact h.st
    · rw [hb]; exact h.bad
  | false =>
    have hbs : (bookOf m.book e).spun = false := by rw [bookOf_spun, h.spun, hs]
    simp only [hbs, Bool.false_eq_true, if_false]
    obtain ⟨hp, hb⟩ := hlive (bookOf m.book e) f e hs (by rw [bookOf_eofSeen]; exact h.eof hs)
    rw [← h.st] at hp hb
    have hspun : ((m.book.step e).noteFinish e).spun = (fev f e).spun := by
      simp [step_spun, fev_spun, h.spun]
    have heof : (fev f e).spun = false → ((m.book.step e).noteFinish e).eofSeen = (fev f e).eof := by
      intro _; simp [step_eofSeen, fev_eof f e hs, h.eof hs]
    cases hc : (check (bookOf m.book e) m.st e).2 with
    | none =>
      rw [hc] at hb
      exact ⟨hspun, heof, hp.symm, fun hbad => h.bad (by rw [hb] at hbad; simpa using hbad)⟩
    | some why =>
      rw [hc] at hb
      refine ⟨?_, ?_, ?_, fun hbad => ?_⟩
      · rw [fail_book]; exact hspun
      · rw [fail_book]; exact heof
      · rw [fail_st]; exact hp.symm
      · rw [hb] at hbad; simp at hbad

theorem simG_run {σ : Type} (check : Book → σ → SEv → σ × Option String) (proj : FS → σ) (badp : FS → Bool)
    (hfrozen : ∀ f e, f.spun = true → proj (fev f e) = proj f ∧ badp (fev f e) = badp f)
    (hlive : ∀ (b : Book) f e, f.spun = false → b.eofSeen = f.eof →
      proj (fev f e) = (check b (proj f) e).1 ∧ badp (fev f e) = (badp f || (check b (proj f) e).2.isSome))
    (evs : List SEv) : ∀ (m : Mon σ) (f : FS), SimG proj badp m f →
      SimG proj badp (evs.foldl (Mon.step check) m) (ftrace f evs) := by
  induction evs with
  | nil => intro m f h; exact h
  | cons e evs ih => intro m f h; exact ih _ _ (simG_step check proj badp hfrozen hlive m f e h)

theorem fev_frozen (f : FS) (e : SEv) (h : f.spun = true) :
    (fev f e).m14 = f.m14 ∧ (fev f e).e9 = f.e9 ∧ (fev f e).u10 = f.u10 ∧ (fev f e).bad14 = f.bad14 ∧
    (fev f e).bad9 = f.bad9 ∧ (fev f e).bad10 = f.bad10 := by
  cases e with
  | op o => simp [fev, fop, h]
  | obs o => simp [fev, fstep, h]

/-- **`monC14` runs in step with the fold.** -/
theorem sim14_run (limit : Option Nat) (evs : List SEv) :
    SimG (·.m14) (·.bad14) (monC14 limit evs) (ftrace {} evs) := by
  refine simG_run checkC14 _ _ (fun f e h => ?_) (fun b f e h _ => ?_) evs _ _ ⟨rfl, fun _ => rfl, rfl, fun _ => rfl⟩
  · have := fev_frozen f e h; exact ⟨this.1, this.2.2.2.1⟩
  · cases e with
    | op o => simp [fev, fop, h, checkC14]
    | obs o => simp [fev, fstep, h, checkC14]

theorem checkC09np_book (b : Book) (st : C09St) (e : SEv) : checkC09np b st e = checkC09np {} st e := by
  unfold checkC09np
  split
  · rfl
  · unfold checkC09; rfl

/-- **`monC09np` runs in step with the fold.** -/
theorem sim9_run (limit : Option Nat) (evs : List SEv) :
    SimG (·.e9) (·.bad9) (monC09np limit evs) (ftrace {} evs) := by
  refine simG_run checkC09np _ _ (fun f e h => ?_) (fun b f e h _ => ?_) evs _ _ ⟨rfl, fun _ => rfl, rfl, fun _ => rfl⟩
  · have := fev_frozen f e h; exact ⟨this.2.1, this.2.2.2.2.1⟩
  · rw [checkC09np_book]
    cases e with
    | op o => simp [fev, fop, h, checkC09np, checkC09]
    | obs o => simp [fev, fstep, h]

theorem checkC10_book (b : Book) (st : Nat) (e : SEv) : checkC10 b st e = checkC10 (eofBook b.eofSeen) st e := by
  unfold checkC10; split <;> rfl

/-- **`monC10` runs in step with the fold.** -/
theorem sim10_run (limit : Option Nat) (evs : List SEv) :
    SimG (·.u10) (·.bad10) (monC10 limit evs) (ftrace {} evs) := by
  refine simG_run checkC10 _ _ (fun f e h => ?_) (fun b f e h hb => ?_) evs _ _ ⟨rfl, fun _ => rfl, rfl, fun _ => rfl⟩
  · have := fev_frozen f e h; exact ⟨this.2.2.1, this.2.2.2.2.2⟩
  · rw [checkC10_book, hb]
    cases e with
    | op o => simp [fev, fop, h, checkC10]
    | obs o => simp [fev, fstep, h]

end TarpcModel.Server.FlowMon

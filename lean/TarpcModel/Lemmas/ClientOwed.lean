import TarpcModel.Lemmas.ClientDrain
/-!
# Judging a client trace event by event

* `bookOf b evs`: the monitors' book after the events `evs`; its fields as functions of the observations
  (`obsBook_*`).
* `mon_accepts_of_splits`: a monitor accepts a trace if its checker passes at every position of the trace, given the
  book at that position.
* `trace_positions`: every position of the trace of a script lies in the segment of one op; a property of
  (book at the position, event) follows from an invariant `I (state, book)` of op boundaries and a per-op argument.
-/
set_option linter.unusedSimpArgs false
set_option linter.unusedVariables false
namespace TarpcModel.Client

/-- the book after the events `evs` -/
def bookOf (b : Book) (evs : List CEv) : Book := evs.foldl Book.step b

@[simp] theorem bookOf_nil (b : Book) : bookOf b [] = b := rfl
@[simp] theorem bookOf_cons (b : Book) (e : CEv) (evs : List CEv) : bookOf b (e :: evs) = bookOf (b.step e) evs := rfl
theorem bookOf_append (b : Book) (l1 l2 : List CEv) : bookOf b (l1 ++ l2) = bookOf (bookOf b l1) l2 := by
  unfold bookOf; rw [List.foldl_append]

theorem foldl_mon_book {σ : Type} (check : Book → σ → CEv → σ × Option String) (m : Mon σ) (evs : List CEv) :
    (evs.foldl (Mon.step check) m).book = bookOf m.book evs := by
  induction evs generalizing m with
  | nil => rfl
  | cons e evs ih => simp only [List.foldl_cons, bookOf_cons]; rw [ih, Mon.step_book]

/-- the book a checker sees at an event -/
def preBook (b : Book) : CEv → Book
  | .op _ => b.endOp
  | _ => b

/-- **A monitor accepts if its checker passes at every position.** -/
theorem mon_accepts_of_splits {σ : Type} (check : Book → σ → CEv → σ × Option String) (m : Mon σ) (evs : List CEv)
    (hb : m.bad = none)
    (h : ∀ pre e post, evs = pre ++ e :: post → ∀ st, (preBook (bookOf m.book pre) e).spun = false →
      (check (preBook (bookOf m.book pre) e) st e).2 = none) :
    (evs.foldl (Mon.step check) m).bad = none := by
  induction evs generalizing m with
  | nil => exact hb
  | cons e evs ih =>
    simp only [List.foldl_cons]
    refine ih _ ?_ ?_
    · rw [Mon.step_bad, hb]
      simp only
      unfold Mon.res Mon.pre
      have := h [] e evs rfl m.st
      simp only [bookOf_nil] at this
      cases e with
      | op o =>
        simp only [preBook] at this ⊢
        split
        · rfl
        · rename_i hs; exact this (by simpa using hs)
      | obs o =>
        simp only [preBook] at this ⊢
        split
        · rfl
        · rename_i hs; exact this (by simpa using hs)
    · intro pre e' post he st
      rw [Mon.step_book]
      have := h (e :: pre) e' post (by rw [he]; rfl) st
      simpa using this

/-- **Every position of a trace lies in the segment of one op.**  `I` is an invariant of op boundaries (model state,
book, the ops still to come); `P` is what is to be shown of the book at a position and the event there. -/
theorem trace_positions (I : Sys → Book → List COp → Prop) (P : Book → CEv → Prop)
    (hop : ∀ c bk op ops, I c bk (op :: ops) → P bk (.op op))
    (hobs : ∀ c bk op ops os1 o os2, I c bk (op :: ops) → (stepOp c op).2 = os1 ++ o :: os2 →
      P (bookOf (bk.step (.op op)) (os1.map CEv.obs)) (.obs o))
    (hnext : ∀ c bk op ops, I c bk (op :: ops) →
      I (stepOp c op).1 (bookOf (bk.step (.op op)) ((stepOp c op).2.map CEv.obs)) ops)
    (ops : List COp) (c : Sys) (bk : Book) (hI : I c bk ops) :
    ∀ pre e post, trace c ops = pre ++ e :: post → P (bookOf bk pre) e := by
  induction ops generalizing c bk with
  | nil => intro pre e post h; simp [trace] at h
  | cons op ops ih =>
    intro pre e post h
    rw [trace_cons] at h
    cases pre with
    | nil =>
      simp only [List.nil_append, List.cons.injEq] at h
      rw [← h.1]
      exact hop c bk op ops hI
    | cons e0 pre' =>
      simp only [List.cons_append, List.cons.injEq] at h
      obtain ⟨h0, h1⟩ := h
      subst h0
      simp only [bookOf_cons]
      -- the position is among the observations of this op, or later
      rcases List.append_eq_append_iff.mp h1 with ⟨a', ha1, ha2⟩ | ⟨c', hc1, hc2⟩
      · -- `pre' = obs ++ a'`: the position is in the rest of the trace
        rw [ha1, bookOf_append]
        exact ih _ _ (hnext c bk op ops hI) a' e post ha2
      · -- `obs = pre' ++ c'`, `c' ++ rest = e :: post`
        cases c' with
        | nil =>
          simp only [List.append_nil] at hc1
          simp only [List.nil_append] at hc2
          rw [← hc1]
          exact ih _ _ (hnext c bk op ops hI) [] e post hc2.symm
        | cons e1 c'' =>
          simp only [List.cons_append, List.cons.injEq] at hc2
          obtain ⟨rfl, _⟩ := hc2
          -- split the observation list of the op accordingly
          obtain ⟨os1, rest, hos, hm1, hm2⟩ := List.map_eq_append_iff.mp hc1
          cases rest with
          | nil => simp at hm2
          | cons o os2 =>
            simp only [List.map_cons, List.cons.injEq] at hm2
            rw [← hm1, ← hm2.1]
            exact hobs c bk op ops os1 o os2 hI hos

/-! ### the book as a function of the observations of an op -/

/-- what sets `Book.failed` -/
def isFail : Obs → Bool
  | .tReady _ .err => true
  | .tFlush _ .err => true
  | .tClose _ .err => true
  | .tNext _ .err => true
  | .tSend _ (.cancel _ _) false => true
  | _ => false

/-- `Response id` was read -/
def isRead (id : Nat) : Obs → Bool
  | .tNext _ (.item (.response i _)) => i == id
  | _ => false

/-- `Cancel id` was written -/
def isCancelOk (id : Nat) : Obs → Bool
  | .tSend _ (.cancel i _) true => i == id
  | _ => false

/-- a `Request` write -/
def isReq : Obs → Bool
  | .tSend _ (.request _ _ _ _) _ => true
  | _ => false

theorem step_obs_topPoll (b : Book) (o : Obs) : (b.step (.obs o)).topPoll = b.topPoll := by
  cases o with
  | tSend ep m ok => cases m <;> (try cases ok) <;> rfl
  | tNext ep r => cases r with
    | item m => cases m <;> rfl
    | _ => rfl
  | tReady ep r => cases r <;> rfl
  | tFlush ep r => cases r <;> rfl
  | tClose ep r => cases r <;> rfl
  | ret t r => cases t <;> (try (unfold Book.step; simp only; split)) <;> rfl
  | _ => rfl

theorem step_obs_now (b : Book) (o : Obs) : (b.step (.obs o)).now = b.now := by
  cases o with
  | tSend ep m ok => cases m <;> (try cases ok) <;> rfl
  | tNext ep r => cases r with
    | item m => cases m <;> rfl
    | _ => rfl
  | tReady ep r => cases r <;> rfl
  | tFlush ep r => cases r <;> rfl
  | tClose ep r => cases r <;> rfl
  | ret t r => cases t <;> (try (unfold Book.step; simp only; split)) <;> rfl
  | _ => rfl

theorem step_obs_pollReadyP (b : Book) (o : Obs) : (b.step (.obs o)).pollReadyP = (b.pollReadyP || readyP o) := by
  cases o with
  | tSend ep m ok => cases m <;> (try cases ok) <;> simp [Book.step, readyP]
  | tNext ep r => cases r with
    | item m => cases m <;> simp [Book.step, readyP]
    | _ => simp [Book.step, readyP]
  | tReady ep r => cases r <;> simp [Book.step, readyP]
  | tFlush ep r => cases r <;> simp [Book.step, readyP]
  | tClose ep r => cases r <;> simp [Book.step, readyP]
  | ret t r => cases t <;> simp [Book.step, readyP] <;> split <;> simp
  | resolved c o t => simp [Book.step, readyP, Book.updCall]
  | _ => simp [Book.step, readyP]

theorem step_obs_failed (b : Book) (o : Obs) : (b.step (.obs o)).failed = (b.failed || isFail o) := by
  cases o with
  | tSend ep m ok => cases m <;> (try cases ok) <;> simp [Book.step, isFail]
  | tNext ep r => cases r with
    | item m => cases m <;> simp [Book.step, isFail]
    | _ => simp [Book.step, isFail]
  | tReady ep r => cases r <;> simp [Book.step, isFail]
  | tFlush ep r => cases r <;> simp [Book.step, isFail]
  | tClose ep r => cases r <;> simp [Book.step, isFail]
  | ret t r => cases t <;> simp [Book.step, isFail] <;> split <;> simp
  | resolved c o t => simp [Book.step, isFail, Book.updCall]
  | _ => simp [Book.step, isFail]

/-- the book after the observations `os` -/
abbrev obsBook (b : Book) (os : List Obs) : Book := bookOf b (os.map CEv.obs)

theorem obsBook_cons (b : Book) (o : Obs) (os : List Obs) : obsBook b (o :: os) = obsBook (b.step (.obs o)) os := rfl

theorem obsBook_topPoll (b : Book) (os : List Obs) : (obsBook b os).topPoll = b.topPoll := by
  induction os generalizing b with
  | nil => rfl
  | cons o os ih => rw [obsBook_cons, ih, step_obs_topPoll]

theorem obsBook_now (b : Book) (os : List Obs) : (obsBook b os).now = b.now := by
  induction os generalizing b with
  | nil => rfl
  | cons o os ih => rw [obsBook_cons, ih, step_obs_now]

theorem obsBook_pollReadyP (b : Book) (os : List Obs) : (obsBook b os).pollReadyP = (b.pollReadyP || os.any readyP) := by
  induction os generalizing b with
  | nil => simp [obsBook]
  | cons o os ih => rw [obsBook_cons, ih, step_obs_pollReadyP]; simp [Bool.or_assoc]

theorem obsBook_failed (b : Book) (os : List Obs) : (obsBook b os).failed = (b.failed || os.any isFail) := by
  induction os generalizing b with
  | nil => simp [obsBook]
  | cons o os ih => rw [obsBook_cons, ih, step_obs_failed]; simp [Bool.or_assoc]

theorem obsBook_spun (b : Book) (os : List Obs) : (obsBook b os).spun = (b.spun || os.any isStop) := by
  induction os generalizing b with
  | nil => simp [obsBook]
  | cons o os ih => rw [obsBook_cons, ih, Book.spun_step]; simp [Bool.or_assoc]

/-- the sends, reads and cancels only grow -/
theorem step_obs_sends_mono (b : Book) (o : Obs) : ∀ sd ∈ b.sends, sd ∈ (b.step (.obs o)).sends := by
  intro sd hsd
  cases o with
  | tSend ep m ok => cases m <;> (try cases ok) <;> simp [Book.step, hsd]
  | tNext ep r => cases r with
    | item m => cases m <;> simp [Book.step, hsd]
    | _ => simp [Book.step, hsd]
  | tReady ep r => cases r <;> simp [Book.step, hsd]
  | tFlush ep r => cases r <;> simp [Book.step, hsd]
  | tClose ep r => cases r <;> simp [Book.step, hsd]
  | ret t r => cases t <;> simp [Book.step, hsd] <;> split <;> simp [hsd]
  | resolved c o t => simp [Book.step, Book.updCall, hsd]
  | _ => simp [Book.step, hsd]

theorem step_obs_reads_mono (b : Book) (o : Obs) : ∀ rd ∈ b.reads, rd ∈ (b.step (.obs o)).reads := by
  intro rd hrd
  cases o with
  | tSend ep m ok => cases m <;> (try cases ok) <;> simp [Book.step, hrd]
  | tNext ep r => cases r with
    | item m => cases m <;> simp [Book.step, hrd]
    | _ => simp [Book.step, hrd]
  | tReady ep r => cases r <;> simp [Book.step, hrd]
  | tFlush ep r => cases r <;> simp [Book.step, hrd]
  | tClose ep r => cases r <;> simp [Book.step, hrd]
  | ret t r => cases t <;> simp [Book.step, hrd] <;> split <;> simp [hrd]
  | resolved c o t => simp [Book.step, Book.updCall, hrd]
  | _ => simp [Book.step, hrd]

theorem step_obs_cancels_mono (b : Book) (o : Obs) : ∀ p ∈ b.cancels, p ∈ (b.step (.obs o)).cancels := by
  intro p hp
  cases o with
  | tSend ep m ok => cases m <;> (try cases ok) <;> simp [Book.step, hp]
  | tNext ep r => cases r with
    | item m => cases m <;> simp [Book.step, hp]
    | _ => simp [Book.step, hp]
  | tReady ep r => cases r <;> simp [Book.step, hp]
  | tFlush ep r => cases r <;> simp [Book.step, hp]
  | tClose ep r => cases r <;> simp [Book.step, hp]
  | ret t r => cases t <;> simp [Book.step, hp] <;> split <;> simp [hp]
  | resolved c o t => simp [Book.step, Book.updCall, hp]
  | _ => simp [Book.step, hp]

theorem obsBook_sends_mono (b : Book) (os : List Obs) : ∀ sd ∈ b.sends, sd ∈ (obsBook b os).sends := by
  induction os generalizing b with
  | nil => exact fun _ h => h
  | cons o os ih => intro sd hsd; rw [obsBook_cons]; exact ih _ sd (step_obs_sends_mono b o sd hsd)

theorem obsBook_reads_mono (b : Book) (os : List Obs) : ∀ rd ∈ b.reads, rd ∈ (obsBook b os).reads := by
  induction os generalizing b with
  | nil => exact fun _ h => h
  | cons o os ih => intro rd hrd; rw [obsBook_cons]; exact ih _ rd (step_obs_reads_mono b o rd hrd)

theorem obsBook_cancels_mono (b : Book) (os : List Obs) : ∀ p ∈ b.cancels, p ∈ (obsBook b os).cancels := by
  induction os generalizing b with
  | nil => exact fun _ h => h
  | cons o os ih => intro p hp; rw [obsBook_cons]; exact ih _ p (step_obs_cancels_mono b o p hp)

/-- a `Response id` observed is recorded as a read -/
theorem obsBook_read (b : Book) (os : List Obs) (id : Nat) (h : os.any (isRead id) = true) :
    ∃ rd ∈ (obsBook b os).reads, rd.id = id := by
  induction os generalizing b with
  | nil => simp at h
  | cons o os ih =>
    rw [obsBook_cons]
    simp only [List.any_cons, Bool.or_eq_true] at h
    rcases h with h | h
    · cases o with
      | tNext ep r =>
        cases r with
        | item m =>
          cases m with
          | response i res =>
            simp only [isRead, beq_iff_eq] at h
            refine ⟨{ id := i, res := res, time := b.now, sentBefore := (b.sends.any (fun s => s.id == i && s.ok)) },
              obsBook_reads_mono _ os _ ?_, h⟩
            simp [Book.step]
          | _ => simp [isRead] at h
        | _ => simp [isRead] at h
      | _ => simp [isRead] at h
    · exact ih _ h

/-- a successful `Cancel id` observed is recorded -/
theorem obsBook_cancel (b : Book) (os : List Obs) (id : Nat) (h : os.any (isCancelOk id) = true) :
    ∃ p ∈ (obsBook b os).cancels, p.1 = id := by
  induction os generalizing b with
  | nil => simp at h
  | cons o os ih =>
    rw [obsBook_cons]
    simp only [List.any_cons, Bool.or_eq_true] at h
    rcases h with h | h
    · cases o with
      | tSend ep m ok =>
        cases m with
        | cancel i tr =>
          cases ok with
          | true =>
            simp only [isCancelOk, beq_iff_eq] at h
            refine ⟨(i, tr, b.writes), obsBook_cancels_mono _ os _ ?_, h⟩
            simp [Book.step]
          | false => simp [isCancelOk] at h
        | _ => simp [isCancelOk] at h
      | _ => simp [isCancelOk] at h
    · exact ih _ h

/-- a send recorded during the observations `os` was observed as a `Request` write -/
theorem obsBook_sends_new (b : Book) (os : List Obs) :
    ∀ sd ∈ (obsBook b os).sends, sd ∈ b.sends ∨
      ∃ ep tr, Obs.tSend ep (.request sd.id sd.deadline tr sd.body) sd.ok ∈ os := by
  induction os generalizing b with
  | nil => exact fun _ h => Or.inl h
  | cons o os ih =>
    intro sd hsd
    rw [obsBook_cons] at hsd
    rcases ih _ sd hsd with h | ⟨ep, tr, h⟩
    · -- recorded by the step of `o`, or before
      cases o with
      | tSend ep m ok =>
        cases m with
        | request id d tr body =>
          simp only [Book.step, List.mem_append, List.mem_singleton] at h
          rcases h with h | h
          · exact Or.inl h
          · right; subst h; exact ⟨ep, tr, List.mem_cons_self⟩
        | cancel i tr => cases ok <;> (simp only [Book.step] at h; exact Or.inl h)
        | response i res => exact Or.inl h
      | tNext ep r =>
        cases r with
        | item m => cases m <;> exact Or.inl h
        | _ => exact Or.inl h
      | tReady ep r => cases r <;> exact Or.inl h
      | tFlush ep r => cases r <;> exact Or.inl h
      | tClose ep r => cases r <;> exact Or.inl h
      | ret t r =>
        cases t <;> first
          | exact Or.inl h
          | (simp only [Book.step] at h; split at h <;> exact Or.inl h)
      | resolved c o t => exact Or.inl h
      | _ => exact Or.inl h
    · exact Or.inr ⟨ep, tr, List.mem_cons_of_mem _ h⟩

end TarpcModel.Client

import TarpcModel.Lemmas.ServerTab7
/-!
The last clause of the C11 monitor (`checkC11Bound`), part 3: the fourth coupling (`Tab.Z`) over whole scripts — the
ops on executions (`poll-exec`, `drop-exec` with the book's `endOp`), the other ops, the invariant between ops
(`OInvZ`), and the acceptance theorem `c11_bound_accepts`.
-/
namespace TarpcModel.Server.Tab
open TarpcModel TarpcModel.Server TarpcModel.Server.Flow TarpcModel.Server.ObsMon TarpcModel.Server.Mon06
open TarpcModel.Server.Mon11
set_option linter.unusedSimpArgs false
set_option linter.unusedVariables false

theorem bo_view_noncore (b : Book) : ∀ (l : List Obs), (∀ o ∈ l, isCore o = false) → bview (bo b l) = bview b := by
  intro l
  induction l with
  | nil => intro _; rfl
  | cons o l ih =>
    intro h
    rw [bo_cons, step_not_core_view _ o (h o (List.mem_cons_self ..))]
    exact ih (fun o' ho' => h o' (List.mem_cons_of_mem _ ho'))

/-- the book's execution numbered `r` exists and is not gone (wide view) -/
def freshW (l : List WB) (r : Nat) : Bool :=
  match l.find? (·.rid == r) with
  | some x => !x.gone
  | none => false

def freshB (b : Book) (r : Nat) : Bool :=
  match b.exec r with
  | some e => !e.gone
  | none => false

theorem endOp_ao_some' (b : Book) (r : Nat) (hc : b.curDropExec = some r) :
    b.endOp.abandonOrder = if freshB b r then b.abandonOrder ++ [r] else b.abandonOrder := by
  rw [endOp_ao_some b r hc]
  unfold freshB
  cases b.exec r <;> rfl

theorem fresh_bw (b : Book) (r : Nat) : freshB b r = freshW (bw b).execs r := by
  unfold freshB freshW Book.exec bw
  simp only
  rw [List.find?_map]
  have : ((fun x : WB => x.rid == r) ∘ wb) = (fun e : BExec => e.rid == r) := rfl
  rw [this]
  cases b.execs.find? (fun e => e.rid == r) <;> rfl

theorem freshW_map (l : List WB) (f : WB → WB) (hf : ∀ x, (f x).rid = x.rid ∧ ((f x).gone = true ↔ x.gone = true)) (r : Nat) :
    freshW (l.map f) r = freshW l r := by
  unfold freshW
  rw [List.find?_map]
  have : ((fun x : WB => x.rid == r) ∘ f) = (fun x : WB => x.rid == r) := by
    funext x; simp [(hf x).1]
  rw [this]
  cases l.find? (fun x => x.rid == r) with
  | none => rfl
  | some x =>
    simp only [Option.map_some]
    cases hg : x.gone with
    | true => rw [(hf x).2.mpr hg]
    | false =>
      cases hg' : (f x).gone with
      | false => rfl
      | true => rw [(hf x).2.mp hg'] at hg; cases hg

/-! ## `poll-exec` -/

theorem Z_pollExec {m : Option Bool} {b : Book} {s : St} (vid n : Nat) (h0 : s.obs = []) (hcd : b.curDropExec = none)
    (hZ : Z none m (bw b) b.abandonOrder (mv s)) :
    Z none m (bw (bo b (pollExec s vid n).obs).endOp) (bo b (pollExec s vid n).obs).endOp.abandonOrder
      (mv (pollExec s vid n)) := by
  have hcd' : (bo b (pollExec s vid n).obs).curDropExec = none := by rw [bo_curDropExec]; exact hcd
  rw [bw_endOp_none _ hcd', endOp_ao_none _ hcd']
  have hcoreF : (pollExec s vid n).obs.filter isCore = [] := by
    rw [fx_pollExec isCore_execQuiet, h0]; rfl
  have hcore := noncore_of_filter hcoreF
  have hview := bo_view_noncore b _ hcore
  have hao : (bo b (pollExec s vid n).obs).abandonOrder = b.abandonOrder := congrArg BV.ao hview
  rw [hao]
  rcases pollExec_out s vid n with ⟨e, hg, hl, hout⟩ | ⟨hnl, heq⟩
  · obtain ⟨g, hge, hga⟩ := hout.ex
    obtain ⟨l, hlo, hlv, hfin⟩ := hout.obs
    rw [h0, List.append_nil] at hlo
    rw [hlo] at hcore ⊢
    obtain ⟨f, hf1, hf2, hf3, hf4⟩ := gone_fold b vid l hcore hlv
    refine hZ.model ?_ (fun p hp _ => by rw [hf3]; exact hp) s.execs ye (ye ∘ g) rfl
      (by show (pollExec s vid n).execs.map ye = _; rw [hge, List.map_map])
      (fun a _ => ⟨(hga a).1, (hga a).2.2.1⟩) ?_ (fun _ => hout.cq)
    · intro r i ⟨eb, h1, h2, h3⟩
      exact ⟨f eb, by rw [hf1]; exact List.mem_map_of_mem h1, (hf2 eb).1.trans h2, (hf2 eb).2.1.trans h3⟩
    · intro en' hen'
      have : (mv (pollExec s vid n)).ents = (mv s).ents := congrArg (List.map ze) (pollExec_inflight s vid n)
      rw [← this]; exact hen'
  · rw [heq]
    have hmv : mv (emit s .noop) = mv s := rfl
    rw [hmv]
    have hbw : bw (bo b (emit s Obs.noop).obs) = bw b := by rw [emit_obs, h0]; rfl
    rw [hbw]; exact hZ

/-! ## `drop-exec` (with the book's `endOp` that follows) -/

theorem Z_dropExec {rest : List Nat} {now : Nat} {pend : Option (Nat × Nat)} {m : Option Bool} {b : Book} {s : St}
    (vid n : Nat) (h0 : s.obs = []) (hcd : b.curDropExec = some vid) (hm : m ≠ some true)
    (hK : K now pend (bview b) (sview s)) (hX : X rest (bw b) (mv s)) (hY : Y now none (bw b) (mv s))
    (hdr : s.dropped = false) (hZ : Z none m (bw b) b.abandonOrder (mv s)) :
    Z none m (bw (bo b (dropExec s vid n).obs).endOp) (bo b (dropExec s vid n).obs).endOp.abandonOrder
      (mv (dropExec s vid n)) := by
  have hcd' : (bo b (dropExec s vid n).obs).curDropExec = some vid := by rw [bo_curDropExec]; exact hcd
  obtain ⟨he1, he2, he3⟩ := bw_endOp_some _ vid hcd'
  have hcoreF : (dropExec s vid n).obs.filter isCore = [] := by
    rw [fx_dropExec isCore_execQuiet, h0]; rfl
  have hcore := noncore_of_filter hcoreF
  have hview := bo_view_noncore b _ hcore
  have hao0 : (bo b (dropExec s vid n).obs).abandonOrder = b.abandonOrder := congrArg BV.ao hview
  -- the book over the op's observations: no `ret … readyOk`
  have hbook : ∀ l : List Obs, (dropExec s vid n).obs = l → (∀ v, retOk v ∉ l) →
      ∃ f, (bw (bo b (dropExec s vid n).obs).endOp).execs = (bw b).execs.map (endF vid ∘ f) ∧
        (bw (bo b (dropExec s vid n).obs)).execs = (bw b).execs.map f ∧
        (∀ x, (f x).rid = x.rid ∧ (f x).id = x.id ∧ ((f x).gone = true ↔ x.gone = true)) ∧
        (bw (bo b (dropExec s vid n).obs).endOp).table = (bw b).table := by
    intro l hl hno
    rw [hl] at hcore he1 he2 he3 ⊢
    obtain ⟨f, hf1, hf2, hf3, hf4⟩ := gone_fold b vid l hcore (fun v hv => absurd hv (hno v))
    refine ⟨f, by rw [he1, hf1, List.map_map], hf1, fun x => ?_, he2.trans hf3⟩
    obtain ⟨b1, b2, _, _, _, _, b7⟩ := hf2 x
    refine ⟨b1, b2, ?_⟩
    rw [b7]
    constructor
    · rintro (h | ⟨_, h⟩)
      · exact h
      · exact absurd h (hno vid)
    · exact Or.inl
  have hinf : (dropExec s vid n).inflight = s.inflight := dropExec_inflight s vid n
  have hents : (mv (dropExec s vid n)).ents = (mv s).ents := congrArg (List.map ze) hinf
  have hfresh : ∀ f : WB → WB, (bw (bo b (dropExec s vid n).obs)).execs = (bw b).execs.map f →
      (∀ x, (f x).rid = x.rid ∧ (f x).id = x.id ∧ ((f x).gone = true ↔ x.gone = true)) →
      (bo b (dropExec s vid n).obs).endOp.abandonOrder =
        if freshW (bw b).execs vid then b.abandonOrder ++ [vid] else b.abandonOrder := by
    intro f hf1 hf2
    rw [endOp_ao_some' _ vid hcd', fresh_bw, hf1, freshW_map _ f (fun x => ⟨(hf2 x).1, (hf2 x).2.2⟩), hao0]
  have hRIf : ∀ f : WB → WB, (bw (bo b (dropExec s vid n).obs).endOp).execs = (bw b).execs.map (endF vid ∘ f) →
      (∀ x, (f x).rid = x.rid ∧ (f x).id = x.id ∧ ((f x).gone = true ↔ x.gone = true)) →
      ∀ r i, RI (bw b) r i → RI (bw (bo b (dropExec s vid n).obs).endOp) r i := by
    intro f hf1 hf2 r i ⟨eb, h1, h2, h3⟩
    obtain ⟨c1, c2, _⟩ := endF_spec vid (f eb)
    exact ⟨endF vid (f eb), by rw [hf1]; exact List.mem_map_of_mem (f := endF vid ∘ f) h1,
      c1.trans ((hf2 eb).1.trans h2), c2.trans ((hf2 eb).2.1.trans h3)⟩
  rcases dropExec_out s vid n with ⟨e, hg, hl, hout⟩ | ⟨hnl, heq⟩
  · obtain ⟨hem, hev⟩ := getExecVis_mem hg
    obtain ⟨g, hge, hga⟩ := hout.ex
    obtain ⟨l, hlo, hno⟩ := hout.obs
    rw [h0, List.append_nil] at hlo
    obtain ⟨f, hf1, hf1', hf2, hf3⟩ := hbook l hlo hno
    have harmed : e.guardArmed = true :=
      hY.arm (ye e) (List.mem_map_of_mem hem) (by show e.vis ≠ none; rw [hev]; exact Option.some_ne_none _) hl
    have hcq : (dropExec s vid n).cancelQ = s.cancelQ ++ [e.id] := by
      rcases hout.cq with ⟨_, _, h3⟩ | ⟨h4, _⟩
      · exact h3
      · exfalso
        rcases h4 with h4 | h4
        · rw [harmed] at h4; cases h4
        · rw [hdr] at h4; cases h4
    -- the book's execution numbered `vid`: it exists and is not gone
    obtain ⟨ebx, hfind, hbid, _, _⟩ := hK.bex (xe e) (List.mem_map_of_mem hem) vid hev
    rw [bview_find] at hfind
    cases hex0 : b.exec vid with
    | none => rw [hex0] at hfind; cases hfind
    | some e0 =>
      have he0m : e0 ∈ b.execs := List.mem_of_find?_eq_some hex0
      have he0r : e0.rid = vid := by simpa using List.find?_some hex0
      have hwm : wb e0 ∈ (bw b).execs := List.mem_map_of_mem he0m
      have hgo : e0.gone = false := by
        cases hgo : e0.gone with
        | false => rfl
        | true =>
          have := (hY.gl (ye e) (List.mem_map_of_mem hem) (wb e0) hwm (by show e.vis = some e0.rid; rw [he0r]; exact hev)).mp hgo
          have h4 : execLive e = false := this
          rw [hl] at h4; cases h4
      have hfr : freshW (bw b).execs vid = true := by
        rw [← fresh_bw b vid]
        unfold freshB
        rw [hex0]
        show (!e0.gone) = true
        rw [hgo]; rfl
      have hid0 : e0.id = e.id := by
        have := hX.bid (wb e0) hwm (ye e) (List.mem_map_of_mem hem) (by show e.vis = some e0.rid; rw [he0r]; exact hev)
        exact this.symm
      rw [hfresh f hf1' hf2, hfr, if_pos rfl]
      refine hZ.push hm vid e.id (hRIf f hf1 hf2) (hRIf f hf1 hf2 vid e.id ⟨wb e0, hwm, he0r, hid0⟩) hf3
        s.execs ye (ye ∘ g) rfl (by show (dropExec s vid n).execs.map ye = _; rw [hge, List.map_map])
        (fun a _ => ⟨(hga a).1, (hga a).2.2.1⟩) hents hcq
  · -- nothing to drop: the book's `endOp` appends nothing either
    have hl0 : (dropExec s vid n).obs = [Obs.noop] := by rw [heq, emit_obs, h0]
    obtain ⟨f, hf1, hf1', hf2, hf3⟩ := hbook [Obs.noop] hl0 (fun v h => by
      have := List.mem_singleton.mp h
      unfold retOk at this; cases this)
    have hfr : freshW (bw b).execs vid = false := by
      rw [← fresh_bw b vid]
      unfold freshB
      cases hex0 : b.exec vid with
      | none => rfl
      | some e0 =>
        have he0m : e0 ∈ b.execs := List.mem_of_find?_eq_some hex0
        have he0r : e0.rid = vid := by simpa using List.find?_some hex0
        have hwm : wb e0 ∈ (bw b).execs := List.mem_map_of_mem he0m
        obtain ⟨y, hy, hyv⟩ := hX.bsrc (wb e0) hwm
        obtain ⟨a, ha, rfl⟩ := List.mem_map.mp hy
        have hav : a.vis = some vid := by rw [← he0r]; exact hyv
        have hdead : execLive a = false := by
          cases hfe : getExecVis s vid with
          | none =>
            unfold getExecVis at hfe
            have := List.find?_eq_none.mp hfe a ha
            rw [hav] at this
            simp at this
          | some ef =>
            obtain ⟨hfm, hfv⟩ := getExecVis_mem hfe
            have hr := vis_rid hK ha hfm hav hfv
            have := eq_of_rid_nodup hK.ridNodup (List.mem_map_of_mem ha) (List.mem_map_of_mem hfm) hr
            have hlv : execLive a = execLive ef := congrArg XE.live this
            rw [hlv]; exact hnl ef hfe
        have := (hY.gl (ye a) hy (wb e0) hwm hyv).mpr hdead
        have hg' : e0.gone = true := this
        simp [hg']
    rw [hfresh f hf1' hf2, hfr]
    simp only [Bool.false_eq_true, if_false]
    rw [heq]
    have hmv : mv (emit s .noop) = mv s := rfl
    rw [hmv]
    rw [heq] at hf1 hf3
    exact hZ.model (by rw [← heq]; exact hRIf f (by rw [heq]; exact hf1) hf2) (fun p hp _ => by rw [hf3]; exact hp)
      (mv s).execs id id (by simp) (by simp) (fun _ _ => ⟨rfl, rfl⟩) (fun _ h => h) (fun _ => rfl)


/-! ## the other ops -/

theorem Z_applyOp_ext {m : Option Bool} {B : BW} {ao : List Nat} (c0 : Sys) (op : SOp) (h1 : op ≠ .pollServer)
    (h2 : op ≠ .dropServer) (h3 : ∀ v, op ≠ .pollExec v) (h4 : ∀ v, op ≠ .dropExec v)
    (hZ : Z none m B ao (mv c0.s)) : Z none m B ao (mv (applyOp c0 op).s) := by
  have hsame : ∀ s' : St, mv s' = mv c0.s → Z none m B ao (mv s') := by
    intro s' h; rw [h]; exact hZ
  have hinj : ∀ r : SimT × Bool, Z none m B ao (mv (liftT c0.s r)) := by
    intro r
    rw [mv_liftT]
    exact hZ.congr rfl rfl rfl
  cases op with
  | pollServer => exact absurd rfl h1
  | dropServer => exact absurd rfl h2
  | pollExec v => exact absurd rfl (h3 v)
  | dropExec v => exact absurd rfl (h4 v)
  | finish v res => exact hsame _ (mv_finishHandler c0.s v res)
  | injectReq id d tr b => exact hinj _
  | injectCancel id tr => exact hinj _
  | injectErr => exact hinj _
  | eof => exact hinj _
  | setReady b => exact hinj _
  | setFlush b => exact hinj _
  | fault k => exact hsame _ (mv_setT c0.s _ (armFault_inbound _ k))
  | faultSkip n => exact hsame _ (mv_setT c0.s _ rfl)
  | selfWake b => exact hsame _ (mv_setT c0.s _ rfl)
  | take n =>
    refine hsame _ ?_
    show mv ((c0.s.t.take n).2.foldl (fun s m => emit s (.took (tid s) m)) { c0.s with t := (c0.s.t.take n).1 }) = _
    rw [mv_took]
    exact mv_setT c0.s _ rfl
  | advance n => exact hsame _ (mv_onAdvance _ _)

theorem dropped_closed (now : Nat) : PrimClosed now (fun s => s.dropped = true) where
  inert := fun s s' hi h => by rw [hi.dropped]; exact h
  emit := fun s o _ h => h
  upd := fun s r f _ h => h
  setT := fun s t h => h
  setFused := fun s h => h
  removeReq := fun s id h => by simpa using h
  cancel := fun s id tr h _ => by simpa using h
  expire := fun s h => ((dd_closed s.done s.dropped now).expire s ⟨rfl, rfl⟩).2.trans h
  start := fun s id d tr b h => ((dd_closed s.done s.dropped now).start s id d tr b ⟨rfl, rfl⟩).2.trans h
  setDone := fun s r h => h
  drop := fun s h => dropServer_dropped_mono s h
  timerWaker := fun s b h => h
  spin := fun s h => h
  spunReset := fun s0 s _ h => h

theorem applyOp_mono (P : St → Prop) (hc : ∀ now, PrimClosed now P) (c : Sys) (op : SOp) (h : P c.s) :
    P (applyOp c op).s := by
  by_cases hop : ∃ n, op = .advance n
  · obtain ⟨n, rfl⟩ := hop
    exact (hc c.now).toStepClosed.onAdvance _ _ h
  · exact PrimClosed.applyOp c (hc c.now) op h (fun n hn => hop ⟨n, hn⟩)

theorem opBook_ao (b : Book) (op : SOp) : (opBook b op).abandonOrder = b.endOp.abandonOrder := by
  unfold opBook Book.noteFinish
  have h0 : (b.step (.op op)).abandonOrder = b.endOp.abandonOrder := by cases op <;> rfl
  split
  · exact h0
  · exact h0

theorem opBook_failed (b : Book) (op : SOp) : (opBook b op).failed = b.failed := by
  unfold opBook Book.noteFinish
  have h0 : (b.step (.op op)).failed = b.endOp.failed := by cases op <;> rfl
  rw [endOp_failed] at h0
  split
  · exact h0
  · exact h0

theorem opBook_topPoll (b : Book) : (opBook b .pollServer).topPoll = true := rfl

theorem CK11b_nocounts (b0 : Book) (l : List Obs) (h : l.filter isCnt = []) : CK chk11b b0 l := by
  induction l with
  | nil => trivial
  | cons o l ih =>
    have ho : isCnt o = false := by
      cases hc : isCnt o with
      | false => rfl
      | true => rw [List.filter_cons_of_pos hc] at h; cases h
    have hl : l.filter isCnt = [] := by rw [List.filter_cons_of_neg (by simp [ho])] at h; exact h
    exact ⟨ih hl, Or.inr (chk11b_other _ _ (fun k a t hc => by rw [hc] at ho; cases ho))⟩


theorem step_failed_mono (b : Book) (o : Obs) (h : b.failed = true) : (b.step (.obs o)).failed = true := by
  cases o with
  | tNext ep r =>
    rw [step_tNext_eq]
    have hp : (preRead b).failed = true := by rw [preRead_failed]; exact h
    cases r with
    | item msg =>
      cases msg with
      | request id d tr body => exact hp
      | cancel id tr =>
        simp only
        generalize (preRead b).table.reverse.find? (fun p : Nat × Nat => p.1 == id) = o
        cases o with
        | none => exact hp
        | some p => obtain ⟨i, r⟩ := p; exact hp
      | response id res => exact hp
    | pending => exact hp
    | err => rfl
    | eof => exact hp
  | tReady ep r =>
    simp only [Book.step]
    (repeat' split) <;> first | rfl | exact h
  | tFlush ep r =>
    simp only [Book.step]
    (repeat' split) <;> first | rfl | exact h
  | tSend ep msg ok =>
    cases msg with
    | response id res => cases ok <;> first | rfl | exact h
    | _ => exact h
  | ret t r =>
    cases t with
    | server k => exact step_ret_failed b k r h
    | exec v => cases r <;> exact h
    | _ => exact h
  | handler r ev t => cases ev <;> exact h
  | counts ep a c => cases ep <;> exact h
  | _ => exact h

theorem bo_failed_mono (b : Book) (l : List Obs) (h : b.failed = true) : (bo b l).failed = true := by
  induction l with
  | nil => exact h
  | cons o l ih => rw [bo_cons]; exact step_failed_mono _ o ih

/-! ## the invariant between ops, one op, every trace -/

structure OInvZ (b : Book) (c : Sys) (rest : List Nat) : Prop where
  y : OInvY b c rest
  sq : SQ c.s
  z : b.spun = true ∨ c.s.poisoned = true ∨ b.failed = true ∨ c.s.dropped = true ∨
    ∃ m, m ≠ some true ∧ (m = none → c.s.readFused = true) ∧ Z none m (bw b.endOp) b.endOp.abandonOrder (mv c.s)

theorem op_stepZ (hf : ClampFits) {b : Book} {c : Sys} {rest : List Nat} (op : SOp) (h : OInvZ b c (opReq op ++ rest))
    (hn : c.now + opAdv op < panicFreeNs) (hnear : NearOp op) :
    OInvZ (bo (opBook b op) (applyOp { c with s := { c.s with obs := [] } } op).s.obs) (stepOp c op).1 rest ∧
    CK chk11b (opBook b op) (applyOp { c with s := { c.s with obs := [] } } op).s.obs := by
  have hy' := (op_stepY hf op h.y hn hnear).1
  generalize hc0 : ({ c with s := { c.s with obs := [] } } : Sys) = c0 at hy' ⊢
  have hobs0 : c0.s.obs = [] := by rw [← hc0]
  have hnow0 : c0.now = c.now := by rw [← hc0]
  have hsv0 : sview c0.s = sview c.s := by rw [← hc0]; rfl
  have hmv0 : mv c0.s = mv c.s := by rw [← hc0]; rfl
  have hpo0 : c0.s.poisoned = c.s.poisoned := by rw [← hc0]
  have hdr0 : c0.s.dropped = c.s.dropped := by rw [← hc0]
  have hfu0 : c0.s.readFused = c.s.readFused := by rw [← hc0]
  have hs0 : SInv false c0.now c0.s := by rw [← hc0]; exact h.y.t.base.sinv.clear_obs
  have hdd0 : DoneDropped c0.s := by rw [← hc0]; exact h.y.t.base.dd
  have hcfg0 : c0.s.throttleAfterRead = false ∧ c0.s.ensureLoop = false := by
    rw [← hc0]; exact ⟨h.y.t.base.cfg1, h.y.t.base.cfg2⟩
  have hl0 : c0.s.limit = none := by rw [← hc0]; exact h.y.t.lim
  have hq0 : QC c0.now c0.s := by rw [← hc0]; exact h.y.t.qc.of_timers rfl
  have hsq0 : SQ c0.s := by rw [← hc0]; exact h.sq.of_timers rfl
  have hstep : (stepOp c op).1 = { applyOp c0 op with s := { (applyOp c0 op).s with obs := [] } } := by
    rw [← hc0]; rfl
  have hnow := applyOp_now c0 op
  rw [hnow0] at hnow
  have hsq' : SQ (stepOp c op).1.s := by
    rw [hstep]
    exact (applyOp_mono SQ sq_closed c0 op hsq0).of_timers rfl
  have hfin : ((bo (opBook b op) (applyOp c0 op).s.obs).spun = true ∨ (applyOp c0 op).s.poisoned = true ∨
      (bo (opBook b op) (applyOp c0 op).s.obs).failed = true ∨ (applyOp c0 op).s.dropped = true ∨
      ∃ m, m ≠ some true ∧ (m = none → (applyOp c0 op).s.readFused = true) ∧
        Z none m (bw (bo (opBook b op) (applyOp c0 op).s.obs).endOp)
          (bo (opBook b op) (applyOp c0 op).s.obs).endOp.abandonOrder (mv (applyOp c0 op).s)) →
      OInvZ (bo (opBook b op) (applyOp c0 op).s.obs) (stepOp c op).1 rest := by
    intro hz
    refine ⟨hy', hsq', ?_⟩
    rw [hstep]
    exact hz
  have hspun0 : b.spun = true → ∀ l, (bo (opBook b op) l).spun = true := by
    intro hs l
    have : (bo (opBook b op) []).spun = true := by show (opBook b op).spun = true; rw [opBook_spun]; exact hs
    have := bo_spun_mono (opBook b op) [] l this
    simpa using this
  have hfail0 : b.failed = true → ∀ l, (bo (opBook b op) l).failed = true := by
    intro hs l
    exact bo_failed_mono _ l (by rw [opBook_failed]; exact hs)
  have hstart : b.spun = true ∨ ∃ pend, (pend = none ∨ c0.s.poisoned = true) ∧
      K (c.now + opAdv op) pend (bview (opBook b op)) (sview c0.s) ∧ X (opReq op ++ rest) (bw (opBook b op)) (mv c0.s) := by
    rcases h.y.t.base.j with hs | ⟨pend, hpp, hK⟩
    · exact Or.inl hs
    · rcases h.y.t.x with hs | hX
      · exact Or.inl hs
      · refine Or.inr ⟨pend, by rw [hpo0]; exact hpp, by rw [hsv0]; exact K_opBook op hK, ?_⟩
        rw [hmv0]; exact hX.lx (lx_opBook b op)
  have hystart : b.spun = true ∨ c0.s.poisoned = true ∨ Y (c.now + opAdv op) none (bw (opBook b op)) (mv c0.s) := by
    rcases h.y.y with hs | hp | hY
    · exact Or.inl hs
    · exact Or.inr (Or.inl (by rw [hpo0]; exact hp))
    · right; right
      rw [hmv0]
      exact hY.advance (opBook_bw_execs b op) (opBook_table b op) (opBook_now_ge b op)
  have hzstart : b.spun = true ∨ c0.s.poisoned = true ∨ b.failed = true ∨ c0.s.dropped = true ∨
      ∃ m, m ≠ some true ∧ (m = none → c0.s.readFused = true) ∧
        Z none m (bw (opBook b op)) (opBook b op).abandonOrder (mv c0.s) := by
    rcases h.z with hs | hp | hfl | hd | ⟨m, hm, hfu, hZ⟩
    · exact Or.inl hs
    · exact Or.inr (Or.inl (by rw [hpo0]; exact hp))
    · exact Or.inr (Or.inr (Or.inl hfl))
    · exact Or.inr (Or.inr (Or.inr (Or.inl (by rw [hdr0]; exact hd))))
    · refine Or.inr (Or.inr (Or.inr (Or.inr ⟨m, hm, by rw [hfu0]; exact hfu, ?_⟩)))
      rw [hmv0, opBook_ao]
      exact hZ.book (opBook_bw_execs b op) (opBook_table b op)
  by_cases hps : op = .pollServer
  · subst hps
    have e : c.now + opAdv SOp.pollServer = c0.now := by rw [hnow0]; rfl
    have hn0 : c0.now < panicFreeNs := by rw [← e]; exact hn
    have hspunN : b.spun = true → NPZ (opBook b .pollServer) c0.now rest c0.s := by
      intro hs
      have hsp : (bo (opBook b .pollServer) c0.s.obs).spun = true := by rw [hobs0]; exact hspun0 hs []
      exact Or.inl ⟨some false, fun hc => (by cases hc),
        ⟨⟨⟨Or.inl hsp, by rw [hobs0]; trivial⟩, by rw [hobs0]; trivial, Or.inl hsp⟩, by rw [hobs0]; trivial,
          fun hc => (by cases hc), Or.inl hsp⟩⟩
    have hNP : NPZ (opBook b .pollServer) c0.now rest c0.s := by
      rcases hstart with hs | ⟨pend, hpp, hK, hX⟩
      · exact hspunN hs
      · have hNN : NN (opBook b .pollServer) c0.now pend rest c0.s :=
          ⟨Or.inr ⟨by rw [hobs0, ← e]; exact hK, by rw [hobs0]; exact hX⟩, by rw [hobs0]; trivial⟩
        rcases hystart with hs | hp | hY
        · exact hspunN hs
        · exact Or.inr ⟨hp, by rw [hobs0]; trivial, by rw [hobs0]; trivial, pend, hNN⟩
        · rcases hpp with rfl | hpo
          · have hNY : NY (opBook b .pollServer) c0.now none rest c0.s :=
              ⟨hNN, by rw [hobs0]; trivial, Or.inr (by rw [hobs0, ← e]; exact hY)⟩
            rcases hzstart with hs | hp | hfl | hd | ⟨m, hm, hfu, hZ⟩
            · exact hspunN hs
            · exact Or.inr ⟨hp, by rw [hobs0]; trivial, by rw [hobs0]; trivial, none, hNN⟩
            · exact Or.inl ⟨some false, fun hc => (by cases hc), hNY, by rw [hobs0]; trivial, fun hc => (by cases hc),
                Or.inr (Or.inl (by rw [hobs0]; exact hfail0 hfl []))⟩
            · exact Or.inl ⟨some false, fun hc => (by cases hc), hNY, by rw [hobs0]; trivial, fun hc => (by cases hc),
                Or.inr (Or.inr (Or.inl hd))⟩
            · exact Or.inl ⟨m, hm, hNY, by rw [hobs0]; trivial, hfu, Or.inr (Or.inr (Or.inr (by rw [hobs0]; exact hZ)))⟩
          · exact Or.inr ⟨hpo, by rw [hobs0]; trivial, by rw [hobs0]; trivial, pend, hNN⟩
    have hfinal := NZ_pollServer hf hn0 hobs0 hs0 hq0 hsq0 hdd0 hNP (BL_opBook_poll b h.y.blim) (opBook_topPoll b)
      hl0 hcfg0.1 hcfg0.2
    have hcd : (bo (opBook b .pollServer) (pollServer c0.s c0.now).obs).curDropExec = none := by
      rw [bo_curDropExec, opBook_cd]
    rcases hfinal with ⟨m, hm, hN⟩ | ⟨hpo, _, hckb, _⟩
    · refine ⟨hfin ?_, hN.ck⟩
      rcases hN.z with hs | hs | hs | hZ
      · exact Or.inl hs
      · exact Or.inr (Or.inr (Or.inl hs))
      · exact Or.inr (Or.inr (Or.inr (Or.inl hs)))
      · refine Or.inr (Or.inr (Or.inr (Or.inr ⟨m, hm, hN.fu, ?_⟩)))
        show Z none m (bw (bo (opBook b .pollServer) (pollServer c0.s c0.now).obs).endOp)
          (bo (opBook b .pollServer) (pollServer c0.s c0.now).obs).endOp.abandonOrder (mv (pollServer c0.s c0.now))
        rw [bw_endOp_none _ hcd, endOp_ao_none _ hcd]; exact hZ
    · exact ⟨hfin (Or.inr (Or.inl hpo)), hckb⟩
  · have hnoc : CK chk11b (opBook b op) (applyOp c0 op).s.obs := by
      apply CK11b_nocounts
      rw [fx_applyOp isCnt_execQuiet c0 op hps, hobs0]; rfl
    refine ⟨hfin ?_, hnoc⟩
    have hcoreF : (applyOp c0 op).s.obs.filter isCore = [] := by
      rw [fx_applyOp isCore_execQuiet c0 op hps, hobs0]; rfl
    have hcore := noncore_of_filter hcoreF
    have hview := bo_view_noncore (opBook b op) _ hcore
    rcases hstart with hs | ⟨pend, hpp, hK, hX⟩
    · exact Or.inl (hspun0 hs _)
    · rcases hystart with hs | hp | hY
      · exact Or.inl (hspun0 hs _)
      · exact Or.inr (Or.inl (by rw [applyOp_poisoned c0 op hps]; exact hp))
      · rcases hzstart with hs | hp | hfl | hd | ⟨m, hm, hfu, hZ⟩
        · exact Or.inl (hspun0 hs _)
        · exact Or.inr (Or.inl (by rw [applyOp_poisoned c0 op hps]; exact hp))
        · exact Or.inr (Or.inr (Or.inl (hfail0 hfl _)))
        · exact Or.inr (Or.inr (Or.inr (Or.inl (applyOp_mono (fun s => s.dropped = true) dropped_closed c0 op hd))))
        · have hfu' : m = none → (applyOp c0 op).s.readFused = true :=
            fun hc => applyOp_mono (fun s => s.readFused = true) fused_closed c0 op (hfu hc)
          by_cases hds : op = .dropServer
          · subst hds
            cases hlive : (c0.s.dropped || c0.s.poisoned) with
            | false => exact Or.inr (Or.inr (Or.inr (Or.inl (dropServer_dropped c0.s hlive))))
            | true =>
              simp only [Bool.or_eq_true] at hlive
              rcases hlive with hd | hp
              · exact Or.inr (Or.inr (Or.inr (Or.inl (dropServer_dropped_mono c0.s hd))))
              · exact Or.inr (Or.inl (by rw [applyOp_poisoned c0 .dropServer hps]; exact hp))
          · by_cases hpe : ∃ v, op = .pollExec v
            · obtain ⟨v, rfl⟩ := hpe
              exact Or.inr (Or.inr (Or.inr (Or.inr ⟨m, hm, hfu',
                Z_pollExec v c0.now hobs0 (by rw [opBook_cd]) hZ⟩)))
            · by_cases hde : ∃ v, op = .dropExec v
              · obtain ⟨v, rfl⟩ := hde
                cases hd : c0.s.dropped with
                | true =>
                  exact Or.inr (Or.inr (Or.inr (Or.inl
                    (applyOp_mono (fun s => s.dropped = true) dropped_closed c0 (.dropExec v) hd))))
                | false =>
                  exact Or.inr (Or.inr (Or.inr (Or.inr ⟨m, hm, hfu',
                    Z_dropExec v c0.now hobs0 (by rw [opBook_cd]) hm hK hX hY hd hZ⟩)))
              · have h3 : ∀ v, op ≠ .pollExec v := fun v hv => hpe ⟨v, hv⟩
                have h4 : ∀ v, op ≠ .dropExec v := fun v hv => hde ⟨v, hv⟩
                have hZ1 := Z_applyOp_ext c0 op hps hds h3 h4 hZ
                have hcd : (bo (opBook b op) (applyOp c0 op).s.obs).curDropExec = none := by
                  rw [bo_curDropExec, opBook_cd]
                  cases op <;> first | rfl | exact absurd ⟨_, rfl⟩ hde
                have hao : (bo (opBook b op) (applyOp c0 op).s.obs).abandonOrder = (opBook b op).abandonOrder :=
                  congrArg BV.ao hview
                have htb : (bo (opBook b op) (applyOp c0 op).s.obs).table = (opBook b op).table :=
                  congrArg BV.table hview
                have hext : Ext c0.s (applyOp c0 op).s := ext_of_nil hobs0 (fx_applyOp isCore_execQuiet c0 op hps)
                have hflt : Flt isOut c0.s (applyOp c0 op).s := fx_applyOp_wake isOut_wakeQuiet c0 op hps h3 h4
                rcases bo_extW (opBook b op) (extW_of hext hflt) with hs | ⟨_, _, hle⟩
                · exact Or.inl hs
                · rw [hobs0] at hle
                  refine Or.inr (Or.inr (Or.inr (Or.inr ⟨m, hm, hfu', ?_⟩)))
                  rw [bw_endOp_none _ hcd, endOp_ao_none _ hcd, hao]
                  exact hZ1.book hle.execs htb


theorem chk11b_eq : chk11b = chkOf checkC11Bound := rfl

/-- **The bound clause of the C11 monitor never fires** — from any state satisfying the invariant, for scripts that stay
below the clock bound and whose deadlines lie within the clamp horizon. -/
theorem c11b_trace (hf : ClampFits) (ops : List SOp) : ∀ (c : Sys) (m : Mon Unit), m.bad = none →
    OInvZ m.book c (reqIds ops) → c.now + advSum ops < panicFreeNs → NearOps ops →
    ((trace c ops).foldl (Mon.step checkC11Bound) m).bad = none := by
  induction ops with
  | nil => intro c m hb _ _ _; exact hb
  | cons op ops ih =>
    intro c m hb hI hT hnear
    rw [advSum_cons] at hT
    obtain ⟨hI', hck⟩ := op_stepZ hf op (rest := reqIds ops) hI (by omega) (hnear op (List.mem_cons_self ..))
    have htr : trace c (op :: ops) = SEv.op op :: ((stepOp c op).2.map SEv.obs ++ trace (stepOp c op).1 ops) := rfl
    rw [htr, List.foldl_cons, List.foldl_append, List.foldl_map]
    have hb1 : (Mon.step checkC11Bound m (.op op)).bad = none := monG_step_bad _ m _ hb (Or.inr rfl)
    have hbk1 : (Mon.step checkC11Bound m (.op op)).book = opBook m.book op := monG_step_book _ m _
    have hos : (stepOp c op).2 = (applyOp { c with s := { c.s with obs := [] } } op).s.obs.reverse := rfl
    rw [hos]
    have hm2 : (mobsG checkC11Bound (Mon.step checkC11Bound m (.op op))
        (applyOp { c with s := { c.s with obs := [] } } op).s.obs.reverse).bad = none :=
      mobsG_ok _ _ _ hb1 (by rw [hbk1]; exact hck)
    have hbk2 : (mobsG checkC11Bound (Mon.step checkC11Bound m (.op op))
        (applyOp { c with s := { c.s with obs := [] } } op).s.obs.reverse).book =
        bo (opBook m.book op) (applyOp { c with s := { c.s with obs := [] } } op).s.obs := by
      rw [mobsG_book, hbk1, bo_eq_foldl]
    have hnow' : (stepOp c op).1.now = c.now + opAdv op := applyOp_now _ op
    have hI2 : OInvZ (mobsG checkC11Bound (Mon.step checkC11Bound m (.op op))
        (applyOp { c with s := { c.s with obs := [] } } op).s.obs.reverse).book (stepOp c op).1 (reqIds ops) := by
      rw [hbk2]; exact hI'
    exact ih (stepOp c op).1 (mobsG checkC11Bound (Mon.step checkC11Bound m (.op op))
        (applyOp { c with s := { c.s with obs := [] } } op).s.obs.reverse) hm2 hI2 (by rw [hnow']; omega)
      (fun op' ho' => hnear op' (List.mem_cons_of_mem _ ho'))

theorem oinvZ_init (respCap tcap : Nat) (coupled : Bool) (rest : List Nat) (h : rest.Nodup) :
    OInvZ ({ limit := none } : Book) (initSys none respCap tcap coupled) rest :=
  ⟨oinvY_init respCap tcap coupled rest h, DelayQ.StackEq_empty,
    Or.inr (Or.inr (Or.inr (Or.inr ⟨some false, fun hc => (by cases hc), fun hc => (by cases hc),
      ⟨fun en hen => (by cases hen), fun pop hp => by
        cases pop with
        | true => cases hp
        | false => exact All2.nil⟩⟩)))⟩

/-- the bound clause of the C11 monitor accepts every trace of the model (no limiter, clock below the bound, distinct
ids, deadlines within the clamp horizon) -/
theorem c11_bound_accepts (hf : ClampFits) (respCap tcap : Nat) (coupled : Bool) (ops : List SOp)
    (hT : advSum ops < panicFreeNs) (hd : DistinctIds ops) (hnear : NearOps ops) :
    (Mon.run none checkC11Bound () (trace (initSys none respCap tcap coupled) ops)).bad = none :=
  c11b_trace hf ops _ _ rfl (oinvZ_init respCap tcap coupled _ hd) (by
    show 0 + advSum ops < panicFreeNs
    omega) hnear

/-- a run of a check that is one check followed by another accepts if the runs of the two parts do -/
theorem run_orElse (ck c1 c2 : Book → Unit → SEv → Unit × Option String)
    (hsp : ∀ b u e, (ck b u e).2 = (c1 b u e).2.orElse fun _ => (c2 b u e).2) (evs : List SEv) :
    ∀ (m m1 m2 : Mon Unit), m.book = m1.book → m.book = m2.book → m.bad = none →
    (evs.foldl (Mon.step c1) m1).bad = none → (evs.foldl (Mon.step c2) m2).bad = none →
    (evs.foldl (Mon.step ck) m).bad = none := by
  induction evs with
  | nil => intro m _ _ _ _ hb _ _; exact hb
  | cons e evs ih =>
    intro m m1 m2 hb1 hb2 hb h1 h2
    simp only [List.foldl_cons] at h1 h2 ⊢
    obtain ⟨_, hc1⟩ := step_bad_none_inv c1 m1 e (foldl_bad_none _ evs _ h1)
    obtain ⟨_, hc2⟩ := step_bad_none_inv c2 m2 e (foldl_bad_none _ evs _ h2)
    refine ih _ _ _ ?_ ?_ ?_ h1 h2
    · rw [monG_step_book, monG_step_book, hb1]
    · rw [monG_step_book, monG_step_book, hb2]
    · refine monG_step_bad ck m e hb ?_
      rcases hc1 with hs | hc1
      · exact Or.inl (by rw [hb1]; exact hs)
      · rcases hc2 with hs | hc2
        · exact Or.inl (by rw [hb2]; exact hs)
        · right
          rw [hsp, hb1, hc1]
          show (c2 (FlowMon.bookOf m1.book e) () e).2 = none
          rw [← hb1, hb2]; exact hc2

/-- the table clauses of the C11 monitor (`checkC11Rest`: the bound, the stalled limiter, the idle channel) accept -/
theorem c11_rest_accepts (hf : ClampFits) (respCap tcap : Nat) (coupled : Bool) (ops : List SOp)
    (hT : advSum ops < panicFreeNs) (hd : DistinctIds ops) (hnear : NearOps ops) :
    (Mon.run none checkC11Rest () (trace (initSys none respCap tcap coupled) ops)).bad = none :=
  run_orElse checkC11Rest checkC11Bound checkC11Idle checkC11Rest_split _ _ _ _ rfl rfl rfl
    (c11_bound_accepts hf respCap tcap coupled ops hT hd hnear)
    (c11_idle_accepts hf respCap tcap coupled ops hT hd hnear)

/-- the whole C11 monitor accepts, given that its counting clauses do -/
theorem c11_accepts (hf : ClampFits) (respCap tcap : Nat) (coupled : Bool) (ops : List SOp)
    (hT : advSum ops < panicFreeNs) (hd : DistinctIds ops) (hnear : NearOps ops)
    (hcounts : (monC11Counts none (trace (initSys none respCap tcap coupled) ops)).bad = none) :
    (monC11 none (trace (initSys none respCap tcap coupled) ops)).bad = none :=
  run_orElse checkC11 checkC11Counts checkC11Rest checkC11_split _ _ _ _ rfl rfl rfl hcounts
    (c11_rest_accepts hf respCap tcap coupled ops hT hd hnear)

end TarpcModel.Server.Tab

import TarpcModel.Lemmas.ClientParkQ
import TarpcModel.Lemmas.ClientAccount
/-!
# The wake-up discipline of the call futures and the permit accounting of the request channel

`WkI D k s`:

* a call future that has not been polled yet is born woken; a future waiting for a permit (`reserving`) is in the wait
  queue, or it has been woken and holds a permit (or the channel is closed); a future waiting for its response
  (`awaiting`) that is not woken has its waker registered on an open, empty oneshot whose sender is alive
  (`WOk`, per call; `D` = the future that is being dropped, which is exempt);
* every permit that was handed over belongs to a woken `reserving` future, every waiter is a `reserving` future;
* the permits add up: `pqAvail + |pq| + |pqAssigned| + k = bufCap` while the channel is open (`k` = permits in
  transit inside one step), nobody waits while a permit is available, the lists have no duplicates and are disjoint;
* a dropped dispatch has closed the channel.

`QWk s s'`: a step that leaves the channel alone and changes calls only by waking them (or by changing a oneshot whose
registered receiver it wakes).  `reach_wk`: the invariant holds in every reachable state.
-/
set_option linter.unusedSimpArgs false
set_option linter.unusedVariables false
namespace TarpcModel.Client

/-! ### one call, one step of somebody else -/

/-- what a step of the dispatch (or of another call) may do to a call: wake it; change its oneshot — but then a
registered live receiver is woken -/
def CWk (c c' : Call) : Prop :=
  c'.cid = c.cid ∧ c'.phase = c.phase ∧ c'.os.rxClosed = c.os.rxClosed ∧ (c.woken = true → c'.woken = true) ∧
    (c'.os = c.os ∨ (c.os.rxWaker = true → callLive c = true → c'.woken = true))

theorem CWk.refl (c : Call) : CWk c c := ⟨rfl, rfl, rfl, id, Or.inl rfl⟩

theorem callLive_of_phase {c c' : Call} (h : c'.phase = c.phase) : callLive c' = callLive c := by
  unfold callLive; rw [h]

theorem CWk.trans {a b c : Call} (h1 : CWk a b) (h2 : CWk b c) : CWk a c := by
  obtain ⟨a1, a2, a3, a4, a5⟩ := h1
  obtain ⟨b1, b2, b3, b4, b5⟩ := h2
  refine ⟨b1.trans a1, b2.trans a2, b3.trans a3, fun h => b4 (a4 h), ?_⟩
  rcases a5 with a5 | a5
  · rcases b5 with b5 | b5
    · exact Or.inl (b5.trans a5)
    · right
      intro hw hl
      exact b5 (by rw [a5]; exact hw) (by rw [callLive_of_phase a2]; exact hl)
  · right
    intro hw hl
    exact b4 (a5 hw hl)

/-- `s'.calls` is `s.calls` with `g` applied, `g` keeps the ids and (if the ids are distinct) relates old and new by `R` -/
def UpdR (R : Call → Call → Prop) (s s' : St) : Prop :=
  ∃ g : Call → Call, s'.calls = s.calls.map g ∧ (∀ c, (g c).cid = c.cid) ∧ (CUniq s → ∀ c ∈ s.calls, R c (g c))

theorem UpdR.cids {R : Call → Call → Prop} {s s' : St} (h : UpdR R s s') : s'.calls.map (·.cid) = s.calls.map (·.cid) := by
  obtain ⟨g, hg, hc, _⟩ := h
  rw [hg, List.map_map]
  apply List.map_congr_left
  intro c _
  exact hc c

theorem UpdR.cuniq {R : Call → Call → Prop} {s s' : St} (h : UpdR R s s') (hu : CUniq s) : CUniq s' :=
  cuniq_of_cids h.cids hu

theorem UpdR.refl {R : Call → Call → Prop} (hR : ∀ c, R c c) (s : St) : UpdR R s s :=
  ⟨id, by simp, fun _ => rfl, fun _ c _ => hR c⟩

theorem UpdR.of_calls {R : Call → Call → Prop} (hR : ∀ c, R c c) {s s' : St} (h : s'.calls = s.calls) : UpdR R s s' :=
  ⟨id, by simp [h], fun _ => rfl, fun _ c _ => hR c⟩

theorem UpdR.trans {R : Call → Call → Prop} (hR : ∀ a b c, R a b → R b c → R a c) {a b c : St}
    (h1 : UpdR R a b) (h2 : UpdR R b c) : UpdR R a c := by
  have hub := fun hu => h1.cuniq hu
  obtain ⟨g1, e1, c1, r1⟩ := h1
  obtain ⟨g2, e2, c2, r2⟩ := h2
  refine ⟨g2 ∘ g1, by rw [e2, e1, List.map_map], fun x => by simp [Function.comp, c1, c2], ?_⟩
  intro hu x hx
  refine hR _ _ _ (r1 hu x hx) (r2 (hub hu) (g1 x) ?_)
  rw [e1]; exact List.mem_map_of_mem hx

theorem UpdR.mono {R R' : Call → Call → Prop} (hRR : ∀ a b, R a b → R' a b) {s s' : St} (h : UpdR R s s') : UpdR R' s s' := by
  obtain ⟨g, e, c, r⟩ := h
  exact ⟨g, e, c, fun hu x hx => hRR _ _ (r hu x hx)⟩

/-- backwards: every new call comes from an old one -/
theorem UpdR.bwd {R : Call → Call → Prop} {s s' : St} (h : UpdR R s s') (hu : CUniq s) {c' : Call} (hc' : c' ∈ s'.calls) :
    ∃ c ∈ s.calls, R c c' ∧ c'.cid = c.cid := by
  obtain ⟨g, e, hc, r⟩ := h
  rw [e] at hc'
  obtain ⟨c, hm, rfl⟩ := List.mem_map.mp hc'
  exact ⟨c, hm, r hu c hm, hc c⟩

/-- forwards -/
theorem UpdR.fwd {R : Call → Call → Prop} {s s' : St} (h : UpdR R s s') (hu : CUniq s) {c : Call} (hc : c ∈ s.calls) :
    ∃ c' ∈ s'.calls, R c c' ∧ c'.cid = c.cid := by
  obtain ⟨g, e, hcid, r⟩ := h
  exact ⟨g c, by rw [e]; exact List.mem_map_of_mem hc, r hu c hc, hcid c⟩

theorem updR_updCall {R : Call → Call → Prop} (hR : ∀ c, R c c) (s : St) (cid : Nat) (f : Call → Call)
    (hf : ∀ c, (f c).cid = c.cid) (hr : CUniq s → ∀ c ∈ s.calls, c.cid = cid → R c (f c)) : UpdR R s (updCall s cid f) := by
  refine ⟨updFn cid f, rfl, fun c => ?_, fun hu c hc => ?_⟩
  · unfold updFn; split
    · exact hf c
    · rfl
  · unfold updFn; split
    · rename_i hx; exact hr hu c hc (by simpa using hx)
    · exact hR c

/-! ### steps that leave the channel alone -/

structure QWk (s s' : St) : Prop where
  calls : UpdR CWk s s'
  pq : s'.pq = s.pq
  pqAvail : s'.pqAvail = s.pqAvail
  pqWaiters : s'.pqWaiters = s.pqWaiters
  pqAssigned : s'.pqAssigned = s.pqAssigned
  pqClosed : s'.pqClosed = s.pqClosed
  dDropped : s'.dDropped = s.dDropped
  bufCap : s'.bufCap = s.bufCap

theorem QWk.refl (s : St) : QWk s s := ⟨UpdR.refl CWk.refl s, rfl, rfl, rfl, rfl, rfl, rfl, rfl⟩

theorem QWk.trans {a b c : St} (h1 : QWk a b) (h2 : QWk b c) : QWk a c :=
  ⟨UpdR.trans (R := CWk) (fun _ _ _ h1 h2 => CWk.trans h1 h2) h1.calls h2.calls, h2.pq.trans h1.pq, h2.pqAvail.trans h1.pqAvail,
   h2.pqWaiters.trans h1.pqWaiters, h2.pqAssigned.trans h1.pqAssigned, h2.pqClosed.trans h1.pqClosed,
   h2.dDropped.trans h1.dDropped, h2.bufCap.trans h1.bufCap⟩

theorem QWk.after {a b c : St} (h2 : QWk b c) (h1 : QWk a b) : QWk a c := h1.trans h2

theorem QWk.of_calls {s s' : St} (hc : s'.calls = s.calls) (h1 : s'.pq = s.pq) (h2 : s'.pqAvail = s.pqAvail)
    (h3 : s'.pqWaiters = s.pqWaiters) (h4 : s'.pqAssigned = s.pqAssigned) (h5 : s'.pqClosed = s.pqClosed)
    (h6 : s'.dDropped = s.dDropped) (h7 : s'.bufCap = s.bufCap) : QWk s s' :=
  ⟨UpdR.of_calls CWk.refl hc, h1, h2, h3, h4, h5, h6, h7⟩

theorem QWk.cuniq {s s' : St} (q : QWk s s') (hu : CUniq s) : CUniq s' := q.calls.cuniq hu

theorem qwk_foldl {α : Type} (f : St → α → St) (hf : ∀ s a, QWk s (f s a)) (l : List α) (s : St) : QWk s (l.foldl f s) := by
  induction l generalizing s with
  | nil => exact QWk.refl _
  | cons a l ih => exact (hf s a).trans (ih _)

theorem qwk_emit (s : St) (o : Obs) : QWk s (emit s o) := .of_calls rfl rfl rfl rfl rfl rfl rfl rfl

theorem qwk_wakeDispatch (s : St) : QWk s (wakeDispatch s) :=
  .of_calls (by simp) (by simp) (by simp) (by simp) (by simp) (by simp) (by simp) (by simp)

theorem qwk_updCall (s : St) (cid : Nat) (f : Call → Call) (hf : ∀ c, (f c).cid = c.cid)
    (hr : CUniq s → ∀ c ∈ s.calls, c.cid = cid → CWk c (f c)) : QWk s (updCall s cid f) :=
  ⟨updR_updCall CWk.refl s cid f hf hr, rfl, rfl, rfl, rfl, rfl, rfl, rfl⟩

theorem qwk_wakeCall (s : St) (cid : Nat) : QWk s (wakeCall s cid) := by
  unfold wakeCall
  split
  · split
    · exact (qwk_emit _ _).after (qwk_updCall s cid _ (fun _ => rfl) (fun _ c _ _ => ⟨rfl, rfl, rfl, fun _ => rfl, Or.inl rfl⟩))
    · exact QWk.refl _
  · exact QWk.refl _

/-- the ids being distinct, the call `getCall` finds is the only one with that id -/
theorem CUniq.eq_of_getCall {s : St} (hu : CUniq s) {cid : Nat} {c0 c : Call} (hg : getCall s cid = some c0) (hc : c ∈ s.calls)
    (he : c.cid = cid) : c = c0 := by
  obtain ⟨hm, hcid⟩ := getCall_some hg
  exact nodup_map_unique hu hc hm (by rw [he, hcid])

/-- after an update of call `cid` that leaves its liveness alone, waking `cid` if `b` -/
theorem qwk_upd_wake (s : St) (cid : Nat) (c0 : Call) (hg : getCall s cid = some c0) (f : Call → Call)
    (hf : ∀ c, (f c).cid = c.cid) (hph : ∀ c, (f c).phase = c.phase) (hrx : ∀ c, (f c).os.rxClosed = c.os.rxClosed)
    (hwk : ∀ c, (f c).woken = c.woken) (b : Bool) (hb : c0.os.rxWaker = true → b = true) :
    QWk s (if b = true then wakeCall (updCall s cid f) cid else updCall s cid f) := by
  have g1 : getCall (updCall s cid f) cid = some (f c0) := getCall_updCall_some hg f hf
  cases b with
  | false =>
    simp only [Bool.false_eq_true, ↓reduceIte]
    refine qwk_updCall s cid f hf (fun hu c hc he => ?_)
    have : c = c0 := hu.eq_of_getCall hg hc he
    subst this
    refine ⟨hf c, hph c, hrx c, fun h => by rw [hwk]; exact h, Or.inr (fun hw _ => ?_)⟩
    have := hb hw; cases this
  | true =>
    simp only [↓reduceIte]
    unfold wakeCall
    rw [g1]
    simp only
    by_cases hl : callLive c0 = true
    · rw [if_pos (by rw [callLive_of_phase (hph c0)]; exact hl)]
      refine (qwk_emit _ _).after ?_
      have e : updCall (updCall s cid f) cid (fun c => { c with woken := true }) =
          updCall s cid (fun c => { f c with woken := true }) := by
        simp only [updCall, List.map_map]
        congr 1
        apply List.map_congr_left
        intro c _
        simp only [Function.comp]
        by_cases hx : (c.cid == cid) = true
        · simp [hx, hf]
        · simp [hx]
      rw [e]
      refine qwk_updCall s cid _ (fun c => hf c) (fun hu c hc he => ?_)
      exact ⟨hf c, hph c, hrx c, fun _ => rfl, Or.inr (fun _ _ => rfl)⟩
    · rw [if_neg (by rw [callLive_of_phase (hph c0)]; exact hl)]
      refine qwk_updCall s cid f hf (fun hu c hc he => ?_)
      have : c = c0 := hu.eq_of_getCall hg hc he
      subst this
      exact ⟨hf c, hph c, hrx c, fun h => by rw [hwk]; exact h, Or.inr (fun _ hl' => absurd hl' hl)⟩

theorem qwk_osSend (s : St) (cid : Nat) (o : Outcome) : QWk s (osSend s cid o) := by
  unfold osSend
  cases hg : getCall s cid with
  | none => exact QWk.refl _
  | some c0 =>
    simp only
    split
    · exact QWk.refl _
    · exact qwk_upd_wake s cid c0 hg (fun c => { c with os := { c.os with val := some o, rxWaker := false } })
        (fun _ => rfl) (fun _ => rfl) (fun _ => rfl) (fun _ => rfl) c0.os.rxWaker id

theorem qwk_osDropTx (s : St) (cid : Nat) : QWk s (osDropTx s cid) := by
  unfold osDropTx
  cases hg : getCall s cid with
  | none => exact QWk.refl _
  | some c0 =>
    simp only
    split
    · exact QWk.refl _
    · exact qwk_upd_wake s cid c0 hg (fun c => { c with os := { c.os with txDropped := true, rxWaker := false } })
        (fun _ => rfl) (fun _ => rfl) (fun _ => rfl) (fun _ => rfl) c0.os.rxWaker id

macro "qwk_rfl" : tactic => `(tactic| exact QWk.of_calls rfl rfl rfl rfl rfl rfl rfl rfl)

theorem qwk_removeTimer (s : St) (k : Nat) : QWk s (removeTimer s k) := by
  unfold removeTimer
  split
  · simp only
    split
    · exact (qwk_wakeDispatch _).after (by qwk_rfl)
    · qwk_rfl
  · exact (qwk_emit _ _).after (by qwk_rfl)

theorem qwk_tReady (s : St) : QWk s (tReady s).1 :=
  .of_calls (by simp) (by simp) (by simp) (by simp) (by simp) (by simp) (by simp) (by simp)
theorem qwk_tFlush (s : St) : QWk s (tFlush s).1 :=
  .of_calls (by simp) (by simp) (by simp) (by simp) (by simp) (by simp) (by simp) (by simp)
theorem qwk_tClose (s : St) : QWk s (tClose s).1 :=
  .of_calls (by simp) (by simp) (by simp) (by simp) (by simp) (by simp) (by simp) (by simp)
theorem qwk_tSend (s : St) (m : Msg) : QWk s (tSend s m).1 :=
  .of_calls (by simp) (by simp) (by simp) (by simp) (by simp) (by simp) (by simp) (by simp)
theorem qwk_tNext (s : St) : QWk s (tNext s).1 :=
  .of_calls (by simp) (by simp) (by simp) (by simp) (by simp) (by simp) (by simp) (by simp)

theorem qwk_ensureOnce (s : St) : QWk s (ensureOnce s).1 := by
  refine Flow.ensureOnce_cases (motive := fun p => QWk s p.1) s ?_ ?_ ?_ ?_ ?_
  · intro s1 h1; have := qwk_tReady s; rw [h1] at this; exact this
  · intro s1 h1; have := qwk_tReady s; rw [h1] at this; exact this
  · intro s1 s2 h1 h2
    have a := qwk_tReady s; rw [h1] at a
    have b := qwk_tFlush s1; rw [h2] at b
    exact a.trans b
  · intro s1 s2 h1 h2
    have a := qwk_tReady s; rw [h1] at a
    have b := qwk_tFlush s1; rw [h2] at b
    exact a.trans b
  · intro s1 s2 s3 r h1 h2 h3
    have a := qwk_tReady s; rw [h1] at a
    have b := qwk_tFlush s1; rw [h2] at b
    have c := qwk_tReady s2; rw [h3] at c
    exact (a.trans b).trans c

theorem qwk_ensureLoop (fuel : Nat) (s : St) : QWk s (ensureLoop fuel s).1 := by
  induction fuel generalizing s with
  | zero => rw [Flow.ensureLoop_zero]; exact qwk_emit _ _
  | succ fuel ih =>
    refine Flow.ensureLoop_cases (motive := fun p => QWk s p.1) fuel s ?_ ?_ ?_ ?_ ?_
    · intro s1 h1; have := qwk_tReady s; rw [h1] at this; exact this
    · intro s1 h1; have := qwk_tReady s; rw [h1] at this; exact this
    · intro s1 s2 h1 h2
      have a := qwk_tReady s; rw [h1] at a
      have b := qwk_tFlush s1; rw [h2] at b
      exact a.trans b
    · intro s1 s2 h1 h2
      have a := qwk_tReady s; rw [h1] at a
      have b := qwk_tFlush s1; rw [h2] at b
      exact a.trans b
    · intro s1 s2 h1 h2
      have a := qwk_tReady s; rw [h1] at a
      have b := qwk_tFlush s1; rw [h2] at b
      exact (a.trans b).trans (ih s2)

theorem qwk_ensureWriteable (s : St) : QWk s (ensureWriteable s).1 := by
  unfold ensureWriteable; split
  · exact qwk_ensureLoop _ _
  · exact qwk_ensureOnce _

theorem qwk_completeRequest (s : St) (id : Nat) (o : Outcome) : QWk s (completeRequest s id o).1 := by
  unfold completeRequest; split
  · exact QWk.refl _
  · exact ((by qwk_rfl : QWk s _).trans (qwk_removeTimer _ _)).trans (qwk_osSend _ _ _)

theorem qwk_cancelRequest (s : St) (id : Nat) : QWk s (cancelRequest s id).1 := by
  unfold cancelRequest; split
  · exact QWk.refl _
  · exact (by qwk_rfl : QWk s _).trans (qwk_removeTimer _ _)

theorem qwk_insertRequest {s s' : St} {now : Nat} {r : DReq} (h : insertRequest s now r = some s') : QWk s s' := by
  unfold insertRequest at h; split at h
  · cases h; exact (by qwk_rfl : QWk s _).trans (qwk_emit _ _)
  · split at h
    · cases h; exact (by qwk_rfl : QWk s _).trans (qwk_emit _ _)
    · cases h; split
      · exact (by qwk_rfl : QWk s _).trans (qwk_wakeDispatch _)
      · qwk_rfl

theorem qwk_cqRecv (s : St) : QWk s (cqRecv s).1 := by
  unfold cqRecv; split
  · qwk_rfl
  · split
    · exact QWk.refl _
    · qwk_rfl

theorem qwk_nextCancelLoop (fuel : Nat) (s : St) : QWk s (nextCancelLoop fuel s).1 := by
  induction fuel generalizing s with
  | zero => exact QWk.refl _
  | succ fuel ih =>
    unfold nextCancelLoop
    have h := qwk_cqRecv s
    split <;> rename_i heq <;> rw [heq] at h
    · exact h
    · exact h
    · rename_i s1 id
      have h2 := qwk_cancelRequest s1 id
      split <;> rename_i heq2 <;> rw [heq2] at h2
      · exact h.trans h2
      · exact (h.trans h2).trans (ih _)

theorem qwk_pollNextCancellation (s : St) : QWk s (pollNextCancellation s).1 := by
  refine Flow.pollNextCancellation_cases (motive := fun q => QWk s q.1) s ?_ ?_
  · intro s1 e he _; have := qwk_ensureWriteable s; rw [he] at this; exact this
  · intro s1 he
    have := qwk_ensureWriteable s; rw [he] at this
    exact this.trans (qwk_nextCancelLoop _ _)

theorem qwk_pollWriteCancel (s : St) : QWk s (pollWriteCancel s).1 := by
  have h1 := qwk_pollNextCancellation s
  refine Flow.pollWriteCancel_cases (motive := fun q => QWk s q.1) s ?_ ?_ ?_
  · intro s1 r hr _; rw [hr] at h1; exact h1
  · intro s1 e s2 hr hs
    rw [hr] at h1
    have := qwk_tSend s1 (.cancel e.id e.ctx.trace); rw [hs] at this; exact h1.trans this
  · intro s1 e s2 hr hs
    rw [hr] at h1
    have := qwk_tSend s1 (.cancel e.id e.ctx.trace); rw [hs] at this; exact h1.trans this

theorem qwk_rearmWith (s : St) (id t due : Nat) (r : DelayQ × DelayQ.InsertRes × Bool) :
    QWk s (rearmWith s id t due r).st := by
  unfold rearmWith; split
  · exact (by qwk_rfl : QWk s _).trans (qwk_emit _ _)
  · show QWk s (if _ then _ else _)
    split
    · exact (by qwk_rfl : QWk s _).trans (qwk_wakeDispatch _)
    · qwk_rfl

theorem qwk_expireWith (s : St) (now : Nat) (r : DelayQ × DelayQ.PollRes) : QWk s (expireWith s now r).st := by
  unfold expireWith; split
  · split
    · split
      · exact qwk_rearmWith _ _ _ _ _
      · exact (by qwk_rfl : QWk s _).trans (qwk_osSend _ _ _)
    · qwk_rfl
  · qwk_rfl

theorem qwk_pollExpiredLoop (fuel : Nat) (s : St) (now : Nat) : QWk s (pollExpiredLoop fuel s now).1 := by
  induction fuel generalizing s with
  | zero => exact QWk.refl _
  | succ fuel ih =>
    have h : QWk s (expireStep s now).st := qwk_expireWith _ _ _
    unfold pollExpiredLoop; split <;> rename_i heq <;> rw [heq] at h
    · exact h.trans (ih _)
    · exact h

theorem qwk_pollExpired (s : St) (now : Nat) : QWk s (pollExpired s now).1 := qwk_pollExpiredLoop _ s now

theorem qwk_pumpRead (s : St) : QWk s (pumpRead s).1 := by
  unfold pumpRead
  have h := qwk_tNext s
  split <;> rename_i heq <;> rw [heq] at h
  · exact h
  · exact h
  · exact h
  · exact h.trans (qwk_completeRequest _ _ _)
  · exact h

theorem qwk_failAll (s : St) (a : Activity) : QWk s (failAll s a) := by
  unfold failAll
  exact (by qwk_rfl : QWk s _).trans (qwk_foldl _ (fun s e => qwk_osSend s _ _) _ _)

theorem qwk_keepFinish (obs0 : List Obs) (s : St) (r : Ret) : QWk s (Flow.keepFinish obs0 s r) := by
  unfold Flow.keepFinish
  split
  · qwk_rfl
  · split
    · exact QWk.refl _
    · exact (qwk_emit _ _).after (qwk_emit _ _)

theorem qwk_keepDone (r : Ret) (s : St) : QWk s (Flow.keepDone r s) := by
  unfold Flow.keepDone
  split
  · exact QWk.refl _
  · qwk_rfl

/-! ### the invariant -/

/-- what the wake-up discipline asks of one call future; `D` = the future that is being dropped -/
def WOk (D : Option Nat) (s : St) (c : Call) : Prop :=
  (c.phase = .notPolled → c.woken = true ∧ c.os.rxClosed = false) ∧
  (c.phase = .reserving → some c.cid ≠ D → c.os.rxClosed = false ∧
    (c.cid ∈ s.pqWaiters ∨ (c.woken = true ∧ (c.cid ∈ s.pqAssigned ∨ s.pqClosed = true)))) ∧
  (c.phase = .awaiting → some c.cid ≠ D → c.os.rxClosed = false ∧
    (c.woken = false → c.os.rxWaker = true ∧ c.os.val = none ∧ c.os.txDropped = false))

structure WkI (D : Option Nat) (k : Nat) (s : St) : Prop where
  calls : ∀ c ∈ s.calls, WOk D s c
  asg : ∀ cid ∈ s.pqAssigned, ∃ c ∈ s.calls, c.cid = cid ∧ c.phase = .reserving ∧ c.woken = true
  wt : ∀ cid ∈ s.pqWaiters, ∃ c ∈ s.calls, c.cid = cid ∧ c.phase = .reserving
  dx : ∀ d, D = some d → d ∉ s.pqWaiters ∧ d ∉ s.pqAssigned
  p1 : s.pqWaiters ≠ [] → s.pqAvail = 0 ∧ s.pqClosed = false
  p2 : s.pqClosed = false → s.pqAvail + s.pq.length + s.pqAssigned.length + k = s.bufCap
  ndA : s.pqAssigned.Nodup
  ndW : s.pqWaiters.Nodup
  dj : ∀ cid ∈ s.pqWaiters, cid ∉ s.pqAssigned
  dc : s.dDropped = true → s.pqClosed = true
  bc : 1 ≤ s.bufCap

/-- a call keeps being fine under a step of somebody else, the lists being the same or larger in the right way -/
theorem WOk.step {D D' : Option Nat} {s s' : St} {c c' : Call} (h : WOk D s c) (w : CWk c c')
    (hD : some c.cid ≠ D' → some c.cid ≠ D)
    (hW : c.cid ∈ s.pqWaiters → c.cid ∈ s'.pqWaiters ∨ (c'.woken = true ∧ (c.cid ∈ s'.pqAssigned ∨ s'.pqClosed = true)))
    (hA : c.cid ∈ s.pqAssigned → c.cid ∈ s'.pqAssigned) (hC : s.pqClosed = true → s'.pqClosed = true) : WOk D' s' c' := by
  obtain ⟨w1, w2, w3, w4, w5⟩ := w
  obtain ⟨h1, h2, h3⟩ := h
  refine ⟨?_, ?_, ?_⟩
  · intro hp
    obtain ⟨a, b⟩ := h1 (by rw [← w2]; exact hp)
    exact ⟨w4 a, by rw [w3]; exact b⟩
  · intro hp hd
    obtain ⟨a, b⟩ := h2 (by rw [← w2]; exact hp) (hD (by rw [← w1]; exact hd))
    refine ⟨by rw [w3]; exact a, ?_⟩
    rw [w1]
    rcases b with b | ⟨b1, b2⟩
    · rcases hW b with x | ⟨x1, x2⟩
      · exact Or.inl x
      · exact Or.inr ⟨x1, x2⟩
    · refine Or.inr ⟨w4 b1, ?_⟩
      rcases b2 with b2 | b2
      · exact Or.inl (hA b2)
      · exact Or.inr (hC b2)
  · intro hp hd
    have hp0 : c.phase = .awaiting := by rw [← w2]; exact hp
    obtain ⟨a, b⟩ := h3 hp0 (hD (by rw [← w1]; exact hd))
    refine ⟨by rw [w3]; exact a, ?_⟩
    intro hw
    have hw0 : c.woken = false := by
      cases hb : c.woken with
      | false => rfl
      | true => have := w4 hb; rw [hw] at this; cases this
    obtain ⟨b1, b2, b3⟩ := b hw0
    rcases w5 with e | e
    · rw [e]; exact ⟨b1, b2, b3⟩
    · have := e b1 (by simp [callLive, hp0])
      rw [hw] at this; cases this

/-- **steps that leave the channel alone preserve the invariant** -/
theorem WkI.qw {D : Option Nat} {k : Nat} {s s' : St} (hu : CUniq s) (h : WkI D k s) (q : QWk s s') : WkI D k s' := by
  refine ⟨?_, ?_, ?_, ?_, ?_, ?_, ?_, ?_, ?_, ?_, ?_⟩
  · intro c' hc'
    obtain ⟨c, hc, w, _⟩ := q.calls.bwd hu hc'
    refine (h.calls c hc).step w id (fun x => Or.inl (by rw [q.pqWaiters]; exact x)) (fun x => by rw [q.pqAssigned]; exact x)
      (fun x => by rw [q.pqClosed]; exact x)
  · intro cid hm
    rw [q.pqAssigned] at hm
    obtain ⟨c, hc, e1, e2, e3⟩ := h.asg cid hm
    obtain ⟨c', hc', w, e⟩ := q.calls.fwd hu hc
    exact ⟨c', hc', by rw [e, e1], by rw [w.2.1, e2], w.2.2.2.1 e3⟩
  · intro cid hm
    rw [q.pqWaiters] at hm
    obtain ⟨c, hc, e1, e2⟩ := h.wt cid hm
    obtain ⟨c', hc', w, e⟩ := q.calls.fwd hu hc
    exact ⟨c', hc', by rw [e, e1], by rw [w.2.1, e2]⟩
  · intro d hd; rw [q.pqWaiters, q.pqAssigned]; exact h.dx d hd
  · intro hw; rw [q.pqWaiters] at hw; rw [q.pqAvail, q.pqClosed]; exact h.p1 hw
  · intro hc; rw [q.pqClosed] at hc; rw [q.pqAvail, q.pq, q.pqAssigned, q.bufCap]; exact h.p2 hc
  · rw [q.pqAssigned]; exact h.ndA
  · rw [q.pqWaiters]; exact h.ndW
  · intro cid hm; rw [q.pqWaiters] at hm; rw [q.pqAssigned]; exact h.dj cid hm
  · intro hd; rw [q.dDropped] at hd; rw [q.pqClosed]; exact h.dc hd
  · rw [q.bufCap]; exact h.bc

/-! ### the channel steps of the dispatch -/

/-- the ids are distinct and the invariant holds (no permit in transit) -/
def WkU (D : Option Nat) (s : St) : Prop := CUniq s ∧ WkI D 0 s

theorem WkU.qw {D : Option Nat} {s s' : St} (h : WkU D s) (q : QWk s s') : WkU D s' := ⟨q.cuniq h.1, h.2.qw h.1 q⟩

theorem CUniq.getCall_of_mem {s : St} (hu : CUniq s) {c : Call} (hc : c ∈ s.calls) : getCall s c.cid = some c := by
  cases hg : getCall s c.cid with
  | none => exact absurd rfl (getCall_none hg c hc)
  | some c1 =>
    obtain ⟨hm, he⟩ := getCall_some hg
    rw [nodup_map_unique hu hm hc he]

def wokenFn (c : Call) : Call := { c with woken := true }

theorem updFn_woken (w : Nat) (c : Call) :
    (updFn w wokenFn c).cid = c.cid ∧ (updFn w wokenFn c).phase = c.phase ∧
    (c.woken = true → (updFn w wokenFn c).woken = true) ∧ (c.cid = w → (updFn w wokenFn c).woken = true) ∧
    CWk c (updFn w wokenFn c) := by
  unfold updFn
  by_cases hx : (c.cid == w) = true
  · rw [if_pos hx]
    exact ⟨rfl, rfl, fun _ => rfl, fun _ => rfl, rfl, rfl, rfl, fun _ => rfl, Or.inl rfl⟩
  · rw [if_neg hx]
    exact ⟨rfl, rfl, id, fun e => absurd (by simpa using e) hx, CWk.refl c⟩

/-- waking a live call -/
theorem wakeCall_live_eq {s : St} {w : Nat} {c0 : Call} (hg : getCall s w = some c0) (hl : callLive c0 = true) :
    wakeCall s w = emit (updCall s w wokenFn) (.wake (.call w)) := by
  unfold wakeCall; rw [hg]; simp only [hl, ↓reduceIte]; rfl

theorem pqRelease_nil {s : St} (hw : s.pqWaiters = []) : pqRelease s = { s with pqAvail := s.pqAvail + 1 } := by
  unfold pqRelease; rw [hw]

theorem pqRelease_cons {s : St} {w : Nat} {rest : List Nat} (hw : s.pqWaiters = w :: rest) :
    pqRelease s = wakeCall { s with pqWaiters := rest, pqAssigned := s.pqAssigned ++ [w] } w := by
  unfold pqRelease; rw [hw]

/-- **a permit goes back**: it is handed to the oldest waiter (who is woken) or becomes available -/
theorem wki_pqRelease {D : Option Nat} {k : Nat} {s : St} (hu : CUniq s) (h : WkI D (k + 1) s) : WkI D k (pqRelease s) := by
  cases hw : s.pqWaiters with
  | nil =>
    rw [pqRelease_nil hw]
    refine ⟨fun c hc => h.calls c hc, h.asg, h.wt, h.dx, ?_, ?_, h.ndA, h.ndW, h.dj, h.dc, h.bc⟩
    · intro hne; exact absurd hw hne
    · intro hc
      have := h.p2 hc
      show s.pqAvail + 1 + s.pq.length + s.pqAssigned.length + k = s.bufCap
      omega
  | cons w rest =>
    obtain ⟨c0, hc0, e0, ph0⟩ := h.wt w (by rw [hw]; simp)
    have hg : getCall s w = some c0 := e0 ▸ hu.getCall_of_mem hc0
    have hl : callLive c0 = true := by simp [callLive, ph0]
    rw [pqRelease_cons hw, wakeCall_live_eq (s := { s with pqWaiters := rest, pqAssigned := s.pqAssigned ++ [w] }) hg hl]
    have hnd : w ∉ rest ∧ rest.Nodup := by have := h.ndW; rw [hw] at this; exact List.nodup_cons.mp this
    refine ⟨?_, ?_, ?_, ?_, ?_, ?_, ?_, hnd.2, ?_, h.dc, h.bc⟩
    · intro c' hc'
      change c' ∈ s.calls.map (updFn w wokenFn) at hc'
      obtain ⟨c, hc, rfl⟩ := List.mem_map.mp hc'
      obtain ⟨f1, f2, f3, f4, f5⟩ := updFn_woken w c
      refine (h.calls c hc).step f5 id ?_ (fun x => List.mem_append_left _ x) id
      intro hm
      rw [hw] at hm
      rcases List.mem_cons.mp hm with e | hm
      · exact Or.inr ⟨f4 e, Or.inl (by rw [e]; simp)⟩
      · exact Or.inl hm
    · intro cid hm
      change cid ∈ s.pqAssigned ++ [w] at hm
      rcases List.mem_append.mp hm with hm | hm
      · obtain ⟨c, hc, e1, e2, e3⟩ := h.asg cid hm
        obtain ⟨f1, f2, f3, f4, f5⟩ := updFn_woken w c
        exact ⟨updFn w wokenFn c, List.mem_map_of_mem hc, by rw [f1, e1], by rw [f2, e2], f3 e3⟩
      · have : cid = w := by simpa using hm
        subst this
        obtain ⟨f1, f2, f3, f4, f5⟩ := updFn_woken cid c0
        exact ⟨updFn cid wokenFn c0, List.mem_map_of_mem hc0, by rw [f1, e0], by rw [f2, ph0], f4 e0⟩
    · intro cid hm
      obtain ⟨c, hc, e1, e2⟩ := h.wt cid (by rw [hw]; exact List.mem_cons_of_mem _ hm)
      obtain ⟨f1, f2, f3, f4, f5⟩ := updFn_woken w c
      exact ⟨updFn w wokenFn c, List.mem_map_of_mem hc, by rw [f1, e1], by rw [f2, e2]⟩
    · intro d hd
      obtain ⟨a, b⟩ := h.dx d hd
      rw [hw] at a
      refine ⟨fun x => a (List.mem_cons_of_mem _ x), ?_⟩
      intro x
      change d ∈ s.pqAssigned ++ [w] at x
      rcases List.mem_append.mp x with x | x
      · exact b x
      · have : d = w := by simpa using x
        exact a (by rw [this]; simp)
    · intro hne
      exact h.p1 (by rw [hw]; simp)
    · intro hc
      have := h.p2 hc
      show s.pqAvail + s.pq.length + (s.pqAssigned ++ [w]).length + k = s.bufCap
      rw [List.length_append]; simp only [List.length_cons, List.length_nil]; omega
    · show (s.pqAssigned ++ [w]).Nodup
      rw [List.nodup_append]
      refine ⟨h.ndA, by simp, ?_⟩
      intro a ha b hb
      have : b = w := by simpa using hb
      subst this
      intro e; subst e
      exact h.dj a (by rw [hw]; simp) ha
    · intro cid hm
      change cid ∉ s.pqAssigned ++ [w]
      intro x
      rcases List.mem_append.mp x with x | x
      · exact h.dj cid (by rw [hw]; exact List.mem_cons_of_mem _ hm) x
      · have : cid = w := by simpa using x
        subst this
        exact hnd.1 hm

/-- a request is taken off the queue: its permit is in transit -/
theorem wki_pop {D : Option Nat} {k : Nat} {s : St} (h : WkI D k s) {r : DReq} {rest : List DReq} (hpq : s.pq = r :: rest) :
    WkI D (k + 1) { s with pq := rest } := by
  refine ⟨fun c hc => h.calls c hc, h.asg, h.wt, h.dx, h.p1, ?_, h.ndA, h.ndW, h.dj, h.dc, h.bc⟩
  intro hc
  have := h.p2 hc
  rw [hpq] at this
  show s.pqAvail + rest.length + s.pqAssigned.length + (k + 1) = s.bufCap
  simp only [List.length_cons] at this
  omega

theorem wku_pqRecv {D : Option Nat} {s : St} (h : WkU D s) : WkU D (pqRecv s).1 := by
  rcases pqRecv_spec s with ⟨r, rest, hpq, heq⟩ | ⟨hpq, heq, _⟩ | ⟨hpq, heq⟩
  · rw [heq]
    exact ⟨cuniq_of_cids (pqRelease_cids _) h.1, wki_pqRelease (s := { s with pq := rest }) h.1 (wki_pop h.2 hpq)⟩
  · rw [heq]; exact h
  · rw [heq]; exact h.qw (by qwk_rfl)

theorem wku_nextRequestLoop (fuel : Nat) {D : Option Nat} {s : St} (h : WkU D s) : WkU D (nextRequestLoop fuel s).1 := by
  induction fuel generalizing s with
  | zero => exact h
  | succ fuel ih =>
    unfold nextRequestLoop
    have h1 := wku_pqRecv h
    split <;> rename_i heq <;> rw [heq] at h1
    · exact h1
    · exact h1
    · split
      · exact ih h1
      · exact h1

theorem wku_pollNextRequest {D : Option Nat} {s : St} (h : WkU D s) : WkU D (pollNextRequest s).1 := by
  refine Flow.pollNextRequest_cases (motive := fun p => WkU D p.1) s ?_ ?_ ?_
  · intro _; exact h
  · intro s1 e _ he _
    have q := qwk_ensureWriteable s; rw [he] at q
    exact h.qw q
  · intro s1 _ he
    have q := qwk_ensureWriteable s; rw [he] at q
    exact wku_nextRequestLoop _ (h.qw q)

theorem wku_pollWriteRequest {D : Option Nat} {s : St} (h : WkU D s) (now : Nat) : WkU D (pollWriteRequest s now).1 := by
  have h1 := wku_pollNextRequest h
  refine Flow.pollWriteRequest_cases (motive := fun q => WkU D q.1) s now ?_ ?_ ?_ ?_
  · intro s1 r hp _; rw [hp] at h1; exact h1
  · intro s1 r s2 hp hins _
    rw [hp] at h1
    exact h1.qw (qwk_insertRequest hins)
  · intro s1 r s2 s3 hp hins _ hs
    rw [hp] at h1
    have q := qwk_tSend s2 (.request r.id r.ctx.deadline r.ctx.trace r.body); rw [hs] at q
    exact (h1.qw (qwk_insertRequest hins)).qw q
  · intro s1 r s2 s3 hp hins _ hs
    rw [hp] at h1
    have q := qwk_tSend s2 (.request r.id r.ctx.deadline r.ctx.trace r.body); rw [hs] at q
    exact ((h1.qw (qwk_insertRequest hins)).qw q).qw (qwk_completeRequest _ _ _)

theorem wku_pumpWrite {D : Option Nat} {s : St} (h : WkU D s) (now : Nat) : WkU D (pumpWrite s now).1 := by
  have h1 := wku_pollWriteRequest h now
  refine Flow.pumpWrite_cases (motive := fun p => WkU D p.1) s now ?_ ?_ ?_ ?_ ?_ ?_
  · intro s1 r1 e1 _; rw [e1] at h1; exact h1
  · intro s1 r1 s2 r2 e1 _ e2 _
    rw [e1] at h1
    have q := qwk_pollWriteCancel s1; rw [e2] at q; exact h1.qw q
  · intro s1 r1 s2 r2 s3 e1 _ e2 _ e3
    rw [e1] at h1
    have q := qwk_pollWriteCancel s1; rw [e2] at q
    have q3 := qwk_pollExpired s2 now; rw [e3] at q3
    exact (h1.qw q).qw q3
  · intro s1 r1 s2 r2 s3 e1 _ e2 _ e3 _
    rw [e1] at h1
    have q := qwk_pollWriteCancel s1; rw [e2] at q
    have q3 := qwk_pollExpired s2 now; rw [e3] at q3
    exact (h1.qw q).qw q3
  · intro s1 s2 s3 s4 r4 e1 e2 e3 e4
    rw [e1] at h1
    have q := qwk_pollWriteCancel s1; rw [e2] at q
    have q3 := qwk_pollExpired s2 now; rw [e3] at q3
    have q4 := qwk_tClose s3; rw [e4] at q4
    exact ((h1.qw q).qw q3).qw q4
  · intro s1 r1 s2 r2 s3 s4 r4 e1 _ e2 _ _ e3 e4
    rw [e1] at h1
    have q := qwk_pollWriteCancel s1; rw [e2] at q
    have q3 := qwk_pollExpired s2 now; rw [e3] at q3
    have q4 := qwk_tFlush s3; rw [e4] at q4
    exact ((h1.qw q).qw q3).qw q4

theorem wku_run (fuel : Nat) {D : Option Nat} {s : St} (h : WkU D s) (now : Nat) : WkU D (run fuel s now).1 := by
  induction fuel generalizing s with
  | zero => rw [Flow.run_zero]; exact h.qw (qwk_emit _ _)
  | succ fuel ih =>
    have h1 := h.qw (qwk_pumpRead s)
    have step : ∀ s1 rd s2 wr, pumpRead s = (s1, rd) → pumpWrite s1 now = (s2, wr) → WkU D s2 := by
      intro s1 rd s2 wr e1 e2
      rw [e1] at h1
      have h2 := wku_pumpWrite h1 now
      rw [e2] at h2
      exact h2
    refine Flow.run_cases (motive := fun p => WkU D p.1) fuel s now ?_ ?_ ?_ ?_ ?_ ?_ ?_ ?_ ?_
    · intro s1 a e1; rw [e1] at h1; exact h1
    · intro s1 e1; rw [e1] at h1; exact h1
    · intro s1 rd s2 a e1 e2; exact step _ _ _ _ e1 e2
    · intro s1 rd s2 e1 e2; exact step _ _ _ _ e1 e2
    · intro s1 s2 wr e1 e2 _; exact step _ _ _ _ e1 e2
    · intro s1 rd s2 e1 _ e2 _; exact step _ _ _ _ e1 e2
    · intro s1 s2 e1 e2 _; exact step _ _ _ _ e1 e2
    · intro s1 rd s2 wr e1 e2 _; exact ih (step _ _ _ _ e1 e2)
    · intro s1 s2 e1 e2; exact step _ _ _ _ e1 e2

/-! ### closing the channel -/

theorem wakeCall_woken_cid {s : St} (hu : CUniq s) (w : Nat) :
    ∀ c1 ∈ (wakeCall s w).calls, c1.cid = w → callLive c1 = true → c1.woken = true := by
  intro c1 hc1 e hl
  cases hg : getCall s w with
  | none =>
    have : wakeCall s w = s := by unfold wakeCall; rw [hg]
    rw [this] at hc1
    exact absurd e (getCall_none hg c1 hc1)
  | some c0 =>
    by_cases hl0 : callLive c0 = true
    · rw [wakeCall_live_eq hg hl0] at hc1
      change c1 ∈ s.calls.map (updFn w wokenFn) at hc1
      obtain ⟨c, hc, rfl⟩ := List.mem_map.mp hc1
      obtain ⟨f1, f2, f3, f4, f5⟩ := updFn_woken w c
      exact f4 (by rw [← f1]; exact e)
    · have : wakeCall s w = s := by unfold wakeCall; rw [hg]; simp [hl0]
      rw [this] at hc1
      have : c1 = c0 := hu.eq_of_getCall hg hc1 e
      rw [this] at hl; exact absurd hl hl0

/-- a fold of `wakeCall` wakes every live call of the list -/
theorem foldl_wakeCall_woken (ws : List Nat) {s : St} (hu : CUniq s) :
    ∀ c' ∈ (ws.foldl wakeCall s).calls, c'.cid ∈ ws → callLive c' = true → c'.woken = true := by
  induction ws generalizing s with
  | nil => intro c' _ hm; cases hm
  | cons w ws ih =>
    intro c' hc' hm hl
    simp only [List.foldl_cons] at hc'
    have hu1 : CUniq (wakeCall s w) := (qwk_wakeCall s w).cuniq hu
    by_cases hin : c'.cid ∈ ws
    · exact ih hu1 c' hc' hin hl
    · have e : c'.cid = w := by
        rcases List.mem_cons.mp hm with e | e
        · exact e
        · exact absurd e hin
      have q := qwk_foldl wakeCall qwk_wakeCall ws (wakeCall s w)
      obtain ⟨c1, hc1, wk, ec⟩ := q.calls.bwd hu1 hc'
      have := wakeCall_woken_cid hu w c1 hc1 (by rw [← ec]; exact e) (by rw [← callLive_of_phase wk.2.1]; exact hl)
      exact wk.2.2.2.1 this

/-- **`Receiver::close()`**: every waiter is woken, the wait queue is emptied.  (`s0` may differ from `s` in fields the
invariant does not read — and in `dDropped`: the close comes first when the dispatch is dropped.) -/
theorem wki_pqClose {D : Option Nat} {k : Nat} {s s0 : St} (hu : CUniq s) (h : WkI D k s) (e1 : s0.calls = s.calls)
    (e3 : s0.pqWaiters = s.pqWaiters) (e4 : s0.pqAssigned = s.pqAssigned) (e7 : s0.bufCap = s.bufCap) :
    WkI D k (pqClose s0) ∧ (pqClose s0).pqClosed = true ∧ (pqClose s0).pqWaiters = [] ∧ (pqClose s0).pq = s0.pq ∧
      (pqClose s0).pqAssigned = s0.pqAssigned ∧ (pqClose s0).bufCap = s0.bufCap ∧ (pqClose s0).dDropped = s0.dDropped := by
  have hu0 : CUniq s0 := by unfold CUniq; rw [e1]; exact hu
  have q : QWk { s0 with pqClosed := true, pqWaiters := [] } (pqClose s0) := by
    unfold pqClose; exact qwk_foldl wakeCall qwk_wakeCall _ _
  have hwoken := foldl_wakeCall_woken s0.pqWaiters (s := { s0 with pqClosed := true, pqWaiters := [] }) hu0
  have hfin : pqClose s0 = s0.pqWaiters.foldl wakeCall { s0 with pqClosed := true, pqWaiters := [] } := rfl
  have c5 : (pqClose s0).pqClosed = true := q.pqClosed
  have c3 : (pqClose s0).pqWaiters = [] := q.pqWaiters
  have c4 : (pqClose s0).pqAssigned = s.pqAssigned := q.pqAssigned.trans e4
  refine ⟨⟨?_, ?_, ?_, ?_, ?_, ?_, ?_, ?_, ?_, ?_, ?_⟩, c5, c3, q.pq, q.pqAssigned, q.bufCap, q.dDropped⟩
  · intro c' hc'
    obtain ⟨c, hc, w, ec⟩ := q.calls.bwd hu0 hc'
    have hc : c ∈ s.calls := e1 ▸ hc
    refine (h.calls c hc).step w id ?_ (fun x => by rw [c4]; exact x) (fun _ => c5)
    intro hm
    right
    refine ⟨?_, Or.inr c5⟩
    obtain ⟨c2, hc2, e2, ph2⟩ := h.wt c.cid hm
    have : c2 = c := nodup_map_unique hu hc2 hc e2
    subst this
    refine hwoken c' (hfin ▸ hc') (by rw [ec, e3]; exact hm) ?_
    rw [callLive_of_phase w.2.1]; simp [callLive, ph2]
  · intro cid hm
    rw [c4] at hm
    obtain ⟨c, hc, a1, a2, a3⟩ := h.asg cid hm
    obtain ⟨c', hc', w, ec⟩ := q.calls.fwd hu0 (show c ∈ ({ s0 with pqClosed := true, pqWaiters := [] } : St).calls from e1 ▸ hc)
    exact ⟨c', hc', by rw [ec, a1], by rw [w.2.1, a2], w.2.2.2.1 a3⟩
  · intro cid hm; rw [c3] at hm; cases hm
  · intro d hd
    rw [c3, c4]
    exact ⟨by simp, (h.dx d hd).2⟩
  · intro hne; exact absurd c3 hne
  · intro hc; rw [c5] at hc; cases hc
  · rw [c4]; exact h.ndA
  · rw [c3]; exact List.nodup_nil
  · intro cid hm; rw [c3] at hm; cases hm
  · intro _; exact c5
  · rw [q.bufCap]; show s0.bufCap ≥ 1; rw [e7]; exact h.bc

theorem wku_drainLoop (fuel : Nat) {D : Option Nat} {s : St} (h : WkU D s) (a : Activity) : WkU D (drainLoop fuel s a).1 := by
  induction fuel generalizing s with
  | zero => exact h
  | succ fuel ih =>
    unfold drainLoop
    have h1 := wku_pqRecv h
    split <;> rename_i heq <;> rw [heq] at h1
    · exact h1
    · exact h1
    · split
      · exact ih h1
      · exact ih (h1.qw (qwk_osSend _ _ _))

theorem wku_shutDown {D : Option Nat} {s : St} (h : WkU D s) (a : Activity) : WkU D (shutDown s a).1 := by
  unfold shutDown
  simp only
  have h1 : WkU D (pqClose s) := ⟨cuniq_of_cids (pqClose_cids s) h.1, (wki_pqClose h.1 h.2 rfl rfl rfl rfl).1⟩
  exact wku_drainLoop _ (h1.qw (qwk_failAll _ _)) a

theorem wku_pollDispatchCore {D : Option Nat} {s : St} (h : WkU D s) (now : Nat) : WkU D (pollDispatchCore s now).1 := by
  refine Flow.pollDispatchCore_cases (motive := fun q => WkU D q.1) s now ?_ ?_ ?_ ?_ ?_
  · intro a s1 fin _ h1
    have := wku_shutDown h a; rw [h1] at this; exact this
  · intro s1 _ h1; have := wku_run (runFuel s) h now; rw [h1] at this; exact this
  · intro s1 _ h1; have := wku_run (runFuel s) h now; rw [h1] at this; exact this
  · intro s1 _ h1
    have := wku_run (runFuel s) h now; rw [h1] at this
    exact this.qw (by qwk_rfl)
  · intro s1 a s2 fin _ h1 h2
    have r := wku_run (runFuel s) h now; rw [h1] at r
    have := wku_shutDown (r.qw (by qwk_rfl : QWk s1 { s1 with termErr := some a })) a
    rw [h2] at this; exact this

theorem wku_pollDispatchKeep {D : Option Nat} {s : St} (h : WkU D s) (now : Nat) : WkU D (pollDispatchKeep s now) := by
  rw [Flow.pollDispatchKeep_eq]
  split
  · exact h.qw (qwk_emit _ _)
  · have h1 := wku_pollDispatchCore (h.qw (by qwk_rfl : QWk s { s with dWoken := false })) now
    exact (h1.qw (qwk_keepFinish _ _ _)).qw (qwk_keepDone _ _)

/-- a closed channel: the queue and the number of available permits no longer matter -/
theorem wki_closed_reset {D : Option Nat} {k k' : Nat} {s : St} (h : WkI D k s) (hc : s.pqClosed = true) (q : List DReq) (a : Nat) :
    WkI D k' { s with pq := q, pqAvail := a } := by
  refine ⟨fun c hc => h.calls c hc, h.asg, h.wt, h.dx, ?_, ?_, h.ndA, h.ndW, h.dj, h.dc, h.bc⟩
  · intro hne
    have := (h.p1 hne).2
    rw [hc] at this; cases this
  · intro hcl
    have : s.pqClosed = false := hcl
    rw [hc] at this; cases this

theorem dropQ_qwk (s : St) : QWk { s with pq := [], pqAvail := s.bufCap - s.pqAssigned.length } (dropQ s) := by
  unfold dropQ
  exact qwk_foldl _ (fun s (r : DReq) => qwk_osDropTx s r.cid) _ _

theorem dropI_qwk (s : St) : QWk s (dropI s) := by
  unfold dropI
  exact (by qwk_rfl : QWk s { s with inflight := [], timers := {} }).trans
    (qwk_foldl _ (fun s (e : Entry) => qwk_osDropTx s e.cid) _ _)

theorem wku_dropDispatch {D : Option Nat} {s : St} (h : WkU D s) : WkU D (dropDispatch s) := by
  rw [dropDispatch_stages]
  split
  · exact h.qw (qwk_emit _ _)
  · obtain ⟨w1, c5, c3, c2, c4, c7, c8⟩ :=
      wki_pqClose (s0 := { s with dDropped := true, dWoken := false }) (k := 0) h.1 h.2 rfl rfl rfl rfl
    have u1 : CUniq (pqClose { s with dDropped := true, dWoken := false }) := cuniq_of_cids (pqClose_cids _) h.1
    generalize pqClose { s with dDropped := true, dWoken := false } = x at w1 c5 u1
    have h2 : WkU D { x with pq := [], pqAvail := x.bufCap - x.pqAssigned.length } := ⟨u1, wki_closed_reset w1 c5 _ _⟩
    have h3 := (h2.qw (dropQ_qwk x)).qw (dropI_qwk _)
    exact h3.qw (by qwk_rfl)

theorem wku_pollDispatch {D : Option Nat} {s : St} (h : WkU D s) (now : Nat) : WkU D (pollDispatch s now) := by
  rw [Flow.pollDispatch_eq]
  split
  · exact wku_dropDispatch (wku_pollDispatchKeep h now)
  · exact wku_pollDispatchKeep h now

/-! ### the call futures: one call changes -/

/-- a step of call `cid`: the other calls are at most woken -/
def CWx (cid : Nat) (c c' : Call) : Prop := c.cid ≠ cid → CWk c c'

theorem CWx.refl (cid : Nat) (c : Call) : CWx cid c c := fun _ => CWk.refl c
theorem CWx.trans {cid : Nat} {a b c : Call} (h1 : CWx cid a b) (h2 : CWx cid b c) : CWx cid a c :=
  fun hn => (h1 hn).trans (h2 (by rw [(h1 hn).1]; exact hn))

/-- a step of call `cid` that leaves the channel alone -/
structure XQ (cid : Nat) (s s' : St) : Prop where
  calls : UpdR (CWx cid) s s'
  pq : s'.pq = s.pq
  pqAvail : s'.pqAvail = s.pqAvail
  pqWaiters : s'.pqWaiters = s.pqWaiters
  pqAssigned : s'.pqAssigned = s.pqAssigned
  pqClosed : s'.pqClosed = s.pqClosed
  dDropped : s'.dDropped = s.dDropped
  bufCap : s'.bufCap = s.bufCap

theorem XQ.refl (cid : Nat) (s : St) : XQ cid s s := ⟨UpdR.refl (CWx.refl cid) s, rfl, rfl, rfl, rfl, rfl, rfl, rfl⟩

theorem XQ.trans {cid : Nat} {a b c : St} (h1 : XQ cid a b) (h2 : XQ cid b c) : XQ cid a c :=
  ⟨UpdR.trans (R := CWx cid) (fun _ _ _ x y => CWx.trans x y) h1.calls h2.calls, h2.pq.trans h1.pq,
   h2.pqAvail.trans h1.pqAvail, h2.pqWaiters.trans h1.pqWaiters, h2.pqAssigned.trans h1.pqAssigned,
   h2.pqClosed.trans h1.pqClosed, h2.dDropped.trans h1.dDropped, h2.bufCap.trans h1.bufCap⟩

theorem XQ.after {cid : Nat} {a b c : St} (h2 : XQ cid b c) (h1 : XQ cid a b) : XQ cid a c := h1.trans h2

theorem QWk.xq {s s' : St} (q : QWk s s') (cid : Nat) : XQ cid s s' :=
  ⟨q.calls.mono (R' := CWx cid) (fun _ _ h => fun _ => h), q.pq, q.pqAvail, q.pqWaiters, q.pqAssigned, q.pqClosed, q.dDropped, q.bufCap⟩

theorem xq_updCall (s : St) (cid : Nat) (f : Call → Call) (hf : ∀ c, (f c).cid = c.cid) : XQ cid s (updCall s cid f) :=
  ⟨updR_updCall (CWx.refl cid) s cid f hf (fun _ c _ e hn => absurd e hn), rfl, rfl, rfl, rfl, rfl, rfl, rfl⟩

theorem qwk_cqPush (s : St) (i : Nat) : QWk s (cqPush s i) := by
  unfold cqPush
  split
  · exact QWk.refl _
  · simp only
    split
    · exact (qwk_wakeDispatch _).after (by qwk_rfl)
    · qwk_rfl

theorem qwk_afterCallGone (s : St) : QWk s (afterCallGone s) := by
  unfold afterCallGone
  split
  · simp only
    have h1 : QWk s (if s.pqRxWaker then wakeDispatch { s with pqRxWaker := false } else s) := by
      split
      · exact (qwk_wakeDispatch _).after (by qwk_rfl)
      · exact QWk.refl s
    generalize (if s.pqRxWaker then wakeDispatch { s with pqRxWaker := false } else s) = s1 at h1 ⊢
    split
    · exact h1.trans ((by qwk_rfl : QWk s1 { s1 with cqRxWaker := false }).trans (qwk_wakeDispatch _))
    · exact h1
  · exact QWk.refl s

theorem xq_resolve (s : St) (cid : Nat) (o : Outcome) (now : Nat) : XQ cid s (resolve s cid o now) := by
  unfold resolve
  simp only
  exact (((qwk_afterCallGone _).after (qwk_emit _ _)).xq cid).after (xq_updCall s cid _ (fun _ => rfl))

theorem xq_failShutdown (s : St) (cid id now : Nat) : XQ cid s (failShutdown s cid id now) := by
  unfold failShutdown
  simp only
  exact (xq_resolve _ _ _ _).after (((qwk_cqPush _ _).xq cid).after
    ((xq_updCall _ cid _ (fun _ => rfl) : XQ cid _ (guardClose _ cid)).after ((qwk_osDropTx _ _).xq cid)))

theorem xq_pollOneshot (s : St) (cid now : Nat) : XQ cid s (pollOneshot s cid now) := by
  unfold pollOneshot
  split
  · exact XQ.refl _ _
  · split
    · exact (xq_resolve _ _ _ _).after (xq_updCall s cid _ (fun _ => rfl))
    · split
      · exact xq_resolve _ _ _ _
      · exact ((qwk_emit _ _).xq cid).after (xq_updCall s cid _ (fun _ => rfl))

/-! #### where call `cid` is -/

/-- `X` is the call with id `cid` -/
def At (cid : Nat) (X : Call) (s : St) : Prop := X ∈ s.calls ∧ X.cid = cid ∧ ∀ c ∈ s.calls, c.cid = cid → c = X

theorem At.of_getCall {s : St} (hu : CUniq s) {cid : Nat} {X : Call} (hg : getCall s cid = some X) : At cid X s :=
  ⟨(getCall_some hg).1, (getCall_some hg).2, fun c hc e => hu.eq_of_getCall hg hc e⟩

theorem At.get {s : St} {cid : Nat} {X : Call} (h : At cid X s) : getCall s cid = some X := by
  cases hg : getCall s cid with
  | none => exact absurd h.2.1 (getCall_none hg X h.1)
  | some c1 =>
    obtain ⟨hm, he⟩ := getCall_some hg
    rw [h.2.2 c1 hm he]

theorem At.map {s s' : St} {cid : Nat} {X : Call} (h : At cid X s) (g : Call → Call) (hg : ∀ c, (g c).cid = c.cid)
    (e : s'.calls = s.calls.map g) : At cid (g X) s' := by
  refine ⟨by rw [e]; exact List.mem_map_of_mem h.1, by rw [hg]; exact h.2.1, ?_⟩
  intro c' hc' ec
  rw [e] at hc'
  obtain ⟨c, hc, rfl⟩ := List.mem_map.mp hc'
  rw [h.2.2 c hc (by rw [← hg]; exact ec)]

theorem At.of_calls {s s' : St} {cid : Nat} {X : Call} (h : At cid X s) (e : s'.calls = s.calls) : At cid X s' := by
  unfold At; rw [e]; exact h

theorem updFn_cid (w : Nat) (f : Call → Call) (hf : ∀ c, (f c).cid = c.cid) (c : Call) : (updFn w f c).cid = c.cid := by
  unfold updFn; split
  · exact hf c
  · rfl

theorem At.upd {s : St} {cid : Nat} {X : Call} (h : At cid X s) (f : Call → Call) (hf : ∀ c, (f c).cid = c.cid) :
    At cid (f X) (updCall s cid f) := by
  have := h.map (updFn cid f) (updFn_cid cid f hf) (s' := updCall s cid f) rfl
  have e : updFn cid f X = f X := by unfold updFn; rw [if_pos (by simpa using h.2.1)]
  rw [e] at this; exact this

theorem At.upd_ne {s : St} {cid w : Nat} {X : Call} (h : At cid X s) (hne : w ≠ cid) (f : Call → Call)
    (hf : ∀ c, (f c).cid = c.cid) : At cid X (updCall s w f) := by
  have := h.map (updFn w f) (updFn_cid w f hf) (s' := updCall s w f) rfl
  have e : updFn w f X = X := by
    unfold updFn; rw [if_neg]; rw [h.2.1]; simpa using fun e => hne e.symm
  rw [e] at this; exact this

theorem At.qwk {s s' : St} {cid : Nat} {X : Call} (hu : CUniq s) (h : At cid X s) (q : QWk s s') :
    ∃ X', At cid X' s' ∧ CWk X X' := by
  obtain ⟨g, e, hc, r⟩ := q.calls
  exact ⟨g X, h.map g hc e, r hu X h.1⟩

theorem afterCallGone_calls (s : St) : (afterCallGone s).calls = s.calls := by
  unfold afterCallGone
  split
  · simp only
    split <;> split <;> simp
  · rfl

theorem cqPush_calls (s : St) (i : Nat) : (cqPush s i).calls = s.calls := by
  unfold cqPush
  split
  · rfl
  · simp only
    split <;> simp

def resolveFn (o : Outcome) (c : Call) : Call :=
  { c with phase := .resolved, outcome := some o, woken := false, os := { c.os with rxClosed := true, rxWaker := false } }

theorem At.res {s : St} {cid : Nat} {X : Call} (h : At cid X s) (o : Outcome) (now : Nat) :
    At cid (resolveFn o X) (resolve s cid o now) := by
  unfold resolve
  simp only
  refine (h.upd (resolveFn o) (fun _ => rfl)).of_calls ?_
  rw [afterCallGone_calls]; rfl

theorem At.failSh {s : St} (hu : CUniq s) {cid : Nat} {X : Call} (h : At cid X s) (id now : Nat) :
    ∃ X', At cid X' (failShutdown s cid id now) ∧ X'.phase = .resolved := by
  unfold failShutdown
  simp only
  obtain ⟨X1, a1, _⟩ := h.qwk hu (qwk_osDropTx s cid)
  have a2 : At cid _ (guardClose (osDropTx s cid) cid) := a1.upd _ (fun _ => rfl)
  have a3 := a2.of_calls (cqPush_calls (guardClose (osDropTx s cid) cid) id)
  exact ⟨_, a3.res .shutdown now, rfl⟩

def rxWakerFn (c : Call) : Call := { c with os := { c.os with rxWaker := true } }

theorem At.oneshot {s : St} {cid : Nat} {X : Call} (h : At cid X s) (now : Nat) :
    ∃ X', At cid X' (pollOneshot s cid now) ∧
      (X'.phase = .resolved ∨ (X' = rxWakerFn X ∧ X.os.val = none ∧ X.os.txDropped = false)) := by
  unfold pollOneshot
  rw [h.get]
  simp only
  cases hv : X.os.val with
  | some o =>
    simp only
    exact ⟨_, (h.upd (fun c => { c with os := { c.os with val := none } }) (fun _ => rfl)).res o now, Or.inl rfl⟩
  | none =>
    simp only
    split
    · exact ⟨_, h.res .shutdown now, Or.inl rfl⟩
    · rename_i htx
      refine ⟨rxWakerFn X, (h.upd rxWakerFn (fun _ => rfl)).of_calls rfl, Or.inr ⟨rfl, (by first | rfl | trivial), by simpa using htx⟩⟩

theorem pqPush_chan (s : St) (r : DReq) :
    (pqPush s r).calls = s.calls ∧ (pqPush s r).pq = s.pq ++ [r] ∧ (pqPush s r).pqAvail = s.pqAvail ∧
    (pqPush s r).pqWaiters = s.pqWaiters ∧ (pqPush s r).pqAssigned = s.pqAssigned ∧ (pqPush s r).pqClosed = s.pqClosed ∧
    (pqPush s r).dDropped = s.dDropped ∧ (pqPush s r).bufCap = s.bufCap := by
  unfold pqPush
  simp only
  split <;> simp

def awaitFn (c : Call) : Call := { c with phase := .awaiting }

/-- `enqueue`: the request is pushed, the call ends up `awaiting` with its waker registered — or resolved -/
theorem enqueue_spec {s : St} {cid : Nat} {X : Call} (h : At cid X s) (c : Call) (hc : c.cid = cid) (now : Nat) :
    UpdR (CWx cid) s (enqueue s c now) ∧
    (enqueue s c now).pq = s.pq ++ [{ cid := c.cid, id := c.id, ctx := { deadline := c.ctx.deadline, trace := c.trace }, body := c.body }] ∧
    (enqueue s c now).pqAvail = s.pqAvail ∧ (enqueue s c now).pqWaiters = s.pqWaiters ∧
    (enqueue s c now).pqAssigned = s.pqAssigned ∧ (enqueue s c now).pqClosed = s.pqClosed ∧
    (enqueue s c now).dDropped = s.dDropped ∧ (enqueue s c now).bufCap = s.bufCap ∧
    ∃ X', At cid X' (enqueue s c now) ∧
      (X'.phase = .resolved ∨ (X' = rxWakerFn (awaitFn X) ∧ X.os.val = none ∧ X.os.txDropped = false)) := by
  unfold enqueue
  simp only
  rw [hc]
  obtain ⟨p0, p1, p2, p3, p4, p5, p6, p7⟩ := pqPush_chan s { cid := cid, id := c.id, ctx := { deadline := c.ctx.deadline, trace := c.trace }, body := c.body }
  have a1 : At cid X (pqPush s { cid := cid, id := c.id, ctx := { deadline := c.ctx.deadline, trace := c.trace }, body := c.body }) :=
    h.of_calls p0
  have x1 : UpdR (CWx cid) s (pqPush s { cid := cid, id := c.id, ctx := { deadline := c.ctx.deadline, trace := c.trace }, body := c.body }) :=
    UpdR.of_calls (CWx.refl cid) p0
  generalize pqPush s { cid := cid, id := c.id, ctx := { deadline := c.ctx.deadline, trace := c.trace }, body := c.body } = s1
    at p0 p1 p2 p3 p4 p5 p6 p7 a1 x1
  have a2 : At cid (awaitFn X) (updCall s1 cid awaitFn) := a1.upd awaitFn (fun _ => rfl)
  have x2 : XQ cid s1 (updCall s1 cid awaitFn) := xq_updCall s1 cid awaitFn (fun _ => rfl)
  have x3 := x2.trans (xq_pollOneshot (updCall s1 cid awaitFn) cid now)
  obtain ⟨X', a3, hX'⟩ := a2.oneshot now
  refine ⟨UpdR.trans (R := CWx cid) (fun _ _ _ x y => CWx.trans x y) x1 x3.calls, x3.pq.trans p1, x3.pqAvail.trans p2,
    x3.pqWaiters.trans p3, x3.pqAssigned.trans p4, x3.pqClosed.trans p5, x3.dDropped.trans p6,
    x3.bufCap.trans p7, X', a3, ?_⟩
  rcases hX' with e | ⟨e1, e2, e3⟩
  · exact Or.inl e
  · exact Or.inr ⟨e1, e2, e3⟩

/-! #### the step lemma -/

theorem WOk.of_dead {D : Option Nat} {s : St} {c : Call} (h : c.phase = .resolved ∨ c.phase = .dropped) : WOk D s c := by
  refine ⟨fun hp => ?_, fun hp => ?_, fun hp => ?_⟩ <;> (rcases h with h | h <;> rw [h] at hp <;> cases hp)

/-- **One call changes.**  The obligations about the changed call and about the channel lists are the caller's. -/
theorem WkI.call_step {D D' : Option Nat} {k k' : Nat} {s s' : St} {cid : Nat} (hu : CUniq s) (h : WkI D k s)
    (x : UpdR (CWx cid) s s')
    (hD : ∀ d, d ≠ cid → D = some d → D' = some d)
    (hW : ∀ w, w ≠ cid → (w ∈ s'.pqWaiters ↔ w ∈ s.pqWaiters))
    (hA : ∀ w, w ≠ cid → (w ∈ s'.pqAssigned ↔ w ∈ s.pqAssigned))
    (hC : s.pqClosed = true → s'.pqClosed = true)
    (hnew : ∀ c' ∈ s'.calls, c'.cid = cid → WOk D' s' c')
    (hasg : cid ∈ s'.pqAssigned → ∃ c' ∈ s'.calls, c'.cid = cid ∧ c'.phase = .reserving ∧ c'.woken = true)
    (hwt : cid ∈ s'.pqWaiters → ∃ c' ∈ s'.calls, c'.cid = cid ∧ c'.phase = .reserving)
    (hdx : ∀ d, D' = some d → d ∉ s'.pqWaiters ∧ d ∉ s'.pqAssigned)
    (hp1 : s'.pqWaiters ≠ [] → s'.pqAvail = 0 ∧ s'.pqClosed = false)
    (hp2 : s'.pqClosed = false → s'.pqAvail + s'.pq.length + s'.pqAssigned.length + k' = s'.bufCap)
    (hndA : s'.pqAssigned.Nodup) (hndW : s'.pqWaiters.Nodup)
    (hdj : ∀ w ∈ s'.pqWaiters, w ∉ s'.pqAssigned)
    (hdc : s'.dDropped = true → s'.pqClosed = true) (hbc : 1 ≤ s'.bufCap) : WkI D' k' s' := by
  refine ⟨?_, ?_, ?_, hdx, hp1, hp2, hndA, hndW, hdj, hdc, hbc⟩
  · intro c' hc'
    by_cases e : c'.cid = cid
    · exact hnew c' hc' e
    · obtain ⟨c, hc, w, ec⟩ := x.bwd hu hc'
      have hne : c.cid ≠ cid := by rw [← ec]; exact e
      refine (h.calls c hc).step (w hne) ?_ (fun m => Or.inl ((hW c.cid hne).mpr m)) (fun m => (hA c.cid hne).mpr m) hC
      intro hd hd0
      apply hd
      rw [hD c.cid hne hd0.symm]
  · intro w hm
    by_cases e : w = cid
    · subst e; exact hasg hm
    · obtain ⟨c, hc, a1, a2, a3⟩ := h.asg w ((hA w e).mp hm)
      obtain ⟨c', hc', wk, ec⟩ := x.fwd hu hc
      have hne : c.cid ≠ cid := by rw [a1]; exact e
      exact ⟨c', hc', by rw [ec, a1], by rw [(wk hne).2.1, a2], (wk hne).2.2.2.1 a3⟩
  · intro w hm
    by_cases e : w = cid
    · subst e; exact hwt hm
    · obtain ⟨c, hc, a1, a2⟩ := h.wt w ((hW w e).mp hm)
      obtain ⟨c', hc', wk, ec⟩ := x.fwd hu hc
      have hne : c.cid ≠ cid := by rw [a1]; exact e
      exact ⟨c', hc', by rw [ec, a1], by rw [(wk hne).2.1, a2]⟩

/-- **One call changes, the channel is left alone.** -/
theorem WkI.call_same {D D' : Option Nat} {k : Nat} {s s' : St} {cid : Nat} (hu : CUniq s) (h : WkI D k s) (x : XQ cid s s')
    (hD : ∀ d, d ≠ cid → D = some d → D' = some d)
    (hnew : ∀ c' ∈ s'.calls, c'.cid = cid → WOk D' s' c')
    (hasg : cid ∈ s.pqAssigned → ∃ c' ∈ s'.calls, c'.cid = cid ∧ c'.phase = .reserving ∧ c'.woken = true)
    (hwt : cid ∈ s.pqWaiters → ∃ c' ∈ s'.calls, c'.cid = cid ∧ c'.phase = .reserving)
    (hdx : ∀ d, D' = some d → d ∉ s.pqWaiters ∧ d ∉ s.pqAssigned) : WkI D' k s' := by
  refine h.call_step hu x.calls hD (fun w _ => by rw [x.pqWaiters]) (fun w _ => by rw [x.pqAssigned])
    (fun hc => by rw [x.pqClosed]; exact hc) hnew (fun hm => hasg (by rw [← x.pqAssigned]; exact hm))
    (fun hm => hwt (by rw [← x.pqWaiters]; exact hm)) (by rw [x.pqWaiters, x.pqAssigned]; exact hdx) ?_ ?_
    (by rw [x.pqAssigned]; exact h.ndA) (by rw [x.pqWaiters]; exact h.ndW) ?_ ?_ (by rw [x.bufCap]; exact h.bc)
  · rw [x.pqWaiters, x.pqAvail, x.pqClosed]; exact h.p1
  · rw [x.pqClosed, x.pqAvail, x.pq, x.pqAssigned, x.bufCap]; exact h.p2
  · rw [x.pqWaiters, x.pqAssigned]; exact h.dj
  · rw [x.dDropped, x.pqClosed]; exact h.dc

/-- a call that is neither waiting for a permit nor holding one is in neither list -/
theorem WkI.not_in_lists {D : Option Nat} {k : Nat} {s : St} (hu : CUniq s) (h : WkI D k s) {cid : Nat} {X : Call}
    (hat : At cid X s) (hph : X.phase ≠ .reserving) : cid ∉ s.pqWaiters ∧ cid ∉ s.pqAssigned := by
  constructor
  · intro hm
    obtain ⟨c, hc, e1, e2⟩ := h.wt cid hm
    rw [hat.2.2 c hc e1] at e2; exact hph e2
  · intro hm
    obtain ⟨c, hc, e1, e2, _⟩ := h.asg cid hm
    rw [hat.2.2 c hc e1] at e2; exact hph e2

/-! #### polling a call future -/

theorem mem_filter_ne {l : List Nat} {a w : Nat} : w ∈ l.filter (· != a) ↔ w ∈ l ∧ w ≠ a := by
  simp [List.mem_filter]

theorem filter_ne_of_not_mem {l : List Nat} {a : Nat} (h : a ∉ l) : l.filter (· != a) = l := by
  rw [List.filter_eq_self]
  intro x hx
  simp only [bne_iff_ne, ne_eq]
  intro e; subst e; exact h hx

theorem nodup_filter_ne_length {l : List Nat} (hn : l.Nodup) {a : Nat} (ha : a ∈ l) :
    (l.filter (· != a)).length + 1 = l.length := by
  induction l with
  | nil => cases ha
  | cons b l ih =>
    obtain ⟨hb, hn'⟩ := List.nodup_cons.mp hn
    by_cases e : b = a
    · subst e
      have : (b :: l).filter (· != b) = l := by
        simp only [List.filter_cons, bne_self_eq_false, Bool.false_eq_true, ↓reduceIte]
        exact filter_ne_of_not_mem hb
      rw [this]; rfl
    · have ha' : a ∈ l := by
        rcases List.mem_cons.mp ha with h | h
        · exact absurd h.symm e
        · exact h
      have : (b :: l).filter (· != a) = b :: l.filter (· != a) := by
        simp [List.filter_cons, e]
      rw [this]
      simp only [List.length_cons]
      have := ih hn' ha'
      omega

theorem not_or_true {a b : Bool} (h : ¬ (a || b) = true) : a = false ∧ b = false := by
  cases a <;> cases b <;> simp_all

def assignFn (s : St) (c0 : Call) (c' : Call) : Call :=
  { c' with id := s.nextId, trace := { c0.ctx.trace with span := .fresh s.nextFresh }, woken := false }

theorem assignId_spec (s : St) (cid : Nat) (c0 : Call) :
    XQ cid s (assignId s cid c0) ∧ ∀ X, At cid X s → At cid (assignFn s c0 X) (assignId s cid c0) := by
  unfold assignId
  refine ⟨((by qwk_rfl : QWk s { s with nextFresh := s.nextFresh + 1, nextId := s.nextId + 1 }).xq cid).trans
    (xq_updCall _ cid _ (fun _ => rfl)), fun X hX => ?_⟩
  exact (hX.of_calls (s' := { s with nextFresh := s.nextFresh + 1, nextId := s.nextId + 1 }) rfl).upd (assignFn s c0) (fun _ => rfl)

/-- **Polling a call future preserves the invariant.** -/
theorem wki_pollCall {s : St} (hu : CUniq s) (h : WkI none 0 s) (cid now : Nat) : WkI none 0 (pollCall s cid now) := by
  cases hg : getCall s cid with
  | none => unfold pollCall; rw [hg]; exact h.qw hu (qwk_emit _ _)
  | some c0 =>
    have hat : At cid c0 s := At.of_getCall hu hg
    have hok := h.calls c0 hat.1
    have hcid : c0.cid = cid := hat.2.1
    cases hph : c0.phase with
    | resolved => unfold pollCall; simp only [hg, hph]; exact h.qw hu (qwk_emit _ _)
    | dropped => unfold pollCall; simp only [hg, hph]; exact h.qw hu (qwk_emit _ _)
    | awaiting =>
      rw [pollCall_awaiting hg hph]
      have x1 : XQ cid s (updCall s cid (fun c => { c with woken := false })) := xq_updCall s cid _ (fun _ => rfl)
      have a1 : At cid { c0 with woken := false } (updCall s cid (fun c => { c with woken := false })) :=
        hat.upd (fun c => { c with woken := false }) (fun _ => rfl)
      obtain ⟨X', a2, hX'⟩ := a1.oneshot now
      have x2 := x1.trans (xq_pollOneshot (updCall s cid (fun c => { c with woken := false })) cid now)
      have hnl := h.not_in_lists hu hat (by rw [hph]; simp)
      refine h.call_same hu x2 (fun _ _ e => by cases e) ?_ (fun hm => absurd hm hnl.2) (fun hm => absurd hm hnl.1)
        (fun _ e => by cases e)
      intro c' hc' e
      rw [a2.2.2 c' hc' e]
      rcases hX' with e1 | ⟨e1, e2, e3⟩
      · exact WOk.of_dead (Or.inl e1)
      · subst e1
        have hrx := (hok.2.2 hph (by simp)).1
        refine ⟨fun hp => ?_, fun hp => ?_, fun _ _ => ⟨hrx, fun _ => ⟨rfl, e2, e3⟩⟩⟩
        · have : c0.phase = .notPolled := hp
          rw [hph] at this; cases this
        · have : c0.phase = .reserving := hp
          rw [hph] at this; cases this
    | notPolled =>
      rw [pollCall_notPolled hg hph]
      obtain ⟨xa, ata⟩ := assignId_spec s cid c0
      have ata := ata c0 hat
      have hnl := h.not_in_lists hu hat (by rw [hph]; simp)
      have hrx : c0.os.rxClosed = false := (hok.1 hph).2
      generalize assignId s cid c0 = a at xa ata
      have hua : CUniq a := xa.calls.cuniq hu
      split
      · -- the channel is closed
        obtain ⟨X', a2, hX'⟩ := ata.failSh hua s.nextId now
        refine h.call_same hu (xa.trans (xq_failShutdown a cid s.nextId now)) (fun _ _ e => by cases e) ?_
          (fun hm => absurd hm hnl.2) (fun hm => absurd hm hnl.1) (fun _ e => by cases e)
        intro c' hc' e
        rw [a2.2.2 c' hc' e]
        exact WOk.of_dead (Or.inl hX')
      · rename_i hc
        obtain ⟨hcl, hdd⟩ := not_or_true hc
        rw [xa.pqClosed] at hcl
        split
        · -- a permit is available: the request is queued
          rename_i hav
          rw [xa.pqAvail] at hav
          have ata' : At cid (assignFn s c0 c0) ({ a with pqAvail := a.pqAvail - 1 } : St) := ata.of_calls rfl
          obtain ⟨x2, e1, e2, e3, e4, e5, e6, e7, X', a2, hX'⟩ :=
            enqueue_spec ata' (assignedCall s c0) hcid now
          have xx : UpdR (CWx cid) s (enqueue { a with pqAvail := a.pqAvail - 1 } (assignedCall s c0) now) :=
            UpdR.trans (R := CWx cid) (fun _ _ _ x y => CWx.trans x y) xa.calls x2
          have e2' : (enqueue { a with pqAvail := a.pqAvail - 1 } (assignedCall s c0) now).pqAvail = s.pqAvail - 1 := by
            rw [e2]; show a.pqAvail - 1 = _; rw [xa.pqAvail]
          have e1' : (enqueue { a with pqAvail := a.pqAvail - 1 } (assignedCall s c0) now).pq.length = s.pq.length + 1 := by
            rw [e1]; show (a.pq ++ _).length = _; rw [xa.pq]; simp
          have e3' := e3.trans xa.pqWaiters
          have e4' := e4.trans xa.pqAssigned
          have e5' := e5.trans xa.pqClosed
          have e6' := e6.trans xa.dDropped
          have e7' := e7.trans xa.bufCap
          have hw0 : s.pqWaiters = [] := by
            cases hw : s.pqWaiters with
            | nil => rfl
            | cons w r => have := (h.p1 (by rw [hw]; simp)).1; omega
          refine h.call_step hu xx (fun _ _ e => by cases e) (fun w _ => by rw [e3']) (fun w _ => by rw [e4'])
            (fun hc' => by rw [e5']; exact hc') ?_ (fun hm => absurd (e4' ▸ hm) hnl.2) (fun hm => absurd (e3' ▸ hm) hnl.1)
            (fun _ e => by cases e) ?_ ?_ (by rw [e4']; exact h.ndA) (by rw [e3']; exact h.ndW) ?_ ?_ (by rw [e7']; exact h.bc)
          · intro c' hc' e
            rw [a2.2.2 c' hc' e]
            rcases hX' with r1 | ⟨r1, r2, r3⟩
            · exact WOk.of_dead (Or.inl r1)
            · subst r1
              refine ⟨(fun hp => by cases hp), (fun hp => by cases hp), fun _ _ => ⟨hrx, fun _ => ⟨rfl, r2, r3⟩⟩⟩
          · intro hne; rw [e3', hw0] at hne; exact absurd rfl hne
          · intro hc'
            rw [e5'] at hc'
            have := h.p2 hc'
            rw [e2', e1', e4', e7']
            omega
          · rw [e3', e4']; exact h.dj
          · rw [e6', e5']; exact h.dc
        · -- no permit: the call joins the wait queue
          rename_i hav
          rw [xa.pqAvail] at hav
          have x3 : UpdR (CWx cid) s (emit (updCall { a with pqWaiters := a.pqWaiters ++ [cid] } cid
              (fun c => { c with phase := .reserving })) (.ret (.call cid) .pending)) :=
            UpdR.trans (R := CWx cid) (fun _ _ _ x y => CWx.trans x y) xa.calls
              (xq_updCall { a with pqWaiters := a.pqWaiters ++ [cid] } cid (fun c => { c with phase := .reserving }) (fun _ => rfl)).calls
          have a3 : At cid { assignFn s c0 c0 with phase := .reserving } (emit (updCall { a with pqWaiters := a.pqWaiters ++ [cid] } cid
              (fun c => { c with phase := .reserving })) (.ret (.call cid) .pending)) :=
            ((ata.of_calls (s' := { a with pqWaiters := a.pqWaiters ++ [cid] }) rfl).upd
              (fun c => { c with phase := .reserving }) (fun _ => rfl)).of_calls rfl
          have ew : (emit (updCall { a with pqWaiters := a.pqWaiters ++ [cid] } cid
              (fun c => { c with phase := .reserving })) (.ret (.call cid) .pending)).pqWaiters = s.pqWaiters ++ [cid] := by
            show a.pqWaiters ++ [cid] = _; rw [xa.pqWaiters]
          have ea : (emit (updCall { a with pqWaiters := a.pqWaiters ++ [cid] } cid
              (fun c => { c with phase := .reserving })) (.ret (.call cid) .pending)).pqAssigned = s.pqAssigned := xa.pqAssigned
          have ec : (emit (updCall { a with pqWaiters := a.pqWaiters ++ [cid] } cid
              (fun c => { c with phase := .reserving })) (.ret (.call cid) .pending)).pqClosed = s.pqClosed := xa.pqClosed
          have ev : (emit (updCall { a with pqWaiters := a.pqWaiters ++ [cid] } cid
              (fun c => { c with phase := .reserving })) (.ret (.call cid) .pending)).pqAvail = s.pqAvail := xa.pqAvail
          have eq : (emit (updCall { a with pqWaiters := a.pqWaiters ++ [cid] } cid
              (fun c => { c with phase := .reserving })) (.ret (.call cid) .pending)).pq = s.pq := xa.pq
          have ed : (emit (updCall { a with pqWaiters := a.pqWaiters ++ [cid] } cid
              (fun c => { c with phase := .reserving })) (.ret (.call cid) .pending)).dDropped = s.dDropped := xa.dDropped
          have eb : (emit (updCall { a with pqWaiters := a.pqWaiters ++ [cid] } cid
              (fun c => { c with phase := .reserving })) (.ret (.call cid) .pending)).bufCap = s.bufCap := xa.bufCap
          generalize emit (updCall { a with pqWaiters := a.pqWaiters ++ [cid] } cid
              (fun c => { c with phase := .reserving })) (.ret (.call cid) .pending) = s' at x3 a3 ew ea ec ev eq ed eb
          refine h.call_step hu x3 (fun _ _ e => by cases e) (fun w hw => by rw [ew]; simp [hw]) (fun w _ => by rw [ea])
            (fun hc' => by rw [ec]; exact hc') ?_ (fun hm => absurd (ea ▸ hm) hnl.2) (fun _ => ⟨_, a3.1, a3.2.1, rfl⟩)
            (fun _ e => by cases e) ?_ ?_ (by rw [ea]; exact h.ndA) ?_ ?_ (by rw [ed, ec]; exact h.dc) (by rw [eb]; exact h.bc)
          · intro c' hc' e
            rw [a3.2.2 c' hc' e]
            refine ⟨(fun hp => by cases hp), fun _ _ => ⟨hrx, Or.inl ?_⟩, (fun hp => by cases hp)⟩
            rw [ew]; show c0.cid ∈ _; rw [hcid]; simp
          · intro _
            rw [ev, ec]
            exact ⟨by omega, hcl⟩
          · intro hc'
            rw [ev, eq, ea, eb]; exact h.p2 (by rw [← ec]; exact hc')
          · rw [ew, List.nodup_append]
            refine ⟨h.ndW, by simp, ?_⟩
            intro x hx y hy
            have : y = cid := by simpa using hy
            subst this
            intro e; subst e; exact hnl.1 hx
          · intro w hm
            rw [ew] at hm; rw [ea]
            rcases List.mem_append.mp hm with hm | hm
            · exact h.dj w hm
            · have : w = cid := by simpa using hm
              subst this; exact hnl.2
    | reserving =>
      rw [pollCall_reserving hg hph]
      have xa : XQ cid s (updCall s cid (fun c => { c with woken := false })) := xq_updCall s cid _ (fun _ => rfl)
      have ata : At cid { c0 with woken := false } (updCall s cid (fun c => { c with woken := false })) :=
        hat.upd (fun c => { c with woken := false }) (fun _ => rfl)
      obtain ⟨hrx, hwa⟩ := hok.2.1 hph (by simp)
      rw [hcid] at hwa
      generalize updCall s cid (fun c => { c with woken := false }) = a at xa ata
      have hua : CUniq a := xa.calls.cuniq hu
      split
      · -- the channel is closed: the `Acquire` fails
        rename_i hc
        have hcl : s.pqClosed = true := by
          rw [← xa.pqClosed]
          cases hx : a.pqClosed with
          | true => rfl
          | false =>
            rw [hx, Bool.false_or] at hc
            have := h.dc (by rw [← xa.dDropped]; exact hc)
            rw [← xa.pqClosed, hx] at this; cases this
        have hw0 : s.pqWaiters = [] := by
          cases hw : s.pqWaiters with
          | nil => rfl
          | cons w r => have := (h.p1 (by rw [hw]; simp)).2; rw [hcl] at this; cases this
        have ata' : At cid { c0 with woken := false } ({ a with pqAssigned := a.pqAssigned.filter (fun x => x != cid), pqWaiters := a.pqWaiters.filter (fun x => x != cid), pqAvail := (if a.pqAssigned.contains cid then a.pqAvail + 1 else a.pqAvail) } : St) := ata.of_calls rfl
        have x1 : UpdR (CWx cid) s ({ a with pqAssigned := a.pqAssigned.filter (fun x => x != cid), pqWaiters := a.pqWaiters.filter (fun x => x != cid), pqAvail := (if a.pqAssigned.contains cid then a.pqAvail + 1 else a.pqAvail) } : St) :=
          UpdR.trans (R := CWx cid) (fun _ _ _ x y => CWx.trans x y) xa.calls (UpdR.of_calls (CWx.refl cid) rfl)
        have ew : ({ a with pqAssigned := a.pqAssigned.filter (fun x => x != cid), pqWaiters := a.pqWaiters.filter (fun x => x != cid), pqAvail := (if a.pqAssigned.contains cid then a.pqAvail + 1 else a.pqAvail) } : St).pqWaiters = [] := by
          show a.pqWaiters.filter (fun x => x != cid) = []; rw [xa.pqWaiters, hw0]; rfl
        have ea : ({ a with pqAssigned := a.pqAssigned.filter (fun x => x != cid), pqWaiters := a.pqWaiters.filter (fun x => x != cid), pqAvail := (if a.pqAssigned.contains cid then a.pqAvail + 1 else a.pqAvail) } : St).pqAssigned = s.pqAssigned.filter (fun x => x != cid) := by
          show a.pqAssigned.filter (fun x => x != cid) = _; rw [xa.pqAssigned]
        have ec : ({ a with pqAssigned := a.pqAssigned.filter (fun x => x != cid), pqWaiters := a.pqWaiters.filter (fun x => x != cid), pqAvail := (if a.pqAssigned.contains cid then a.pqAvail + 1 else a.pqAvail) } : St).pqClosed = true := by
          show a.pqClosed = true; rw [xa.pqClosed]; exact hcl
        have eb : ({ a with pqAssigned := a.pqAssigned.filter (fun x => x != cid), pqWaiters := a.pqWaiters.filter (fun x => x != cid), pqAvail := (if a.pqAssigned.contains cid then a.pqAvail + 1 else a.pqAvail) } : St).bufCap = s.bufCap := xa.bufCap
        generalize ({ a with pqAssigned := a.pqAssigned.filter (fun x => x != cid), pqWaiters := a.pqWaiters.filter (fun x => x != cid), pqAvail := (if a.pqAssigned.contains cid then a.pqAvail + 1 else a.pqAvail) } : St) = b at ata' x1 ew ea ec eb
        have hub : CUniq b := x1.cuniq hu
        obtain ⟨X', a2, hX'⟩ := ata'.failSh hub c0.id now
        have x2 := xq_failShutdown b cid c0.id now
        have xx : UpdR (CWx cid) s (failShutdown b cid c0.id now) :=
          UpdR.trans (R := CWx cid) (fun _ _ _ x y => CWx.trans x y) x1 x2.calls
        refine h.call_step hu xx (fun _ _ e => by cases e) (fun w _ => by rw [x2.pqWaiters, ew, hw0])
          (fun w hw => by rw [x2.pqAssigned, ea, mem_filter_ne]; simp [hw]) (fun _ => by rw [x2.pqClosed]; exact ec) ?_
          (fun hm => by rw [x2.pqAssigned, ea, mem_filter_ne] at hm; exact absurd rfl hm.2)
          (fun hm => by rw [x2.pqWaiters, ew] at hm; cases hm) (fun _ e => by cases e)
          (fun hne => by rw [x2.pqWaiters, ew] at hne; exact absurd rfl hne)
          (fun hc' => by rw [x2.pqClosed, ec] at hc'; cases hc')
          (by rw [x2.pqAssigned, ea]; exact h.ndA.filter _) (by rw [x2.pqWaiters, ew]; exact List.nodup_nil)
          (fun w hm => by rw [x2.pqWaiters, ew] at hm; cases hm) (fun _ => by rw [x2.pqClosed]; exact ec)
          (by rw [x2.bufCap, eb]; exact h.bc)
        intro c' hc' e
        rw [a2.2.2 c' hc' e]
        exact WOk.of_dead (Or.inl hX')
      · rename_i hc
        obtain ⟨hcl, hdd⟩ := not_or_true hc
        rw [xa.pqClosed] at hcl
        split
        · -- the permit was handed over: the request is queued
          rename_i has
          have has' : cid ∈ s.pqAssigned := by
            rw [← xa.pqAssigned]; simpa using has
          have hnw : cid ∉ s.pqWaiters := fun hm => h.dj cid hm has'
          have ata' : At cid { c0 with woken := false } ({ a with pqAssigned := a.pqAssigned.filter (fun x => x != cid) } : St) :=
            ata.of_calls rfl
          obtain ⟨x2, e1, e2, e3, e4, e5, e6, e7, X', a2, hX'⟩ := enqueue_spec ata' c0 hcid now
          have xx : UpdR (CWx cid) s (enqueue { a with pqAssigned := a.pqAssigned.filter (fun x => x != cid) } c0 now) :=
            UpdR.trans (R := CWx cid) (fun _ _ _ x y => CWx.trans x y) xa.calls x2
          have e1' : (enqueue { a with pqAssigned := a.pqAssigned.filter (fun x => x != cid) } c0 now).pq.length = s.pq.length + 1 := by
            rw [e1]; show (a.pq ++ _).length = _; rw [xa.pq]; simp
          have e2' := e2.trans xa.pqAvail
          have e3' := e3.trans xa.pqWaiters
          have e4' : (enqueue { a with pqAssigned := a.pqAssigned.filter (fun x => x != cid) } c0 now).pqAssigned = s.pqAssigned.filter (fun x => x != cid) := by
            rw [e4]; show a.pqAssigned.filter (fun x => x != cid) = _; rw [xa.pqAssigned]
          have e5' := e5.trans xa.pqClosed
          have e6' := e6.trans xa.dDropped
          have e7' := e7.trans xa.bufCap
          refine h.call_step hu xx (fun _ _ e => by cases e) (fun w _ => by rw [e3'])
            (fun w hw => by rw [e4', mem_filter_ne]; simp [hw]) (fun hc' => by rw [e5']; exact hc') ?_
            (fun hm => by rw [e4', mem_filter_ne] at hm; exact absurd rfl hm.2) (fun hm => absurd (e3' ▸ hm) hnw)
            (fun _ e => by cases e) (by rw [e3', e2', e5']; exact h.p1) ?_ (by rw [e4']; exact h.ndA.filter _)
            (by rw [e3']; exact h.ndW) ?_ (by rw [e6', e5']; exact h.dc) (by rw [e7']; exact h.bc)
          · intro c' hc' e
            rw [a2.2.2 c' hc' e]
            rcases hX' with r1 | ⟨r1, r2, r3⟩
            · exact WOk.of_dead (Or.inl r1)
            · subst r1
              refine ⟨(fun hp => by cases hp), (fun hp => by cases hp), fun _ _ => ⟨hrx, fun _ => ⟨rfl, r2, r3⟩⟩⟩
          · intro hc'
            rw [e5'] at hc'
            have := h.p2 hc'
            have hl := nodup_filter_ne_length h.ndA has'
            rw [e2', e1', e4', e7']
            omega
          · intro w hm
            rw [e3'] at hm; rw [e4', mem_filter_ne]
            exact fun x => h.dj w hm x.1
        · -- still waiting
          rename_i has
          have has' : cid ∉ s.pqAssigned := by
            rw [← xa.pqAssigned]; simpa using has
          have hin : cid ∈ s.pqWaiters := by
            rcases hwa with x | ⟨_, x | x⟩
            · exact x
            · exact absurd x has'
            · rw [hcl] at x; cases x
          refine h.call_same hu (xa.trans ((qwk_emit a _).xq cid)) (fun _ _ e => by cases e) ?_
            (fun hm => absurd hm has') (fun _ => ⟨_, (ata.of_calls (s' := emit a _) rfl).1, hcid, hph⟩) (fun _ e => by cases e)
          intro c' hc' e
          rw [(ata.of_calls (s' := emit a (.ret (.call cid) .pending)) rfl).2.2 c' hc' e]
          refine ⟨fun hp => ?_, fun _ _ => ⟨hrx, Or.inl ?_⟩, fun hp => ?_⟩
          · have : c0.phase = .notPolled := hp
            rw [hph] at this; cases this
          · show c0.cid ∈ (emit a (.ret (.call cid) .pending)).pqWaiters
            rw [hcid]; show cid ∈ a.pqWaiters; rw [xa.pqWaiters]; exact hin
          · have : c0.phase = .awaiting := hp
            rw [hph] at this; cases this

/-! #### dropping a call future -/

/-- the future that is being dropped becomes exempt -/
theorem wki_mark {k : Nat} {s : St} {cid : Nat} (h : WkI none k s) (hnl : cid ∉ s.pqWaiters ∧ cid ∉ s.pqAssigned) :
    WkI (some cid) k s := by
  refine ⟨fun c hc => ?_, h.asg, h.wt, (fun d hd => by cases hd; exact hnl), h.p1, h.p2, h.ndA, h.ndW, h.dj, h.dc, h.bc⟩
  obtain ⟨a, b, d⟩ := h.calls c hc
  exact ⟨a, fun hp _ => b hp (by simp), fun hp _ => d hp (by simp)⟩

theorem wki_unmark {k : Nat} {s : St} {cid : Nat} (h : WkI (some cid) k s) (hc : ∀ c ∈ s.calls, c.cid = cid → WOk none s c) :
    WkI none k s := by
  refine ⟨fun c hm => ?_, h.asg, h.wt, (fun d hd => by cases hd), h.p1, h.p2, h.ndA, h.ndW, h.dj, h.dc, h.bc⟩
  by_cases e : c.cid = cid
  · exact hc c hm e
  · obtain ⟨a, b, d⟩ := h.calls c hm
    have hne : some c.cid ≠ some cid := by simpa using e
    exact ⟨a, fun hp _ => b hp hne, fun hp _ => d hp hne⟩

theorem dropPre_eq_self {s : St} {cid : Nat} (h : ∀ c, getCall s cid = some c → c.phase ≠ .reserving) : dropPre s cid = s := by
  unfold dropPre
  cases hg : getCall s cid with
  | none => rfl
  | some c =>
    have := h c hg
    cases hph : c.phase <;> simp_all

theorem dropClose_eq_self {s : St} {cid : Nat}
    (h : ∀ c, getCall s cid = some c → c.phase ≠ .reserving ∧ c.phase ≠ .awaiting) : dropClose s cid = s := by
  unfold dropClose
  cases hg : getCall s cid with
  | none => rfl
  | some c =>
    have := h c hg
    cases hph : c.phase <;> simp_all

theorem dropCancel_eq_self {s : St} {cid : Nat}
    (h : ∀ c, getCall s cid = some c → c.phase ≠ .reserving ∧ c.phase ≠ .awaiting) : dropCancel s cid = s := by
  unfold dropCancel
  cases hg : getCall s cid with
  | none => rfl
  | some c =>
    have := h c hg
    cases hph : c.phase <;> simp_all

/-- `Acquire::drop` of a future that waits for a permit: it leaves the lists (a permit it held goes back) -/
theorem wki_dropPre_reserving {s : St} {cid : Nat} {c0 : Call} (hu : CUniq s) (h : WkI none 0 s)
    (hg : getCall s cid = some c0) (hph : c0.phase = .reserving) :
    CUniq (dropPre s cid) ∧ WkI (some cid) 0 (dropPre s cid) := by
  have hat : At cid c0 s := At.of_getCall hu hg
  have e : dropPre s cid = osDropTx (if s.pqAssigned.contains cid = true then
      pqRelease { s with pqAssigned := s.pqAssigned.filter (fun x => x != cid), pqWaiters := s.pqWaiters.filter (fun x => x != cid) }
      else { s with pqAssigned := s.pqAssigned.filter (fun x => x != cid), pqWaiters := s.pqWaiters.filter (fun x => x != cid) }) cid := by
    unfold dropPre; rw [hg]; simp only [hph]
  rw [e]
  have base : ∀ k', (s.pqClosed = false → s.pqAvail + s.pq.length + (s.pqAssigned.filter (fun x => x != cid)).length + k' = s.bufCap) →
      WkI (some cid) k' ({ s with pqAssigned := s.pqAssigned.filter (fun x => x != cid), pqWaiters := s.pqWaiters.filter (fun x => x != cid) } : St) := by
    intro k' hp2
    refine h.call_step hu (cid := cid) (UpdR.of_calls (CWx.refl cid) rfl) (fun _ _ e => by cases e)
      (fun w hw => by show w ∈ s.pqWaiters.filter _ ↔ _; rw [mem_filter_ne]; simp [hw])
      (fun w hw => by show w ∈ s.pqAssigned.filter _ ↔ _; rw [mem_filter_ne]; simp [hw]) id ?_
      (fun hm => by have hm' : cid ∈ s.pqAssigned.filter (fun x => x != cid) := hm; rw [mem_filter_ne] at hm'; exact absurd rfl hm'.2)
      (fun hm => by have hm' : cid ∈ s.pqWaiters.filter (fun x => x != cid) := hm; rw [mem_filter_ne] at hm'; exact absurd rfl hm'.2)
      ?_ ?_ hp2 (h.ndA.filter _) (h.ndW.filter _) ?_ h.dc h.bc
    · intro c' hc' e
      have : c' = c0 := hat.2.2 c' hc' e
      subst this
      refine ⟨fun hp => ?_, fun _ hd => ?_, fun _ hd => ?_⟩
      · rw [hph] at hp; cases hp
      · exact absurd (by rw [e]) hd
      · exact absurd (by rw [e]) hd
    · intro d hd
      cases hd
      constructor
      · intro hm; have hm' : cid ∈ s.pqWaiters.filter (fun x => x != cid) := hm; rw [mem_filter_ne] at hm'; exact hm'.2 rfl
      · intro hm; have hm' : cid ∈ s.pqAssigned.filter (fun x => x != cid) := hm; rw [mem_filter_ne] at hm'; exact hm'.2 rfl
    · intro hne
      apply h.p1
      intro e0
      apply hne
      show s.pqWaiters.filter _ = []
      rw [e0]; rfl
    · intro w hm
      have hm' : w ∈ s.pqWaiters.filter (fun x => x != cid) := hm
      rw [mem_filter_ne] at hm'
      show w ∉ s.pqAssigned.filter _
      rw [mem_filter_ne]
      exact fun x => h.dj w hm'.1 x.1
  by_cases had : s.pqAssigned.contains cid = true
  · rw [if_pos had]
    have hin : cid ∈ s.pqAssigned := by simpa using had
    have h1 := base 1 (fun hc => by have := h.p2 hc; have := nodup_filter_ne_length h.ndA hin; omega)
    have u1 : CUniq ({ s with pqAssigned := s.pqAssigned.filter (fun x => x != cid), pqWaiters := s.pqWaiters.filter (fun x => x != cid) } : St) := hu
    have h2 := wki_pqRelease u1 h1
    have u2 := cuniq_of_cids (pqRelease_cids _) u1
    exact ⟨(qwk_osDropTx _ cid).cuniq u2, h2.qw u2 (qwk_osDropTx _ cid)⟩
  · rw [if_neg had]
    have hin : cid ∉ s.pqAssigned := by simpa using had
    have h1 := base 0 (fun hc => by have := h.p2 hc; rw [filter_ne_of_not_mem hin]; exact this)
    have u1 : CUniq ({ s with pqAssigned := s.pqAssigned.filter (fun x => x != cid), pqWaiters := s.pqWaiters.filter (fun x => x != cid) } : St) := hu
    exact ⟨(qwk_osDropTx _ cid).cuniq u1, h1.qw u1 (qwk_osDropTx _ cid)⟩

def guardFn (c : Call) : Call := { c with os := { c.os with rxClosed := true, rxWaker := false } }

theorem wku_dropClose_marked {s : St} {cid : Nat} (h : WkU (some cid) s) : WkU (some cid) (dropClose s cid) := by
  unfold dropClose
  cases hg : getCall s cid with
  | none => exact h
  | some c =>
    have hat : At cid c s := At.of_getCall h.1 hg
    have key : c.phase = .reserving ∨ c.phase = .awaiting → WkU (some cid) (guardClose s cid) := by
      intro hgd
      have x : XQ cid s (guardClose s cid) := xq_updCall s cid guardFn (fun _ => rfl)
      have a1 : At cid (guardFn c) (guardClose s cid) := hat.upd guardFn (fun _ => rfl)
      refine ⟨x.calls.cuniq h.1, h.2.call_same h.1 x (fun _ _ e => e) ?_ (fun hm => absurd hm (h.2.dx cid rfl).2)
        (fun hm => absurd hm (h.2.dx cid rfl).1) h.2.dx⟩
      intro c' hc' e
      rw [a1.2.2 c' hc' e]
      refine ⟨fun hp => ?_, fun _ hd => ?_, fun _ hd => ?_⟩
      · have hp' : c.phase = .notPolled := hp
        rcases hgd with g | g <;> (rw [g] at hp'; cases hp')
      · exact absurd (by show some (guardFn c).cid = some cid; rw [show (guardFn c).cid = c.cid from rfl, hat.2.1]) hd
      · exact absurd (by show some (guardFn c).cid = some cid; rw [show (guardFn c).cid = c.cid from rfl, hat.2.1]) hd
    dsimp only
    cases hph : c.phase <;> dsimp only <;> first | exact h | exact key (Or.inl hph) | exact key (Or.inr hph)

theorem wku_dropCancel {D : Option Nat} {s : St} {cid : Nat} (h : WkU D s) : WkU D (dropCancel s cid) := by
  unfold dropCancel
  cases hg : getCall s cid with
  | none => exact h
  | some c =>
    dsimp only
    cases hph : c.phase <;> dsimp only <;> first | exact h | exact h.qw (qwk_cqPush _ _)

def dropFn (c : Call) : Call := { c with phase := .dropped, woken := false }

/-- the future goes away: whatever it was exempt from no longer matters -/
theorem wku_dropFinish {D : Option Nat} {s : St} {cid : Nat} (h : WkU D s) (hD : D = none ∨ D = some cid)
    (hnl : cid ∉ s.pqWaiters ∧ cid ∉ s.pqAssigned) : WkU none (dropFinish s cid) := by
  have dead : (∀ c ∈ s.calls, c.cid = cid → c.phase = .resolved ∨ c.phase = .dropped) → WkU none (emit s .noop) := by
    intro hc
    have h1 := h.qw (qwk_emit s .noop)
    refine ⟨h1.1, ?_⟩
    rcases hD with e | e
    · subst e; exact h1.2
    · subst e
      exact wki_unmark h1.2 (fun c hm e => WOk.of_dead (hc c hm e))
  unfold dropFinish
  cases hg : getCall s cid with
  | none => exact dead (fun c hc e => absurd e (getCall_none hg c hc))
  | some c =>
    have hat : At cid c s := At.of_getCall h.1 hg
    have live : WkU none (afterCallGone (updCall s cid dropFn)) := by
      have x : XQ cid s (afterCallGone (updCall s cid dropFn)) :=
        ((qwk_afterCallGone _).xq cid).after (xq_updCall s cid dropFn (fun _ => rfl))
      have a1 : At cid (dropFn c) (afterCallGone (updCall s cid dropFn)) :=
        (hat.upd dropFn (fun _ => rfl)).of_calls (afterCallGone_calls _)
      refine ⟨x.calls.cuniq h.1, h.2.call_same h.1 x ?_ ?_ (fun hm => absurd hm hnl.2) (fun hm => absurd hm hnl.1)
        (fun _ e => by cases e)⟩
      · intro d hne e
        rcases hD with e' | e'
        · rw [e'] at e; cases e
        · rw [e'] at e; injection e with e; exact absurd e.symm hne
      · intro c' hc' e
        rw [a1.2.2 c' hc' e]
        exact WOk.of_dead (Or.inr rfl)
    dsimp only
    cases hph : c.phase <;> dsimp only <;> first | exact live | exact dead (fun c' hc' e => by rw [hat.2.2 c' hc' e]; simp [hph])

theorem dropCallG_false (s : St) (cid : Nat) (at_ : DropAt) (now : Nat) :
    dropCallG false s cid at_ now = dropFinish (dropCancel (dropClose (dropPre s cid) cid) cid) cid := by
  unfold dropCallG; simp

/-- **Dropping a call future preserves the invariant** (the dispatch may run at the guard's yield points). -/
theorem wku_dropCall {s : St} (h : WkU none s) (cid : Nat) (at_ : DropAt) (now : Nat) : WkU none (dropCall s cid at_ now) := by
  rw [dropCall_eq]
  have unguarded : (∀ c, getCall s cid = some c → c.phase ≠ .reserving ∧ c.phase ≠ .awaiting) →
      WkU none (dropCallG false s cid at_ now) := by
    intro hng
    rw [dropCallG_false, dropPre_eq_self (fun c hc => (hng c hc).1), dropClose_eq_self hng, dropCancel_eq_self hng]
    refine wku_dropFinish h (Or.inl rfl) ?_
    cases hg : getCall s cid with
    | none =>
      constructor
      · intro hm; obtain ⟨c, hc, e, _⟩ := h.2.wt cid hm; exact getCall_none hg c hc e
      · intro hm; obtain ⟨c, hc, e, _⟩ := h.2.asg cid hm; exact getCall_none hg c hc e
    | some c => exact h.2.not_in_lists h.1 (At.of_getCall h.1 hg) (hng c hg).1
  have tail : ∀ s1, WkU (some cid) s1 →
      WkU none (dropFinish (if (true && at_ == .exit) = true then
        pollDispatch (dropCancel (if (true && at_ == .mid) = true then
          pollDispatch (dropClose (if (true && at_ == .enter) = true then pollDispatch s1 now else s1) cid) now
          else dropClose (if (true && at_ == .enter) = true then pollDispatch s1 now else s1) cid) cid) now
        else dropCancel (if (true && at_ == .mid) = true then
          pollDispatch (dropClose (if (true && at_ == .enter) = true then pollDispatch s1 now else s1) cid) now
          else dropClose (if (true && at_ == .enter) = true then pollDispatch s1 now else s1) cid) cid) cid) := by
    intro s1 i1
    have step : ∀ (c : Bool) (s : St), WkU (some cid) s → WkU (some cid) (if c = true then pollDispatch s now else s) := by
      intro c s hs
      split
      · exact wku_pollDispatch hs now
      · exact hs
    have i2 := step (true && at_ == .enter) s1 i1
    generalize (if (true && at_ == .enter) = true then pollDispatch s1 now else s1) = s2 at i2
    have i3 := wku_dropClose_marked i2
    generalize dropClose s2 cid = s3 at i3
    have i4 := step (true && at_ == .mid) s3 i3
    generalize (if (true && at_ == .mid) = true then pollDispatch s3 now else s3) = s4 at i4
    have i5 : WkU (some cid) (dropCancel s4 cid) := wku_dropCancel i4
    generalize dropCancel s4 cid = s5 at i5
    have i6 := step (true && at_ == .exit) s5 i5
    generalize (if (true && at_ == .exit) = true then pollDispatch s5 now else s5) = s6 at i6
    exact wku_dropFinish i6 (Or.inr rfl) (i6.2.dx cid rfl)
  cases hg : getCall s cid with
  | none => simp only; exact unguarded (fun c hc => by rw [hg] at hc; cases hc)
  | some c0 =>
    simp only
    have hat : At cid c0 s := At.of_getCall h.1 hg
    cases hph : c0.phase with
    | notPolled => exact unguarded (fun c hc => by rw [hg] at hc; injection hc with hc; subst hc; rw [hph]; simp)
    | resolved => exact unguarded (fun c hc => by rw [hg] at hc; injection hc with hc; subst hc; rw [hph]; simp)
    | dropped => exact unguarded (fun c hc => by rw [hg] at hc; injection hc with hc; subst hc; rw [hph]; simp)
    | reserving =>
      show WkU none (dropCallG true s cid at_ now)
      unfold dropCallG
      simp only
      obtain ⟨u1, w1⟩ := wki_dropPre_reserving h.1 h.2 hg hph
      exact tail _ ⟨u1, w1⟩
    | awaiting =>
      show WkU none (dropCallG true s cid at_ now)
      unfold dropCallG
      simp only
      rw [dropPre_eq_self (fun c hc => by rw [hg] at hc; injection hc with hc; subst hc; rw [hph]; simp)]
      exact tail s ⟨h.1, wki_mark h.2 (h.2.not_in_lists h.1 hat (by rw [hph]; simp))⟩

/-! ### the other ops -/

theorem wki_newCall {s : St} (hu : CUniq s) (h : WkI none 0 s) (hd : Nat) (ctx : Ctx) (body : Nat) : WkI none 0 (newCall s hd ctx body) := by
  unfold newCall
  split
  · refine ⟨?_, ?_, ?_, h.dx, h.p1, h.p2, h.ndA, h.ndW, h.dj, h.dc, h.bc⟩
    · intro c hc
      rcases List.mem_append.mp hc with hc | hc
      · exact h.calls c hc
      · have : c = { cid := s.calls.length, ctx := ctx, body := body, trace := ctx.trace } := by simpa using hc
        subst this
        exact ⟨fun _ => ⟨rfl, rfl⟩, (fun hp => by cases hp), (fun hp => by cases hp)⟩
    · intro cid hm
      obtain ⟨c, hc, e⟩ := h.asg cid hm
      exact ⟨c, List.mem_append_left _ hc, e⟩
    · intro cid hm
      obtain ⟨c, hc, e⟩ := h.wt cid hm
      exact ⟨c, List.mem_append_left _ hc, e⟩
  · exact h.qw hu (qwk_emit _ _)

theorem qwk_liftT (s : St) (r : SimT × Bool) : QWk s (liftT s r) := by
  unfold liftT
  simp only
  split
  · exact (by qwk_rfl : QWk s { s with t := r.1 }).trans (qwk_wakeDispatch _)
  · qwk_rfl

theorem qwk_onAdvance (s : St) (now : Nat) : QWk s (onAdvance s now) := by
  unfold onAdvance
  split
  · split
    · exact (by qwk_rfl : QWk s { s with timers := { s.timers with waker := false } }).trans (qwk_wakeDispatch _)
    · exact QWk.refl _
  · exact QWk.refl _

theorem qwk_foldl_took (ms : List Msg) (s : St) : QWk s (ms.foldl (fun s m => emit s (.took (tid s) m)) s) :=
  qwk_foldl _ (fun s m => qwk_emit s _) ms s

/-- **One op of a script** preserves the wake-up discipline of the call futures and the permit accounting. -/
theorem wki_applyOp {c : Sys} (hi : Inv none (view c.s)) (h : WkI none 0 c.s) (op : COp) : WkI none 0 (applyOp c op).s := by
  have hu : CUniq c.s := cuniq_of_inv hi
  cases op with
  | call hd d tr b => exact wki_newCall hu h hd _ b
  | pollCall cid => exact wki_pollCall hu h cid c.now
  | dropCall cid site => exact (wku_dropCall ⟨hu, h⟩ cid site c.now).2
  | clone hd =>
    show WkI none 0 (cloneHandle c.s hd)
    unfold cloneHandle
    split
    · exact h.qw hu (by qwk_rfl)
    · exact h.qw hu (qwk_emit _ _)
  | dropHandle hd =>
    show WkI none 0 (dropHandle c.s hd)
    unfold dropHandle
    split
    · exact h.qw hu ((by qwk_rfl : QWk c.s { c.s with handles := c.s.handles.filter (fun x => x != hd) }).trans (qwk_afterCallGone _))
    · exact h.qw hu (qwk_emit _ _)
  | pollDispatch => exact (wku_pollDispatch ⟨hu, h⟩ c.now).2
  | dropDispatch => exact (wku_dropDispatch ⟨hu, h⟩).2
  | injectResp id res => exact h.qw hu (qwk_liftT _ _)
  | injectErr => exact h.qw hu (qwk_liftT _ _)
  | eof => exact h.qw hu (qwk_liftT _ _)
  | setReady b => exact h.qw hu (qwk_liftT _ _)
  | setFlush b => exact h.qw hu (qwk_liftT _ _)
  | fault k => exact h.qw hu (by qwk_rfl)
  | faultSkip n => exact h.qw hu (by qwk_rfl)
  | selfWake b => exact h.qw hu (by qwk_rfl)
  | take n =>
    exact h.qw hu ((by qwk_rfl : QWk c.s { c.s with t := (c.s.t.take n).1 }).trans (qwk_foldl_took _ _))
  | advance n => exact h.qw hu (qwk_onAdvance _ _)

theorem init_wk (k m b tc : Nat) (coupled : Bool) (hb : 1 ≤ b) : WkI none 0 (init k m b tc coupled) := by
  refine ⟨(fun c hc => by cases hc), (fun _ hm => by cases hm), (fun _ hm => by cases hm), (fun _ e => by cases e),
    (fun hne => absurd rfl hne), fun _ => ?_, List.nodup_nil, List.nodup_nil, (fun _ hm => by cases hm), (fun hd => by cases hd), hb⟩
  show b + 0 + 0 + 0 = b
  omega

/-- **The wake-up discipline of the call futures and the permit accounting hold in every reachable state**
(request queue of capacity at least 1). -/
theorem reach_wk (m b tc : Nat) (coupled : Bool) (ops : List COp) (hb : 1 ≤ b) :
    WkI none 0 (ops.foldl applyOp (initSys m b tc coupled)).s := by
  suffices H : ∀ (c : Sys), Inv none (view c.s) → WkI none 0 c.s → WkI none 0 (ops.foldl applyOp c).s from
    H _ (init_inv 0 m b tc coupled) (init_wk 0 m b tc coupled hb)
  induction ops with
  | nil => intro c _ h; exact h
  | cons op ops ih =>
    intro c hi h
    exact ih _ (applyOp_inv hi op) (wki_applyOp hi h op)

/-! ### a completed dispatch has been dropped -/

/-- a dispatch whose `poll` has returned `Ready` has been dropped (unless it panicked) -/
def DnI (s : St) : Prop := s.done.isSome = true → s.dDropped = true ∨ s.poisoned = true

theorem DnI.pqs {s s' : St} (h : DnI s) (r : PQS s s') : DnI s' := by
  intro hd
  rw [r.dn] at hd
  rw [r.dd, r.po]
  exact h hd

theorem dni_dropDispatch (s : St) : DnI (dropDispatch s) := by
  rw [dropDispatch_stages]
  split
  · rename_i hc
    intro _
    simp only [Bool.or_eq_true] at hc
    exact hc
  · intro _
    left
    show (dropI (dropQ (pqClose { s with dDropped := true, dWoken := false }))).dDropped = true
    rw [dropStages_dDropped]

/-- a dispatch poll establishes it: a future that returns `Ready` is dropped right away -/
theorem dni_pollDispatch (s : St) (now : Nat) : DnI (pollDispatch s now) := by
  rw [Flow.pollDispatch_eq]
  split
  · exact dni_dropDispatch _
  · rename_i hc
    intro hd
    left
    cases hx : (pollDispatchKeep s now).dDropped with
    | true => rfl
    | false => rw [hd, hx] at hc; simp at hc

theorem dni_dropCallG {s : St} (h : DnI s) (guarded : Bool) (cid : Nat) (at_ : DropAt) (now : Nat) :
    DnI (dropCallG guarded s cid at_ now) := by
  unfold dropCallG
  simp only
  have step : ∀ (c : Bool) (s : St), DnI s → DnI (if c = true then pollDispatch s now else s) := by
    intro c s hs
    split
    · exact dni_pollDispatch s now
    · exact hs
  have i1 : DnI (dropPre s cid) := h.pqs (pqs_dropPre s cid)
  generalize dropPre s cid = s1 at i1
  have i2 := step (guarded && at_ == .enter) s1 i1
  generalize (if (guarded && at_ == .enter) = true then pollDispatch s1 now else s1) = s2 at i2
  have i3 : DnI (dropClose s2 cid) := i2.pqs (pqs_dropClose s2 cid)
  generalize dropClose s2 cid = s3 at i3
  have i4 := step (guarded && at_ == .mid) s3 i3
  generalize (if (guarded && at_ == .mid) = true then pollDispatch s3 now else s3) = s4 at i4
  have i5 : DnI (dropCancel s4 cid) := i4.pqs (pqs_dropCancel s4 cid)
  generalize dropCancel s4 cid = s5 at i5
  have i6 := step (guarded && at_ == .exit) s5 i5
  generalize (if (guarded && at_ == .exit) = true then pollDispatch s5 now else s5) = s6 at i6
  exact i6.pqs (pqs_dropFinish s6 cid)

theorem DnI.of_same {s s' : St} (h : DnI s) (e1 : s'.done = s.done) (e2 : s'.dDropped = s.dDropped)
    (e3 : s'.poisoned = s.poisoned) : DnI s' := by
  intro hd; rw [e1] at hd; rw [e2, e3]; exact h hd

theorem liftT_flags (s : St) (r : SimT × Bool) :
    (liftT s r).done = s.done ∧ (liftT s r).dDropped = s.dDropped ∧ (liftT s r).poisoned = s.poisoned := by
  unfold liftT
  simp only
  split <;> simp

theorem dni_applyOp {c : Sys} (h : DnI c.s) (op : COp) : DnI (applyOp c op).s := by
  cases op with
  | call hd d tr b =>
    show DnI (newCall c.s hd _ b)
    unfold newCall; split
    · exact h.of_same rfl rfl rfl
    · exact h.of_same rfl rfl rfl
  | pollCall cid => exact h.pqs (pqs_pollCall c.s cid c.now)
  | dropCall cid site =>
    show DnI (dropCall c.s cid site c.now)
    rw [dropCall_eq]; exact dni_dropCallG h _ cid site c.now
  | clone hd =>
    show DnI (cloneHandle c.s hd)
    unfold cloneHandle; split
    · exact h.of_same rfl rfl rfl
    · exact h.of_same rfl rfl rfl
  | dropHandle hd =>
    show DnI (dropHandle c.s hd)
    unfold dropHandle; split
    · exact h.pqs ((pqs_afterCallGone _).after (.of_same rfl rfl rfl rfl rfl rfl rfl rfl rfl rfl rfl))
    · exact h.of_same rfl rfl rfl
  | pollDispatch => exact dni_pollDispatch c.s c.now
  | dropDispatch => exact dni_dropDispatch c.s
  | injectResp id res => exact h.of_same (liftT_flags _ _).1 (liftT_flags _ _).2.1 (liftT_flags _ _).2.2
  | injectErr => exact h.of_same (liftT_flags _ _).1 (liftT_flags _ _).2.1 (liftT_flags _ _).2.2
  | eof => exact h.of_same (liftT_flags _ _).1 (liftT_flags _ _).2.1 (liftT_flags _ _).2.2
  | setReady b => exact h.of_same (liftT_flags _ _).1 (liftT_flags _ _).2.1 (liftT_flags _ _).2.2
  | setFlush b => exact h.of_same (liftT_flags _ _).1 (liftT_flags _ _).2.1 (liftT_flags _ _).2.2
  | fault k => exact h.of_same rfl rfl rfl
  | faultSkip n => exact h.of_same rfl rfl rfl
  | selfWake b => exact h.of_same rfl rfl rfl
  | take n =>
    have q := qwk_foldl_took (c.s.t.take n).2 { c.s with t := (c.s.t.take n).1 }
    have e : ∀ (ms : List Msg) (s : St), (ms.foldl (fun s m => emit s (.took (tid s) m)) s).done = s.done ∧
        (ms.foldl (fun s m => emit s (.took (tid s) m)) s).dDropped = s.dDropped ∧
        (ms.foldl (fun s m => emit s (.took (tid s) m)) s).poisoned = s.poisoned := by
      intro ms
      induction ms with
      | nil => intro s; exact ⟨rfl, rfl, rfl⟩
      | cons m ms ih => intro s; simp only [List.foldl_cons]; obtain ⟨a, b, d⟩ := ih (emit s (.took (tid s) m)); exact ⟨a, b, d⟩
    obtain ⟨a, b, d⟩ := e (c.s.t.take n).2 { c.s with t := (c.s.t.take n).1 }
    exact h.of_same a b d
  | advance n =>
    show DnI (onAdvance c.s (c.now + n))
    unfold onAdvance
    split
    · split
      · exact h.of_same (by simp) (by simp) (by simp)
      · exact h
    · exact h

theorem reach_dn (m b tc : Nat) (coupled : Bool) (ops : List COp) : DnI (ops.foldl applyOp (initSys m b tc coupled)).s := by
  suffices H : ∀ (c : Sys), DnI c.s → DnI (ops.foldl applyOp c).s from H _ (fun hd => by cases hd)
  induction ops with
  | nil => intro c h; exact h
  | cons op ops ih => intro c h; exact ih _ (dni_applyOp h op)

end TarpcModel.Client
